import CaresModel.Proto.Search
/-! Helper lemmas for C12: the search walk (`searchLoop`, `gaiLoop`) expressed through the index of the
    first candidate that yields data or a hard error. -/
namespace Cares.Proto
open Cares.Text

theorem outcomeAt_zero (os : List Outcome) : outcomeAt os 0 = os.headD .etimeout := by
  cases os <;> rfl

theorem outcomeAt_succ (os : List Outcome) (i : Nat) : outcomeAt (os.drop 1) i = outcomeAt os (i + 1) := by
  cases os <;> simp [outcomeAt]

theorem soft_head (n : Name) (ns : List Name) (os : List Outcome) :
    soft ((n :: ns)[0]) (outcomeAt os 0) = soft n (os.headD .etimeout) := by
  rw [outcomeAt_zero]; rfl

theorem soft_succ (n : Name) (ns : List Name) (os : List Outcome) (j : Nat) (hj : j < ns.length) :
    soft ((n :: ns)[j + 1]'(by simp; omega)) (outcomeAt os (j + 1)) = soft ns[j] (outcomeAt (os.drop 1) j) := by
  rw [outcomeAt_succ]; rfl

theorem stopAt_spec (names : List Name) (os : List Outcome) (i : Nat) :
    stopAt names os = some i ↔
      ∃ h : i < names.length, soft names[i] (outcomeAt os i) = false ∧
        ∀ j (hj : j < i), soft (names[j]'(by omega)) (outcomeAt os j) = true := by
  induction names generalizing os i with
  | nil => simp [stopAt]
  | cons n ns ih =>
    unfold stopAt
    by_cases hs : soft n (os.headD .etimeout) = true
    · simp only [hs, Bool.not_true, Bool.false_eq_true, ↓reduceIte, Option.map_eq_some_iff]
      constructor
      · rintro ⟨k, hk, rfl⟩
        obtain ⟨hlt, h1, h2⟩ := (ih (os.drop 1) k).mp hk
        refine ⟨by simp only [List.length_cons]; omega, ?_, ?_⟩
        · rw [soft_succ n ns os k hlt]; exact h1
        · intro j hj
          cases j with
          | zero => rw [soft_head]; exact hs
          | succ j => rw [soft_succ n ns os j (by omega)]; exact h2 j (by omega)
      · rintro ⟨hlt, h1, h2⟩
        cases i with
        | zero => rw [soft_head, hs] at h1; simp at h1
        | succ k =>
          have hk : k < ns.length := by simp only [List.length_cons] at hlt; omega
          refine ⟨k, (ih (os.drop 1) k).mpr ⟨hk, ?_, ?_⟩, rfl⟩
          · rw [← soft_succ n ns os k hk]; exact h1
          · intro j hj
            rw [← soft_succ n ns os j (by omega)]; exact h2 (j + 1) (by omega)
    · have hs' : soft n (os.headD .etimeout) = false := by simpa using hs
      simp only [hs', Bool.not_false, ↓reduceIte, Option.some.injEq]
      constructor
      · rintro rfl
        exact ⟨by simp, by rw [soft_head]; exact hs', by intro j hj; omega⟩
      · rintro ⟨hlt, h1, h2⟩
        cases i with
        | zero => rfl
        | succ k =>
          have := h2 0 (by omega)
          rw [soft_head, hs'] at this; simp at this

theorem stopAt_none (names : List Name) (os : List Outcome) :
    stopAt names os = none ↔ ∀ j (hj : j < names.length), soft names[j] (outcomeAt os j) = true := by
  induction names generalizing os with
  | nil => simp [stopAt]
  | cons n ns ih =>
    unfold stopAt
    by_cases hs : soft n (os.headD .etimeout) = true
    · simp only [hs, Bool.not_true, Bool.false_eq_true, ↓reduceIte, Option.map_eq_none_iff]
      rw [ih]
      constructor
      · intro h j hj
        cases j with
        | zero => rw [soft_head]; exact hs
        | succ j =>
          have hj' : j < ns.length := by simp only [List.length_cons] at hj; omega
          rw [soft_succ n ns os j hj']; exact h j hj'
      · intro h j hj
        rw [← soft_succ n ns os j hj]; exact h (j + 1) (by simp only [List.length_cons]; omega)
    · have hs' : soft n (os.headD .etimeout) = false := by simpa using hs
      simp only [hs', Bool.not_false, ↓reduceIte, reduceCtorEq, false_iff]
      intro h
      have := h 0 (by simp)
      rw [soft_head, hs'] at this; simp at this

/-- the walk as a function of the stop index: names sent, and the final status -/
theorem searchLoop_spec (fixed : Bool) (names : List Name) (hne : names ≠ []) (os : List Outcome) (ever : Bool) (sent : List Name) :
    searchLoop fixed names os ever sent =
      (sent ++ takeUntilStop names os,
       match stopAt names os with
       | some i => outcomeAt os i
       | none =>
         let last := outcomeAt os (names.length - 1)
         let any := ever || anyNodata names.length os
         if fixed then (if any then .enodata else last)
         else (if last == .enotfound && any then .enodata else last)) := by
  induction names generalizing os ever sent with
  | nil => exact absurd rfl hne
  | cons n ns ih =>
    unfold searchLoop
    simp only
    by_cases hs : soft n (os.headD .etimeout) = true
    · simp only [hs, Bool.not_true, Bool.false_eq_true, ↓reduceIte]
      cases ns with
      | nil =>
        simp only [takeUntilStop, stopAt, hs, Bool.not_true, Bool.false_eq_true, ↓reduceIte, Option.map_none,
          List.length_cons, List.length_nil, Nat.zero_add, Nat.sub_self, outcomeAt_zero, anyNodata]
        cases fixed <;> simp [outcomeAt_zero]
      | cons m ms =>
        simp only
        rw [ih (by simp)]
        have e1 : takeUntilStop (n :: m :: ms) os = n :: takeUntilStop (m :: ms) (os.drop 1) := by
          unfold takeUntilStop
          conv => lhs; unfold stopAt
          simp only [hs, Bool.not_true, Bool.false_eq_true, ↓reduceIte]
          cases stopAt (m :: ms) (os.drop 1) <;> simp
        have e2 : stopAt (n :: m :: ms) os = (stopAt (m :: ms) (os.drop 1)).map (· + 1) := by
          conv => lhs; unfold stopAt
          simp only [hs, Bool.not_true, Bool.false_eq_true, ↓reduceIte]
        have e3 : ∀ k, anyNodata (k + 1) os = (os.headD .etimeout == .enodata || anyNodata k (os.drop 1)) := by
          intro k
          unfold anyNodata
          rw [List.range_succ_eq_map]
          simp only [List.any_cons, List.any_map, outcomeAt_zero]
          have : ((fun j => outcomeAt os j == Status.enodata) ∘ Nat.succ) =
              (fun j => outcomeAt (os.drop 1) j == Status.enodata) := by
            funext j; simp only [Function.comp, outcomeAt_succ]
          rw [this]
        rw [e1, e2]
        simp only [List.append_assoc, List.cons_append, List.nil_append, Prod.mk.injEq, true_and]
        cases hst : stopAt (m :: ms) (os.drop 1) with
        | some i =>
          simp only [Option.map_some]
          exact outcomeAt_succ os i
        | none =>
          simp only [Option.map_none, List.length_cons]
          rw [e3 (ms.length + 1)]
          have : outcomeAt (os.drop 1) (ms.length + 1 - 1) = outcomeAt os (ms.length + 1 + 1 - 1) := by
            rw [outcomeAt_succ]; congr 1
          rw [this]
          simp only [Bool.or_assoc]
    · have hs' : soft n (os.headD .etimeout) = false := by simpa using hs
      simp only [hs', Bool.not_false, ↓reduceIte, takeUntilStop, stopAt, outcomeAt_zero]
      simp

theorem gaiLoop_eq (names : List Name) (hne : names ≠ []) (os : List Outcome) (any : Bool) (sent : List Name) :
    gaiLoop names os any sent = searchLoop true names os any sent := by
  induction names generalizing os any sent with
  | nil => exact absurd rfl hne
  | cons n ns ih =>
    unfold gaiLoop searchLoop
    simp only
    split
    · rfl
    · cases ns with
      | nil => simp
      | cons m ms => simp only; exact ih (by simp) _ _ _

end Cares.Proto
