import CaresLemmas.ChanSockInv
import CaresLemmas.ChanSockAnswer
/-!
# The socket protocol of the channel model (C10): the invariant over whole runs
-/
namespace Cares.Chan

theorem sview_mk (cfg' : Cfg) (alive' : Bool) (now' : Nat) (servers' : List Server) (conns' : List Conn) (qs' : List Query) (nextKey' : Nat) (all' : List Nat) (byQid' : List (Nat × Nat)) (byTimeout' : List Nat) (listCopy' : List (List Nat)) (socks' : List VSock) (nextFd' : Nat) (faults' : List ScriptedFault) (pendingWl' : List Nat) (txs' : List Tx) (cache' : List CacheEntry) (reactions' : List (Nat × Reaction)) (pendingToks' : List Nat) (doneToks' : List Nat) (notifyPending' : Bool) (ev' : List String) (obs' : Obs) (modelFaults' : List String) (obsFaults' : List String) (outOfFuel' : Bool) (destroyed' : Bool) (destroying' : Bool) (selfVariant' : Nat) (lastQid' : Nat) (clients' : List Client) (nextClient' : Nat) (reactSeq' : Nat) (pendingOrder' : List Nat) (requeueArr' : List (Nat × Option Nat)) (writeLog' : List Nat) (notifyLog' : List (Nat × Bool × Bool)) (sockLog' : List (Nat × String)) (accepted' : List (Nat × Nat × Reply)) (picks' : List (Nat × Nat × Bool × List (Nat × Nat))) :
    St.sview (St.mk cfg' alive' now' servers' conns' qs' nextKey' all' byQid' byTimeout' listCopy' socks' nextFd' faults' pendingWl' txs' cache' reactions' pendingToks' doneToks' notifyPending' ev' obs' modelFaults' obsFaults' outOfFuel' destroyed' destroying' selfVariant' lastQid' clients' nextClient' reactSeq' pendingOrder' requeueArr' writeLog' notifyLog' sockLog' accepted' picks') = ⟨conns'.map ckey, sockLog', notifyLog', nextFd'⟩ := rfl

theorem sview_fold (s : St) : (⟨s.conns.map ckey, s.sockLog, s.notifyLog, s.nextFd⟩ : SView) = s.sview := rfl

attribute [chan_frame, sview_frame] sview_removeFromConn sview_detach sview_freeQuery sview_sqPrep

/-- discharge `X.conn? fd = some ?c` from a hypothesis about the same connection table -/
macro "sinv_conn" : tactic => `(tactic| (simp only [St.conn?, chan_frame] at *; assumption))

/-- one step of the invariant through a socket-touching primitive -/
macro "sinv_step" : tactic => `(tactic| first
  | ((with_reducible refine SInv_modConn ?_ _ _ ?_); rotate_left; (intro _; rfl); rotate_right)
  | ((with_reducible refine SInv_notify ?_ _ _ _ ?_); rotate_left; simp; rotate_right)
  | (with_reducible refine SInv_openConn ?_ _ _)
  | ((with_reducible refine SInv_slog (c := ?_) ?_ ?_ _ ?_); rotate_left 2; sinv_conn; decide; rotate_right)
  | ((with_reducible refine SInv_recordTx (c := ?_) ?_ ?_ _ _); rotate_left 2; sinv_conn; rotate_right)
  | ((with_reducible refine SInv_advanceOut _ _ _ _ ?_ ?_ ?_); rotate_left 2; sinv_conn; rotate_right))

syntax "sinv_peel " ident : tactic
macro_rules
  | `(tactic| sinv_peel $h) =>
    `(tactic| repeat (first
        | with_reducible assumption
        | with_reducible (apply $h)
        | (simp only [SInv, sview_frame, sview_mk, sview_fold])
        | sinv_step
        | (csplit <;> pair_subst)))

section
variable (w : Option (Nat × List (Bool × Bool))) (go : Call → St → St × Ret)
  (hgo : ∀ c s, SInv w s → SInv w (go c s).1)
include hgo

theorem bodyFlush_SInv (fd : Nat) (s : St) (h : SInv w s) : SInv w (bodyFlush go fd s).1 := by
  unfold bodyFlush
  sinv_peel hgo


theorem bodyCloseLoop_SInv (fd : Nat) (st : Status) (s : St) (h : SInv w s) : SInv w (bodyCloseLoop go fd st s).1 := by
  unfold bodyCloseLoop
  split
  · simpa only [SInv, chan_frame] using h
  · rename_i c hc
    split
    · sinv_peel hgo
    · exact SInv_closeFinal h hc

theorem sqFlush_SInv (fd : Nat) (s : St) (h : SInv w s) : SInv w (sqFlush go fd s).2 := by
  unfold sqFlush; sinv_peel hgo

theorem sqLink_SInv (pd : Bool) (key : Nat) (srv : Server) (fd : Nat) (s : St) (h : SInv w s) :
    SInv w (sqLink go pd key srv fd s).1 := by
  unfold sqLink; sinv_peel hgo

theorem sqWrite_SInv (reqSrv : Option Nat) (key : Nat) (q : Query) (srv : Server) (fd : Nat) (s : St)
    (h : SInv w s) : SInv w (sqWrite go reqSrv key q srv fd s).1 := by
  have h1 : SInv w (sqPrep key q srv fd s).1 := by simpa only [SInv, chan_frame] using h
  have h2 := sqFlush_SInv w go hgo fd _ h1
  unfold sqWrite
  simp only []
  split
  · exact sqLink_SInv w go hgo _ _ _ _ _ h2
  · exact hgo _ _ h2
  all_goals sinv_peel hgo

theorem bodySendQuery_SInv (reqSrv : Option Nat) (key : Nat) (s : St) (h : SInv w s) :
    SInv w (bodySendQuery go reqSrv key s).1 := by
  rw [bodySendQuery_eq]
  split
  · simpa only [SInv, chan_frame] using h
  · rename_i q _
    simp only []
    split
    · exact hgo _ _ (by simpa only [SInv, chan_frame] using h)
    · rename_i srv _
      have h0 : ∀ (x : List (Nat × Nat × Bool × List (Nat × Nat))),
          SInv w { (pickServer reqSrv s).2 with picks := x } := by
        intro x
        have : SInv w (pickServer reqSrv s).2 := by simpa only [SInv, chan_frame] using h
        simpa only [SInv, sview_mk, sview_fold] using this
      generalize ({ (pickServer reqSrv s).2 with picks := _ } : St) = s1 at h0 ⊢
      sorry

theorem paTail_SInv (fd : Nat) (r : Reply) (c : Conn) (key : Nat) (q : Query) (s : St) (h : SInv w s) :
    SInv w (paTail go fd r c key q s).1 := by
  unfold paTail
  sinv_peel hgo

theorem bodyProcessAnswer_SInv (fd : Nat) (r : Reply) (s : St) (h : SInv w s) :
    SInv w (bodyProcessAnswer go fd r s).1 := by
  cases hk : acceptKey s fd r with
  | some key =>
    obtain ⟨c, q, _, _, _, heq⟩ := bodyProcessAnswer_accept go hk
    rw [heq]
    exact paTail_SInv w go hgo fd r c key q _ h
  | none =>
    rcases bodyProcessAnswer_reject go hk with h' | ⟨e, h'⟩ | ⟨c, key, q, _, _, _, h'⟩
    · rw [h']; exact h
    · rw [h']; exact h
    · rw [h']; split
      · exact hgo _ _ h
      · exact h

theorem foldl_closeConn_SInv (fds : List Nat) (s : St) (h : SInv w s) :
    SInv w (fds.foldl (fun s fd => (go (.closeConn fd .ok) s).1) s) := by
  induction fds generalizing s with
  | nil => exact h
  | cons fd rest ih => exact ih _ (hgo _ _ h)

theorem execBody_SInv (c : Call) (s : St) (h : SInv w s) : SInv w (execBody go c s).1 := by
  cases c <;> simp only [execBody]
  case processAnswer fd r => exact bodyProcessAnswer_SInv w go hgo fd r s h
  case sendQuery r k => exact bodySendQuery_SInv w go hgo r k s h
  case flush fd => exact bodyFlush_SInv w go hgo fd s h
  case closeLoop fd st => exact bodyCloseLoop_SInv w go hgo fd st s h
  case destroy =>
    unfold bodyDestroy
    simp only []
    have : SInv w { s with destroying := true } := by simpa only [SInv, sview_mk, sview_fold] using h
    have h2 := foldl_closeConn_SInv w go hgo
      ((go (Call.cancelLoop Status.destruction true) { s with destroying := true }).1.sortedServers.map (·.conns)).flatten
      (go (Call.cancelLoop Status.destruction true) { s with destroying := true }).1
      (hgo (Call.cancelLoop Status.destruction true) { s with destroying := true } this)
    simpa only [SInv, sview_mk, sview_fold] using h2
  all_goals (unfold_body; sinv_peel hgo)

end
end Cares.Chan
