import CaresLemmas.ChanSockInv
import CaresLemmas.ChanSockAnswer
/-!
# The socket protocol of the channel model (C10): the invariant over whole runs
-/
namespace Cares.Chan


attribute [chan_frame, sview_frame] sview_removeFromConn sview_detach sview_freeQuery sview_sqPrep sview_sqLinkPre

/-- discharge `X.conn? fd = some ?c` from a hypothesis about the same connection table -/
macro "sinv_conn" : tactic => `(tactic| (simp only [St.conn?, chan_frame] at *; assumption))

/-- one step of the invariant through a socket-touching primitive -/
macro "sinv_step" : tactic => `(tactic| first
  | ((with_reducible refine SInv_modConn ?_ _ _ ?_); rotate_left; (intro _; rfl); rotate_right)
  | ((with_reducible refine SInv_notify ?_ _ _ _ ?_); rotate_left; simp; rotate_right)
  | (with_reducible refine SInv_openConn ?_ _ _)
  | ((with_reducible refine SInv_slog (c := ?_) ?_ ?_ _ ?_); rotate_left 2; sinv_conn; decide; rotate_right)
  | ((with_reducible refine SInv_recordTx (c := ?_) ?_ ?_ _ _); rotate_left 2; sinv_conn; rotate_right)
  | ((with_reducible refine SInv_advanceOut _ _ _ _ ?_ ?_ ?_); rotate_left 2; sinv_conn; rotate_right))

syntax "sinv_peel " ident : tactic
macro_rules
  | `(tactic| sinv_peel $h) =>
    `(tactic| repeat (first
        | with_reducible assumption
        | with_reducible (apply $h)
        | (simp only [SInv, sview_frame, sview_mk, sview_fold])
        | sinv_step
        | (csplit <;> pair_subst)))

section
variable (w : Option (Nat × List (Bool × Bool))) (go : Call → St → St × Ret)
  (hgo : ∀ c s, SInv w s → SInv w (go c s).1)
include hgo

theorem bodyFlush_SInv (fd : Nat) (s : St) (h : SInv w s) : SInv w (bodyFlush go fd s).1 := by
  unfold bodyFlush
  sinv_peel hgo


theorem bodyCloseLoop_SInv (fd : Nat) (st : Status) (s : St) (h : SInv w s) : SInv w (bodyCloseLoop go fd st s).1 := by
  unfold bodyCloseLoop
  split
  · simpa only [SInv, chan_frame] using h
  · rename_i c hc
    split
    · sinv_peel hgo
    · exact SInv_closeFinal h hc

theorem sqFlush_SInv (fd : Nat) (s : St) (h : SInv w s) : SInv w (sqFlush go fd s).2 := by
  unfold sqFlush; sinv_peel hgo

theorem sqLink_SInv (pd : Bool) (key : Nat) (srv : Server) (fd : Nat) (s : St) (h : SInv w s) :
    SInv w (sqLink go pd key srv fd s).1 := by
  unfold sqLink; sinv_peel hgo

theorem sqWriteQ_SInv (reqSrv : Option Nat) (key : Nat) (q : Query) (srv : Server) (fd : Nat) (s : St)
    (h : SInv w s) : SInv w (sqWriteQ go reqSrv key q srv fd s).1 := by
  have h1 : SInv w (sqPrepare key q srv fd s).1 := by simpa only [SInv, chan_frame] using h
  have h2 := sqFlush_SInv w go hgo fd _ h1
  unfold sqWriteQ
  simp only []
  split
  · exact sqLink_SInv w go hgo _ _ _ _ _ h2
  · exact hgo _ _ h2
  all_goals sinv_peel hgo

theorem bodySendQuery_SInv (reqSrv : Option Nat) (key : Nat) (s : St) (h : SInv w s) :
    SInv w (bodySendQuery go reqSrv key s).1 := by
  rw [bodySendQuery_stages]
  split
  · simpa only [SInv, chan_frame] using h
  · rename_i q _
    simp only []
    split
    · exact hgo _ _ (by simpa only [SInv, chan_frame] using h)
    · rename_i srv _
      generalize hs1 : ({ (pickServer reqSrv s).2 with picks := _ } : St) = s1
      have h1 : SInv w s1 := by
        rw [← hs1]
        simpa only [SInv, sview_mk, sview_fold, sview_frame] using h
      cases hfc : fetchConn s1 q srv with
      | some fd =>
        simp only []
        exact sqWriteQ_SInv w go hgo _ _ _ _ _ _ h1
      | none =>
        simp only []
        have h2 := SInv_openConn h1 q.usingTcp srv
        cases hr : (openConn s1 q.usingTcp srv).1 with
        | error st =>
          simp only []
          exact hgo _ _ (by simpa only [SInv, sview_frame] using h2)
        | ok fd =>
          simp only []
          exact sqWriteQ_SInv w go hgo _ _ _ _ _ _ h2

theorem paDeliver_SInv (fd : Nat) (r : Reply) (c : Conn) (key : Nat) (q : Query) (s : St) (h : SInv w s) :
    SInv w (paDeliver go fd r c key q s).1 := by
  unfold paDeliver
  sinv_peel hgo

theorem bodyProcessAnswer_SInv (fd : Nat) (r : Reply) (s : St) (h : SInv w s) :
    SInv w (bodyProcessAnswer go fd r s).1 := by
  cases hk : acceptKey s fd r with
  | some key =>
    obtain ⟨c, q, _, _, _, heq⟩ := bodyProcessAnswer_accept go hk
    rw [heq]
    exact paDeliver_SInv w go hgo fd r c key q _ h
  | none =>
    rcases bodyProcessAnswer_reject go hk with h' | ⟨e, h'⟩ | ⟨c, key, q, _, _, _, h'⟩
    · rw [h']; exact h
    · rw [h']; exact h
    · rw [h']; split
      · exact hgo _ _ h
      · exact h

theorem foldl_closeConn_SInv (fds : List Nat) (s : St) (h : SInv w s) :
    SInv w (fds.foldl (fun s fd => (go (.closeConn fd .ok) s).1) s) := by
  induction fds generalizing s with
  | nil => exact h
  | cons fd rest ih => exact ih _ (hgo _ _ h)

theorem execBody_SInv (c : Call) (s : St) (h : SInv w s) : SInv w (execBody go c s).1 := by
  cases c <;> simp only [execBody]
  case processAnswer fd r => exact bodyProcessAnswer_SInv w go hgo fd r s h
  case sendQuery r k => exact bodySendQuery_SInv w go hgo r k s h
  case flush fd => exact bodyFlush_SInv w go hgo fd s h
  case closeLoop fd st => exact bodyCloseLoop_SInv w go hgo fd st s h
  case destroy =>
    unfold bodyDestroy
    simp only []
    have : SInv w { s with destroying := true } := by simpa only [SInv, sview_mk, sview_fold] using h
    have h2 := foldl_closeConn_SInv w go hgo
      ((go (Call.cancelLoop Status.destruction true) { s with destroying := true }).1.sortedServers.map (·.conns)).flatten
      (go (Call.cancelLoop Status.destruction true) { s with destroying := true }).1
      (hgo (Call.cancelLoop Status.destruction true) { s with destroying := true } this)
    simpa only [SInv, sview_mk, sview_fold] using h2
  all_goals (unfold_body; sinv_peel hgo)

end

/-- **The socket-protocol invariant holds along every run** (any procedure, any fuel) -/
theorem exec_SInv (w : Option (Nat × List (Bool × Bool))) (fuel : Nat) (c : Call) (s : St) (h : SInv w s) :
    SInv w (exec fuel c s).1 :=
  exec_inv (SInv w) (fun s h => by simpa only [SInv, sview_frame] using h)
    (fun go hgo c s h => execBody_SInv w go hgo c s h) fuel c s h

/-- a channel without connections whose logs are empty satisfies the invariant -/
theorem SInv_init (s : St) (hc : s.conns = []) (hl : s.sockLog = []) (hn : s.notifyLog = []) : SInv none s := by
  refine ⟨?_, ?_, ?_, ?_, ?_, ?_, ?_, ?_, ?_⟩ <;>
    simp [St.sview, hc, hl, hn, fdState, nproj, NotifyOK.nil]

/-- once a descriptor is closed, its state and its notification stream never change again -/
theorem exec_closed_frozen (fuel : Nat) (c : Call) (s : St) (h : SInv none s) (fd : Nat)
    (hcl : fdState s.sockLog fd = .closed) :
    fdState (exec fuel c s).1.sockLog fd = .closed ∧
      nproj (exec fuel c s).1.notifyLog fd = nproj s.notifyLog fd := by
  have h' : SInv (some (fd, nproj s.notifyLog fd)) s :=
    ⟨h.notBad, h.connOpen, h.fresh, h.nodup, h.openHasConn, h.nOK, h.nLast, h.nFinal,
      fun p hp => by cases hp; exact ⟨hcl, rfl⟩⟩
  exact (exec_SInv _ fuel c s h').frozen _ rfl

end Cares.Chan
