import CaresLemmas.QcacheKey
/-!
# The cache invariant (helpers for C08)

`Op` = `insert | fetch | flush` with the instant carried by the operation; `runOps`; `CInv`: the expiry list is sorted,
every table entry points at a live list entry with that (folded) key, entry identities are unique, and every entry is
an accepted response stored under the key of its own request with `expire = insert + min(max_ttl, ttl)`.
-/
namespace Cares.Proto.Qcache
open Cares.Generated.Proto

def lk (e : Entry) : Chars := lowerAll e.key

/-! ### list helpers -/

theorem slistInsert_perm (e : Entry) (l : List Entry) : (slistInsert e l).Perm (e :: l) := by
  induction l with
  | nil => exact List.Perm.refl _
  | cons x xs ih =>
    simp only [slistInsert]
    split
    · exact (List.Perm.cons x ih).trans (List.Perm.swap e x xs)
    · exact List.Perm.refl _

theorem mem_slistInsert (e x : Entry) (l : List Entry) : x ∈ slistInsert e l ↔ x = e ∨ x ∈ l := by
  rw [(slistInsert_perm e l).mem_iff]; simp

def Sorted (l : List Entry) : Prop := l.Pairwise (fun a b => a.expireTs ≤ b.expireTs)

theorem sorted_slistInsert (e : Entry) (l : List Entry) (h : Sorted l) : Sorted (slistInsert e l) := by
  induction l with
  | nil => simp [slistInsert, Sorted]
  | cons x xs ih =>
    simp only [slistInsert]
    have hx := List.pairwise_cons.mp h
    split
    · rename_i hle
      refine List.pairwise_cons.mpr ⟨?_, ih hx.2⟩
      intro y hy
      rcases (mem_slistInsert e y xs).mp hy with rfl | hy
      · exact hle
      · exact hx.1 y hy
    · rename_i hlt
      refine List.pairwise_cons.mpr ⟨?_, h⟩
      intro y hy
      rcases List.mem_cons.mp hy with rfl | hy
      · omega
      · have := hx.1 y hy; omega

theorem uniq_eq {l : List Entry} (h : l.Pairwise (fun a b => a.eid ≠ b.eid)) {x y : Entry} (hx : x ∈ l) (hy : y ∈ l)
    (he : x.eid = y.eid) : x = y := by
  induction l with
  | nil => cases hx
  | cons a as ih =>
    have ha := List.pairwise_cons.mp h
    rcases List.mem_cons.mp hx with hxa | hx' <;> rcases List.mem_cons.mp hy with hya | hy'
    · rw [hxa, hya]
    · subst hxa; exact absurd he (ha.1 y hy')
    · subst hya; exact absurd he.symm (ha.1 x hx')
    · exact ih ha.2 hx' hy'

/-! ### table helpers -/

theorem mem_tableRemove (k : Chars) (t : List (Chars × Nat)) (p : Chars × Nat) :
    p ∈ tableRemove k t ↔ p ∈ t ∧ p.1 ≠ k := by
  simp [tableRemove]

theorem tableGet_some (k : Chars) (t : List (Chars × Nat)) (id : Nat) (h : tableGet k t = some id) : (k, id) ∈ t := by
  unfold tableGet at h
  cases hf : t.find? (fun p => p.1 = k) with
  | none => rw [hf] at h; cases h
  | some p =>
    rw [hf] at h
    simp only [Option.map_some, Option.some.injEq] at h
    have hm := List.mem_of_find?_eq_some hf
    have hp := List.find?_some hf
    simp only [decide_eq_true_eq] at hp
    rw [← hp, ← h]; exact hm

/-! ### the expiry loop -/

/-- `live t l`: every table entry points at a list entry with that key -/
def Live (t : List (Chars × Nat)) (l : List Entry) : Prop :=
  ∀ k id, (k, id) ∈ t → ∃ e ∈ l, e.eid = id ∧ lk e = k

theorem expireLoop_suffix (now : Int) (l : List Entry) (t : List (Chars × Nat)) :
    ∃ pre, l = pre ++ (expireLoop now l t).1 := by
  induction l generalizing t with
  | nil => exact ⟨[], rfl⟩
  | cons e es ih =>
    simp only [expireLoop]
    split
    · exact ⟨[], rfl⟩
    · obtain ⟨pre, h⟩ := ih (tableRemove (lowerAll e.key) t)
      exact ⟨e :: pre, by rw [List.cons_append, ← h]⟩

theorem expireLoop_live (now : Int) (l : List Entry) (t : List (Chars × Nat)) (h : Live t l) :
    Live (expireLoop now l t).2 (expireLoop now l t).1 := by
  induction l generalizing t with
  | nil => exact h
  | cons e es ih =>
    simp only [expireLoop]
    split
    · exact h
    · apply ih
      intro k id hm
      obtain ⟨hm1, hm2⟩ := (mem_tableRemove _ _ _).mp hm
      obtain ⟨e', he', h1, h2⟩ := h k id hm1
      rcases List.mem_cons.mp he' with rfl | he'
      · exact absurd h2 (fun hh => hm2 hh.symm)
      · exact ⟨e', he', h1, h2⟩

theorem expireLoop_fresh (now : Int) (l : List Entry) (t : List (Chars × Nat)) (h : Sorted l) :
    ∀ e ∈ (expireLoop now l t).1, e.expireTs > now := by
  induction l generalizing t with
  | nil => intro e he; cases he
  | cons x xs ih =>
    simp only [expireLoop]
    have hx := List.pairwise_cons.mp h
    split
    · rename_i hgt
      intro e he
      rcases List.mem_cons.mp he with rfl | he
      · exact hgt
      · have := hx.1 e he; omega
    · exact ih _ hx.2

theorem expireLoop_table_sub (now : Int) (l : List Entry) (t : List (Chars × Nat)) :
    ∀ p ∈ (expireLoop now l t).2, p ∈ t := by
  induction l generalizing t with
  | nil => intro p hp; exact hp
  | cons e es ih =>
    simp only [expireLoop]
    split
    · intro p hp; exact hp
    · intro p hp; exact ((mem_tableRemove _ _ _).mp (ih _ p hp)).1

theorem flushLoop_mem (l : List Entry) (t : List (Chars × Nat)) (p : Chars × Nat) (hp : p ∈ flushLoop l t) :
    p ∈ t ∧ ∀ e ∈ l, lk e ≠ p.1 := by
  induction l generalizing t with
  | nil => exact ⟨hp, by intro e he; cases he⟩
  | cons x xs ih =>
    simp only [flushLoop] at hp
    obtain ⟨h1, h2⟩ := ih _ hp
    obtain ⟨h3, h4⟩ := (mem_tableRemove _ _ _).mp h1
    refine ⟨h3, ?_⟩
    intro e he
    rcases List.mem_cons.mp he with rfl | he
    · exact fun hh => h4 hh.symm
    · exact h2 e he

theorem flushLoop_empty (l : List Entry) (t : List (Chars × Nat)) (h : Live t l) : flushLoop l t = [] := by
  apply List.eq_nil_iff_forall_not_mem.mpr
  intro p hp
  obtain ⟨h1, h2⟩ := flushLoop_mem l t p hp
  obtain ⟨e, he, _, hk⟩ := h p.1 p.2 h1
  exact h2 e he hk


/-! ### operations and the invariant -/

inductive Op where
  | insert (now : Int) (req : Req) (resp : Resp)
  | fetch (now : Int) (req : Req)
  | flush
deriving Repr

def stepOp (c : Cache) : Op → Cache
  | .insert now req resp => (insert c now req resp).1
  | .fetch now req => (fetch c now req).1
  | .flush => flush c

def runOps (c : Cache) : List Op → Cache
  | [] => c
  | op :: ops => runOps (stepOp c op) ops

/-- only requests the library can send and get an answer for are ever stored (the channel inserts after
    `same_questions` on a parsed response); looked-up requests are arbitrary API records -/
def OpOk : Op → Prop
  | .insert _ req _ => WireReq req
  | .fetch _ req => ApiReq req
  | .flush => True

structure EntryOk (maxTtl : Nat) (e : Entry) : Prop where
  key : e.key = calcKey e.req
  cacheable : cacheable e.resp = true
  ttl_pos : 0 < effTtl maxTtl e.resp
  expire : e.expireTs = e.insertTs + (effTtl maxTtl e.resp : Int)
  wire : WireReq e.req

structure CInv (c : Cache) : Prop where
  sorted : Sorted c.expire
  live : Live c.table c.expire
  ids : ∀ e ∈ c.expire, e.eid < c.nextId
  uniq : c.expire.Pairwise (fun a b => a.eid ≠ b.eid)
  ok : ∀ e ∈ c.expire, EntryOk c.maxTtl e

theorem cinv_empty (m : Nat) : CInv (Cache.empty m) where
  sorted := by unfold Sorted; exact List.Pairwise.nil
  live := by intro k id h; simp [Cache.empty] at h
  ids := by intro e h; simp [Cache.empty] at h
  uniq := List.Pairwise.nil
  ok := by intro e h; simp [Cache.empty] at h

theorem insert_maxTtl (c : Cache) (now req resp) : (insert c now req resp).1.maxTtl = c.maxTtl := by
  unfold insert; split
  · rfl
  · split
    · rfl
    · split <;> rfl

/-- what an accepted insert does -/
theorem insert_ok_shape (c : Cache) (now : Int) (req : Req) (resp : Resp) (h : (insert c now req resp).2 = .ok) :
    cacheable resp = true ∧ 0 < effTtl c.maxTtl resp ∧
    (insert c now req resp).1 =
      { c with nextId := c.nextId + 1,
               table := tableInsert (lowerAll (calcKey req)) c.nextId c.table,
               expire := slistInsert ⟨c.nextId, calcKey req, resp, now + (effTtl c.maxTtl resp : Int), now, req⟩ c.expire } := by
  unfold insert at h ⊢
  split at h
  · cases h
  · rename_i h1
    split at h
    · cases h
    · rename_i h2
      split at h
      · cases h
      · rename_i h3
        refine ⟨?_, by omega, ?_⟩
        · simp only [cacheable, Bool.and_eq_true, Bool.not_eq_true', decide_eq_true_eq]
          refine ⟨?_, by simpa using h2⟩
          by_cases hn : resp.rcode = RCODE_NOERROR
          · exact Or.inl hn
          · by_cases hx : resp.rcode = RCODE_NXDOMAIN
            · exact Or.inr hx
            · exact absurd ⟨hn, hx⟩ h1
        · simp [h1, h2, h3]

/-- a refused insert changes nothing -/
theorem insert_not_ok (c : Cache) (now : Int) (req : Req) (resp : Resp) (h : (insert c now req resp).2 ≠ .ok) :
    (insert c now req resp).1 = c := by
  unfold insert at h ⊢
  split
  · rfl
  · split
    · rfl
    · split
      · rfl
      · rename_i h1 h2 h3; simp [h1, h2, h3] at h

theorem cinv_insert (c : Cache) (now : Int) (req : Req) (resp : Resp) (h : CInv c) (hw : WireReq req) :
    CInv (insert c now req resp).1 := by
  by_cases hok : (insert c now req resp).2 = .ok
  · obtain ⟨hc, hp, hs⟩ := insert_ok_shape c now req resp hok
    rw [hs]
    generalize he : (⟨c.nextId, calcKey req, resp, now + (effTtl c.maxTtl resp : Int), now, req⟩ : Entry) = e
    have heid : e.eid = c.nextId := by rw [← he]
    refine ⟨sorted_slistInsert e _ h.sorted, ?_, ?_, ?_, ?_⟩
    · intro k id hm
      simp only [tableInsert, List.mem_cons] at hm
      rcases hm with hm | hm
      · refine ⟨e, (mem_slistInsert e e _).mpr (Or.inl rfl), ?_, ?_⟩
        · rw [heid]; exact (Prod.mk.inj hm).2.symm
        · rw [← he]; exact (Prod.mk.inj hm).1.symm
      · obtain ⟨e', he', h1, h2⟩ := h.live k id ((mem_tableRemove _ _ _).mp hm).1
        exact ⟨e', (mem_slistInsert e e' _).mpr (Or.inr he'), h1, h2⟩
    · intro x hx
      rcases (mem_slistInsert e x _).mp hx with rfl | hx
      · simp only [heid]; omega
      · have := h.ids x hx; simp only []; omega
    · rw [(slistInsert_perm e c.expire).pairwise_iff (fun hh => fun h2 => hh h2.symm)]
      refine List.pairwise_cons.mpr ⟨?_, h.uniq⟩
      intro x hx
      have := h.ids x hx
      rw [heid]; omega
    · intro x hx
      rcases (mem_slistInsert e x _).mp hx with rfl | hx
      · rw [← he]; exact ⟨rfl, hc, hp, rfl, hw⟩
      · exact h.ok x hx
  · rw [insert_not_ok c now req resp hok]; exact h

theorem cinv_expire (c : Cache) (now : Int) (h : CInv c) : CInv (expire c now) := by
  obtain ⟨pre, hpre⟩ := expireLoop_suffix now c.expire c.table
  have hsub : ∀ e ∈ (expireLoop now c.expire c.table).1, e ∈ c.expire := by
    intro e he; rw [hpre]; exact List.mem_append_right _ he
  have hsl : List.Sublist (expireLoop now c.expire c.table).1 c.expire := by
    conv => rhs; rw [hpre]
    exact List.sublist_append_right _ _
  exact ⟨List.Pairwise.sublist hsl h.sorted, expireLoop_live now _ _ h.live, fun e he => h.ids e (hsub e he),
         List.Pairwise.sublist hsl h.uniq, fun e he => h.ok e (hsub e he)⟩

theorem cinv_flush (c : Cache) (h : CInv c) : CInv (flush c) where
  sorted := by unfold Sorted; exact List.Pairwise.nil
  live := by
    simp only [flush, flushLoop_empty c.expire c.table h.live]
    intro k id hm; cases hm
  ids := by intro e he; simp [flush] at he
  uniq := List.Pairwise.nil
  ok := by intro e he; simp [flush] at he

theorem fetch_cache (c : Cache) (now : Int) (req : Req) : (fetch c now req).1 = expire c now := by
  unfold fetch
  simp only []
  split
  · rfl
  · split <;> rfl

theorem cinv_step (c : Cache) (op : Op) (h : CInv c) (hop : OpOk op) : CInv (stepOp c op) := by
  cases op with
  | insert now req resp => exact cinv_insert c now req resp h hop
  | fetch now req => simp only [stepOp, fetch_cache]; exact cinv_expire c now h
  | flush => exact cinv_flush c h

theorem cinv_run (ops : List Op) : ∀ (c : Cache), CInv c → (∀ op ∈ ops, OpOk op) → CInv (runOps c ops) := by
  induction ops with
  | nil => intro c h _; exact h
  | cons op ops ih =>
    intro c h hok
    exact ih _ (cinv_step c op h (hok op List.mem_cons_self)) (fun o ho => hok o (List.mem_cons_of_mem _ ho))
end Cares.Proto.Qcache
