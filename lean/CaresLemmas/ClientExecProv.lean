import CaresLemmas.ClientExecLog3
import CaresLemmas.ChanSockProv
/-!
# Provenance of the replies handed to `clientOnCb` (link to C05's `accepted` log)

Every reply with which a completion callback of a compound request is invoked (`.cb … (some r) …` in the log of
`execC`) is an accepted response — `(fd, key, r) ∈ accepted` — or a cache entry's record, itself an accepted response,
with its TTLs reduced by the time spent in the cache (`FromAcc`).  Proved by induction over `execC`, along the lines
of C05's `cache_provenance` (`exec_CacheProv`) and `*_hand_on_only_*`.
-/
namespace Cares.Chan

/-- `r` is an accepted response, or the aged copy of a cached one that is an accepted response -/
def FromAcc (acc : List (Nat × Nat × Reply)) (r : Reply) : Prop :=
  (∃ fd key, (fd, key, r) ∈ acc) ∨
  (∃ fd key r0 dec, (fd, key, r0) ∈ acc ∧ r = { r0 with ttls := r0.ttls.map (· - dec) })

theorem FromAcc.mono {acc acc' : List (Nat × Nat × Reply)} {r : Reply} (h : FromAcc acc r)
    (hs : ∀ e ∈ acc, e ∈ acc') : FromAcc acc' r := by
  rcases h with ⟨fd, key, h⟩ | ⟨fd, key, r0, dec, h, e⟩
  · exact .inl ⟨fd, key, hs _ h⟩
  · exact .inr ⟨fd, key, r0, dec, hs _ h, e⟩

/-- the replies of the completion callbacks in a log all come from `acc` -/
def CbsFrom (acc : List (Nat × Nat × Reply)) (L : CLog) : Prop :=
  ∀ id st t r qa qb, CItem.cb id st t (some r) qa qb ∈ L → FromAcc acc r

theorem CbsFrom.mono {acc acc' : List (Nat × Nat × Reply)} {L : CLog} (h : CbsFrom acc L)
    (hs : ∀ e ∈ acc, e ∈ acc') : CbsFrom acc' L :=
  fun id st t r qa qb hm => (h id st t r qa qb hm).mono hs

def PVv (base : List (Nat × Nat × Reply)) (L : CLog) (acc : List (Nat × Nat × Reply)) (cache : List CacheEntry) : Prop :=
  (∀ e ∈ base, e ∈ acc) ∧ CacheProvF cache acc ∧ CbsFrom acc L

abbrev PV (base : List (Nat × Nat × Reply)) (L : CLog) (s : St) : Prop := PVv base L s.accepted s.cache

/-- the specification of the recursive calls: a call that carries a response carries one that comes from `base` -/
abbrev GoPV (goC : GoC) : Prop :=
  ∀ c s L base, PV base L s → (∀ r, c.rec? = some r → FromAcc base r) → PV base (L ++ (goC c s).2) (goC c s).1.1

theorem PVv.rebase {base base' : List (Nat × Nat × Reply)} {L acc cache} (h : PVv base L acc cache)
    (hb : ∀ x ∈ base', x ∈ acc) : PVv base' L acc cache := ⟨hb, h.2.1, h.2.2⟩

theorem PVv.append {base L acc cache} (h : PVv base L acc cache) (x : Nat × Nat × Reply) :
    PVv base L (acc ++ [x]) cache :=
  ⟨fun e he => List.mem_append_left _ (h.1 e he), CacheProvF_append h.2.1 _,
    h.2.2.mono fun _ he => List.mem_append_left _ he⟩

theorem PVv.expire {base L} {s : St} (h : PVv base L s.accepted s.cache) : PVv base L s.accepted s.cacheExpire.cache :=
  ⟨h.1, CacheProvF_expire s _ h.2.1, h.2.2⟩

theorem PVv.insert {base L acc} (s : St) (h : PVv base L acc s.cache) (q : Query) (r : Reply)
    (hr : ∃ fd key, (fd, key, r) ∈ acc) : PVv base L acc (s.cacheInsert q r).cache :=
  ⟨h.1, CacheProvF_insert s q r _ h.2.1 hr, h.2.2⟩

syntax "pv_peel " ident ident : tactic
macro_rules
  | `(tactic| pv_peel $h $hrec) =>
    `(tactic| repeat' (first
        | with_reducible assumption
        | (intro r hr; simp only [Call.rec?, reduceCtorEq] at hr; done)
        | (intro r hr; exact $hrec r hr)
        | with_reducible (apply $h)
        | with_reducible (apply PVv.expire)
        | (simp only [chan_frame, PV, List.append_nil, ← List.append_assoc])
        | (csplit <;> pair_subst)))

section
variable {goC : GoC} (hgo : GoPV goC)
include hgo

theorem sqFlushC_PV (fd : Nat) (s : St) (L : CLog) (base) (h : PV base L s) :
    PV base (L ++ (sqFlushC goC fd s).2) (sqFlushC goC fd s).1.2 := by
  have hrec : ∀ r : Reply, (none : Option Reply) = some r → FromAcc base r := fun _ h => nomatch h
  unfold sqFlushC; pv_peel hgo hrec

theorem sqLinkC_PV (pd : Bool) (key : Nat) (srv : Server) (fd : Nat) (s : St) (L : CLog) (base) (h : PV base L s) :
    PV base (L ++ (sqLinkC goC pd key srv fd s).2) (sqLinkC goC pd key srv fd s).1.1 := by
  have hrec : ∀ r : Reply, (none : Option Reply) = some r → FromAcc base r := fun _ h => nomatch h
  unfold sqLinkC; pv_peel hgo hrec

theorem sqWriteQC_PV (reqSrv : Option Nat) (key : Nat) (q : Query) (srv : Server) (fd : Nat) (s : St) (L : CLog) (base)
    (h : PV base L s) :
    PV base (L ++ (sqWriteQC goC reqSrv key q srv fd s).2) (sqWriteQC goC reqSrv key q srv fd s).1.1 := by
  have hrec : ∀ r : Reply, (none : Option Reply) = some r → FromAcc base r := fun _ h => nomatch h
  have h1 : PV base L (sqPrepare key q srv fd s).1 := by simpa only [PV, chan_frame] using h
  have h2 := sqFlushC_PV hgo fd _ L base h1
  unfold sqWriteQC
  simp only []
  split
  · rw [← List.append_assoc]; exact sqLinkC_PV hgo _ _ _ _ _ _ _ h2
  all_goals pv_peel hgo hrec

theorem bodySendQueryC_PV (reqSrv : Option Nat) (key : Nat) (s : St) (L : CLog) (base) (h : PV base L s) :
    PV base (L ++ (bodySendQueryC goC reqSrv key s).2) (bodySendQueryC goC reqSrv key s).1.1 := by
  have hrec : ∀ r : Reply, (none : Option Reply) = some r → FromAcc base r := fun _ h => nomatch h
  unfold bodySendQueryC
  split
  · simpa only [PV, chan_frame, List.append_nil] using h
  · simp only []
    split
    · exact hgo _ _ _ _ (by simpa only [PV, chan_frame] using h) (fun r hr => by simp only [Call.rec?, reduceCtorEq] at hr)
    · split <;> pair_subst
      · refine hgo _ _ _ _ ?_ (fun r hr => by simp only [Call.rec?, reduceCtorEq] at hr)
        split at * <;> simp_all only [PV, chan_frame]
      · apply sqWriteQC_PV hgo; split at * <;> simp_all only [PV, chan_frame]

theorem reactOneC_PV (i : Nat) (s : St) (L : CLog) (base) (h : PV base L s) :
    PV base (L ++ (reactOneC goC i s).2) (reactOneC goC i s).1 := by
  have hrec : ∀ r : Reply, (none : Option Reply) = some r → FromAcc base r := fun _ h => nomatch h
  unfold reactOneC; pv_peel hgo hrec

theorem closeAllC_PV (fds : List Nat) (s : St) (L : CLog) (base) (h : PV base L s) :
    PV base (L ++ (closeAllC goC fds s).2) (closeAllC goC fds s).1 := by
  induction fds generalizing s L with
  | nil => simpa only [closeAllC, List.append_nil] using h
  | cons fd rest ih =>
    simp only [closeAllC, ← List.append_assoc]
    exact ih _ _ (hgo _ _ _ _ h (fun _ h => nomatch h))

/-- `paDeliver`: the response just recorded as accepted is the only one handed on -/
theorem paDeliverC_PV (fd : Nat) (r : Reply) (c : Conn) (key : Nat) (q : Query) (s : St) (L : CLog) (base)
    (h : PV base L s) :
    PV base (L ++ (paDeliverC goC fd r c key q s).2) (paDeliverC goC fd r c key q s).1.1 := by
  have h1 : PVv (s.accepted ++ [(fd, key, r)]) L (s.accepted ++ [(fd, key, r)]) s.cache :=
    (PVv.append h (fd, key, r)).rebase fun _ he => he
  have hb : ∀ e ∈ base, e ∈ s.accepted ++ [(fd, key, r)] := fun e he => List.mem_append_left _ (h.1 e he)
  have hrec : ∀ r' : Reply, some r = some r' → FromAcc (s.accepted ++ [(fd, key, r)]) r' := by
    intro r' e; cases e; exact .inl ⟨fd, key, by simp⟩
  have back : ∀ {L' acc cache}, PVv (s.accepted ++ [(fd, key, r)]) L' acc cache → PVv base L' acc cache :=
    fun h' => h'.rebase fun e he => h'.1 e (hb e he)
  unfold paDeliverC
  simp only []
  split
  · simp only [PV, chan_frame, List.append_nil]; exact back h1
  · split
    · simp only [PV, chan_frame, List.append_nil]; exact back h1
    · split
      · simp only [PV, chan_frame]
        apply back
        refine hgo _ _ _ _ ?_ (fun r' hr => hrec r' hr)
        simpa only [PV, chan_frame] using h1
      · simp only [PV, chan_frame]
        apply back
        refine hgo _ _ _ _ ?_ (fun r' hr => hrec r' hr)
        simp only [PV, chan_frame]
        refine PVv.insert _ ?_ _ r ⟨fd, key, by simp⟩
        simpa only [chan_frame] using h1

end

end Cares.Chan
