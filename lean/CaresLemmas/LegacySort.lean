import CaresModel.AddrInfo
/-! Helper lemmas for the two sorts: the sortlist insertion sort permutes; the relink step of
    ares_sortaddrinfo rebuilds exactly the array order. -/
namespace Cares.AddrInfo
open Cares.Legacy

/-! ### insertion sort -/

theorem shiftLoop_length {α : Type} (ind : α → Nat) (v : Nat) (k : Nat) (l : List α) :
    (shiftLoop ind v k l).2.length = l.length := by
  induction k generalizing l with
  | zero => simp [shiftLoop]
  | succ k ih =>
    unfold shiftLoop
    cases h : l[k]? with
    | none => simp
    | some a2 =>
      simp only
      split
      · rfl
      · rw [ih]; simp

theorem shiftLoop_le {α : Type} (ind : α → Nat) (v : Nat) (k : Nat) (l : List α) :
    (shiftLoop ind v k l).1 ≤ k := by
  induction k generalizing l with
  | zero => simp [shiftLoop]
  | succ k ih =>
    unfold shiftLoop
    cases h : l[k]? with
    | none => simp
    | some a2 =>
      simp only
      split
      · exact Nat.le_refl _
      · exact Nat.le_succ_of_le (ih _)

/-- moving the hole one position to the left is a transposition -/
theorem swap_perm {α : Type} (l : List α) (k : Nat) (a2 x : α) (hk : k + 1 < l.length) (h2 : l[k]? = some a2) :
    ((l.set (k + 1) a2).set k x).Perm (l.set (k + 1) x) := by
  have hk0 : k < l.length := by omega
  have e1 : l.set (k + 1) x = l.take k ++ a2 :: x :: l.drop (k + 2) := by
    apply List.ext_getElem?
    intro i
    simp only [List.getElem?_set, List.getElem?_append, List.length_take, Nat.min_eq_left (Nat.le_of_lt hk0)]
    by_cases h : i < k
    · simp [h, List.getElem?_take, show k + 1 ≠ i by omega]
    · simp only [h, ↓reduceIte]
      by_cases h' : i = k
      · subst h'; simp [h2]
      · by_cases h'' : i = k + 1
        · subst h''; simp [hk]
        · have : i - k = (i - k - 2) + 2 := by omega
          rw [this]
          simp [show k + 1 ≠ i by omega, List.getElem?_drop]
          congr 1; omega
  have e2 : (l.set (k + 1) a2).set k x = l.take k ++ x :: a2 :: l.drop (k + 2) := by
    apply List.ext_getElem?
    intro i
    simp only [List.getElem?_set, List.getElem?_append, List.length_take, Nat.min_eq_left (Nat.le_of_lt hk0),
      List.length_set]
    by_cases h : i < k
    · simp [h, List.getElem?_take, show k ≠ i by omega, show k + 1 ≠ i by omega]
    · simp only [h, ↓reduceIte]
      by_cases h' : i = k
      · subst h'; simp [hk0]
      · by_cases h'' : i = k + 1
        · subst h''; simp [hk]
        · have : i - k = (i - k - 2) + 2 := by omega
          rw [this]
          simp [show k ≠ i by omega, show k + 1 ≠ i by omega, List.getElem?_drop]
          congr 1; omega
  rw [e1, e2]
  exact List.Perm.append_left _ (List.Perm.swap _ _ _)

theorem shiftLoop_perm {α : Type} (ind : α → Nat) (v : Nat) (x : α) (k : Nat) (l : List α) (hk : k < l.length) :
    ((shiftLoop ind v k l).2.set (shiftLoop ind v k l).1 x).Perm (l.set k x) := by
  induction k generalizing l with
  | zero => simp [shiftLoop]
  | succ k ih =>
    unfold shiftLoop
    cases h : l[k]? with
    | none => exact List.Perm.refl _
    | some a2 =>
      simp only
      split
      · exact List.Perm.refl _
      · have hlen : k < (l.set (k + 1) a2).length := by simp; omega
        exact (ih (l.set (k + 1) a2) hlen).trans (swap_perm l k a2 x hk h)

theorem sortStep_perm {α : Type} (ind : α → Nat) (l : List α) (i1 : Nat) : (sortStep ind l i1).Perm l := by
  unfold sortStep
  cases h : l[i1]? with
  | none => exact List.Perm.refl _
  | some a1 =>
    have hi : i1 < l.length := by
      rcases List.getElem?_eq_some_iff.mp h with ⟨hlt, _⟩; exact hlt
    have := shiftLoop_perm ind (ind a1) a1 i1 l hi
    have hset : l.set i1 a1 = l := by
      apply List.ext_getElem?
      intro i
      by_cases hi' : i1 = i
      · subst hi'
        rcases List.getElem?_eq_some_iff.mp h with ⟨_, he⟩
        simp [hi, he]
      · simp [List.getElem?_set, hi']
    rw [hset] at this
    exact this

theorem foldl_sortStep_perm {α : Type} (ind : α → Nat) (is : List Nat) (l : List α) :
    (is.foldl (sortStep ind) l).Perm l := by
  induction is generalizing l with
  | nil => exact List.Perm.refl _
  | cons i rest ih => exact (ih _).trans (sortStep_perm ind l i)

/-! ### relink -/

theorem relinkLoop_untouched (elems : List Nat) (l : Links) (i : Nat) (hi : i ∉ elems) :
    (relinkLoop elems l)[i]? = l[i]? := by
  induction elems generalizing l with
  | nil => rfl
  | cons e rest ih =>
    cases rest with
    | nil =>
      have : e ≠ i := by intro h; exact hi (by simp [h])
      simp [relinkLoop, setNext, List.getElem?_set, this]
    | cons e' rest' =>
      have hne : e ≠ i := by intro h; exact hi (by simp [h])
      have hi' : i ∉ e' :: rest' := by intro h; exact hi (List.mem_cons_of_mem _ h)
      simp only [relinkLoop]
      rw [ih _ hi']
      simp [setNext, List.getElem?_set, hne]

theorem walk_none (l : Links) (fuel : Nat) : walk l fuel none = [] := by
  cases fuel <;> rfl

theorem relink_walk_aux (elems : List Nat) (l : Links) (hn : elems.Nodup) (hb : ∀ e ∈ elems, e < l.length)
    (fuel : Nat) (hf : elems.length ≤ fuel) :
    walk (relinkLoop elems l) fuel elems.head? = elems := by
  induction elems generalizing l fuel with
  | nil => simp [walk_none]
  | cons e rest ih =>
    cases fuel with
    | zero => simp at hf
    | succ fuel =>
      cases rest with
      | nil =>
        simp only [List.head?_cons, walk, relinkLoop, setNext]
        have : (l.set e none).getD e none = none := by
          simp [List.getD_eq_getElem?_getD, List.getElem?_set]
          split <;> simp
        rw [this, walk_none]
      | cons e' rest' =>
        have hne : e ∉ e' :: rest' := (List.nodup_cons.mp hn).1
        have hn' : (e' :: rest').Nodup := (List.nodup_cons.mp hn).2
        have he : e < l.length := hb e List.mem_cons_self
        have hb' : ∀ x ∈ e' :: rest', x < (setNext l e (some e')).length := by
          intro x hx; simp only [setNext, List.length_set]; exact hb x (List.mem_cons_of_mem _ hx)
        simp only [List.head?_cons, walk, relinkLoop]
        have hnext : (relinkLoop (e' :: rest') (setNext l e (some e'))).getD e none = some e' := by
          rw [List.getD_eq_getElem?_getD, relinkLoop_untouched _ _ _ hne]
          simp [setNext, List.getElem?_set, he]
        rw [hnext]
        have := ih (setNext l e (some e')) hn' hb' fuel (by simp at hf ⊢; omega)
        simp only [List.head?_cons] at this
        rw [this]

theorem range_filterMap_getElem? {α : Type} (l : List α) : (List.range l.length).filterMap (fun i => l[i]?) = l := by
  induction l with
  | nil => rfl
  | cons a t ih =>
    rw [List.length_cons, List.range_succ_eq_map]
    simp only [List.filterMap_cons, List.getElem?_cons_zero, List.filterMap_map]
    congr 1

/-! ### the insertion sort standing in for qsort in the executable model -/

theorem insertBy_perm (cmp : SortElem → SortElem → Int) (x : SortElem) (l : List SortElem) :
    (insertBy cmp x l).Perm (x :: l) := by
  induction l with
  | nil => exact List.Perm.refl _
  | cons y ys ih =>
    unfold insertBy
    split
    · exact List.Perm.refl _
    · exact (List.Perm.cons y ih).trans (List.Perm.swap x y ys)

theorem isort_perm (cmp : SortElem → SortElem → Int) (l : List SortElem) : (isort cmp l).Perm l := by
  induction l with
  | nil => exact List.Perm.refl _
  | cons x xs ih =>
    simp only [isort, List.foldr_cons]
    exact (insertBy_perm cmp x _).trans (List.Perm.cons x ih)

theorem mkElems_order (nodes : List AddrNode) (specs : List SrcSpec) (i : Nat) (elems : List SortElem)
    (h : mkElems nodes specs i = some elems) : elems.map (·.order) = List.range' i nodes.length := by
  induction nodes generalizing specs i elems with
  | nil => simp [mkElems] at h; subst h; rfl
  | cons n ns ih =>
    unfold mkElems at h
    simp only at h
    split at h
    · simp at h
    · cases hr : mkElems ns specs.tail (i + 1) with
      | none => simp [hr] at h
      | some r =>
        simp only [hr, Option.map_some, Option.some.injEq] at h
        subst h
        simp [List.range'_succ, ih _ _ _ hr]
    · cases hr : mkElems ns specs.tail (i + 1) with
      | none => simp [hr] at h
      | some r =>
        simp only [hr, Option.map_some, Option.some.injEq] at h
        subst h
        simp [List.range'_succ, ih _ _ _ hr]

end Cares.AddrInfo
