import CaresLemmas.CookieStep
/-!
# Histories of cookie events for one server (scaffolding for the C17 theorems)

`World` = the per-server cookie state + the clock + two history variables that no transition reads:
`sent` (every COOKIE option value put on the wire, `none` for a request that went out without one) and `firstDrop`
(instant of the first response dropped for lacking a server cookie since the server last proved support).
`Ev` = `advance | send | recv`; `send` is `ares_cookie_apply` on a request, `recv` is `ares_cookie_validate` on a
response to a request that was sent earlier (its COOKIE option is one of `sent`).
-/
namespace Cares.Proto.Cookie
open Cares.Generated.Proto

/-- the repaired `timeval_is_set`: a time stamp is set unless both fields are zero -/
def IsSetOk (isSet : TimeVal → Bool) : Prop :=
  ∀ tv, isSet tv = (decide (tv.sec ≠ 0) || decide (tv.usec ≠ 0))

theorem isSetOk_or : IsSetOk timevalIsSetOr := fun _ => rfl

/-- the address families a connection's `self_ip` can have -/
def Addr.Wf (a : Addr) : Prop := a.family = AF_INET ∨ a.family = AF_INET6 ∨ a.family = AF_UNSPEC

/-- a response cookie that proves cookie support to the request it answers: 8 client bytes equal to the ones sent,
    followed by 1..32 server bytes -/
def validFor (reqCookie resp : Option Bytes) : Bool :=
  match reqCookie, resp with
  | some rq, some r => decide (8 < r.length) && decide (r.length ≤ 40) && (rq.take 8 == r.take 8)
  | _, _ => false

/-- a response without server cookie to a request that carried a cookie: no COOKIE option, or the bare client cookie -/
def lacksServerCookie (reqCookie resp : Option Bytes) : Bool :=
  match reqCookie, resp with
  | some _, none => true
  | some rq, some r => decide (r.length = 8) && (rq.take 8 == r.take 8)
  | none, _ => false

def TimeVal.addUsec (t : TimeVal) (us : Nat) : TimeVal :=
  ⟨t.sec + ((t.usec + us) / 1000000 : Nat), (t.usec + us) % 1000000⟩

structure World where
  ck : CookieSt
  now : TimeVal
  sent : List (Option Bytes)
  firstDrop : Option TimeVal
deriving Repr

def World.init (t0 : TimeVal) : World := ⟨CookieSt.cleared, t0, [], none⟩

inductive Ev where
  | advance (usec : Nat)
  | send (conn : Conn) (fresh : Bytes) (req : ReqOpt)
  | recv (q : QState) (reqCookie resp : Option Bytes) (rcode : Nat)
deriving Repr

/-- the COOKIE option value of a request (`none`: no OPT RR or no COOKIE option) -/
def cookieOf : ReqOpt → Option Bytes
  | some c => c
  | none => none

def step (isSet : TimeVal → Bool) (w : World) : Ev → World
  | .advance us => { w with now := w.now.addUsec us }
  | .send conn fresh req =>
    let o := applyWith isSet w.ck conn w.now fresh req
    { w with ck := o.ck, sent := cookieOf o.req :: w.sent }
  | .recv q reqCookie resp rcode =>
    let o := validateWith isSet w.ck q reqCookie resp rcode w.now
    { w with ck := o.ck,
             firstDrop :=
               if validFor reqCookie resp then none
               else if w.firstDrop.isNone && o.verdict == .drop && lacksServerCookie reqCookie resp &&
                       decide (rcode ≠ RCODE_BADCOOKIE) then some w.now
               else w.firstDrop }

def run (isSet : TimeVal → Bool) (w : World) : List Ev → World
  | [] => w
  | e :: es => run isSet (step isSet w e) es

/-- what the environment guarantees about an event: 8 fresh random bytes, a well-formed local address; a response
    answers a request that went out earlier -/
def EvOk (w : World) : Ev → Prop
  | .advance _ => True
  | .send conn fresh _ => fresh.length = COOKIE_CLIENT_LEN ∧ conn.selfIp.Wf
  | .recv _ reqCookie _ _ => reqCookie ∈ w.sent

def TraceOk (isSet : TimeVal → Bool) (w : World) : List Ev → Prop
  | [] => True
  | e :: es => EvOk w e ∧ TraceOk isSet (step isSet w e) es

instance (w : World) (e : Ev) : Decidable (EvOk w e) := by
  cases e <;> unfold EvOk <;> (try unfold Addr.Wf) <;> infer_instance

instance decTraceOk (isSet : TimeVal → Bool) : ∀ (es : List Ev) (w : World), Decidable (TraceOk isSet w es)
  | [], _ => isTrue trivial
  | e :: es, w => by
    unfold TraceOk
    exact @instDecidableAnd _ _ _ (decTraceOk isSet es _)

/-- a clock as `ares_tvnow` reports it (monotonic clock: at least one second after its origin) -/
def StartOk (t0 : TimeVal) : Prop := 1 ≤ t0.sec ∧ t0.usec < 1000000

instance (t0 : TimeVal) : Decidable (StartOk t0) := by unfold StartOk; infer_instance

def Reach (isSet : TimeVal → Bool) (w : World) : Prop :=
  ∃ t0 es, StartOk t0 ∧ TraceOk isSet (World.init t0) es ∧ w = run isSet (World.init t0) es

/-! ## the invariant -/

structure Inv (w : World) : Prop where
  now_sec : 1 ≤ w.now.sec
  now_usec : w.now.usec < 1000000
  wf : w.ck.Wf
  sent_len : ∀ b, some b ∈ w.sent → 8 ≤ b.length ∧ b.length ≤ 40
  sup_ts : w.ck.state = .supported → w.ck.unsupportedTs = w.firstDrop.getD .zero
  drop_sec : ∀ t, w.firstDrop = some t → 1 ≤ t.sec

theorem inv_init (t0 : TimeVal) (h : StartOk t0) : Inv (World.init t0) where
  now_sec := h.1
  now_usec := h.2
  wf := wf_cleared
  sent_len := by simp [World.init]
  sup_ts := by simp [World.init, CookieSt.cleared]
  drop_sec := by simp [World.init]

theorem isSet_of_sec (isSet) (h : IsSetOk isSet) (t : TimeVal) (ht : 1 ≤ t.sec) : isSet t = true := by
  rw [h t]
  have : t.sec ≠ 0 := by omega
  simp [this]

theorem isSet_zero (isSet) (h : IsSetOk isSet) : isSet TimeVal.zero = false := by
  rw [h]; simp [TimeVal.zero]

theorem inv_advance (w : World) (us : Nat) (h : Inv w) : Inv { w with now := w.now.addUsec us } where
  now_sec := by
    have := h.now_sec
    simp only [TimeVal.addUsec]
    have h0 : (0 : Int) ≤ (((w.now.usec + us) / 1000000 : Nat) : Int) := Int.natCast_nonneg _
    omega
  now_usec := by simp only [TimeVal.addUsec]; omega
  wf := h.wf
  sent_len := h.sent_len
  sup_ts := h.sup_ts
  drop_sec := h.drop_sec

theorem inv_send (isSet) (w : World) (conn : Conn) (fresh : Bytes) (req : ReqOpt) (h : Inv w)
    (hf : fresh.length = COOKIE_CLIENT_LEN) : Inv (step isSet w (.send conn fresh req)) := by
  have hc := applyWith_cases isSet w.ck conn w.now fresh req
  simp only [] at hc
  have hsent : ∀ b, some b ∈ (none :: w.sent) → 8 ≤ b.length ∧ b.length ≤ 40 := by
    intro b hb
    simp only [List.mem_cons] at hb
    rcases hb with hb | hb
    · cases hb
    · exact h.sent_len b hb
  rcases hc with ⟨_, h1, h2⟩ | ⟨x, _, _, h1, h2⟩ | ⟨x, _, _, hq, h1, h2⟩ | ⟨x, _, _, hq, h1, h2⟩
  · exact ⟨h.now_sec, h.now_usec, by simp only [step]; rw [h1]; exact h.wf,
           by simp only [step]; rw [h2]; exact hsent, by simp only [step]; rw [h1]; exact h.sup_ts, h.drop_sec⟩
  · exact ⟨h.now_sec, h.now_usec, by simp only [step]; rw [h1]; exact h.wf,
           by simp only [step]; rw [h2]; exact hsent, by simp only [step]; rw [h1]; exact h.sup_ts, h.drop_sec⟩
  · have hr := quiet_regress isSet w.ck w.now hq
    rw [hr] at h1
    exact ⟨h.now_sec, h.now_usec, by simp only [step]; rw [h1]; exact h.wf,
           by simp only [step]; rw [h2]; exact hsent, by simp only [step]; rw [h1]; exact h.sup_ts, h.drop_sec⟩
  · have hwf := wf_applyCore isSet w.ck conn w.now fresh h.wf hf
    refine ⟨h.now_sec, h.now_usec, by simp only [step]; rw [h1]; exact hwf, ?_, ?_, h.drop_sec⟩
    · simp only [step]; rw [h2]
      intro b hb
      simp only [cookieOf, List.mem_cons, Option.some.injEq] at hb
      rcases hb with hb | hb
      · subst hb
        rw [h1, List.length_append, hwf.client_len]
        have := hwf.server_len
        simp only [COOKIE_CLIENT_LEN, COOKIE_SERVER_MAX] at *
        omega
      · exact h.sent_len b hb
    · simp only [step]; rw [h1]
      intro hs
      obtain ⟨hs0, hu, _⟩ := applyCore_sup isSet w.ck conn w.now fresh hs
      rw [hu]; exact h.sup_ts hs0

theorem validFor_noserver (rq : Bytes) (resp : Option Bytes) (h : NoServer rq resp) : validFor (some rq) resp = false := by
  rcases h with h | ⟨r, h, hl, _⟩
  · subst h; rfl
  · subst h; simp [validFor, hl]

theorem lacks_noserver (rq : Bytes) (resp : Option Bytes) (h : NoServer rq resp) : lacksServerCookie (some rq) resp = true := by
  rcases h with h | ⟨r, h, hl, hp⟩
  · subst h; rfl
  · subst h; simp [lacksServerCookie, hl, hp]

theorem inv_recv (isSet) (hset : IsSetOk isSet) (w : World) (q : QState) (reqCookie resp : Option Bytes) (rcode : Nat)
    (h : Inv w) : Inv (step isSet w (.recv q reqCookie resp rcode)) := by
  -- frame: nothing but `ck` and `firstDrop` changes
  have same : ∀ (ck' : CookieSt), ck' = w.ck → ∀ fd, fd = w.firstDrop →
      Inv { w with ck := ck', firstDrop := fd } := by
    intro ck' e1 fd e2; subst e1; subst e2; exact h
  cases reqCookie with
  | none =>
    have hv : validFor none resp = false := by cases resp <;> rfl
    have hl : lacksServerCookie none resp = false := by cases resp <;> rfl
    simp only [step, hv, hl, Bool.and_false, Bool.false_and, Bool.false_eq_true, ↓reduceIte]
    apply same _ _ _ rfl
    by_cases hb : ∃ r, resp = some r ∧ (r.length < 8 ∨ 40 < r.length)
    · obtain ⟨r, hr, hb⟩ := hb
      subst hr; rw [validate_badlen _ _ _ _ _ _ _ hb]
    · rw [validate_noreq]
      intro r hr
      by_cases h1 : 8 ≤ r.length ∧ r.length ≤ 40
      · exact h1
      · exact absurd ⟨r, hr, by omega⟩ hb
  | some rq =>
    rcases resp_classes rq resp with ⟨r, hr, hb⟩ | ⟨r, hr, h1, h2, hp⟩ | ⟨r, hr, h1, h2, hp⟩ | hn
    · subst hr
      have hv : validFor (some rq) (some r) = false := by
        simp only [validFor]; rcases hb with hb | hb <;> simp <;> omega
      have hl : lacksServerCookie (some rq) (some r) = false := by
        simp only [lacksServerCookie]; rcases hb with hb | hb <;> simp <;> omega
      simp only [step, hv, hl, Bool.and_false, Bool.false_and, Bool.false_eq_true, ↓reduceIte]
      apply same _ _ _ rfl
      rw [validate_badlen _ _ _ _ _ _ _ hb]
    · subst hr
      have hv : validFor (some rq) (some r) = false := by simp [validFor, hp]
      have hl : lacksServerCookie (some rq) (some r) = false := by simp [lacksServerCookie, hp]
      simp only [step, hv, hl, Bool.and_false, Bool.false_and, Bool.false_eq_true, ↓reduceIte]
      apply same _ _ _ rfl
      rw [validate_badclient _ _ _ _ _ _ _ h1 h2 hp]
    · subst hr
      have hv : validFor (some rq) (some r) = true := by simp [validFor, h1, h2, hp]
      have hck : (validateWith isSet w.ck q (some rq) (some r) rcode w.now).ck = learnG w.ck rq r := by
        by_cases hr : rcode = RCODE_BADCOOKIE
        · subst hr; rw [validate_server_badcookie _ _ _ _ _ _ h1 h2 hp]
        · rw [validate_server_ok _ _ _ _ _ _ _ h1 h2 hp hr]
      simp only [step, hv, ↓reduceIte, hck]
      refine ⟨h.now_sec, h.now_usec, wf_learnG _ _ _ h.wf h2, h.sent_len, ?_, by intro t ht; cases ht⟩
      intro hs
      rcases learnG_cases w.ck rq r with hl | ⟨hl, _, hns⟩
      · simp only [hl, learn_uts]; rfl
      · simp only [hl] at hs; exact absurd hs hns
    · have hv := validFor_noserver rq resp hn
      have hl := lacks_noserver rq resp hn
      by_cases hr : rcode = RCODE_BADCOOKIE
      · subst hr
        simp only [step, hv, hl, ne_eq, not_true_eq_false, decide_false, Bool.and_false, Bool.false_eq_true, ↓reduceIte]
        apply same _ _ _ rfl
        rcases hn with hn | ⟨r, hn, hl8, hp⟩
        · subst hn; rw [validate_noserver_badcookie_none]
        · subst hn; rw [validate_noserver_badcookie_some _ _ _ _ _ _ hl8 hp]
      · rw [show step isSet w (.recv q (some rq) resp rcode) = _ from rfl]
        simp only [step, hv, hl, validate_noserver isSet w.ck q rq resp rcode w.now hn hr, Bool.false_eq_true, ↓reduceIte,
          ne_eq, hr, not_false_eq_true, decide_true, Bool.and_true]
        unfold noServerOut
        by_cases hs : w.ck.state = .supported
        · simp only [hs, ↓reduceIte, beq_self_eq_true, Bool.and_true]
          have hu := h.sup_ts hs
          cases hfd : w.firstDrop with
          | none =>
            rw [hfd] at hu
            simp only [Option.getD_none] at hu
            have : isSet w.ck.unsupportedTs = false := by rw [hu]; exact isSet_zero isSet hset
            simp only [this, Bool.not_false, ↓reduceIte, Option.isNone_none]
            exact ⟨h.now_sec, h.now_usec, ⟨h.wf.client_len, h.wf.server_len, fun hx => absurd rfl hx⟩, h.sent_len,
                   fun _ => rfl, by intro t ht; cases ht; exact h.now_sec⟩
          | some t =>
            rw [hfd] at hu
            simp only [Option.getD_some] at hu
            have ht := h.drop_sec t hfd
            have : isSet w.ck.unsupportedTs = true := by rw [hu]; exact isSet_of_sec isSet hset t ht
            simp only [this, Bool.not_true, Bool.false_eq_true, ↓reduceIte, Option.isNone_some]
            exact same _ rfl _ hfd.symm
        · simp only [hs, ↓reduceIte]
          by_cases hg : w.ck.state = .generated
          · simp only [hg, ↓reduceIte]
            have hne : (Verdict.accept == Verdict.drop) = false := by decide
            simp only [hne, Bool.and_false, Bool.false_eq_true, ↓reduceIte]
            exact ⟨h.now_sec, h.now_usec,
                   ⟨by simp [CookieSt.cleared, zeroClient], by simp [CookieSt.cleared], by simp [CookieSt.cleared]⟩,
                   h.sent_len, by simp, h.drop_sec⟩
          · simp only [hg, ↓reduceIte]
            have hne : (Verdict.accept == Verdict.drop) = false := by decide
            simp only [hne, Bool.and_false, Bool.false_eq_true, ↓reduceIte]
            exact same _ rfl _ rfl

theorem step_inv (isSet) (hset : IsSetOk isSet) (w : World) (e : Ev) (h : Inv w) (he : EvOk w e) :
    Inv (step isSet w e) := by
  cases e with
  | advance us => exact inv_advance w us h
  | send conn fresh req => exact inv_send isSet w conn fresh req h he.1
  | recv q reqCookie resp rcode => exact inv_recv isSet hset w q reqCookie resp rcode h

theorem run_inv (isSet) (hset : IsSetOk isSet) (es : List Ev) : ∀ (w : World), Inv w → TraceOk isSet w es →
    Inv (run isSet w es) := by
  induction es with
  | nil => intro w h _; exact h
  | cons e es ih => intro w h ht; exact ih _ (step_inv isSet hset w e h ht.1) ht.2

theorem reach_inv (isSet) (hset : IsSetOk isSet) (w : World) (h : Reach isSet w) : Inv w := by
  obtain ⟨t0, es, h0, ht, rfl⟩ := h
  exact run_inv isSet hset es _ (inv_init t0 h0) ht

theorem run_append (isSet) (es : List Ev) (e : Ev) :
    ∀ w, run isSet w (es ++ [e]) = step isSet (run isSet w es) e := by
  induction es with
  | nil => intro w; rfl
  | cons x xs ih => intro w; exact ih _

theorem traceOk_append (isSet) (es : List Ev) (e : Ev) :
    ∀ w, TraceOk isSet w es → EvOk (run isSet w es) e → TraceOk isSet w (es ++ [e]) := by
  induction es with
  | nil => intro w _ he; exact ⟨he, trivial⟩
  | cons x xs ih => intro w ht he; exact ⟨ht.1, ih _ ht.2 he⟩

theorem reach_step (isSet) (w : World) (e : Ev) (h : Reach isSet w) (he : EvOk w e) : Reach isSet (step isSet w e) := by
  obtain ⟨t0, es, h0, ht, rfl⟩ := h
  exact ⟨t0, es ++ [e], h0, traceOk_append isSet es e _ ht he, (run_append isSet es e _).symm⟩

theorem reach_run (isSet) (es : List Ev) : ∀ (w : World), Reach isSet w → TraceOk isSet w es →
    Reach isSet (run isSet w es) := by
  induction es with
  | nil => intro w h _; exact h
  | cons e es ih => intro w h ht; exact ih _ (reach_step isSet w e h ht.1) ht.2

/-- the four things `ares_cookie_validate` can do to the per-server state -/
theorem validate_ck_cases (isSet) (c : CookieSt) (q : QState) (reqCookie resp : Option Bytes) (rcode : Nat) (now : TimeVal) :
    let o := validateWith isSet c q reqCookie resp rcode now
    o.ck = c ∨
    (∃ rq r, reqCookie = some rq ∧ resp = some r ∧ validFor reqCookie resp = true ∧ o.ck = learnG c rq r) ∨
    (c.state = .supported ∧ o.ck = { c with unsupportedTs := now } ∧ o.verdict = .drop) ∨
    (c.state = .generated ∧ o.ck = { CookieSt.cleared with state := .unsupported, unsupportedTs := now } ∧
       o.verdict = .accept ∧ ∃ rq, reqCookie = some rq ∧ NoServer rq resp ∧ rcode ≠ RCODE_BADCOOKIE) := by
  intro o
  cases reqCookie with
  | none =>
    left
    by_cases hb : ∃ r, resp = some r ∧ (r.length < 8 ∨ 40 < r.length)
    · obtain ⟨r, hr, hb⟩ := hb
      subst hr; simp only [o]; rw [validate_badlen _ _ _ _ _ _ _ hb]
    · simp only [o]; rw [validate_noreq]
      intro r hr
      by_cases h1 : 8 ≤ r.length ∧ r.length ≤ 40
      · exact h1
      · exact absurd ⟨r, hr, by omega⟩ hb
  | some rq =>
    rcases resp_classes rq resp with ⟨r, hr, hb⟩ | ⟨r, hr, h1, h2, hp⟩ | ⟨r, hr, h1, h2, hp⟩ | hn
    · left; subst hr; simp only [o]; rw [validate_badlen _ _ _ _ _ _ _ hb]
    · left; subst hr; simp only [o]; rw [validate_badclient _ _ _ _ _ _ _ h1 h2 hp]
    · right; left
      subst hr
      refine ⟨rq, r, rfl, rfl, by simp [validFor, h1, h2, hp], ?_⟩
      by_cases hr : rcode = RCODE_BADCOOKIE
      · subst hr; simp only [o]; rw [validate_server_badcookie _ _ _ _ _ _ h1 h2 hp]
      · simp only [o]; rw [validate_server_ok _ _ _ _ _ _ _ h1 h2 hp hr]
    · by_cases hr : rcode = RCODE_BADCOOKIE
      · left; subst hr
        rcases hn with hn | ⟨r, hn, hl8, hp⟩
        · subst hn; simp only [o]; rw [validate_noserver_badcookie_none]
        · subst hn; simp only [o]; rw [validate_noserver_badcookie_some _ _ _ _ _ _ hl8 hp]
      · simp only [o]; rw [validate_noserver isSet c q rq resp rcode now hn hr]
        unfold noServerOut
        by_cases hs : c.state = .supported
        · by_cases hi : isSet c.unsupportedTs = true
          · left; simp [hs, hi]
          · right; right; left; simp [hs, hi]
        · by_cases hg : c.state = .generated
          · right; right; right; simp only [hg, ↓reduceIte]
            exact ⟨trivial, rfl, rfl, rq, rfl, hn, hr⟩
          · left; simp [hs, hg]

end Cares.Proto.Cookie
