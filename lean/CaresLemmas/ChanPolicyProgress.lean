import CaresLemmas.ChanPolicyTimeoutExec
import CaresLemmas.ChanPolicySettle
/-!
# C06 / C07 — `process_timeouts` leaves no expired entry behind; each expiry re-sends with `try_count + 1` or ends the
  query; `ares_timeout` is sound
-/
namespace Cares.Chan
set_option linter.unusedVariables false

/-! ### the model-fault log only grows -/

def MFge (n : Nat) (s : St) : Prop := n ≤ s.modelFaults.length

section
variable {n : Nat}

theorem MFge.congr {s s' : St} (h0 : s'.cfg = s.cfg) (h1 : s'.modelFaults = s.modelFaults) (h : MFge n s) :
    MFge n s' := by
  unfold MFge at *; rw [h1]; exact h

theorem MFge.mfault {s : St} {e : String} (h : MFge n s) : MFge n (s.mfault e) := by
  unfold MFge St.mfault at *
  simp only [List.length_append, List.length_singleton]; omega

chan_simple_lemmas MFge : (MFge n) =>
  emit slog ofault oofSt setQuery setConn setServer setSock modQuery modConn modServer modSock modClient cacheExpire
end

macro "mf_congr" : tactic => `(tactic| (
  refine MFge.congr (s := ?s0) ?h0 ?h1 ?hI
  case h0 => (dsimp only; exact rfl)
  case h1 => exact rfl))

macro "mf_spec" : tactic => `(tactic| with_reducible (first
  | apply MFge.mfault
  | apply MFge.emit | apply MFge.slog | apply MFge.ofault | apply MFge.oof
  | apply MFge.setQuery | apply MFge.setConn | apply MFge.setServer | apply MFge.setSock | apply MFge.modQuery
  | apply MFge.modConn | apply MFge.modServer | apply MFge.modSock | apply MFge.modClient | apply MFge.cacheExpire))

macro "mf_step " hgo:term : tactic => `(tactic| chan_step $hgo, mf_spec, mf_congr)

section
variable {n : Nat}
chan_invariant mf : (MFge n) oofBy (fun _ h => h)
  leafBy (repeat' (first
                  | mf_step hgo
                  | with_reducible apply sqChoose_mf hgo
                  | with_reducible apply sqOpen_mf hgo
                  | with_reducible apply sqPrep_mf hgo
                  | with_reducible apply sqWrite_mf hgo
                  | with_reducible apply sqDeadline_mf hgo
                  | with_reducible apply sqCommit_mf hgo
                  | with_reducible apply sqAfter_mf hgo
                  | (with_reducible apply foldl_inv; intro _ _ _)))
  exceptBodies
end

/-- a run never removes model faults -/
theorem exec_modelFaults_mono (fuel : Nat) (c : Call) (s : St) :
    s.modelFaults.length ≤ (exec fuel c s).1.modelFaults.length :=
  exec_mf (n := s.modelFaults.length) fuel c s (Nat.le_refl _)

/-! ### `process_timeouts` -/

/-- the head of the by-timeout index is not expired -/
def HeadFresh (s : St) : Prop :=
  ∀ k, s.byTimeout.head? = some k → ∀ q, s.query? k = some q → expired s.now q.deadline = false

/-- **termination of `process_timeouts`**: when the loop returns without running out of fuel and without logging a
    model fault, the head of the index is not expired -/
theorem processTimeouts_head (fuel : Nat) (s : St) :
    (exec fuel .processTimeouts s).1.outOfFuel = true ∨
    s.modelFaults.length < (exec fuel .processTimeouts s).1.modelFaults.length ∨
    HeadFresh (exec fuel .processTimeouts s).1 := by
  have key : ∀ fuel c s, c = Call.processTimeouts →
      ((exec fuel c s).1.outOfFuel = true ∨ s.modelFaults.length < (exec fuel c s).1.modelFaults.length ∨
        HeadFresh (exec fuel c s).1) := by
    intro fuel
    induction fuel with
    | zero => intro c s _; left; rfl
    | succ n ih =>
      intro c s hc
      subst hc
      have e : exec (n + 1) .processTimeouts s = bodyProcessTimeouts (exec n) s := rfl
      rw [e]
      unfold bodyProcessTimeouts
      split
      · rename_i hnone
        right; right
        intro k hk; rw [hnone] at hk; cases hk
      · rename_i key hhead
        split
        · right; left
          show s.modelFaults.length < (s.modelFaults ++ [_]).length
          simp
        · rename_i q hq
          split
          · rename_i hne
            right; right
            intro k hk q' hq'
            rw [hhead] at hk; cases hk
            rw [hq] at hq'; cases hq'
            simpa using hne
          · split
            · right; left
              show s.modelFaults.length < (s.modelFaults ++ [_]).length
              simp
            · rename_i c hc
              extract_lets s1 s2
              split
              rename_i s3 r3 hreq
              have hmono : s.modelFaults.length ≤ s3.modelFaults.length := by
                have h1 : s.modelFaults.length ≤ s2.modelFaults.length := by
                  show s.modelFaults.length ≤ ((s.modQuery key _).incFailures c.srv q.usingTcp).modelFaults.length
                  obtain ⟨a, b, e⟩ := incFailures_shape (s.modQuery key fun q => { q with timeouts := q.timeouts + 1 }) c.srv q.usingTcp
                  rw [e]; exact Nat.le_refl _
                have h2 := exec_modelFaults_mono n (.requeue key .timeout true none false) s2
                rw [hreq] at h2
                exact Nat.le_trans h1 h2
              rcases ih .processTimeouts s3 rfl with h | h | h
              · exact Or.inl h
              · exact Or.inr (Or.inl (Nat.lt_of_le_of_lt hmono h))
              · exact Or.inr (Or.inr h)
  exact key fuel .processTimeouts s rfl

/-- with a sorted index: no entry at all is expired -/
theorem fresh_of_head {s : St} (hb : BT0 s) (hh : HeadFresh s) :
    ∀ k ∈ s.byTimeout, ∀ q, s.query? k = some q → expired s.now q.deadline = false := by
  intro k hk q hq
  cases hl : s.byTimeout with
  | nil => rw [hl] at hk; cases hk
  | cons x r =>
    obtain ⟨_, hs, hlive⟩ := hb
    rw [hl] at hk hs
    obtain ⟨msx, hx⟩ := hlive x (by rw [hl]; exact List.mem_cons_self)
    unfold St.dl? at hx
    cases hqx : s.query? x with
    | none => rw [hqx] at hx; cases hx
    | some qx =>
      rw [hqx] at hx
      simp only [Option.map_some, Option.some.injEq] at hx
      have hfx := hh x (by rw [hl]; rfl) qx hqx
      rw [hx] at hfx
      simp only [expired, decide_eq_false_iff_not, Nat.not_le, ge_iff_le] at hfx
      rcases List.mem_cons.1 hk with rfl | hk'
      · rw [hqx] at hq; cases hq; rw [hx]; simpa [expired] using hfx
      · have hle := (List.pairwise_cons.1 hs).1 k hk'
        have hdx : s.dlOf x = msx := by unfold St.dlOf; rw [hqx]; simp [hx, deadlineMs]
        cases hd : q.deadline with
        | none => rfl
        | pending lo hi => rfl
        | «at» ms =>
          have hdk : s.dlOf k = ms := by unfold St.dlOf; rw [hq]; simp [hd, deadlineMs]
          rw [hdx, hdk] at hle
          simp only [expired, decide_eq_false_iff_not, Nat.not_le, ge_iff_le]
          omega

/-! ### what one expiry does: `ares_requeue_query` -/

/-- `requeue` with `inc_try_count`, not deferred: the query either is re-sent with `try_count` one higher and still
    below the budget `servers × tries` (and it may be retried), or it is ended -/
theorem requeue_progress (go : Call → St → St × Ret) (key : Nat) (st : Status) (rec : Option Reply) (s : St)
    (q : Query) (hq : s.query? key = some q) :
    (∃ s' q', s'.query? key = some q' ∧ q'.tryCount = q.tryCount + 1 ∧
        q'.tryCount < s.servers.length * s.cfg.tries ∧ q'.noRetries = false ∧ q'.timeouts = q.timeouts ∧
        bodyRequeue go key st true rec false s = go (.sendQuery none key) s') ∨
    (∃ s' es, bodyRequeue go key st true rec false s = ((go (.endQuery none key es rec) s').1, .timeout)) := by
  unfold bodyRequeue
  rw [hq]
  dsimp only
  have hq2 : ((s.removeFromConn key).modQuery key fun q =>
      { q with errorStatus := if st != .ok then st else q.errorStatus,
               tryCount := if true = true then q.tryCount + 1 else q.tryCount }).query? key =
      some { unlinkQ q with errorStatus := if st != .ok then st else q.errorStatus,
                            tryCount := q.tryCount + 1 } := by
    rw [query?_modQuery_self, query?_removeFromConn_self, hq]
    · rfl
    · intro _; rfl
  rw [hq2]
  simp only [Option.getD_some]
  split
  · rename_i hc
    left
    simp only [Bool.false_eq_true, ↓reduceIte]
    simp only [Bool.and_eq_true, decide_eq_true_eq, Bool.not_eq_eq_eq_not, Bool.not_true] at hc
    exact ⟨_, _, hq2, rfl, hc.1, hc.2, rfl, rfl⟩
  · right
    exact ⟨_, _, rfl⟩

/-- `end_query` removes the query, whatever its callback does -/
theorem endQuery_ends (go : Call → St → St × Ret) (srv : Option Nat) (key : Nat) (st : Status) (rec : Option Reply)
    (s : St) (q : Query) (hq : s.query? key = some q) :
    (bodyEndQuery go srv key st rec s).1.query? key = none := by
  unfold bodyEndQuery
  rw [hq]
  dsimp only
  unfold St.freeQuery St.query?
  dsimp only
  rw [List.find?_filter, List.find?_eq_none]
  intro x _
  by_cases hx : x.key = key <;> simp [hx]

/-! ### `ares_timeout` -/

/-- **timeout_hint_sound**: with a well-formed index in which every definite deadline is present (the situation after
    `settle`), the hint is at most the caller's maximum and at most the remaining time of *every* pending deadline;
    it is a natural number, so never negative -/
theorem timeoutHint_sound (s : St) (hb : BT0 s) (hcov : ∀ k ms, s.dl? k = some (.at ms) → k ∈ s.byTimeout)
    (maxtv : Option Nat) (r : Nat) (h : s.timeoutHint maxtv = some r) :
    (∀ m, maxtv = some m → r ≤ m) ∧ (∀ k ms, s.dl? k = some (.at ms) → r ≤ ms - s.now) := by
  unfold St.timeoutHint at h
  dsimp only at h
  cases hl : s.byTimeout with
  | nil =>
    rw [hl] at h
    simp only [List.head?_nil, Option.bind_none] at h
    cases maxtv with
    | none => cases h
    | some m =>
      simp only [Option.some.injEq] at h
      subst h
      refine ⟨fun m' e => by cases e; exact Nat.le_refl _, ?_⟩
      intro k ms hd
      have := hcov k ms hd
      rw [hl] at this; cases this
  | cons x t =>
    obtain ⟨_, hs, hlive⟩ := hb
    obtain ⟨msx, hx⟩ := hlive x (by rw [hl]; exact List.mem_cons_self)
    unfold St.dl? at hx
    cases hqx : s.query? x with
    | none => rw [hqx] at hx; cases hx
    | some qx =>
      rw [hqx] at hx
      simp only [Option.map_some, Option.some.injEq] at hx
      rw [hl] at h
      simp only [List.head?_cons, Option.bind_some, hqx, hx] at h
      have hdx : s.dlOf x = msx := by unfold St.dlOf; rw [hqx]; simp [hx, deadlineMs]
      have hall : ∀ k ms, s.dl? k = some (.at ms) → msx - s.now ≤ ms - s.now := by
        intro k ms hd
        have hk := hcov k ms hd
        rw [hl] at hk hs
        have hdk : s.dlOf k = ms := by rw [dlOf_eq, hd]; rfl
        rcases List.mem_cons.1 hk with rfl | hk'
        · rw [hdx] at hdk; omega
        · have := (List.pairwise_cons.1 hs).1 k hk'
          rw [hdx, hdk] at this; omega
      cases maxtv with
      | none =>
        simp only [Option.some.injEq] at h
        subst h
        exact ⟨fun m e => (by cases e), hall⟩
      | some m =>
        simp only [Option.some.injEq] at h
        subst h
        refine ⟨fun m' e => by cases e; exact Nat.min_le_left _ _, ?_⟩
        intro k ms hd
        exact Nat.le_trans (Nat.min_le_right _ _) (hall k ms hd)

/-- the hint is "no limit" exactly when the caller gave no maximum and nothing is pending -/
theorem timeoutHint_none (s : St) (hb : BT0 s) (maxtv : Option Nat) :
    s.timeoutHint maxtv = none ↔ maxtv = none ∧ s.byTimeout = [] := by
  unfold St.timeoutHint
  dsimp only
  cases hl : s.byTimeout with
  | nil =>
    simp only [List.head?_nil, Option.bind_none]
    cases maxtv <;> simp
  | cons x t =>
    obtain ⟨_, _, hlive⟩ := hb
    obtain ⟨msx, hx⟩ := hlive x (by rw [hl]; exact List.mem_cons_self)
    unfold St.dl? at hx
    cases hqx : s.query? x with
    | none => rw [hqx] at hx; cases hx
    | some qx =>
      rw [hqx] at hx
      simp only [Option.map_some, Option.some.injEq] at hx
      simp only [List.head?_cons, Option.bind_some, hqx, hx]
      cases maxtv <;> simp

/-! ### processing at or after the deadline -/

/-- **expired_are_processed**: run `process_timeouts` on a state with a well-formed index.  If it neither runs out of
    fuel nor logs a model fault, then afterwards no entry of the index is expired, and every query that *was* expired
    has left the index: it has been ended (`query? = none`), or it is still alive without a deadline or waits in
    `pendingOrder` with the new deadline of its re-transmission. -/
theorem expired_are_processed (fuel : Nat) (s : St) (hb : BT s) :
    let r := (exec fuel .processTimeouts s).1
    r.outOfFuel = false → r.modelFaults.length = s.modelFaults.length →
    BT r ∧
    (∀ k ∈ r.byTimeout, ∀ q, r.query? k = some q → expired r.now q.deadline = false) ∧
    (∀ k q, s.query? k = some q → expired s.now q.deadline = true →
      k ∉ r.byTimeout ∧ (r.query? k = none ∨ r.dl? k = some .none ∨ k ∈ r.pendingOrder)) := by
  intro r hoof hmf
  have hbr : BTR s r := exec_bt (s0 := s) fuel .processTimeouts s ⟨hb, Stay.refl s⟩
  have hnow : r.now = s.now :=
    (exec_frame (c0 := s.cfg) (n0 := s.now) (ids0 := s.servers.map Server.id) fuel .processTimeouts s
      ⟨rfl, rfl, rfl⟩).2.1
  have hfresh : ∀ k ∈ r.byTimeout, ∀ q, r.query? k = some q → expired r.now q.deadline = false := by
    rcases processTimeouts_head fuel s with h | h | h
    · rw [hoof] at h; cases h
    · rw [hmf] at h; exact absurd h (Nat.lt_irrefl _)
    · exact fresh_of_head hbr.1.toBT0 h
  refine ⟨hbr.1, hfresh, ?_⟩
  intro k q hq hexp
  have hnot : k ∉ r.byTimeout := by
    intro hk
    have hdl := hbr.2.2 k hk
    unfold St.dl? at hdl
    rw [hq] at hdl
    cases hqr : r.query? k with
    | none => rw [hqr] at hdl; cases hdl
    | some q' =>
      rw [hqr] at hdl
      simp only [Option.map_some, Option.some.injEq] at hdl
      have := hfresh k hk q' hqr
      rw [hdl, hnow, hexp] at this
      cases this
  refine ⟨hnot, ?_⟩
  cases hqr : r.query? k with
  | none => exact Or.inl rfl
  | some q' =>
    right
    by_cases hd : q'.deadline = .none
    · left; unfold St.dl?; rw [hqr]; simp [hd]
    · right
      have hdl : r.dl? k = some q'.deadline := by unfold St.dl?; rw [hqr]; rfl
      rcases hbr.1.2.2.2 k _ hdl hd with hh | hh
      · exact absurd hh hnot
      · exact hh

/-- the empty channel has a well-formed index -/
theorem BT.init (s : St) (h1 : s.byTimeout = []) (h2 : ∀ q ∈ s.qs, q.deadline = .none) : BT s := by
  unfold BT
  rw [h1]
  refine ⟨List.nodup_nil, List.Pairwise.nil, fun k hk => (by cases hk), ?_⟩
  intro k d hd hne
  unfold St.dl? at hd
  cases hq : s.query? k with
  | none => rw [hq] at hd; cases hd
  | some q =>
    rw [hq] at hd
    simp only [Option.map_some, Option.some.injEq] at hd
    rw [h2 q (query?_mem hq)] at hd
    exact absurd hd.symm hne

end Cares.Chan
