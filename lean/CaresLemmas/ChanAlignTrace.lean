import CaresLemmas.ChanAlignSpec
/-!
# Whole runs (C20): what is handed to `process_answer` on a TCP connection is the stream, in order

A run is a sequence of top-level calls (any procedure except `read_answers` / `process_answer`, which the driver never
calls directly), each run to completion by the instrumented executor `execH`, interleaved with steps of the environment
(`EnvStep`: the peer appends a message to a socket's stream; or anything that leaves connections, descriptors and the
`(stream, slen, spos)` of every socket alone — read-size scripts, write limits, EOF marks, the clock, scripted faults, …).
`RunH s t l`: such a run leads from `s` to `t` and `l` is the concatenation of the logs of its calls.
-/
namespace Cares.Chan

/-- the replies of a log that were read from descriptor `fd` -/
def logOn (l : HLog) (fd : Nat) : List Reply := (l.filter (·.1 == fd)).map (·.2)

theorem logOn_append (l l' : HLog) (fd : Nat) : logOn (l ++ l') fd = logOn l fd ++ logOn l' fd := by
  simp [logOn]

theorem logOn_all {l : HLog} {fd : Nat} (h : ∀ e ∈ l, e.1 = fd) : logOn l fd = l.map (·.2) := by
  unfold logOn
  rw [List.filter_eq_self.mpr]
  intro e he; simp [h e he]

theorem logOn_none {l : HLog} {fd : Nat} (h : ∀ e ∈ l, e.1 ≠ fd) : logOn l fd = [] := by
  unfold logOn
  rw [List.filter_eq_nil_iff.mpr]
  · rfl
  · intro e he; simp [h e he]

/-- every log entry of a call is for the descriptor the call reads, and that descriptor names a connection -/
theorem execH_log_mem : ∀ (n : Nat) (call : Call) (s : St), ∀ e ∈ (execH n call s).2,
    call.readsFd e.1 ∧ ∃ c, s.conn? e.1 = some c
  | 0, _, _, e, he => by cases he
  | n + 1, call, s, e, he => by
    have ih : ∀ call s, ∀ e ∈ (execH n call s).2, call.readsFd e.1 := fun call s e he => (execH_log_mem n call s e he).1
    have nr : ∀ (call : Call) (s : St), (∀ fd, ¬ call.readsFd fd) → ∀ e ∈ (execH n call s).2, e.1 = e.1 → False :=
      fun call s hc e he _ => hc _ (ih call s e he)
    cases call
    case readAnswers fd =>
      have key : ∀ e ∈ (bodyReadAnswersH (execH n) fd s).2, e.1 = fd ∧ ∃ c, s.conn? fd = some c := by
        unfold bodyReadAnswersH
        cases hc : s.conn? fd with
        | none => cases hv : s.sock? fd <;> (intro e he; cases he)
        | some c =>
          cases hv : s.sock? fd with
          | none => intro e he; cases he
          | some v =>
            simp only []
            have hra : ∀ t, ∀ e ∈ (execH n (.readAnswers fd) t).2, e.1 = fd ∧ ∃ c', some c = some c' :=
              fun t e he => ⟨(ih _ t e he).symm, c, rfl⟩
            have hno : ∀ (call : Call) (t : St), (∀ fd, ¬ call.readsFd fd) →
                ∀ e ∈ (execH n call t).2, e.1 = fd ∧ ∃ c', some c = some c' :=
              fun call t hc e he => (hc _ (ih call t e he)).elim
            have hcons : ∀ r : Reply, ((fd, r) : Nat × Reply).1 = fd ∧ ∃ c', some c = some c' := fun _ => ⟨rfl, c, rfl⟩
            repeat' split
            all_goals
              first
                | exact hno _ _ (by intro _ h; exact h)
                | exact List.forall_mem_append.mpr ⟨List.forall_mem_cons.mpr ⟨hcons _, hno _ _ (by intro _ h; exact h)⟩,
                    hno _ _ (by intro _ h; exact h)⟩
                | exact List.forall_mem_append.mpr ⟨List.forall_mem_append.mpr
                    ⟨List.forall_mem_cons.mpr ⟨hcons _, hno _ _ (by intro _ h; exact h)⟩,
                      hno _ _ (by intro _ h; exact h)⟩, hno _ _ (by intro _ h; exact h)⟩
                | exact List.forall_mem_append.mpr ⟨List.forall_mem_cons.mpr ⟨hcons _, hno _ _ (by intro _ h; exact h)⟩,
                    hra _⟩
      obtain ⟨h1, c, h2⟩ := key e he
      exact ⟨h1.symm, c, by rw [h1]; exact h2⟩
    case processRead fd =>
      have key : ∀ e ∈ (bodyProcessReadH (execH n) fd s).2, e.1 = fd ∧ ∃ c, s.conn? fd = some c := by
        unfold bodyProcessReadH
        cases hc : s.conn? fd with
        | none => cases hv : s.sock? fd <;> (intro e he; cases he)
        | some c =>
          cases hv : s.sock? fd with
          | none => intro e he; cases he
          | some v =>
            simp only []
            have hra : ∀ t, ∀ e ∈ (execH n (.readAnswers fd) t).2, e.1 = fd ∧ ∃ c', some c = some c' :=
              fun t e he => ⟨(ih _ t e he).symm, c, rfl⟩
            have hpr : ∀ t, ∀ e ∈ (execH n (.processRead fd) t).2, e.1 = fd ∧ ∃ c', some c = some c' :=
              fun t e he => ⟨(ih _ t e he).symm, c, rfl⟩
            have hno : ∀ (call : Call) (t : St), (∀ fd, ¬ call.readsFd fd) →
                ∀ e ∈ (execH n call t).2, e.1 = fd ∧ ∃ c', some c = some c' :=
              fun call t hc e he => (hc _ (ih call t e he)).elim
            repeat' split
            all_goals
              first
                | exact hra _
                | exact hpr _
                | exact hno _ _ (by intro _ h; exact h)
                | (intro e he; cases he)
      obtain ⟨h1, c, h2⟩ := key e he
      exact ⟨h1.symm, c, by rw [h1]; exact h2⟩
    all_goals cases he

/-- `read_conn_packets` on a descriptor without connection does nothing -/
theorem execH_processRead_noconn (n : Nat) (fd : Nat) (s : St) (h : s.conn? fd = none) :
    execH (n + 1) (.processRead fd) s = ((s, .ok), []) := by
  show bodyProcessReadH (execH n) fd s = _
  unfold bodyProcessReadH
  rw [h]

/-! ## steps of the environment -/

/-- the virtual server appends message `r` to a socket's stream (the driver's `reply` on a TCP socket) -/
def peerWrite (r : Reply) (v : VSock) : VSock :=
  { v with stream := v.stream ++ [(v.slen + 2 + r.len, r)], slen := v.slen + 2 + r.len }

/-- what happens between calls -/
inductive EnvStep : St → St → Prop
  /-- the peer writes one more message on the stream of socket `fd` -/
  | peer (s : St) (fd : Nat) (r : Reply) : EnvStep s (s.modSock fd (peerWrite r))
  /-- anything that keeps the connections, the descriptor counter and `(fd, stream, slen, spos)` of every socket -/
  | other (s s' : St) (hc : s'.conns = s.conns) (hs : s'.socks.map vk = s.socks.map vk) (hn : s'.nextFd = s.nextFd) :
      EnvStep s s'

theorem aligned_peer {s : St} (h : Aligned s) (fd : Nat) (r : Reply) : Aligned (s.modSock fd (peerWrite r)) := by
  apply aligned_of_alCore (Q := fun _ _ _ => True) (N0 := 0)
  have core : AlCore (fun _ _ _ => True) 0 (pfind (s.conns.map rk)) (pfind (s.socks.map vk)) s.nextFd :=
    alCore_of_aligned h (Nat.zero_le _) (fun _ _ _ _ _ _ => trivial)
  show AlCore _ 0 (pfind (s.conns.map rk)) (pfind ((St.modSock s fd _).socks.map vk)) s.nextFd
  rw [vks_modSock s fd _ (fun x => { x with stream := x.stream ++ [(x.slen + 2 + r.len, r)], slen := x.slen + 2 + r.len })
    (fun _ => rfl),
    pfind_upd fd (fun x : SV => { x with stream := x.stream ++ [(x.slen + 2 + r.len, r)], slen := x.slen + 2 + r.len })]
  have := core.upd fd id (fun x => { x with stream := x.stream ++ [(x.slen + 2 + r.len, r)], slen := x.slen + 2 + r.len })
    (fun x hx => (core.stream fd x hx).peer r)
    (fun y x hy hx ht hu => (core.al fd y x hy hx ht hu).peer r) (fun _ _ _ _ _ => trivial)
  simpa only [Option.map_id_fun, id_eq, ite_self] using this

theorem aligned_env {t t' : St} (h : Aligned t) (he : EnvStep t t') : Aligned t' := by
  cases he with
  | peer fd r => exact aligned_peer h fd r
  | other _ hc hs hn => exact h.of_views (by rw [hc]) hs hn

/-- a message appended by the peer ends beyond everything read so far -/
theorem arrived_peer {x : SV} (hs : StreamOk x) (r : Reply) {pos : Nat} (hp : pos ≤ x.spos) :
    arrived (x.stream ++ [(x.slen + 2 + r.len, r)]) pos = arrived x.stream pos := by
  unfold arrived
  rw [List.filter_append]
  have : [(x.slen + 2 + r.len, r)].filter (fun z => decide (z.1 ≤ pos)) = [] := by
    have := hs.le
    simp only [List.filter_cons, List.filter_nil]
    rw [if_neg]
    simp only [decide_eq_true_eq]; omega
  rw [this, List.append_nil]

/-- … hence cannot be the next complete frame: if nothing complete was waiting, nothing is after the peer's write -/
theorem nextTcpFrame_peer {x : SV} (hle : x.spos ≤ x.slen) (r : Reply) (ib : Nat)
    (hn : nextTcpFrame x.stream x.spos ib = none) :
    nextTcpFrame (x.stream ++ [(x.slen + 2 + r.len, r)]) x.spos ib = none := by
  unfold nextTcpFrame at hn ⊢
  rw [List.find?_append]
  split at hn
  · rename_i e r0 heq
    rw [heq]
    simpa only [Option.some_or] using hn
  · rename_i heq
    rw [heq]
    simp only [Option.none_or, List.find?_cons, List.find?_nil]
    split
    · rename_i e1 r1 heq1
      split at heq1
      · simp only [Option.some.injEq, Prod.mk.injEq] at heq1
        rw [if_neg]; omega
      · cases heq1
    · rfl

theorem nextTcpFrame_zero (st : List (Nat × Reply)) : nextTcpFrame st 0 0 = none := by
  unfold nextTcpFrame
  split
  · rename_i e r heq
    have := List.find?_some heq
    simp only [Nat.sub_self, gt_iff_lt, decide_eq_true_eq] at this
    rw [if_neg]; omega
  · rfl

/-! ## runs -/

/-- top-level calls: everything but `read_answers` and `process_answer` (never called directly by the driver) -/
def Call.top (c : Call) : Prop := (∀ fd, c ≠ .readAnswers fd) ∧ (∀ fd r, c ≠ .processAnswer fd r)

/-- `RunH s t l`: a run of completed top-level calls and environment steps from `s` to `t`, with log `l` -/
inductive RunH : St → St → HLog → Prop
  | nil (s : St) : RunH s s []
  | env {s t t' : St} {l : HLog} : RunH s t l → EnvStep t t' → RunH s t' l
  | call {s t : St} {l : HLog} (fuel : Nat) (call : Call) : RunH s t l → call.top →
      (execH fuel call t).1.1.outOfFuel = false → RunH s (execH fuel call t).1.1 (l ++ (execH fuel call t).2)

/-- the invariant of runs: alignment; log entries are for descriptors already allocated; for every live TCP connection
    the replies handed over so far are exactly the messages that have `arrived` at its consumed position; and (between
    top-level calls) no complete message is waiting in its in_buf -/
structure RunInv (t : St) (l : HLog) : Prop where
  al : Aligned t
  lt : ∀ e ∈ l, e.1 < t.nextFd
  log : ∀ fd c v, liveTcp t fd c v → logOn l fd = arrived v.stream (v.spos - c.inBytes)
  drained : ∀ fd c v, liveTcp t fd c v → nextTcpFrame v.stream v.spos c.inBytes = none

theorem arrived_zero {st : List (Nat × Reply)} (h : WfStream 0 st) : arrived st 0 = [] := by
  unfold arrived
  rw [List.filter_eq_nil_iff.mpr]
  · rfl
  · intro x hx
    have := WfStream.lt_of_mem h x hx
    simp only [decide_eq_true_eq]; omega

theorem RunInv.env {t t' : St} {l : HLog} (h : RunInv t l) (he : EnvStep t t') : RunInv t' l := by
  cases he with
  | peer fd r =>
    have key : ∀ fd' c v', liveTcp (t.modSock fd (peerWrite r)) fd' c v' →
        logOn l fd' = arrived v'.stream (v'.spos - c.inBytes) ∧ nextTcpFrame v'.stream v'.spos c.inBytes = none := ?_
    · exact ⟨aligned_peer h.al fd r, h.lt, fun fd' c v' hl => (key fd' c v' hl).1, fun fd' c v' hl => (key fd' c v' hl).2⟩
    intro fd' c v' ⟨hc, hv', ht, hu⟩
    have hc0 : t.conn? fd' = some c := hc
    obtain ⟨v, hv⟩ := h.al.hasSock fd' c hc0
    by_cases hfd : fd' = fd
    · subst hfd
      have := sock?_modSock_self (peerWrite r) hv rfl
      rw [this] at hv'
      cases hv'
      have hal := h.al.aligned fd' c v hc0 hv ht hu
      have hso := h.al.stream fd' v hv
      constructor
      · show logOn l fd' = arrived (v.stream ++ [(v.slen + 2 + r.len, r)]) (v.spos - c.inBytes)
        have e : arrived (v.stream ++ [(v.slen + 2 + r.len, r)]) (v.spos - c.inBytes) =
            arrived v.stream (v.spos - c.inBytes) :=
          arrived_peer (x := vflag v) hso r (Nat.sub_le _ _)
        rw [e]
        exact h.log fd' c v ⟨hc0, hv, ht, hu⟩
      · show nextTcpFrame (v.stream ++ [(v.slen + 2 + r.len, r)]) v.spos c.inBytes = none
        exact nextTcpFrame_peer (x := vflag v) hso.le r c.inBytes (h.drained fd' c v ⟨hc0, hv, ht, hu⟩)
    · have : (t.modSock fd (peerWrite r)).sock? fd' = t.sock? fd' := by
        unfold St.sock? St.modSock
        simp only
        generalize t.socks = ls
        induction ls with
        | nil => rfl
        | cons a ls ih =>
          simp only [List.map_cons, List.find?_cons]
          by_cases ha : (a.fd == fd) = true
          · have hne : (a.fd == fd') = false := by
              have : a.fd = fd := by simpa using ha
              simp [this]; exact fun h => hfd h.symm
            have hne' : ((peerWrite r a).fd == fd') = false := hne
            simp only [ha, ↓reduceIte, hne, hne']
            exact ih
          · simp only [ha, Bool.false_eq_true, ↓reduceIte]
            rw [ih]
      rw [this] at hv'
      exact ⟨h.log fd' c v' ⟨hc0, hv', ht, hu⟩, h.drained fd' c v' ⟨hc0, hv', ht, hu⟩⟩
  | other _ hc hs hn =>
    have key : ∀ fd c v', liveTcp t' fd c v' →
        logOn l fd = arrived v'.stream (v'.spos - c.inBytes) ∧ nextTcpFrame v'.stream v'.spos c.inBytes = none := ?_
    · exact ⟨h.al.of_views (by rw [hc]) hs hn, by rw [hn]; exact h.lt, fun fd c v' hl => (key fd c v' hl).1,
        fun fd c v' hl => (key fd c v' hl).2⟩
    intro fd c v' ⟨hc', hv', ht, hu⟩
    have hc0 : t.conn? fd = some c := by
      have : t'.conns.find? (·.fd == fd) = some c := hc'
      rw [hc] at this; exact this
    obtain ⟨v, hv⟩ := h.al.hasSock fd c hc0
    have e := congrFun (congrArg pfind hs) fd
    rw [pfind_socks, pfind_socks, hv', hv] at e
    simp only [Option.map_some, Option.some.injEq] at e
    have e1 : v'.stream = v.stream := congrArg SV.stream e
    have e3 : v'.spos = v.spos := congrArg SV.spos e
    rw [e1, e3]
    exact ⟨h.log fd c v ⟨hc0, hv, ht, hu⟩, h.drained fd c v ⟨hc0, hv, ht, hu⟩⟩

theorem RunInv.call {t : St} {l : HLog} (h : RunInv t l) (fuel : Nat) (call : Call) (htop : call.top)
    (hf : (execH fuel call t).1.1.outOfFuel = false) :
    RunInv (execH fuel call t).1.1 (l ++ (execH fuel call t).2) := by
  -- `read_conn_packets` on a descriptor that names no connection does nothing
  by_cases hnc : ∃ fd, call = .processRead fd ∧ t.conn? fd = none
  · obtain ⟨fd, rfl, hno⟩ := hnc
    cases fuel with
    | zero => exact absurd hf (by simp [execH, St.oof])
    | succ n =>
      rw [execH_processRead_noconn n fd t hno]
      simpa using h
  have hreads : ∀ fd, call.readsFd fd → ∃ c, t.conn? fd = some c := by
    intro fd hr
    cases call <;> try exact absurd hr id
    case processRead fd' =>
      have e : fd' = fd := hr
      rw [← e]
      cases hc : t.conn? fd' with
      | none => exact absurd ⟨fd', rfl, hc⟩ hnc
      | some c => exact ⟨c, rfl⟩
    case readAnswers fd' => exact absurd rfl (htop.1 fd')
  have hreadlt : ∀ fd, call.readsFd fd → fd < t.nextFd := by
    intro fd hr
    obtain ⟨c, hc⟩ := hreads fd hr
    obtain ⟨v, hv⟩ := h.al.hasSock fd c hc
    exact h.al.fresh fd v hv
  have hfe : (exec fuel call t).1.outOfFuel = false := by rw [← execH_fst]; exact hf
  have halo : Aligned (execH fuel call t).1.1 := by rw [execH_fst]; exact exec_Aligned fuel call t h.al hfe
  have hmono : t.nextFd ≤ (execH fuel call t).1.1.nextFd := by
    rw [execH_fst]; exact exec_nextFd_mono fuel call t h.al hfe
  have hnewlt : ∀ e ∈ (execH fuel call t).2, e.1 < t.nextFd := by
    intro e he
    obtain ⟨_, c, hc⟩ := execH_log_mem fuel call t e he
    obtain ⟨v, hv⟩ := h.al.hasSock _ c hc
    exact h.al.fresh _ v hv
  have key : ∀ fd c' v', liveTcp (execH fuel call t).1.1 fd c' v' →
      logOn (l ++ (execH fuel call t).2) fd = arrived v'.stream (v'.spos - c'.inBytes) ∧
        nextTcpFrame v'.stream v'.spos c'.inBytes = none := ?_
  · refine ⟨halo, ?_, fun fd c' v' hl => (key fd c' v' hl).1, fun fd c' v' hl => (key fd c' v' hl).2⟩
    intro e he
    rcases List.mem_append.mp he with he | he
    · have := h.lt e he; omega
    · have := hnewlt e he; omega
  · intro fd c' v' ⟨hc', hv', ht', hu'⟩
    rw [logOn_append]
    by_cases hfd : fd < t.nextFd
    · by_cases hr : call.readsFd fd
      · -- the call is `read_conn_packets` on this very connection
        have hcall : call = .processRead fd := by
          cases call <;> try exact absurd hr id
          case processRead fd' => have e : fd' = fd := hr; rw [e]
          case readAnswers fd' => exact absurd rfl (htop.1 fd')
        subst hcall
        rw [execH_fst] at hc' hv'
        obtain ⟨c, v, hc, hv, hu, htc, _, _⟩ := exec_conn_kind fuel _ t h.al fd hfd hfe hc' hv' hu'
        have hlive : liveTcp t fd c v := ⟨hc, hv, by rw [← htc]; exact ht', hu⟩
        obtain ⟨hent, hpost⟩ := processReadH_post fuel t fd c v h.al hlive hf
        rw [← execH_fst] at hc' hv'
        obtain ⟨_, e1, _, _, e5, e6⟩ := hpost c' v' hc' hv' hu'
        exact ⟨by rw [h.log fd c v hlive, logOn_all hent, e1, e5], e6⟩
      · -- the call does not read from this connection
        rw [execH_fst] at hc' hv'
        obtain ⟨c, v, hc, hv, hu, hvv, hcc⟩ := exec_read_frame fuel call t h.al fd hfd hr hfe hc' hv' hu'
        have e1 : v'.stream = v.stream := congrArg SV.stream hvv
        have e3 : v'.spos = v.spos := congrArg SV.spos hvv
        have e4 : c'.inBytes = c.inBytes := congrArg CV.inBytes hcc
        have e5 : c'.tcp = c.tcp := congrArg CV.tcp hcc
        have hno : logOn (execH fuel call t).2 fd = [] :=
          logOn_none (fun e he heq => hr (heq ▸ (execH_log_mem fuel call t e he).1))
        rw [hno, List.append_nil, e1, e3, e4]
        have hl0 : liveTcp t fd c v := ⟨hc, hv, by rw [← e5]; exact ht', hu⟩
        exact ⟨h.log fd c v hl0, h.drained fd c v hl0⟩
    · -- a connection opened by this call: nothing read yet, nothing logged
      have hge : t.nextFd ≤ fd := by omega
      rw [execH_fst] at hc' hv'
      obtain ⟨e1, e2⟩ := exec_fresh_unread fuel call t h.al hreadlt hfe fd hge hc' hv' hu'
      rw [← execH_fst] at hv'
      have h1 : logOn l fd = [] := logOn_none (fun e he heq => by have := h.lt e he; omega)
      have h2 : logOn (execH fuel call t).2 fd = [] := logOn_none (fun e he heq => by have := hnewlt e he; omega)
      rw [h1, h2, e1, e2]
      exact ⟨(arrived_zero (halo.stream fd v' hv').wf).symm, nextTcpFrame_zero _⟩

/-- **the invariant of runs** -/
theorem RunH.inv {s t : St} {l : HLog} (hr : RunH s t l) (h0 : RunInv s []) : RunInv t l := by
  induction hr with
  | nil => exact h0
  | env _ he ih => exact ih.env he
  | call fuel call _ htop hf ih => exact ih.call fuel call htop hf

/-- the messages that have arrived at any position are a prefix of the stream's messages -/
theorem arrived_prefix : ∀ (st : List (Nat × Reply)) (base pos : Nat), WfStream base st →
    arrived st pos <+: st.map (·.2)
  | [], _, _, _ => List.prefix_refl _
  | (e, r) :: rest, base, pos, h => by
    unfold arrived
    by_cases hle : e ≤ pos
    · simp only [List.filter_cons, hle, decide_true, ↓reduceIte, List.map_cons]
      exact List.prefix_cons_inj r |>.mpr (arrived_prefix rest e pos h.2)
    · have : rest.filter (fun x => decide (x.1 ≤ pos)) = [] := by
        rw [List.filter_eq_nil_iff]
        intro x hx
        have := WfStream.lt_of_mem h.2 x hx
        simp only [decide_eq_true_eq]; omega
      simp only [List.filter_cons, hle, decide_false, Bool.false_eq_true, ↓reduceIte, this, List.map_nil]
      exact List.nil_prefix

/-- a fresh channel satisfies the invariant with the empty log -/
theorem RunInv.init (s : St) (hc : s.conns = []) (hs : s.socks = []) : RunInv s [] :=
  ⟨aligned_init s hc hs, (fun _ he => by cases he), (fun fd c v ⟨h, _⟩ => by simp [St.conn?, hc] at h),
    (fun fd c v ⟨h, _⟩ => by simp [St.conn?, hc] at h)⟩

end Cares.Chan
