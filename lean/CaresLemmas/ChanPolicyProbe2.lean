import CaresLemmas.ChanPolicyProbe
import CaresLemmas.ChanPolicyFrame
/-!
# C09 — probes over whole runs: the guarded semantics `execG`

`execG` is `exec` with an assertion at the entry of every *nested* procedure call (the calls a procedure body makes
through `go`): a call `probe srvId key` (`ares_probe_failed_server`) asserts `trigOk`, a call
`sendNolock … owner := probe pid` (the creation of a probe query) asserts `probeSendOk` and that the callback's argument
`pid` is the probed server.  A failed assertion aborts the run
the way running out of fuel does (`St.oof`: the sticky flag `outOfFuel` is set).  `CaresLemmas/ChanPolicyProbe2Run.lean`
proves that the assertions never fail: `execG fuel c s = exec fuel c s`.
-/
namespace Cares.Chan

/-- the most recent entry of the pick log is an ordinary attempt (no server requested) of query `key` at server
    `srvId`, and that server had no failures when it was chosen -/
def trigOk (srvId key : Nat) (s : St) : Bool :=
  match s.picks.getLast? with
  | some (k, chosen, requested, prio) => k == key && chosen == srvId && !requested && prio.contains (srvId, 0)
  | none => false

/-- eligibility of server `id` for a probe at the moment the probe query is created: probing is configured, a server
    with this id has failures, its retry time has passed and it has just been marked as being probed; the request that
    triggered the probe (the most recent entry of the pick log) was an ordinary attempt at a *different* server, one
    without failures -/
def probeSendOk (id : Nat) (s : St) : Bool :=
  s.cfg.retryChance != 0 &&
  s.servers.any (fun v => v.id == id && decide (0 < v.failures) && decide (v.nextRetry ≤ s.now) && v.probePending) &&
  match s.picks.getLast? with
  | some (_, chosen, requested, prio) => chosen != id && !requested && prio.contains (chosen, 0)
  | none => false

/-- the assertion made at the entry of a call -/
def ProbeGuard : Call → St → Bool
  | .sendNolock srv nocache noretry _ (.probe pid) react, s =>
    (match srv with
     | some id => nocache && noretry && react.isEmpty && pid == id && probeSendOk id s
     | none => false)
  | .probe srvId key, s => trigOk srvId key s
  | _, _ => true

/-- `go` with the assertion in front -/
def guardGo (go : Call → St → St × Ret) : Call → St → St × Ret
  | .sendNolock srv nocache noretry spec (.probe pid) react, s =>
    if ProbeGuard (.sendNolock srv nocache noretry spec (.probe pid) react) s
    then go (.sendNolock srv nocache noretry spec (.probe pid) react) s else s.oof
  | .probe srvId key, s => if ProbeGuard (.probe srvId key) s then go (.probe srvId key) s else s.oof
  | c, s => go c s

/-- `exec` with the assertions: every nested call goes through `guardGo` -/
def execG : Nat → Call → St → St × Ret
  | 0, _, s => s.oof
  | fuel + 1, call, s => execBody (guardGo (execG fuel)) call s

theorem guardGo_of_guard (go : Call → St → St × Ret) (c : Call) (s : St) (h : ProbeGuard c s = true) :
    guardGo go c s = go c s := by
  unfold guardGo
  split
  · rw [if_pos h]
  · rw [if_pos h]
  · rfl

theorem guardGo_of_not_guard (go : Call → St → St × Ret) (c : Call) (s : St) (h : ProbeGuard c s = false) :
    guardGo go c s = s.oof := by
  unfold guardGo
  split
  · rw [if_neg (by rw [h]; exact Bool.false_ne_true)]
  · rw [if_neg (by rw [h]; exact Bool.false_ne_true)]
  · rename_i h1 h2
    exfalso
    unfold ProbeGuard at h
    split at h
    · exact h1 _ _ _ _ _ _ rfl
    · exact h2 _ _ rfl
    · cases h

/-- every body but `bodyProbe` and `bodySendQuery` makes no guarded call at all: with the assertions in front of `go`
    it is the same function (definitionally) -/
theorem execBody_guard_other (go : Call → St → St × Ret) (c : Call) (s : St)
    (h1 : ∀ a b, c ≠ .probe a b) (h2 : ∀ a b, c ≠ .sendQuery a b) :
    execBody (guardGo go) c s = execBody go c s := by
  cases c
  case probe a b => exact absurd rfl (h1 a b)
  case sendQuery a b => exact absurd rfl (h2 a b)
  all_goals rfl

end Cares.Chan
