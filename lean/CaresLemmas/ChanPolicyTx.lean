import CaresLemmas.ChanPolicyFrame
import CaresLemmas.ChanPolicyLookup
/-!
# C06 — transmissions never outnumber writes

Every frame the virtual server sees (`txs`) was first handed to a connection (`writeLog`): the frames still queued in
the connections' out buffers plus the transmissions recorded so far never exceed the writes, per query key.
-/
namespace Cares.Chan
set_option linter.unusedVariables false

/-- the fields this invariant reads -/
structure TP where
  tx : List Nat                    -- query key of every transmission
  conns : List (Nat × List Nat)    -- (descriptor, keys of the queued frames) of every connection
  nextFd : Nat
  wlog : List Nat

/-- frames of query `k` queued in out buffers -/
def outCnt (conns : List (Nat × List Nat)) (k : Nat) : Nat := (conns.map fun e => e.2.count k).sum

structure TOk (p : TP) : Prop where
  fdNodup : (p.conns.map (·.1)).Nodup
  fdLt : ∀ e ∈ p.conns, e.1 < p.nextFd
  bal : ∀ k, p.tx.count k + outCnt p.conns k ≤ p.wlog.count k

namespace TOk
variable {p : TP}

theorem map_fst_map (l : List (Nat × List Nat)) (g : Nat × List Nat → Nat × List Nat) (hg : ∀ e, (g e).1 = e.1) :
    (l.map g).map (fun e => e.1) = l.map (fun e => e.1) := by
  rw [List.map_map]; apply List.map_congr_left; intro e _; exact hg e

theorem bump (h : TOk p) : TOk { p with nextFd := p.nextFd + 1 } :=
  { h with fdLt := fun e he => by have := h.fdLt e he; show e.1 < p.nextFd + 1; omega }

theorem outCnt_append (l : List (Nat × List Nat)) (e : Nat × List Nat) (k : Nat) :
    outCnt (l ++ [e]) k = outCnt l k + e.2.count k := by
  unfold outCnt; simp [List.map_append, List.sum_append]

/-- a new connection with an empty out buffer and descriptor `nextFd` -/
theorem newConn (h : TOk p) : TOk { p with conns := p.conns ++ [(p.nextFd, [])], nextFd := p.nextFd + 1 } := by
  refine { fdNodup := ?_, fdLt := ?_, bal := ?_ }
  · dsimp only
    rw [List.map_append, List.nodup_append]
    refine ⟨h.fdNodup, by simp, ?_⟩
    intro a ha b hb
    obtain ⟨e, he, rfl⟩ := List.mem_map.1 ha
    simp only [List.map_cons, List.map_nil, List.mem_singleton] at hb
    subst hb
    have := h.fdLt e he
    omega
  · intro e he
    have he : e ∈ p.conns ++ [(p.nextFd, [])] := he
    show e.1 < p.nextFd + 1
    rcases List.mem_append.1 he with he | he
    · have := h.fdLt e he; omega
    · simp only [List.mem_singleton] at he; rw [he]; show p.nextFd < _; omega
  · intro k
    show p.tx.count k + outCnt (p.conns ++ [(p.nextFd, [])]) k ≤ p.wlog.count k
    rw [outCnt_append]
    have := h.bal k
    simp only [List.count_nil, Nat.add_zero]
    exact this

theorem outCnt_filter_le (l : List (Nat × List Nat)) (f : Nat × List Nat → Bool) (k : Nat) :
    outCnt (l.filter f) k ≤ outCnt l k := by
  induction l with
  | nil => exact Nat.le_refl _
  | cons e r ih =>
    unfold outCnt at *
    rw [List.filter_cons]
    split
    · simp only [List.map_cons, List.sum_cons]; omega
    · simp only [List.map_cons, List.sum_cons]; omega

/-- connections are dropped -/
theorem closeFd (x : Nat) (h : TOk p) : TOk { p with conns := p.conns.filter (fun e => e.1 != x) } :=
  { fdNodup := (List.filter_sublist.map _).nodup h.fdNodup
    fdLt := fun e he => h.fdLt e (List.mem_filter.1 he).1
    bal := fun k => by
      have := h.bal k
      have := outCnt_filter_le p.conns (fun e => e.1 != x) k
      show p.tx.count k + outCnt (p.conns.filter _) k ≤ p.wlog.count k
      omega }

theorem outCnt_map_le (l : List (Nat × List Nat)) (g : Nat × List Nat → Nat × List Nat) (k : Nat)
    (hg : ∀ e ∈ l, (g e).2.count k ≤ e.2.count k) : outCnt (l.map g) k ≤ outCnt l k := by
  induction l with
  | nil => exact Nat.le_refl _
  | cons e r ih =>
    unfold outCnt at *
    simp only [List.map_cons, List.sum_cons]
    have := hg e List.mem_cons_self
    have := ih (fun x hx => hg x (List.mem_cons_of_mem _ hx))
    omega

/-- out buffers shrink (a connection being closed drops its queue) -/
theorem shrink (g : Nat × List Nat → Nat × List Nat) (hfd : ∀ e, (g e).1 = e.1)
    (hg : ∀ e k, (g e).2.count k ≤ e.2.count k) (h : TOk p) : TOk { p with conns := p.conns.map g } := by
  refine { fdNodup := ?_, fdLt := ?_, bal := ?_ }
  · dsimp only
    rw [map_fst_map _ _ hfd]; exact h.fdNodup
  · intro e he
    obtain ⟨e0, he0, rfl⟩ := List.mem_map.1 he
    rw [hfd]; exact h.fdLt e0 he0
  · intro k
    have := h.bal k
    have := outCnt_map_le p.conns g k (fun e _ => hg e k)
    show p.tx.count k + outCnt (p.conns.map g) k ≤ p.wlog.count k
    omega

/-- with distinct descriptors, appending one frame to "the" connection `fd` adds at most one queued frame -/
theorem count_singleton' (key k : Nat) : [key].count k = if k = key then 1 else 0 := by
  by_cases h : k = key
  · subst h; simp
  · have : key ≠ k := fun e => h e.symm
    simp [h, this]

theorem outCnt_cons (e : Nat × List Nat) (r : List (Nat × List Nat)) (k : Nat) :
    outCnt (e :: r) k = e.2.count k + outCnt r k := by
  unfold outCnt; simp

theorem map_if_fd_id (r : List (Nat × List Nat)) (fd : Nat) (g : Nat × List Nat → Nat × List Nat)
    (hno : ∀ x ∈ r, x.1 ≠ fd) : (r.map fun e => if e.1 == fd then g e else e) = r := by
  conv => rhs; rw [← List.map_id r]
  apply List.map_congr_left
  intro x hx
  have : ¬ (x.1 == fd) = true := by simpa using hno x hx
  simp [this]

/-- with distinct descriptors, appending one frame to "the" connection `fd` adds at most one queued frame -/
theorem outCnt_enqueue_le (l : List (Nat × List Nat)) (hn : (l.map (fun e => e.1)).Nodup) (fd key k : Nat) :
    outCnt (l.map fun e => if e.1 == fd then (e.1, e.2 ++ [key]) else e) k ≤
      outCnt l k + (if k = key then 1 else 0) := by
  induction l with
  | nil => unfold outCnt; simp
  | cons e r ih =>
    simp only [List.map_cons, List.nodup_cons, List.mem_map, not_exists, not_and] at hn
    have ihr := ih hn.2
    rw [List.map_cons, outCnt_cons, outCnt_cons]
    by_cases he : e.1 == fd
    · rw [if_pos he]
      have hrest := map_if_fd_id r fd (fun e => (e.1, e.2 ++ [key]))
        (fun x hx hxe => hn.1 x hx (by rw [hxe, beq_iff_eq.1 he]))
      rw [hrest]
      show (e.2 ++ [key]).count k + _ ≤ _
      rw [List.count_append, count_singleton']
      omega
    · rw [if_neg he]
      omega

/-- a frame is handed to connection `fd` and the write is logged -/
theorem enqueue (fd key : Nat) (h : TOk p) :
    TOk { p with conns := p.conns.map (fun e => if e.1 == fd then (e.1, e.2 ++ [key]) else e),
                 wlog := p.wlog ++ [key] } := by
  have hg : ∀ e : Nat × List Nat, (if e.1 == fd then (e.1, e.2 ++ [key]) else e).1 = e.1 := by
    intro e; by_cases he : e.1 == fd <;> simp [he]
  refine { fdNodup := ?_, fdLt := ?_, bal := ?_ }
  · dsimp only
    rw [map_fst_map _ _ hg]; exact h.fdNodup
  · intro e he
    obtain ⟨e0, he0, rfl⟩ := List.mem_map.1 he
    rw [hg]; exact h.fdLt e0 he0
  · intro k
    have h1 := h.bal k
    have h2 := outCnt_enqueue_le p.conns h.fdNodup fd key k
    show p.tx.count k + outCnt (p.conns.map _) k ≤ (p.wlog ++ [key]).count k
    rw [List.count_append, count_singleton']
    omega

/-- the head frame of connection `fd` leaves the queue and is recorded as a transmission -/
theorem send (fd key : Nat) (rest : List Nat) (hfind : p.conns.find? (·.1 == fd) = some (fd, key :: rest))
    (h : TOk p) :
    TOk { p with conns := p.conns.map (fun e => if e.1 == fd then (e.1, rest) else e), tx := p.tx ++ [key] } := by
  have hg : ∀ e : Nat × List Nat, (if e.1 == fd then (e.1, rest) else e).1 = e.1 := by
    intro e; by_cases he : e.1 == fd <;> simp [he]
  have hcnt : ∀ k, outCnt (p.conns.map fun e => if e.1 == fd then (e.1, rest) else e) k + (if k = key then 1 else 0) ≤
      outCnt p.conns k := by
    intro k
    have hn := h.fdNodup
    generalize p.conns = l at hfind hn
    induction l with
    | nil => simp at hfind
    | cons e r ih =>
      simp only [List.map_cons, List.nodup_cons, List.mem_map, not_exists, not_and] at hn
      rw [List.map_cons, outCnt_cons, outCnt_cons]
      by_cases he : e.1 == fd
      · simp only [List.find?_cons, he, Option.some.injEq] at hfind
        subst hfind
        rw [if_pos (by simp)]
        have hrest := map_if_fd_id r fd (fun e => (e.1, rest)) (fun x hx hxe => hn.1 x hx (by rw [hxe]))
        rw [hrest]
        show rest.count k + _ + _ ≤ (key :: rest).count k + _
        have : (key :: rest).count k = rest.count k + (if k = key then 1 else 0) := by
          rw [show key :: rest = [key] ++ rest from rfl, List.count_append, count_singleton']; omega
        rw [this]
        omega
      · simp only [List.find?_cons, he] at hfind
        rw [if_neg he]
        have := ih hfind hn.2
        omega
  refine { fdNodup := ?_, fdLt := ?_, bal := ?_ }
  · dsimp only
    rw [map_fst_map _ _ hg]; exact h.fdNodup
  · intro e he
    obtain ⟨e0, he0, rfl⟩ := List.mem_map.1 he
    rw [hg]; exact h.fdLt e0 he0
  · intro k
    have h1 := h.bal k
    have h2 := hcnt k
    show (p.tx ++ [key]).count k + outCnt (p.conns.map _) k ≤ p.wlog.count k
    rw [List.count_append, count_singleton']
    omega

/-- **transmissions_le_writes** -/
theorem tx_le (h : TOk p) (k : Nat) : p.tx.count k ≤ p.wlog.count k := by
  have := h.bal k; omega

end TOk

/-! ### state level -/

def tproj (s : St) : TP :=
  ⟨s.txs.map (·.key), s.conns.map (fun c => (c.fd, c.out.map (·.key))), s.nextFd, s.writeLog⟩

def TInv (s : St) : Prop := TOk (tproj s)

theorem TInv.congr {s s' : St} (h0 : s'.cfg = s.cfg) (h1 : tproj s' = tproj s) (h : TInv s) : TInv s' := by
  unfold TInv at *; rw [h1]; exact h

theorem tproj_modConn (s : St) (fd : Nat) (f : Conn → Conn) (hf : ∀ c, (f c).fd = c.fd ∧ (f c).out = c.out) :
    tproj (s.modConn fd f) = tproj s := by
  unfold tproj St.modConn
  simp only [List.map_map, TP.mk.injEq, true_and, and_true]
  apply List.map_congr_left
  intro c _
  by_cases hc : c.fd == fd <;> simp [Function.comp, hc, hf]

theorem TInv.modConn {s : St} {fd : Nat} {f : Conn → Conn} (hf : ∀ c, (f c).fd = c.fd ∧ (f c).out = c.out)
    (h : TInv s) : TInv (s.modConn fd f) :=
  TInv.congr (s := s) rfl (tproj_modConn s fd f hf) h

/-- a connection's queue is dropped or shortened from the front -/
theorem TInv.modConnShrink {s : St} {fd : Nat} {f : Conn → Conn}
    (hf : ∀ c, (f c).fd = c.fd ∧ ∀ k, ((f c).out.map (·.key)).count k ≤ (c.out.map (·.key)).count k)
    (h : TInv s) : TInv (s.modConn fd f) := by
  unfold TInv
  have hlist : (tproj (s.modConn fd f)).conns =
      s.conns.map (fun c => ((if c.fd == fd then f c else c).fd, (if c.fd == fd then f c else c).out.map (·.key))) := by
    unfold tproj St.modConn; simp [List.map_map, Function.comp]
  have hT := h
  unfold TInv at hT
  refine { fdNodup := ?_, fdLt := ?_, bal := ?_ }
  · rw [hlist, List.map_map]
    have : ((fun x : Nat × List Nat => x.1) ∘ fun c : Conn =>
        ((if c.fd == fd then f c else c).fd, (if c.fd == fd then f c else c).out.map (·.key))) =
        fun c => c.fd := by
      funext c; by_cases hc : c.fd == fd <;> simp [Function.comp, hc, (hf c).1]
    rw [this]
    have hnd := hT.fdNodup
    unfold tproj at hnd
    rw [List.map_map] at hnd
    exact hnd
  · intro e he
    rw [hlist] at he
    obtain ⟨c, hc, rfl⟩ := List.mem_map.1 he
    have := hT.fdLt (c.fd, c.out.map (·.key)) (List.mem_map.2 ⟨c, hc, rfl⟩)
    show (if c.fd == fd then f c else c).fd < s.nextFd
    by_cases hcf : c.fd == fd
    · simp only [hcf, ↓reduceIte, (hf c).1]; exact this
    · simp only [hcf]; exact this
  · intro k
    have hb := hT.bal k
    show (tproj s).tx.count k + outCnt (tproj (s.modConn fd f)).conns k ≤ (tproj s).wlog.count k
    rw [hlist]
    have hle : outCnt (s.conns.map fun c =>
        ((if c.fd == fd then f c else c).fd, (if c.fd == fd then f c else c).out.map (·.key))) k ≤
        outCnt (tproj s).conns k := by
      unfold tproj outCnt
      simp only [List.map_map]
      generalize s.conns = l
      induction l with
      | nil => exact Nat.le_refl _
      | cons c r ih =>
        simp only [List.map_cons, List.sum_cons, Function.comp]
        have : ((if c.fd == fd then f c else c).out.map (·.key)).count k ≤ (c.out.map (·.key)).count k := by
          by_cases hcf : c.fd == fd
          · simp only [hcf, ↓reduceIte]; exact (hf c).2 k
          · simp only [hcf]; exact Nat.le_refl _
        omega
    omega

theorem TInv.notify {s : St} {fd : Nat} {r w : Bool} (h : TInv s) : TInv (s.notify fd r w) := by
  unfold St.notify
  split
  · exact h
  · split
    · exact TInv.congr (s := s.modConn fd _) rfl rfl (TInv.modConn (fun _ => ⟨rfl, rfl⟩) h)
    · exact TInv.modConn (fun _ => ⟨rfl, rfl⟩) h

theorem tproj_removeFromConn (s : St) (k : Nat) : tproj (s.removeFromConn k) = tproj s := by
  unfold St.removeFromConn
  split
  · rfl
  · dsimp only
    split
    · show tproj (St.modQuery (St.modConn _ _ _) _ _) = _
      have : ∀ (x : St) (k : Nat) (f : Query → Query), tproj (x.modQuery k f) = tproj x := fun _ _ _ => rfl
      rw [this, tproj_modConn]
      · rfl
      · intro _; exact ⟨rfl, rfl⟩
    · rfl

theorem TInv.removeFromConn {s : St} {k : Nat} (h : TInv s) : TInv (s.removeFromConn k) := by
  unfold TInv; rw [tproj_removeFromConn]; exact h

theorem TInv.detach {s : St} {k : Nat} (h : TInv s) : TInv (s.detach k) := by
  unfold St.detach
  split
  · exact h
  · exact TInv.congr (s := s.removeFromConn k) rfl rfl (TInv.removeFromConn h)

theorem TInv.freeQuery {s : St} {k : Nat} (h : TInv s) : TInv (s.freeQuery k) := by
  unfold St.freeQuery
  exact TInv.congr (s := s.detach k) rfl rfl (TInv.detach h)

chan_simple_lemmas TInv : TInv =>
  emit slog ofault mfault oofSt setQuery setServer setSock modQuery modServer modSock modClient cacheExpire

end Cares.Chan
