import CaresLemmas.ChanWfConn
/-!
# C01 — the transient state inside `process_answer`: the answered query has left its connection's list but
still names the connection (`hole = some key`)
-/
namespace Cares.Chan

open Cares.Proto.Cookie in
theorem validate_requeue_or_drop (c : CookieSt) (q : QState) (req resp : Option Bytes) (rcode : Nat) (tv : TimeVal) :
    (validate c q req resp rcode tv).requeue = false ∨ (validate c q req resp rcode tv).verdict = .drop := by
  unfold validate validateWith
  simp only
  repeat' split
  all_goals first
    | exact Or.inl rfl
    | exact Or.inr rfl

open Cares.Proto.Cookie in
/-- `ares_cookie_validate` requeues only replies it drops -/
theorem validate_requeue_drop (c : CookieSt) (q : QState) (req resp : Option Bytes) (rcode : Nat) (tv : TimeVal)
    (h : (validate c q req resp rcode tv).requeue = true) : (validate c q req resp rcode tv).verdict = .drop := by
  rcases validate_requeue_or_drop c q req resp rcode tv with h1 | h1
  · rw [h1] at h; cases h
  · exact h1

/-- the answered query leaves the list of connection `fd` -/
def Sk.hole (a : Sk) (fd key : Nat) : Sk := a.modC fd fun c => { c with queries := c.queries.erase key }

section
variable {a : Sk} {fd key : Nat}

theorem hole_cFQ : (a.hole fd key).cFQ = cfqErase a.cFQ (some fd) key := cFQ_modC_queries a fd (·.erase key)
theorem hole_cFUQ : (a.hole fd key).cFUQ = cfuqErase a.cFUQ (some fd) key := cFUQ_modC_queries a fd (·.erase key)
theorem hole_cF4 : (a.hole fd key).cF4 = a.cF4 := proj_modC _ _ _ _ (fun _ => rfl)

theorem wf_hole (h : WfS a none) : WfS (a.hole fd key) (some key) := by
  have hc := h.c
  refine ⟨h.q, h.i, h.t, ?_, by rw [hole_cF4]; exact h.s, h.k, h.tok⟩
  rw [hole_cFQ]
  show WfCP a.qKC a.idx _ a.nextFd a.socks (some key)
  have key' : ∀ c' ∈ cfqErase a.cFQ (some fd) key, ∃ c ∈ a.cFQ, c'.1 = c.1 ∧ (∀ x ∈ c'.2, x ∈ c.2) ∧ c'.2.Nodup := by
    intro c' hc'
    rcases mem_cfqErase.mp hc' with ⟨h1, _⟩ | ⟨_, q, hq', h2⟩
    · exact ⟨c', h1, rfl, fun _ hx => hx, hc.qNodup _ h1⟩
    · exact ⟨(c'.1, q), hq', rfl, fun x hx => by rw [h2] at hx; exact List.mem_of_mem_erase hx,
        by rw [h2]; exact (hc.qNodup _ hq').erase key⟩
  have img : ∀ c ∈ a.cFQ, ∃ c' ∈ cfqErase a.cFQ (some fd) key, c'.1 = c.1 ∧ (∀ x ∈ c.2, x ≠ key → x ∈ c'.2) := by
    intro c hcm
    by_cases hcf : some c.1 = some fd
    · exact ⟨(c.1, c.2.erase key), mem_cfqErase.mpr (Or.inr ⟨hcf, c.2, hcm, rfl⟩), rfl,
        fun x hx hne => (List.mem_erase_of_ne hne).mpr hx⟩
    · exact ⟨c, mem_cfqErase.mpr (Or.inl ⟨hcm, hcf⟩), rfl, fun _ hx _ => hx⟩
  constructor
  · rw [cfqErase_fst]; exact hc.nodup
  · intro c' hc'; obtain ⟨c, hcm, h1, _⟩ := key' c' hc'; rw [h1]; exact hc.lt c hcm
  · intro c' hc'; obtain ⟨c, hcm, h1, _⟩ := key' c' hc'; rw [h1]; exact hc.sock c hcm
  · intro c' hc'; obtain ⟨c, hcm, h1, _, h3⟩ := key' c' hc'; exact h3
  · intro c' hc' x hx
    obtain ⟨c, hcm, h1, h2, _⟩ := key' c' hc'
    rw [h1]; exact hc.cq c hcm x (h2 x hx)
  · intro p hp fd' hfd'
    obtain ⟨c, hcm, hcfd, hor⟩ := hc.qc p hp fd' hfd'
    obtain ⟨c', hc', e1, e2⟩ := img c hcm
    refine ⟨c', hc', by rw [e1, hcfd], ?_⟩
    by_cases hpk : p.1 = key
    · exact Or.inr (by rw [hpk])
    · rcases hor with hin | hh
      · exact Or.inl (e2 _ hin hpk)
      · cases hh

theorem step_hole {xf xi d} : StepS xf xi d a (a.hole fd key) := by
  refine StepS.of_same rfl rfl rfl rfl rfl rfl rfl ?_
  intro fd' q hm _
  rw [hole_cFUQ]
  by_cases hcf : some fd' = some fd
  · exact ⟨q.erase key, mem_cfuqErase.mpr (Or.inr ⟨hcf, q, hm, rfl⟩), fun x hx => List.mem_of_mem_erase hx⟩
  · exact ⟨q, mem_cfuqErase.mpr (Or.inl ⟨hm, hcf⟩), fun _ hx => hx⟩

theorem debt_hole {x d} (hd : DebtOk x d a) : DebtOk x d (a.hole fd key) := hd.congr rfl rfl rfl rfl rfl

theorem hole_q? (k : Nat) : (a.hole fd key).q? k = a.q? k := rfl

end

end Cares.Chan
