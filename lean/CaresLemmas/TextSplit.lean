import CaresModel.Text.Split
/-! Helper lemmas for C15: `ares_buf_split` (the loop model) refines plain splitting at delimiters, and
    splitting into lines distributes over concatenation at a line feed. -/
namespace Cares.Text

theorem rawSplit_ne_nil (isD : Nat → Bool) (bs : Bytes) : rawSplit isD bs ≠ [] := by
  induction bs with
  | nil => simp [rawSplit]
  | cons c cs ih =>
    unfold rawSplit
    split
    · simp
    · split <;> simp

theorem rawSplit_cons_notD (isD : Nat → Bool) (c : Nat) (cs : Bytes) (h : isD c = false) :
    rawSplit isD (c :: cs) = (c :: (rawSplit isD cs).headD []) :: (rawSplit isD cs).tail := by
  conv => lhs; unfold rawSplit
  simp only [h]
  cases rawSplit isD cs <;> simp

theorem headD_append_of_ne {α} (l m : List α) (d : α) (h : l ≠ []) : (l ++ m).headD d = l.headD d := by
  cases l <;> simp_all

theorem tail_append_of_ne' {α} (l m : List α) (h : l ≠ []) : (l ++ m).tail = l.tail ++ m := by
  cases l <;> simp_all

theorem rawSplit_append (isD : Nat → Bool) (a b : Bytes) (d : Nat) (hd : isD d = true) :
    rawSplit isD (a ++ d :: b) = rawSplit isD a ++ rawSplit isD b := by
  induction a with
  | nil => simp [rawSplit, hd]
  | cons c cs ih =>
    by_cases hc : isD c = true
    · simp [rawSplit, hc, ih]
    · have hc' : isD c = false := by simpa using hc
      rw [List.cons_append, rawSplit_cons_notD isD c _ hc', rawSplit_cons_notD isD c cs hc', ih]
      have hne := rawSplit_ne_nil isD cs
      rw [headD_append_of_ne _ _ _ hne, tail_append_of_ne' _ _ hne]
      simp

theorem rawSplit_unfold (isD : Nat → Bool) (bs : Bytes) :
    rawSplit isD bs = bs.takeWhile (fun c => !isD c) ::
      (match bs.dropWhile (fun c => !isD c) with
       | [] => []
       | _ :: r => rawSplit isD r) := by
  induction bs with
  | nil => simp [rawSplit]
  | cons c cs ih =>
    by_cases hc : isD c = true
    · simp [rawSplit, hc]
    · have hc' : isD c = false := by simpa using hc
      rw [rawSplit_cons_notD isD c cs hc', ih]
      simp [hc']

/-- the sections the loop still has to visit -/
def pendingSecs (delims : List Nat) (first : Bool) (rest : Bytes) : List Bytes :=
  if rest = [] then [] else rawSplit (isDelim delims) (if first then rest else rest.drop 1)

def keepPlain (f : SplitFlags) (v : Bytes) : Bool := !v.isEmpty || f.allowBlank

theorem keepSec_noDup (f : SplitFlags) (h : f.noDup = false) (acc : List Bytes) (v : Bytes) :
    keepSec f acc v = keepPlain f v := by
  simp [keepSec, keepPlain, h]

theorem length_dropWhile_le' {α} (p : α → Bool) (l : List α) : (l.dropWhile p).length ≤ l.length :=
  (List.dropWhile_sublist p).length_le

theorem splitLoop_spec (delims : List Nat) (f : SplitFlags) (hnd : f.noDup = false) :
    ∀ (fuel : Nat) (first : Bool) (rest : Bytes) (acc : List Bytes),
      rest.length + (if first then 1 else 0) ≤ fuel →
      splitLoop delims f 0 fuel first rest acc =
        acc ++ ((pendingSecs delims first rest).map (trimSec f)).filter (keepPlain f) := by
  intro fuel
  induction fuel with
  | zero =>
    intro first rest acc h
    have : rest = [] := by
      cases rest with
      | nil => rfl
      | cons a r => simp at h
    subst this
    simp [splitLoop, pendingSecs]
  | succ n ih =>
    intro first rest acc h
    unfold splitLoop
    by_cases hr : rest = []
    · subst hr; simp [pendingSecs]
    · have hr' : rest.isEmpty = false := by simpa using hr
      simp only [hr', Bool.false_eq_true, ↓reduceIte, bne_self_eq_false, Bool.false_and, keepSec_noDup f hnd]
      generalize hrest1 : (if first = true then rest else rest.drop 1) = rest1
      have hlen : (rest1.dropWhile (fun c => !isDelim delims c)).length + (if false = true then 1 else 0) ≤ n := by
        have h1 := length_dropWhile_le' (fun c => !isDelim delims c) rest1
        have h2 : rest1.length + 1 ≤ n + 1 := by
          subst hrest1
          cases first with
          | true => simpa using h
          | false =>
            have : rest.length ≥ 1 := by cases rest <;> simp_all
            simp at h ⊢; omega
        simp; omega
      rw [ih false _ _ hlen]
      simp only [pendingSecs, hr, ↓reduceIte, hrest1]
      rw [rawSplit_unfold (isDelim delims) rest1]
      simp only [List.map_cons, List.filter_cons, Bool.false_eq_true, ↓reduceIte]
      have e : (match rest1.dropWhile (fun c => !isDelim delims c) with
                | [] => []
                | _ :: r => rawSplit (isDelim delims) r) =
               (if rest1.dropWhile (fun c => !isDelim delims c) = [] then []
                else rawSplit (isDelim delims) ((rest1.dropWhile (fun c => !isDelim delims c)).drop 1)) := by
        cases rest1.dropWhile (fun c => !isDelim delims c) <;> simp
      rw [e]
      by_cases hk : keepPlain f (trimSec f (rest1.takeWhile (fun c => !isDelim delims c))) = true
      · simp [hk]
      · simp [hk]

theorem bufSplit_spec (delims : List Nat) (f : SplitFlags) (hnd : f.noDup = false) (bs : Bytes) :
    bufSplit delims f 0 bs =
      ((if bs = [] then [] else rawSplit (isDelim delims) bs).map (trimSec f)).filter (keepPlain f) := by
  unfold bufSplit
  rw [splitLoop_spec delims f hnd _ true bs [] (by simp)]
  simp [pendingSecs]

theorem isDelim_lf (c : Nat) : isDelim [10] c = (c == 10) := by
  simp [isDelim, List.contains, List.elem]
  cases (c == 10) <;> rfl

theorem lines_eq_spec (bs : Bytes) : lines bs = linesSpec bs := by
  unfold lines linesSpec
  rw [bufSplit_spec [10] SplitFlags.trim rfl]
  have hD : isDelim [10] = (fun c => c == 10) := by funext c; exact isDelim_lf c
  have hk : keepPlain SplitFlags.trim = (fun l => !l.isEmpty) := by
    funext l; simp [keepPlain, SplitFlags.trim]
  rw [hD, hk]
  by_cases h : bs = []
  · subst h; simp [rawSplit, trimSec, SplitFlags.trim]
  · simp [h]

theorem linesSpec_append (a b : Bytes) : linesSpec (a ++ 10 :: b) = linesSpec a ++ linesSpec b := by
  unfold linesSpec
  rw [rawSplit_append (· == 10) a b 10 (by simp)]
  simp

theorem lines_append (a b : Bytes) : lines (a ++ 10 :: b) = lines a ++ lines b := by
  rw [lines_eq_spec, lines_eq_spec, lines_eq_spec, linesSpec_append]

end Cares.Text
