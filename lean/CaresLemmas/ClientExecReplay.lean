import CaresLemmas.ClientExecLog3
/-!
# The log of client events replays on a pure machine (exec-level refinement, unconditional part)

`rstep` / `replay` interpret a log of client events as transformations of the *client store*
`(clients, nextClient)` plus the stack of client frames in progress, innermost first: `(id, some acts)` is a `runActs` frame of compound
request `id` that has still to execute `acts`; `(id, none)` says the user callback of `id`'s `.finish` is running:

* `.start`  the new record is `clientStart …`'s, its id is `nextClient`, a frame with `clientStart`'s actions is pushed;
* `.cb`     the record found is replaced by `clientOnCb`'s result on it, a frame with `clientOnCb`'s actions is pushed;
* `.act`    the action executed is the *first pending action of the innermost frame* (and that frame belongs to
            the same compound request); `.finish` drops the rest of the frame and opens a `(id, none)` frame;
* `.slot`   a query id is stored in the record; `.rel` closes the `(id, none)` frame and removes the record;
            `.ret` pops an exhausted `runActs` frame;
* `.lost`   no record exists (the frame's pending `.finish` is abandoned).

`exec_replays` (proved by induction over `execC`, every body for an arbitrary `goC` satisfying the same
specification) says: unless fuel runs out, the log of any procedure replays, from the client store before the call
to the client store after it, with the frame stack restored (`runActs id acts` consumes the frame `(id, acts)`).
That is: the channel model changes a compound request's record *only* by `clientStart` / `clientOnCb` / storing a
query id / release, and it executes exactly the actions those two functions returned, in order, frame by frame.
-/
namespace Cares.Chan

deriving instance DecidableEq for ReqSpec
deriving instance DecidableEq for ClientAct
deriving instance DecidableEq for CItem

structure RSt where
  clients : List Client
  next : Nat
  stack : List (Nat × Option (List ClientAct))

def setSlot (slot qid : Nat) (c : Client) : Client :=
  if slot == 0 then { c with qidA := qid } else { c with qidAAAA := qid }

def modC (l : List Client) (id : Nat) (f : Client → Client) : List Client :=
  l.map fun c => if c.id == id then f c else c

/-- the frames on top of the stack once the first action `a` of the innermost frame `(id, a :: rest)` has been
    started -/
def afterAct (id : Nat) (a : ClientAct) (rest : List ClientAct) : List (Nat × Option (List ClientAct)) :=
  match a with
  | .finish _ _ _ => [(id, none), (id, some [])]
  | _ => [(id, some rest)]

def rstep (cfg : Cfg) (r : RSt) : CItem → Option RSt
  | .start id kind tok react spec fam =>
    if id = r.next then
      some ⟨r.clients ++ [(clientStart cfg id kind tok react spec fam).1], id + 1,
            (id, some (clientStart cfg id kind tok react spec fam).2) :: r.stack⟩
    else none
  | .cb id st t rec qa qb =>
    match r.clients.find? (·.id == id) with
    | none => none
    | some c =>
      if c.qidA = qa ∧ c.qidAAAA = qb then
        some ⟨modC r.clients id (fun _ => (clientOnCb cfg c st t rec).1), r.next,
              (id, some (clientOnCb cfg c st t rec).2) :: r.stack⟩
      else none
  | .act id a =>
    match r.stack with
    | (id', some (a' :: rest)) :: σ =>
      if id' = id ∧ a' = a then some ⟨r.clients, r.next, afterAct id a rest ++ σ⟩ else none
    | _ => none
  | .slot id slot qid => some ⟨modC r.clients id (setSlot slot qid), r.next, r.stack⟩
  | .lost id =>
    match r.stack with
    | (id', some (.finish _ _ _ :: _)) :: σ =>
      if id' = id ∧ (r.clients.find? (·.id == id)).isNone then some ⟨r.clients, r.next, (id, some []) :: σ⟩ else none
    | _ => none
  | .rel id =>
    match r.stack with
    | (id', none) :: σ => if id' = id then some ⟨r.clients.filter (·.id != id), r.next, σ⟩ else none
    | _ => none
  | .ret id =>
    match r.stack with
    | (id', some []) :: σ => if id' = id then some ⟨r.clients, r.next, σ⟩ else none
    | _ => none

def replay (cfg : Cfg) : RSt → CLog → Option RSt
  | r, [] => some r
  | r, i :: l => (rstep cfg r i).bind fun r' => replay cfg r' l

theorem replay_append (cfg : Cfg) (r : RSt) (l1 l2 : CLog) :
    replay cfg r (l1 ++ l2) = (replay cfg r l1).bind fun r' => replay cfg r' l2 := by
  induction l1 generalizing r with
  | nil => rfl
  | cons i l ih =>
    simp only [List.cons_append, replay]
    cases rstep cfg r i with
    | none => rfl
    | some r' => simp only [Option.bind_some, ih]

theorem replay_snoc (cfg : Cfg) (r : RSt) (l : CLog) (i : CItem) :
    replay cfg r (l ++ [i]) = (replay cfg r l).bind fun r' => rstep cfg r' i := by
  rw [replay_append]
  congr 1
  funext r'
  simp only [replay]
  cases rstep cfg r' i <;> rfl

/-- the frame a procedure expects on top of the stack when it is called -/
def preσ : Call → List (Nat × Option (List ClientAct)) → List (Nat × Option (List ClientAct))
  | .runActs id acts, σ => (id, some acts) :: σ
  | _, σ => σ

/-- "unless fuel has run out, the log so far replays from `r0` to this client store and frame stack" -/
def RPv (cfg : Cfg) (r0 : RSt) (L : CLog) (σ : List (Nat × Option (List ClientAct))) (oof : Bool) (c : Cfg)
    (cl : List Client) (nx : Nat) : Prop :=
  oof = true ∨ (c = cfg ∧ replay cfg r0 L = some ⟨cl, nx, σ⟩)

abbrev RP (cfg : Cfg) (r0 : RSt) (L : CLog) (σ : List (Nat × Option (List ClientAct))) (s : St) : Prop :=
  RPv cfg r0 L σ s.outOfFuel s.cfg s.clients s.nextClient

/-- the specification of the recursive calls -/
abbrev GoRP (cfg : Cfg) (r0 : RSt) (goC : GoC) : Prop :=
  ∀ c s L σ, RP cfg r0 L (preσ c σ) s → RP cfg r0 (L ++ (goC c s).2) σ (goC c s).1.1

/-- peel a goal `RP … (L ++ log) σ state` about an instrumented body: recursive calls by `h`, primitive updates by
    the frame lemmas, control flow by splitting -/
syntax "rp_peel " ident : tactic
macro_rules
  | `(tactic| rp_peel $h) =>
    `(tactic| repeat (first
        | with_reducible assumption
        | with_reducible (apply $h)
        | (simp only [chan_frame, RP, preσ, List.append_nil, ← List.append_assoc])
        | (csplit <;> pair_subst)))

section
variable {cfg : Cfg} {r0 : RSt} {goC : GoC} (hgo : GoRP cfg r0 goC)
include hgo

theorem sqFlushC_RP (fd : Nat) (s : St) (L : CLog) (σ) (h : RP cfg r0 L σ s) :
    RP cfg r0 (L ++ (sqFlushC goC fd s).2) σ (sqFlushC goC fd s).1.2 := by
  unfold sqFlushC; rp_peel hgo

theorem sqLinkC_RP (pd : Bool) (key : Nat) (srv : Server) (fd : Nat) (s : St) (L : CLog) (σ) (h : RP cfg r0 L σ s) :
    RP cfg r0 (L ++ (sqLinkC goC pd key srv fd s).2) σ (sqLinkC goC pd key srv fd s).1.1 := by
  unfold sqLinkC; rp_peel hgo

theorem sqWriteQC_RP (reqSrv : Option Nat) (key : Nat) (q : Query) (srv : Server) (fd : Nat) (s : St) (L : CLog) (σ)
    (h : RP cfg r0 L σ s) :
    RP cfg r0 (L ++ (sqWriteQC goC reqSrv key q srv fd s).2) σ (sqWriteQC goC reqSrv key q srv fd s).1.1 := by
  have h1 : RP cfg r0 L σ (sqPrepare key q srv fd s).1 := by simpa only [RP, chan_frame] using h
  have h2 := sqFlushC_RP hgo fd _ L σ h1
  unfold sqWriteQC
  simp only []
  split
  · rw [← List.append_assoc]; exact sqLinkC_RP hgo _ _ _ _ _ _ _ h2
  all_goals rp_peel hgo

theorem bodySendQueryC_RP (reqSrv : Option Nat) (key : Nat) (s : St) (L : CLog) (σ) (h : RP cfg r0 L σ s) :
    RP cfg r0 (L ++ (bodySendQueryC goC reqSrv key s).2) σ (bodySendQueryC goC reqSrv key s).1.1 := by
  unfold bodySendQueryC
  split
  · simpa only [RP, chan_frame, List.append_nil] using h
  · simp only []
    split
    · exact hgo _ _ _ _ (by simpa only [RP, preσ, chan_frame] using h)
    · split <;> pair_subst
      · apply hgo; split at * <;> simp_all only [RP, preσ, chan_frame]
      · apply sqWriteQC_RP hgo; split at * <;> simp_all only [RP, chan_frame]

theorem reactOneC_RP (i : Nat) (s : St) (L : CLog) (σ) (h : RP cfg r0 L σ s) :
    RP cfg r0 (L ++ (reactOneC goC i s).2) σ (reactOneC goC i s).1 := by
  unfold reactOneC; rp_peel hgo

theorem closeAllC_RP (fds : List Nat) (s : St) (L : CLog) (σ) (h : RP cfg r0 L σ s) :
    RP cfg r0 (L ++ (closeAllC goC fds s).2) σ (closeAllC goC fds s).1 := by
  induction fds generalizing s L with
  | nil => simpa only [closeAllC, List.append_nil] using h
  | cons fd rest ih =>
    simp only [closeAllC, ← List.append_assoc]
    exact ih _ _ (hgo _ _ _ _ h)

theorem paDeliverC_RP (fd : Nat) (r : Reply) (c : Conn) (key : Nat) (q : Query) (s : St) (L : CLog) (σ)
    (h : RP cfg r0 L σ s) :
    RP cfg r0 (L ++ (paDeliverC goC fd r c key q s).2) σ (paDeliverC goC fd r c key q s).1.1 := by
  unfold paDeliverC; rp_peel hgo

end

end Cares.Chan
