import Lean.Meta.Tactic.Simp.RegisterCommand
/-! simp set of the frame lemmas of the channel model's primitive state updates -/
register_simp_attr chan_frame
/-! simp set of the view-level frame lemmas (`(prim s).sview = s.sview`) -/
register_simp_attr sview_frame
