import Lean.Meta.Tactic.Simp.RegisterCommand
/-! simp set of the frame lemmas of the channel model's primitive state updates -/
register_simp_attr chan_frame
