import CaresModel.Legacy.Parsers
/-! Helper lemmas: every conversion loop of the legacy parsers equals a filter/map expression. -/
namespace Cares.Legacy
open Cares.AddrInfo

theorem appendLoop_eq {β : Type} (f : RR → List β) (l : List RR) (acc : List β) :
    appendLoop f l acc = acc ++ l.flatMap f := by
  induction l generalizing acc with
  | nil => simp [appendLoop]
  | cons rr rest ih => simp [appendLoop, ih, List.flatMap_cons, List.append_assoc]

theorem txtChunks_eq (ex : Bool) (l : List Bytes) (j : Nat) :
    txtChunks ex l j = (l.zipIdx j).map (fun p => ({ txt := p.1, recordStart := ex && p.2 == 0 } : TxtReply)) := by
  induction l generalizing j with
  | nil => simp [txtChunks]
  | cons c rest ih => simp [txtChunks, ih, List.zipIdx_cons]

theorem txtChunks_map_txt (ex : Bool) (l : List Bytes) (j : Nat) :
    (txtChunks ex l j).map (·.txt) = l := by
  induction l generalizing j with
  | nil => simp [txtChunks]
  | cons c rest ih => simp [txtChunks, ih]

/-! ### ares_parse_into_addrinfo -/

/-- node contributed by one answer -/
def nodeOf (port : Nat) (rr : RR) : Option AddrNode :=
  if rr.cls ≠ clsIN then none
  else match rr.data with
    | .a addr => some { family := afINET, addr := addr, port := port, ttl := toI32 rr.ttl }
    | .aaaa addr => some { family := afINET6, addr := addr, port := port, ttl := toI32 rr.ttl }
    | _ => none

/-- cname node contributed by one answer -/
def cnameOf (rr : RR) : Option CnameNode :=
  if rr.cls ≠ clsIN then none
  else match rr.data with
    | .cname c => some { ttl := toI32 rr.ttl, alias := some rr.name, name := some c }
    | _ => none

def isA (rr : RR) : Bool := rr.cls = clsIN && (match rr.data with | .a _ => true | _ => false)
def isAaaa (rr : RR) : Bool := rr.cls = clsIN && (match rr.data with | .aaaa _ => true | _ => false)
def isCname (rr : RR) : Bool := rr.cls = clsIN && (match rr.data with | .cname _ => true | _ => false)

/-- target of an IN CNAME -/
def cnameTarget (rr : RR) : Option Bytes :=
  if rr.cls ≠ clsIN then none
  else match rr.data with
    | .cname c => some c
    | _ => none

theorem pStep_nodes (port : Nat) (s : PState) (rr : RR) :
    (pStep port s rr).nodes = s.nodes ++ (nodeOf port rr).toList := by
  unfold pStep nodeOf
  by_cases h : rr.cls ≠ clsIN
  · simp [h]
  · simp only [h, ↓reduceIte]
    cases rr.data <;> simp

theorem pStep_cnames (port : Nat) (s : PState) (rr : RR) :
    (pStep port s rr).cnames = s.cnames ++ (cnameOf rr).toList := by
  unfold pStep cnameOf
  by_cases h : rr.cls ≠ clsIN
  · simp [h]
  · simp only [h, ↓reduceIte]
    cases rr.data <;> simp

theorem pStep_gotA (port : Nat) (s : PState) (rr : RR) :
    (pStep port s rr).gotA = (s.gotA || isA rr) := by
  unfold pStep isA
  by_cases h : rr.cls ≠ clsIN
  · simp [h]
  · have h' : rr.cls = clsIN := by simpa using h
    simp only [h, ↓reduceIte]
    cases rr.data <;> simp [h']

theorem pStep_gotAaaa (port : Nat) (s : PState) (rr : RR) :
    (pStep port s rr).gotAaaa = (s.gotAaaa || isAaaa rr) := by
  unfold pStep isAaaa
  by_cases h : rr.cls ≠ clsIN
  · simp [h]
  · have h' : rr.cls = clsIN := by simpa using h
    simp only [h, ↓reduceIte]
    cases rr.data <;> simp [h']

theorem pStep_gotCname (port : Nat) (s : PState) (rr : RR) :
    (pStep port s rr).gotCname = (s.gotCname || isCname rr) := by
  unfold pStep isCname
  by_cases h : rr.cls ≠ clsIN
  · simp [h]
  · have h' : rr.cls = clsIN := by simpa using h
    simp only [h, ↓reduceIte]
    cases rr.data <;> simp [h']

theorem pStep_hostname (port : Nat) (s : PState) (rr : RR) :
    (pStep port s rr).hostname = (cnameTarget rr).getD s.hostname := by
  unfold pStep cnameTarget
  by_cases h : rr.cls ≠ clsIN
  · simp [h]
  · simp only [h, ↓reduceIte]
    cases rr.data <;> simp

theorem pLoop_nodes (port : Nat) (l : List RR) (s : PState) :
    (pLoop port s l).nodes = s.nodes ++ l.filterMap (nodeOf port) := by
  induction l generalizing s with
  | nil => simp [pLoop]
  | cons rr rest ih =>
    have := ih (pStep port s rr)
    simp only [pLoop, List.foldl_cons] at this ⊢
    rw [this, pStep_nodes]
    cases h : nodeOf port rr <;> simp [h]

theorem pLoop_cnames (port : Nat) (l : List RR) (s : PState) :
    (pLoop port s l).cnames = s.cnames ++ l.filterMap cnameOf := by
  induction l generalizing s with
  | nil => simp [pLoop]
  | cons rr rest ih =>
    have := ih (pStep port s rr)
    simp only [pLoop, List.foldl_cons] at this ⊢
    rw [this, pStep_cnames]
    cases h : cnameOf rr <;> simp [h]

theorem pLoop_gotA (port : Nat) (l : List RR) (s : PState) :
    (pLoop port s l).gotA = (s.gotA || l.any isA) := by
  induction l generalizing s with
  | nil => simp [pLoop]
  | cons rr rest ih =>
    have := ih (pStep port s rr)
    simp only [pLoop, List.foldl_cons] at this ⊢
    rw [this, pStep_gotA]; simp [Bool.or_assoc]

theorem pLoop_gotAaaa (port : Nat) (l : List RR) (s : PState) :
    (pLoop port s l).gotAaaa = (s.gotAaaa || l.any isAaaa) := by
  induction l generalizing s with
  | nil => simp [pLoop]
  | cons rr rest ih =>
    have := ih (pStep port s rr)
    simp only [pLoop, List.foldl_cons] at this ⊢
    rw [this, pStep_gotAaaa]; simp [Bool.or_assoc]

theorem pLoop_gotCname (port : Nat) (l : List RR) (s : PState) :
    (pLoop port s l).gotCname = (s.gotCname || l.any isCname) := by
  induction l generalizing s with
  | nil => simp [pLoop]
  | cons rr rest ih =>
    have := ih (pStep port s rr)
    simp only [pLoop, List.foldl_cons] at this ⊢
    rw [this, pStep_gotCname]; simp [Bool.or_assoc]

/-- the hostname after the loop: target of the last IN CNAME, else the initial one -/
theorem pLoop_hostname (port : Nat) (l : List RR) (s : PState) :
    (pLoop port s l).hostname = ((l.filterMap cnameTarget).getLast?).getD s.hostname := by
  induction l generalizing s with
  | nil => simp [pLoop]
  | cons rr rest ih =>
    have := ih (pStep port s rr)
    simp only [pLoop, List.foldl_cons] at this ⊢
    rw [this, pStep_hostname]
    cases h : cnameTarget rr with
    | none => simp [h]
    | some c =>
      simp only [List.filterMap_cons, h, Option.getD_some, List.getLast?_cons]


/-! ### ares_addrinfo2addrttl -/

/-- the entry written for one node -/
def ttlEntry (cttl : Int) (n : AddrNode) : Bytes × Int := (n.addr, if n.ttl > cttl then cttl else n.ttl)

theorem ttlLoop_eq (family req : Nat) (cttl : Int) (nodes : List AddrNode) (acc : List (Bytes × Int))
    (h : acc.length ≤ req) :
    ttlLoop family req cttl nodes acc =
      acc ++ ((nodes.filter (fun n => n.family = family)).map (ttlEntry cttl)).take (req - acc.length) := by
  induction nodes generalizing acc with
  | nil => simp [ttlLoop]
  | cons n rest ih =>
    unfold ttlLoop
    by_cases hf : n.family ≠ family
    · have hf' : ¬ (n.family = family) := hf
      rw [if_pos hf, ih acc h]
      simp [hf']
    · have hf' : n.family = family := by simpa using hf
      rw [if_neg hf]
      by_cases hc : acc.length ≥ req
      · have : req - acc.length = 0 := by omega
        rw [if_pos hc, this]; simp
      · rw [if_neg hc, ih _ (by simp; omega)]
        have e : req - acc.length = (req - (acc ++ [(n.addr, if n.ttl > cttl then cttl else n.ttl)]).length) + 1 := by
          simp; omega
        rw [e]
        simp [hf', ttlEntry, List.append_assoc]

theorem ttlLoop_length_le (family req : Nat) (cttl : Int) (nodes : List AddrNode) (acc : List (Bytes × Int))
    (h : acc.length ≤ req) : (ttlLoop family req cttl nodes acc).length ≤ req := by
  rw [ttlLoop_eq _ _ _ _ _ h]
  simp only [List.length_append, List.length_take]
  omega

/-- running minimum from `m` -/
def minFrom (cs : List CnameNode) (m : Int) : Int :=
  cs.foldl (fun m c => if c.ttl < m then c.ttl else m) m

theorem minFrom_spec (cs : List CnameNode) (m : Int) :
    minFrom cs m ≤ m ∧ (∀ c ∈ cs, minFrom cs m ≤ c.ttl) ∧ (minFrom cs m = m ∨ ∃ c ∈ cs, minFrom cs m = c.ttl) := by
  induction cs generalizing m with
  | nil => simp [minFrom]
  | cons c rest ih =>
    have hstep : minFrom (c :: rest) m = minFrom rest (if c.ttl < m then c.ttl else m) := by
      simp [minFrom]
    rw [hstep]
    obtain ⟨h1, h2, h3⟩ := ih (if c.ttl < m then c.ttl else m)
    have hle : (if c.ttl < m then c.ttl else m) ≤ m ∧ (if c.ttl < m then c.ttl else m) ≤ c.ttl := by
      split <;> omega
    refine ⟨by omega, ?_, ?_⟩
    · intro d hd
      rcases List.mem_cons.mp hd with rfl | hd
      · omega
      · exact h2 d hd
    · rcases h3 with h3 | ⟨d, hd, h3⟩
      · by_cases hc : c.ttl < m
        · simp only [hc, ↓reduceIte] at h3 ⊢
          exact Or.inr ⟨c, List.mem_cons_self, h3⟩
        · simp only [hc, ↓reduceIte] at h3 ⊢
          exact Or.inl h3
      · exact Or.inr ⟨d, List.mem_cons_of_mem _ hd, h3⟩

theorem cnameTtl_spec (cs : List CnameNode) :
    cnameTtl cs ≤ intMax ∧ (∀ c ∈ cs, cnameTtl cs ≤ c.ttl) ∧
      (cnameTtl cs = intMax ∨ ∃ c ∈ cs, cnameTtl cs = c.ttl) :=
  minFrom_spec cs intMax

/-! ### ares_parse_soa_reply, ares_parse_ptr_reply -/

def soaOf (rr : RR) : Option SoaReply :=
  if rr.cls ≠ clsIN then none
  else match rr.data with
    | .soa mname rname serial refresh retry expire minimum =>
      some { nsname := mname, hostmaster := rname, serial := serial, refresh := refresh,
             retry := retry, expire := expire, minttl := minimum }
    | _ => none

theorem soaLoop_eq (l : List RR) : soaLoop l = (l.filterMap soaOf).head? := by
  induction l with
  | nil => simp [soaLoop]
  | cons rr rest ih =>
    unfold soaLoop
    by_cases h : rr.cls ≠ clsIN
    · simp [h, ih, soaOf]
    · simp only [h, ↓reduceIte]
      cases hd : rr.data <;> simp [ih, soaOf, h, hd]

def ptrOf (rr : RR) : Option Bytes :=
  if rr.cls ≠ clsIN then none
  else match rr.data with
    | .ptr d => some d
    | _ => none

theorem ptrStep_aliases (s : PtrState) (rr : RR) :
    (ptrStep s rr).aliases = s.aliases ++ (ptrOf rr).toList := by
  unfold ptrStep ptrOf
  by_cases h : rr.cls ≠ clsIN
  · simp [h]
  · simp only [h, ↓reduceIte]
    cases rr.data <;> simp

theorem ptrStep_hostname (s : PtrState) (rr : RR) :
    (ptrStep s rr).hostname = (ptrOf rr).or s.hostname := by
  unfold ptrStep ptrOf
  by_cases h : rr.cls ≠ clsIN
  · simp [h]
  · simp only [h, ↓reduceIte]
    cases rr.data <;> simp

theorem ptrFold_aliases (l : List RR) (s : PtrState) :
    (l.foldl ptrStep s).aliases = s.aliases ++ l.filterMap ptrOf := by
  induction l generalizing s with
  | nil => simp
  | cons rr rest ih =>
    simp only [List.foldl_cons]
    rw [ih, ptrStep_aliases]
    cases h : ptrOf rr <;> simp [h]

theorem ptrFold_hostname (l : List RR) (s : PtrState) :
    (l.foldl ptrStep s).hostname = ((l.filterMap ptrOf).getLast?).or s.hostname := by
  induction l generalizing s with
  | nil => simp
  | cons rr rest ih =>
    simp only [List.foldl_cons]
    rw [ih, ptrStep_hostname]
    cases h : ptrOf rr with
    | none => simp [h]
    | some d =>
      simp only [List.filterMap_cons, h, List.getLast?_cons]
      cases (List.filterMap ptrOf rest).getLast? <;> simp

end Cares.Legacy
