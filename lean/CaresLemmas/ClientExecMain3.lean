import CaresLemmas.ClientExecMain2
/-!
# `fold_of_replay` (continued): the phase invariant along a replaying, causal log
-/
namespace Cares.Chan
open Cares.ClientWalk

theorem start1_of_not_start {cid : Nat} {i : CItem} (h : i.isStart = false) : start1 cid i = [] := by
  cases i <;> first | rfl | cases h

theorem phase_step {cfg : Cfg} {cid : Nat} {L : CLog} {r r1 : RSt} {i : CItem} (hp : Phase cfg cid L r)
    (hr : rstep cfg r i = some r1)
    (hc : (ev1 cid i).isEmpty = true ∨ (evsOf cid L).length < (sentOf cid L).length) :
    Phase cfg cid (L ++ [i]) r1 := by
  cases hp with
  | before hf h0 h1 h2 h3 =>
    cases hs : i.isStart with
    | false =>
      obtain ⟨p1, p2, p3, p4, hf1⟩ := fresh_other hf hr hs
      exact .before hf1 (by rw [startsOf_snoc, h0, p4]; rfl) (by rw [evsOf_snoc, h1, p1]; rfl)
        (by rw [sentOf_snoc, h2, p2]; rfl) (by rw [finsOf_snoc, h3, p3]; rfl)
    | true =>
      cases i with
      | start id k tok re sp f =>
        simp only [rstep] at hr
        split at hr
        · rename_i hid
          cases hr
          by_cases hc : id = cid
          · subst hc
            refine .after k tok re sp f (by rw [startsOf_snoc, h0]; simp [start1]) (by show id < id + 1; omega) ?_
            have e1 : evsOf id (L ++ [CItem.start id k tok re sp f]) = [] := by rw [evsOf_snoc, h1]; rfl
            have e2 : sentOf id (L ++ [CItem.start id k tok re sp f]) = [] := by rw [sentOf_snoc, h2]; rfl
            have e3 : finsOf id (L ++ [CItem.start id k tok re sp f]) = [] := by rw [finsOf_snoc, h3]; rfl
            rw [e1, e2, e3]
            have hnone : r.clients.find? (·.id == id) = none := by
              rw [List.find?_eq_none]
              intro x hx
              have := hf.ids x hx
              simp only [beq_iff_eq]; omega
            have hst : r.stack.filter (·.1 == id) = [] := by
              rw [List.filter_eq_nil_iff]
              intro x hx
              have := hf.frames x hx
              simp only [beq_iff_eq]; omega
            have hl : lproj id ⟨r.clients ++ [(clientStart cfg id k tok re sp f).1], id + 1,
                (id, some (clientStart cfg id k tok re sp f).2) :: r.stack⟩ =
                ⟨some (clientStart cfg id k tok re sp f).1, [some (clientStart cfg id k tok re sp f).2]⟩ := by
              simp only [lproj, find?_snoc, hnone, (clientStart_ok cfg id k tok re sp f).id, beq_self_eq_true,
                ↓reduceIte, Option.none_or, List.filter_cons, hst, List.map_cons, List.map_nil]
            rw [hl]
            exact Core.init cfg id k tok re sp f
          · have hlt : id < cid := by have := hf.next; omega
            obtain ⟨p1, p2, p3, p4⟩ := proj_other (cid := cid) (i := .start id k tok re sp f) hc
            refine .before ⟨by show id + 1 ≤ cid; omega, ?_, ?_⟩ (by rw [startsOf_snoc, h0, p4]; rfl)
              (by rw [evsOf_snoc, h1, p1]; rfl) (by rw [sentOf_snoc, h2, p2]; rfl) (by rw [finsOf_snoc, h3, p3]; rfl)
            · intro x hx
              rcases List.mem_append.mp hx with e | e
              · have := hf.ids x e; show x.id < id + 1; omega
              · simp only [List.mem_singleton] at e
                rw [e, (clientStart_ok cfg id k tok re sp f).id]; exact Nat.lt_succ_self _
            · intro x hx
              rcases List.mem_cons.mp hx with e | e
              · rw [e]; exact Nat.lt_succ_self _
              · have := hf.frames x e; show x.1 < id + 1; omega
        · cases hr
      | _ => cases hs
  | after k tok re sp f hs hn hcore =>
    by_cases hw : i.who = cid
    · cases hst : i.isStart with
      | true =>
        cases i with
        | start id k' tok' re' sp' f' =>
          have hid : id = cid := hw
          simp only [rstep] at hr
          split at hr
          · rename_i e; omega
          · cases hr
        | _ => cases hst
      | false =>
        have hl := rstep_mine cfg cid r r1 i hr hw hst
        have := hcore.step i hw hst _ hl hc
        refine .after k tok re sp f (by rw [startsOf_snoc, hs, start1_of_not_start hst]; rfl)
          (Nat.lt_of_lt_of_le hn (rstep_next_mono hr)) ?_
        rw [evsOf_snoc, sentOf_snoc, finsOf_snoc]
        exact this
    · obtain ⟨p1, p2, p3, p4⟩ := proj_other (cid := cid) (i := i) hw
      refine .after k tok re sp f (by rw [startsOf_snoc, hs, p4]; rfl)
        (Nat.lt_of_lt_of_le hn (rstep_next_mono hr)) ?_
      rw [evsOf_snoc, sentOf_snoc, finsOf_snoc, p1, p2, p3, List.append_nil, List.append_nil, List.append_nil,
        rstep_other cfg cid r r1 i hr hw]
      exact hcore

theorem phase_run {cfg : Cfg} {cid : Nat} : ∀ (L2 L1 : CLog) (r r' : RSt), Phase cfg cid L1 r →
    replay cfg r L2 = some r' →
    causalFrom cid (evsOf cid L1).length (sentOf cid L1).length L2 = true → Phase cfg cid (L1 ++ L2) r'
  | [], L1, r, r', hp, hr, _ => by
    simp only [replay, Option.some.injEq] at hr
    rw [List.append_nil, ← hr]; exact hp
  | i :: L2, L1, r, r', hp, hr, hc => by
    simp only [replay] at hr
    cases h1 : rstep cfg r i with
    | none => rw [h1] at hr; cases hr
    | some r1 =>
      rw [h1] at hr
      simp only [Option.bind_some] at hr
      simp only [causalFrom, Bool.and_eq_true, Bool.or_eq_true, decide_eq_true_eq] at hc
      have hp1 := phase_step hp h1 hc.1
      have := phase_run L2 (L1 ++ [i]) r1 r' hp1 hr (by
        rw [evsOf_snoc, sentOf_snoc, List.length_append, List.length_append]; exact hc.2)
      rw [List.append_assoc] at this
      exact this

/-- **Pure main theorem.**  A log that replays from a state in which `cid` does not exist yet, that is causal for
    `cid`, and after which no frame of `cid` is in progress, is the flat fold: the sub-requests started for `cid` are
    `clientRun`'s, and the completion handed to its user callback (if any) is `clientRun`'s. -/
theorem fold_of_replay (cfg : Cfg) (cid : Nat) (r0 r1 : RSt) (L : CLog) (hr : replay cfg r0 L = some r1)
    (hfresh : Fresh cid r0) (hcausal : Causal cid L) (hdone : ∀ f ∈ r1.stack, f.1 ≠ cid)
    (k : String) (tok : Nat) (re : List Nat) (sp : ReqSpec) (f : Nat) (hs : CItem.start cid k tok re sp f ∈ L) :
    sentOf cid L = (clientRun cfg cid k tok re sp f (evsOf cid L)).sent ∧
    finsOf cid L = (clientRun cfg cid k tok re sp f (evsOf cid L)).fin.toList := by
  have hp := phase_run L [] r0 r1 (.before hfresh rfl rfl rfl rfl) hr hcausal
  rw [List.nil_append] at hp
  have hmem : (k, tok, re, sp, f) ∈ startsOf cid L :=
    List.mem_flatMap.mpr ⟨_, hs, by simp [start1]⟩
  cases hp with
  | before _ h0 => rw [h0] at hmem; cases hmem
  | after k' tok' re' sp' f' hs' _ hcore =>
    rw [hs'] at hmem
    simp only [List.mem_singleton] at hmem
    cases hmem
    have hstack : (lproj cid r1).stack = [] := by
      simp only [lproj, List.map_eq_nil_iff, List.filter_eq_nil_iff]
      intro x hx
      simpa using hdone x hx
    have hw := hcore.walk
    rw [hstack, foldC_snd] at hw
    have hrun : clientRun cfg cid k tok re sp f (evsOf cid L) = ⟨sentOf cid L, (finsOf cid L).head?⟩ := hw
    rw [hrun]
    refine ⟨rfl, ?_⟩
    have := hcore.finsLe
    cases hfi : finsOf cid L with
    | nil => rfl
    | cons x t =>
      cases t with
      | nil => rfl
      | cons y t' => rw [hfi] at this; simp at this

end Cares.Chan
