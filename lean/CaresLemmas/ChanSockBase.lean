import Lean.Elab.Tactic
import CaresLemmas.ChanSockPrim
/-!
# Proof infrastructure for the channel model (`Chan.Core`)

* `exec_spec`: the induction principle of the open-recursion executor: a call-indexed specification that every
  body re-establishes from the same specification of its recursive calls holds of `exec` at every fuel.
* `pair_subst`: replaces the components of `h : e = (a, b)` (as left behind by `split` on `let (a, b) := e`) by
  `e.1`, `e.2`.
-/
namespace Cares.Chan

theorem exec_spec (Spec : Call → St → St × Ret → Prop)
    (hoof : ∀ c s, Spec c s s.oof)
    (hbody : ∀ go : Call → St → St × Ret, (∀ c s, Spec c s (go c s)) → ∀ c s, Spec c s (execBody go c s)) :
    ∀ fuel c s, Spec c s (exec fuel c s)
  | 0, c, s => hoof c s
  | fuel + 1, c, s => hbody (exec fuel) (exec_spec Spec hoof hbody fuel) c s

/-- state-predicate form -/
theorem exec_inv (P : St → Prop) (hoof : ∀ s, P s → P s.oof.1)
    (hbody : ∀ go : Call → St → St × Ret, (∀ c s, P s → P (go c s).1) → ∀ c s, P s → P (execBody go c s).1) :
    ∀ fuel c s, P s → P (exec fuel c s).1 :=
  exec_spec (fun _ s out => P s → P out.1) (fun _ s => hoof s) hbody

open Lean Elab Tactic Meta in
/-- for every hypothesis `h : e = (a, b)` with `a` (resp. `b`) a local variable, substitute `a := e.1`
    (resp. `b := e.2`) everywhere -/
elab "pair_subst" : tactic => do
  let rec loop : Nat → TacticM Unit
    | 0 => return
    | n + 1 => do
      let progressed ← withMainContext do
        let lctx ← getLCtx
        for d in lctx do
          if d.isImplementationDetail then continue
          let ty ← instantiateMVars d.type
          let some (_, lhs, rhs) := ty.eq? | continue
          unless rhs.isAppOfArity ``Prod.mk 4 do continue
          let a := rhs.getArg! 2
          let b := rhs.getArg! 3
          let h := d.toExpr
          for (x, isFst) in [(a, true), (b, false)] do
            if x.isFVar && !(lhs.containsFVar x.fvarId!) then
              -- x = lhs.1   (definitionally `(a, b).1 = lhs.1`)
              let proj ← if isFst then mkAppM ``Prod.fst #[lhs] else mkAppM ``Prod.snd #[lhs]
              let eqTy ← mkEq x proj
              let fn ← mkAppOptM (if isFst then ``Prod.fst else ``Prod.snd) #[rhs.getArg! 0, rhs.getArg! 1]
              let prf ← mkAppM ``congrArg #[fn, h]
              let prf ← mkEqSymm prf
              let g ← getMainGoal
              let g ← g.assert `hps eqTy prf
              let (fv, g) ← g.intro1
              let g ← subst g fv
              replaceMainGoal [g]
              return true
        return false
      if progressed then loop n
  loop 64

end Cares.Chan
