import Lean.Elab.Tactic
import CaresLemmas.ChanSockPrim
/-!
# Proof infrastructure for the channel model (`Chan.Core`)

* `exec_spec`: the induction principle of the open-recursion executor: a call-indexed specification that every
  body re-establishes from the same specification of its recursive calls holds of `exec` at every fuel.
* `pair_subst`: replaces the components of `h : e = (a, b)` (as left behind by `split` on `let (a, b) := e`) by
  `e.1`, `e.2`.
-/
namespace Cares.Chan

theorem exec_spec (Spec : Call → St → St × Ret → Prop)
    (hoof : ∀ c s, Spec c s s.oof)
    (hbody : ∀ go : Call → St → St × Ret, (∀ c s, Spec c s (go c s)) → ∀ c s, Spec c s (execBody go c s)) :
    ∀ fuel c s, Spec c s (exec fuel c s)
  | 0, c, s => hoof c s
  | fuel + 1, c, s => hbody (exec fuel) (exec_spec Spec hoof hbody fuel) c s

/-- state-predicate form -/
theorem exec_inv (P : St → Prop) (hoof : ∀ s, P s → P s.oof.1)
    (hbody : ∀ go : Call → St → St × Ret, (∀ c s, P s → P (go c s).1) → ∀ c s, P s → P (execBody go c s).1) :
    ∀ fuel c s, P s → P (exec fuel c s).1 :=
  exec_spec (fun _ s out => P s → P out.1) (fun _ s => hoof s) hbody

open Lean Elab Tactic Meta in
/-- for every hypothesis `h : e = (a, b)` with `a` (resp. `b`) a local variable, substitute `a := e.1`
    (resp. `b := e.2`) everywhere -/
elab "pair_subst" : tactic => do
  let rec loop : Nat → TacticM Unit
    | 0 => return
    | n + 1 => do
      let progressed ← withMainContext do
        let lctx ← getLCtx
        for d in lctx do
          if d.isImplementationDetail then continue
          let ty ← instantiateMVars d.type
          let some (_, lhs, rhs) := ty.eq? | continue
          unless rhs.isAppOfArity ``Prod.mk 4 do continue
          let a := rhs.getArg! 2
          let b := rhs.getArg! 3
          let h := d.toExpr
          for (x, isFst) in [(a, true), (b, false)] do
            if x.isFVar && !(lhs.containsFVar x.fvarId!) then
              -- x = lhs.1   (definitionally `(a, b).1 = lhs.1`)
              let proj ← if isFst then mkAppM ``Prod.fst #[lhs] else mkAppM ``Prod.snd #[lhs]
              let eqTy ← mkEq x proj
              let fn ← mkAppOptM (if isFst then ``Prod.fst else ``Prod.snd) #[rhs.getArg! 0, rhs.getArg! 1]
              let prf ← mkAppM ``congrArg #[fn, h]
              let prf ← mkEqSymm prf
              let g ← getMainGoal
              let g ← g.assert `hps eqTy prf
              let (fv, g) ← g.intro1
              let g ← subst g fv
              replaceMainGoal [g]
              return true
        return false
      if progressed then loop n
  loop 64

open Lean Elab Tactic Meta in
/-- case split on the condition of the first (outermost, leftmost) `if … then … else` of the goal and rewrite
    that `if` with `if_pos` / `if_neg` (cheap on very large goals, where `split`'s internal `simp` gives up) -/
elab "ite_split" : tactic => withMainContext do
  let g ← getMainGoal
  let tgt ← instantiateMVars (← g.getType)
  let some e := tgt.find? (fun e => e.isAppOfArity ``ite 5 && !(e.getArg! 1).hasLooseBVars)
    | throwError "ite_split: no if-then-else in the goal"
  let c := e.getArg! 1
  let inst := e.getArg! 2
  let (pos, neg) ← g.byCases c `hc
  let rw (s : ByCasesSubgoal) (lem : Name) : TacticM MVarId := s.mvarId.withContext do
    let prf ← mkAppOptM lem #[c, inst, mkFVar s.fvarId, e.getArg! 0, e.getArg! 3, e.getArg! 4]
    let tgt ← instantiateMVars (← s.mvarId.getType)
    let r ← s.mvarId.rewrite tgt prf
    let g' ← s.mvarId.replaceTargetEq r.eNew r.eqProof
    return g'
  let g1 ← rw pos ``if_pos
  let g2 ← rw neg ``if_neg
  replaceMainGoal [g1, g2]

/-- `split`, falling back to `ite_split` -/
macro "csplit" : tactic => `(tactic| first | split | ite_split)

/-- server choice of `ares_send_query` -/
def pickServer (reqSrv : Option Nat) (s : St) : Option Server × St :=
  match reqSrv with
  | some id => (s.server? id, s)
  | none =>
    if s.cfg.rotate then
      let nbest := countBest s.sortedServers
      if nbest == 0 then (none, s) else
      let (c, s') := s.draw1
      (s.sortedServers[c % nbest]?, s')
    else (s.sortedServers.head?, s)

/-- `ares_fetch_connection` -/
def fetchConn (s : St) (q : Query) (srv : Server) : Option Nat :=
  if q.usingTcp then srv.tcpConn
  else match srv.conns.head? with
    | none => none
    | some fd =>
      match s.conn? fd with
      | none => none
      | some c =>
        if c.tcp then none
        else if s.cfg.udpMax > 0 && c.total ≥ s.cfg.udpMax then none
        else some fd

/-- `ares_open_connection` -/
def openConn (s : St) (tcp : Bool) (srv : Server) : (Except Status Nat) × St :=
  let (f, s) := s.fault "socket"
  match f with
  | some _ => (.error .connrefused, s.emit s!"sock!({if tcp then "tcp" else "udp"})")
  | none =>
    let fd := s.nextFd
    let wl := if tcp then s.pendingWl else []
    let s := { s with nextFd := fd + 1,
                      pendingWl := if tcp then [] else s.pendingWl,
                      socks := s.socks ++ [({ fd := fd, tcp := tcp, wl := wl } : VSock)] }
    let s := (s.emit s!"sock({fd},{if tcp then "tcp" else "udp"},4)").slog fd "open"
    let port := if tcp then srv.tcpPort else srv.udpPort
    let s := s.modSock fd fun v => { v with peer := srv.addr, port := port }
    let (f, s) := s.fault "connect"
    let s := s.slog fd "connect"
    let connFail := match f with
      | some e => !isWouldBlock e
      | none => false
    let s := match f with
      | some _ => s.emit s!"conn!({fd},{srv.addr}#{port})"
      | none => s.emit s!"conn({fd},{srv.addr}#{port})"
    if connFail then
      let s := ((s.modSock fd fun v => { v with isOpen := false }).emit s!"close({fd})").slog fd "close"
      (.error .connrefused, s)
    else
      let (f, s) := s.fault "getsockname"
      match f with
      | some _ =>
        let s := ((s.modSock fd fun v => { v with isOpen := false }).emit s!"close({fd})").slog fd "close"
        (.error .connrefused, s)
      | none =>
        let c : Conn := { fd := fd, srv := srv.id, tcp := tcp, selfIp := s.selfVariant }
        let s := { s with conns := s.conns ++ [c] }
        let s := s.modServer srv.id fun v =>
          { v with conns := if tcp then v.conns ++ [fd] else fd :: v.conns,
                   tcpConn := if tcp then some fd else v.tcpConn }
        let s := s.notify fd true tcp
        (.ok fd, s)

/-- `ares_conn_query_write` up to the append to out_buf: `ares_cookie_apply`, frame, write log (pure) -/
def sqPrepare (key : Nat) (q : Query) (srv : Server) (fd : Nat) (s : St) : St × Query :=
  let cTcp := ((s.conn? fd).map (·.tcp)).getD q.usingTcp
  let cSelf := ((s.conn? fd).map (·.selfIp)).getD 0
  let srvNow0 := (s.server? srv.id).getD srv
  let reqOpt : Cares.Proto.Cookie.ReqOpt := if q.edns then some q.reqCookie else none
  let ao := Cares.Proto.Cookie.apply srvNow0.cookie { selfIp := selfAddr cSelf, tcp := cTcp } s.tv s.peek8 reqOpt
  let s := if ao.draws > 0 then s.pop8 else s
  let s := s.modServer srv.id fun v => { v with cookie := ao.ck }
  let newCk : Option (List UInt8) := ao.req.join
  let cookie := match newCk with
    | some b => bytesToHex b
    | none => "-"
  let s := s.modQuery key fun q => { q with reqCookie := newCk, cookie := cookie }
  let q := { q with reqCookie := newCk, cookie := cookie }
  let frame : OutFrame := { len := frameLen q.name q.edns cookie, key := key, qid := q.qid, name := q.name,
                            qtype := q.qtype, qclass := q.qclass, rd := q.rd, edns := q.edns, cookie := cookie }
  let s := s.modConn fd fun c => { c with out := c.out ++ [frame] }
  let s := { s with writeLog := s.writeLog ++ [key] }
  (s, q)

/-- the flush decision of `ares_conn_query_write` -/
def sqFlush (go : Call → St → St × Ret) (fd : Nat) (s : St) : Status × St :=
  let c := (s.conn? fd).getD default
  if c.tcp && !c.connected then (.ok, s)
  else if s.cfg.pendingWrite && !s.notifyPending && c.tcp then
    (.ok, ({ s with notifyPending := true }).emit "pendingwrite")
  else
    let (s, r) := go (.flush fd) s
    (r, s)

/-- `ares_send_query` after a successful write: timeout computation (`ares_calc_query_timeout`), by-timeout index,
    unlinking from the previous connection's list, deadline (pure) -/
def sqLinkPre (key : Nat) (srv : Server) (fd : Nat) (q : Query) (s : St) : St :=
  let srvNow := (s.server? srv.id).getD srv
  let timeout := s.serverTimeout srvNow
  let nsrv := s.servers.length
  let rounds := q.tryCount / nsrv
  let timeplus := if rounds > 0 then timeout * 2 ^ rounds else timeout
  let timeplus := if s.cfg.maxtimeout != 0 && timeplus > s.cfg.maxtimeout then s.cfg.maxtimeout else timeplus
  let (dl, s) : Deadline × St :=
    if rounds > 0 then
      let (_, s) := s.draw2
      let lo := max timeout (timeplus - timeplus / 2)
      let hi := max timeout timeplus
      (.pending (s.now + lo) (s.now + hi), s)
    else (.at (s.now + max timeplus timeout), s)
  let s := { s with byTimeout := s.byTimeout.erase key }
  let s := match q.conn with
    | some old => s.modConn old fun c => { c with queries := c.queries.erase key }
    | none => s
  let s := s.modQuery key fun q => { q with ts := s.now, deadline := dl, conn := some fd, inConnList := true }
  { s with pendingOrder := s.pendingOrder.erase key ++ [key] }

/-- … then the query is linked to (and counted on) its connection, and a downed server may be probed -/
def sqLink (go : Call → St → St × Ret) (probeDowned : Bool) (key : Nat) (srv : Server) (fd : Nat) (s : St) : St × Ret :=
  match s.query? key, s.conn? fd with
  | some q, some _ =>
    let s := sqLinkPre key srv fd q s
    let s := s.modConn fd fun c => { c with queries := c.queries.erase key ++ [key], total := c.total + 1 }
    if probeDowned then
      let (s, _) := go (.probe srv.id key) s
      (s, .ok)
    else (s, .ok)
  | none, _ => (s.mfault s!"uaf-query({key}) after write in ares_send_query", .other)
  | _, none => (s.mfault s!"uaf-conn({fd}) after write in ares_send_query", .other)

/-- the part of `ares_send_query` after a connection has been found: `ares_conn_query_write`, timeout, linking -/
def sqWriteQ (go : Call → St → St × Ret) (reqSrv : Option Nat) (key : Nat) (q : Query) (srv : Server) (fd : Nat) (s : St) : St × Ret :=
  let probeDowned := reqSrv.isNone && srv.failures == 0 && q.tryCount == 0
  let (s, q) := sqPrepare key q srv fd s
  let (wst, s) : Status × St := sqFlush go fd s
  match wst with
  | .ok => sqLink go probeDowned key srv fd s
  | .nomem => go (.endQuery (some srv.id) key .nomem none) s
  | .connrefused | .badfamily =>
    let (s, _) := go (.connError fd true wst) s
    match (s.byQid.find? (fun (id, k) => id == q.qid && k == key)).bind (fun _ => s.query? key) with
    | none => (s, .cancelled)
    | some _ =>
      let (s, r) := go (.requeue key wst true none false) s
      (s, if r == .timeout then .connrefused else r)
  | wst' =>
    let s := s.incFailures srv.id q.usingTcp
    go (.requeue key wst' true none false) s

/-- `ares_send_query` decomposed into its stages (definitional) -/
theorem bodySendQuery_stages (go : Call → St → St × Ret) (reqSrv : Option Nat) (key : Nat) (s : St) :
    bodySendQuery go reqSrv key s =
      match s.query? key with
      | none => (s.mfault s!"uaf-query({key}) in ares_send_query", .other)
      | some q =>
        let sorted := s.sortedServers
        let (srv?, s) : Option Server × St := pickServer reqSrv s
        match srv? with
        | none => go (.endQuery none key .noserver none) s
        | some srv =>
          let s := { s with picks := s.picks ++ [(key, srv.id, reqSrv.isSome, sorted.map fun v => (v.id, v.failures))] }
          let (connRes, s) : (Except Status Nat) × St :=
            match fetchConn s q srv with
            | some fd => (.ok fd, s)
            | none => openConn s q.usingTcp srv
          match connRes with
          | .error st => go (.requeue key st true none false) (s.incFailures srv.id q.usingTcp)
          | .ok fd => sqWriteQ go reqSrv key q srv fd s := by
  rfl

/-- peel a goal `P (…).1` about the result of a body: strip primitive updates with the frame lemmas (plus the
    given simp lemmas), recursive calls with the hypothesis `h` on `go`, and split the control flow -/
syntax "chan_peel " ident (" [" Lean.Parser.Tactic.simpLemma,* "]")? (" using " term)? : tactic
macro_rules
  | `(tactic| chan_peel $h [$ts,*] using $a) =>
    `(tactic| repeat (first
        | with_reducible assumption
        | with_reducible (apply $h)
        | with_reducible (apply $a)
        | (simp only [chan_frame, $ts,*])
        | (csplit <;> pair_subst)))
  | `(tactic| chan_peel $h [$ts,*]) =>
    `(tactic| repeat (first
        | with_reducible assumption
        | with_reducible (apply $h)
        | (simp only [chan_frame, $ts,*])
        | (csplit <;> pair_subst)))
  | `(tactic| chan_peel $h) =>
    `(tactic| repeat (first
        | with_reducible assumption
        | with_reducible (apply $h)
        | (simp only [chan_frame])
        | (csplit <;> pair_subst)))

/-- equational variant of `chan_peel`: rewrite with the frame lemmas (plus the given ones) until `rfl` -/
syntax "chan_simp" (" [" Lean.Parser.Tactic.simpLemma,* "]")? : tactic
macro_rules
  | `(tactic| chan_simp [$ts,*]) =>
    `(tactic| repeat (first
        | with_reducible rfl
        | (simp only [chan_frame, $ts,*])
        | (csplit <;> pair_subst)))
  | `(tactic| chan_simp) =>
    `(tactic| repeat (first
        | with_reducible rfl
        | (simp only [chan_frame])
        | (csplit <;> pair_subst)))

/-! frame lemmas of the stages of `ares_send_query` -/
section
variable (s : St)
@[simp, chan_frame] theorem pickServer_cfg (r : Option Nat) : (pickServer r s).2.cfg = s.cfg := by
  unfold pickServer; chan_simp
@[simp, chan_frame] theorem pickServer_now (r : Option Nat) : (pickServer r s).2.now = s.now := by
  unfold pickServer; chan_simp
@[simp, chan_frame] theorem pickServer_servers (r : Option Nat) : (pickServer r s).2.servers = s.servers := by
  unfold pickServer; chan_simp
@[simp, chan_frame] theorem pickServer_conns (r : Option Nat) : (pickServer r s).2.conns = s.conns := by
  unfold pickServer; chan_simp
@[simp, chan_frame] theorem pickServer_qs (r : Option Nat) : (pickServer r s).2.qs = s.qs := by
  unfold pickServer; chan_simp
@[simp, chan_frame] theorem pickServer_nextKey (r : Option Nat) : (pickServer r s).2.nextKey = s.nextKey := by
  unfold pickServer; chan_simp
@[simp, chan_frame] theorem pickServer_all (r : Option Nat) : (pickServer r s).2.all = s.all := by
  unfold pickServer; chan_simp
@[simp, chan_frame] theorem pickServer_byQid (r : Option Nat) : (pickServer r s).2.byQid = s.byQid := by
  unfold pickServer; chan_simp
@[simp, chan_frame] theorem pickServer_byTimeout (r : Option Nat) : (pickServer r s).2.byTimeout = s.byTimeout := by
  unfold pickServer; chan_simp
@[simp, chan_frame] theorem pickServer_listCopy (r : Option Nat) : (pickServer r s).2.listCopy = s.listCopy := by
  unfold pickServer; chan_simp
@[simp, chan_frame] theorem pickServer_socks (r : Option Nat) : (pickServer r s).2.socks = s.socks := by
  unfold pickServer; chan_simp
@[simp, chan_frame] theorem pickServer_nextFd (r : Option Nat) : (pickServer r s).2.nextFd = s.nextFd := by
  unfold pickServer; chan_simp
@[simp, chan_frame] theorem pickServer_txs (r : Option Nat) : (pickServer r s).2.txs = s.txs := by
  unfold pickServer; chan_simp
@[simp, chan_frame] theorem pickServer_cache (r : Option Nat) : (pickServer r s).2.cache = s.cache := by
  unfold pickServer; chan_simp
@[simp, chan_frame] theorem pickServer_requeueArr (r : Option Nat) : (pickServer r s).2.requeueArr = s.requeueArr := by
  unfold pickServer; chan_simp
@[simp, chan_frame] theorem pickServer_writeLog (r : Option Nat) : (pickServer r s).2.writeLog = s.writeLog := by
  unfold pickServer; chan_simp
@[simp, chan_frame] theorem pickServer_notifyLog (r : Option Nat) : (pickServer r s).2.notifyLog = s.notifyLog := by
  unfold pickServer; chan_simp
@[simp, chan_frame] theorem pickServer_sockLog (r : Option Nat) : (pickServer r s).2.sockLog = s.sockLog := by
  unfold pickServer; chan_simp
@[simp, chan_frame] theorem pickServer_accepted (r : Option Nat) : (pickServer r s).2.accepted = s.accepted := by
  unfold pickServer; chan_simp
@[simp, chan_frame] theorem pickServer_picks (r : Option Nat) : (pickServer r s).2.picks = s.picks := by
  unfold pickServer; chan_simp
@[simp, chan_frame] theorem pickServer_destroying (r : Option Nat) : (pickServer r s).2.destroying = s.destroying := by
  unfold pickServer; chan_simp
@[simp, chan_frame] theorem pickServer_destroyed (r : Option Nat) : (pickServer r s).2.destroyed = s.destroyed := by
  unfold pickServer; chan_simp
@[simp, chan_frame] theorem pickServer_outOfFuel (r : Option Nat) : (pickServer r s).2.outOfFuel = s.outOfFuel := by
  unfold pickServer; chan_simp
@[simp, chan_frame] theorem pickServer_modelFaults (r : Option Nat) : (pickServer r s).2.modelFaults = s.modelFaults := by
  unfold pickServer; chan_simp
@[simp, chan_frame] theorem pickServer_clients (r : Option Nat) : (pickServer r s).2.clients = s.clients := by
  unfold pickServer; chan_simp
@[simp, chan_frame] theorem pickServer_pendingWl (r : Option Nat) : (pickServer r s).2.pendingWl = s.pendingWl := by
  unfold pickServer; chan_simp
@[simp, chan_frame] theorem pickServer_selfVariant (r : Option Nat) : (pickServer r s).2.selfVariant = s.selfVariant := by
  unfold pickServer; chan_simp
@[simp, chan_frame] theorem pickServer_faults (r : Option Nat) : (pickServer r s).2.faults = s.faults := by
  unfold pickServer; chan_simp
@[simp, chan_frame] theorem pickServer_reactions (r : Option Nat) : (pickServer r s).2.reactions = s.reactions := by
  unfold pickServer; chan_simp
@[simp, chan_frame] theorem pickServer_notifyPending (r : Option Nat) : (pickServer r s).2.notifyPending = s.notifyPending := by
  unfold pickServer; chan_simp
@[simp, chan_frame] theorem pickServer_alive (r : Option Nat) : (pickServer r s).2.alive = s.alive := by
  unfold pickServer; chan_simp
@[simp, chan_frame] theorem pickServer_nextClient (r : Option Nat) : (pickServer r s).2.nextClient = s.nextClient := by
  unfold pickServer; chan_simp
@[simp, chan_frame] theorem openConn_cfg (tcp : Bool) (srv : Server) : (openConn s tcp srv).2.cfg = s.cfg := by
  unfold openConn; chan_simp
@[simp, chan_frame] theorem openConn_now (tcp : Bool) (srv : Server) : (openConn s tcp srv).2.now = s.now := by
  unfold openConn; chan_simp
@[simp, chan_frame] theorem openConn_qs (tcp : Bool) (srv : Server) : (openConn s tcp srv).2.qs = s.qs := by
  unfold openConn; chan_simp
@[simp, chan_frame] theorem openConn_nextKey (tcp : Bool) (srv : Server) : (openConn s tcp srv).2.nextKey = s.nextKey := by
  unfold openConn; chan_simp
@[simp, chan_frame] theorem openConn_all (tcp : Bool) (srv : Server) : (openConn s tcp srv).2.all = s.all := by
  unfold openConn; chan_simp
@[simp, chan_frame] theorem openConn_byQid (tcp : Bool) (srv : Server) : (openConn s tcp srv).2.byQid = s.byQid := by
  unfold openConn; chan_simp
@[simp, chan_frame] theorem openConn_byTimeout (tcp : Bool) (srv : Server) : (openConn s tcp srv).2.byTimeout = s.byTimeout := by
  unfold openConn; chan_simp
@[simp, chan_frame] theorem openConn_listCopy (tcp : Bool) (srv : Server) : (openConn s tcp srv).2.listCopy = s.listCopy := by
  unfold openConn; chan_simp
@[simp, chan_frame] theorem openConn_txs (tcp : Bool) (srv : Server) : (openConn s tcp srv).2.txs = s.txs := by
  unfold openConn; chan_simp
@[simp, chan_frame] theorem openConn_cache (tcp : Bool) (srv : Server) : (openConn s tcp srv).2.cache = s.cache := by
  unfold openConn; chan_simp
@[simp, chan_frame] theorem openConn_requeueArr (tcp : Bool) (srv : Server) : (openConn s tcp srv).2.requeueArr = s.requeueArr := by
  unfold openConn; chan_simp
@[simp, chan_frame] theorem openConn_writeLog (tcp : Bool) (srv : Server) : (openConn s tcp srv).2.writeLog = s.writeLog := by
  unfold openConn; chan_simp
@[simp, chan_frame] theorem openConn_accepted (tcp : Bool) (srv : Server) : (openConn s tcp srv).2.accepted = s.accepted := by
  unfold openConn; chan_simp
@[simp, chan_frame] theorem openConn_picks (tcp : Bool) (srv : Server) : (openConn s tcp srv).2.picks = s.picks := by
  unfold openConn; chan_simp
@[simp, chan_frame] theorem openConn_destroying (tcp : Bool) (srv : Server) : (openConn s tcp srv).2.destroying = s.destroying := by
  unfold openConn; chan_simp
@[simp, chan_frame] theorem openConn_destroyed (tcp : Bool) (srv : Server) : (openConn s tcp srv).2.destroyed = s.destroyed := by
  unfold openConn; chan_simp
@[simp, chan_frame] theorem openConn_outOfFuel (tcp : Bool) (srv : Server) : (openConn s tcp srv).2.outOfFuel = s.outOfFuel := by
  unfold openConn; chan_simp
@[simp, chan_frame] theorem openConn_modelFaults (tcp : Bool) (srv : Server) : (openConn s tcp srv).2.modelFaults = s.modelFaults := by
  unfold openConn; chan_simp
@[simp, chan_frame] theorem openConn_clients (tcp : Bool) (srv : Server) : (openConn s tcp srv).2.clients = s.clients := by
  unfold openConn; chan_simp
@[simp, chan_frame] theorem openConn_selfVariant (tcp : Bool) (srv : Server) : (openConn s tcp srv).2.selfVariant = s.selfVariant := by
  unfold openConn; chan_simp
@[simp, chan_frame] theorem openConn_reactions (tcp : Bool) (srv : Server) : (openConn s tcp srv).2.reactions = s.reactions := by
  unfold openConn; chan_simp
@[simp, chan_frame] theorem openConn_notifyPending (tcp : Bool) (srv : Server) : (openConn s tcp srv).2.notifyPending = s.notifyPending := by
  unfold openConn; chan_simp
@[simp, chan_frame] theorem openConn_alive (tcp : Bool) (srv : Server) : (openConn s tcp srv).2.alive = s.alive := by
  unfold openConn; chan_simp
@[simp, chan_frame] theorem openConn_nextClient (tcp : Bool) (srv : Server) : (openConn s tcp srv).2.nextClient = s.nextClient := by
  unfold openConn; chan_simp
@[simp, chan_frame] theorem sqPrepare_cfg (key : Nat) (q : Query) (srv : Server) (fd : Nat) : (sqPrepare key q srv fd s).1.cfg = s.cfg := by
  unfold sqPrepare; chan_simp
@[simp, chan_frame] theorem sqPrepare_now (key : Nat) (q : Query) (srv : Server) (fd : Nat) : (sqPrepare key q srv fd s).1.now = s.now := by
  unfold sqPrepare; chan_simp
@[simp, chan_frame] theorem sqPrepare_nextKey (key : Nat) (q : Query) (srv : Server) (fd : Nat) : (sqPrepare key q srv fd s).1.nextKey = s.nextKey := by
  unfold sqPrepare; chan_simp
@[simp, chan_frame] theorem sqPrepare_all (key : Nat) (q : Query) (srv : Server) (fd : Nat) : (sqPrepare key q srv fd s).1.all = s.all := by
  unfold sqPrepare; chan_simp
@[simp, chan_frame] theorem sqPrepare_byQid (key : Nat) (q : Query) (srv : Server) (fd : Nat) : (sqPrepare key q srv fd s).1.byQid = s.byQid := by
  unfold sqPrepare; chan_simp
@[simp, chan_frame] theorem sqPrepare_byTimeout (key : Nat) (q : Query) (srv : Server) (fd : Nat) : (sqPrepare key q srv fd s).1.byTimeout = s.byTimeout := by
  unfold sqPrepare; chan_simp
@[simp, chan_frame] theorem sqPrepare_listCopy (key : Nat) (q : Query) (srv : Server) (fd : Nat) : (sqPrepare key q srv fd s).1.listCopy = s.listCopy := by
  unfold sqPrepare; chan_simp
@[simp, chan_frame] theorem sqPrepare_socks (key : Nat) (q : Query) (srv : Server) (fd : Nat) : (sqPrepare key q srv fd s).1.socks = s.socks := by
  unfold sqPrepare; chan_simp
@[simp, chan_frame] theorem sqPrepare_nextFd (key : Nat) (q : Query) (srv : Server) (fd : Nat) : (sqPrepare key q srv fd s).1.nextFd = s.nextFd := by
  unfold sqPrepare; chan_simp
@[simp, chan_frame] theorem sqPrepare_txs (key : Nat) (q : Query) (srv : Server) (fd : Nat) : (sqPrepare key q srv fd s).1.txs = s.txs := by
  unfold sqPrepare; chan_simp
@[simp, chan_frame] theorem sqPrepare_cache (key : Nat) (q : Query) (srv : Server) (fd : Nat) : (sqPrepare key q srv fd s).1.cache = s.cache := by
  unfold sqPrepare; chan_simp
@[simp, chan_frame] theorem sqPrepare_requeueArr (key : Nat) (q : Query) (srv : Server) (fd : Nat) : (sqPrepare key q srv fd s).1.requeueArr = s.requeueArr := by
  unfold sqPrepare; chan_simp
@[simp, chan_frame] theorem sqPrepare_notifyLog (key : Nat) (q : Query) (srv : Server) (fd : Nat) : (sqPrepare key q srv fd s).1.notifyLog = s.notifyLog := by
  unfold sqPrepare; chan_simp
@[simp, chan_frame] theorem sqPrepare_sockLog (key : Nat) (q : Query) (srv : Server) (fd : Nat) : (sqPrepare key q srv fd s).1.sockLog = s.sockLog := by
  unfold sqPrepare; chan_simp
@[simp, chan_frame] theorem sqPrepare_accepted (key : Nat) (q : Query) (srv : Server) (fd : Nat) : (sqPrepare key q srv fd s).1.accepted = s.accepted := by
  unfold sqPrepare; chan_simp
@[simp, chan_frame] theorem sqPrepare_picks (key : Nat) (q : Query) (srv : Server) (fd : Nat) : (sqPrepare key q srv fd s).1.picks = s.picks := by
  unfold sqPrepare; chan_simp
@[simp, chan_frame] theorem sqPrepare_destroying (key : Nat) (q : Query) (srv : Server) (fd : Nat) : (sqPrepare key q srv fd s).1.destroying = s.destroying := by
  unfold sqPrepare; chan_simp
@[simp, chan_frame] theorem sqPrepare_destroyed (key : Nat) (q : Query) (srv : Server) (fd : Nat) : (sqPrepare key q srv fd s).1.destroyed = s.destroyed := by
  unfold sqPrepare; chan_simp
@[simp, chan_frame] theorem sqPrepare_outOfFuel (key : Nat) (q : Query) (srv : Server) (fd : Nat) : (sqPrepare key q srv fd s).1.outOfFuel = s.outOfFuel := by
  unfold sqPrepare; chan_simp
@[simp, chan_frame] theorem sqPrepare_modelFaults (key : Nat) (q : Query) (srv : Server) (fd : Nat) : (sqPrepare key q srv fd s).1.modelFaults = s.modelFaults := by
  unfold sqPrepare; chan_simp
@[simp, chan_frame] theorem sqPrepare_clients (key : Nat) (q : Query) (srv : Server) (fd : Nat) : (sqPrepare key q srv fd s).1.clients = s.clients := by
  unfold sqPrepare; chan_simp
@[simp, chan_frame] theorem sqPrepare_pendingWl (key : Nat) (q : Query) (srv : Server) (fd : Nat) : (sqPrepare key q srv fd s).1.pendingWl = s.pendingWl := by
  unfold sqPrepare; chan_simp
@[simp, chan_frame] theorem sqPrepare_selfVariant (key : Nat) (q : Query) (srv : Server) (fd : Nat) : (sqPrepare key q srv fd s).1.selfVariant = s.selfVariant := by
  unfold sqPrepare; chan_simp
@[simp, chan_frame] theorem sqPrepare_faults (key : Nat) (q : Query) (srv : Server) (fd : Nat) : (sqPrepare key q srv fd s).1.faults = s.faults := by
  unfold sqPrepare; chan_simp
@[simp, chan_frame] theorem sqPrepare_reactions (key : Nat) (q : Query) (srv : Server) (fd : Nat) : (sqPrepare key q srv fd s).1.reactions = s.reactions := by
  unfold sqPrepare; chan_simp
@[simp, chan_frame] theorem sqPrepare_notifyPending (key : Nat) (q : Query) (srv : Server) (fd : Nat) : (sqPrepare key q srv fd s).1.notifyPending = s.notifyPending := by
  unfold sqPrepare; chan_simp
@[simp, chan_frame] theorem sqPrepare_alive (key : Nat) (q : Query) (srv : Server) (fd : Nat) : (sqPrepare key q srv fd s).1.alive = s.alive := by
  unfold sqPrepare; chan_simp
@[simp, chan_frame] theorem sqPrepare_nextClient (key : Nat) (q : Query) (srv : Server) (fd : Nat) : (sqPrepare key q srv fd s).1.nextClient = s.nextClient := by
  unfold sqPrepare; chan_simp
@[simp, chan_frame] theorem sqLinkPre_cfg (key : Nat) (srv : Server) (fd : Nat) (q : Query) : (sqLinkPre key srv fd q s).cfg = s.cfg := by
  unfold sqLinkPre; chan_simp
@[simp, chan_frame] theorem sqLinkPre_now (key : Nat) (srv : Server) (fd : Nat) (q : Query) : (sqLinkPre key srv fd q s).now = s.now := by
  unfold sqLinkPre; chan_simp
@[simp, chan_frame] theorem sqLinkPre_servers (key : Nat) (srv : Server) (fd : Nat) (q : Query) : (sqLinkPre key srv fd q s).servers = s.servers := by
  unfold sqLinkPre; chan_simp
@[simp, chan_frame] theorem sqLinkPre_nextKey (key : Nat) (srv : Server) (fd : Nat) (q : Query) : (sqLinkPre key srv fd q s).nextKey = s.nextKey := by
  unfold sqLinkPre; chan_simp
@[simp, chan_frame] theorem sqLinkPre_all (key : Nat) (srv : Server) (fd : Nat) (q : Query) : (sqLinkPre key srv fd q s).all = s.all := by
  unfold sqLinkPre; chan_simp
@[simp, chan_frame] theorem sqLinkPre_byQid (key : Nat) (srv : Server) (fd : Nat) (q : Query) : (sqLinkPre key srv fd q s).byQid = s.byQid := by
  unfold sqLinkPre; chan_simp
@[simp, chan_frame] theorem sqLinkPre_listCopy (key : Nat) (srv : Server) (fd : Nat) (q : Query) : (sqLinkPre key srv fd q s).listCopy = s.listCopy := by
  unfold sqLinkPre; chan_simp
@[simp, chan_frame] theorem sqLinkPre_socks (key : Nat) (srv : Server) (fd : Nat) (q : Query) : (sqLinkPre key srv fd q s).socks = s.socks := by
  unfold sqLinkPre; chan_simp
@[simp, chan_frame] theorem sqLinkPre_nextFd (key : Nat) (srv : Server) (fd : Nat) (q : Query) : (sqLinkPre key srv fd q s).nextFd = s.nextFd := by
  unfold sqLinkPre; chan_simp
@[simp, chan_frame] theorem sqLinkPre_txs (key : Nat) (srv : Server) (fd : Nat) (q : Query) : (sqLinkPre key srv fd q s).txs = s.txs := by
  unfold sqLinkPre; chan_simp
@[simp, chan_frame] theorem sqLinkPre_cache (key : Nat) (srv : Server) (fd : Nat) (q : Query) : (sqLinkPre key srv fd q s).cache = s.cache := by
  unfold sqLinkPre; chan_simp
@[simp, chan_frame] theorem sqLinkPre_requeueArr (key : Nat) (srv : Server) (fd : Nat) (q : Query) : (sqLinkPre key srv fd q s).requeueArr = s.requeueArr := by
  unfold sqLinkPre; chan_simp
@[simp, chan_frame] theorem sqLinkPre_writeLog (key : Nat) (srv : Server) (fd : Nat) (q : Query) : (sqLinkPre key srv fd q s).writeLog = s.writeLog := by
  unfold sqLinkPre; chan_simp
@[simp, chan_frame] theorem sqLinkPre_notifyLog (key : Nat) (srv : Server) (fd : Nat) (q : Query) : (sqLinkPre key srv fd q s).notifyLog = s.notifyLog := by
  unfold sqLinkPre; chan_simp
@[simp, chan_frame] theorem sqLinkPre_sockLog (key : Nat) (srv : Server) (fd : Nat) (q : Query) : (sqLinkPre key srv fd q s).sockLog = s.sockLog := by
  unfold sqLinkPre; chan_simp
@[simp, chan_frame] theorem sqLinkPre_accepted (key : Nat) (srv : Server) (fd : Nat) (q : Query) : (sqLinkPre key srv fd q s).accepted = s.accepted := by
  unfold sqLinkPre; chan_simp
@[simp, chan_frame] theorem sqLinkPre_picks (key : Nat) (srv : Server) (fd : Nat) (q : Query) : (sqLinkPre key srv fd q s).picks = s.picks := by
  unfold sqLinkPre; chan_simp
@[simp, chan_frame] theorem sqLinkPre_destroying (key : Nat) (srv : Server) (fd : Nat) (q : Query) : (sqLinkPre key srv fd q s).destroying = s.destroying := by
  unfold sqLinkPre; chan_simp
@[simp, chan_frame] theorem sqLinkPre_destroyed (key : Nat) (srv : Server) (fd : Nat) (q : Query) : (sqLinkPre key srv fd q s).destroyed = s.destroyed := by
  unfold sqLinkPre; chan_simp
@[simp, chan_frame] theorem sqLinkPre_outOfFuel (key : Nat) (srv : Server) (fd : Nat) (q : Query) : (sqLinkPre key srv fd q s).outOfFuel = s.outOfFuel := by
  unfold sqLinkPre; chan_simp
@[simp, chan_frame] theorem sqLinkPre_modelFaults (key : Nat) (srv : Server) (fd : Nat) (q : Query) : (sqLinkPre key srv fd q s).modelFaults = s.modelFaults := by
  unfold sqLinkPre; chan_simp
@[simp, chan_frame] theorem sqLinkPre_clients (key : Nat) (srv : Server) (fd : Nat) (q : Query) : (sqLinkPre key srv fd q s).clients = s.clients := by
  unfold sqLinkPre; chan_simp
@[simp, chan_frame] theorem sqLinkPre_pendingWl (key : Nat) (srv : Server) (fd : Nat) (q : Query) : (sqLinkPre key srv fd q s).pendingWl = s.pendingWl := by
  unfold sqLinkPre; chan_simp
@[simp, chan_frame] theorem sqLinkPre_selfVariant (key : Nat) (srv : Server) (fd : Nat) (q : Query) : (sqLinkPre key srv fd q s).selfVariant = s.selfVariant := by
  unfold sqLinkPre; chan_simp
@[simp, chan_frame] theorem sqLinkPre_faults (key : Nat) (srv : Server) (fd : Nat) (q : Query) : (sqLinkPre key srv fd q s).faults = s.faults := by
  unfold sqLinkPre; chan_simp
@[simp, chan_frame] theorem sqLinkPre_reactions (key : Nat) (srv : Server) (fd : Nat) (q : Query) : (sqLinkPre key srv fd q s).reactions = s.reactions := by
  unfold sqLinkPre; chan_simp
@[simp, chan_frame] theorem sqLinkPre_notifyPending (key : Nat) (srv : Server) (fd : Nat) (q : Query) : (sqLinkPre key srv fd q s).notifyPending = s.notifyPending := by
  unfold sqLinkPre; chan_simp
@[simp, chan_frame] theorem sqLinkPre_alive (key : Nat) (srv : Server) (fd : Nat) (q : Query) : (sqLinkPre key srv fd q s).alive = s.alive := by
  unfold sqLinkPre; chan_simp
@[simp, chan_frame] theorem sqLinkPre_nextClient (key : Nat) (srv : Server) (fd : Nat) (q : Query) : (sqLinkPre key srv fd q s).nextClient = s.nextClient := by
  unfold sqLinkPre; chan_simp
@[simp, chan_frame] theorem sqLinkPre_doneToks (key : Nat) (srv : Server) (fd : Nat) (q : Query) : (sqLinkPre key srv fd q s).doneToks = s.doneToks := by
  unfold sqLinkPre; chan_simp
@[simp, chan_frame] theorem sqLinkPre_pendingToks (key : Nat) (srv : Server) (fd : Nat) (q : Query) : (sqLinkPre key srv fd q s).pendingToks = s.pendingToks := by
  unfold sqLinkPre; chan_simp
@[simp, chan_frame] theorem sqLinkPre_lastQid (key : Nat) (srv : Server) (fd : Nat) (q : Query) : (sqLinkPre key srv fd q s).lastQid = s.lastQid := by
  unfold sqLinkPre; chan_simp
@[simp, chan_frame] theorem sqLinkPre_reactSeq (key : Nat) (srv : Server) (fd : Nat) (q : Query) : (sqLinkPre key srv fd q s).reactSeq = s.reactSeq := by
  unfold sqLinkPre; chan_simp
end

end Cares.Chan
