import Lean.Elab.Tactic
import CaresLemmas.ChanSockPrim
/-!
# Proof infrastructure for the channel model (`Chan.Core`)

* `exec_spec`: the induction principle of the open-recursion executor: a call-indexed specification that every
  body re-establishes from the same specification of its recursive calls holds of `exec` at every fuel.
* `pair_subst`: replaces the components of `h : e = (a, b)` (as left behind by `split` on `let (a, b) := e`) by
  `e.1`, `e.2`.
-/
namespace Cares.Chan

theorem exec_spec (Spec : Call → St → St × Ret → Prop)
    (hoof : ∀ c s, Spec c s s.oof)
    (hbody : ∀ go : Call → St → St × Ret, (∀ c s, Spec c s (go c s)) → ∀ c s, Spec c s (execBody go c s)) :
    ∀ fuel c s, Spec c s (exec fuel c s)
  | 0, c, s => hoof c s
  | fuel + 1, c, s => hbody (exec fuel) (exec_spec Spec hoof hbody fuel) c s

/-- state-predicate form -/
theorem exec_inv (P : St → Prop) (hoof : ∀ s, P s → P s.oof.1)
    (hbody : ∀ go : Call → St → St × Ret, (∀ c s, P s → P (go c s).1) → ∀ c s, P s → P (execBody go c s).1) :
    ∀ fuel c s, P s → P (exec fuel c s).1 :=
  exec_spec (fun _ s out => P s → P out.1) (fun _ s => hoof s) hbody

open Lean Elab Tactic Meta in
/-- for every hypothesis `h : e = (a, b)` with `a` (resp. `b`) a local variable, substitute `a := e.1`
    (resp. `b := e.2`) everywhere -/
elab "pair_subst" : tactic => do
  let rec loop : Nat → TacticM Unit
    | 0 => return
    | n + 1 => do
      let progressed ← withMainContext do
        let lctx ← getLCtx
        for d in lctx do
          if d.isImplementationDetail then continue
          let ty ← instantiateMVars d.type
          let some (_, lhs, rhs) := ty.eq? | continue
          unless rhs.isAppOfArity ``Prod.mk 4 do continue
          let a := rhs.getArg! 2
          let b := rhs.getArg! 3
          let h := d.toExpr
          for (x, isFst) in [(a, true), (b, false)] do
            if x.isFVar && !(lhs.containsFVar x.fvarId!) then
              -- x = lhs.1   (definitionally `(a, b).1 = lhs.1`)
              let proj ← if isFst then mkAppM ``Prod.fst #[lhs] else mkAppM ``Prod.snd #[lhs]
              let eqTy ← mkEq x proj
              let fn ← mkAppOptM (if isFst then ``Prod.fst else ``Prod.snd) #[rhs.getArg! 0, rhs.getArg! 1]
              let prf ← mkAppM ``congrArg #[fn, h]
              let prf ← mkEqSymm prf
              let g ← getMainGoal
              let g ← g.assert `hps eqTy prf
              let (fv, g) ← g.intro1
              let g ← subst g fv
              replaceMainGoal [g]
              return true
        return false
      if progressed then loop n
  loop 64

/-- server choice of `ares_send_query` -/
def pickServer (reqSrv : Option Nat) (s : St) : Option Server × St :=
  match reqSrv with
  | some id => (s.server? id, s)
  | none =>
    if s.cfg.rotate then
      let nbest := countBest s.sortedServers
      if nbest == 0 then (none, s) else
      let (c, s') := s.draw1
      (s.sortedServers[c % nbest]?, s')
    else (s.sortedServers.head?, s)

/-- `ares_fetch_connection` -/
def fetchConn (s : St) (q : Query) (srv : Server) : Option Nat :=
  if q.usingTcp then srv.tcpConn
  else match srv.conns.head? with
    | none => none
    | some fd =>
      match s.conn? fd with
      | none => none
      | some c =>
        if c.tcp then none
        else if s.cfg.udpMax > 0 && c.total ≥ s.cfg.udpMax then none
        else some fd

/-- `ares_open_connection` -/
def openConn (s : St) (tcp : Bool) (srv : Server) : (Except Status Nat) × St :=
  let (f, s) := s.fault "socket"
  match f with
  | some _ => (.error .connrefused, s.emit s!"sock!({if tcp then "tcp" else "udp"})")
  | none =>
    let fd := s.nextFd
    let wl := if tcp then s.pendingWl else []
    let s := { s with nextFd := fd + 1,
                      pendingWl := if tcp then [] else s.pendingWl,
                      socks := s.socks ++ [({ fd := fd, tcp := tcp, wl := wl } : VSock)] }
    let s := (s.emit s!"sock({fd},{if tcp then "tcp" else "udp"},4)").slog fd "open"
    let port := if tcp then srv.tcpPort else srv.udpPort
    let s := s.modSock fd fun v => { v with peer := srv.addr, port := port }
    let (f, s) := s.fault "connect"
    let s := s.slog fd "connect"
    let connFail := match f with
      | some e => !isWouldBlock e
      | none => false
    let s := match f with
      | some _ => s.emit s!"conn!({fd},{srv.addr}#{port})"
      | none => s.emit s!"conn({fd},{srv.addr}#{port})"
    if connFail then
      let s := ((s.modSock fd fun v => { v with isOpen := false }).emit s!"close({fd})").slog fd "close"
      (.error .connrefused, s)
    else
      let (f, s) := s.fault "getsockname"
      match f with
      | some _ =>
        let s := ((s.modSock fd fun v => { v with isOpen := false }).emit s!"close({fd})").slog fd "close"
        (.error .connrefused, s)
      | none =>
        let c : Conn := { fd := fd, srv := srv.id, tcp := tcp, selfIp := s.selfVariant }
        let s := { s with conns := s.conns ++ [c] }
        let s := s.modServer srv.id fun v =>
          { v with conns := if tcp then v.conns ++ [fd] else fd :: v.conns,
                   tcpConn := if tcp then some fd else v.tcpConn }
        let s := s.notify fd true tcp
        (.ok fd, s)

/-- the part of `ares_send_query` after a connection has been found: `ares_conn_query_write`, timeout, linking -/
def sqWrite (go : Call → St → St × Ret) (reqSrv : Option Nat) (key : Nat) (q : Query) (srv : Server) (fd : Nat) (s : St) : St × Ret :=
  let probeDowned := reqSrv.isNone && srv.failures == 0 && q.tryCount == 0
  let cTcp := ((s.conn? fd).map (·.tcp)).getD q.usingTcp
  let cSelf := ((s.conn? fd).map (·.selfIp)).getD 0
  let srvNow0 := (s.server? srv.id).getD srv
  let reqOpt : Cares.Proto.Cookie.ReqOpt := if q.edns then some q.reqCookie else none
  let ao := Cares.Proto.Cookie.apply srvNow0.cookie { selfIp := selfAddr cSelf, tcp := cTcp } s.tv s.peek8 reqOpt
  let s := if ao.draws > 0 then s.pop8 else s
  let s := s.modServer srv.id fun v => { v with cookie := ao.ck }
  let newCk : Option (List UInt8) := ao.req.join
  let cookie := match newCk with
    | some b => bytesToHex b
    | none => "-"
  let s := s.modQuery key fun q => { q with reqCookie := newCk, cookie := cookie }
  let q := { q with reqCookie := newCk, cookie := cookie }
  let frame : OutFrame := { len := frameLen q.name q.edns cookie, key := key, qid := q.qid, name := q.name,
                            qtype := q.qtype, qclass := q.qclass, rd := q.rd, edns := q.edns, cookie := cookie }
  let s := s.modConn fd fun c => { c with out := c.out ++ [frame] }
  let s := { s with writeLog := s.writeLog ++ [key] }
  let c := (s.conn? fd).getD default
  let (wst, s) : Status × St :=
    if c.tcp && !c.connected then (.ok, s)
    else if s.cfg.pendingWrite && !s.notifyPending && c.tcp then
      (.ok, ({ s with notifyPending := true }).emit "pendingwrite")
    else
      let (s, r) := go (.flush fd) s
      (r, s)
  match wst with
  | .ok =>
    match s.query? key, s.conn? fd with
    | some q, some _ =>
      -- ares_calc_query_timeout
      let srvNow := (s.server? srv.id).getD srv
      let timeout := s.serverTimeout srvNow
      let nsrv := s.servers.length
      let rounds := q.tryCount / nsrv
      let timeplus := if rounds > 0 then timeout * 2 ^ rounds else timeout
      let timeplus := if s.cfg.maxtimeout != 0 && timeplus > s.cfg.maxtimeout then s.cfg.maxtimeout else timeplus
      let (dl, s) : Deadline × St :=
        if rounds > 0 then
          let (_, s) := s.draw2
          let lo := max timeout (timeplus - timeplus / 2)
          let hi := max timeout timeplus
          (.pending (s.now + lo) (s.now + hi), s)
        else (.at (s.now + max timeplus timeout), s)
      let s := { s with byTimeout := s.byTimeout.erase key }
      let s := match q.conn with
        | some old => s.modConn old fun c => { c with queries := c.queries.erase key }
        | none => s
      let s := s.modQuery key fun q => { q with ts := s.now, deadline := dl, conn := some fd, inConnList := true }
      let s := { s with pendingOrder := s.pendingOrder.erase key ++ [key] }
      let s := s.modConn fd fun c => { c with queries := c.queries.erase key ++ [key], total := c.total + 1 }
      if probeDowned then
        let (s, _) := go (.probe srv.id key) s
        (s, .ok)
      else (s, .ok)
    | none, _ => (s.mfault s!"uaf-query({key}) after write in ares_send_query", .other)
    | _, none => (s.mfault s!"uaf-conn({fd}) after write in ares_send_query", .other)
  | .nomem => go (.endQuery (some srv.id) key .nomem none) s
  | .connrefused | .badfamily =>
    let (s, _) := go (.connError fd true wst) s
    match (s.byQid.find? (fun (id, k) => id == q.qid && k == key)).bind (fun _ => s.query? key) with
    | none => (s, .cancelled)
    | some _ =>
      let (s, r) := go (.requeue key wst true none false) s
      (s, if r == .timeout then .connrefused else r)
  | wst' =>
    let s := s.incFailures srv.id q.usingTcp
    go (.requeue key wst' true none false) s



/-- `ares_send_query` decomposed into its stages (definitional) -/
theorem bodySendQuery_eq (go : Call → St → St × Ret) (reqSrv : Option Nat) (key : Nat) (s : St) :
    bodySendQuery go reqSrv key s =
      match s.query? key with
      | none => (s.mfault s!"uaf-query({key}) in ares_send_query", .other)
      | some q =>
        let sorted := s.sortedServers
        let (srv?, s) : Option Server × St := pickServer reqSrv s
        match srv? with
        | none => go (.endQuery none key .noserver none) s
        | some srv =>
          let s := { s with picks := s.picks ++ [(key, srv.id, reqSrv.isSome, sorted.map fun v => (v.id, v.failures))] }
          let (connRes, s) : (Except Status Nat) × St :=
            match fetchConn s q srv with
            | some fd => (.ok fd, s)
            | none => openConn s q.usingTcp srv
          match connRes with
          | .error st => go (.requeue key st true none false) (s.incFailures srv.id q.usingTcp)
          | .ok fd => sqWrite go reqSrv key q srv fd s := by
  rfl

/-- peel a goal `P (…).1` about the result of a body: strip primitive updates with the frame lemmas (plus the
    given simp lemmas), recursive calls with the hypothesis `h` on `go`, and split the control flow -/
syntax "chan_peel " ident (" [" Lean.Parser.Tactic.simpLemma,* "]")? : tactic
macro_rules
  | `(tactic| chan_peel $h [$ts,*]) =>
    `(tactic| repeat (first
        | assumption
        | (apply $h)
        | (simp only [chan_frame, $ts,*])
        | (split <;> pair_subst)))
  | `(tactic| chan_peel $h) =>
    `(tactic| repeat (first
        | assumption
        | (apply $h)
        | (simp only [chan_frame])
        | (split <;> pair_subst)))

end Cares.Chan
