import CaresLemmas.ChanPolicyDeadline
import CaresLemmas.Float32
/-!
# C06 — the channel model's deadline against the arithmetic model of `ares_calc_query_timeout`

`sqDeadline` (channel model) computes `timeplus` on unbounded naturals and leaves the jitter to the observation inside
`[max T (tp − tp/2), max T tp]`; `Proto.Timeout.calcWith` (C06a) is the word-level function with the jitter as a
parameter, `calcQueryTimeout` the one of the tree under check (guarded shift, exact binary32 jitter).

* `sqDeadline_eq`: the channel's deadline in closed form (`chanTimeplus`);
* `preJitter_eq_chan`: the doubled and capped value is the same in both models as long as the channel's value fits
  `SIZE_MAX >> 1` (the saturating shift then never shows);
* `calcWith_jittered`: `calcWith true jit … = max T (tp − jit tp)` for a jitter `≤ tp`;
* `jitterExact_le_half`: for `tp < 2²³` ms the exact binary32 jitter takes away at most `⌊tp/2⌋` — for larger values the
  two roundings can exceed the half by one unit (`jitterOk` allows `tp/2 + tp/2²⁴ + tp/2⁴⁹`).
-/
namespace Cares.Chan
open Cares.Proto.Timeout Cares.Generated.Proto

/-- `timeplus` as the channel model computes it: doubled per completed round, capped by `maxtimeout` -/
def chanTimeplus (T maxtimeout rounds : Nat) : Nat :=
  let tp := if rounds > 0 then T * 2 ^ rounds else T
  if maxtimeout != 0 && tp > maxtimeout then maxtimeout else tp

/-- the two ends of the interval the channel model admits for a jittered wait -/
def chanLo (T tp : Nat) : Nat := max T (tp - tp / 2)
def chanHi (T tp : Nat) : Nat := max T tp

/-- the deadline computation of `ares_send_query` in closed form -/
theorem sqDeadline_eq (s : St) (srvNow : Server) (tryCount : Nat) :
    sqDeadline s srvNow tryCount =
      if tryCount / s.servers.length > 0 then
        (.pending (s.now + chanLo (s.serverTimeout srvNow)
                      (chanTimeplus (s.serverTimeout srvNow) s.cfg.maxtimeout (tryCount / s.servers.length)))
                  (s.now + chanHi (s.serverTimeout srvNow)
                      (chanTimeplus (s.serverTimeout srvNow) s.cfg.maxtimeout (tryCount / s.servers.length))),
         s.draw2.2)
      else
        (.at (s.now + max (chanTimeplus (s.serverTimeout srvNow) s.cfg.maxtimeout (tryCount / s.servers.length))
                          (s.serverTimeout srvNow)), s) := by
  unfold sqDeadline chanTimeplus chanLo chanHi
  dsimp only
  split
  · rw [draw2_now]
  · rfl

theorem size_t_bits_eq : SIZE_T_BITS = 64 := rfl

theorem max_timeplus_val : MAX_TIMEPLUS = 9223372036854775807 := by decide

/-- the guarded doubling saturates exactly when the exact product exceeds `SIZE_MAX >> 1` -/
theorem shiftStep_guarded_eq (T rounds : Nat) (hT : 0 < T) (hr : 0 < rounds) :
    (shiftStep true T rounds).1 = if T * 2 ^ rounds > MAX_TIMEPLUS then MAX_TIMEPLUS else T * 2 ^ rounds := by
  unfold shiftStep
  have hr0 : rounds ≠ 0 := by omega
  simp only [hr0, ↓reduceIte]
  have hpos : 0 < 2 ^ rounds := Nat.pow_pos (by decide)
  have hiff : (rounds ≥ SIZE_T_BITS ∨ T > MAX_TIMEPLUS >>> rounds) ↔ T * 2 ^ rounds > MAX_TIMEPLUS := by
    rw [Nat.shiftRight_eq_div_pow]
    constructor
    · rintro (h | h)
      · have h64 : 2 ^ 64 ≤ 2 ^ rounds := Nat.pow_le_pow_right (by decide) (by rw [size_t_bits_eq] at h; exact h)
        have : 2 ^ rounds ≤ T * 2 ^ rounds := Nat.le_mul_of_pos_left _ hT
        rw [max_timeplus_val]
        have e : (2 : Nat) ^ 64 = 18446744073709551616 := by decide
        omega
      · exact (Nat.div_lt_iff_lt_mul hpos).1 h
    · intro h
      right
      exact (Nat.div_lt_iff_lt_mul hpos).2 h
  by_cases hs : T * 2 ^ rounds > MAX_TIMEPLUS
  · rw [if_pos (hiff.2 hs), if_pos hs]
  · rw [if_neg (fun h => hs (hiff.1 h)), if_neg hs, Nat.shiftLeft_eq]

/-- **the value before the jitter agrees**: whenever the channel model's `timeplus` fits `SIZE_MAX >> 1`, the
    word-level computation (guarded shift, cap) yields the same number -/
theorem preJitter_eq_chan (T maxtimeout rounds : Nat) (hT : 0 < T)
    (hfit : chanTimeplus T maxtimeout rounds ≤ MAX_TIMEPLUS) :
    (preJitter true T maxtimeout rounds).1 = chanTimeplus T maxtimeout rounds := by
  unfold preJitter
  dsimp only
  by_cases hr : rounds = 0
  · subst hr
    unfold shiftStep chanTimeplus
    simp only [↓reduceIte, Nat.lt_irrefl, gt_iff_lt]
    by_cases hm : maxtimeout = 0
    · simp [hm]
    · by_cases hc : maxtimeout < T <;> simp [hm, hc]
  · have hr' : 0 < rounds := by omega
    rw [shiftStep_guarded_eq T rounds hT hr']
    unfold chanTimeplus at hfit ⊢
    simp only [hr', ↓reduceIte, gt_iff_lt] at hfit ⊢
    generalize T * 2 ^ rounds = X at hfit ⊢
    generalize MAX_TIMEPLUS = M at hfit ⊢
    by_cases hm : maxtimeout = 0
    · simp only [hm, bne_self_eq_false, Bool.false_and, Bool.false_eq_true, ↓reduceIte, ne_eq,
        not_true_eq_false, false_and] at hfit ⊢
      rw [if_neg (by omega)]
    · have hm' : (maxtimeout != 0) = true := by simpa using hm
      simp only [hm', Bool.true_and, decide_eq_true_eq, ne_eq, hm, not_false_eq_true, true_and] at hfit ⊢
      by_cases hc : maxtimeout < X
      · rw [if_pos hc] at hfit ⊢
        by_cases hs : M < X
        · rw [if_pos hs]
          by_cases hmm : maxtimeout < M
          · rw [if_pos hmm]
          · rw [if_neg hmm]; omega
        · rw [if_neg hs, if_pos hc]
      · rw [if_neg hc] at hfit ⊢
        rw [if_neg (show ¬ M < X by omega), if_neg hc]

/-- `ares_calc_query_timeout` from the second pass on, for any jitter function that takes away at most `timeplus` -/
theorem calcWith_jittered (jit : Nat → Nat) (T maxtimeout tryCount nservers : Nat) (hn : 0 < nservers) (hT : 0 < T)
    (hr : 0 < tryCount / nservers)
    (hfit : chanTimeplus T maxtimeout (tryCount / nservers) ≤ MAX_TIMEPLUS)
    (hj : jit (chanTimeplus T maxtimeout (tryCount / nservers)) ≤ chanTimeplus T maxtimeout (tryCount / nservers)) :
    (calcWith true jit T maxtimeout tryCount nservers).timeplus =
      max T (chanTimeplus T maxtimeout (tryCount / nservers) -
               jit (chanTimeplus T maxtimeout (tryCount / nservers))) := by
  have hne : nservers ≠ 0 := by omega
  simp only [calcWith, hne, ↓reduceIte, gt_iff_lt, hr]
  rw [preJitter_eq_chan T maxtimeout _ hT hfit]
  generalize chanTimeplus T maxtimeout (tryCount / nservers) = tp at hj ⊢
  generalize jit tp = d at hj ⊢
  rw [if_neg (show ¬ tp < d by omega)]
  rw [Nat.max_def]
  by_cases h : tp - d < T
  · rw [if_pos h, if_neg (by omega)]
  · rw [if_neg h, if_pos (by omega)]

/-- the first pass: no doubling, no jitter — both models wait exactly the base timeout -/
theorem calcWith_first_pass (g : Bool) (jit : Nat → Nat) (T maxtimeout tryCount nservers : Nat) (hn : 0 < nservers)
    (hr : tryCount / nservers = 0) (hb : maxtimeout ≠ 0 → T ≤ maxtimeout) :
    (calcWith g jit T maxtimeout tryCount nservers).timeplus = T ∧
    max (chanTimeplus T maxtimeout (tryCount / nservers)) T = T := by
  have hne : nservers ≠ 0 := by omega
  constructor
  · simp only [calcWith, hne, ↓reduceIte, hr, preJitter, shiftStep, Nat.lt_irrefl, gt_iff_lt]
    by_cases hm : maxtimeout = 0
    · simp [hm]
    · have := hb hm
      have h1 : ¬ (maxtimeout < T) := by omega
      simp [hm, h1]
  · unfold chanTimeplus
    rw [hr]
    simp only [Nat.lt_irrefl, ↓reduceIte, gt_iff_lt]
    by_cases hm : maxtimeout = 0
    · simp [hm]
    · have := hb hm
      have h1 : ¬ (maxtimeout < T) := by omega
      simp [h1]

/-- **the exact binary32 jitter takes away at most half** for `timeplus < 2²³` ms (about 2 h 20 min) -/
theorem jitterExact_le_half (tp r : Nat) (hr : r ≤ 65535) (htp : tp < 2 ^ 23) : jitterExact tp r ≤ tp / 2 := by
  have h := jitterExact_ok tp r hr
  have e1 : (2 : Nat) ^ 49 = 562949953421312 := by decide
  have e2 : ((2 : Nat) ^ 24 + 1) ^ 2 = 281475010265089 := by decide
  have e3 : (2 : Nat) ^ 23 = 8388608 := by decide
  rw [e1, e2] at h
  rw [e3] at htp
  omega

theorem jitterExact_zero (tp : Nat) : jitterExact tp 0 = 0 := by
  unfold jitterExact; simp

/-- membership in the channel's interval, in terms of the amount the jitter takes away -/
theorem chan_interval_iff (T tp v : Nat) :
    (chanLo T tp ≤ v ∧ v ≤ chanHi T tp) ↔ ∃ d, d ≤ tp / 2 ∧ v = max T (tp - d) := by
  unfold chanLo chanHi
  constructor
  · rintro ⟨h1, h2⟩
    by_cases hT : tp ≤ T
    · refine ⟨0, Nat.zero_le _, ?_⟩
      omega
    · refine ⟨tp - v, ?_, ?_⟩
      · omega
      · omega
  · rintro ⟨d, hd, rfl⟩
    omega

/-- `settle` takes an observed jittered deadline inside the interval as it is, and logs no observation fault -/
theorem settleStep_accepts (s : St) (k : Nat) (q : Query) (lo hi : Nat) (id : Nat) (rem : Int)
    (hq : s.query? k = some q) (hd : q.deadline = .pending lo hi)
    (ho : s.obs.dls.find? (·.1 == q.qid) = some (id, rem))
    (hlo : lo ≤ (Int.ofNat s.now + rem).toNat) (hhi : (Int.ofNat s.now + rem).toNat ≤ hi) :
    (settleStep s k).obsFaults = s.obsFaults ∧
    (settleStep s k).dl? k = some (.at (Int.ofNat s.now + rem).toNat) := by
  unfold settleStep
  rw [hq]
  dsimp only
  rw [hd]
  dsimp only
  rw [ho]
  dsimp only
  generalize (Int.ofNat s.now + rem).toNat = v at hlo hhi ⊢
  have hin : (decide (lo ≤ v) && decide (v ≤ hi)) = true := by simp [hlo, hhi]
  rw [if_pos hin]
  have hk : q.key = k := query?_key hq
  refine ⟨rfl, ?_⟩
  show (St.dl? _ k) = _
  unfold St.dl?
  show Option.map _ ((s.modQuery q.key fun q => { q with deadline := .at v }).query? k) = _
  rw [hk, query?_modQuery_self, hq]
  · rfl
  · intro _; rfl

end Cares.Chan
