import CaresLemmas.ClientCausalB1
/-!
# Causality — body lemmas II: `clientStart`, `runActs`
-/
namespace Cares.Chan

variable {cid : Nat}

/-- the precondition of the `runActs` call made by `clientStart` (as in `good_clientStart`) -/
theorem clientStart_pre {d kind tok react spec family} {s : St}
    (hpre : Pre d s (.clientStart kind tok react spec family)) :
    Pre d { s with clients := s.clients ++ [(clientStart s.cfg s.nextClient kind tok react spec family).1],
                   nextClient := s.nextClient + 1 }
      (.runActs s.nextClient (clientStart s.cfg s.nextClient kind tok react spec family).2) := by
  obtain ⟨hw, hof, hd⟩ := hpre
  have hk := clientStart_ok s.cfg s.nextClient kind tok react spec family
  generalize clientStart s.cfg s.nextClient kind tok react spec family = r at hk ⊢
  obtain ⟨c, acts⟩ := r
  obtain ⟨k1, k2, k3⟩ := hk
  simp only at k1 k2 k3 ⊢
  have hsk1 := sk_addClient_st s c
  generalize ({ s with clients := s.clients ++ [c], nextClient := s.nextClient + 1 } : St) = s1 at hsk1 ⊢
  have hid : c.sk.id = s.sk.nextClient := k1
  have htok : c.sk.tok = tok := k2
  have hw1 : Wf s1 := by
    unfold Wf; rw [hsk1]
    exact wf_addClient hw hid (by rw [htok]; exact hof.1) (by rw [htok]; exact hof.2.1) (by rw [htok]; exact hof.2.2)
  have hact : s1.sk.Active s.nextClient := by
    rw [hsk1]
    exact ⟨c.sk, List.mem_append.mpr (Or.inr (List.mem_singleton.mpr rfl)), hid, by rw [htok]; exact hof.1⟩
  have hfr : d s.nextClient = 0 := hd.fresh _ (Nat.le_refl _)
  refine ⟨hw1, ?_⟩
  split
  · rename_i hf
    rw [if_pos hf] at k3
    refine ⟨hact, k3, ?_, hfr, ?_⟩
    · rw [hsk1]; exact noSub_fresh hw (Nat.le_refl _)
    · rw [hsk1]
      refine debt_addClient hw hd hid (fun _ _ => rfl) (fun i hi => hd.fresh i (by show s.nextClient ≤ i; change s.nextClient + 1 ≤ i at hi; omega)) ?_
      intro hx; rw [hid] at hx; exact absurd rfl hx
  · rename_i hf
    rw [if_neg hf] at k3
    refine ⟨?_, fun _ => hact⟩
    rw [hsk1]
    refine debt_addClient hw hd hid (fun i hi => bump_ne _ _ (by rw [hid] at hi; exact hi)) ?_ ?_
    · intro i hi
      change s.nextClient + 1 ≤ i at hi
      rw [bump_ne _ _ (by omega)]
      exact hd.fresh i (by show s.nextClient ≤ i; omega)
    · intro _
      rw [hid]
      show c.outstanding = bump d s.nextClient (sends acts) s.nextClient
      rw [bump_self, hfr, k3]; omega

theorem cz_clientStart {goC : GoC} (h : GoCz cid goC) {d kind tok react spec family s L}
    (hpre : Pre d s (.clientStart kind tok react spec family))
    (hL : LG cid L (xtra cid (.clientStart kind tok react spec family)) s) :
    LGO cid L (bodyClientStartC goC kind tok react spec family s) := by
  have hpre1 := clientStart_pre hpre
  unfold bodyClientStartC
  simp only
  have hL1 : LG cid (L ++ [.start s.nextClient kind tok react spec family]) 0
      ({ s with clients := s.clients ++ [(clientStart s.cfg s.nextClient kind tok react spec family).1],
                nextClient := s.nextClient + 1 } : St) :=
    (LG.snoc_quiet hL (quiet_start ..)).congr rfl rfl
  rcases h.tail hpre1 hL1 with hoof | hg
  · exact Or.inl hoof
  · refine Or.inr ?_
    rw [List.append_assoc] at hg
    exact hg

theorem sentOfAct_send (spec : ReqSpec) : (sentOfAct (.send spec)).length = 1 := rfl
theorem sentOfAct_sendSlot (spec : ReqSpec) (slot : Nat) : (sentOfAct (.sendSlot spec slot)).length = 1 := rfl

/-- the `sendNolock` call of a `.send` / `.sendSlot` action: its precondition (as in `runActs_send`) -/
theorem runActs_send_pre {d id rest} {s : St} (spec : ReqSpec)
    (hw : Wf s) (hd : DebtOk none (bump d id (sends rest + 1)) s.sk) (ha : s.sk.Active id) :
    Pre (bump d id (sends rest)) s (.sendNolock none false false spec (.client id) []) :=
  ⟨hw, ha, by show DebtOk none (bump (bump d id (sends rest)) id 1) s.sk; rw [bump_bump]; exact hd⟩

theorem cz_runActs {goC : GoC} (h : GoCz cid goC) {d id acts s L}
    (hpre : Pre d s (.runActs id acts)) (hL : LG cid L (xtra cid (.runActs id acts)) s) :
    LGO cid L (bodyRunActsC goC id acts s) := by
  obtain ⟨hw, hpre⟩ := hpre
  have hL0 : LG cid L 0 s := hL
  unfold bodyRunActsC
  split
  · -- []
    exact Or.inr (hL0.snoc_quiet (quiet_ret id))
  · -- send
    rename_i spec rest
    by_cases hf : hasFinish rest = true
    · simp only [hasFinish, hf, ↓reduceIte, sends] at hpre
      omega
    · have hf' : hasFinish rest = false := by simpa using hf
      simp only [hasFinish, hf', Bool.false_eq_true, ↓reduceIte, sends] at hpre
      have ha := hpre.2 (by omega)
      have hLa : LG cid (L ++ [.act id (.send spec)]) (xtra cid (.sendNolock none false false spec (.client id) [])) s :=
        hL0.snoc_send_any (sentOfAct_send spec)
      rcases h.call (runActs_send_pre spec hw hpre.1 ha) hLa with hoof | ⟨_, hL1⟩
      · exact Or.inl (h.oof hoof)
      rcases runActs_send h.goOk (spec := spec) hw hf' hpre.1 ha (fun s' _ => s') (fun _ _ => rfl)
        with hoof | ⟨_, hp1, _⟩
      · exact Or.inl (h.oof hoof)
      rcases h.tail hp1 hL1 with hoof2 | hL2
      · exact Or.inl hoof2
      · refine Or.inr ?_
        simp only [List.append_assoc, List.cons_append, List.nil_append] at hL2 ⊢
        exact hL2
  · -- sendSlot
    rename_i spec slot rest
    by_cases hf : hasFinish rest = true
    · simp only [hasFinish, hf, ↓reduceIte, sends] at hpre
      omega
    · have hf' : hasFinish rest = false := by simpa using hf
      simp only [hasFinish, hf', Bool.false_eq_true, ↓reduceIte, sends] at hpre
      have ha := hpre.2 (by omega)
      have hLa : LG cid (L ++ [.act id (.sendSlot spec slot)])
          (xtra cid (.sendNolock none false false spec (.client id) [])) s :=
        hL0.snoc_send_any (sentOfAct_sendSlot spec slot)
      have hpost : ∀ (s' : St) (st : Ret), (if st == .ok && s'.byQid.any (·.1 == (genQid 70000 s).1) then s'.modClient id fun c =>
          if slot == 0 then { c with qidA := (genQid 70000 s).1 } else { c with qidAAAA := (genQid 70000 s).1 }
          else s').sk = s'.sk := by
        intro s' st
        split
        · apply sk_modClient
          intro c _
          exact sk_setQid c (slot == 0) (genQid 70000 s).1
        · rfl
      rcases h.call (runActs_send_pre spec hw hpre.1 ha) hLa with hoof | ⟨_, hL1⟩
      · refine Or.inl (h.oof ?_)
        split
        · simpa using hoof
        · exact hoof
      rcases runActs_send h.goOk (spec := spec) hw hf' hpre.1 ha
        (fun s' st => if st == .ok && s'.byQid.any (·.1 == (genQid 70000 s).1) then s'.modClient id fun c =>
          if slot == 0 then { c with qidA := (genQid 70000 s).1 } else { c with qidAAAA := (genQid 70000 s).1 } else s')
        hpost with hoof | ⟨_, hp1, _⟩
      · refine Or.inl (h.oof ?_)
        split
        · simpa using hoof
        · exact hoof
      -- the `.slot` item (if any) and the stored query id do not touch the counters
      have hL1' : LG cid ((L ++ [.act id (.sendSlot spec slot)] ++
            (goC (.sendNolock none false false spec (.client id) []) s).2) ++
            (if (goC (.sendNolock none false false spec (.client id) []) s).1.2 == .ok &&
                (goC (.sendNolock none false false spec (.client id) []) s).1.1.byQid.any (·.1 == (genQid 70000 s).1)
              then [CItem.slot id slot (genQid 70000 s).1] else [])) 0
          (if (goC (.sendNolock none false false spec (.client id) []) s).1.2 == .ok &&
              (goC (.sendNolock none false false spec (.client id) []) s).1.1.byQid.any (·.1 == (genQid 70000 s).1) then
            (goC (.sendNolock none false false spec (.client id) []) s).1.1.modClient id fun c =>
              if slot == 0 then { c with qidA := (genQid 70000 s).1 } else { c with qidAAAA := (genQid 70000 s).1 }
           else (goC (.sendNolock none false false spec (.client id) []) s).1.1) := by
        refine LG.sk_eq ?_ (hpost _ _)
        split
        · exact hL1.snoc_quiet (quiet_slot ..)
        · rw [List.append_nil]; exact hL1
      rcases h.tail hp1 hL1' with hoof2 | hL2
      · exact Or.inl hoof2
      · refine Or.inr ?_
        simp only [List.append_assoc, List.cons_append, List.nil_append] at hL2 ⊢
        exact hL2
  · -- noRetry
    rename_i qid rest
    simp only [hasFinish, sends] at hpre
    have key : ∀ s1 : St, s1.sk = s.sk →
        LGO cid L ((goC (.runActs id rest) s1).1, CItem.act id (.noRetry qid) :: (goC (.runActs id rest) s1).2) := by
      intro s1 h1
      have hLq : LG cid (L ++ [.act id (.noRetry qid)]) 0 s1 := (hL0.snoc_quiet (quiet_noRetry id qid)).sk_eq h1
      rcases h.tail (d := d) (c := .runActs id rest) (s := s1) ⟨Wf.of_sk_eq h1 hw, by rw [h1]; exact hpre⟩ hLq
        with hoof | hg
      · exact Or.inl hoof
      · refine Or.inr ?_
        rw [List.append_assoc] at hg
        exact hg
    split
    · exact key _ (by rw [sk_modQuery_same]; intro; rfl)
    · exact key _ rfl
  · -- finish
    rename_i st timeouts dg rest
    simp only [hasFinish, ↓reduceIte] at hpre
    obtain ⟨ha, _, hns, hz, hd⟩ := hpre
    obtain ⟨c0, hc0, hid0, hm0, hp0, _⟩ := client?_of_active hw ha
    simp only [hc0]
    have hLq : LG cid (L ++ [.act id (.finish st timeouts dg)]) 0 s := hL0.snoc_quiet (quiet_finish id st timeouts dg)
    rcases h.tail (d := d) (c := .userCb c0.tok c0.react st timeouts dg) (s := s)
      ⟨hw, ⟨some id, hd, fun c hc he => by
          have hci : c.id = id := Option.some.inj he
          have : c = c0.sk := eq_of_nodup_map (·.id) s.sk.clients hw.k.nodup c hc c0.sk hm0 (by rw [hci]; exact hid0.symm)
          rw [this]; rfl⟩,
        hp0, fun p hp hpi ho => by
          have := (hw.tok.tQ p hp hpi _ ho).2.2 c0.sk hm0
          exact this rfl,
        fun c hc he => by
          have hci : c0.sk.id = c.id := hw.tok.tKU c0.sk hm0 c hc he.symm hp0
          have : c.id = id := by rw [← hci]; exact hid0
          rw [this]; exact ⟨hns, hz⟩⟩ hLq with hoof | hg
    · exact Or.inl hoof
    · refine Or.inr ?_
      have h2 := (hg.snoc_quiet (quiet_rel id)).snoc_quiet (quiet_ret id)
      simp only [List.append_assoc, List.cons_append, List.nil_append] at h2 ⊢
      exact h2.congr rfl rfl

end Cares.Chan
