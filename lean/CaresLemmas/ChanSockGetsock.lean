import CaresLemmas.ChanSockUdp
/-!
# `ares_getsock` / `ares_fds` (C10): the descriptor set the driver renders after every op

`Driver/SimMain.lean`'s `finishOp` renders `fds=[…]` from the channel state exactly as `ares_getsock` computes its
result: walk the servers in list order and their connections in list order, skip a connection unless the channel has
active queries or the connection is TCP, at most 16 entries; read interest always, write interest iff the
connection's WRITE flag (`Conn.notW`) is set.  Restated here as a pure function.
-/
namespace Cares.Chan

/-- the connections `ares_getsock` looks at, in its order -/
def getsockConns (s : St) : List Conn := (s.sortedServers.map (·.conns)).flatten.filterMap s.conn?

/-- `(fd, read interest, write interest)` for every connection that matters, before truncation -/
def getsockAll (s : St) : List (Nat × Bool × Bool) :=
  ((getsockConns s).filter fun c => decide (s.all.length > 0) || c.tcp).map fun c => (c.fd, true, c.notW)

/-- the result of `ares_getsock(channel, socks, 16)` -/
def getsock (s : St) : List (Nat × Bool × Bool) := (getsockAll s).take 16

theorem mem_getsockConns {s : St} {c : Conn} :
    c ∈ getsockConns s ↔ ∃ fd ∈ (s.sortedServers.map (·.conns)).flatten, s.conn? fd = some c := by
  simp only [getsockConns, List.mem_filterMap]

theorem conn?_eq_of_mem {s : St} (hn : (s.conns.map (·.fd)).Nodup) {c : Conn} (hc : c ∈ s.conns) :
    s.conn? c.fd = some c := by
  cases hf : s.conn? c.fd with
  | none =>
    have := List.find?_eq_none.mp hf c hc
    simp at this
  | some c' =>
    have hm := List.mem_of_find?_eq_some hf
    have hfd := List.find?_some hf
    simp only [beq_iff_eq] at hfd
    have : c' = c := eq_of_nodup_fd hn hm hc hfd
    rw [this]

/-- **`getsock_set`.**  In a state satisfying the socket invariant, the set `ares_getsock` reports (before the 16-entry
    cut) is exactly: the connections on the servers' lists that are TCP or — when the channel has active queries — any;
    each is an open socket, with read interest, and with write interest iff the connection's WRITE flag is set, which
    is the write interest last announced through the socket-state callback. -/
theorem getsock_set (s : St) (h : SInv none s) :
    (∀ e ∈ getsockAll s, ∃ c ∈ s.conns, e = (c.fd, true, c.notW) ∧ (s.all ≠ [] ∨ c.tcp = true) ∧
        c.fd ∈ (s.sortedServers.map (·.conns)).flatten ∧ fdState s.sockLog c.fd = .opened ∧
        ((nproj s.notifyLog c.fd).getLast?.getD (false, false)).2 = e.2.2) ∧
    (∀ c ∈ s.conns, c.fd ∈ (s.sortedServers.map (·.conns)).flatten → (s.all ≠ [] ∨ c.tcp = true) →
        (c.fd, true, c.notW) ∈ getsockAll s) ∧
    getsock s = (getsockAll s).take 16 := by
  have hnd : (s.conns.map (·.fd)).Nodup := by
    have := h.nodup
    simp only [St.sview, List.map_map] at this
    exact this
  refine ⟨?_, ?_, rfl⟩
  · intro e he
    simp only [getsockAll, List.mem_map, List.mem_filter] at he
    obtain ⟨c, ⟨hc, hcond⟩, rfl⟩ := he
    obtain ⟨fd, hfd, hconn⟩ := mem_getsockConns.mp hc
    have hm := List.mem_of_find?_eq_some hconn
    have hfd' := List.find?_some hconn
    simp only [beq_iff_eq] at hfd'
    refine ⟨c, hm, rfl, ?_, by rw [hfd']; exact hfd, h.connOpen (ckey c) (List.mem_map_of_mem hm), ?_⟩
    · simp only [Bool.or_eq_true, decide_eq_true_eq] at hcond
      rcases hcond with h1 | h1
      · left; intro h0; rw [h0] at h1; simp at h1
      · exact .inr h1
    · have := h.nLast (ckey c) (List.mem_map_of_mem hm)
      have e : nproj s.sview.nlog (ckey c).1 = nproj s.notifyLog c.fd := rfl
      rw [e] at this
      rw [this]; rfl
  · intro c hc hfd hcond
    simp only [getsockAll, List.mem_map, List.mem_filter]
    refine ⟨c, ⟨mem_getsockConns.mpr ⟨c.fd, hfd, conn?_eq_of_mem hnd hc⟩, ?_⟩, rfl⟩
    simp only [Bool.or_eq_true, decide_eq_true_eq]
    rcases hcond with h1 | h1
    · left; cases hl : s.all with
      | nil => exact absurd hl h1
      | cons x r => simp
    · exact .inr h1

end Cares.Chan
