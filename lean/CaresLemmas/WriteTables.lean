import CaresModel.Dns.Build
import CaresModel.Generated.DnsTables
/-!
# The hand-written validity switches of `Build.lean` are the regenerated tables

(`Generated/DnsTables.lean` is produced by exhaustive evaluation of the compiled C functions on every
check run; these lemmas are the obligations that tie the writer-side copies to it.)
-/
namespace Cares.Dns.Build
open Cares.Dns

theorem recTypeValid_rr_eq (t : Nat) : recTypeValid t false = Cares.Generated.recTypeValid t false := by
  simp only [recTypeValid, knownTypes, Cares.Generated.recTypeValid, Cares.Generated.recTypeValidRR, RecType.rawRR]
  by_cases h : t ∈ [1, 2, 5, 6, 12, 13, 15, 16, 24, 28, 33, 35, 41, 52, 64, 65, 255, 256, 257]
  · have h2 : t ∈ [1, 2, 5, 6, 12, 13, 15, 16, 24, 28, 33, 35, 41, 52, 64, 65, 255, 256, 257, 65536] := by
      simp only [List.mem_cons, List.not_mem_nil, or_false] at h ⊢
      omega
    simp [List.contains_iff_mem, h, h2]
  · by_cases h3 : t = 65536
    · subst h3; decide
    · have h2 : t ∉ [1, 2, 5, 6, 12, 13, 15, 16, 24, 28, 33, 35, 41, 52, 64, 65, 255, 256, 257, 65536] := by
        simp only [List.mem_cons, List.not_mem_nil, or_false] at h ⊢
        omega
      simp [List.contains_iff_mem, h, h2, h3]

theorem recTypeValid_query_imp (t : Nat) (h : recTypeValid t true = true) :
    Cares.Generated.recTypeValid t true = true ∧ t < 65536 := by
  simp only [recTypeValid, knownTypes, RecType.rawRR] at h
  simp only [Cares.Generated.recTypeValid, Cares.Generated.recTypeInvalidQuery]
  by_cases hk : t ∈ [1, 2, 5, 6, 12, 13, 15, 16, 24, 28, 33, 35, 41, 52, 64, 65, 255, 256, 257]
  · have : t < 65536 ∧ t ≠ 65536 := by
      simp only [List.mem_cons, List.not_mem_nil, or_false] at hk
      omega
    simp [this.2, this.1]
  · simp only [List.contains_iff_mem, hk, ↓reduceIte] at h
    by_cases h1 : t = 65536
    · simp [h1] at h
    · by_cases h2 : t > 65535
      · simp [h1, h2] at h
      · simp [h1]; omega

theorem classValid_imp (c t : Nat) (q : Bool) (h : classValid c t q = true) :
    Cares.Generated.classValid c t q = true := by
  simp only [classValid, RecType.rawRR, RecType.sig] at h
  simp only [Cares.Generated.classValid]
  by_cases h1 : t = 65536
  · subst h1; cases q <;> simp
  · simp only [h1, ↓reduceIte] at h
    by_cases h2 : t = 24
    · subst h2
      have : c = 1 ∨ c = 3 ∨ c = 4 ∨ c = 254 ∨ c = 255 := by
        split at h
        · rename_i hc; simp at hc; omega
        · split at h
          · rename_i hc; omega
          · cases h
      rcases this with rfl | rfl | rfl | rfl | rfl <;> cases q <;> decide
    · have ht : ([24] : List Nat).contains t = false := by simp [h2]
      have ht2 : ([65536] : List Nat).contains t = false := by simp [h1]
      simp only [ht, ht2, Bool.false_eq_true, ↓reduceIte]
      split at h
      · rename_i hc
        have : c = 1 ∨ c = 3 ∨ c = 4 ∨ c = 254 := by simp at hc; omega
        rcases this with rfl | rfl | rfl | rfl <;> cases q <;> decide
      · split at h
        · rename_i hc
          subst hc
          simp only [h2, false_or, decide_eq_true_eq] at h
          subst h
          decide
        · cases h

theorem classValid_lt (c t : Nat) (q : Bool) (h : classValid c t q = true) (ht : t ≠ RecType.rawRR) : c < 256 := by
  simp only [classValid, ht, ↓reduceIte] at h
  split at h
  · rename_i hc; simp at hc; omega
  · split at h
    · omega
    · cases h

theorem opcodeValid_eq (o : Nat) : opcodeValid o = Cares.Generated.opcodeValid o := by
  simp only [opcodeValid, Cares.Generated.opcodeValid, Cares.Generated.opcodeValidList]
  by_cases h : o ∈ [0, 1, 2, 4, 5]
  · have : o = 0 ∨ o = 1 ∨ o = 2 ∨ o = 4 ∨ o = 5 := by simpa using h
    rcases this with rfl | rfl | rfl | rfl | rfl <;> decide
  · have h' : ¬ (o = 0 ∨ o = 1 ∨ o = 2 ∨ o = 4 ∨ o = 5) := by simpa using h
    simp [List.contains_iff_mem, h]
    omega

theorem rcodeValid_eq (r : Nat) : rcodeValid r = Cares.Generated.rcodeValid r := by
  simp only [rcodeValid, Cares.Generated.rcodeValid, Cares.Generated.rcodeValidList]
  by_cases h : r ≤ 23
  · have : ∀ x, x ≤ 23 → (decide (x ≤ 11) || (decide (16 ≤ x) && decide (x ≤ 23))) =
        [0, 1, 2, 3, 4, 5, 6, 7, 8, 9, 10, 11, 16, 17, 18, 19, 20, 21, 22, 23].contains x := by decide
    exact this r h
  · have h1 : r ∉ [0, 1, 2, 3, 4, 5, 6, 7, 8, 9, 10, 11, 16, 17, 18, 19, 20, 21, 22, 23] := by
      simp only [List.mem_cons, List.not_mem_nil, or_false]; omega
    simp [List.contains_iff_mem, h1]
    omega

end Cares.Dns.Build
