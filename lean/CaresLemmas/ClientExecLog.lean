import CaresLemmas.ChanSockAnswer
/-!
# The client events of a channel run — an instrumented executor (part 1: the log, the send / completion path)

`execC` (ClientExecLog3) is `Chan.Core.exec` with every procedure re-stated so that it returns, next to its result,
the list of *client events* that happened while it ran, in execution order:

* `.start id …`   `bodyClientStart` created the compound request `id` (and is about to run `clientStart`'s actions);
* `.cb id st t r a b` `bodyCallback` found the record of compound request `id` and applied `clientOnCb` to it
                  (completion of one of its sub-requests with status `st`, `t` timeouts, answer `r`; `a`, `b` are the
                  query ids `qidA` / `qidAAAA` stored in the record at that moment);
* `.act id a`     `bodyRunActs` is about to execute action `a` for `id`;
* `.slot id k q`  `bodyRunActs` stored query id `q` in slot `k` of `id` after a successful `.sendSlot`;
* `.lost id`      `bodyRunActs` found no record at a `.finish` (the model's `uaf-client` fault);
* `.rel id`       the record of `id` was released after the user callback of a `.finish`;
* `.ret id`       a chain of `runActs id …` calls has come to its end.

Only `bodyCallback`, `bodyClientStart` and `bodyRunActs` add entries; every other procedure concatenates the logs of
the calls it makes.  `execC_fst : (execC fuel call s).1 = exec fuel call s` (kernel-checked) says the instrumented
executor computes exactly what the model computes.
-/
namespace Cares.Chan

inductive CItem where
  | start (id : Nat) (kind : String) (tok : Nat) (react : List Nat) (spec : ReqSpec) (fam : Nat)
  | cb (id : Nat) (st : Status) (timeouts : Nat) (rec : Option Reply) (qidA qidAAAA : Nat)
  | act (id : Nat) (a : ClientAct)
  | slot (id : Nat) (slot qid : Nat)
  | lost (id : Nat)
  | rel (id : Nat)
  | ret (id : Nat)
  deriving Repr, Inhabited

abbrev CLog := List CItem
abbrev GoC := Call → St → (St × Ret) × CLog

/-- the uninstrumented view of an instrumented `go` -/
abbrev GoC.fst (goC : GoC) : Call → St → St × Ret := fun c s => (goC c s).1

def bodySendNolockC (goC : GoC) (reqSrv : Option Nat) (nocache : Bool) (noretry : Bool) (spec : ReqSpec)
    (owner : Owner) (react : List Nat) (s : St) : (St × Ret) × CLog :=
  let (qid, s) := genQid 70000 s
  if s.servers.isEmpty then
    let p := goC (.callback owner react .noserver 0 none) s
    ((p.1.1, .noserver), p.2)
  else
    let s := if nocache then s else s.cacheExpire
    match (if nocache then none else s.cacheFetch spec.name spec.qtype spec.qclass spec.rd) with
    | some e =>
      let dec := s.nowSec - e.insert
      let p := goC (.callback owner react .ok 0 (some { e.reply with ttls := e.reply.ttls.map (· - dec) })) s
      ((p.1.1, .ok), p.2)
    | none =>
      if nameTextLen spec.name > 255 then
        let p := goC (.callback owner react .formerr 0 none) s
        ((p.1.1, .formerr), p.2)
      else
      let key := s.nextKey
      let usingTcp := s.cfg.usevc
      let sentName := normEscapes (stripDot spec.name)
      let nbytes := (nameTextLen sentName + 7) / 8
      let s := if s.cfg.dns0x20 && !usingTcp && nameTextLen sentName > 0 then
          (if nbytes == 1 then s.draw1.2 else if nbytes == 2 then s.draw2.2 else s) else s
      let q : Query := { key := key, qid := qid, owner := owner, react := react, name := sentName,
                         qtype := spec.qtype, qclass := spec.qclass, rd := spec.rd, edns := spec.edns,
                         usingTcp := usingTcp, noRetries := noretry }
      let s := { s with lastQid := qid, nextKey := key + 1, qs := s.qs ++ [q], all := s.all ++ [key],
                        byQid := s.byQid ++ [(qid, key)] }
      goC (.sendQuery reqSrv key) s

/-- `sqFlush` with its log -/
def sqFlushC (goC : GoC) (fd : Nat) (s : St) : (Status × St) × CLog :=
  let c := (s.conn? fd).getD default
  if c.tcp && !c.connected then ((.ok, s), [])
  else if s.cfg.pendingWrite && !s.notifyPending && c.tcp then
    ((.ok, ({ s with notifyPending := true }).emit "pendingwrite"), [])
  else
    let p := goC (.flush fd) s
    ((p.1.2, p.1.1), p.2)

/-- `sqLink` with its log -/
def sqLinkC (goC : GoC) (probeDowned : Bool) (key : Nat) (srv : Server) (fd : Nat) (s : St) : (St × Ret) × CLog :=
  match s.query? key, s.conn? fd with
  | some q, some _ =>
    let s := sqLinkPre key srv fd q s
    let s := s.modConn fd fun c => { c with queries := c.queries.erase key ++ [key], total := c.total + 1 }
    if probeDowned then
      let p := goC (.probe srv.id key) s
      ((p.1.1, .ok), p.2)
    else ((s, .ok), [])
  | none, _ => ((s.mfault s!"uaf-query({key}) after write in ares_send_query", .other), [])
  | _, none => ((s.mfault s!"uaf-conn({fd}) after write in ares_send_query", .other), [])

/-- `sqWriteQ` with its log -/
def sqWriteQC (goC : GoC) (reqSrv : Option Nat) (key : Nat) (q : Query) (srv : Server) (fd : Nat) (s : St) :
    (St × Ret) × CLog :=
  let probeDowned := reqSrv.isNone && srv.failures == 0 && q.tryCount == 0
  let f := sqFlushC goC fd (sqPrepare key q srv fd s).1
  match f.1.1 with
  | .ok =>
    let p := sqLinkC goC probeDowned key srv fd f.1.2
    (p.1, f.2 ++ p.2)
  | .nomem =>
    let p := goC (.endQuery (some srv.id) key .nomem none) f.1.2
    (p.1, f.2 ++ p.2)
  | .connrefused | .badfamily =>
    let e := goC (.connError fd true f.1.1) f.1.2
    match (e.1.1.byQid.find? (fun (id, k) => id == (sqPrepare key q srv fd s).2.qid && k == key)).bind
        (fun _ => e.1.1.query? key) with
    | none => ((e.1.1, .cancelled), f.2 ++ e.2)
    | some _ =>
      let p := goC (.requeue key f.1.1 true none false) e.1.1
      ((p.1.1, if p.1.2 == .timeout then .connrefused else p.1.2), f.2 ++ e.2 ++ p.2)
  | wst' =>
    let p := goC (.requeue key wst' true none false) (f.1.2.incFailures srv.id (sqPrepare key q srv fd s).2.usingTcp)
    (p.1, f.2 ++ p.2)

/-- `bodySendQuery` (in the staged form of `bodySendQuery_stages`) with its log -/
def bodySendQueryC (goC : GoC) (reqSrv : Option Nat) (key : Nat) (s : St) : (St × Ret) × CLog :=
  match s.query? key with
  | none => ((s.mfault s!"uaf-query({key}) in ares_send_query", .other), [])
  | some q =>
    let sorted := s.sortedServers
    let (srv?, s) : Option Server × St := pickServer reqSrv s
    match srv? with
    | none => goC (.endQuery none key .noserver none) s
    | some srv =>
      let s := { s with picks := s.picks ++ [(key, srv.id, reqSrv.isSome, sorted.map fun v => (v.id, v.failures))] }
      let (connRes, s) : (Except Status Nat) × St :=
        match fetchConn s q srv with
        | some fd => (.ok fd, s)
        | none => openConn s q.usingTcp srv
      match connRes with
      | .error st => goC (.requeue key st true none false) (s.incFailures srv.id q.usingTcp)
      | .ok fd => sqWriteQC goC reqSrv key q srv fd s

def bodyProbeC (goC : GoC) (srvId : Nat) (key : Nat) (s : St) : (St × Ret) × CLog :=
  match s.query? key with
  | none => ((s, .ok), [])
  | some q =>
  let sorted := s.sortedServers
  match sorted.getLast? with
  | none => ((s, .ok), [])
  | some last =>
    if last.failures == 0 || s.cfg.retryChance == 0 then ((s, .ok), []) else
    let (r, s) := s.draw2
    if r % s.cfg.retryChance != 0 then ((s, .ok), []) else
    match sorted.find? (fun v => v.failures > 0 && !v.probePending && s.now ≥ v.nextRetry) with
    | none => ((s, .ok), [])
    | some pv =>
      if pv.id == srvId then ((s, .ok), []) else
      let s := s.modServer pv.id fun v => { v with probePending := true }
      let p := goC (.sendNolock (some pv.id) true true
        { name := q.name, qtype := q.qtype, qclass := q.qclass, rd := q.rd, edns := q.edns } (.probe pv.id) []) s
      ((p.1.1, .ok), p.2)

def bodyFlushC (goC : GoC) (fd : Nat) (s : St) : (St × Ret) × CLog :=
  match s.conn? fd with
  | none => ((s.mfault s!"uaf-conn({fd}) in ares_conn_flush", .other), [])
  | some c =>
    match c.out with
    | [] => ((s.notify fd true false, .ok), [])
    | f :: rest =>
      if !c.tcp then
        let (e, s) := s.fault "sendto"
        match e with
        | some errno =>
          let s := (s.emit s!"send!({fd},{errno})").slog fd "send"
          if isWouldBlock errno then
            let s := s.notify fd true true
            ((s.notify fd true false, .ok), [])
          else ((s, .connrefused), [])
        | none =>
          let s := s.recordTx fd false f
          let s := s.notify fd true false
          let s := s.modConn fd fun c => { c with out := rest }
          goC (.flush fd) s
      else
        if !c.connected then
          let s := s.notify fd true true
          ((s, .ok), [])
        else
        let (e, s) := s.fault "sendto"
        match e with
        | some errno =>
          let s := (s.emit s!"send!({fd},{errno})").slog fd "send"
          if isWouldBlock errno then ((s.notify fd true true, .ok), []) else ((s, .connrefused), [])
        | none =>
          let total := outBytes c
          let v := (s.sock? fd).getD default
          let (acc, v) := tcpAccept v total
          let s := (s.setSock v).slog fd "send"
          match acc with
          | none =>
            let s := s.emit s!"send({fd},again)"
            ((s.notify fd true true, .ok), [])
          | some n =>
            let s := if n != total then s.emit s!"send({fd},{n}/{total})" else s
            let s := advanceOut (c.out.length + 1) fd s n
            let s := if n == total then s.notify fd true false else s
            let c' := (s.conn? fd).getD c
            ((s.notify fd true (outBytes c' != 0), .ok), [])

def bodyRequeueC (goC : GoC) (key : Nat) (st : Status) (inc : Bool) (rec : Option Reply) (deferred : Bool) (s : St) :
    (St × Ret) × CLog :=
  match s.query? key with
  | none => ((s.mfault s!"uaf-query({key}) in ares_requeue_query", .other), [])
  | some _ =>
    let maxTries := s.servers.length * s.cfg.tries
    let s := s.removeFromConn key
    let s := s.modQuery key fun q =>
      { q with errorStatus := if st != .ok then st else q.errorStatus,
               tryCount := if inc then q.tryCount + 1 else q.tryCount }
    let q := (s.query? key).getD default
    if q.tryCount < maxTries && !q.noRetries then
      if deferred then
        (({ s with requeueArr := s.requeueArr ++ [(q.qid, none)] }, .ok), [])
      else goC (.sendQuery none key) s
    else
      let es := if q.errorStatus == .ok then .timeout else q.errorStatus
      let s := s.modQuery key fun q => { q with errorStatus := es }
      let p := goC (.endQuery none key es rec) s
      ((p.1.1, .timeout), p.2)

def bodyEndQueryC (goC : GoC) (srv : Option Nat) (key : Nat) (st : Status) (rec : Option Reply) (s : St) :
    (St × Ret) × CLog :=
  match s.query? key with
  | none => ((s.mfault s!"uaf-query({key}) in end_query", .other), [])
  | some q =>
    let s := match srv with
      | some id => s.modServer id fun v => { v with probePending := false }
      | none => s
    let s := s.metricsRecord q srv st rec
    let s := s.detach key
    let p := goC (.callback q.owner q.react st q.timeouts rec) s
    ((p.1.1.freeQuery key, .ok), p.2)

/-- `bodyCallback` with its log: a completion handed to a compound request is recorded where `clientOnCb` runs -/
def bodyCallbackC (goC : GoC) (owner : Owner) (react : List Nat) (st : Status) (timeouts : Nat) (rec : Option Reply)
    (s : St) : (St × Ret) × CLog :=
  match owner with
  | .probe id => ((s.modServer id fun v => { v with probePending := false }, .ok), [])
  | .client id =>
    match s.client? id with
    | none => ((s.mfault s!"uaf-client({id}) in completion callback", .other), [])
    | some c =>
      let p := goC (.runActs id (clientOnCb s.cfg c st timeouts rec).2)
        (s.modClient id fun _ => (clientOnCb s.cfg c st timeouts rec).1)
      (p.1, .cb id st timeouts rec c.qidA c.qidAAAA :: p.2)
  | .user tok => goC (.userCb tok react st timeouts (digest rec)) s

def bodyUserCbC (goC : GoC) (tok : Nat) (react : List Nat) (st : Status) (timeouts : Nat) (dg : String) (s : St) :
    (St × Ret) × CLog :=
  let s := s.userCallback tok st timeouts dg
  if s.destroying || s.destroyed then ((s, .ok), []) else goC (.reactions react) s

/-- one reaction of `bodyReactions` with its log -/
def reactOneC (goC : GoC) (i : Nat) (s : St) : St × CLog :=
  match s.reactions.find? (·.1 == i) with
  | none => (s, [])
  | some (_, r) =>
    if r.kind == "cancel" then
      let p := goC .cancel (s.emit "react(cancel)")
      (p.1.1, p.2)
    else if r.kind == "send" then
      let tok := 10000 + s.reactSeq
      let s := { s with reactSeq := s.reactSeq + 1 }
      let s := s.emit s!"react(send,{tok})"
      let s := { s with pendingToks := s.pendingToks ++ [tok] }
      let p := goC (.sendNolock none false false { name := r.name, qtype := r.qtype } (.user tok) r.react) s
      (p.1.1.emit s!"ret({tok},{p.1.2.name})", p.2)
    else (s, [])

def bodyReactionsC (goC : GoC) (l : List Nat) (s : St) : (St × Ret) × CLog :=
  match l with
  | [] => ((s, .ok), [])
  | i :: rest =>
    if s.destroying || s.destroyed then ((s, .ok), []) else
    let a := reactOneC goC i s
    let p := goC (.reactions rest) a.1
    (p.1, a.2 ++ p.2)

end Cares.Chan
