import CaresLemmas.WriteRR
/-!
# `ares_dns_parse_rr` on the bytes of one written RR
-/
namespace Cares.Dns.Write
open Cares.Dns Cares.Dns.NameW Cares.Dns.Build

/-- the fixed part of an RR and the RDLENGTH reconciliation, for any RDATA decoder result -/
theorem parseRR_generic (sect : Sect) (msg out nb db post : BStr) (T C TT : Nat)
    (hT : T < 65536) (hC : C < 65536) (hTT : TT < 4294967296) (hL : db.length < 65536)
    (hmsg : msg = out ++ (nb ++ (be16 T ++ be16 C ++ be32 TT) ++ be16 db.length ++ db) ++ post)
    (cname : BStr) (hname : parseName msg.toArray false out.length = .ok cname (out.length + nb.length))
    (type : Nat) (htype : effectiveType 0 sect T = type)
    (hvalid : rrAddValid type (rrClass type C) = true)
    (fields : List (Nat × Val)) (hi : Nat)
    (hdata : parseRRData msg.toArray db.length type T C TT (out.length + nb.length + 10) =
      .ok (fields, hi) (out.length + nb.length + 10 + db.length)) :
    parseRR msg.toArray 0 sect out.length =
      .ok (⟨cname, type, rrClass type C, rrTtl type TT, fields⟩, hi) (out.length + nb.length + 10 + db.length) := by
  have hlen : msg.length = out.length + nb.length + 10 + db.length + post.length := by
    rw [hmsg]; simp [be16, be32]; omega
  have hsz : msg.toArray.size = out.length + nb.length + 10 + db.length + post.length := by
    rw [List.size_toArray, hlen]
  have e1 : msg = (out ++ nb) ++ be16 T ++ (be16 C ++ be32 TT ++ be16 db.length ++ db ++ post) := by
    rw [hmsg]; simp [List.append_assoc]
  have e2 : msg = (out ++ nb ++ be16 T) ++ be16 C ++ (be32 TT ++ be16 db.length ++ db ++ post) := by
    rw [hmsg]; simp [List.append_assoc]
  have e3 : msg = (out ++ nb ++ be16 T ++ be16 C) ++ be32 TT ++ (be16 db.length ++ db ++ post) := by
    rw [hmsg]; simp [List.append_assoc]
  have e4 : msg = (out ++ nb ++ be16 T ++ be16 C ++ be32 TT) ++ be16 db.length ++ (db ++ post) := by
    rw [hmsg]; simp [List.append_assoc]
  have l1 : (out ++ nb).length = out.length + nb.length := by simp
  have l2 : (out ++ nb ++ be16 T).length = out.length + nb.length + 2 := by simp [be16]; omega
  have l3 : (out ++ nb ++ be16 T ++ be16 C).length = out.length + nb.length + 2 + 2 := by simp [be16]; omega
  have l4 : (out ++ nb ++ be16 T ++ be16 C ++ be32 TT).length = out.length + nb.length + 2 + 2 + 4 := by
    simp [be16, be32]; omega
  have f1 : fetchBe16 msg.toArray (out.length + nb.length) = .ok T (out.length + nb.length + 2) := by
    have := fetchBe16_at msg _ _ T hT e1
    rw [l1] at this; exact this
  have f2 : fetchBe16 msg.toArray (out.length + nb.length + 2) = .ok C (out.length + nb.length + 2 + 2) := by
    have := fetchBe16_at msg _ _ C hC e2
    rw [l2] at this; exact this
  have f3 : fetchBe32 msg.toArray (out.length + nb.length + 2 + 2) = .ok TT (out.length + nb.length + 2 + 2 + 4) := by
    have := fetchBe32_at msg _ _ TT hTT e3
    rw [l3] at this; exact this
  have f4 : fetchBe16 msg.toArray (out.length + nb.length + 2 + 2 + 4) =
      .ok db.length (out.length + nb.length + 2 + 2 + 4 + 2) := by
    have := fetchBe16_at msg _ _ db.length hL e4
    rw [l4] at this; exact this
  have hS : out.length + nb.length + 2 + 2 + 4 + 2 = out.length + nb.length + 10 := by omega
  unfold parseRR
  rw [P.bind_ok hname, P.bind_ok f1, P.bind_ok f2, P.bind_ok f3, P.bind_ok f4, hS]
  simp only [htype]
  rw [P.bind_ok (bufLen_eq (by omega))]
  rw [if_neg (by omega)]
  simp only [hvalid, Bool.not_true, Bool.false_eq_true, ↓reduceIte]
  rw [P.bind_ok (bufLen_eq (by omega)), P.bind_ok hdata]
  simp only
  rw [P.bind_ok (bufLen_eq (by omega))]
  have hsub : subChecked (msg.toArray.size - (out.length + nb.length + 10))
      (msg.toArray.size - (out.length + nb.length + 10 + db.length)) (out.length + nb.length + 10 + db.length) =
      .ok db.length (out.length + nb.length + 10 + db.length) := by
    simp only [subChecked]
    rw [if_pos (by omega)]
    congr 1
    omega
  rw [P.bind_ok hsub]
  simp

/-! ## the three kinds of RR -/

/-- the extended-rcode bits an OPT RR carries (`(rcode >> 4) & 0xFF`, shifted to their place) -/
def optHi (rcode : Nat) : Nat := (rcode / 16 % 256) * 16

/-- the bits the parser ORs into `raw_rcode` for this RR -/
def hiOfRR (rcode : Nat) (rr : RR) : Nat := if rr.type = RecType.opt then optHi rcode else 0

theorem effectiveType_zero (sect : Sect) (T : Nat) :
    effectiveType 0 sect T = if Cares.Generated.recTypeValid T false then T else RecType.rawRR := by
  unfold effectiveType
  simp

theorem opt_ttl_bits (a v f : Nat) (ha : a < 2) (hv : v < 256) (hf : f < 65536) :
    ((a * 16777216 + v * 65536 + f) >>> 16) &&& 0xFF = v ∧ (a * 16777216 + v * 65536 + f) &&& 0xFFFF = f ∧
    ((a * 16777216 + v * 65536 + f) >>> 20) &&& 0x0FF0 = a * 16 := by
  refine ⟨?_, ?_, ?_⟩
  · rw [Nat.shiftRight_eq_div_pow, show (0xFF : Nat) = 2 ^ 8 - 1 by rfl, Nat.and_two_pow_sub_one_eq_mod]
    omega
  · rw [show (0xFFFF : Nat) = 2 ^ 16 - 1 by rfl, Nat.and_two_pow_sub_one_eq_mod]
    omega
  · rw [Nat.shiftRight_eq_div_pow]
    have h1 : (a * 16777216 + v * 65536 + f) / 2 ^ 20 = a * 16 + v / 16 := by omega
    rw [h1]
    have : ∀ a, a < 2 → ∀ w, w < 16 → (a * 16 + w) &&& 0x0FF0 = a * 16 := by decide
    exact this a ha (v / 16) (by omega)

theorem rcodeValid_small (rc : Nat) (h : rcodeValid rc = true) : rc / 16 < 2 := by
  simp only [rcodeValid, Bool.or_eq_true, Bool.and_eq_true, decide_eq_true_eq] at h
  omega

theorem u16t_small (n : Nat) (h : n < 65536) : u16t n = (be16 n, false) := by
  simp [u16t, Nat.mod_eq_of_lt h]; omega

theorem rrFixed_opt (rcode : Nat) (rr : RR) (hopt : rr.type = RecType.opt) (hrc : rcode / 16 < 256)
    (hudp : getU rr Key.optUdpSize < 65536) (hver : getU rr Key.optVersion < 256)
    (hflg : getU rr Key.optFlags < 65536) :
    rrFixed rcode 0 rr = (be16 41 ++ be16 (getU rr Key.optUdpSize) ++
      be32 ((rcode / 16) * 16777216 + getU rr Key.optVersion * 65536 + getU rr Key.optFlags), false) := by
  unfold rrFixed
  simp only [hopt, ↓reduceIte, RecType.opt]
  rw [Nat.mod_eq_of_lt hudp, Nat.mod_eq_of_lt hver, Nat.mod_eq_of_lt hflg, Nat.mod_eq_of_lt hrc]

theorem rrFixed_other (rcode : Nat) (rr : RR) (hopt : rr.type ≠ RecType.opt) (T : Nat)
    (hT : T = if rr.type = RecType.rawRR then getU rr Key.rawRRType else rr.type) (hT16 : T < 65536)
    (hcls : rr.cls < 65536) (httl : rr.ttl < 4294967296) :
    rrFixed rcode 0 rr = (be16 T ++ be16 rr.cls ++ be32 rr.ttl, false) := by
  unfold rrFixed
  simp only [hopt, ↓reduceIte, ← hT]
  rw [Nat.mod_eq_of_lt hT16, Nat.mod_eq_of_lt hcls]
  have : (if 0 > rr.ttl then 0 else rr.ttl - 0) = rr.ttl := by split <;> omega
  rw [this, Nat.mod_eq_of_lt httl]
  simp; omega

theorem canonRR_unscripted (rr : RR) (h : scriptOf Generated.writeScript rr.type = none) :
    canonRR rr = ⟨canonName rr.name, rr.type, rr.cls, rr.ttl, rr.fields⟩ := by
  simp [canonRR, h]

theorem canonRR_scripted (rr : RR) (ws : Script) (h : scriptOf Generated.writeScript rr.type = some ws) :
    canonRR rr = ⟨canonName rr.name, rr.type, rr.cls, rr.ttl, canonFields rr ws⟩ := by
  simp [canonRR, h]

theorem scriptOf_lt (tbl : List (Nat × Script)) (B : Nat) (hall : ∀ e ∈ tbl, e.1 < B) (t : Nat) (sc : Script)
    (h : scriptOf tbl t = some sc) : t < B := by
  unfold scriptOf at h
  cases hf : tbl.find? (·.1 == t) with
  | none => simp [hf] at h
  | some e =>
    have hm := List.mem_of_find?_eq_some hf
    have he := List.find?_some hf
    simp only [beq_iff_eq] at he
    have := hall e hm
    omega

/-- **one RR**: parsing what `ares_dns_write_rr` wrote gives the canonical RR back -/
theorem parseRR_writeRR (rcode : Nat) (hrc : rcodeValid rcode = true) (sect : Sect) (rr : RR)
    (hok : rrOk rr = true) (out post : BStr) (names : List NameOff) (p : Piece)
    (hw : writeRR rcode 0 out.length names rr = .ok p) (hinv : NInv names out)
    (hsize : (out ++ p.bytes ++ post).length ≤ 65535) :
    parseRR (out ++ p.bytes ++ post).toArray 0 sect out.length =
        .ok (canonRR rr, hiOfRR rcode rr) (out.length + p.bytes.length) ∧
      NInv p.names (out ++ p.bytes) ∧ p.trunc = false := by
  unfold writeRR at hw
  cases hn : nameWrite out.length names true true rr.name with
  | error e => simp [hn] at hw
  | ok n =>
    simp only [hn] at hw
    cases hd : writeRData (out.length + n.bytes.length + 10) n.names rr with
    | error e => simp [hd] at hw
    | ok d =>
      simp only [hd, Except.ok.injEq] at hw
      simp only [rrOk, Bool.and_eq_true, decide_eq_true_eq] at hok
      obtain ⟨⟨⟨⟨hvt, hvc⟩, hcls⟩, httl⟩, hcase⟩ := hok
      -- the shape of the piece: name, fixed part (8 bytes), RDLENGTH, RDATA
      obtain ⟨fixed, ft, hfx⟩ : ∃ f t, rrFixed rcode 0 rr = (f, t) := ⟨_, _, rfl⟩
      have hpb : p.bytes = n.bytes ++ fixed ++ (u16t d.bytes.length).1 ++ d.bytes := by rw [← hw, hfx]
      have hpn : p.names = d.names := by rw [← hw, hfx]
      have hpt : p.trunc = (n.trunc || ft || (u16t d.bytes.length).2 || d.trunc) := by rw [← hw, hfx]
      have hfl8 : fixed.length = 8 := by
        have : fixed = (rrFixed rcode 0 rr).1 := by rw [hfx]
        rw [this]; unfold rrFixed
        split <;> simp [be16, be32]
      rw [hpb] at hsize ⊢
      have hL : d.bytes.length < 65536 := by
        simp only [List.length_append] at hsize; omega
      rw [u16t_small _ hL] at hpt hsize ⊢
      dsimp only at hpt hsize ⊢
      obtain ⟨hname, hinvN, htrN⟩ := parseName_nameWrite out (fixed ++ be16 d.bytes.length ++ d.bytes ++ post)
        names true true rr.name n hinv hn
      have hmsgN : out ++ (n.bytes ++ fixed ++ be16 d.bytes.length ++ d.bytes) ++ post =
          out ++ n.bytes ++ (fixed ++ be16 d.bytes.length ++ d.bytes ++ post) := by simp [List.append_assoc]
      rw [← hmsgN] at hname
      have hS : (out ++ n.bytes ++ fixed ++ be16 d.bytes.length).length = out.length + n.bytes.length + 10 := by
        simp [be16, hfl8]; omega
      have hmsgD : out ++ (n.bytes ++ fixed ++ be16 d.bytes.length ++ d.bytes) ++ post =
          (out ++ n.bytes ++ fixed ++ be16 d.bytes.length) ++ d.bytes ++ post := by simp [List.append_assoc]
      have hinvS : NInv n.names (out ++ n.bytes ++ fixed ++ be16 d.bytes.length) := by
        have := hinvN.append (fixed ++ be16 d.bytes.length)
        simpa [List.append_assoc] using this
      have hplen : (n.bytes ++ fixed ++ be16 d.bytes.length ++ d.bytes).length =
          n.bytes.length + 10 + d.bytes.length := by
        simp [be16, hfl8]; omega
      have hfinal : ∀ (fields : List (Nat × Val)) (hi : Nat) (type cls ttl : Nat),
          parseRR (out ++ (n.bytes ++ fixed ++ be16 d.bytes.length ++ d.bytes) ++ post).toArray 0 sect out.length =
            .ok (⟨canonName rr.name, type, cls, ttl, fields⟩, hi) (out.length + n.bytes.length + 10 + d.bytes.length) →
          (⟨canonName rr.name, type, cls, ttl, fields⟩ : RR) = canonRR rr → hi = hiOfRR rcode rr →
          NInv d.names ((out ++ n.bytes ++ fixed ++ be16 d.bytes.length) ++ d.bytes) → ft = false → d.trunc = false →
          parseRR (out ++ (n.bytes ++ fixed ++ be16 d.bytes.length ++ d.bytes) ++ post).toArray 0 sect out.length =
              .ok (canonRR rr, hiOfRR rcode rr) (out.length + (n.bytes ++ fixed ++ be16 d.bytes.length ++ d.bytes).length) ∧
            NInv p.names (out ++ (n.bytes ++ fixed ++ be16 d.bytes.length ++ d.bytes)) ∧ p.trunc = false := by
        intro fields hi type cls ttl h1 h2 h3 h4 h5 h6
        refine ⟨?_, ?_, ?_⟩
        · rw [h1, h2, h3, hplen]
          congr 1
          omega
        · rw [hpn]; simpa [List.append_assoc] using h4
        · rw [hpt, htrN, h5, h6]; rfl
      by_cases hopt : rr.type = RecType.opt
      · -- OPT
        simp only [hopt, ↓reduceIte, Bool.and_eq_true, decide_eq_true_eq, beq_iff_eq] at hcase
        obtain ⟨⟨⟨⟨⟨⟨hc1, ht0⟩, hfl⟩, hudp⟩, hver⟩, hflg⟩, hopts⟩ := hcase
        have hdw : d = ⟨(writeOpts (getOpts rr Key.optOptions)).1, n.names, (writeOpts (getOpts rr Key.optOptions)).2⟩ := by
          unfold writeRData at hd
          have hany : ¬ (RecType.opt = RecType.any) := by decide
          simp only [hopt, hany, ↓reduceIte, Except.ok.injEq] at hd
          exact hd.symm
        have hdb : d.bytes = (writeOpts (getOpts rr Key.optOptions)).1 := by rw [hdw]
        have hdn : d.names = n.names := by rw [hdw]
        have hdt : d.trunc = (writeOpts (getOpts rr Key.optOptions)).2 := by rw [hdw]
        have ha := rcodeValid_small rcode hrc
        have hfix := rrFixed_opt rcode rr hopt (by omega) hudp hver hflg
        rw [hfx] at hfix
        have hfixed : fixed = be16 41 ++ be16 (getU rr Key.optUdpSize) ++
            be32 ((rcode / 16) * 16777216 + getU rr Key.optVersion * 65536 + getU rr Key.optFlags) :=
          (Prod.mk.inj hfix).1
        have hft : ft = false := (Prod.mk.inj hfix).2
        obtain ⟨b1, b2, b3⟩ := opt_ttl_bits (rcode / 16) _ _ ha hver hflg
        obtain ⟨hdata, hnotr⟩ := parseRRData_opt rr hopt (out ++ n.bytes ++ fixed ++ be16 d.bytes.length) post
          hopts 41 (getU rr Key.optUdpSize)
          ((rcode / 16) * 16777216 + getU rr Key.optVersion * 65536 + getU rr Key.optFlags)
        rw [← hdb, ← hmsgD, hS, hopt] at hdata
        have hgen := parseRR_generic sect _ out n.bytes d.bytes post 41 (getU rr Key.optUdpSize)
          ((rcode / 16) * 16777216 + getU rr Key.optVersion * 65536 + getU rr Key.optFlags)
          (by decide) hudp (by omega) hL
          (by rw [hfixed]) (canonName rr.name) hname 41
          (by rw [effectiveType_zero]; decide)
          (by simp only [rrAddValid, rrClass, RecType.opt, ↓reduceIte]; decide) _ _ hdata
        have hsc : scriptOf Generated.writeScript rr.type = none := by rw [hopt]; decide
        refine hfinal _ _ _ _ _ hgen ?_ ?_ (by rw [hdn]; exact hinvS.append _) hft (by rw [hdt]; exact hnotr)
        · rw [canonRR_unscripted rr hsc, hopt, hc1, ht0, hfl, b1, b2]
          simp [optFieldsStd, rrClass, rrTtl, RecType.opt]
        · simp [hiOfRR, hopt, optHi, b3, Nat.mod_eq_of_lt (by omega : rcode / 16 < 256)]
      · by_cases hraw : rr.type = RecType.rawRR
        · -- RAW_RR
          have hne : ¬ (RecType.rawRR = RecType.opt) := by decide
          simp only [hraw, hne, ↓reduceIte, Bool.and_eq_true, decide_eq_true_eq, beq_iff_eq, Bool.not_eq_true'] at hcase
          obtain ⟨⟨hfl, hrt⟩, hnv⟩ := hcase
          cases hgb : getBin rr Key.rawRRData with
          | none =>
            exfalso
            unfold writeRData at hd
            have hany : ¬ (RecType.rawRR = RecType.any) := by decide
            simp [hraw, hany, hne, hgb] at hd
          | some dat =>
            have hdw : d = ⟨dat, n.names, false⟩ := by
              unfold writeRData at hd
              have hany : ¬ (RecType.rawRR = RecType.any) := by decide
              simp only [hraw, hany, hne, ↓reduceIte, hgb, Except.ok.injEq] at hd
              exact hd.symm
            have hdb : d.bytes = dat := by rw [hdw]
            have hdn : d.names = n.names := by rw [hdw]
            have hdt : d.trunc = false := by rw [hdw]
            have hfix := rrFixed_other rcode rr hopt (getU rr Key.rawRRType) (by simp [hraw]) hrt hcls httl
            rw [hfx] at hfix
            have hfixed : fixed = be16 (getU rr Key.rawRRType) ++ be16 rr.cls ++ be32 rr.ttl := (Prod.mk.inj hfix).1
            have hft : ft = false := (Prod.mk.inj hfix).2
            have hdata := parseRRData_raw rr hraw (out ++ n.bytes ++ fixed ++ be16 d.bytes.length)
              d.bytes post (getU rr Key.rawRRType) rr.cls rr.ttl
            rw [← hmsgD, hS, hraw] at hdata
            have hgen := parseRR_generic sect _ out n.bytes d.bytes post (getU rr Key.rawRRType) rr.cls rr.ttl
              hrt hcls httl hL (by rw [hfixed]) (canonName rr.name) hname RecType.rawRR
              (by rw [effectiveType_zero, ← recTypeValid_rr_eq, hnv]; rfl)
              (by simp [rrAddValid, rrClass, RecType.rawRR, RecType.opt, Cares.Generated.recTypeValid,
                    Cares.Generated.recTypeValidRR, Cares.Generated.classValid])
              _ _ hdata
            have hsc : scriptOf Generated.writeScript rr.type = none := by rw [hraw]; decide
            refine hfinal _ _ _ _ _ hgen ?_ ?_ (by rw [hdn]; exact hinvS.append _) hft hdt
            · rw [canonRR_unscripted rr hsc, hraw, hfl]
              simp [rawFieldsStd, rrClass, rrTtl, RecType.rawRR, RecType.opt, hgb, hdb]
            · simp [hiOfRR, hopt]
        · -- scripted
          simp only [hopt, hraw, ↓reduceIte] at hcase
          cases hps : scriptOf Generated.parseScript rr.type with
          | none => simp [hps] at hcase
          | some ps =>
            simp only [hps] at hcase
            have hany : rr.type ≠ RecType.any := by
              intro h
              have hn : scriptOf Generated.parseScript RecType.any = none := by decide
              rw [h, hn] at hps
              cases hps
            cases hwsc : scriptOf Generated.writeScript rr.type with
            | none =>
              exfalso
              have : ∀ e ∈ Generated.parseScript, (scriptOf Generated.writeScript e.1).isSome = true := by decide
              unfold scriptOf at hps
              cases hf : Generated.parseScript.find? (·.1 == rr.type) with
              | none => simp [hf] at hps
              | some e =>
                have hm := List.mem_of_find?_eq_some hf
                have he := List.find?_some hf
                simp only [beq_iff_eq] at he
                have := this e hm
                rw [he, hwsc] at this
                cases this
            | some ws =>
              obtain ⟨ps', hps', hcomp⟩ := script_pair rr.type ws hwsc
              rw [hps] at hps'
              cases hps'
              have hdw : writeFields (out.length + n.bytes.length + 10) n.names (allowNameComp rr.type) rr ws = .ok d := by
                unfold writeRData at hd
                simp only [hany, ↓reduceIte, hopt, hraw, hwsc] at hd
                exact hd
              rw [← hS] at hdw
              obtain ⟨hdata, hinvD, htrD⟩ := parseRRData_scripted rr ws ps hwsc hps hcomp hany hopt hraw _ post
                n.names d rr.type rr.cls rr.ttl hdw hinvS hcase
              rw [← hmsgD, hS] at hdata
              have hT : rr.type < 65536 := scriptOf_lt _ 65536 (by decide) rr.type ps hps
              have hfix := rrFixed_other rcode rr hopt rr.type (by simp [hraw]) hT hcls httl
              rw [hfx] at hfix
              have hfixed : fixed = be16 rr.type ++ be16 rr.cls ++ be32 rr.ttl := (Prod.mk.inj hfix).1
              have hft : ft = false := (Prod.mk.inj hfix).2
              have hvt' : Cares.Generated.recTypeValid rr.type false = true := by rw [← recTypeValid_rr_eq]; exact hvt
              have hgen := parseRR_generic sect _ out n.bytes d.bytes post rr.type rr.cls rr.ttl
                hT hcls httl hL (by rw [hfixed]) (canonName rr.name) hname rr.type
                (by rw [effectiveType_zero, hvt']; rfl)
                (by simp only [rrAddValid, rrClass, hopt, ↓reduceIte, hvt', Bool.true_and]
                    exact classValid_imp _ _ _ hvc)
                _ _ hdata
              refine hfinal _ _ _ _ _ hgen ?_ ?_ hinvD hft htrD
              · rw [canonRR_scripted rr ws hwsc]
                simp [rrClass, rrTtl, hopt]
              · simp [hiOfRR, hopt]

end Cares.Dns.Write
