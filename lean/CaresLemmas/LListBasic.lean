import CaresModel.Dsa.LList
/-! Helper lemmas for the pointer-level `ares_llist` model, part 1: heap updates pointwise, the frame rule for the
    global invariant, iteration over a well-formed list. -/
namespace Cares.Dsa.LHeap

@[simp] theorem setNode_nodes (h : LHeap) (x : Nat) (v : Option LNode) (y : Nat) :
    (h.setNode x v).nodes y = if y = x then v else h.nodes y := rfl

@[simp] theorem setNode_lists (h : LHeap) (x : Nat) (v : Option LNode) : (h.setNode x v).lists = h.lists := rfl

@[simp] theorem setList_nodes (h : LHeap) (L : Nat) (v : Option LHdr) : (h.setList L v).nodes = h.nodes := rfl

@[simp] theorem setList_lists (h : LHeap) (L : Nat) (v : Option LHdr) (y : Nat) :
    (h.setList L v).lists y = if y = L then v else h.lists y := rfl

theorem setPrev_nodes (h : LHeap) (p v : Option Nat) (y : Nat) :
    (h.setPrev p v).nodes y = if p = some y then (h.nodes y).map (fun nd => { nd with prev := v }) else h.nodes y := by
  unfold setPrev
  cases p with
  | none => simp
  | some x =>
    simp only [Option.some.injEq]
    cases hx : h.nodes x with
    | none =>
      by_cases hy : x = y
      · subst hy; simp [hx]
      · simp [hy]
    | some nd =>
      by_cases hy : x = y
      · subst hy; simp [hx]
      · have : ¬ y = x := fun e => hy e.symm
        simp [hy, this]

theorem setNext_nodes (h : LHeap) (p v : Option Nat) (y : Nat) :
    (h.setNext p v).nodes y = if p = some y then (h.nodes y).map (fun nd => { nd with next := v }) else h.nodes y := by
  unfold setNext
  cases p with
  | none => simp
  | some x =>
    simp only [Option.some.injEq]
    cases hx : h.nodes x with
    | none =>
      by_cases hy : x = y
      · subst hy; simp [hx]
      · simp [hy]
    | some nd =>
      by_cases hy : x = y
      · subst hy; simp [hx]
      · have : ¬ y = x := fun e => hy e.symm
        simp [hy, this]

@[simp] theorem setPrev_lists (h : LHeap) (p v : Option Nat) : (h.setPrev p v).lists = h.lists := by
  unfold setPrev
  cases p with
  | none => rfl
  | some x =>
    simp only
    cases hx : h.nodes x <;> rfl

@[simp] theorem setNext_lists (h : LHeap) (p v : Option Nat) : (h.setNext p v).lists = h.lists := by
  unfold setNext
  cases p with
  | none => rfl
  | some x =>
    simp only
    cases hx : h.nodes x <;> rfl

/-! ### members of a well-formed list -/

theorem Repr.node_of_mem {h : LHeap} {L : Nat} {l : List Nat} (r : Repr h L l) (x : Nat) (hx : x ∈ l) :
    ∃ nd, h.nodes x = some nd ∧ nd.parent = some L := by
  obtain ⟨i, hi, e⟩ := List.getElem_of_mem hx
  have := r.link i x (by rw [List.getElem?_eq_getElem hi, e])
  exact ⟨_, this, rfl⟩

/-- a node is in at most one list -/
theorem GInv.disjoint {h : LHeap} {abs : Nat → Option (List Nat)} (g : GInv h abs) (L1 L2 : Nat) (l1 l2 : List Nat)
    (h1 : abs L1 = some l1) (h2 : abs L2 = some l2) (x : Nat) (x1 : x ∈ l1) (x2 : x ∈ l2) : L1 = L2 := by
  obtain ⟨n1, e1, p1⟩ := (g.repr L1 l1 h1).node_of_mem x x1
  obtain ⟨n2, e2, p2⟩ := (g.repr L2 l2 h2).node_of_mem x x2
  rw [e1] at e2; cases e2
  rw [p1] at p2; exact Option.some.inj p2

/-- **frame rule**: an operation that rewrites list `L` and touches only nodes of `L` or of no list keeps every
    other list as it was -/
theorem ginv_update (h h' : LHeap) (abs : Nat → Option (List Nat)) (L : Nat) (l l' : List Nat) (touched : Nat → Prop)
    (g : GInv h abs) (hl : abs L = some l)
    (hlists : ∀ L', L' ≠ L → h'.lists L' = h.lists L')
    (hframe : ∀ y, ¬ touched y → h'.nodes y = h.nodes y)
    (htouched : ∀ y, touched y → y ∈ l ∨ ∀ L2 l2, abs L2 = some l2 → y ∉ l2)
    (hrepr : Repr h' L l')
    (hown : ∀ y, touched y → y ∈ l' ∨ ∀ nd, h'.nodes y = some nd → nd.parent = none)
    (hkeep : ∀ y, y ∈ l → ¬ touched y → y ∈ l') :
    GInv h' (fun L' => if L' = L then some l' else abs L') := by
  refine ⟨?_, ?_, ?_⟩
  · intro L'
    by_cases hL : L' = L
    · subst hL; simp [hrepr.hdr]
    · simp only [hL, ↓reduceIte]; rw [hlists L' hL]; exact g.lists L'
  · intro L' l2 h2
    by_cases hL : L' = L
    · subst hL; simp only [↓reduceIte, Option.some.injEq] at h2; subst h2; exact hrepr
    · simp only [hL, ↓reduceIte] at h2
      have r2 := g.repr L' l2 h2
      refine ⟨by rw [hlists L' hL]; exact r2.hdr, r2.nodup, ?_⟩
      intro i x hx
      have hxm : x ∈ l2 := List.mem_of_getElem? hx
      have hnt : ¬ touched x := by
        intro ht
        rcases htouched x ht with hin | hnone
        · exact hL (g.disjoint L' L l2 l h2 hl x hxm hin)
        · exact hnone L' l2 h2 hxm
      rw [hframe x hnt]; exact r2.link i x hx
  · intro x nd L2 hx hp
    by_cases ht : touched x
    · rcases hown x ht with hin | hnone
      · obtain ⟨nd', e', p'⟩ := hrepr.node_of_mem x hin
        rw [hx] at e'; cases e'
        rw [hp] at p'; cases p'
        exact ⟨l', by simp, hin⟩
      · have := hnone nd hx; rw [hp] at this; cases this
    · rw [hframe x ht] at hx
      obtain ⟨l2, a2, m2⟩ := g.owner x nd L2 hx hp
      by_cases hL : L2 = L
      · subst hL
        rw [hl] at a2; cases a2
        exact ⟨l', by simp, hkeep x m2 ht⟩
      · exact ⟨l2, by simp [hL, a2], m2⟩

/-! ### iteration -/

theorem walkNext_repr (h : LHeap) (L : Nat) (l : List Nat) (r : Repr h L l) (fuel i : Nat) :
    walkNext h fuel l[i]? = (l.drop i).take fuel := by
  induction fuel generalizing i with
  | zero => simp [walkNext]
  | succ f ih =>
    cases hx : l[i]? with
    | none =>
      have : l.length ≤ i := by
        by_cases hh : i < l.length
        · rw [List.getElem?_eq_getElem hh] at hx; cases hx
        · omega
      rw [List.drop_of_length_le this]; simp [walkNext]
    | some x =>
      have hi : i < l.length := by
        by_cases hh : i < l.length
        · exact hh
        · rw [List.getElem?_eq_none (by omega)] at hx; cases hx
      have hn := r.link i x hx
      unfold walkNext
      rw [hn]
      simp only [Option.bind_some]
      rw [ih (i + 1)]
      have : l.drop i = x :: l.drop (i + 1) := by
        rw [← List.getElem_cons_drop hi]
        rw [List.getElem?_eq_getElem hi] at hx; cases hx; rfl
      rw [this, List.take_succ_cons]

/-- forward iteration (`first`, `next`, …) yields the sequence -/
theorem forward_repr (h : LHeap) (L : Nat) (l : List Nat) (r : Repr h L l) (fuel : Nat) (hf : l.length ≤ fuel) :
    forward h L fuel = l := by
  unfold forward
  rw [r.hdr]
  simp only [Option.bind_some]
  have := walkNext_repr h L l r fuel 0
  rw [List.head?_eq_getElem?, this, List.drop_zero, List.take_of_length_le hf]

theorem walkPrev_repr (h : LHeap) (L : Nat) (l : List Nat) (r : Repr h L l) (fuel i : Nat) (hi : i < l.length) :
    walkPrev h fuel l[i]? = ((l.take (i + 1)).reverse).take fuel := by
  induction fuel generalizing i with
  | zero => simp [walkPrev]
  | succ f ih =>
    have hx : l[i]? = some l[i] := List.getElem?_eq_getElem hi
    have hn := r.link i l[i] hx
    rw [hx]
    unfold walkPrev
    rw [hn]
    simp only [Option.bind_some]
    have ht : l.take (i + 1) = l.take i ++ [l[i]] := by rw [List.take_succ_eq_append_getElem hi]
    rw [ht, List.reverse_append, List.reverse_singleton, List.singleton_append, List.take_succ_cons]
    congr 1
    by_cases h0 : i = 0
    · subst h0; simp [walkPrev]
      cases f <;> simp [walkPrev]
    · rw [if_neg h0]
      have := ih (i - 1) (by omega)
      rw [show i - 1 + 1 = i by omega] at this
      exact this

/-- backward iteration (`last`, `prev`, …) yields the reversed sequence -/
theorem backward_repr (h : LHeap) (L : Nat) (l : List Nat) (r : Repr h L l) (fuel : Nat) (hf : l.length ≤ fuel) :
    backward h L fuel = l.reverse := by
  unfold backward
  rw [r.hdr]
  simp only [Option.bind_some]
  cases hl : l with
  | nil => cases fuel <;> simp [walkPrev]
  | cons a t =>
    have hne : l ≠ [] := by rw [hl]; simp
    have hlast : l.getLast? = l[l.length - 1]? := by rw [List.getLast?_eq_getElem?]
    rw [← hl, hlast]
    have hpos : 0 < l.length := List.length_pos_iff.2 hne
    rw [walkPrev_repr h L l r fuel (l.length - 1) (by omega), show l.length - 1 + 1 = l.length by omega,
      List.take_length, List.take_of_length_le (by simp; exact hf)]

end Cares.Dsa.LHeap
