import CaresLemmas.ClientWalk
import CaresLemmas.ChanWfContract
/-!
# Pure facts about `applyActs` / `walkFrom` and the client contract, as needed by the refinement proof

* `applyActs` against `sends` / `hasFinish` (the counting functions of the C01 client contract);
* `foldC`: `walkFrom` that also returns the client record, with its one-more-completion equation `foldC_snoc`;
* two additions to the client contract of `ChanWfContract`: the id is kept unconditionally (`clientOnCb_id`), and a
  completion that leaves at least one more sub-request outstanding starts nothing and does not finish
  (`clientOnCb_quiet`: with `outstanding ≥ 2` the actions are `.noRetry` only).
-/
namespace Cares.Chan
open Cares.ClientWalk

/-! ### `applyActs` -/

theorem hasFinish_app (l1 l2 : List ClientAct) : hasFinish (l1 ++ l2) = (hasFinish l1 || hasFinish l2) := by
  induction l1 with
  | nil => rfl
  | cons x r ih => cases x <;> simp [hasFinish, ih]

theorem sends_app (l1 l2 : List ClientAct) (h : hasFinish l1 = false) : sends (l1 ++ l2) = sends l1 + sends l2 := by
  induction l1 with
  | nil => simp [sends]
  | cons x r ih =>
    cases x with
    | send _ => simp only [List.cons_append, sends, ih h]; omega
    | sendSlot _ _ => simp only [List.cons_append, sends, ih h]; omega
    | noRetry _ => exact ih h
    | finish _ _ _ => simp [hasFinish] at h

theorem applyActs_sent_len (l : List ClientAct) (w : Walk) : (applyActs l w).sent.length = w.sent.length + sends l := by
  induction l generalizing w with
  | nil => rfl
  | cons x r ih =>
    cases x with
    | send _ => simp only [applyActs, ih, sends, List.length_append, List.length_singleton]; omega
    | sendSlot _ _ => simp only [applyActs, ih, sends, List.length_append, List.length_singleton]; omega
    | noRetry _ => exact ih w
    | finish _ _ _ => rfl

theorem applyActs_fin_some (l : List ClientAct) (w : Walk) (h : hasFinish l = true) : (applyActs l w).fin.isSome = true := by
  induction l generalizing w with
  | nil => cases h
  | cons x r ih =>
    cases x with
    | send _ => exact ih _ h
    | sendSlot _ _ => exact ih _ h
    | noRetry _ => exact ih _ h
    | finish _ _ _ => rfl

theorem applyActs_fin_keep (l : List ClientAct) (w : Walk) (h : hasFinish l = false) : (applyActs l w).fin = w.fin := by
  induction l generalizing w with
  | nil => rfl
  | cons x r ih =>
    cases x with
    | send _ => exact ih _ h
    | sendSlot _ _ => exact ih _ h
    | noRetry _ => exact ih _ h
    | finish _ _ _ => simp [hasFinish] at h

theorem applyActs_fin_mono (l : List ClientAct) (w : Walk) (h : w.fin.isSome = true) : (applyActs l w).fin.isSome = true := by
  cases hf : hasFinish l with
  | true => exact applyActs_fin_some l w hf
  | false => rw [applyActs_fin_keep l w hf]; exact h

theorem applyActs_app (l1 l2 : List ClientAct) (w : Walk) (h : hasFinish l1 = false) :
    applyActs (l1 ++ l2) w = applyActs l2 (applyActs l1 w) := by
  induction l1 generalizing w with
  | nil => rfl
  | cons x r ih =>
    cases x with
    | send _ => exact ih _ h
    | sendSlot _ _ => exact ih _ h
    | noRetry _ => exact ih _ h
    | finish _ _ _ => simp [hasFinish] at h

/-- nothing the outside sees: no sub-request started, no completion -/
def Quiet (l : List ClientAct) : Prop := sends l = 0 ∧ hasFinish l = false

instance (l : List ClientAct) : Decidable (Quiet l) := by unfold Quiet; infer_instance

theorem Quiet.nil : Quiet [] := ⟨rfl, rfl⟩

theorem applyActs_quiet (l : List ClientAct) (w : Walk) (h : Quiet l) : applyActs l w = w := by
  induction l generalizing w with
  | nil => rfl
  | cons x r ih =>
    cases x with
    | send _ => simp [Quiet, sends] at h
    | sendSlot _ _ => simp [Quiet, sends] at h
    | noRetry _ => exact ih w h
    | finish _ _ _ => simp [Quiet, hasFinish] at h

theorem applyActs_quiet_app (l1 l2 : List ClientAct) (w : Walk) (h : Quiet l1) : applyActs (l1 ++ l2) w = applyActs l2 w := by
  rw [applyActs_app l1 l2 w h.2, applyActs_quiet l1 w h]

theorem Quiet.app {l1 l2 : List ClientAct} (h1 : Quiet l1) (h2 : Quiet l2) : Quiet (l1 ++ l2) :=
  ⟨by rw [sends_app _ _ h1.2, h1.1, h2.1], by rw [hasFinish_app, h1.2, h2.2]; rfl⟩

theorem quiet_noRetry_cons (q : Nat) (l : List ClientAct) : Quiet (.noRetry q :: l) ↔ Quiet l := Iff.rfl

/-- an action that is neither a send nor the completion can be dropped anywhere -/
theorem applyActs_mid_noRetry (p r : List ClientAct) (q : Nat) (w : Walk) :
    applyActs (p ++ .noRetry q :: r) w = applyActs (p ++ r) w := by
  induction p generalizing w with
  | nil => rfl
  | cons x t ih =>
    cases x with
    | send _ => exact ih _
    | sendSlot _ _ => exact ih _
    | noRetry _ => exact ih _
    | finish _ _ _ => rfl

/-! ### the fold with its client record -/

/-- `walkFrom` returning the client record as well -/
def foldC (cfg : Cfg) : Client → List Ev → Walk → Client × Walk
  | c, [], w => (c, w)
  | c, e :: es, w =>
    if w.fin.isSome then (c, w) else
    let r := clientOnCb cfg (setQids c e.qids) e.st e.timeouts e.reply
    foldC cfg r.1 es (applyActs r.2 w)

theorem foldC_snd (cfg : Cfg) (c : Client) (evs : List Ev) (w : Walk) : (foldC cfg c evs w).2 = walkFrom cfg c evs w := by
  induction evs generalizing c w with
  | nil => rfl
  | cons e es ih =>
    unfold foldC walkFrom
    split
    · rfl
    · exact ih _ _

theorem foldC_fin (cfg : Cfg) (c : Client) (evs : List Ev) (w : Walk) (h : w.fin.isSome = true) : foldC cfg c evs w = (c, w) := by
  cases evs with
  | nil => rfl
  | cons e es => simp [foldC, h]

/-- one more completion at the end -/
theorem foldC_snoc (cfg : Cfg) (c : Client) (evs : List Ev) (e : Ev) (w : Walk) :
    foldC cfg c (evs ++ [e]) w =
      if (foldC cfg c evs w).2.fin.isSome then foldC cfg c evs w
      else ((clientOnCb cfg (setQids (foldC cfg c evs w).1 e.qids) e.st e.timeouts e.reply).1,
            applyActs (clientOnCb cfg (setQids (foldC cfg c evs w).1 e.qids) e.st e.timeouts e.reply).2
              (foldC cfg c evs w).2) := by
  induction evs generalizing c w with
  | nil => by_cases h : w.fin.isSome = true <;> simp [foldC, h]
  | cons x xs ih =>
    by_cases h : w.fin.isSome = true
    · simp [foldC, h]
    · simp only [List.cons_append, foldC, h, Bool.false_eq_true, ↓reduceIte]
      exact ih _ _

/-! ### additions to the client contract -/

theorem outstanding_setQids (c : Client) (q : Option (Nat × Nat)) : (setQids c q).outstanding = c.outstanding := by
  cases q with
  | none => rfl
  | some p => rfl

theorem id_setQids (c : Client) (q : Option (Nat × Nat)) : (setQids c q).id = c.id := by
  cases q with
  | none => rfl
  | some p => rfl

/-- the completion callback never changes the compound request's id -/
theorem clientOnCb_id (cfg : Cfg) (c : Client) (st : Status) (t : Nat) (rec : Option Reply) :
    (clientOnCb cfg c st t rec).1.id = c.id := by
  by_cases hg : c.kind = "gai"
  · unfold clientOnCb
    simp only [hg, beq_self_eq_true, ↓reduceIte]
    rw [gaiOnCb_eq]
    obtain ⟨p1, p2, p3, _, p5, p6⟩ :=
      gaiParse_ok { c with timeouts := c.timeouts + t, remaining := c.remaining - 1 } (gaiStatus st rec) rec
    generalize gaiParse { c with timeouts := c.timeouts + t, remaining := c.remaining - 1 }
      (gaiStatus st rec) rec = x at p1 p2 p3 p5 p6
    obtain ⟨c1, addinfo, acts⟩ := x
    exact (gaiTail_ok cfg (gaiStatus st rec) c c1 addinfo acts (p1.trans hg) p2 p3 p5 p6).1.2.1
  · have hg' : (c.kind == "gai") = false := by simpa using hg
    exact (clientOnCb_ok cfg c st t rec (by rw [outstanding_other hg']; exact Nat.le_refl 1)).id

/-- a completion that leaves another sub-request outstanding starts nothing and does not complete the request -/
theorem clientOnCb_quiet (cfg : Cfg) (c : Client) (st : Status) (t : Nat) (rec : Option Reply)
    (h : 2 ≤ c.outstanding) : Quiet (clientOnCb cfg c st t rec).2 := by
  by_cases hg : c.kind = "gai"
  · rw [outstanding_gai hg] at h
    unfold clientOnCb
    simp only [hg, beq_self_eq_true, ↓reduceIte]
    rw [gaiOnCb_eq]
    obtain ⟨_, _, _, p4, p5, p6⟩ :=
      gaiParse_ok { c with timeouts := c.timeouts + t, remaining := c.remaining - 1 } (gaiStatus st rec) rec
    generalize gaiParse { c with timeouts := c.timeouts + t, remaining := c.remaining - 1 }
      (gaiStatus st rec) rec = x at p4 p5 p6
    obtain ⟨c1, addinfo, acts⟩ := x
    simp only at p4 p5 p6
    have hr : (c1.remaining != 0) = true := by simp only [bne_iff_ne, ne_eq]; omega
    unfold gaiTail
    simp only [hr, ↓reduceIte]
    exact ⟨p6, p5⟩
  · have hg' : (c.kind == "gai") = false := by simpa using hg
    rw [outstanding_other hg'] at h
    omega

end Cares.Chan
