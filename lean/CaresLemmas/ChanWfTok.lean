import CaresLemmas.ChanWfFree
/-!
# C01 — the token accounting steps: a user callback is made; a reaction allocates a fresh token
-/
namespace Cares.Chan

/-- `St.userCallback` on the skeleton -/
def Sk.userCb (a : Sk) (tok : Nat) : Sk :=
  { a with pendingToks := a.pendingToks.erase tok, doneToks := a.doneToks ++ [tok] }

/-- a reaction of kind `send` takes the next token -/
def Sk.newTok (a : Sk) : Sk :=
  { a with reactSeq := a.reactSeq + 1, pendingToks := a.pendingToks ++ [10000 + a.reactSeq] }

section
variable {a : Sk} {tok : Nat}

theorem wf_userCb (h : WfS a none) (hp : tok ∈ a.pendingToks)
    (hq : ∀ p ∈ a.qKO, p.1 ∈ a.idx → p.2 ≠ .user tok)
    (hc : ∀ c ∈ a.clients, c.tok = tok → a.NoSub c.id) : WfS (a.userCb tok) none := by
  have ht := h.tok
  have me : ∀ t, t ∈ a.pendingToks.erase tok ↔ t ≠ tok ∧ t ∈ a.pendingToks :=
    fun t => List.Nodup.mem_erase_iff ht.pN
  refine ⟨h.q, h.i, h.t, h.c, h.s, h.k, ?_⟩
  show WfTokP a.qKO a.idx a.clients (a.pendingToks.erase tok) (a.doneToks ++ [tok]) a.reactSeq
  constructor
  · exact ht.pN.erase tok
  · rw [List.nodup_append]
    refine ⟨ht.dN, by simp, fun x hx y hy => ?_⟩
    rw [List.mem_singleton] at hy
    rw [hy]
    exact fun he => ht.disj tok hp (he ▸ hx)
  · intro t hm hd
    obtain ⟨hne, hm'⟩ := (me t).mp hm
    rcases List.mem_append.mp hd with hd | hd
    · exact ht.disj t hm' hd
    · exact hne (List.mem_singleton.mp hd)
  · intro t hm; exact ht.pB t ((me t).mp hm).2
  · intro t hm
    rcases List.mem_append.mp hm with hd | hd
    · exact ht.dB t hd
    · rw [List.mem_singleton.mp hd]; exact ht.pB tok hp
  · intro p hpm hpi tok' ho
    obtain ⟨h1, h2, h3⟩ := ht.tQ p hpm hpi tok' ho
    refine ⟨(me tok').mpr ⟨fun he => hq p hpm hpi (he ▸ ho), h1⟩, h2, h3⟩
  · intro p hpm hpi id ho
    obtain ⟨c, hcm, hcid, hcp⟩ := ht.tC p hpm hpi id ho
    refine ⟨c, hcm, hcid, (me c.tok).mpr ⟨fun he => ?_, hcp⟩⟩
    exact hc c hcm he p hpm hpi (hcid ▸ ho)
  · intro c hcm
    rcases ht.tK c hcm with hk | hk
    · by_cases he : c.tok = tok
      · exact Or.inr (List.mem_append.mpr (Or.inr (List.mem_singleton.mpr he)))
      · exact Or.inl ((me c.tok).mpr ⟨he, hk⟩)
    · exact Or.inr (List.mem_append.mpr (Or.inl hk))
  · intro c hcm c' hcm' he hpe
    exact ht.tKU c hcm c' hcm' he ((me c.tok).mp hpe).2

theorem debt_userCb {x d} (h : WfS a none) (hd : DebtOk x d a) : DebtOk x d (a.userCb tok) :=
  ⟨hd.fresh, fun c hc hp hx => hd.cnt c hc ((List.Nodup.mem_erase_iff h.tok.pN).mp hp).2 hx⟩

/-- the compound request whose bookkeeping is not settled (it is completing) holds the token being called
    back, so after the callback it is no longer active and the debt invariant holds without exception -/
theorem debt_userCb' {x d} (h : WfS a none) (hd : DebtOk x d a) (hx : ∀ c ∈ a.clients, some c.id = x → c.tok = tok) :
    DebtOk none d (a.userCb tok) :=
  ⟨hd.fresh, fun c hc hp _ => by
    have hm := (List.Nodup.mem_erase_iff h.tok.pN).mp hp
    exact hd.cnt c hc hm.2 (fun he => hm.1 (hx c hc he))⟩

theorem step_userCb {xf xi d} (h : WfS a none) (hz : ∀ c ∈ a.clients, c.tok = tok → d c.id = 0) :
    StepS xf xi d a (a.userCb tok) where
  faults := rfl
  kMono := Nat.le_refl _
  keyMono := Nat.le_refl _
  idxNew := fun _ hx => Or.inl hx
  unl := fun _ q hm _ => ⟨q, hm, fun _ hx => hx⟩
  orphan := fun _ _ _ hn => hn
  debtAlive := fun id ha hpos => by
    obtain ⟨c, hc, hid, hp⟩ := ha
    refine ⟨c, hc, hid, (List.Nodup.mem_erase_iff h.tok.pN).mpr ⟨fun he => ?_, hp⟩⟩
    have := hz c hc he
    rw [hid] at this; omega
  prog := ProgS.of_same (fun _ h => List.mem_append.mpr (Or.inl h)) rfl rfl rfl rfl rfl

end

section
variable {a : Sk}

theorem wf_newTok (h : WfS a none) : WfS a.newTok none := by
  have ht := h.tok
  refine ⟨h.q, h.i, h.t, h.c, h.s, h.k, ?_⟩
  show WfTokP a.qKO a.idx a.clients (a.pendingToks ++ [10000 + a.reactSeq]) a.doneToks (a.reactSeq + 1)
  have hnp : 10000 + a.reactSeq ∉ a.pendingToks := fun hm => by have := ht.pB _ hm; omega
  have hnd : 10000 + a.reactSeq ∉ a.doneToks := fun hm => by have := ht.dB _ hm; omega
  constructor
  · rw [List.nodup_append]
    refine ⟨ht.pN, by simp, fun x hx y hy => ?_⟩
    rw [List.mem_singleton.mp hy]; exact fun he => hnp (he ▸ hx)
  · exact ht.dN
  · intro t hm
    rcases List.mem_append.mp hm with hm | hm
    · exact ht.disj t hm
    · rw [List.mem_singleton.mp hm]; exact hnd
  · intro t hm
    rcases List.mem_append.mp hm with hm | hm
    · have := ht.pB t hm; omega
    · rw [List.mem_singleton.mp hm]; omega
  · intro t hm; have := ht.dB t hm; omega
  · intro p hpm hpi tok ho
    obtain ⟨h1, h2, h3⟩ := ht.tQ p hpm hpi tok ho
    exact ⟨List.mem_append.mpr (Or.inl h1), h2, h3⟩
  · intro p hpm hpi id ho
    obtain ⟨c, hcm, hcid, hcp⟩ := ht.tC p hpm hpi id ho
    exact ⟨c, hcm, hcid, List.mem_append.mpr (Or.inl hcp)⟩
  · intro c hcm
    rcases ht.tK c hcm with hk | hk
    · exact Or.inl (List.mem_append.mpr (Or.inl hk))
    · exact Or.inr hk
  · intro c hcm c' hcm' he hpe
    rcases List.mem_append.mp hpe with hpe | hpe
    · exact ht.tKU c hcm c' hcm' he hpe
    · exfalso
      have := List.mem_singleton.mp hpe
      rcases ht.tK c hcm with hk | hk
      · exact hnp (this ▸ hk)
      · exact hnd (this ▸ hk)

/-- no compound request holds the fresh token -/
theorem newTok_client_ne (h : WfS a none) : ∀ c ∈ a.clients, c.tok ≠ 10000 + a.reactSeq := by
  intro c hcm he
  rcases h.tok.tK c hcm with hk | hk
  · have := h.tok.pB _ hk; omega
  · have := h.tok.dB _ hk; omega

theorem ownerFree_newTok (h : WfS a none) : a.newTok.OwnerFree (.user (10000 + a.reactSeq)) := by
  refine ⟨List.mem_append.mpr (Or.inr (List.mem_singleton.mpr rfl)), fun p hpm hpi ho => ?_, newTok_client_ne h⟩
  have := (h.tok.tQ p hpm hpi _ ho).1
  have := h.tok.pB _ this; omega

theorem debt_newTok {x d} (h : WfS a none) (hd : DebtOk x d a) : DebtOk x d a.newTok :=
  ⟨hd.fresh, fun c hc hp hx => by
    rcases List.mem_append.mp hp with hp | hp
    · exact hd.cnt c hc hp hx
    · exact absurd (List.mem_singleton.mp hp) (newTok_client_ne h c hc)⟩

theorem step_newTok {xf xi d} : StepS xf xi d a a.newTok where
  faults := rfl
  kMono := Nat.le_refl _
  keyMono := Nat.le_refl _
  idxNew := fun _ hx => Or.inl hx
  unl := fun _ q hm _ => ⟨q, hm, fun _ hx => hx⟩
  orphan := fun _ _ _ hn => hn
  debtAlive := fun id ha _ => by
    obtain ⟨c, hc, hid, hp⟩ := ha
    exact ⟨c, hc, hid, List.mem_append.mpr (Or.inl hp)⟩
  prog := ProgS.of_same (fun _ h => h) rfl rfl rfl rfl rfl

end

end Cares.Chan
