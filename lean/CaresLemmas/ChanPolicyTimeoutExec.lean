import CaresLemmas.ChanPolicyTimeout
/-!
# `exec` keeps the by-timeout index well-formed (`BT`)
-/
namespace Cares.Chan
set_option linter.unusedVariables false

section
variable {s0 : St}
chan_invariant bt : (BTR s0) oofBy (fun _ h => h)
  leafBy (repeat' (first
                  | btr_step hgo
                  | with_reducible apply sqChoose_bt hgo
                  | with_reducible apply sqOpen_bt hgo
                  | with_reducible apply sqPrep_bt hgo
                  | with_reducible apply sqWrite_bt hgo
                  | with_reducible apply sqDeadline_bt hgo
                  | with_reducible apply sqAfter_bt hgo
                  | (with_reducible apply foldl_inv; intro _ _ _)))
  exceptBodies sqCommit
end

/-- the index stays well-formed across any procedure run -/
theorem exec_BT (fuel : Nat) (c : Call) (s : St) (h : BT s) : BT (exec fuel c s).1 :=
  (exec_bt (s0 := s) fuel c s ⟨h, Stay.refl s⟩).1

end Cares.Chan
