import CaresLemmas.ChanPolicyWritesSt
import CaresLemmas.ChanPolicyFrameExec
/-!
# C06 — `exec` keeps the write accounting (`CInv`)
-/
namespace Cares.Chan
set_option linter.unusedVariables false

/-! ### `ares_conn_flush` touches neither the queries (beyond the spelling of their names) nor the connection kinds -/

/-- `s` is `s0` up to the spelling of query names, as far as the accounting projection sees (or out of fuel) -/
def FlushRel (s0 s : St) : Prop :=
  (s0.outOfFuel = true → s.outOfFuel = true) ∧
  (s.outOfFuel = true ∨ ∃ g, NameOnly g ∧ cproj s = { cproj s0 with qs := s0.qs.map g })

theorem FlushRel.refl (s : St) : FlushRel s s := ⟨fun h => h, Or.inr ⟨_, NameOnly.id, (cproj_map_id s).symm⟩⟩

section
variable {s0 : St}

theorem FlushRel.congr {s s' : St} (h0 : s'.cfg = s.cfg) (h1 : cproj s' = cproj s) (h2 : s'.outOfFuel = s.outOfFuel)
    (h : FlushRel s0 s) : FlushRel s0 s' := by
  unfold FlushRel at *; rw [h1, h2]; exact h

theorem FlushRel.mapQs {s s' : St} {g : Query → Query} (hg : NameOnly g)
    (h1 : cproj s' = { cproj s with qs := s.qs.map g }) (h2 : s'.outOfFuel = s.outOfFuel) (h : FlushRel s0 s) :
    FlushRel s0 s' := by
  obtain ⟨ha, hb⟩ := h
  refine ⟨fun h => by rw [h2]; exact ha h, ?_⟩
  rcases hb with hb | ⟨g0, hg0, e0⟩
  · exact Or.inl (by rw [h2]; exact hb)
  · right
    refine ⟨g ∘ g0, hg.comp hg0, ?_⟩
    have hq : s.qs = s0.qs.map g0 := by have := congrArg CP.qs e0; exact this
    rw [h1, hq, e0]; simp [List.map_map]

theorem FlushRel.recordTx {s : St} {fd : Nat} {tcp : Bool} {f : OutFrame} (h : FlushRel s0 s) :
    FlushRel s0 (s.recordTx fd tcp f) := by
  obtain ⟨g, hg, e, ho⟩ := cproj_recordTx s fd tcp f
  exact FlushRel.mapQs hg e ho h

theorem FlushRel.advanceOut {s : St} {fuel fd n : Nat} (h : FlushRel s0 s) :
    FlushRel s0 (Cares.Chan.advanceOut fuel fd s n) := by
  obtain ⟨g, hg, e, ho⟩ := cproj_advanceOut fuel fd s n
  exact FlushRel.mapQs hg e ho h

theorem FlushRel.modConn {s : St} {fd : Nat} {f : Conn → Conn} (hf : ∀ c, (f c).fd = c.fd ∧ (f c).tcp = c.tcp)
    (h : FlushRel s0 s) : FlushRel s0 (s.modConn fd f) :=
  FlushRel.congr (s := s) rfl (cproj_modConn s fd f hf) rfl h

theorem FlushRel.notify {s : St} {fd : Nat} {r w : Bool} (h : FlushRel s0 s) : FlushRel s0 (s.notify fd r w) := by
  unfold St.notify
  split
  · exact h
  · split
    · exact FlushRel.congr (s := s.modConn fd _) rfl rfl rfl (FlushRel.modConn (fun _ => ⟨rfl, rfl⟩) h)
    · exact FlushRel.modConn (fun _ => ⟨rfl, rfl⟩) h

chan_simple_lemmas FlushRel : (FlushRel s0) =>
  emit slog ofault mfault setSock modSock modClient cacheExpire
end

macro "fl_congr" : tactic => `(tactic| (
  refine FlushRel.congr (s := ?s0) ?h0 ?h1 ?h2 ?hI
  case h0 => (dsimp only; exact rfl)
  case h1 => exact rfl
  case h2 => exact rfl))

macro "fl_spec" : tactic => `(tactic| first
  | with_reducible apply FlushRel.recordTx
  | with_reducible apply FlushRel.advanceOut
  | with_reducible apply FlushRel.notify
  | (with_reducible refine FlushRel.modConn ?hf ?hI; case hf => (intro _; exact ⟨rfl, rfl⟩))
  | with_reducible (first
      | apply FlushRel.emit | apply FlushRel.slog | apply FlushRel.ofault | apply FlushRel.mfault
      | apply FlushRel.setSock | apply FlushRel.modSock | apply FlushRel.modClient | apply FlushRel.cacheExpire))

theorem bodyFlush_rel {go : Call → St → St × Ret} {s0 : St}
    (hgo' : ∀ fd s, FlushRel s0 s → FlushRel s0 (go (.flush fd) s).1)
    (fd : Nat) (s : St) (h : FlushRel s0 s) : FlushRel s0 (bodyFlush go fd s).1 := by
  unfold bodyFlush
  chan_paths
  all_goals (repeat' (first
              | assumption
              | with_reducible apply hgo'
              | (with_reducible apply pair_fst; assumption)
              | (with_reducible apply pair_snd; assumption)
              | fl_spec
              | with_reducible chan_elim
              | fl_congr
              | unfold_state_let
              | split))

/-- **flush frame**: a flush (any fuel) changes nothing the accounting reads except the spelling of query names -/
theorem exec_flush_rel (fuel : Nat) (fd : Nat) (s0 s : St) (h : FlushRel s0 s) :
    FlushRel s0 (exec fuel (.flush fd) s).1 := by
  induction fuel generalizing fd s with
  | zero => exact ⟨fun _ => rfl, Or.inl rfl⟩
  | succ n ih =>
    show FlushRel s0 (bodyFlush (exec n) fd s).1
    exact bodyFlush_rel (fun fd s h => ih fd s h) fd s h

/-! ### preconditions per call, and what is known about the calls a body makes -/

/-- `sendQuery key` needs a write credit for `key`; `requeue key` without `inc_try_count` (the BADCOOKIE path) needs a
    credit and may find the query not yet detached; every other call needs the plain invariant -/
def PreC (tr ns : Nat) : Call → St → Prop
  | .sendQuery _ key, s => CInv tr ns (some key) none s
  | .requeue key _ inc _ _, s => if inc = true then CInv tr ns none none s else CInv tr ns (some key) (some key) s
  | _, s => CInv tr ns none none s

structure GoC (tr ns : Nat) (go : Call → St → St × Ret) : Prop where
  inv : ∀ c s, PreC tr ns c s → CInv tr ns none none (go c s).1
  flush : ∀ fd s0 s, FlushRel s0 s → FlushRel s0 (go (.flush fd) s).1
  oof : ∀ c s, s.outOfFuel = true → (go c s).1.outOfFuel = true

section
variable {tr ns : Nat} {cw ex : Option Nat}

theorem CInv.ofFlush {s r : St} (h : CInv tr ns cw ex s) (hf : FlushRel s r) : CInv tr ns cw ex r := by
  rcases h with h | h
  · exact Or.inl (hf.1 h)
  · rcases hf.2 with hr | ⟨g, hg, e⟩
    · exact Or.inl hr
    · right; rw [e]; exact COk.mapQs (coreEq_nameOnly hg) h

/-- every plain state satisfies the precondition of a `requeue … inc_try_count = true` -/
theorem PreC.requeueInc {key : Nat} {st : Status} {rec : Option Reply} {d : Bool} {s : St}
    (h : CInv tr ns none none s) : PreC tr ns (.requeue key st true rec d) s := h

end

/-- one backward step for the accounting invariant -/
macro "c_step " hgo:term : tactic => `(tactic| first
  | assumption
  | ((with_reducible apply GoC.inv $hgo); show CInv _ _ _ _ _)
  | (with_reducible apply pair_fst; assumption)
  | (with_reducible apply pair_snd; assumption)
  | c_spec
  | with_reducible chan_elim
  | c_congr
  | unfold_state_let
  | split)

section
variable {tr ns : Nat}

chan_invariant_go c : (CInv tr ns none none) goBy (GoC tr ns) oofBy (fun s _ => CInv.oofSt s)
  leafBy (repeat' (first
                  | c_step hgo
                  | with_reducible apply sqChoose_c hgo
                  | with_reducible apply sqDeadline_c hgo
                  | (with_reducible apply foldl_inv; intro _ _ _)))
  exceptBodies noExec sqOpen sqPrep sqWrite sqCommit sqAfter sendQueryBlocks bodySendQuery bodySendNolock bodyRequeue
    bodyProcessAnswer bodyFlushRequeue

end

end Cares.Chan
