import CaresLemmas.ClientCausalB6
/-!
# Causality — body lemmas VII: `sendQuery`

`bodySendQueryC` is written over the stages of `ChanSockBase` (`pickServer`, `fetchConn`, `openConn`, `sqPrepare`,
`sqFlushC`, `sqLinkC`); they are definitionally the pieces `sqPick`, `sqExisting`, `sqOpen`, `sqPrep`, `sqWrite`,
`sqAttachSt` of `ChanWfSendQ`, whose skeleton lemmas are used here.
-/
namespace Cares.Chan

variable {cid : Nat}

/-! ### opening a connection does not touch the queries -/

theorem qs_notify (s : St) (fd : Nat) (r w : Bool) : (s.notify fd r w).qs = s.qs := by
  unfold St.notify
  split
  · rfl
  · simp only
    split <;> rfl

theorem qs_sqOpenT (s : St) (q : Query) (srv : Server) (fd : Nat) : (sqOpenT s q srv fd).2.qs = s.qs := by
  unfold sqOpenT
  simp only
  split
  · rfl
  · unfold sqOpenD; simp only; rw [qs_notify]; rfl

theorem qs_sqOpenC (s : St) (q : Query) (srv : Server) (fd : Nat) : (sqOpenC s q srv fd).2.qs = s.qs := by
  unfold sqOpenC
  simp only
  split <;> rfl

theorem qs_sqOpen (s : St) (q : Query) (srv : Server) : (sqOpen s q srv).2.qs = s.qs := by
  unfold sqOpen
  simp only
  split
  · rfl
  · have hC := qs_sqOpenC (sqOpenA (s.fault "socket").2 q srv) q srv (s.fault "socket").2.nextFd
    generalize sqOpenC (sqOpenA (s.fault "socket").2 q srv) q srv (s.fault "socket").2.nextFd = rC at hC ⊢
    obtain ⟨f1, sC⟩ := rC
    simp only at hC ⊢
    have hA : (sqOpenA (s.fault "socket").2 q srv).qs = s.qs := rfl
    have hT := qs_sqOpenT sC q srv (s.fault "socket").2.nextFd
    cases f1 with
    | none =>
      simp only [Bool.false_eq_true, ↓reduceIte]
      rw [hT, hC, hA]
    | some e1 =>
      simp only
      split
      · show sC.qs = _; rw [hC, hA]
      · rw [hT, hC, hA]

theorem sqConn_same (s : St) (q : Query) (srv : Server) :
    (sqConn s q srv).2.sk.qKO = s.sk.qKO ∧ (sqConn s q srv).2.sk.idx = s.sk.idx := by
  unfold sqConn
  split
  · exact ⟨rfl, rfl⟩
  · constructor
    · show ((sqOpen s q srv).2.qs.map Query.sk).map _ = _
      rw [qs_sqOpen]; rfl
    · show (sqOpen s q srv).2.byQid.map _ = _
      rw [byQid_sqOpen]; rfl

/-! ### the write -/

/-- the flush decision: the skeleton is unchanged -/
theorem cz_sqFlush {goC : GoC} (h : GoCz cid goC) {d} {s : St} {fd : Nat} {L} (hw : Wf s) (hd : DebtOk none d s.sk)
    (hl : s.sk.liveConn fd) (hL : LG cid L 0 s) :
    (sqFlushC goC fd s).1.2.outOfFuel = true ∨
      ((sqFlushC goC fd s).1.2.sk = s.sk ∧ LG cid (L ++ (sqFlushC goC fd s).2) 0 (sqFlushC goC fd s).1.2) := by
  unfold sqFlushC
  simp only
  split
  · exact Or.inr ⟨rfl, by rw [List.append_nil]; exact hL⟩
  · split
    · exact Or.inr ⟨rfl, by rw [List.append_nil]; exact hL.sk_eq rfl⟩
    · rcases h.call (d := d) (c := .flush fd) (s := s) ⟨hw, hl, hd⟩ hL with hoof | ⟨hg, hL1⟩
      · exact Or.inl hoof
      · exact Or.inr ⟨hg.post, hL1⟩

/-- the query is put on the connection; a downed server may be probed -/
theorem cz_sqLink {goC : GoC} (h : GoCz cid goC) {d pd key srv fd s0 L} {s : St}
    (hm : MidL cid d s0 L s) (hki : key ∈ s.sk.idx) (hh : s.sk.hasConn fd false) :
    LGO cid L (sqLinkC goC pd key srv fd s) := by
  have hw := hm.mid.wf
  obtain ⟨q2, hq2, hq2s⟩ := query?_of_idx hw hki
  obtain ⟨c, hc⟩ := conn?_of_live (live_of_hasConn hh)
  unfold sqLinkC
  simp only [hq2, hc]
  have hsk : ((sqLinkPre key srv fd q2 s).modConn fd fun c =>
      { c with queries := c.queries.erase key ++ [key], total := c.total + 1 }).sk = s.sk.attach key fd q2.conn :=
    sk_sqAttachSt s q2 srv key fd
  generalize ((sqLinkPre key srv fd q2 s).modConn fd fun c =>
      { c with queries := c.queries.erase key ++ [key], total := c.total + 1 }) = s2 at hsk ⊢
  have hw2 : Wf s2 := by unfold Wf; rw [hsk]; exact wf_attach hw hq2s hki (cFQ_of_hasConn hh)
  have hd2 : DebtOk none d s2.sk := by rw [hsk]; exact debt_attach (e := q2.sk) hm.mid.debt
  have hL2 : LG cid L 0 s2 := hm.lg.congr (by rw [hsk]; exact attach_qKO) (by rw [hsk]; exact attach_idx)
  split
  · exact h.tail (d := d) (c := .probe srv.id key) (s := s2) ⟨hw2, hd2⟩ hL2
  · exact LGO.done hL2

/-- every way `ares_send_query` ends once a connection has been found -/
theorem cz_sqWriteQ {goC : GoC} (h : GoCz cid goC) {d reqSrv key q srv fd s0 L} {s : St}
    (hm : MidL cid d s0 L s) (hki : key ∈ s.sk.idx) (hh : s.sk.hasConn fd false) :
    LGO cid L (sqWriteQC goC reqSrv key q srv fd s) := by
  unfold sqWriteQC
  have hskp : (sqPrepare key q srv fd s).1.sk = s.sk := sk_sqPrep s q srv key fd
  have hqid : (sqPrepare key q srv fd s).2.qid = q.qid := rfl
  have hutcp : (sqPrepare key q srv fd s).2.usingTcp = q.usingTcp := rfl
  generalize sqPrepare key q srv fd s = p at hskp hqid hutcp ⊢
  obtain ⟨sp, qp⟩ := p
  simp only at hskp hqid hutcp ⊢
  have hmp : MidL cid d s0 L sp := hm.sk_eq hskp
  have hf := cz_sqFlush h (fd := fd) hmp.mid.wf hmp.mid.debt (by rw [hskp]; exact live_of_hasConn hh) hmp.lg
  generalize sqFlushC goC fd sp = f at hf ⊢
  obtain ⟨⟨wst, sw⟩, lf⟩ := f
  simp only at hf ⊢
  have hoofAll : sw.outOfFuel = true → ∀ c, (goC c sw).1.1.outOfFuel = true := fun ho c => h.oof ho
  rcases hf with hoof | ⟨hskw, hLw⟩
  · -- out of fuel in the flush: every continuation stays out of fuel
    left
    cases wst
    case ok =>
      simp only
      unfold sqLinkC
      split
      · split
        · exact h.oof (by simpa using hoof)
        · simpa using hoof
      · simpa using hoof
      · simpa using hoof
    case nomem => exact h.oof hoof
    case connrefused =>
      simp only
      split
      · exact h.oof hoof
      · exact h.oof (h.oof hoof)
    case badfamily =>
      simp only
      split
      · exact h.oof hoof
      · exact h.oof (h.oof hoof)
    all_goals exact h.oof (by simpa using hoof)
  have hmw : MidL cid d s0 (L ++ lf) sw := ⟨hmp.mid.sk_eq hskw, hLw⟩
  have hkiw : key ∈ sw.sk.idx := by rw [hskw, hskp]; exact hki
  have hhw : sw.sk.hasConn fd false := by rw [hskw, hskp]; exact hh
  have hw := hmw.mid.wf
  -- requeue after a failed write that was not a connection error
  have other : ∀ wst' : Status,
      LGO cid (L ++ lf) (goC (.requeue key wst' true none false) (sw.incFailures srv.id qp.usingTcp)) := by
    intro wst'
    have h1 := sk_incFailures sw srv.id qp.usingTcp (server_ids_nodup hw)
    exact h.tail (d := d) (c := .requeue key wst' true none false)
      ⟨by rw [h1]; exact WfS.weaken_hole hw, by unfold Sk.Idx; rw [h1]; exact hkiw, by rw [h1]; exact hmw.mid.debt⟩
      (hmw.lg.sk_eq h1)
  -- a connection error: the connection is closed, then the query (if it survived) is requeued
  have cerr : ∀ wst' : Status, LGO cid L
      (match (((goC (.connError fd true wst') sw).1.1.byQid.find? (fun (id, k) => id == qp.qid && k == key)).bind
          (fun _ => (goC (.connError fd true wst') sw).1.1.query? key)) with
        | none => (((goC (.connError fd true wst') sw).1.1, Status.cancelled), lf ++ (goC (.connError fd true wst') sw).2)
        | some _ =>
          (((goC (.requeue key wst' true none false) (goC (.connError fd true wst') sw).1.1).1.1,
            if (goC (.requeue key wst' true none false) (goC (.connError fd true wst') sw).1.1).1.2 == .timeout
              then Status.connrefused
              else (goC (.requeue key wst' true none false) (goC (.connError fd true wst') sw).1.1).1.2),
           lf ++ (goC (.connError fd true wst') sw).2 ++
             (goC (.requeue key wst' true none false) (goC (.connError fd true wst') sw).1.1).2)) := by
    intro wst'
    have hm1 := hmw.call h (.connError fd true wst') ⟨hw, hhw, hmw.mid.debt⟩ rfl rfl rfl
    generalize goC (.connError fd true wst') sw = r1 at hm1 ⊢
    obtain ⟨⟨s1, ret1⟩, l1⟩ := r1
    simp only at hm1 ⊢
    rcases hm1 with hoof | hm1
    · left
      split
      · exact hoof
      · exact h.oof hoof
    split
    · exact LGO.seq (Or.inr hm1.lg)
    · rename_i x hx
      have hki1 : key ∈ s1.sk.idx := by
        cases hf : s1.byQid.find? (fun (p : Nat × Nat) => p.1 == qp.qid && p.2 == key) with
        | none => rw [hf] at hx; cases hx
        | some p =>
          have h1 := List.find?_some hf
          simp only [Bool.and_eq_true, beq_iff_eq] at h1
          exact List.mem_map.mpr ⟨p, List.mem_of_find?_eq_some hf, h1.2⟩
      refine LGO.seq ?_
      rw [← List.append_assoc]
      exact h.tail (d := d) (c := .requeue key wst' true none false) (s := s1)
        ⟨WfS.weaken_hole hm1.mid.wf, hki1, hm1.mid.debt⟩ hm1.lg
  cases wst
  case ok => exact LGO.seq (cz_sqLink h hmw hkiw hhw)
  case nomem =>
    exact LGO.seq (h.tail (d := d) (c := .endQuery (some srv.id) key .nomem none)
      ⟨WfS.weaken_hole hw, hkiw, hmw.mid.debt⟩ hmw.lg)
  case connrefused => exact cerr .connrefused
  case badfamily => exact cerr .badfamily
  all_goals exact LGO.seq (other _)

theorem cz_sendQuery {goC : GoC} (h : GoCz cid goC) {d reqSrv key s L} (hpre : Pre d s (.sendQuery reqSrv key))
    (hL : LG cid L (xtra cid (.sendQuery reqSrv key)) s) : LGO cid L (bodySendQueryC goC reqSrv key s) := by
  obtain ⟨hw, hki, hd⟩ := hpre
  have hL0 : LG cid L 0 s := hL
  obtain ⟨q, hq, hqs⟩ := query?_of_idx hw hki
  unfold bodySendQueryC
  simp only [hq]
  have hskP : (pickServer reqSrv s).2.sk = s.sk := sqPick_sk s reqSrv
  have hsvP : (pickServer reqSrv s).2.servers = s.servers := sqPick_servers s reqSrv
  have hmemP : ∀ {srv : Server}, (pickServer reqSrv s).1 = some srv → srv ∈ s.servers := @sqPick_mem s reqSrv
  generalize pickServer reqSrv s = P at hskP hsvP hmemP ⊢
  obtain ⟨srv?, sP⟩ := P
  simp only at hskP hsvP hmemP ⊢
  have hmP : MidL cid d s L sP := (MidL.refl hw hd hL0).sk_eq hskP
  split
  · exact h.tail (d := d) (c := .endQuery none key .noserver none)
      ⟨WfS.weaken_hole hmP.mid.wf, by unfold Sk.Idx; rw [hskP]; exact hki, hmP.mid.debt⟩ hmP.lg
  · rename_i srv
    have hsrvm : srv ∈ s.servers := hmemP rfl
    generalize hs1 : ({ sP with picks := sP.picks ++
        [(key, srv.id, reqSrv.isSome, s.sortedServers.map fun v => (v.id, v.failures))] } : St) = s1
    have hsk1 : s1.sk = s.sk := by rw [← hs1]; exact hskP
    have hsv1 : srv ∈ s1.servers := by rw [← hs1]; show srv ∈ sP.servers; rw [hsvP]; exact hsrvm
    have hm1 : MidL cid d s L s1 := (MidL.refl hw hd hL0).sk_eq hsk1
    obtain ⟨hmC, hhC, hbC⟩ := sqConn_ok (d := d) q srv hm1.mid.wf hm1.mid.debt hsv1
    obtain ⟨hqC, hiC⟩ := sqConn_same s1 q srv
    have hmC' : MidL cid d s L (sqConn s1 q srv).2 := ⟨hm1.mid.trans hmC, hm1.lg.congr hqC hiC⟩
    have hkiC : key ∈ (sqConn s1 q srv).2.sk.idx := by
      rw [hiC, hsk1]; exact hki
    show LGO cid L (match (sqConn s1 q srv).1 with
      | .error st => goC (.requeue key st true none false) ((sqConn s1 q srv).2.incFailures srv.id q.usingTcp)
      | .ok fd => sqWriteQC goC reqSrv key q srv fd (sqConn s1 q srv).2)
    generalize sqConn s1 q srv = C at hmC' hhC hkiC ⊢
    obtain ⟨res, sC⟩ := C
    simp only at hmC' hhC hkiC ⊢
    cases res with
    | error st =>
      simp only
      have h1 := sk_incFailures sC srv.id q.usingTcp (server_ids_nodup hmC'.mid.wf)
      exact h.tail (d := d) (c := .requeue key st true none false)
        ⟨by rw [h1]; exact WfS.weaken_hole hmC'.mid.wf, by unfold Sk.Idx; rw [h1]; exact hkiC,
          by rw [h1]; exact hmC'.mid.debt⟩ (hmC'.lg.sk_eq h1)
    | ok fd =>
      simp only
      exact cz_sqWriteQ h hmC' hkiC (hhC fd rfl)

end Cares.Chan
