import CaresLemmas.ChanSockUdp
import CaresLemmas.ChanSockDestroy
/-!
# No half-closed connection survives a completed call (C10, for `ares_destroy`)

`ares_close_connection` marks a connection as unlinked (`Conn.unlinked`: no longer reachable from its server) and
releases it once its queries have been requeued.  Here: unless fuel ran out, the unlinked connections after any
procedure were already unlinked before it — and `ares_requeue_queries`' loop (`closeLoop fd`) additionally removes `fd`.
-/
namespace Cares.Chan

def uflag (c : Conn) : Nat × Bool := (c.fd, c.unlinked)

/-- unless fuel ran out, every unlinked connection has its descriptor in `U` -/
def UnlF (U : List Nat) (cs : List Conn) (oof : Bool) : Prop :=
  oof = false → ∀ c ∈ cs, c.unlinked = true → c.fd ∈ U

abbrev Unl (U : List Nat) (s : St) : Prop := UnlF U s.conns s.outOfFuel

/-- the descriptor a call is in the middle of closing -/
def closing : Call → List Nat
  | .closeLoop fd _ => [fd]
  | .sendNolock .. => [] | .sendQuery .. => [] | .requeue .. => [] | .endQuery .. => [] | .callback .. => []
  | .reactions .. => [] | .closeConn .. => [] | .connError .. => [] | .flush .. => [] | .processWrite .. => []
  | .processRead .. => [] | .readAnswers .. => [] | .processAnswer .. => [] | .flushRequeue => []
  | .processTimeouts => [] | .cleanupConns .. => [] | .cancel => [] | .cancelLoop .. => [] | .destroy => []
  | .probe .. => [] | .clientStart .. => [] | .runActs .. => [] | .userCb .. => []

theorem UnlF.congr {U : List Nat} {cs cs' : List Conn} {oof : Bool} (h : UnlF U cs oof)
    (he : cs'.map uflag = cs.map uflag) : UnlF U cs' oof := by
  intro ho c hc hu
  have : uflag c ∈ cs.map uflag := by rw [← he]; exact List.mem_map_of_mem hc
  simp only [List.mem_map] at this
  obtain ⟨c0, h0, hk⟩ := this
  have h1 : c0.fd = c.fd := congrArg (·.1) hk
  have h2 : c0.unlinked = c.unlinked := congrArg (·.2) hk
  rw [← h1]; exact h ho c0 h0 (by rw [h2]; exact hu)

theorem uflags_modConn (s : St) (fd : Nat) (f : Conn → Conn) (hf : ∀ c, uflag (f c) = uflag c) :
    (s.modConn fd f).conns.map uflag = s.conns.map uflag := by
  simp only [St.modConn, List.map_map]
  apply List.map_congr_left
  intro c _
  simp only [Function.comp]
  split
  · exact hf c
  · rfl

theorem uflags_notify (s : St) (fd : Nat) (r w : Bool) : (s.notify fd r w).conns.map uflag = s.conns.map uflag := by
  unfold St.notify
  split
  · rfl
  · split <;> exact uflags_modConn _ _ _ (fun _ => rfl)

theorem uflags_removeFromConn (s : St) (k : Nat) : (s.removeFromConn k).conns.map uflag = s.conns.map uflag := by
  unfold St.removeFromConn
  split
  · rfl
  · simp only [St.modQuery_conns]
    split
    · exact uflags_modConn _ _ _ (fun _ => rfl)
    · rfl

theorem uflags_detach (s : St) (k : Nat) : (s.detach k).conns.map uflag = s.conns.map uflag := by
  unfold St.detach
  split
  · rfl
  · exact uflags_removeFromConn s k

theorem uflags_freeQuery (s : St) (k : Nat) : (s.freeQuery k).conns.map uflag = s.conns.map uflag := by
  unfold St.freeQuery; exact uflags_detach s k

theorem uflags_advanceOut : ∀ (fuel fd : Nat) (s : St) (n : Nat),
    (advanceOut fuel fd s n).conns.map uflag = s.conns.map uflag
  | 0, _, _, _ => rfl
  | fuel + 1, fd, s, n => by
    unfold advanceOut
    split
    · rfl
    · split
      · rfl
      · dsimp only
        split
        · split
          · simp only [St.recordTx_conns]; exact uflags_modConn _ _ _ (fun _ => rfl)
          · rw [uflags_advanceOut fuel]; simp only [St.recordTx_conns]; exact uflags_modConn _ _ _ (fun _ => rfl)
        · exact uflags_modConn _ _ _ (fun _ => rfl)

theorem uflags_sqPrep (key : Nat) (q : Query) (srv : Server) (fd : Nat) (s : St) :
    (sqPrepare key q srv fd s).1.conns.map uflag = s.conns.map uflag := by
  unfold sqPrepare
  simp only []
  show (St.modConn _ fd _).conns.map uflag = _
  rw [uflags_modConn]
  · simp only [chan_frame]
    repeat' split
    all_goals simp only [chan_frame]
  · intro c; rfl

theorem uflags_sqLinkPre (key : Nat) (srv : Server) (fd : Nat) (q : Query) (s : St) :
    (sqLinkPre key srv fd q s).conns.map uflag = s.conns.map uflag := by
  unfold sqLinkPre
  cases q.conn with
  | none =>
    simp only [chan_frame]
    split <;> simp only [chan_frame]
  | some old =>
    simp only [chan_frame]
    rw [uflags_modConn]
    · split <;> simp only [chan_frame]
    · intro c; rfl

/-- `ares_open_connection` adds at most one connection, which is linked -/
theorem uflags_openConn (s : St) (tcp : Bool) (srv : Server) :
    (openConn s tcp srv).2.conns.map uflag = s.conns.map uflag ∨
      (openConn s tcp srv).2.conns.map uflag = s.conns.map uflag ++ [(s.nextFd, false)] := by
  rw [openConn_eq]
  have hn : (s.fault "socket").2.nextFd = s.nextFd := St.faultsnd_nextFd s "socket"
  cases h1 : (s.fault "socket").1 with
  | some e => left; simp only [chan_frame]
  | none =>
    simp only [hn]
    generalize ((ocSock (s.fault "socket").2 tcp srv).fault "connect").1 = f2
    have hs := ocSock_fields (s.fault "socket").2 tcp srv
    simp only [chan_frame] at hs
    have h4 := ocConnect_fields ((ocSock (s.fault "socket").2 tcp srv).fault "connect").2 s.nextFd tcp srv f2
    simp only [chan_frame] at h4
    by_cases hcf : ocFail f2 = true
    · left
      simp only [hcf, ↓reduceIte]
      have h3 := ocClose_fields (ocConnect ((ocSock (s.fault "socket").2 tcp srv).fault "connect").2 s.nextFd tcp srv f2) s.nextFd
      rw [h3.1, h4.1, hs.1]
    · simp only [hcf, Bool.false_eq_true, ↓reduceIte]
      cases h3 : ((ocConnect ((ocSock (s.fault "socket").2 tcp srv).fault "connect").2 s.nextFd tcp srv f2).fault
          "getsockname").1 with
      | some e =>
        left
        simp only []
        have h5 := ocClose_fields ((ocConnect ((ocSock (s.fault "socket").2 tcp srv).fault "connect").2 s.nextFd tcp srv f2).fault
          "getsockname").2 s.nextFd
        simp only [chan_frame] at h5
        rw [h5.1, h4.1, hs.1]
      | none =>
        right
        simp only []
        unfold ocFinish
        simp only []
        rw [uflags_notify]
        simp only [chan_frame, h4.1, hs.1, List.map_append, List.map_cons, List.map_nil, uflag]

/-! ### steps -/
section
variable {U : List Nat} {oof : Bool}

theorem UnlF_modConn (s : St) (fd : Nat) (f : Conn → Conn) (hf : ∀ c, uflag (f c) = uflag c)
    (h : UnlF U s.conns oof) : UnlF U (s.modConn fd f).conns oof := h.congr (uflags_modConn s fd f hf)
theorem UnlF_notify (s : St) (fd : Nat) (r w : Bool) (h : UnlF U s.conns oof) :
    UnlF U (s.notify fd r w).conns oof := h.congr (uflags_notify s fd r w)
theorem UnlF_removeFromConn (s : St) (k : Nat) (h : UnlF U s.conns oof) :
    UnlF U (s.removeFromConn k).conns oof := h.congr (uflags_removeFromConn s k)
theorem UnlF_detach (s : St) (k : Nat) (h : UnlF U s.conns oof) :
    UnlF U (s.detach k).conns oof := h.congr (uflags_detach s k)
theorem UnlF_freeQuery (s : St) (k : Nat) (h : UnlF U s.conns oof) :
    UnlF U (s.freeQuery k).conns oof := h.congr (uflags_freeQuery s k)
theorem UnlF_advanceOut (fuel fd : Nat) (s : St) (k : Nat) (h : UnlF U s.conns oof) :
    UnlF U (advanceOut fuel fd s k).conns oof := h.congr (uflags_advanceOut fuel fd s k)
theorem UnlF_sqPrep (key : Nat) (q : Query) (srv : Server) (fd : Nat) (s : St) (h : UnlF U s.conns oof) :
    UnlF U (sqPrepare key q srv fd s).1.conns oof := h.congr (uflags_sqPrep key q srv fd s)
theorem UnlF_sqLinkPre (key : Nat) (srv : Server) (fd : Nat) (q : Query) (s : St) (h : UnlF U s.conns oof) :
    UnlF U (sqLinkPre key srv fd q s).conns oof := h.congr (uflags_sqLinkPre key srv fd q s)

theorem UnlF_openConn (s : St) (tcp : Bool) (srv : Server) (h : UnlF U s.conns oof) :
    UnlF U (openConn s tcp srv).2.conns oof := by
  rcases uflags_openConn s tcp srv with he | he
  · exact h.congr he
  · intro ho c hc hu
    have : uflag c ∈ s.conns.map uflag ++ [(s.nextFd, false)] := by rw [← he]; exact List.mem_map_of_mem hc
    simp only [List.mem_append, List.mem_map, List.mem_singleton] at this
    rcases this with ⟨c0, h0, hk⟩ | hk
    · have h1 : c0.fd = c.fd := congrArg (·.1) hk
      have h2 : c0.unlinked = c.unlinked := congrArg (·.2) hk
      rw [← h1]; exact h ho c0 h0 (by rw [h2]; exact hu)
    · have : c.unlinked = false := congrArg (·.2) hk
      rw [hu] at this; cases this

theorem UnlF_filter (cs : List Conn) (p : Conn → Bool) (h : UnlF U cs oof) : UnlF U (cs.filter p) oof :=
  fun ho c hc hu => h ho c (List.mem_filter.mp hc).1 hu

/-- fuel ran out: nothing is claimed -/
theorem UnlF_oof (cs : List Conn) : UnlF U cs true := fun ho => by cases ho

end

macro "unl_step" : tactic => `(tactic| first
  | ((with_reducible refine UnlF_modConn _ _ _ ?_ ?_); (intro _; rfl))
  | (with_reducible refine UnlF_notify _ _ _ _ ?_)
  | (with_reducible refine UnlF_removeFromConn _ _ ?_)
  | (with_reducible refine UnlF_detach _ _ ?_)
  | (with_reducible refine UnlF_freeQuery _ _ ?_)
  | (with_reducible refine UnlF_advanceOut _ _ _ _ ?_)
  | (with_reducible refine UnlF_sqPrep _ _ _ _ _ ?_)
  | (with_reducible refine UnlF_sqLinkPre _ _ _ _ _ ?_)
  | (with_reducible refine UnlF_openConn _ _ _ ?_)
  | (with_reducible refine UnlF_filter _ _ ?_))

syntax "unl_peel " ident : tactic
macro_rules
  | `(tactic| unl_peel $h) =>
    `(tactic| repeat (first
        | with_reducible assumption
        | with_reducible (apply $h)
        | (simp only [Unl, chan_frame, closing, List.nil_append])
        | unl_step
        | (csplit <;> pair_subst)))

section
variable (go : Call → St → St × Ret) (hgo : ∀ c s U, Unl (closing c ++ U) s → Unl U (go c s).1)
include hgo

theorem bodyRequeue_Unl (a b c d e) (U : List Nat) (s : St) (h : Unl U s) : Unl U (bodyRequeue go a b c d e s).1 := by
  unfold bodyRequeue
  unl_peel hgo

theorem bodyFlush_Unl (fd : Nat) (U : List Nat) (s : St) (h : Unl U s) : Unl U (bodyFlush go fd s).1 := by
  unfold bodyFlush
  unl_peel hgo


theorem bodyCloseConn_Unl (fd : Nat) (st : Status) (U : List Nat) (s : St) (h : Unl U s) :
    Unl U (bodyCloseConn go fd st s).1 := by
  unfold bodyCloseConn
  split
  · simpa only [Unl, chan_frame] using h
  · apply hgo
    simp only [closing, Unl, chan_frame]
    intro ho c' hc' hu
    simp only [St.modConn, List.mem_map] at hc'
    obtain ⟨c0, h0, rfl⟩ := hc'
    split at hu
    · rename_i hfd
      simp only [beq_iff_eq] at hfd
      simp only [hfd, beq_self_eq_true, ↓reduceIte, List.cons_append, List.nil_append, List.mem_cons, true_or]
    · rename_i hfd
      simp only [hfd, Bool.false_eq_true, ↓reduceIte, List.cons_append, List.nil_append, List.mem_cons]
      exact .inr (h ho c0 h0 hu)

theorem bodyCloseLoop_Unl (fd : Nat) (st : Status) (U : List Nat) (s : St) (h : Unl ([fd] ++ U) s) :
    Unl U (bodyCloseLoop go fd st s).1 := by
  unfold bodyCloseLoop
  split
  · -- no connection has this descriptor
    rename_i hc
    simp only [Unl, chan_frame]
    intro ho c' hc' hu
    have := h ho c' hc' hu
    simp only [List.cons_append, List.nil_append, List.mem_cons] at this
    rcases this with hfd | hU
    · have := List.find?_eq_none.mp hc c' hc'
      simp [hfd] at this
    · exact hU
  · split
    · apply hgo
      simp only [closing, Unl, chan_frame]
      refine UnlF_modConn _ _ _ (fun _ => rfl) ?_
      rename_i k _ _
      have := hgo (.requeue k st true none false) s ([fd] ++ U) (by simpa only [closing, List.nil_append] using h)
      exact this
    · simp only [Unl, chan_frame]
      intro ho c' hc' hu
      have hm := List.mem_filter.mp hc'
      have hne : c'.fd ≠ fd := by simpa using hm.2
      have h1 : UnlF ([fd] ++ U) (s.notify fd false false).conns s.outOfFuel := UnlF_notify s fd false false h
      have := h1 ho c' hm.1 hu
      simp only [List.cons_append, List.nil_append, List.mem_cons] at this
      rcases this with hfd | hU
      · exact absurd hfd hne
      · exact hU

theorem sqFlush_Unl (fd : Nat) (U : List Nat) (s : St) (h : Unl U s) : Unl U (sqFlush go fd s).2 := by
  unfold sqFlush; unl_peel hgo

theorem sqLink_Unl (pd : Bool) (key : Nat) (srv : Server) (fd : Nat) (U : List Nat) (s : St) (h : Unl U s) :
    Unl U (sqLink go pd key srv fd s).1 := by
  unfold sqLink; unl_peel hgo

theorem sqWriteQ_Unl (reqSrv : Option Nat) (key : Nat) (q : Query) (srv : Server) (fd : Nat) (U : List Nat) (s : St)
    (h : Unl U s) : Unl U (sqWriteQ go reqSrv key q srv fd s).1 := by
  have h1 : Unl U (sqPrepare key q srv fd s).1 := by
    simp only [Unl, chan_frame]; exact UnlF_sqPrep _ _ _ _ _ h
  have h2 := sqFlush_Unl go hgo fd U _ h1
  unfold sqWriteQ
  simp only []
  split
  · exact sqLink_Unl go hgo _ _ _ _ U _ h2
  · exact hgo _ _ U (by simpa only [closing, List.nil_append] using h2)
  all_goals unl_peel hgo

theorem bodySendQuery_Unl (reqSrv : Option Nat) (key : Nat) (U : List Nat) (s : St) (h : Unl U s) :
    Unl U (bodySendQuery go reqSrv key s).1 := by
  rw [bodySendQuery_stages]
  split
  · simpa only [Unl, chan_frame] using h
  · rename_i q _
    simp only []
    split
    · exact hgo _ _ U (by simpa only [closing, List.nil_append, Unl, chan_frame] using h)
    · rename_i srv hsrv
      generalize hs1 : ({ (pickServer reqSrv s).2 with picks := _ } : St) = s1
      have h1 : Unl U s1 := by
        rw [← hs1]; simpa only [Unl, chan_frame] using h
      cases hfc : fetchConn s1 q srv with
      | some fd =>
        simp only []
        exact sqWriteQ_Unl go hgo _ _ _ _ _ U _ h1
      | none =>
        simp only []
        have h2 : Unl U (openConn s1 q.usingTcp srv).2 := by
          simp only [Unl, chan_frame]; exact UnlF_openConn _ _ _ h1
        cases hr : (openConn s1 q.usingTcp srv).1 with
        | error st =>
          simp only []
          apply hgo
          simpa only [closing, List.nil_append, Unl, chan_frame] using h2
        | ok fd =>
          simp only []
          exact sqWriteQ_Unl go hgo _ _ _ _ _ U _ h2

theorem paDeliver_Unl (fd : Nat) (r : Reply) (c : Conn) (key : Nat) (q : Query) (U : List Nat) (s : St) (h : Unl U s) :
    Unl U (paDeliver go fd r c key q s).1 := by
  unfold paDeliver
  unl_peel hgo

theorem bodyProcessAnswer_Unl (fd : Nat) (r : Reply) (U : List Nat) (s : St) (h : Unl U s) :
    Unl U (bodyProcessAnswer go fd r s).1 := by
  cases hk : acceptKey s fd r with
  | some key =>
    obtain ⟨c, q, _, _, _, heq⟩ := bodyProcessAnswer_accept go hk
    rw [heq]
    exact paDeliver_Unl go hgo fd r c key q U _ h
  | none =>
    rcases bodyProcessAnswer_reject go hk with h' | ⟨e, h'⟩ | ⟨c, key, q, _, _, _, h'⟩
    · rw [h']; exact h
    · rw [h']; exact h
    · rw [h']; split
      · have hp : Unl U (paPre s c key q r) := h
        exact hgo _ _ U (by simpa only [closing, List.nil_append] using hp)
      · exact h

theorem foldl_closeConn_Unl (fds : List Nat) (U : List Nat) (s : St) (h : Unl U s) :
    Unl U (fds.foldl (fun s fd => (go (.closeConn fd .ok) s).1) s) := by
  induction fds generalizing s with
  | nil => exact h
  | cons fd rest ih => exact ih _ (hgo _ _ U (by simpa only [closing, List.nil_append] using h))

theorem execBody_Unl (c : Call) (U : List Nat) (s : St) (h : Unl (closing c ++ U) s) : Unl U (execBody go c s).1 := by
  cases c <;> simp only [execBody] <;> simp only [closing, List.nil_append] at h
  case processAnswer fd r => exact bodyProcessAnswer_Unl go hgo fd r U s h
  case sendQuery r k => exact bodySendQuery_Unl go hgo r k U s h
  case closeConn fd st => exact bodyCloseConn_Unl go hgo fd st U s h
  case closeLoop fd st => exact bodyCloseLoop_Unl go hgo fd st U s h
  case destroy =>
    unfold bodyDestroy
    simp only []
    have h0 : Unl U { s with destroying := true } := h
    have h1 := hgo (Call.cancelLoop Status.destruction true) { s with destroying := true } U
      (by simpa only [closing, List.nil_append] using h0)
    exact foldl_closeConn_Unl go hgo
      ((go (Call.cancelLoop Status.destruction true) { s with destroying := true }).1.sortedServers.map (·.conns)).flatten
      U _ h1
  all_goals (unfold_body; unl_peel hgo)

end

/-- **Unless fuel ran out, no procedure leaves behind a half-closed connection that was not half-closed before** (and
    `closeLoop fd` removes `fd`'s) -/
theorem exec_Unl (fuel : Nat) (c : Call) (s : St) (U : List Nat) (h : Unl (closing c ++ U) s) :
    Unl U (exec fuel c s).1 := by
  have := exec_spec (fun c s out => ∀ U, Unl (closing c ++ U) s → Unl U out.1)
    (fun c s U _ => UnlF_oof _) (fun go hgo c s U h => execBody_Unl go hgo c U s h) fuel c s
  exact this U h

/-! ### `outOfFuel` is never reset -/

abbrev Oof (s : St) : Prop := s.outOfFuel = true

section
variable (go : Call → St → St × Ret) (hgo : ∀ c s, Oof s → Oof (go c s).1)
include hgo

theorem sqFlush_Oof (fd : Nat) (s : St) (h : Oof s) : Oof (sqFlush go fd s).2 := by
  unfold sqFlush; chan_peel hgo [Oof]

theorem sqLink_Oof (pd : Bool) (key : Nat) (srv : Server) (fd : Nat) (s : St) (h : Oof s) :
    Oof (sqLink go pd key srv fd s).1 := by
  unfold sqLink; chan_peel hgo [Oof]

theorem sqWriteQ_Oof (reqSrv : Option Nat) (key : Nat) (q : Query) (srv : Server) (fd : Nat) (s : St)
    (h : Oof s) : Oof (sqWriteQ go reqSrv key q srv fd s).1 := by
  have h1 : Oof (sqPrepare key q srv fd s).1 := by simpa only [Oof, chan_frame] using h
  have h2 := sqFlush_Oof go hgo fd _ h1
  unfold sqWriteQ
  simp only []
  split
  · exact sqLink_Oof go hgo _ _ _ _ _ h2
  · exact hgo _ _ h2
  all_goals chan_peel hgo [Oof]

theorem bodySendQuery_Oof (reqSrv : Option Nat) (key : Nat) (s : St) (h : Oof s) :
    Oof (bodySendQuery go reqSrv key s).1 := by
  rw [bodySendQuery_stages]
  split
  · simpa only [Oof, chan_frame] using h
  · rename_i q _
    simp only []
    split
    · exact hgo _ _ (by simpa only [Oof, chan_frame] using h)
    · rename_i srv _
      generalize hs1 : ({ (pickServer reqSrv s).2 with picks := _ } : St) = s1
      have h1 : Oof s1 := by rw [← hs1]; simpa only [Oof, chan_frame] using h
      cases hfc : fetchConn s1 q srv with
      | some fd => simp only []; exact sqWriteQ_Oof go hgo _ _ _ _ _ _ h1
      | none =>
        simp only []
        have h2 : Oof (openConn s1 q.usingTcp srv).2 := by simpa only [Oof, chan_frame] using h1
        cases hr : (openConn s1 q.usingTcp srv).1 with
        | error st => simp only []; exact hgo _ _ (by simpa only [Oof, chan_frame] using h2)
        | ok fd => simp only []; exact sqWriteQ_Oof go hgo _ _ _ _ _ _ h2

theorem bodyProcessAnswer_Oof (fd : Nat) (r : Reply) (s : St) (h : Oof s) : Oof (bodyProcessAnswer go fd r s).1 := by
  cases hk : acceptKey s fd r with
  | some key =>
    obtain ⟨c, q, _, _, _, heq⟩ := bodyProcessAnswer_accept go hk
    rw [heq]
    have hp : Oof (paPre s c key q r) := h
    unfold paDeliver
    chan_peel hgo [Oof]
  | none =>
    rcases bodyProcessAnswer_reject go hk with h' | ⟨e, h'⟩ | ⟨c, key, q, _, _, _, h'⟩
    · rw [h']; exact h
    · rw [h']; exact h
    · rw [h']; split
      · exact hgo _ _ h
      · exact h

theorem execBody_Oof (c : Call) (s : St) (h : Oof s) : Oof (execBody go c s).1 := by
  have hfold : ∀ (fds : List Nat) (s : St), Oof s → Oof (fds.foldl (fun s fd => (go (.closeConn fd .ok) s).1) s) := by
    intro fds
    induction fds with
    | nil => exact fun _ h => h
    | cons fd rest ih => exact fun s h => ih _ (hgo _ _ h)
  cases c <;> simp only [execBody]
  case processAnswer fd r => exact bodyProcessAnswer_Oof go hgo fd r s h
  case sendQuery r k => exact bodySendQuery_Oof go hgo r k s h
  case destroy =>
    unfold bodyDestroy
    simp only []
    exact hfold _ _ (hgo _ _ h)
  all_goals (unfold_body; chan_peel hgo [Oof])

end

/-- `outOfFuel` is never reset -/
theorem exec_oof_sticky (fuel : Nat) (c : Call) (s : St) (h : s.outOfFuel = true) :
    (exec fuel c s).1.outOfFuel = true :=
  exec_inv Oof (fun _ _ => rfl) (fun go hgo c s h => execBody_Oof go hgo c s h) fuel c s h

end Cares.Chan
