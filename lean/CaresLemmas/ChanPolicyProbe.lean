import CaresLemmas.ChanPolicyLookup
import CaresLemmas.ChanPolicySort
/-!
# `ares_probe_failed_server` (C09): when a probe is sent, and with which flags
-/
namespace Cares.Chan

theorem draw2_frame (s : St) : s.draw2.2.now = s.now ∧ s.draw2.2.cfg = s.cfg ∧ s.draw2.2.servers = s.servers := by
  obtain ⟨o, f, e⟩ := draw2_shape s; rw [e]; exact ⟨rfl, rfl, rfl⟩

/-- The only call `bodyProbe` ever makes is one `sendNolock` to a server that currently has failures, is not already
    being probed, whose retry time has passed and that is not the server the user's query just went to — and only
    when `retryChance ≠ 0`.  The request is a copy of the user's question, addressed to that server explicitly, with
    `nocache = true`, `noretry = true`, owner `probe <that server>`.  In every other case the state is returned unchanged (up to the
    consumed lottery draw). -/
theorem probe_only_when_eligible (go : Call → St → St × Ret) (srvId key : Nat) (s : St) :
    (bodyProbe go srvId key s = (s, .ok) ∨ bodyProbe go srvId key s = (s.draw2.2, .ok)) ∨
    ∃ q pv, s.query? key = some q ∧ pv ∈ s.servers ∧ 0 < pv.failures ∧ pv.probePending = false ∧
      pv.nextRetry ≤ s.now ∧ pv.id ≠ srvId ∧ s.cfg.retryChance ≠ 0 ∧
      bodyProbe go srvId key s =
        ((go (.sendNolock (some pv.id) true true
              { name := q.name, qtype := q.qtype, qclass := q.qclass, rd := q.rd, edns := q.edns } (.probe pv.id) [])
            (s.draw2.2.modServer pv.id fun v => { v with probePending := true })).1, .ok) := by
  unfold bodyProbe
  split
  · exact Or.inl (Or.inl rfl)
  · rename_i q hq
    dsimp only
    split
    · exact Or.inl (Or.inl rfl)
    · rename_i last _
      split
      · exact Or.inl (Or.inl rfl)
      · rename_i hcond
        obtain ⟨hnow, hcfg, _⟩ := draw2_frame s
        split
        · exact Or.inl (Or.inr rfl)
        · split
          · exact Or.inl (Or.inr rfl)
          · rename_i pv hfind
            split
            · exact Or.inl (Or.inr rfl)
            · rename_i hne
              right
              have hp := List.find?_some hfind
              have hm : pv ∈ s.servers := mem_sortedServers.1 (List.mem_of_find?_eq_some hfind)
              simp only [Bool.and_eq_true, decide_eq_true_eq, Bool.not_eq_eq_eq_not, Bool.not_true, hnow] at hp
              simp only [Bool.or_eq_true, beq_iff_eq, not_or] at hcond
              refine ⟨q, pv, hq, hm, hp.1.1, hp.1.2, hp.2, ?_, hcond.2, rfl⟩
              simpa using hne

/-- a request started with `noretry` (probes) is created with `no_retries` set, and with `nocache` the query cache is
    neither expired nor consulted: the request goes to `sendQuery` (or fails through the callback) with the cache
    untouched -/
theorem sendNolock_probe_flags (go : Call → St → St × Ret) (reqSrv : Option Nat) (noretry : Bool) (spec : ReqSpec)
    (owner : Owner) (react : List Nat) (s : St) :
    (∃ st s0, s0.cache = s.cache ∧
      bodySendNolock go reqSrv true noretry spec owner react s = ((go (.callback owner react st 0 none) s0).1, st)) ∨
    (∃ s', s'.cache = s.cache ∧
      (∃ q, s'.qs = s.qs ++ [q] ∧ q.key = s.nextKey ∧ q.noRetries = noretry ∧ q.tryCount = 0) ∧
      bodySendNolock go reqSrv true noretry spec owner react s = go (.sendQuery reqSrv s.nextKey) s') := by
  unfold bodySendNolock
  obtain ⟨o, f, e⟩ := genQid_shape 70000 s
  dsimp only
  split
  · left; refine ⟨_, _, ?_, rfl⟩; rw [e]
  · simp only [↓reduceIte]
    split
    · left; refine ⟨_, _, ?_, rfl⟩; rw [e]
    · right
      rw [e]
      dsimp only
      split
      · split
        · obtain ⟨o1, f1, e1⟩ := draw1_shape ({ s with obs := o, obsFaults := f } : St)
          rw [e1]; (refine ⟨_, ?_, ?_, rfl⟩ <;> first | rfl | exact ⟨_, rfl, rfl, rfl, rfl⟩)
        · split
          · obtain ⟨o1, f1, e1⟩ := draw2_shape ({ s with obs := o, obsFaults := f } : St)
            rw [e1]; (refine ⟨_, ?_, ?_, rfl⟩ <;> first | rfl | exact ⟨_, rfl, rfl, rfl, rfl⟩)
          · (refine ⟨_, ?_, ?_, rfl⟩ <;> first | rfl | exact ⟨_, rfl, rfl, rfl, rfl⟩)
      · (refine ⟨_, ?_, ?_, rfl⟩ <;> first | rfl | exact ⟨_, rfl, rfl, rfl, rfl⟩)

/-- a query with `no_retries` is never re-sent by `ares_requeue_query`: it is ended -/
theorem requeue_noRetries_ends (go : Call → St → St × Ret) (key : Nat) (st : Status) (inc : Bool)
    (rec : Option Reply) (deferred : Bool) (s : St) (q : Query) (hq : s.query? key = some q)
    (hnr : q.noRetries = true) :
    ∃ s' es, bodyRequeue go key st inc rec deferred s = ((go (.endQuery none key es rec) s').1, .timeout) := by
  unfold bodyRequeue
  rw [hq]
  dsimp only
  have hq2 : ((s.removeFromConn key).modQuery key fun q =>
      { q with errorStatus := if st != .ok then st else q.errorStatus,
               tryCount := if inc then q.tryCount + 1 else q.tryCount }).query? key =
      some { unlinkQ q with errorStatus := if st != .ok then st else q.errorStatus,
                            tryCount := if inc then q.tryCount + 1 else q.tryCount } := by
    rw [query?_modQuery_self, query?_removeFromConn_self, hq]
    · rfl
    · intro _; rfl
  rw [hq2]
  simp only [Option.getD_some]
  have : (unlinkQ q).noRetries = true := hnr
  simp only [this, Bool.not_true, Bool.and_false, Bool.false_eq_true, ↓reduceIte]
  exact ⟨_, _, rfl⟩

end Cares.Chan
