import CaresModel.Text.Junk
import CaresLemmas.TextResolv
/-! Helper lemmas for C15 `ranges`: every number the configuration-text parsers produce lies in its
    documented range, as an invariant (`rangesOk`) preserved by every line step. -/
namespace Cares.Text

theorem strtoulU32_lt (s : Bytes) : strtoulU32 s < 4294967296 := by
  unfold strtoulU32
  exact Nat.mod_lt _ (by decide)

theorem atoiU16_lt (s : Bytes) : atoiU16 s < 65536 := by
  unfold atoiU16
  have h : (atoi s % 65536) < 65536 := Int.emod_lt_of_pos _ (by decide)
  have h0 : 0 ≤ atoi s % 65536 := Int.emod_nonneg _ (by decide)
  omega

theorem timeoutMsOf_sat (v : Nat) (hv : v ≠ 0) :
    1000 ≤ timeoutMsOf true v ∧ timeoutMsOf true v % 1000 = 0 ∧ timeoutMsOf true v ≤ 4294967000 := by
  unfold timeoutMsOf
  simp only [↓reduceIte]
  have : (4294967295 / 1000 : Nat) = 4294967 := by decide
  rw [this]
  split <;> omega

theorem fetchString_len (cap : Nat) (b r : Bytes) (h : fetchString cap b = .ok r) : r = b ∧ r.length + 1 ≤ cap := by
  unfold fetchString at h
  split at h
  · simp at h
  · split at h
    · simp at h
    · split at h
      · simp at h
      · simp only [Except.ok.injEq] at h
        subst h
        constructor
        · rfl
        · omega

theorem strcpyTrunc_len (cap : Nat) (s : Bytes) (h : 0 < cap) : (strcpyTrunc cap s).length + 1 ≤ cap := by
  unfold strcpyTrunc
  have := List.length_take_le (cap - 1) s
  omega

theorem popcount8_le (b : Nat) : popcount8 b ≤ 8 := by
  unfold popcount8
  simp only [List.range, List.range.loop, List.foldl]
  omega

theorem decOctets_len : ∀ (fuel ch : Nat) (src : Bytes) (size : Nat) (out : List Nat) (c : Nat) (s : Bytes) (size' : Nat) (out' : List Nat),
    decOctets fuel ch src size out = .ok (c, s, size', out') → out'.length + size' = out.length + size := by
  intro fuel
  induction fuel with
  | zero => intro ch src size out c s size' out' h; simp [decOctets] at h
  | succ n ih =>
    intro ch src size out c s size' out' h
    unfold decOctets at h
    split at h
    · simp at h
    · rename_i v ch' src' hd
      split at h
      · simp at h
      · rename_i hsz
        simp only at h
        split at h
        · simp only [Except.ok.injEq, Prod.mk.injEq] at h
          obtain ⟨_, _, h3, h4⟩ := h
          subst h3 h4
          simp; omega
        · split at h
          · simp at h
          · split at h
            · simp at h
            · rename_i c1 r1
              split at h
              · have := ih _ _ _ _ _ _ _ _ h
                simp at this; omega
              · simp at h

theorem hexLoop_len : ∀ (src : Bytes) (dirty tmp size : Nat) (out : List Nat) (c : Nat) (s : Bytes) (size' : Nat) (out' : List Nat),
    hexLoop src dirty tmp size out = .ok (c, s, size', out') → out'.length + size' = out.length + size := by
  intro src
  induction src with
  | nil =>
    intro dirty tmp size out c s size' out' h
    unfold hexLoop at h
    split at h
    · split at h
      · simp at h
      · simp only [Except.ok.injEq, Prod.mk.injEq] at h
        obtain ⟨_, _, h3, h4⟩ := h
        subst h3 h4
        simp; omega
    · simp only [Except.ok.injEq, Prod.mk.injEq] at h
      obtain ⟨_, _, h3, h4⟩ := h
      subst h3 h4
      rfl
  | cons x xs ih =>
    intro dirty tmp size out c s size' out' h
    unfold hexLoop at h
    split at h
    · simp only at h
      split at h
      · split at h
        · simp at h
        · have := ih _ _ _ _ _ _ _ _ h
          simp at this; omega
      · exact ih _ _ _ _ _ _ _ _ h
    · split at h
      · split at h
        · simp at h
        · simp only [Except.ok.injEq, Prod.mk.injEq] at h
          obtain ⟨_, _, h3, h4⟩ := h
          subst h3 h4
          simp; omega
      · simp only [Except.ok.injEq, Prod.mk.injEq] at h
        obtain ⟨_, _, h3, h4⟩ := h
        subst h3 h4
        rfl

theorem padTo_len (n : Nat) (l : List Nat) (h : l.length ≤ n) : (padTo n l).length = n := by
  unfold padTo; simp; omega

theorem netPton4_len (src : Bytes) (size0 bits : Nat) (o : List Nat) (h : netPton4 src size0 = .ok (bits, o)) :
    o.length = size0 := by
  unfold netPton4 at h
  simp only at h
  split at h
  · simp at h
  · rename_i ch src' size out hr
    have hlen : out.length + size = size0 := by
      split at hr
      · split at hr
        · simp at hr
        · have := hexLoop_len _ _ _ _ _ _ _ _ _ hr
          simpa using this
      · split at hr
        · have := decOctets_len _ _ _ _ _ _ _ _ _ hr
          simpa using this
        · simp at hr
    have fin : ∀ (bb : Nat) (x : Except (List Nat) (Nat × List Nat)),
        x = (if (bb + 7) / 8 > out.length + size then Except.error (padTo size0 out) else Except.ok (bb, padTo size0 out)) →
        x = .ok (bits, o) → o.length = size0 := by
      intro bb x hx hxo
      rw [hx] at hxo
      split at hxo
      · simp at hxo
      · simp only [Except.ok.injEq, Prod.mk.injEq] at hxo
        rw [← hxo.2]
        exact padTo_len _ _ (by omega)
    split at h
    · simp at h
    · split at h
      · simp at h
      · split at h
        · simp at h
        · split at h
          · exact fin _ _ rfl h
          · exact fin _ _ rfl h

theorem pton4_len (s : Bytes) (o : List Nat) (h : pton4 s = some o) : o.length = 4 := by
  unfold pton4 at h
  split at h
  · rename_i r hr
    simp only [Option.some.injEq] at h
    subst h
    exact netPton4_len s 4 r.1 r.2 (by rw [hr])
  · simp at h

def maskOk (a : Addr) (m : Nat) : Bool := if a.isV6 then m ≤ 128 else m ≤ 32
def patOk (p : Pat) : Bool := maskOk p.addr p.mask

theorem sum_popcount_le (o : List Nat) : (o.map popcount8).foldl (· + ·) 0 ≤ 8 * o.length := by
  have gen : ∀ (l : List Nat) (acc : Nat), (l.map popcount8).foldl (· + ·) acc ≤ acc + 8 * l.length := by
    intro l
    induction l with
    | nil => intro acc; simp
    | cons x xs ih =>
      intro acc
      simp only [List.map_cons, List.foldl_cons, List.length_cons]
      have := ih (acc + popcount8 x)
      have := popcount8_le x
      omega
  simpa using gen o 0

theorem sortMask_ok (a : Addr) (rest : Bytes) (m : Nat) (r : Bytes) (h : sortMask a rest = .ok (m, r)) :
    maskOk a m = true := by
  unfold sortMask at h
  split at h
  · simp only at h
    split at h
    · simp at h
    · split at h
      · simp at h
      · split at h
        · split at h
          · simp at h
          · split at h
            · simp at h
            · rename_i ms _ _ h1 h2
              simp only [Except.ok.injEq, Prod.mk.injEq] at h
              rw [← h.1]
              simp only [Bool.or_eq_true, decide_eq_true_eq, not_or, Int.not_lt] at h1
              simp only [Bool.and_eq_true, Bool.not_eq_eq_eq_not, Bool.not_true, decide_eq_true_eq, not_and, Int.not_lt] at h2
              unfold maskOk
              cases hv : a.isV6 with
              | true => simp; omega
              | false => simp; have := h2 hv; omega
        · split at h
          · rename_i o ho
            simp only [Except.ok.injEq, Prod.mk.injEq] at h
            rw [← h.1]
            have hl := pton4_len _ _ ho
            have := sum_popcount_le o
            unfold maskOk
            split <;> simp <;> omega
          · simp at h
  · simp only [Except.ok.injEq, Prod.mk.injEq] at h
    rw [← h.1]
    unfold maskOk naturalMask
    cases a with
    | v4 o => simp [Addr.isV6]; split <;> (try split) <;> omega
    | v6 o => simp [Addr.isV6]

theorem parseSort_ok (e : Bytes) (p : Pat) (h : parseSort e = .ok p) : patOk p = true := by
  unfold parseSort at h
  simp only at h
  split at h
  · simp at h
  · split at h
    · simp at h
    · split at h
      · simp at h
      · split at h
        · simp at h
        · split at h
          · simp at h
          · rename_i a _ mask rest3 hm
            split at h
            · simp at h
            · simp only [Except.ok.injEq] at h
              subst h
              exact sortMask_ok _ _ _ _ hm

theorem sortEntry_ok (acc : Status × List Pat) (e : Bytes) (h : acc.2.all patOk = true) :
    (sortEntry acc e).2.all patOk = true := by
  unfold sortEntry
  split
  · exact h
  · split
    · rename_i p hp
      simp only [List.all_append, h, List.all_cons, List.all_nil, Bool.and_true, Bool.true_and]
      exact parseSort_ok e p hp
    · exact h
    · exact h

theorem parseSortlist_ok (v : Bytes) : (parseSortlist v).2.all patOk = true := by
  unfold parseSortlist
  split
  · rfl
  · simp only
    split
    · rfl
    · have gen : ∀ (es : List Bytes) (acc : Status × List Pat), acc.2.all patOk = true →
          (es.foldl sortEntry acc).2.all patOk = true := by
        intro es
        induction es with
        | nil => intro acc h; exact h
        | cons e es ih => intro acc h; exact ih _ (sortEntry_ok acc e h)
      exact gen _ _ rfl

def sconfOk (c : SConfig) : Bool := c.udp < 65536 && c.tcp < 65536 && c.iface.length ≤ 15

theorem lookupLetter_val (w : Bytes) (ch : Nat) (h : lookupLetter w = some ch) : ch = 98 ∨ ch = 102 := by
  unfold lookupLetter at h
  simp only at h
  split at h
  · simp at h; omega
  · split at h
    · simp at h; omega
    · simp at h

def lookupsOk (l : Bytes) : Bool := l == [] || l == [98] || l == [102] || l == [98, 102] || l == [102, 98]

theorem lookupStep_ok (acc w : Bytes) (h : lookupsOk acc = true) : lookupsOk (lookupStep acc w) = true := by
  unfold lookupStep
  split
  · rename_i ch hc
    have := lookupLetter_val w ch hc
    unfold lookupsOk at h
    simp only [Bool.or_eq_true, beq_iff_eq] at h
    rcases h with (((h | h) | h) | h) | h <;> rcases this with hc | hc <;> subst h <;> subst hc <;> decide
  · exact h

theorem foldl_lookupStep_ok (ws : List Bytes) (acc : Bytes) (h : lookupsOk acc = true) :
    lookupsOk (ws.foldl lookupStep acc) = true := by
  induction ws generalizing acc with
  | nil => exact h
  | cons w ws ih => exact ih _ (lookupStep_ok acc w h)

theorem lookupsOk_len (l : Bytes) (h : lookupsOk l = true) : l.length ≤ 2 ∧ ∀ c ∈ l, c = 98 ∨ c = 102 := by
  unfold lookupsOk at h
  simp only [Bool.or_eq_true, beq_iff_eq] at h
  rcases h with (((h | h) | h) | h) | h <;> subst h <;> simp

theorem nsPort_lt (rest : Bytes) (p : Nat) (r : Bytes) (h : nsPort rest = .ok (p, r)) : p < 65536 := by
  unfold nsPort at h
  split at h
  · simp only at h
    split at h
    · simp at h
    · split at h
      · simp at h
      · simp only [Except.ok.injEq, Prod.mk.injEq] at h
        rw [← h.1]; exact atoiU16_lt _
  · simp only [Except.ok.injEq, Prod.mk.injEq] at h
    omega

theorem nsIface_len (rest : Bytes) (i r : Bytes) (h : nsIface rest = .ok (i, r)) : i.length ≤ 15 := by
  unfold nsIface at h
  split at h
  · simp only at h
    split at h
    · simp at h
    · split at h
      · simp at h
      · rename_i i' hi
        simp only [Except.ok.injEq, Prod.mk.injEq] at h
        rw [← h.1]
        have := (fetchString_len 16 _ _ hi).2
        omega
  · simp only [Except.ok.injEq, Prod.mk.injEq] at h
    rw [← h.1]; simp

theorem parseNameserver_ok (e : Bytes) (s : SConfig) (h : parseNameserver e = .ok s) : sconfOk s = true := by
  unfold parseNameserver at h
  split at h
  · simp at h
  · split at h
    · simp at h
    · split at h
      · simp at h
      · rename_i port rest2 hp
        split at h
        · simp at h
        · rename_i iface rest3 hi
          split at h
          · simp at h
          · simp only [Except.ok.injEq] at h
            subst h
            have := nsPort_lt _ _ _ hp
            have := nsIface_len _ _ _ hi
            simp [sconfOk]; omega

theorem uriHostport_lt (c : Cur) (h : Bytes) (p : Nat) (hh : uriHostport c = .ok (h, p)) : p < 65536 := by
  unfold uriHostport at hh
  split at hh
  · simp at hh
  · simp only at hh
    split at hh
    · simp at hh
    · split at hh
      · simp at hh
      · split at hh
        · simp only [Except.ok.injEq, Prod.mk.injEq] at hh; omega
        · split at hh
          · simp at hh
          · split at hh
            · simp at hh
            · split at hh
              · simp at hh
              · simp only [Except.ok.injEq, Prod.mk.injEq] at hh
                rw [← hh.2]; exact atoiU16_lt _

theorem uriParse_port_lt (bs : Bytes) (u : Uri) (h : uriParse bs = .ok u) : u.port < 65536 := by
  unfold uriParse at h
  split at h
  · simp at h
  · split at h
    · simp at h
    · split at h
      · simp at h
      · split at h
        · simp at h
        · simp only at h
          split at h
          · simp at h
          · split at h
            · simp at h
            · split at h
              · simp at h
              · split at h
                · simp at h
                · rename_i host port hhp
                  have hp := uriHostport_lt _ _ _ hhp
                  split at h
                  · simp at h
                  · split at h
                    · simp at h
                    · split at h
                      · simp at h
                      · simp only [Except.ok.injEq] at h
                        subst h
                        exact hp

theorem parseNameserverUri_ok (e : Bytes) (s : SConfig) (h : parseNameserverUri e = .ok s) : sconfOk s = true := by
  unfold parseNameserverUri at h
  split at h
  · simp at h
  · rename_i u hu
    have hp := uriParse_port_lt e u hu
    split at h
    · simp at h
    · simp only at h
      split at h
      · simp at h
      · simp only [Except.ok.injEq] at h
        subst h
        simp only [sconfOk, Bool.and_eq_true, decide_eq_true_eq]
        refine ⟨⟨hp, ?_⟩, ?_⟩
        · split
          · exact atoiU16_lt _
          · exact hp
        · split
          · simp
          · have := strcpyTrunc_len 16 (by assumption) (by decide)
            omega

theorem parseServerEntry_ok (e : Bytes) (s : SConfig) (h : parseServerEntry e = .ok s) : sconfOk s = true := by
  unfold parseServerEntry at h
  split at h
  · rename_i s' hs
    simp only [Except.ok.injEq] at h
    subst h
    exact parseNameserverUri_ok e _ hs
  · exact parseNameserver_ok e s h

def listOk (l : Option (List SConfig)) : Bool := (l.getD []).all sconfOk

theorem sconfigAppend_ok (ifs : Ifaces) (l : Option (List SConfig)) (a : Addr) (u t : Nat) (i : Bytes)
    (hl : listOk l = true) (hu : u < 65536) (ht : t < 65536) : listOk (sconfigAppend ifs l a u t i) = true := by
  unfold sconfigAppend
  split
  · exact hl
  · simp only
    have hl' : (l.getD []).all sconfOk = true := hl
    split
    · split
      · simpa [listOk] using hl'
      · split
        · rename_i nm scope hr
          have hn : nm.length ≤ 15 := by
            unfold linkLocalResolve at hr
            split at hr
            · simp only at hr
              split at hr
              · simp only [Option.some.injEq, Prod.mk.injEq] at hr
                rw [← hr.1]
                have := strcpyTrunc_len 16 (by assumption) (by decide); omega
              · simp at hr
            · simp only at hr
              split at hr
              · simp at hr
              · simp only [Option.some.injEq, Prod.mk.injEq] at hr
                rw [← hr.1]
                have := strcpyTrunc_len 16 i (by decide); omega
          simp only [listOk, Option.getD_some, List.all_append, hl', List.all_cons, List.all_nil, Bool.and_true, Bool.true_and]
          simp [sconfOk]; omega
        · simpa [listOk] using hl'
    · simp only [listOk, Option.getD_some, List.all_append, hl', List.all_cons, List.all_nil, Bool.and_true, Bool.true_and]
      simp [sconfOk]; omega

theorem appendEntry_ok (ifs : Ifaces) (ign : Bool) (acc : Status × Option (List SConfig)) (e : Bytes)
    (h : listOk acc.2 = true) : listOk (appendEntry ifs ign acc e).2 = true := by
  unfold appendEntry
  split
  · exact h
  · split
    · rename_i s hs
      have := parseServerEntry_ok e s hs
      simp only [sconfOk, Bool.and_eq_true, decide_eq_true_eq] at this
      exact sconfigAppend_ok ifs acc.2 s.addr s.udp s.tcp s.iface h this.1.1 this.1.2
    · split
      · exact h
      · exact h

theorem appendFromStr_ok (ifs : Ifaces) (l : Option (List SConfig)) (v : Bytes) (ign : Bool) (h : listOk l = true) :
    listOk (appendFromStr ifs l v ign).2 = true := by
  unfold appendFromStr
  split
  · exact h
  · have gen : ∀ (es : List Bytes) (acc : Status × Option (List SConfig)), listOk acc.2 = true →
        listOk (es.foldl (appendEntry ifs ign) acc).2 = true := by
      intro es
      induction es with
      | nil => intro acc h; exact h
      | cons e es ih => intro acc h; exact ih _ (appendEntry_ok ifs ign acc e h)
    exact gen _ _ h

def rangesOk (c : SysConfig) : Bool :=
  (c.timeoutMs == 0 || (1000 ≤ c.timeoutMs && c.timeoutMs % 1000 == 0 && c.timeoutMs ≤ 4294967000)) &&
  c.tries < 4294967296 && c.ndots < 4294967296 && c.sortlist.all patOk && listOk c.sconfig &&
  (match c.lookups with
   | none => true
   | some l => lookupsOk l)

theorem rangesOk_iff (c : SysConfig) : rangesOk c = true ↔
    ((c.timeoutMs = 0 ∨ (1000 ≤ c.timeoutMs ∧ c.timeoutMs % 1000 = 0 ∧ c.timeoutMs ≤ 4294967000)) ∧
     c.tries < 4294967296 ∧ c.ndots < 4294967296 ∧ c.sortlist.all patOk = true ∧ listOk c.sconfig = true ∧
     (match c.lookups with
      | none => true
      | some l => lookupsOk l) = true) := by
  unfold rangesOk
  simp only [Bool.and_eq_true, Bool.or_eq_true, beq_iff_eq, decide_eq_true_eq]
  constructor
  · rintro ⟨⟨⟨⟨⟨h1, h2⟩, h3⟩, h4⟩, h5⟩, h6⟩
    refine ⟨?_, h2, h3, h4, h5, h6⟩
    rcases h1 with h1 | ⟨⟨a, b⟩, c⟩
    · exact Or.inl h1
    · exact Or.inr ⟨a, b, c⟩
  · rintro ⟨h1, h2, h3, h4, h5, h6⟩
    refine ⟨⟨⟨⟨⟨?_, h2⟩, h3⟩, h4⟩, h5⟩, h6⟩
    rcases h1 with h1 | ⟨a, b, c⟩
    · exact Or.inl h1
    · exact Or.inr ⟨⟨a, b⟩, c⟩

theorem strtoulU32_lt_opt (rest : List Bytes) : optValint rest < 4294967296 := by
  unfold optValint
  split
  · exact strtoulU32_lt _
  · decide

theorem processOption_ranges (s : SysConfig) (o : Bytes) (h : rangesOk s = true) :
    rangesOk (processOption true s o).2 = true := by
  rw [rangesOk_iff] at h ⊢
  obtain ⟨h1, h2, h3, h4, h5, h6⟩ := h
  unfold processOption
  split
  · exact ⟨h1, h2, h3, h4, h5, h6⟩
  · split
    · exact ⟨h1, h2, h3, h4, h5, h6⟩
    · rename_i key rest _
      simp only
      split
      · exact ⟨h1, h2, by simpa using strtoulU32_lt_opt rest, h4, h5, h6⟩
      · split
        · split
          · exact ⟨h1, h2, h3, h4, h5, h6⟩
          · rename_i hv
            exact ⟨Or.inr (timeoutMsOf_sat _ hv), h2, h3, h4, h5, h6⟩
        · split
          · split
            · exact ⟨h1, h2, h3, h4, h5, h6⟩
            · exact ⟨h1, by simpa using strtoulU32_lt_opt rest, h3, h4, h5, h6⟩
          · split
            · exact ⟨h1, h2, h3, h4, h5, h6⟩
            · split
              · exact ⟨h1, h2, h3, h4, h5, h6⟩
              · exact ⟨h1, h2, h3, h4, h5, h6⟩

theorem foldl_inv {α β} (f : α → β → α) (P : α → Prop) (hP : ∀ a b, P a → P (f a b)) (l : List β) (a : α) (h : P a) :
    P (l.foldl f a) := by
  induction l generalizing a with
  | nil => exact h
  | cons x xs ih => exact ih _ (hP a x h)

theorem setOptions_ranges (s : SysConfig) (v : Bytes) (h : rangesOk s = true) : rangesOk (setOptions true s v).2 = true := by
  unfold setOptions
  split
  · exact h
  · exact foldl_inv (optionStep true) (fun c => rangesOk c = true) (fun a b ha => processOption_ranges a b ha) _ _ h

theorem rangesOk_domains (s : SysConfig) (d : Option (List Bytes)) (h : rangesOk s = true) :
    rangesOk { s with domains := d } = true := by
  rw [rangesOk_iff] at h ⊢; exact h

theorem configSearch_ranges (s : SysConfig) (v : Bytes) (m : Nat) (h : rangesOk s = true) :
    rangesOk (configSearch s v m).2 = true := by
  unfold configSearch
  split
  · exact h
  · split <;> exact rangesOk_domains s _ h

theorem configLookup_ranges (s : SysConfig) (b : Bytes) (seps : List Nat) (h : rangesOk s = true) :
    rangesOk (configLookup s b seps) = true := by
  unfold configLookup
  split
  · exact h
  · simp only
    split
    · exact h
    · rw [rangesOk_iff] at h ⊢
      obtain ⟨h1, h2, h3, h4, h5, _⟩ := h
      exact ⟨h1, h2, h3, h4, h5, foldl_lookupStep_ok _ [] rfl⟩

theorem resolvLine_ranges (ifs : Ifaces) (s : SysConfig) (line : Bytes) (h : rangesOk s = true) :
    rangesOk (resolvLine ifs s line).2 = true := by
  unfold resolvLine resolvLineG
  split
  · exact h
  · rename_i option value raw hs
    unfold resolvApply
    simp only [↓reduceIte]
    split
    · split
      · exact configSearch_ranges s value 1 h
      · exact h
    · split
      · exact configLookup_ranges s raw _ h
      · split
        · exact configSearch_ranges s value 0 h
        · split
          · have hl := (rangesOk_iff s).mp h
            have := appendFromStr_ok ifs s.sconfig value true hl.2.2.2.2.1
            rw [rangesOk_iff]
            exact ⟨hl.1, hl.2.1, hl.2.2.1, hl.2.2.2.1, this, hl.2.2.2.2.2⟩
          · split
            · simp only
              split
              · have hl := (rangesOk_iff s).mp h
                rw [rangesOk_iff]
                exact ⟨hl.1, hl.2.1, hl.2.2.1, parseSortlist_ok value, hl.2.2.2.2.1, hl.2.2.2.2.2⟩
              · exact h
            · split
              · exact setOptions_ranges s value h
              · exact h

theorem dbLine_ranges (sep : Nat) (vseps : List Nat) (s : SysConfig) (line : Bytes) (h : rangesOk s = true) :
    rangesOk (dbLine sep vseps s line).2 = true := by
  unfold dbLine
  split
  · exact h
  · split
    · split
      · exact h
      · split
        · exact configLookup_ranges s _ _ h
        · exact h
    · exact h

theorem foldLines_ranges (step : SysConfig → Bytes → Status × SysConfig)
    (hs : ∀ a l, rangesOk a = true → rangesOk (step a l).2 = true) (s : SysConfig) (ls : List Bytes)
    (h : rangesOk s = true) : rangesOk (foldLines step s ls).2 = true := by
  induction ls generalizing s with
  | nil => exact h
  | cons l ls ih =>
    simp only [foldLines]
    split
    · exact hs s l h
    · exact ih _ (hs s l h)

theorem processFile_ranges (step : SysConfig → Bytes → Status × SysConfig)
    (hs : ∀ a l, rangesOk a = true → rangesOk (step a l).2 = true) (s : SysConfig) (f : Option Bytes)
    (h : rangesOk s = true) : rangesOk (processFile step s f).2 = true := by
  unfold processFile
  split
  · exact h
  · exact foldLines_ranges step hs s _ h

theorem initSysconfigFiles_ranges (ifs : Ifaces) (s : SysConfig) (f : SysFiles) (pr : Bool) (h : rangesOk s = true) :
    rangesOk (initSysconfigFiles true ifs s f pr).2 = true := by
  unfold initSysconfigFiles
  have hr : ∀ a l, rangesOk a = true → rangesOk (resolvLineG true ifs a l).2 = true := fun a l ha => resolvLine_ranges ifs a l ha
  have hn : ∀ a l, rangesOk a = true → rangesOk (nsswitchLine a l).2 = true := fun a l ha => dbLine_ranges _ _ a l ha
  have hv : ∀ a l, rangesOk a = true → rangesOk (svcconfLine a l).2 = true := fun a l ha => dbLine_ranges _ _ a l ha
  have h1 : rangesOk (if pr = true then processFile (resolvLineG true ifs) s f.resolv else (Status.success, s)).2 = true := by
    split
    · exact processFile_ranges _ hr s _ h
    · exact h
  simp only
  generalize (if pr = true then processFile (resolvLineG true ifs) s f.resolv else (Status.success, s)) = r1 at h1 ⊢
  split
  · exact h1
  · have h2 := processFile_ranges _ hn _ f.nsswitch h1
    generalize processFile nsswitchLine r1.2 f.nsswitch = r2 at h2 ⊢
    split
    · exact h2
    · have h3 := processFile_ranges _ hv _ f.netsvc h2
      generalize processFile svcconfLine r2.2 f.netsvc = r3 at h3 ⊢
      split
      · exact h3
      · have h4 := processFile_ranges _ hv _ f.svc h3
        generalize processFile svcconfLine r3.2 f.svc = r4 at h4 ⊢
        split
        · exact h4
        · exact h4

theorem initByEnvironment_ranges (s : SysConfig) (ld ro : Option Bytes) (h : rangesOk s = true) :
    rangesOk (initByEnvironment s ld ro).2 = true := by
  unfold initByEnvironment
  cases ld with
  | none =>
    simp only [bne_self_eq_false, Bool.false_eq_true, ↓reduceIte]
    cases ro with
    | none => exact h
    | some v => exact setOptions_ranges _ _ h
  | some d =>
    simp only
    have h1 := configSearch_ranges s d 1 h
    generalize configSearch s d 1 = r1 at h1 ⊢
    split
    · exact h1
    · cases ro with
      | none => exact h1
      | some v => exact setOptions_ranges _ _ h1

end Cares.Text
