import CaresLemmas.ClientExecReplay
import CaresLemmas.ClientExecFold
/-!
# The view of one compound request: projection of the replay machine

`lproj cid r` keeps of a replay state the record of `cid` and `cid`'s frames; `lstep` is `rstep` on that view for the
events of `cid` (other than its `.start`).  `rstep_other`: events of other compound requests do not change the view;
`rstep_mine`: events of `cid` act on the view as `lstep`; `fresh_step`: while `cid` has not been created, no event
other than `.start cid` concerns it.
-/
namespace Cares.Chan

/-- the compound request an event belongs to -/
def CItem.who : CItem → Nat
  | .start id .. => id | .cb id .. => id | .act id _ => id | .slot id .. => id
  | .lost id => id | .rel id => id | .ret id => id

def CItem.isStart : CItem → Bool
  | .start .. => true
  | _ => false

structure LSt where
  cur : Option Client
  stack : List (Option (List ClientAct))

def lproj (cid : Nat) (r : RSt) : LSt :=
  ⟨r.clients.find? (·.id == cid), (r.stack.filter (·.1 == cid)).map (·.2)⟩

def afterActL (a : ClientAct) (rest : List ClientAct) : List (Option (List ClientAct)) :=
  match a with
  | .finish _ _ _ => [none, some []]
  | _ => [some rest]

def lstep (cfg : Cfg) (l : LSt) : CItem → Option LSt
  | .start .. => none
  | .cb _ st t rec qa qb =>
    match l.cur with
    | none => none
    | some c =>
      if c.qidA = qa ∧ c.qidAAAA = qb then
        some ⟨some (clientOnCb cfg c st t rec).1, some (clientOnCb cfg c st t rec).2 :: l.stack⟩
      else none
  | .act _ a =>
    match l.stack with
    | some (a' :: rest) :: σ => if a' = a then some ⟨l.cur, afterActL a rest ++ σ⟩ else none
    | _ => none
  | .slot _ slot qid => some ⟨l.cur.map (setSlot slot qid), l.stack⟩
  | .lost _ =>
    match l.stack with
    | some (.finish _ _ _ :: _) :: σ => if l.cur.isNone then some ⟨l.cur, some [] :: σ⟩ else none
    | _ => none
  | .rel _ =>
    match l.stack with
    | none :: σ => some ⟨none, σ⟩
    | _ => none
  | .ret _ =>
    match l.stack with
    | some [] :: σ => some ⟨l.cur, σ⟩
    | _ => none

/-! ### list facts -/

theorem find?_map_pres {α} (l : List α) (p : α → Bool) (g : α → α) (h : ∀ a, p (g a) = p a) :
    (l.map g).find? p = (l.find? p).map g := by
  induction l with
  | nil => rfl
  | cons a t ih =>
    simp only [List.map_cons, List.find?_cons, h a]
    cases p a with
    | true => rfl
    | false => exact ih

theorem find?_snoc {α} (l : List α) (p : α → Bool) (a : α) :
    (l ++ [a]).find? p = (l.find? p).or (if p a then some a else none) := by
  induction l with
  | nil => simp [List.find?_cons]; cases p a <;> rfl
  | cons b t ih =>
    simp only [List.cons_append, List.find?_cons]
    cases p b with
    | true => rfl
    | false => exact ih

theorem find?_filter_ne (l : List Client) (id cid : Nat) (h : cid ≠ id) :
    (l.filter (·.id != id)).find? (·.id == cid) = l.find? (·.id == cid) := by
  induction l with
  | nil => rfl
  | cons b t ih =>
    by_cases hb : b.id = id
    · have h1 : (b.id != id) = false := by simp [hb]
      have h2 : (b.id == cid) = false := by simp [hb]; exact fun e => h e.symm
      simp only [List.filter_cons, h1, List.find?_cons, h2, ih, Bool.false_eq_true, ↓reduceIte]
    · have h1 : (b.id != id) = true := by simp [hb]
      simp only [List.filter_cons, h1, ↓reduceIte, List.find?_cons, ih]

theorem find?_filter_self (l : List Client) (id : Nat) :
    (l.filter (·.id != id)).find? (·.id == id) = none := by
  rw [List.find?_eq_none]
  intro x hx
  have := (List.mem_filter.mp hx).2
  simpa using this

/-- the events of other compound requests leave the record of `cid` alone -/
theorem find?_modC_other (l : List Client) (id cid : Nat) (f : Client → Client) (h : cid ≠ id)
    (hf : ∀ c, c.id = id → (f c).id = id) :
    (modC l id f).find? (·.id == cid) = l.find? (·.id == cid) := by
  unfold modC
  rw [find?_map_pres]
  · cases hx : l.find? (·.id == cid) with
    | none => rfl
    | some c =>
      have hc0 := List.find?_some hx
      have hc : c.id = cid := by simpa using hc0
      have : (c.id == id) = false := by simp [hc, h]
      simp only [Option.map_some, this, Bool.false_eq_true, ↓reduceIte]
  · intro a
    by_cases ha : a.id = id
    · simp only [ha, beq_self_eq_true, ↓reduceIte, hf a ha]
    · have : (a.id == id) = false := by simp [ha]
      simp only [this, Bool.false_eq_true, ↓reduceIte]

theorem find?_modC_same (l : List Client) (cid : Nat) (f : Client → Client) (hf : ∀ c, c.id = cid → (f c).id = cid) :
    (modC l cid f).find? (·.id == cid) = (l.find? (·.id == cid)).map f := by
  unfold modC
  rw [find?_map_pres]
  · cases hx : l.find? (·.id == cid) with
    | none => rfl
    | some c =>
      have hc0 := List.find?_some hx
      have hc : (c.id == cid) = true := hc0
      simp only [Option.map_some, hc, ↓reduceIte]
  · intro a
    by_cases ha : a.id = cid
    · simp only [ha, beq_self_eq_true, ↓reduceIte, hf a ha]
    · have : (a.id == cid) = false := by simp [ha]
      simp only [this, Bool.false_eq_true, ↓reduceIte]

theorem setSlot_id (slot qid : Nat) (c : Client) : (setSlot slot qid c).id = c.id := by
  unfold setSlot; split <;> rfl

/-! ### projection of a step -/

theorem afterAct_other (id cid : Nat) (a : ClientAct) (rest : List ClientAct) (h : id ≠ cid) :
    (afterAct id a rest).filter (·.1 == cid) = [] := by
  have : (id == cid) = false := by simp [h]
  unfold afterAct; split <;> simp [this]

theorem afterAct_mine (cid : Nat) (a : ClientAct) (rest : List ClientAct) :
    ((afterAct cid a rest).filter (·.1 == cid)).map (·.2) = afterActL a rest := by
  unfold afterAct afterActL; split <;> simp

/-- **events of other compound requests do not change the view of `cid`** -/
theorem rstep_other (cfg : Cfg) (cid : Nat) (r r' : RSt) (i : CItem) (h : rstep cfg r i = some r') (hw : i.who ≠ cid) :
    lproj cid r' = lproj cid r := by
  have hne : ∀ id, id ≠ cid → (id == cid) = false := fun id h => by simp [h]
  cases i with
  | start id kind tok react spec fam =>
    have hid : id ≠ cid := hw
    simp only [rstep] at h
    split at h
    · cases h
      simp only [lproj, find?_snoc, (clientStart_ok cfg id kind tok react spec fam).id, hne id hid,
        Bool.false_eq_true, ↓reduceIte, Option.or_none, List.filter_cons]
    · cases h
  | cb id st t rec qa qb =>
    have hid : id ≠ cid := hw
    simp only [rstep] at h
    split at h
    · cases h
    · rename_i c hc
      split at h
      · cases h
        have hcid0 := List.find?_some hc
        have hcid : c.id = id := by simpa using hcid0
        simp only [lproj, List.filter_cons, hne id hid, Bool.false_eq_true, ↓reduceIte]
        rw [find?_modC_other _ _ _ _ (fun e => hid e.symm)]
        intro x _
        rw [clientOnCb_id, hcid]
      · cases h
  | act id a =>
    have hid : id ≠ cid := hw
    simp only [rstep] at h
    split at h
    · rename_i id' a' rest σ hs
      split at h
      · rename_i hh
        cases h
        obtain ⟨rfl, rfl⟩ := hh
        simp only [lproj, hs, List.filter_append, afterAct_other _ _ _ _ hid, List.nil_append, List.filter_cons,
          hne _ hid, Bool.false_eq_true, ↓reduceIte]
      · cases h
    · cases h
  | slot id slot qid =>
    have hid : id ≠ cid := hw
    simp only [rstep] at h
    cases h
    simp only [lproj]
    rw [find?_modC_other _ _ _ _ (fun e => hid e.symm) (fun c hc => by rw [setSlot_id, hc])]
  | lost id =>
    have hid : id ≠ cid := hw
    simp only [rstep] at h
    split at h
    · rename_i id' _ _ _ _ σ hs
      split at h
      · rename_i hh
        cases h
        obtain ⟨rfl, _⟩ := hh
        simp only [lproj, hs, List.filter_cons, hne _ hid, Bool.false_eq_true, ↓reduceIte]
      · cases h
    · cases h
  | rel id =>
    have hid : id ≠ cid := hw
    simp only [rstep] at h
    split at h
    · rename_i id' σ hs
      split at h
      · rename_i hh
        cases h
        subst hh
        simp only [lproj, hs, List.filter_cons, hne _ hid, Bool.false_eq_true, ↓reduceIte]
        rw [find?_filter_ne _ _ _ (fun e => hid e.symm)]
      · cases h
    · cases h
  | ret id =>
    have hid : id ≠ cid := hw
    simp only [rstep] at h
    split at h
    · rename_i id' σ hs
      split at h
      · rename_i hh
        cases h
        subst hh
        simp only [lproj, hs, List.filter_cons, hne _ hid, Bool.false_eq_true, ↓reduceIte]
      · cases h
    · cases h

/-- **the events of `cid` act on its view as `lstep`** -/
theorem rstep_mine (cfg : Cfg) (cid : Nat) (r r' : RSt) (i : CItem) (h : rstep cfg r i = some r') (hw : i.who = cid)
    (hs : i.isStart = false) : lstep cfg (lproj cid r) i = some (lproj cid r') := by
  cases i with
  | start id kind tok react spec fam => cases hs
  | cb id st t rec qa qb =>
    have hid : id = cid := hw
    subst hid
    simp only [rstep] at h
    split at h
    · cases h
    · rename_i c hc
      split at h
      · rename_i hq
        cases h
        have hcid0 := List.find?_some hc
        have hcid : c.id = id := by simpa using hcid0
        simp only [lstep, lproj, hc, hq, and_self, ↓reduceIte, List.filter_cons, beq_self_eq_true, List.map_cons]
        rw [find?_modC_same _ _ _ (fun x _ => by rw [clientOnCb_id, hcid]), hc]
        rfl
      · cases h
  | act id a =>
    have hid : id = cid := hw
    subst hid
    simp only [rstep] at h
    split at h
    · rename_i id' a' rest σ hst
      split at h
      · rename_i hh
        cases h
        obtain ⟨rfl, rfl⟩ := hh
        simp only [lstep, lproj, hst, List.filter_cons, beq_self_eq_true, ↓reduceIte, List.map_cons,
          List.filter_append, List.map_append, afterAct_mine]
      · cases h
    · cases h
  | slot id slot qid =>
    have hid : id = cid := hw
    subst hid
    simp only [rstep] at h
    cases h
    simp only [lstep, lproj]
    rw [find?_modC_same _ _ _ (fun c hc => by rw [setSlot_id, hc])]
  | lost id =>
    have hid : id = cid := hw
    subst hid
    simp only [rstep] at h
    split at h
    · rename_i id' _ _ _ _ σ hst
      split at h
      · rename_i hh
        cases h
        obtain ⟨rfl, hn⟩ := hh
        simp only [lstep, lproj, hst, List.filter_cons, beq_self_eq_true, ↓reduceIte, List.map_cons, hn]
      · cases h
    · cases h
  | rel id =>
    have hid : id = cid := hw
    subst hid
    simp only [rstep] at h
    split at h
    · rename_i id' σ hst
      split at h
      · rename_i hh
        cases h
        subst hh
        simp only [lstep, lproj, hst, List.filter_cons, beq_self_eq_true, ↓reduceIte, List.map_cons,
          find?_filter_self]
      · cases h
    · cases h
  | ret id =>
    have hid : id = cid := hw
    subst hid
    simp only [rstep] at h
    split at h
    · rename_i id' σ hst
      split at h
      · rename_i hh
        cases h
        subst hh
        simp only [lstep, lproj, hst, List.filter_cons, beq_self_eq_true, ↓reduceIte, List.map_cons]
      · cases h
    · cases h

end Cares.Chan
