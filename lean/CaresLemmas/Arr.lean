import CaresModel.Dsa.Arr
/-! Helper lemmas for the `ares_array` model: index-wise characterisation of `memmove`/`abs`. -/
namespace Cares.Dsa.Arr

theorem memmove_length (m : List Nat) (d s n : Nat) (hs : s + n ≤ m.length) (hd : d + n ≤ m.length) :
    (memmove m d s n).length = m.length := by
  simp [memmove]; omega

theorem memmove_getElem? (m : List Nat) (d s n i : Nat) (hs : s + n ≤ m.length)
    (hd : d + n ≤ m.length) :
    (memmove m d s n)[i]? = if i < d then m[i]? else if i < d + n then m[s + (i - d)]? else m[i]? := by
  unfold memmove
  by_cases h1 : i < d
  · simp [h1, List.getElem?_append, List.getElem?_take]
    intro h; omega
  · simp only [h1, ↓reduceIte]
    by_cases h2 : i < d + n
    · simp only [h2, ↓reduceIte]
      rw [List.append_assoc, List.getElem?_append_right (by simp; omega)]
      simp only [List.length_take]
      have : min d m.length = d := by omega
      rw [this, List.getElem?_append_left (by simp; omega)]
      simp [List.getElem?_take]
      intro h; omega
    · simp only [h2, ↓reduceIte]
      rw [List.getElem?_append_right (by simp; omega)]
      simp only [List.length_append, List.length_take, List.length_drop, List.getElem?_drop]
      congr 1; omega

theorem abs_getElem? (a : Arr) (i : Nat) :
    a.abs[i]? = if i < a.cnt then a.mem[a.off + i]? else none := by
  unfold abs
  by_cases h : i < a.cnt <;> simp [h, List.getElem?_take]

theorem abs_length (a : Arr) (h : a.Inv) : a.abs.length = a.cnt := by
  unfold abs; unfold Inv at h; simp; omega

theorem le_pow2ceilAux (fuel p n : Nat) (hp : 0 < p) (hf : n ≤ p + fuel) : n ≤ pow2ceilAux fuel p n := by
  induction fuel generalizing p with
  | zero => simp [pow2ceilAux]; omega
  | succ k ih =>
    unfold pow2ceilAux
    split
    · assumption
    · exact ih (2 * p) (by omega) (by omega)

theorem le_pow2ceil (n : Nat) : n ≤ pow2ceil n := le_pow2ceilAux n 1 n (by omega) (by omega)

end Cares.Dsa.Arr
