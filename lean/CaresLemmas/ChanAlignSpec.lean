import CaresLemmas.ChanAlignLog
import CaresLemmas.ChanAlignKill
/-!
# What `read_answers` hands to `process_answer` (C20)

`readAnswersH_post`: on an aligned live TCP connection, the replies one (completed) run of `read_answers` hands to
`process_answer` are consecutive messages of the socket's stream starting at the consumed position; if the connection is
still live afterwards, the consumed position has moved exactly past them, and nothing else about its inbound side has
changed.
-/
namespace Cares.Chan

/-- the messages before a split position are those that have `arrived` there -/
theorem arrived_of_split {st done todo : List (Nat × Reply)} {pos : Nat} (h : Split st pos done todo) :
    arrived st pos = done.map (·.2) := by
  unfold arrived
  rw [h.eq, List.filter_append]
  have h1 : done.filter (fun x => decide (x.1 ≤ pos)) = done :=
    List.filter_eq_self.mpr (fun x hx => by simpa using h.done_le x hx)
  have h2 : todo.filter (fun x => decide (x.1 ≤ pos)) = [] :=
    List.filter_eq_nil_iff.mpr (fun x hx => by
      have := WfStream.lt_of_mem h.wf x hx
      simp only [decide_eq_true_eq]; omega)
  rw [h1, h2, List.append_nil]

/-- taking the next frame moves the consumed position past exactly that message -/
theorem arrived_consume {x : SV} {y : CV} {r : Reply} (hs : StreamOk x) (ha : AlignedV x y)
    (hn : nextTcpFrame x.stream x.spos y.inBytes = some r) :
    arrived x.stream (x.spos - (y.inBytes - (2 + r.len))) = arrived x.stream (x.spos - y.inBytes) ++ [r] := by
  obtain ⟨done, todo, hsp⟩ := ha.split hs
  obtain ⟨e, rest, _, _, _, _, hc, hsp'⟩ := consume_split hsp ha.le hn
  rw [hc, arrived_of_split hsp', arrived_of_split hsp]
  simp

/-- nothing complete is waiting: the consumed position is as far as the bytes read allow -/
theorem arrived_drained {x : SV} {y : CV} (hs : StreamOk x) (ha : AlignedV x y)
    (hn : nextTcpFrame x.stream x.spos y.inBytes = none) :
    arrived x.stream (x.spos - y.inBytes) = arrived x.stream x.spos := by
  obtain ⟨done, todo, hsp⟩ := ha.split hs
  rw [nextTcpFrame_spec hsp] at hn
  rw [arrived_of_split hsp]
  have hle := ha.le
  unfold arrived
  rw [hsp.eq, List.filter_append]
  have h1 : done.filter (fun x_1 => decide (x_1.1 ≤ x.spos)) = done :=
    List.filter_eq_self.mpr (fun z hz => by have := hsp.done_le z hz; simp only [decide_eq_true_eq]; omega)
  have h2 : todo.filter (fun x_1 => decide (x_1.1 ≤ x.spos)) = [] := by
    cases todo with
    | nil => rfl
    | cons a rest =>
      obtain ⟨e, r⟩ := a
      simp only at hn
      split at hn
      · cases hn
      · rename_i hlt
        rw [List.filter_eq_nil_iff]
        intro z hz
        have hwf := hsp.wf
        have : e ≤ z.1 := by
          cases hz with
          | head => exact Nat.le_refl _
          | tail _ hz' => have := WfStream.lt_of_mem hwf.2 z hz'; omega
        simp only [decide_eq_true_eq]; omega
  rw [h1, h2, List.append_nil]

theorem find?_map_self_sock (fd : Nat) (f : VSock → VSock) : ∀ (l : List VSock) (v : VSock),
    l.find? (·.fd == fd) = some v → (f v).fd = v.fd →
    (l.map fun x => if x.fd == fd then f x else x).find? (·.fd == fd) = some (f v)
  | [], _, hc, _ => by simp at hc
  | x :: rest, v, hc, hf => by
    simp only [List.find?_cons] at hc
    simp only [List.map_cons, List.find?_cons]
    by_cases hx : (x.fd == fd) = true
    · simp only [hx] at hc
      cases hc
      have : ((f x).fd == fd) = true := by rw [hf]; exact hx
      simp only [hx, ↓reduceIte, this]
    · simp only [Bool.not_eq_true] at hx
      simp only [hx] at hc
      simp only [hx, Bool.false_eq_true, ↓reduceIte]
      exact find?_map_self_sock fd f rest v hc hf

theorem sock?_modSock_self {s : St} {fd : Nat} {v : VSock} (f : VSock → VSock) (hv : s.sock? fd = some v)
    (hf : (f v).fd = v.fd) : (s.modSock fd f).sock? fd = some (f v) :=
  find?_map_self_sock fd f s.socks v hv hf

/-- `fd` names a TCP connection that is not being closed, on virtual socket `v` -/
def liveTcp (s : St) (fd : Nat) (c : Conn) (v : VSock) : Prop :=
  s.conn? fd = some c ∧ s.sock? fd = some v ∧ c.tcp = true ∧ c.unlinked = false

/-- what a read call on `fd` (started with connection `c` on socket `v`) leaves behind, with its log: every entry is
    for `fd`; and if `fd` still names a live connection, the peer's stream is unchanged, the read position has not gone
    back, the messages that have `arrived` at the new consumed position are those that had before followed by exactly
    the replies handed over, and no complete message is left in in_buf -/
def ReadPost (fd : Nat) (v : VSock) (c : Conn) (out : St) (log : HLog) : Prop :=
  (∀ e ∈ log, e.1 = fd) ∧
  ∀ c' v', out.conn? fd = some c' → out.sock? fd = some v' → c'.unlinked = false →
    c'.tcp = true ∧ v'.stream = v.stream ∧ v'.slen = v.slen ∧ v.spos ≤ v'.spos ∧
    arrived v.stream (v'.spos - c'.inBytes) = arrived v.stream (v.spos - c.inBytes) ++ log.map (·.2) ∧
    nextTcpFrame v'.stream v'.spos c'.inBytes = none

theorem exec_nextFd_mono (fuel : Nat) (call : Call) (s : St) (h : Aligned s)
    (hf : (exec fuel call s).1.outOfFuel = false) : s.nextFd ≤ (exec fuel call s).1.nextFd := by
  have h0 : Al (fun _ _ _ => True) s.nextFd s :=
    fun _ => alCore_of_aligned h (Nat.le_refl _) (fun _ _ _ _ _ _ => trivial)
  exact (exec_Al (fun _ _ _ => trivial) fuel call s (okCall_true call) h0 hf).n0

/-- a call that is not a read call, seen through the instrumented executor: no log entry, the invariant is kept, and
    any property `P` of the inbound side of the live connection `fd` is carried over (the connection is untouched) -/
theorem nonread_step (P : SV → CV → Prop) (n : Nat) (call : Call) (t : St) (fd : Nat)
    (hcall : ∀ fd, ¬ call.readsFd fd) (hal : Aligned t) (hfd : fd < t.nextFd)
    (ht0 : ∀ c' v', t.conn? fd = some c' → t.sock? fd = some v' → c'.unlinked = false → P (vflag v') (rflag c'))
    (hf : (execH n call t).1.1.outOfFuel = false) :
    (execH n call t).2 = [] ∧ Aligned (execH n call t).1.1 ∧ t.nextFd ≤ (execH n call t).1.1.nextFd ∧
      ∀ c' v', (execH n call t).1.1.conn? fd = some c' → (execH n call t).1.1.sock? fd = some v' →
        c'.unlinked = false → P (vflag v') (rflag c') := by
  rw [execH_fst] at hf ⊢
  refine ⟨execH_log_nil n call t hcall, exec_Aligned n call t hal hf, exec_nextFd_mono n call t hal hf, ?_⟩
  intro c' v' hc' hv' hu'
  obtain ⟨c0, v0, hc0, hv0, hu0, hvv, hcc⟩ := exec_read_frame n call t hal fd hfd (hcall fd) hf hc' hv' hu'
  rw [hvv, hcc]; exact ht0 c0 v0 hc0 hv0 hu0

theorem aligned_consume {s : St} (hal : Aligned s) {fd : Nat} {c : Conn} {v : VSock} {r : Reply}
    (hc : s.conn? fd = some c) (hv : s.sock? fd = some v)
    (hnext : c.tcp = true → nextTcpFrame v.stream v.spos c.inBytes = some r) (ho : s.outOfFuel = false) :
    Aligned (s.modConn fd fun c => { c with inMsgs := c.inMsgs.drop 1, inBytes := c.inBytes - (2 + r.len) }) := by
  have h0 : Al (fun _ _ _ => True) 0 s :=
    fun _ => alCore_of_aligned hal (Nat.zero_le _) (fun _ _ _ _ _ _ => trivial)
  exact aligned_of_alCore (Al_consume (fun _ _ _ _ _ => trivial) s c v r hc hv hnext h0 ho)

theorem execH_oof_back (n : Nat) (call : Call) (t : St) (h : (execH n call t).1.1.outOfFuel = false) :
    t.outOfFuel = false := by
  rw [execH_fst] at h; exact exec_oof_back _ _ _ h

/-- **one run of `read_answers` on an aligned live TCP connection** -/
theorem readAnswersH_post : ∀ (n : Nat) (s : St) (fd : Nat) (c : Conn) (v : VSock), Aligned s → liveTcp s fd c v →
    (execH n (.readAnswers fd) s).1.1.outOfFuel = false →
    ReadPost fd v c (execH n (.readAnswers fd) s).1.1 (execH n (.readAnswers fd) s).2
  | 0, s, fd, c, v, _, _, hf => by
    exact absurd hf (by simp [execH, St.oof])
  | n + 1, s, fd, c, v, hal, ⟨hc, hv, ht, hu⟩, hf => by
    have hfdlt : fd < s.nextFd := hal.fresh fd v hv
    have hf' : (bodyReadAnswersH (execH n) fd s).1.1.outOfFuel = false := hf
    show ReadPost fd v c (bodyReadAnswersH (execH n) fd s).1.1 (bodyReadAnswersH (execH n) fd s).2
    unfold bodyReadAnswersH at hf' ⊢
    simp only [hc, hv, ht, Bool.not_true, Bool.false_eq_true, ↓reduceIte] at hf' ⊢
    cases hnx : nextTcpFrame v.stream v.spos c.inBytes with
    | none =>
      simp only [hnx] at hf' ⊢
      obtain ⟨hl, _, _, hfr⟩ := nonread_step (fun x y => x = vflag v ∧ y = rflag c) n .flushRequeue s fd
        (fun _ h => h) hal hfdlt (by
          intro c' v' hc' hv' _
          rw [hc] at hc'; rw [hv] at hv'; cases hc'; cases hv'; exact ⟨rfl, rfl⟩) hf'
      refine ⟨(by rw [hl]; intro e he; cases he), ?_⟩
      intro c' v' hc' hv' hu'
      obtain ⟨hvv, hcc⟩ := hfr c' v' hc' hv' hu'
      have e1 : v'.stream = v.stream := congrArg SV.stream hvv
      have e2 : v'.slen = v.slen := congrArg SV.slen hvv
      have e3 : v'.spos = v.spos := congrArg SV.spos hvv
      have e4 : c'.inBytes = c.inBytes := congrArg CV.inBytes hcc
      have e5 : c'.tcp = c.tcp := congrArg CV.tcp hcc
      refine ⟨by rw [e5, ht], e1, e2, by omega, ?_, by rw [e1, e3, e4]; exact hnx⟩
      rw [hl, e3, e4]; simp
    | some r =>
      simp only [hnx] at hf' ⊢
      -- the state handed to `process_answer`
      generalize hs1 : (s.modConn fd fun c => { c with inMsgs := c.inMsgs.drop 1, inBytes := c.inBytes - (2 + r.len) }) = s1
        at hf' ⊢
      have hc1 : s1.conn? fd = some { c with inMsgs := c.inMsgs.drop 1, inBytes := c.inBytes - (2 + r.len) } := by
        rw [← hs1]; exact conn?_modConn_self _ hc rfl
      have hv1 : s1.sock? fd = some v := by rw [← hs1]; exact hv
      have hn1 : s1.nextFd = s.nextFd := by rw [← hs1]; rfl
      have harr : arrived v.stream (v.spos - (c.inBytes - (2 + r.len))) =
          arrived v.stream (v.spos - c.inBytes) ++ [r] :=
        arrived_consume (x := vflag v) (y := rflag c) (hal.stream fd v hv) (hal.aligned fd c v hc hv ht hu) hnx
      generalize hp : execH n (.processAnswer fd r) s1 = p at hf' ⊢
      -- `process_answer` itself: once we know it did not run out of fuel
      have hpf : p.1.1.outOfFuel = false → p.2 = [] ∧ Aligned p.1.1 ∧ s.nextFd ≤ p.1.1.nextFd ∧
          ∀ c' v', p.1.1.conn? fd = some c' → p.1.1.sock? fd = some v' → c'.unlinked = false →
            vflag v' = vflag v ∧
              rflag c' = rflag { c with inMsgs := c.inMsgs.drop 1, inBytes := c.inBytes - (2 + r.len) } := by
        intro hpo
        rw [← hp] at hpo ⊢
        have ho1 : s1.outOfFuel = false := execH_oof_back _ _ _ hpo
        have hal1 : Aligned s1 := by
          rw [← hs1]; exact aligned_consume hal hc hv (fun _ => hnx) (by rw [← hs1] at ho1; exact ho1)
        have := nonread_step (fun x y => x = vflag v ∧
            y = rflag { c with inMsgs := c.inMsgs.drop 1, inBytes := c.inBytes - (2 + r.len) }) n
          (.processAnswer fd r) s1 fd (fun _ h => h) hal1 (by omega) (by
            intro c' v' hc' hv' _
            rw [hc1] at hc'; rw [hv1] at hv'; cases hc'; cases hv'; exact ⟨rfl, rfl⟩) hpo
        rw [hn1] at this
        exact this
      -- the connection is gone (or being closed) at some point: nothing is claimed of it
      have dead : ∀ (t : St) (l1 l2 : HLog), Aligned t → s.nextFd ≤ t.nextFd →
          (∀ c', t.conn? fd = some c' → c'.unlinked = true) →
          (execH n .flushRequeue t).1.1.outOfFuel = false → l1 = [] → l2 = [] →
          ReadPost fd v c (execH n .flushRequeue t).1.1 ((fd, r) :: l1 ++ l2 ++ (execH n .flushRequeue t).2) := by
        intro t l1 l2 halt hmt hdead hto h1 h2
        obtain ⟨hql, _, _, hfrq⟩ := nonread_step (fun _ _ => False) n .flushRequeue t fd (fun _ h => h) halt
          (by omega) (by
            intro c' _ hc' _ hu'
            rw [hdead c' hc'] at hu'; cases hu') hto
        refine ⟨(by rw [hql, h1, h2]; intro e he; simp at he; rw [he]), ?_⟩
        intro c' v' hc' hv' hu'
        exact (hfrq c' v' hc' hv' hu').elim
      cases hcp : p.1.1.conn? fd with
      | none =>
        simp only [hcp] at hf' ⊢
        obtain ⟨hpl, halp, hmp, _⟩ := hpf (execH_oof_back _ _ _ hf')
        have := dead p.1.1 p.2 [] halp hmp (fun c' hc' => by rw [hcp] at hc'; cases hc') hf' hpl rfl
        simpa using this
      | some cp =>
        simp only [hcp] at hf' ⊢
        by_cases hcu : cp.unlinked = true
        · simp only [hcu, ↓reduceIte] at hf' ⊢
          obtain ⟨hpl, halp, hmp, _⟩ := hpf (execH_oof_back _ _ _ hf')
          have := dead p.1.1 p.2 [] halp hmp (fun c' hc' => by rw [hcp] at hc'; cases hc'; exact hcu) hf' hpl rfl
          simpa using this
        · simp only [hcu, Bool.false_eq_true, ↓reduceIte] at hf' ⊢
          by_cases hst : (p.1.2 != Status.ok) = true
          · simp only [hst, ↓reduceIte] at hf' ⊢
            have hfe := execH_oof_back _ _ _ hf'
            obtain ⟨hpl, halp, hmp, _⟩ := hpf (execH_oof_back _ _ _ hfe)
            have hfe' := hfe
            rw [execH_fst] at hfe'
            have hkill := exec_connError_kills n fd p.1.2 p.1.1 halp (by omega) hfe'
            have hel : (execH n (.connError fd true p.1.2) p.1.1).2 = [] := execH_log_nil _ _ _ (fun _ h => h)
            have hale : Aligned (execH n (.connError fd true p.1.2) p.1.1).1.1 := by
              rw [execH_fst]; exact exec_Aligned _ _ _ halp hfe'
            have hme : s.nextFd ≤ (execH n (.connError fd true p.1.2) p.1.1).1.1.nextFd := by
              rw [execH_fst]; have := exec_nextFd_mono _ _ _ halp hfe'; omega
            exact dead _ p.2 _ hale hme (by rw [execH_fst]; exact hkill) hf' hpl hel
          · simp only [hst, Bool.false_eq_true, ↓reduceIte] at hf' ⊢
            obtain ⟨hpl, halp, hmp, hfrp⟩ := hpf (execH_oof_back _ _ _ hf')
            have hcpu : cp.unlinked = false := by simpa using hcu
            obtain ⟨vp, hvp⟩ := halp.hasSock fd cp hcp
            obtain ⟨hvv, hcc⟩ := hfrp cp vp hcp hvp hcpu
            have e1 : vp.stream = v.stream := congrArg SV.stream hvv
            have e2 : vp.slen = v.slen := congrArg SV.slen hvv
            have e3 : vp.spos = v.spos := congrArg SV.spos hvv
            have e4 : cp.inBytes = c.inBytes - (2 + r.len) := congrArg CV.inBytes hcc
            have e5 : cp.tcp = c.tcp := congrArg CV.tcp hcc
            obtain ⟨ihl, ihp⟩ := readAnswersH_post n p.1.1 fd cp vp halp ⟨hcp, hvp, by rw [e5, ht], hcpu⟩ hf'
            refine ⟨?_, ?_⟩
            · intro e he
              rw [hpl] at he
              simp only [List.cons_append, List.nil_append, List.mem_cons] at he
              rcases he with he | he
              · rw [he]
              · exact ihl e he
            · intro c' v' hc' hv' hu'
              obtain ⟨a1, a2, a3, a4, a5, a6⟩ := ihp c' v' hc' hv' hu'
              refine ⟨a1, by rw [a2, e1], by rw [a3, e2], by omega, ?_, a6⟩
              rw [e1, e3, e4] at a5
              rw [a5, harr, hpl]
              simp

theorem ReadPost.mono {fd : Nat} {v v1 : VSock} {c c1 : Conn} {out : St} {log : HLog} (h : ReadPost fd v1 c1 out log)
    (e1 : v1.stream = v.stream) (e2 : v1.slen = v.slen) (e3 : v.spos ≤ v1.spos)
    (e4 : v1.spos - c1.inBytes = v.spos - c.inBytes) : ReadPost fd v c out log := by
  refine ⟨h.1, ?_⟩
  intro c' v' hc' hv' hu'
  obtain ⟨a1, a2, a3, a4, a5, a6⟩ := h.2 c' v' hc' hv' hu'
  refine ⟨a1, by rw [a2, e1], by rw [a3, e2], by omega, ?_, a6⟩
  rw [e1, e4] at a5; exact a5

/-- **`read_conn_packets` on an aligned live TCP connection**: after at most one `recv` (which moves the read position
    and in_buf by the same amount) it runs `read_answers`, or closes the connection -/
theorem bodyProcessReadH_tcp (goH : Call → St → (St × Ret) × HLog) (fd : Nat) (s : St) (c : Conn) (v : VSock)
    (hal : Aligned s) (hl : liveTcp s fd c v) (ho : s.outOfFuel = false) :
    ∃ s' c' v', Aligned s' ∧ liveTcp s' fd c' v' ∧ s'.outOfFuel = false ∧ v'.stream = v.stream ∧ v'.slen = v.slen ∧
      v.spos ≤ v'.spos ∧ v'.spos - c'.inBytes = v.spos - c.inBytes ∧
      (bodyProcessReadH goH fd s = goH (.readAnswers fd) s' ∨
        bodyProcessReadH goH fd s =
          (((goH (.connError fd true .connrefused) s').1.1, .connrefused), (goH (.connError fd true .connrefused) s').2)) := by
  obtain ⟨hc, hv, ht, hu⟩ := hl
  -- states that differ from `s` outside connections and sockets only
  have same : ∀ s' : St, s'.conns = s.conns → s'.socks = s.socks → s'.nextFd = s.nextFd → s'.outOfFuel = s.outOfFuel →
      Aligned s' ∧ liveTcp s' fd c v ∧ s'.outOfFuel = false := by
    intro s' h1 h2 h3 h4
    refine ⟨hal.of_views (by rw [h1]) (by rw [h2]) h3, ⟨?_, ?_, ht, hu⟩, by rw [h4, ho]⟩
    · show s'.conns.find? _ = _; rw [h1]; exact hc
    · show s'.socks.find? _ = _; rw [h2]; exact hv
  have recv : ∀ (s' : St) (n : Nat) (chunks : List Nat), s'.conns = s.conns → s'.socks = s.socks →
      s'.nextFd = s.nextFd → s'.outOfFuel = s.outOfFuel → n ≤ v.slen - v.spos →
      ∃ c' v', Aligned ((s'.modSock fd fun v => { v with chunks := chunks, spos := v.spos + n }).modConn fd
          fun c => { c with inBytes := c.inBytes + n, connected := true }) ∧
        liveTcp ((s'.modSock fd fun v => { v with chunks := chunks, spos := v.spos + n }).modConn fd
          fun c => { c with inBytes := c.inBytes + n, connected := true }) fd c' v' ∧
        v'.stream = v.stream ∧ v'.slen = v.slen ∧ v.spos ≤ v'.spos ∧ v'.spos - c'.inBytes = v.spos - c.inBytes := by
    intro s' n chunks h1 h2 h3 h4 hn
    obtain ⟨hal', ⟨hc', hv', _, _⟩, ho'⟩ := same s' h1 h2 h3 h4
    have h0 : Al (fun _ _ _ => True) 0 s' :=
      fun _ => alCore_of_aligned hal' (Nat.zero_le _) (fun _ _ _ _ _ _ => trivial)
    refine ⟨{ c with inBytes := c.inBytes + n, connected := true }, { v with chunks := chunks, spos := v.spos + n },
      aligned_of_alCore (Al_readTcp (fun _ _ _ _ _ => trivial) s' n chunks v hv' hn h0 ho'), ⟨?_, ?_, ht, hu⟩, rfl, rfl,
      Nat.le_add_right _ _, ?_⟩
    · exact conn?_modConn_self _ (by exact hc') rfl
    · exact sock?_modSock_self _ hv' rfl
    · show v.spos + n - (c.inBytes + n) = v.spos - c.inBytes
      omega
  unfold bodyProcessReadH
  have hu' : ¬ c.unlinked = true := by simp [hu]
  simp only [hc, hv, hu, ht, Bool.false_eq_true, ↓reduceIte, Bool.not_true]
  split
  · -- `recv` failed
    obtain ⟨a1, a2, a3⟩ := same (((s.fault "recvfrom").2.slog fd "recv").emit s!"recv!({fd})") rfl rfl rfl rfl
    split
    · exact ⟨_, c, v, a1, a2, a3, rfl, rfl, Nat.le_refl _, rfl, .inl rfl⟩
    · exact ⟨_, c, v, a1, a2, a3, rfl, rfl, Nat.le_refl _, rfl, .inr rfl⟩
  · obtain ⟨a1, a2, a3⟩ := same ((s.fault "recvfrom").2.slog fd "recv") rfl rfl rfl rfl
    split
    · split
      · exact ⟨_, c, v, a1, a2, a3, rfl, rfl, Nat.le_refl _, rfl, .inr rfl⟩
      · exact ⟨_, c, v, a1, a2, a3, rfl, rfl, Nat.le_refl _, rfl, .inl rfl⟩
    · cases hch : v.chunks with
      | nil =>
        -- no script: everything available is read
        simp only [Bool.false_eq_true, ↓reduceIte]
        obtain ⟨c', v', b1, b2, b3, b4, b5, b6⟩ :=
          recv ((s.fault "recvfrom").2.slog fd "recv") (v.slen - v.spos) [] rfl rfl rfl rfl (Nat.le_refl _)
        exact ⟨_, c', v', b1, b2, by simp only [chan_frame]; exact ho, b3, b4, b5, b6, .inl rfl⟩
      | cons k r =>
        by_cases hk : (k == 0) = true
        · simp only [hk, ↓reduceIte]
          refine ⟨_, c, { v with chunks := r }, ?_, ⟨?_, ?_, ht, hu⟩, by simp only [chan_frame]; exact ho, rfl, rfl,
            Nat.le_refl _, rfl, .inl rfl⟩
          · exact a1.of_views rfl (vks_modSock_id _ _ _ (fun _ => rfl)) rfl
          · exact a2.1
          · exact sock?_modSock_self _ a2.2.1 rfl
        · simp only [hk, Bool.false_eq_true, ↓reduceIte]
          obtain ⟨c', v', b1, b2, b3, b4, b5, b6⟩ :=
            recv ((s.fault "recvfrom").2.slog fd "recv") (min k (v.slen - v.spos)) r rfl rfl rfl rfl
              (Nat.min_le_right _ _)
          exact ⟨_, c', v', b1, b2, by simp only [chan_frame]; exact ho, b3, b4, b5, b6, .inl rfl⟩

/-- **one run of `read_conn_packets` on an aligned live TCP connection**: same conclusion as for `read_answers` -/
theorem processReadH_post (n : Nat) (s : St) (fd : Nat) (c : Conn) (v : VSock) (hal : Aligned s)
    (hl : liveTcp s fd c v) (hf : (execH n (.processRead fd) s).1.1.outOfFuel = false) :
    ReadPost fd v c (execH n (.processRead fd) s).1.1 (execH n (.processRead fd) s).2 := by
  cases n with
  | zero => exact absurd hf (by simp [execH, St.oof])
  | succ n =>
    have ho : s.outOfFuel = false := by rw [execH_fst] at hf; exact exec_oof_back _ _ _ hf
    obtain ⟨s', c', v', hal', hl', ho', e1, e2, e3, e4, hcase⟩ := bodyProcessReadH_tcp (execH n) fd s c v hal hl ho
    have hf' : (bodyProcessReadH (execH n) fd s).1.1.outOfFuel = false := hf
    show ReadPost fd v c (bodyProcessReadH (execH n) fd s).1.1 (bodyProcessReadH (execH n) fd s).2
    rcases hcase with hcase | hcase
    · rw [hcase] at hf' ⊢
      exact (readAnswersH_post n s' fd c' v' hal' hl' hf').mono e1 e2 e3 e4
    · rw [hcase] at hf' ⊢
      obtain ⟨hc', hv', ht', hu'⟩ := hl'
      have hlog : (execH n (.connError fd true .connrefused) s').2 = [] := execH_log_nil _ _ _ (fun _ h => h)
      have hfe : (exec n (.connError fd true .connrefused) s').1.outOfFuel = false := by rw [← execH_fst]; exact hf'
      have hkill := exec_connError_kills n fd .connrefused s' hal' (hal'.fresh fd v' hv') hfe
      refine ⟨?_, ?_⟩
      · show ∀ e ∈ (execH n (.connError fd true .connrefused) s').2, e.1 = fd
        rw [hlog]; intro e he; cases he
      · intro c2 v2 hc2 hv2 hu2
        have hc2' : (exec n (.connError fd true .connrefused) s').1.conn? fd = some c2 := by
          rw [← execH_fst]; exact hc2
        rw [hkill c2 hc2'] at hu2; cases hu2

end Cares.Chan
