import CaresLemmas.ChanPolicyExec
/-!
# C09 — `ares_send_query` consults the probe lottery at most once, as its last step (for every `go`)

`noProbe go` is `go` with the lottery switched off.  `bodySendQuery go` either is `bodySendQuery (noProbe go)` — no
lottery at all — or it is `bodySendQuery (noProbe go)` followed by exactly one call `go (.probe srvId key)`; the latter
only for a request without a requested server that has not been tried before.
-/
namespace Cares.Chan

/-- `go` with `ares_probe_failed_server` replaced by a no-op -/
def noProbe (go : Call → St → St × Ret) : Call → St → St × Ret
  | .probe _ _, s => (s, .ok)
  | c, s => go c s

theorem sqAfter_once (go : Call → St → St × Ret) (q : Query) (srv : Server) (key fd : Nat) (pd : Bool) (wst : Status)
    (s : St) :
    sqAfter go q srv key fd pd wst s = sqAfter (noProbe go) q srv key fd pd wst s ∨
    (pd = true ∧ (sqAfter (noProbe go) q srv key fd pd wst s).2 = .ok ∧
      sqAfter go q srv key fd pd wst s =
        ((go (.probe srv.id key) (sqAfter (noProbe go) q srv key fd pd wst s).1).1, .ok)) := by
  cases pd
  · exact Or.inl rfl
  · unfold sqAfter
    split
    · split
      · exact Or.inr ⟨rfl, rfl, rfl⟩
      · exact Or.inl rfl
      · exact Or.inl rfl
    all_goals exact Or.inl rfl

/-- **one lottery per `ares_send_query`**, for every `go` -/
theorem sendQueryBlocks_once (go : Call → St → St × Ret) (reqSrv : Option Nat) (key : Nat) (s : St) :
    sendQueryBlocks go reqSrv key s = sendQueryBlocks (noProbe go) reqSrv key s ∨
    (reqSrv = none ∧ (∃ q, s.query? key = some q ∧ q.tryCount = 0) ∧
      (sendQueryBlocks (noProbe go) reqSrv key s).2 = .ok ∧
      ∃ srvId, sendQueryBlocks go reqSrv key s =
        ((go (.probe srvId key) (sendQueryBlocks (noProbe go) reqSrv key s).1).1, .ok)) := by
  unfold sendQueryBlocks
  split
  · exact Or.inl rfl
  · rename_i q hq
    extract_lets sorted
    split
    rename_i srv? s1 hch
    split
    · exact Or.inl rfl
    · rename_i srv
      extract_lets s2 pd existing
      split
      rename_i connRes s3 hopen
      split
      · exact Or.inl rfl
      · rename_i fd
        extract_lets cookie newCk s4 q2
        have hw : sqWrite (noProbe go) s4 fd = sqWrite go s4 fd := rfl
        rw [hw]
        split
        rename_i wst s5 hwr
        rcases sqAfter_once go q2 srv key fd pd wst s5 with h | ⟨hpd, hok, h⟩
        · exact Or.inl h
        · right
          simp only [pd, Bool.and_eq_true, beq_iff_eq, Option.isNone_iff_eq_none] at hpd
          exact ⟨hpd.1.1, ⟨q, hq, hpd.2⟩, hok, srv.id, h⟩

theorem bodySendQuery_once (go : Call → St → St × Ret) (reqSrv : Option Nat) (key : Nat) (s : St) :
    bodySendQuery go reqSrv key s = bodySendQuery (noProbe go) reqSrv key s ∨
    (reqSrv = none ∧ (∃ q, s.query? key = some q ∧ q.tryCount = 0) ∧
      (bodySendQuery (noProbe go) reqSrv key s).2 = .ok ∧
      ∃ srvId, bodySendQuery go reqSrv key s =
        ((go (.probe srvId key) (bodySendQuery (noProbe go) reqSrv key s).1).1, .ok)) := by
  rw [bodySendQuery_eq, bodySendQuery_eq]
  exact sendQueryBlocks_once go reqSrv key s

end Cares.Chan
