import CaresLemmas.ChanPolicyProbe3
/-!
# C09 — `probe_pending` is set only while a probe query exists: every procedure body, `exec`

`GoP go`: what is assumed of the calls a body makes — the invariant `PXo` for every ghost parameter, with the hole the
call's owner allows at entry (`preHole`) and no hole at exit; the walk of `ares_cancel` exhausts the list on top of the
stack (or raised a model fault); the callback of a probe is `server_probe_cb`; the fuel flag is sticky.
`goP_exec : ∀ fuel, GoP (exec fuel)`.
-/
namespace Cares.Chan
set_option linter.unusedVariables false

/-- the hole a call may be entered with: a probe's `ares_send_nolock` (flag set, query not yet created) and a probe's
    completion callback (query possibly released already) -/
def preHole : Call → Option Nat
  | .sendNolock _ _ _ _ owner _ => holeOf owner
  | .callback owner _ _ _ _ => holeOf owner
  | _ => none

/-- the list on top of the `listCopy` stack has been walked to its end -/
def HeadEmpty (s : St) : Prop := ∀ l, s.listCopy.head? = some l → l = []

structure GoP (go : Call → St → St × Ret) : Prop where
  inv : ∀ (g : Gh) c s, PXo g (preHole c) s → PXo g none (go c s).1
  top : ∀ (g : Gh) st s, PXo g none s →
    (go (.cancelLoop st false) s).1.outOfFuel = true ∨ HeadEmpty (go (.cancelLoop st false) s).1 ∨
      g.L < (go (.cancelLoop st false) s).1.modelFaults.length
  cb : ∀ pid re st t rec s, (go (.callback (.probe pid) re st t rec) s).1.outOfFuel = true ∨
    go (.callback (.probe pid) re st t rec) s = (releaseProbe pid s, .ok)
  oof : ∀ c s, s.outOfFuel = true → (go c s).1.outOfFuel = true

/-- one backward step for this invariant -/
macro "px_step " hgo:term : tactic => `(tactic| first
  | assumption
  | ((with_reducible apply GoP.inv $hgo); show PXo _ none _)
  | (with_reducible apply pair_fst; assumption)
  | (with_reducible apply pair_snd; assumption)
  | px_spec
  | with_reducible chan_elim
  | px_congr
  | unfold_state_let
  | split)

section
variable {g : Gh}

chan_invariant_go p : (PXo g none) goBy GoP oofBy (fun _ _ => PXo.oof)
  leafBy (repeat' (first
                  | px_step hgo
                  | with_reducible apply sqChoose_p hgo
                  | with_reducible apply sqOpen_p hgo
                  | with_reducible apply sqPrep_p hgo
                  | with_reducible apply sqWrite_p hgo
                  | with_reducible apply sqDeadline_p hgo
                  | with_reducible apply sqCommit_p hgo
                  | with_reducible apply sqAfter_p hgo
                  | (with_reducible apply foldl_inv; intro _ _ _)))
  exceptBodies noExec bodySendNolock bodyProbe bodyEndQuery bodyCallback bodyCancel bodyCancelLoop

end

/-! ### the bodies that set, release or move what the invariant is about -/

section
variable {g : Gh} {go : Call → St → St × Ret}

/-- `server_probe_cb` / the completion callback of a compound request / the application's callback -/
theorem bodyCallback_p (hgo : GoP go) (a1 : Owner) (a2 : List Nat) (a3 : Status) (a4 : Nat) (a5 : Option Reply) (s : St)
    (h : PXo g (holeOf a1) s) : PXo g none (bodyCallback go a1 a2 a3 a4 a5 s).1 := by
  unfold bodyCallback
  cases a1 with
  | probe pid => exact PXo.release pid h
  | client id =>
    have h' : PXo g none s := h
    dsimp only
    split
    · exact PXo.mfault h'
    · refine GoP.inv hgo g _ _ ?_
      show PXo g none _
      exact PXo.modClient h'
  | user tok =>
    have h' : PXo g none s := h
    exact GoP.inv hgo g _ _ h'

/-- `ares_send_nolock`: every early failure goes through the owner's callback; otherwise the query is stored under
    the next key — for a probe that fills the hole -/
theorem bodySendNolock_p (hgo : GoP go) (a1 : Option Nat) (a2 a3 : Bool) (a4 : ReqSpec) (a5 : Owner) (a6 : List Nat)
    (s : St) (h : PXo g (holeOf a5) s) : PXo g none (bodySendNolock go a1 a2 a3 a4 a5 a6 s).1 := by
  unfold bodySendNolock
  chan_paths
  all_goals (repeat' (first
    | assumption
    | ((with_reducible apply GoP.inv hgo); first | show PXo _ (holeOf a5) _ | show PXo _ none _)
    | (with_reducible apply pair_fst; assumption)
    | (with_reducible apply pair_snd; assumption)
    | (refine PXo.addQuery' (H := holeOf a5) (s := ?s0) (q := ?q) (k := ?k) ?h1 ?h2 ?h3 ?h4 ?h5 ?h6 ?hq ?hk ?hH ?hI
       case h1 => exact rfl
       case h2 => exact rfl
       case h3 => exact rfl
       case h4 => exact rfl
       case h5 => exact rfl
       case h6 => exact rfl
       case hq => exact rfl
       case hk => exact (nextKey_draws _ _ _).symm
       case hH => exact fun pid hp => holeOf_some hp)
    | px_spec
    | with_reducible chan_elim
    | px_congr
    | unfold_state_let
    | split))

/-- `ares_probe_failed_server`: the flag is set and the probe's `ares_send_nolock` is entered with that hole -/
theorem bodyProbe_p (hgo : GoP go) (a1 a2 : Nat) (s : St) (h : PXo g none s) :
    PXo g none (bodyProbe go a1 a2 s).1 := by
  unfold bodyProbe
  chan_paths
  all_goals (repeat' (first
    | assumption
    | ((with_reducible apply GoP.inv hgo); show PXo _ (some _) _; with_reducible apply PXo.setFlag)
    | (with_reducible apply pair_fst; assumption)
    | (with_reducible apply pair_snd; assumption)
    | px_spec
    | with_reducible chan_elim
    | px_congr
    | unfold_state_let
    | split))

theorem query?_modServer (s : St) (id : Nat) (f : Server → Server) (k : Nat) :
    (s.modServer id f).query? k = s.query? k := rfl

theorem query?_metricsRecord (s : St) (q : Query) (srv : Option Nat) (st : Status) (rec : Option Reply) (k : Nat) :
    (s.metricsRecord q srv st rec).query? k = s.query? k := by
  obtain ⟨a, e⟩ := metricsRecord_shape s q srv st rec
  rw [e]; rfl

/-- the state `end_query` hands to `ares_metrics_record` -/
def eqPre (s : St) (srv : Option Nat) : St :=
  match srv with
  | some id => s.modServer id fun v => { v with probePending := false }
  | none => s

theorem bodyEndQuery_eqp (go : Call → St → St × Ret) (srv : Option Nat) (key : Nat) (st : Status) (rec : Option Reply)
    (s : St) (q : Query) (hq : s.query? key = some q) :
    bodyEndQuery go srv key st rec s =
      ((go (.callback q.owner q.react st q.timeouts rec)
          (((eqPre s srv).metricsRecord q srv st rec).detach key)).1.freeQuery key, .ok) := by
  unfold bodyEndQuery eqPre
  simp only [hq]
  rfl

/-- `end_query`: detach (the query becomes doomed), callback, release -/
theorem bodyEndQuery_p (hgo : GoP go) (a1 : Option Nat) (a2 : Nat) (a3 : Status) (a4 : Option Reply) (s : St)
    (h : PXo g none s) : PXo g none (bodyEndQuery go a1 a2 a3 a4 s).1 := by
  cases hq : s.query? a2 with
  | none =>
    unfold bodyEndQuery
    rw [hq]
    exact PXo.mfault h
  | some q =>
    rw [bodyEndQuery_eqp go a1 a2 a3 a4 s q hq]
    have h1 : PXo g none (eqPre s a1) := by
      unfold eqPre
      cases a1 with
      | none => exact h
      | some id => exact PXo.modServer (fun _ => ⟨rfl, fun hh => nomatch hh⟩) h
    have hq1 : (eqPre s a1).query? a2 = some q := by
      unfold eqPre
      cases a1 with
      | none => exact hq
      | some id => exact hq
    generalize eqPre s a1 = s1 at h1 hq1
    have h2 : PXo g none (s1.metricsRecord q a1 a3 a4) := PXo.metricsRecord h1
    have hq2 : (s1.metricsRecord q a1 a3 a4).query? a2 = some q := by rw [query?_metricsRecord]; exact hq1
    generalize s1.metricsRecord q a1 a3 a4 = s2 at h2 hq2
    have h3 := PXo.detach hq2 h2
    generalize s2.detach a2 = s3 at h3
    have h4 := GoP.inv hgo _ (.callback q.owner q.react a3 q.timeouts a4) s3 (PXo.weaken _ h3)
    show PXo g none ((go (.callback q.owner q.react a3 q.timeouts a4) s3).1.freeQuery a2)
    refine PXo.undoom (o := q.owner) ?_ h4
    -- a probe's callback has reset the flag of its server
    cases ho : q.owner with
    | probe pid =>
      rcases GoP.cb hgo pid q.react a3 q.timeouts a4 s3 with hc | hc
      · exact Or.inl hc
      · right
        intro pid' hpid v hv hid
        cases hpid
        rw [hc] at hv
        exact (releaseProbe_spec pid s3).1 v hv hid
    | user tok => exact Or.inr (fun pid hp => nomatch hp)
    | client id => exact Or.inr (fun pid hp => nomatch hp)

/-- the walk of `ares_cancel` / `ares_destroy`: release, then callback -/
theorem bodyCancelLoop_p (hgo : GoP go) (a1 : Status) (a2 : Bool) (s : St) (h : PXo g none s) :
    PXo g none (bodyCancelLoop go a1 a2 s).1 := by
  unfold bodyCancelLoop
  split
  · exact h
  · rename_i key _
    split
    · exact PXo.mfault h
    · rename_i q hq
      dsimp only
      refine GoP.inv hgo g _ _ ?_
      show PXo g none _
      exact GoP.inv hgo g (.callback q.owner q.react a1 0 none) _ (PXo.freeQuery hq h)

/-- … and when it returns, the list it walked is exhausted (or a model fault was raised, or the fuel ran out) -/
theorem bodyCancelLoop_top (hgo : GoP go) (a1 : Status) (s : St) (h : PXo g none s) :
    (bodyCancelLoop go a1 false s).1.outOfFuel = true ∨ HeadEmpty (bodyCancelLoop go a1 false s).1 ∨
      g.L < (bodyCancelLoop go a1 false s).1.modelFaults.length := by
  unfold bodyCancelLoop
  split
  · rename_i hnone
    right; left
    intro l hl
    simp only [Bool.false_eq_true, ↓reduceIte, hl, Option.bind_some] at hnone
    cases l with
    | nil => rfl
    | cons a r => simp at hnone
  · rename_i key _
    split
    · rcases h with h | h
      · exact Or.inl h
      · right; right
        show g.L < (s.modelFaults ++ [_]).length
        rw [List.length_append]
        have : g.L ≤ s.modelFaults.length := h.mf
        simp only [List.length_cons, List.length_nil]
        omega
    · rename_i q hq
      dsimp only
      refine GoP.top hgo g _ _ ?_
      exact GoP.inv hgo g (.callback q.owner q.react a1 0 none) _ (PXo.freeQuery hq h)

/-- `ares_cancel`: push the list of all queries, walk it, pop it, clean up the connections -/
theorem bodyCancel_p (hgo : GoP go) (s : St) (h : PXo g none s) : PXo g none (bodyCancel go s).1 := by
  unfold bodyCancel
  dsimp only
  refine GoP.inv hgo g _ _ ?_
  show PXo g none _
  split
  · exact h
  · rcases h with h | h
    · refine Or.inl ?_
      show (go (.cancelLoop .cancelled false) _).1.outOfFuel = true
      exact GoP.oof hgo _ _ h
    · have hp : PXo { g with m := g.m + 1 } none ({ s with listCopy := s.all :: s.listCopy, all := [] } : St) :=
        PXo.push (s := s) (l := s.all) rfl rfl rfl rfl rfl rfl (Or.inr h)
      have hr := GoP.inv hgo _ (.cancelLoop .cancelled false) _ hp
      exact PXo.pop h.lt hr

/-- every procedure body keeps the invariant -/
theorem execBody_p (hgo : GoP go) (c : Call) (s : St) (h : PXo g (preHole c) s) :
    PXo g none (execBody go c s).1 := by
  cases c <;> unfold execBody <;> dsimp only
  case sendNolock a1 a2 a3 a4 a5 a6 => exact bodySendNolock_p hgo a1 a2 a3 a4 a5 a6 s h
  case sendQuery a1 a2 => exact bodySendQuery_p hgo a1 a2 s h
  case requeue a1 a2 a3 a4 a5 => exact bodyRequeue_p hgo a1 a2 a3 a4 a5 s h
  case endQuery a1 a2 a3 a4 => exact bodyEndQuery_p hgo a1 a2 a3 a4 s h
  case callback a1 a2 a3 a4 a5 => exact bodyCallback_p hgo a1 a2 a3 a4 a5 s h
  case reactions a1 => exact bodyReactions_p hgo a1 s h
  case closeConn a1 a2 => exact bodyCloseConn_p hgo a1 a2 s h
  case closeLoop a1 a2 => exact bodyCloseLoop_p hgo a1 a2 s h
  case connError a1 a2 a3 => exact bodyConnError_p hgo a1 a2 a3 s h
  case flush a1 => exact bodyFlush_p hgo a1 s h
  case processWrite a1 => exact bodyProcessWrite_p hgo a1 s h
  case processRead a1 => exact bodyProcessRead_p hgo a1 s h
  case readAnswers a1 => exact bodyReadAnswers_p hgo a1 s h
  case processAnswer a1 a2 => exact bodyProcessAnswer_p hgo a1 a2 s h
  case flushRequeue => exact bodyFlushRequeue_p hgo s h
  case processTimeouts => exact bodyProcessTimeouts_p hgo s h
  case cleanupConns a1 => exact bodyCleanupConns_p hgo a1 s h
  case cancel => exact bodyCancel_p hgo s h
  case cancelLoop a1 a2 => exact bodyCancelLoop_p hgo a1 a2 s h
  case destroy => exact bodyDestroy_p hgo s h
  case probe a1 a2 => exact bodyProbe_p hgo a1 a2 s h
  case clientStart a1 a2 a3 a4 a5 => exact bodyClientStart_p hgo a1 a2 a3 a4 a5 s h
  case runActs a1 a2 => exact bodyRunActs_p hgo a1 a2 s h
  case userCb a1 a2 a3 a4 a5 => exact bodyUserCb_p hgo a1 a2 a3 a4 a5 s h

end

/-- **every run keeps the invariant** (all four parts of `GoP`, by induction on the fuel) -/
theorem goP_exec : ∀ fuel, GoP (exec fuel) := by
  intro fuel
  induction fuel with
  | zero =>
    exact ⟨fun _ _ _ _ => Or.inl rfl, fun _ _ _ _ => Or.inl rfl, fun _ _ _ _ _ _ => Or.inl rfl, fun _ _ _ => rfl⟩
  | succ n ih =>
    refine ⟨fun g c s h => execBody_p ih c s h, fun g st s h => bodyCancelLoop_top ih st s h,
      fun pid re st t rec s => Or.inr rfl, fun c s h => ?_⟩
    exact execBody_oof (go := exec n) (fun c s h => ih.oof c s h) c s h

end Cares.Chan
