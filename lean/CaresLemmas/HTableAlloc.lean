import CaresLemmas.HTableOps
/-! Helper lemmas for C14: the hash table under an arbitrary allocation oracle (any allocation may fail). -/
namespace Cares.Dsa.HTable
open Cares.Generated
variable {K V : Type}

/-- what ares_htable_expand may do -/
def ExpOutcome (ops : HOps K) (t : HTable K V) (r : Bool × HTable K V × Oracle) : Prop :=
  (r.1 = true ∧ Inv ops r.2.1 ∧ (entries r.2.1).Perm (entries t) ∧ r.2.1.numKeys = t.numKeys ∧
      (if t.size = HTABLE_MAX_BUCKETS then r.2.1 = t else r.2.1.size = t.size * 2)) ∨
  (r.1 = false ∧ r.2.1 = t)

theorem expOutcome_fail (ops : HOps K) (t : HTable K V) (o : Oracle) : ExpOutcome ops t (false, t, o) :=
  Or.inr ⟨rfl, rfl⟩

/-- ares_htable_expand, any oracle: it either completes (every node kept, invariant kept) or reports failure
    and leaves the table exactly as it was — nothing is moved before all memory has been obtained -/
theorem expand_any (hc : ConstsOk) (ops : HOps K) (hl : Lawful ops) (t : HTable K V) (o : Oracle) (h : Inv ops t) :
    ExpOutcome ops t (expand ops t o) := by
  unfold expand
  by_cases hmax : t.size = HTABLE_MAX_BUCKETS
  · rw [if_pos hmax]
    exact Or.inl ⟨rfl, h, List.Perm.refl _, rfl, by rw [if_pos hmax]⟩
  · rw [if_neg hmax]
    cases h1 : o.next with
    | mk b1 o1 =>
      cases b1 with
      | false => exact expOutcome_fail ops t o1
      | true =>
        simp only
        cases h2 : (if t.numCollisions ≠ 0 then o1.next else (true, o1)) with
        | mk b2 o2 =>
          cases b2 with
          | false => exact expOutcome_fail ops t o2
          | true =>
            simp only
            cases h3 : o2.nextN t.numCollisions with
            | mk b3 o3 =>
              cases b3 with
              | false => exact expOutcome_fail ops t o3
              | true =>
                simp only
                have hs := size_pos hc ops t h
                obtain ⟨x, ex, ix, px⟩ := moveAll_spec ops (t.size * 2) t.buckets
                  { nb := List.replicate (t.size * 2) none, pre := t.numCollisions, coll := 0 }
                  (xinv_init ops _ _) (by omega) (by simp only; rw [h.ncoll]; exact Nat.le_refl _)
                rw [ex]
                simp only
                obtain ⟨hd1, hd2⟩ := double_le_max hc ops t h hmax
                have hperm : (entries ({ buckets := x.nb, size := t.size * 2, numKeys := t.numKeys, numCollisions := x.coll } : HTable K V)).Perm (entries t) := by
                  unfold entries
                  simp only
                  have := px
                  simp only [ents_replicate_none, List.append_nil] at this
                  exact this
                refine Or.inl ⟨rfl, ⟨ix.len, hd2, hd1, ?_, ?_, ?_, ix.coll, ?_⟩, hperm, rfl, by rw [if_neg hmax]⟩
                · intro i l hi e he; exact (ix.placed i l hi).2 e he
                · exact pairwise_perm ops hl _ _ hperm.symm h.uniq
                · show t.numKeys = _; rw [h.nkeys]; exact hperm.length_eq.symm
                · left
                  show t.numKeys ≤ t.size * 2 * HTABLE_EXPAND_PERCENT / 100
                  rcases h.load with hld | hld
                  · refine Nat.le_trans hld (Nat.div_le_div_right ?_)
                    rw [Nat.mul_right_comm]; exact Nat.le_mul_of_pos_right _ (by omega)
                  · exact absurd hld hmax

/-- creating the (empty) llist of a NULL bucket changes nothing observable -/
theorem set_empty_bucket (ops : HOps K) (t : HTable K V) (idx : Nat) (h : Inv ops t) (hlt : idx < t.size)
    (hnull : slotNull t.buckets idx = true) :
    Inv ops { t with buckets := t.buckets.set idx (some []) } ∧
      entries ({ t with buckets := t.buckets.set idx (some []) } : HTable K V) = entries t := by
  have hlen : idx < t.buckets.length := by rw [h.len]; exact hlt
  have hb := bucketAt_of_slotNull t.buckets idx hnull
  have he : entries ({ t with buckets := t.buckets.set idx (some []) } : HTable K V) = entries t := by
    unfold entries
    simp only
    rw [ents_set t.buckets idx hlen [], ents_split t.buckets idx hlen, hb]
  refine ⟨⟨by simp [h.len], h.pow, h.szmax, ?_, ?_, ?_, ?_, h.load⟩, he⟩
  · intro j l hj e hm
    simp only at hj
    by_cases hji : idx = j
    · subst hji
      rw [List.getElem?_set_self hlen] at hj
      cases hj; simp at hm
    · rw [List.getElem?_set_ne hji] at hj
      exact h.placed j l hj e hm
  · rw [he]; exact h.uniq
  · rw [he]; exact h.nkeys
  · simp only
    have hs := sum_map_set bcoll t.buckets idx hlen (some [])
    rw [h.ncoll]
    have : bcoll t.buckets[idx] = 0 := by
      unfold slotNull at hnull
      rw [List.getElem?_eq_getElem hlen] at hnull
      cases hh : t.buckets[idx] with
      | none => rfl
      | some b => rw [hh] at hnull; simp at hnull
    rw [this] at hs
    simp only [bcoll, List.length_nil] at hs
    omega

theorem abs_of_entries_perm (ops : HOps K) (hl : Lawful ops) (t t' : HTable K V) (hp : (entries t').Perm (entries t))
    (hu : KeysDiffer ops (entries t')) (q : K) : abs ops t' q = abs ops t q := by
  unfold abs; exact find?_perm ops hl _ _ hp hu q

/-- the growth step of ares_htable_insert (expand, or nothing when the threshold is not crossed) -/
def GrowOutcome (ops : HOps K) (t : HTable K V) (r : Bool × HTable K V × Oracle) : Prop :=
  (r.1 = true ∧ Inv ops r.2.1 ∧ (entries r.2.1).Perm (entries t) ∧ r.2.1.numKeys = t.numKeys) ∨
  (r.1 = false ∧ r.2.1 = t)

theorem ExpOutcome.grow {ops : HOps K} {t : HTable K V} {r : Bool × HTable K V × Oracle} (h : ExpOutcome ops t r) :
    GrowOutcome ops t r := by
  rcases h with ⟨a, b, c, d, _⟩ | h
  · exact Or.inl ⟨a, b, c, d⟩
  · exact Or.inr h

/-- what ares_htable_insert may do -/
def InsOutcome (ops : HOps K) (t : HTable K V) (k : K) (v : V) (r : Bool × HTable K V × Oracle) : Prop :=
  Inv ops r.2.1 ∧
    (r.1 = true → (∀ q, abs ops r.2.1 q = if ops.eq q k then some (k, v) else abs ops t q) ∧
      r.2.1.numKeys = (if (abs ops t k).isSome then t.numKeys else t.numKeys + 1)) ∧
    (r.1 = false → (∀ q, abs ops r.2.1 q = abs ops t q) ∧ r.2.1.numKeys = t.numKeys)

theorem insOutcome_fail (ops : HOps K) (t t1 : HTable K V) (k : K) (v : V) (o : Oracle) (i1 : Inv ops t1)
    (ha : ∀ q, abs ops t1 q = abs ops t q) (hn : t1.numKeys = t.numKeys) : InsOutcome ops t k v (false, t1, o) :=
  ⟨i1, fun hh => Bool.noConfusion hh, fun _ => ⟨ha, hn⟩⟩

theorem insOutcome_ok (ops : HOps K) (t t1 : HTable K V) (k : K) (v : V) (o : Oracle) (i1 : Inv ops t1)
    (ha : ∀ q, abs ops t1 q = if ops.eq q k then some (k, v) else abs ops t q)
    (hn : t1.numKeys = (if (abs ops t k).isSome then t.numKeys else t.numKeys + 1)) :
    InsOutcome ops t k v (true, t1, o) :=
  ⟨i1, fun _ => ⟨ha, hn⟩, fun hh => Bool.noConfusion hh⟩

/-- **ares_htable_insert under any allocation failure**: the result always satisfies the invariant; if the call
    reports success the table maps `k` to the new node; if it reports failure every key maps to what it mapped to
    before and the key count is unchanged (the table may have grown, which is not observable) -/
theorem insert_any (hc : ConstsOk) (ops : HOps K) (hl : Lawful ops) (t : HTable K V) (k : K) (v : V) (o : Oracle)
    (h : Inv ops t) : InsOutcome ops t k v (insert ops t k v o) := by
  have hs := size_pos hc ops t h
  have hfind : findIn ops k (bucketAt t.buckets (hidx ops t.size k)) = abs ops t k :=
    find_bucket_eq_find_all ops hl t.buckets t.size h.placed h.uniq k
  cases hf : findIn ops k (bucketAt t.buckets (hidx ops t.size k)) with
  | some old =>
    -- replace in place: no allocation at all, so the all-ok analysis applies verbatim
    have hsame : insert ops t k v o = (true, (insert ops t k v Oracle.ok).2.1, o) := by
      unfold insert; simp only [hf]
    obtain ⟨t', o', e, _, i', a, n, _⟩ := insert_spec hc ops hl t k v Oracle.ok h (fun _ => rfl)
    rw [hsame, e]
    exact insOutcome_ok ops t t' k v o i' a n
  | none =>
    have hnone : abs ops t k = none := by rw [← hfind, hf]
    unfold insert
    simp only [hf]
    -- stage 1: growth
    have st1 : GrowOutcome ops t (if t.numKeys + 1 > t.size * HTABLE_EXPAND_PERCENT / 100 then expand ops t o else (true, t, o)) ∧
        ((if t.numKeys + 1 > t.size * HTABLE_EXPAND_PERCENT / 100 then expand ops t o else (true, t, o)).1 = true →
          ((if t.numKeys + 1 > t.size * HTABLE_EXPAND_PERCENT / 100 then expand ops t o else (true, t, o)).2.1.numKeys + 1 ≤
              (if t.numKeys + 1 > t.size * HTABLE_EXPAND_PERCENT / 100 then expand ops t o else (true, t, o)).2.1.size * HTABLE_EXPAND_PERCENT / 100 ∨
            (if t.numKeys + 1 > t.size * HTABLE_EXPAND_PERCENT / 100 then expand ops t o else (true, t, o)).2.1.size = HTABLE_MAX_BUCKETS)) := by
      by_cases hg : t.numKeys + 1 > t.size * HTABLE_EXPAND_PERCENT / 100
      · rw [if_pos hg]
        have he := expand_any hc ops hl t o h
        refine ⟨he.grow, ?_⟩
        intro htrue
        rcases he with ⟨e1, i1, p1, n1, sz1⟩ | ⟨e1, e2⟩
        · by_cases hmax : t.size = HTABLE_MAX_BUCKETS
          · rw [if_pos hmax] at sz1; rw [sz1]; exact Or.inr hmax
          · rw [if_neg hmax] at sz1
            left
            rw [n1, sz1]
            have hld : t.numKeys ≤ t.size * HTABLE_EXPAND_PERCENT / 100 := by
              rcases h.load with hld | hld
              · exact hld
              · exact absurd hld hmax
            have hmin := min_le_size ops t h
            have h100 : 100 ≤ t.size * HTABLE_EXPAND_PERCENT :=
              Nat.le_trans hc.load_ok (Nat.mul_le_mul_right _ hmin)
            rw [Nat.mul_right_comm]
            omega
        · rw [e1] at htrue; cases htrue
      · rw [if_neg hg]
        refine ⟨Or.inl ⟨rfl, h, List.Perm.refl _, rfl⟩, fun _ => Or.inl ?_⟩
        · show t.numKeys + 1 ≤ t.size * HTABLE_EXPAND_PERCENT / 100; omega
    generalize (if t.numKeys + 1 > t.size * HTABLE_EXPAND_PERCENT / 100 then expand ops t o else (true, t, o)) = r at st1
    obtain ⟨b1, t1, o1⟩ := r
    obtain ⟨out1, room⟩ := st1
    rcases out1 with ⟨e1, i1, p1, n1⟩ | ⟨e1, e2⟩
    · have e1' : b1 = true := e1
      subst e1'
      have i1' : Inv ops t1 := i1
      have p1' : (entries t1).Perm (entries t) := p1
      have n1' : t1.numKeys = t.numKeys := n1
      have room1 : t1.numKeys + 1 ≤ t1.size * HTABLE_EXPAND_PERCENT / 100 ∨ t1.size = HTABLE_MAX_BUCKETS := room rfl
      simp only
      have hs1 := size_pos hc ops t1 i1'
      have hlt1 := hidx_lt ops t1.size k hs1
      have hlen1 : hidx ops t1.size k < t1.buckets.length := by rw [i1'.len]; exact hlt1
      have habs1 : ∀ q, abs ops t1 q = abs ops t q := abs_of_entries_perm ops hl t t1 p1' i1'.uniq
      have hnone1 : abs ops t1 k = none := by rw [habs1]; exact hnone
      obtain ⟨inv2, perm2⟩ := add_node ops hl t1 i1' k v hlt1 hnone1 room1
      have habs : ∀ (t' : HTable K V), t'.buckets = t1.buckets.set (hidx ops t1.size k)
            (some ((k, v) :: bucketAt t1.buckets (hidx ops t1.size k))) → KeysDiffer ops (entries t') →
          ∀ q, abs ops t' q = if ops.eq q k then some (k, v) else abs ops t q := by
        intro t' hb hu q
        unfold abs
        have hp' : (entries t').Perm ((k, v) :: entries t) := by
          unfold entries; rw [hb]; exact perm2.trans (List.Perm.cons _ p1')
        rw [find?_cons_perm ops hl _ _ (k, v) hp' hu q]
      have hcount : t1.numKeys + 1 = (if (abs ops t k).isSome then t.numKeys else t.numKeys + 1) := by
        rw [hnone, n1']; rfl
      by_cases hnull : slotNull t1.buckets (hidx ops t1.size k) = true
      · simp only [hnull, ↓reduceIte]
        cases ha : o1.next with
        | mk b2 o2 =>
          cases b2 with
          | false => exact insOutcome_fail ops t t1 k v o2 i1' habs1 n1'
          | true =>
            simp only
            obtain ⟨ie, ee⟩ := set_empty_bucket ops t1 _ i1' hlt1 hnull
            cases hb' : o2.next with
            | mk b3 o3 =>
              cases b3 with
              | false =>
                refine insOutcome_fail ops t _ k v o3 ie ?_ n1'
                intro q
                rw [← habs1 q]
                exact abs_of_entries_perm ops hl t1 _ (by rw [ee]) ie.uniq q
              | true =>
                simp only
                have hb0 := bucketAt_of_slotNull t1.buckets _ hnull
                rw [hb0] at inv2 habs
                rw [bucketAt_set_self _ _ hlen1, List.set_set]
                simp only [List.length_cons, List.length_nil, Nat.zero_add, Nat.lt_irrefl, ↓reduceIte, gt_iff_lt] at inv2 ⊢
                exact insOutcome_ok ops t _ k v o3 inv2 (habs _ rfl inv2.uniq) hcount
      · have hnull' : slotNull t1.buckets (hidx ops t1.size k) = false := by simpa using hnull
        simp only [hnull', Bool.false_eq_true, ↓reduceIte]
        cases hb' : o1.next with
        | mk b3 o3 =>
          cases b3 with
          | false => exact insOutcome_fail ops t t1 k v o3 i1' habs1 n1'
          | true => exact insOutcome_ok ops t _ k v o3 inv2 (habs _ rfl inv2.uniq) hcount
    · have e1' : b1 = false := e1
      have e2' : t1 = t := e2
      subst e1'; subst e2'
      exact insOutcome_fail ops t1 t1 k v o1 h (fun _ => rfl) rfl

end Cares.Dsa.HTable
