import CaresLemmas.ChanPolicyProbe2
import CaresLemmas.ChanPolicyPicks
/-!
# C09 — the pick log between the server choice and the probe lottery

`PkEq p0 s`: the pick log of `s` is `p0`.  `ares_conn_flush` (every fuel) and the blocks of `ares_send_query` after the
choice (`sqOpen`, `sqPrep`, `sqWrite`, `sqDeadline`, `sqCommit`) keep it: when the probe lottery runs, the most recent
entry of the log is still the one of the request that triggers it.
-/
namespace Cares.Chan
set_option linter.unusedVariables false

def PkEq (p0 : List Pick) (s : St) : Prop := s.picks = p0

theorem PkEq.congr {p0 : List Pick} {s s' : St} (h0 : s'.picks = s.picks) (h : PkEq p0 s) : PkEq p0 s' := by
  unfold PkEq at *; rw [h0]; exact h

section
variable {p0 : List Pick}
chan_simple_lemmas PkEq : (PkEq p0) =>
  emit slog ofault mfault oofSt setQuery setConn setServer setSock modQuery modConn modServer modSock modClient
  cacheExpire
end

macro "pk_congr" : tactic => `(tactic| (
  refine PkEq.congr (s := ?s0) ?h0 ?hI
  case h0 => (dsimp only; exact rfl)))

macro "pk_spec" : tactic => `(tactic| with_reducible (first
  | apply PkEq.emit | apply PkEq.slog | apply PkEq.ofault | apply PkEq.mfault | apply PkEq.oof
  | apply PkEq.setQuery | apply PkEq.setConn | apply PkEq.setServer | apply PkEq.setSock | apply PkEq.modQuery
  | apply PkEq.modConn | apply PkEq.modServer | apply PkEq.modSock | apply PkEq.modClient | apply PkEq.cacheExpire))

macro "pk_step " hgo:term : tactic => `(tactic| chan_step $hgo, pk_spec, pk_congr)

/-- what is needed of the calls: a flush keeps the pick log -/
@[reducible] def FlushPk (p0 : List Pick) (go : Call → St → St × Ret) : Prop :=
  ∀ fd s, PkEq p0 s → PkEq p0 (go (.flush fd) s).1

theorem bodyFlush_pk {go : Call → St → St × Ret} {p0 : List Pick} (hgo : FlushPk p0 go)
    (fd : Nat) (s : St) (h : PkEq p0 s) : PkEq p0 (bodyFlush go fd s).1 := by
  unfold bodyFlush
  chan_paths
  all_goals (repeat' (pk_step hgo))

/-- **flush frame for the pick log** (every fuel) -/
theorem exec_flush_pk (fuel : Nat) (fd : Nat) (s : St) : (exec fuel (.flush fd) s).1.picks = s.picks := by
  suffices h : ∀ p0, PkEq p0 s → PkEq p0 (exec fuel (.flush fd) s).1 from h _ rfl
  intro p0
  induction fuel generalizing fd s with
  | zero => exact fun h => h
  | succ n ih =>
    intro h
    show PkEq p0 (bodyFlush (exec n) fd s).1
    exact bodyFlush_pk (fun fd s h => ih fd s h) fd s h

section
variable {p0 : List Pick}

chan_invariant_go pk : (PkEq p0) goBy (FlushPk p0) oofBy (fun _ h => h)
  leafBy (repeat' (pk_step hgo))
  exceptBodies blocksOnly sqAfter

end

end Cares.Chan
