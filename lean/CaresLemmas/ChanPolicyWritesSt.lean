import CaresLemmas.ChanPolicyWrites
import CaresLemmas.ChanPolicyFrame
import CaresLemmas.ChanPolicyLookup
/-!
# C06 — the write accounting as a state invariant: helpers of the channel model

`CInv tr ns cw ex s` = "`s` ran out of fuel, or the accounting invariant `COk` holds of its projection".  (A run that
runs out of fuel stops in the middle of a procedure; nothing is claimed about such a state except that the flag is set,
and the flag is never cleared.)
-/
namespace Cares.Chan
set_option linter.unusedVariables false

/-- the projection of the state the accounting reads -/
def cproj (s : St) : CP :=
  ⟨s.cfg.tries, s.servers.length, s.qs, s.byQid, s.nextKey, s.obs.rnd2, s.requeueArr, s.writeLog,
   s.conns.map (fun c => (c.fd, c.tcp)), s.nextFd, s.servers.map (·.tcpConn)⟩

/-- the accounting invariant of a state -/
def CInv (tr ns : Nat) (cw ex : Option Nat) (s : St) : Prop := s.outOfFuel = true ∨ COk tr ns cw ex (cproj s)

section
variable {tr ns : Nat} {cw ex : Option Nat}

theorem CInv.congr {s s' : St} (h0 : s'.cfg = s.cfg) (h1 : cproj s' = cproj s) (h2 : s'.outOfFuel = s.outOfFuel)
    (h : CInv tr ns cw ex s) : CInv tr ns cw ex s' := by
  unfold CInv at *; rw [h1, h2]; exact h

/-- lift a step of the projection-level theory -/
theorem CInv.lift {cw' ex' : Option Nat} {s s' : St} (h : CInv tr ns cw ex s) (h2 : s'.outOfFuel = s.outOfFuel)
    (hok : COk tr ns cw ex (cproj s) → COk tr ns cw' ex' (cproj s')) :
    CInv tr ns cw' ex' s' := by
  rcases h with h | h
  · exact Or.inl (by rw [h2]; exact h)
  · exact Or.inr (hok h)

theorem CInv.dropW {s : St} (h : CInv tr ns cw ex s) : CInv tr ns none ex s := CInv.lift h rfl COk.dropW
theorem CInv.addEx {s : St} (h : CInv tr ns cw none s) : CInv tr ns cw ex s := CInv.lift h rfl (fun h => COk.addEx h ex)
theorem CInv.oofSt (s : St) : CInv tr ns cw ex s.oof.1 := Or.inl rfl

/-! ### servers -/

theorem CInv.modServer {s : St} {id : Nat} {f : Server → Server}
    (hf : ∀ v, (f v).tcpConn = v.tcpConn ∨ (f v).tcpConn = none)
    (h : CInv tr ns cw ex s) : CInv tr ns cw ex (s.modServer id f) := by
  refine CInv.lift h rfl ?_
  intro hok
  have : cproj (s.modServer id f) =
      { cproj s with tcpConns := (s.servers.map fun x => if x.id == id then f x else x).map (·.tcpConn) } := by
    unfold cproj St.modServer; simp
  rw [this]
  apply COk.subTcp _ _ hok
  intro o ho
  obtain ⟨x, hx, rfl⟩ := List.mem_map.1 ho
  obtain ⟨y, hy, rfl⟩ := List.mem_map.1 hx
  by_cases hyv : y.id == id
  · simp only [hyv, ↓reduceIte]
    rcases hf y with e | e
    · left; rw [e]; exact List.mem_map.2 ⟨y, hy, rfl⟩
    · right; exact e
  · simp only [hyv]; left; exact List.mem_map.2 ⟨y, hy, rfl⟩

/-- a server record is replaced by one with the `tcpConn` of a configured server -/
theorem CInv.setServer {s : St} {v v0 : Server} (hv0 : v0 ∈ s.servers) (hv : v.tcpConn = v0.tcpConn)
    (h : CInv tr ns cw ex s) : CInv tr ns cw ex (s.setServer v) := by
  refine CInv.lift h rfl ?_
  intro hok
  have : cproj (s.setServer v) =
      { cproj s with tcpConns := (s.servers.map fun x => if x.id == v.id then v else x).map (·.tcpConn) } := by
    unfold cproj St.setServer; simp
  rw [this]
  apply COk.subTcp _ _ hok
  intro o ho
  obtain ⟨x, hx, rfl⟩ := List.mem_map.1 ho
  obtain ⟨y, hy, rfl⟩ := List.mem_map.1 hx
  left
  by_cases hyv : y.id == v.id
  · simp only [hyv, ↓reduceIte]; rw [hv]; exact List.mem_map.2 ⟨v0, hv0, rfl⟩
  · simp only [hyv]; exact List.mem_map.2 ⟨y, hy, rfl⟩

theorem CInv.incFailures {s : St} {id : Nat} {tcp : Bool} (h : CInv tr ns cw ex s) :
    CInv tr ns cw ex (s.incFailures id tcp) := by
  unfold St.incFailures
  split
  · exact h
  · rename_i v hv
    exact CInv.congr (s := s.setServer _) rfl rfl rfl
      (CInv.setServer (v0 := v) (List.mem_of_find?_eq_some hv) rfl h)

theorem CInv.setGood {s : St} {id : Nat} {tcp : Bool} (h : CInv tr ns cw ex s) :
    CInv tr ns cw ex (s.setGood id tcp) := by
  unfold St.setGood
  split
  · exact h
  · rename_i v hv
    exact CInv.congr (s := s.setServer _) rfl rfl rfl
      (CInv.setServer (v0 := v) (List.mem_of_find?_eq_some hv) rfl h)

theorem CInv.metricsRecord {s : St} {q : Query} {srv : Option Nat} {st : Status} {rec : Option Reply}
    (h : CInv tr ns cw ex s) : CInv tr ns cw ex (s.metricsRecord q srv st rec) := by
  unfold St.metricsRecord
  split
  · split
    · exact h
    · exact CInv.modServer (fun _ => Or.inl rfl) h
  · exact h

/-! ### connections: descriptor and transport never change -/

theorem CInv.modConn {s : St} {fd : Nat} {f : Conn → Conn} (hf : ∀ c, (f c).fd = c.fd ∧ (f c).tcp = c.tcp)
    (h : CInv tr ns cw ex s) : CInv tr ns cw ex (s.modConn fd f) := by
  refine CInv.congr (s := s) rfl ?_ rfl h
  unfold cproj St.modConn
  simp only [List.map_map, CP.mk.injEq, true_and, and_true]
  apply List.map_congr_left
  intro c _
  by_cases hc : c.fd == fd <;> simp [Function.comp, hc, hf]

theorem CInv.notify {s : St} {fd : Nat} {r w : Bool} (h : CInv tr ns cw ex s) :
    CInv tr ns cw ex (s.notify fd r w) := by
  unfold St.notify
  split
  · exact h
  · split
    · exact CInv.congr (s := s.modConn fd _) rfl rfl rfl (CInv.modConn (fun _ => ⟨rfl, rfl⟩) h)
    · exact CInv.modConn (fun _ => ⟨rfl, rfl⟩) h

/-! ### the observation -/

theorem CInv.draw1 {s : St} (h : CInv tr ns cw ex s) : CInv tr ns cw ex s.draw1.2 := by
  unfold St.draw1
  split
  · exact h
  · exact h

theorem CInv.pop8 {s : St} (h : CInv tr ns cw ex s) : CInv tr ns cw ex s.pop8 := by
  unfold St.pop8
  split
  · exact h
  · exact h

theorem cproj_draw2 (s : St) : cproj s.draw2.2 = { cproj s with rnd2 := s.obs.rnd2.tail } ∧
    s.draw2.2.outOfFuel = s.outOfFuel := by
  unfold St.draw2
  split
  · rename_i h; unfold cproj St.ofault; simp [h]
  · rename_i x r h; unfold cproj; simp [h]

theorem CInv.draw2 {s : St} (h : CInv tr ns cw ex s) : CInv tr ns cw ex s.draw2.2 := by
  refine CInv.lift h (cproj_draw2 s).2 ?_
  intro hok
  rw [(cproj_draw2 s).1]
  exact COk.shrinkRnd (List.tail_sublist _) hok

/-- `generate_unique_qid`: the id is one of the observed draws (consumed, so with distinct draws it cannot come again)
    or, when the observation is exhausted, the fallback `70000 + nextKey`; the draws only shrink -/
theorem genQid_spec (n : Nat) (s : St) (hlen : s.obs.rnd2.length < n) :
    (∃ r', r'.Sublist s.obs.rnd2 ∧ cproj (genQid n s).2 = { cproj s with rnd2 := r' } ∧
      (genQid n s).2.outOfFuel = s.outOfFuel ∧
      (((genQid n s).1 ∈ s.obs.rnd2 ∧ (s.obs.rnd2.Nodup → (genQid n s).1 ∉ r')) ∨
       (genQid n s).1 = 70000 + s.nextKey)) := by
  induction n generalizing s with
  | zero => omega
  | succ n ih =>
    unfold genQid
    split
    · rename_i hemp
      refine ⟨s.obs.rnd2, List.Sublist.refl _, ?_, rfl, Or.inr rfl⟩
      unfold cproj St.ofault; rfl
    · rename_i hemp
      cases hr : s.obs.rnd2 with
      | nil => rw [hr] at hemp; simp at hemp
      | cons x r =>
        have hd1 : s.draw2.1 = x := by unfold St.draw2; rw [hr]
        have hd2 : cproj s.draw2.2 = { cproj s with rnd2 := r } := by rw [(cproj_draw2 s).1, hr]; rfl
        have hd3 : s.draw2.2.obs.rnd2 = r := by
          have := congrArg CP.rnd2 hd2; exact this
        have hd4 : s.draw2.2.nextKey = s.nextKey := by
          have := congrArg CP.nextKey hd2; exact this
        dsimp only
        split
        · have hlen' : s.draw2.2.obs.rnd2.length < n := by rw [hd3]; rw [hr] at hlen; simp at hlen; omega
          obtain ⟨r', hsub, hw, hoo, hx⟩ := ih s.draw2.2 hlen'
          rw [hd3] at hsub hx
          refine ⟨r', hsub.trans (List.sublist_cons_self x r), ?_, ?_, ?_⟩
          · rw [hw, hd2]
          · rw [hoo, (cproj_draw2 s).2]
          · rcases hx with ⟨hm, hn⟩ | hf
            · left
              exact ⟨List.mem_cons_of_mem _ hm, fun hnd => hn (List.nodup_cons.1 hnd).2⟩
            · right; rw [hf, hd4]
        · refine ⟨r, List.sublist_cons_self x r, hd2, (cproj_draw2 s).2, Or.inl ?_⟩
          rw [hd1]
          exact ⟨List.mem_cons_self, fun hnd => (List.nodup_cons.1 hnd).1⟩

theorem CInv.genQid {s : St} (h : CInv tr ns cw ex s) : CInv tr ns cw ex (Cares.Chan.genQid 70000 s).2 := by
  rcases h with h | h
  · -- the flag is not touched
    have : ∀ n s, (Cares.Chan.genQid n s).2.outOfFuel = s.outOfFuel := by
      intro n s
      obtain ⟨o, f, e⟩ := genQid_shape n s
      rw [e]
    exact Or.inl (by rw [this]; exact h)
  · obtain ⟨r', hsub, hw, _, _⟩ := genQid_spec 70000 s h.rndLen
    right; rw [hw]
    exact COk.shrinkRnd hsub h

/-! ### queries -/

theorem CInv.mapQs {s : St} {g : Query → Query} (hg : COk.CoreEq g) (h : CInv tr ns cw ex s) :
    CInv tr ns cw ex { s with qs := s.qs.map g } := CInv.lift h rfl (COk.mapQs hg)

theorem CInv.modQuery {s : St} {k : Nat} {f : Query → Query} (hf : COk.CoreEq f) (h : CInv tr ns cw ex s) :
    CInv tr ns cw ex (s.modQuery k f) := by
  unfold St.modQuery
  apply CInv.mapQs _ h
  intro q
  by_cases hq : q.key == k
  · simp only [hq, ↓reduceIte]; exact hf q
  · simp only [hq]; exact ⟨rfl, rfl, rfl, rfl, rfl, rfl, rfl, rfl⟩

theorem coreEq_nameOnly {g : Query → Query} (hg : NameOnly g) : COk.CoreEq g := by
  intro q
  obtain ⟨nm, e⟩ := hg q
  rw [e]; exact ⟨rfl, rfl, rfl, rfl, rfl, rfl, rfl, rfl⟩

/-- `ares_query_remove_from_conn` on the projection: the query with key `k` (if any) is detached; an exemption for
    that key is no longer needed -/
theorem COk.unlink {p : CP} (k : Nat) (hex : ex = none ∨ ex = some k) (h : COk tr ns cw ex p) :
    COk tr ns cw none { p with qs := p.qs.map (fun x => if x.key == k then unlinkQ x else x) } := by
  by_cases hm : ∃ q0 ∈ p.qs, q0.key = k
  · obtain ⟨q0, hq0, rfl⟩ := hm
    rcases Option.eq_none_or_eq_some cw with hcw | ⟨kc, hcw⟩
    · exact COk.modKey q0 hq0 unlinkQ cw none ⟨rfl, rfl⟩ (Or.inl hcw) (Or.inl hcw) hex (Or.inl rfl) h
        (fun c hc => hc) (h.ck3 q0 hq0) (h.ck3tcp q0 hq0) (fun _ _ => Or.inr rfl)
        (fun _ _ fd hc => by cases hc) (fun fd hc => by cases hc)
    · by_cases hkc : kc = q0.key
      · exact COk.modKey q0 hq0 unlinkQ cw none ⟨rfl, rfl⟩ (Or.inr (by rw [hcw, hkc])) (Or.inr (by rw [hcw, hkc]))
          hex (Or.inl rfl) h
          (fun c hc => hc) (h.ck3 q0 hq0) (h.ck3tcp q0 hq0) (fun _ _ => Or.inr rfl)
          (fun _ _ fd hc => by cases hc) (fun fd hc => by cases hc)
      · -- a credit for another key: drop and restore it around the rewrite is not possible; handle directly
        have h' := COk.modKey q0 hq0 unlinkQ none none ⟨rfl, rfl⟩ (Or.inl rfl) (Or.inl rfl) hex (Or.inl rfl)
          h.dropW (fun c hc => hc) (h.ck3 q0 hq0) (h.ck3tcp q0 hq0) (fun _ _ => Or.inr rfl)
          (fun _ _ fd hc => by cases hc) (fun fd hc => by cases hc)
        refine { h' with acct := ?_ }
        intro q hq
        obtain ⟨x, hx, rfl⟩ := List.mem_map.1 hq
        have h0 := h.acct x hx
        by_cases hxk : x.key == q0.key
        · simp only [hxk, ↓reduceIte]
          exact h0
        · simp only [hxk]
          exact h0
  · -- no such query: nothing changes
    have hid : p.qs.map (fun x => if x.key == k then unlinkQ x else x) = p.qs := by
      conv => rhs; rw [← List.map_id p.qs]
      apply List.map_congr_left
      intro x hx
      have : ¬ (x.key == k) = true := by
        intro e; exact hm ⟨x, hx, by simpa using e⟩
      simp [this]
    rw [hid]
    exact { h with
      ckR := fun q hq _ h3 => h.ckR q hq (by
        rcases hex with rfl | rfl
        · simp
        · intro e; exact hm ⟨q, hq, (Option.some.inj e).symm⟩) h3
      attTcp := fun q hq _ hu fd hc => h.attTcp q hq (by
        rcases hex with rfl | rfl
        · simp
        · intro e; exact hm ⟨q, hq, (Option.some.inj e).symm⟩) hu fd hc }

theorem map_unlink_of_none {s : St} {k : Nat} (h : s.query? k = none) :
    s.qs.map (fun x => if x.key == k then unlinkQ x else x) = s.qs := by
  conv => rhs; rw [← List.map_id s.qs]
  apply List.map_congr_left
  intro x hx
  unfold St.query? at h
  rw [List.find?_eq_none] at h
  have := h x hx
  simp only [this, Bool.false_eq_true, ↓reduceIte, id]

theorem cproj_removeFromConn (s : St) (k : Nat) :
    cproj (s.removeFromConn k) = { cproj s with qs := s.qs.map (fun x => if x.key == k then unlinkQ x else x) } ∧
    (s.removeFromConn k).outOfFuel = s.outOfFuel := by
  unfold St.removeFromConn
  split
  · rename_i hnone
    refine ⟨?_, rfl⟩
    rw [map_unlink_of_none hnone]; rfl
  · refine ⟨?_, ?_⟩
    · dsimp only
      split
      · unfold cproj St.modQuery St.modConn
        simp only [List.map_map, CP.mk.injEq, true_and, and_true]
        refine ⟨rfl, ?_⟩
        apply List.map_congr_left
        intro c _
        dsimp only [Function.comp]
        split <;> rfl
      · rfl
    · dsimp only
      split <;> rfl

/-- detaching keeps the invariant and settles an exemption for that key -/
theorem CInv.removeFromConn' {s : St} {k : Nat} (hex : ex = none ∨ ex = some k) (h : CInv tr ns cw ex s) :
    CInv tr ns cw none (s.removeFromConn k) := by
  refine CInv.lift h (cproj_removeFromConn s k).2 ?_
  intro hok
  rw [(cproj_removeFromConn s k).1]; exact COk.unlink k hex hok

theorem CInv.removeFromConn {s : St} {k : Nat} (h : CInv tr ns cw none s) : CInv tr ns cw none (s.removeFromConn k) :=
  CInv.removeFromConn' (Or.inl rfl) h

theorem CInv.subQs {s : St} {qs' : List Query} {bq' : List (Nat × Nat)} (hq : qs'.Sublist s.qs)
    (hb : bq'.Sublist s.byQid) (h : CInv tr ns cw ex s) : CInv tr ns cw ex { s with qs := qs', byQid := bq' } :=
  CInv.lift h rfl (COk.sub hq hb)

theorem CInv.detach {s : St} {k : Nat} (h : CInv tr ns cw none s) : CInv tr ns cw none (s.detach k) := by
  unfold St.detach
  split
  · exact h
  · have h1 : CInv tr ns cw none (s.removeFromConn k) := CInv.removeFromConn h
    exact CInv.lift h1 rfl (COk.sub (p := cproj (s.removeFromConn k)) (List.Sublist.refl _) List.filter_sublist)

theorem CInv.freeQuery {s : St} {k : Nat} (h : CInv tr ns cw none s) : CInv tr ns cw none (s.freeQuery k) := by
  unfold St.freeQuery
  have h1 : CInv tr ns cw none (s.detach k) := CInv.detach h
  exact CInv.lift h1 rfl (COk.sub (p := cproj (s.detach k)) List.filter_sublist (List.Sublist.refl _))

theorem cproj_recordTx (s : St) (fd : Nat) (tcp : Bool) (f : OutFrame) :
    ∃ g, NameOnly g ∧ cproj (s.recordTx fd tcp f) = { cproj s with qs := s.qs.map g } ∧
      (s.recordTx fd tcp f).outOfFuel = s.outOfFuel := by
  obtain ⟨t, g, ev, sl, hg, _, e⟩ := recordTx_shape s fd tcp f
  exact ⟨g, hg, by rw [e]; rfl, by rw [e]⟩

theorem CInv.recordTx {s : St} {fd : Nat} {tcp : Bool} {f : OutFrame} (h : CInv tr ns cw ex s) :
    CInv tr ns cw ex (s.recordTx fd tcp f) := by
  obtain ⟨g, hg, e, ho⟩ := cproj_recordTx s fd tcp f
  refine CInv.lift h ho ?_
  intro hok; rw [e]; exact COk.mapQs (coreEq_nameOnly hg) hok

theorem cproj_modConn (s : St) (fd : Nat) (f : Conn → Conn) (hf : ∀ c, (f c).fd = c.fd ∧ (f c).tcp = c.tcp) :
    cproj (s.modConn fd f) = cproj s := by
  unfold cproj St.modConn
  simp only [List.map_map, CP.mk.injEq, true_and, and_true]
  apply List.map_congr_left
  intro c _
  by_cases hc : c.fd == fd <;> simp [Function.comp, hc, hf]

theorem cproj_map_id (s : St) : ({ cproj s with qs := s.qs.map (fun q => q) } : CP) = cproj s := by
  simp [cproj]

theorem cproj_advanceOut (fuel fd : Nat) (s : St) (n : Nat) :
    ∃ g, NameOnly g ∧ cproj (Cares.Chan.advanceOut fuel fd s n) = { cproj s with qs := s.qs.map g } ∧
      (Cares.Chan.advanceOut fuel fd s n).outOfFuel = s.outOfFuel := by
  induction fuel generalizing s n with
  | zero => exact ⟨_, NameOnly.id, (cproj_map_id s).symm, rfl⟩
  | succ k ih =>
    unfold advanceOut
    split
    · exact ⟨_, NameOnly.id, (cproj_map_id s).symm, rfl⟩
    · split
      · exact ⟨_, NameOnly.id, (cproj_map_id s).symm, rfl⟩
      · dsimp only
        split
        · rename_i c _ _ f rest _ _
          have hm : cproj (s.modConn fd fun c => { c with out := rest, outOff := 0 }) = cproj s :=
            cproj_modConn s fd _ (fun _ => ⟨rfl, rfl⟩)
          obtain ⟨g, hg, e, ho⟩ := cproj_recordTx (s.modConn fd fun c => { c with out := rest, outOff := 0 }) fd true f
          have hq : (s.modConn fd fun c => { c with out := rest, outOff := 0 }).qs = s.qs := rfl
          split
          · exact ⟨g, hg, by rw [e, hm, hq], by rw [ho]; rfl⟩
          · obtain ⟨g', hg', e', ho'⟩ := ih
              ((s.modConn fd fun c => { c with out := rest, outOff := 0 }).recordTx fd true f) (n - (f.len - c.outOff))
            refine ⟨g' ∘ g, hg'.comp hg, ?_, by rw [ho', ho]; rfl⟩
            rw [e']
            have hq2 : ((s.modConn fd fun c => { c with out := rest, outOff := 0 }).recordTx fd true f).qs =
                s.qs.map g := by
              have := congrArg CP.qs e; rw [hq] at this; exact this
            rw [hq2, e, hm]; simp [List.map_map]
        · refine ⟨_, NameOnly.id, ?_, rfl⟩
          rw [cproj_modConn]
          · exact (cproj_map_id s).symm
          · intro _; exact ⟨rfl, rfl⟩

theorem CInv.advanceOut {s : St} {fuel fd n : Nat} (h : CInv tr ns cw ex s) :
    CInv tr ns cw ex (Cares.Chan.advanceOut fuel fd s n) := by
  obtain ⟨g, hg, e, ho⟩ := cproj_advanceOut fuel fd s n
  refine CInv.lift h ho ?_
  intro hok; rw [e]; exact COk.mapQs (coreEq_nameOnly hg) hok

/-- every connection with descriptor `fd` is dropped (`ares_close_connection`) -/
theorem CInv.closeFd {s s' : St} (fd : Nat) (h0 : s'.cfg = s.cfg)
    (h1 : cproj s' = cproj { s with conns := s.conns.filter (·.fd != fd) }) (h2 : s'.outOfFuel = s.outOfFuel)
    (h : CInv tr ns cw ex s) : CInv tr ns cw ex s' := by
  refine CInv.lift h h2 ?_
  intro hok
  rw [h1]
  have : cproj { s with conns := s.conns.filter (·.fd != fd) } =
      { cproj s with kinds := (cproj s).kinds.filter (fun e => e.1 != fd) } := by
    unfold cproj
    simp only [CP.mk.injEq, true_and, and_true]
    rw [List.filter_map]
    rfl
  rw [this]
  exact COk.closeFd fd hok

chan_simple_lemmas CInv : (CInv tr ns cw ex) =>
  emit slog ofault mfault setSock modSock modClient cacheExpire

end

/-- strip one layer of structure update that leaves the accounting projection (and the fuel flag) alone -/
macro "c_congr" : tactic => `(tactic| (
  refine CInv.congr (s := ?s0) ?h0 ?h1 ?h2 ?hI
  case h0 => (dsimp only; exact rfl)
  case h1 => exact rfl
  case h2 => exact rfl))

macro "c_spec" : tactic => `(tactic| first
  | with_reducible apply CInv.removeFromConn
  | with_reducible apply CInv.detach
  | with_reducible apply CInv.freeQuery
  | with_reducible apply CInv.recordTx
  | with_reducible apply CInv.advanceOut
  | with_reducible apply CInv.incFailures
  | with_reducible apply CInv.setGood
  | with_reducible apply CInv.metricsRecord
  | with_reducible apply CInv.notify
  | with_reducible apply CInv.draw1
  | with_reducible apply CInv.draw2
  | with_reducible apply CInv.pop8
  | with_reducible apply CInv.genQid
  | ((with_reducible refine CInv.modServer ?hf ?hI)
     case hf => (intro v; dsimp only; first | exact Or.inl rfl | (split <;> first | exact Or.inl rfl | exact Or.inr rfl)))
  | ((with_reducible refine CInv.modConn ?hf ?hI); case hf => (intro _; exact ⟨rfl, rfl⟩))
  | ((with_reducible refine CInv.modQuery ?hf ?hI); case hf => (intro _; exact ⟨rfl, rfl, rfl, rfl, rfl, rfl, rfl, rfl⟩))
  | with_reducible (first
      | apply CInv.emit | apply CInv.slog | apply CInv.ofault | apply CInv.mfault
      | apply CInv.setSock | apply CInv.modSock | apply CInv.modClient | apply CInv.cacheExpire)
  | (refine CInv.closeFd (s := ?s0) ?fd ?h0 ?h1 ?h2 ?hI
     case h0 => (dsimp only; exact rfl)
     case h1 => exact rfl
     case h2 => exact rfl))

end Cares.Chan
