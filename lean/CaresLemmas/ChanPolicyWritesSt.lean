import CaresLemmas.ChanPolicyWrites
import CaresLemmas.ChanPolicyFrame
import CaresLemmas.ChanPolicyLookup
/-!
# C06 — the write accounting as a state invariant: helpers of the channel model
-/
namespace Cares.Chan
set_option linter.unusedVariables false

/-- the projection of the state the accounting reads -/
def wproj (s : St) : WP :=
  ⟨s.cfg.tries, s.servers.length, s.qs, s.byQid, s.nextKey, s.obs.rnd2, s.requeueArr, s.writeLog, s.accepted⟩

/-- the accounting invariant of a state -/
def WInv (tr ns : Nat) (cw : Option Nat) (s : St) : Prop := WOk tr ns cw (wproj s)

section
variable {tr ns : Nat} {cw : Option Nat}

theorem WInv.congr {s s' : St} (h0 : s'.cfg = s.cfg) (h1 : wproj s' = wproj s) (h : WInv tr ns cw s) :
    WInv tr ns cw s' := by
  unfold WInv at *; rw [h1]; exact h

theorem WInv.dropW {s : St} (h : WInv tr ns cw s) : WInv tr ns none s := WOk.dropW h

/-! ### servers: only their number matters -/

theorem WInv.setServer {s : St} {v : Server} (h : WInv tr ns cw s) : WInv tr ns cw (s.setServer v) := by
  refine WInv.congr (s := s) rfl ?_ h
  unfold wproj St.setServer; simp

theorem WInv.modServer {s : St} {id : Nat} {f : Server → Server} (h : WInv tr ns cw s) :
    WInv tr ns cw (s.modServer id f) := by
  refine WInv.congr (s := s) rfl ?_ h
  unfold wproj St.modServer; simp

theorem WInv.incFailures {s : St} {id : Nat} {tcp : Bool} (h : WInv tr ns cw s) :
    WInv tr ns cw (s.incFailures id tcp) := by
  unfold St.incFailures
  split
  · exact h
  · exact WInv.congr (s := s.setServer _) rfl rfl (WInv.setServer h)

theorem WInv.setGood {s : St} {id : Nat} {tcp : Bool} (h : WInv tr ns cw s) :
    WInv tr ns cw (s.setGood id tcp) := by
  unfold St.setGood
  split
  · exact h
  · exact WInv.congr (s := s.setServer _) rfl rfl (WInv.setServer h)

theorem WInv.metricsRecord {s : St} {q : Query} {srv : Option Nat} {st : Status} {rec : Option Reply}
    (h : WInv tr ns cw s) : WInv tr ns cw (s.metricsRecord q srv st rec) := by
  unfold St.metricsRecord
  split
  · split
    · exact h
    · exact WInv.modServer h
  · exact h

/-! ### the observation -/

theorem WInv.draw1 {s : St} (h : WInv tr ns cw s) : WInv tr ns cw s.draw1.2 := by
  unfold St.draw1
  split
  · exact h
  · exact h

theorem WInv.pop8 {s : St} (h : WInv tr ns cw s) : WInv tr ns cw s.pop8 := by
  unfold St.pop8
  split
  · exact h
  · exact h

theorem wproj_draw2 (s : St) : wproj s.draw2.2 = { wproj s with rnd2 := s.obs.rnd2.tail } := by
  unfold St.draw2
  split
  · rename_i h; unfold wproj St.ofault; simp [h]
  · rename_i x r h; unfold wproj; simp [h]

theorem WInv.draw2 {s : St} (h : WInv tr ns cw s) : WInv tr ns cw s.draw2.2 := by
  unfold WInv; rw [wproj_draw2]
  exact WOk.shrinkRnd (List.tail_sublist _) h

/-- `generate_unique_qid`: the id is one of the observed draws (consumed, so with distinct draws it cannot come again)
    or, when the observation is exhausted, the fallback `70000 + nextKey`; the draws only shrink -/
theorem genQid_spec (n : Nat) (s : St) (hlen : s.obs.rnd2.length < n) :
    (∃ r', r'.Sublist s.obs.rnd2 ∧ wproj (genQid n s).2 = { wproj s with rnd2 := r' } ∧
      (((genQid n s).1 ∈ s.obs.rnd2 ∧ (s.obs.rnd2.Nodup → (genQid n s).1 ∉ r')) ∨
       (genQid n s).1 = 70000 + s.nextKey)) := by
  induction n generalizing s with
  | zero => omega
  | succ n ih =>
    unfold genQid
    split
    · rename_i hemp
      refine ⟨s.obs.rnd2, List.Sublist.refl _, ?_, Or.inr rfl⟩
      unfold wproj St.ofault; rfl
    · rename_i hemp
      cases hr : s.obs.rnd2 with
      | nil => rw [hr] at hemp; simp at hemp
      | cons x r =>
        have hd1 : s.draw2.1 = x := by unfold St.draw2; rw [hr]
        have hd2 : wproj s.draw2.2 = { wproj s with rnd2 := r } := by rw [wproj_draw2, hr]; rfl
        have hd3 : s.draw2.2.obs.rnd2 = r := by
          have := congrArg WP.rnd2 hd2; exact this
        have hd4 : s.draw2.2.nextKey = s.nextKey := by
          have := congrArg WP.nextKey hd2; exact this
        dsimp only
        split
        · have hlen' : s.draw2.2.obs.rnd2.length < n := by rw [hd3]; rw [hr] at hlen; simp at hlen; omega
          obtain ⟨r', hsub, hw, hx⟩ := ih s.draw2.2 hlen'
          rw [hd3] at hsub hx
          refine ⟨r', hsub.trans (List.sublist_cons_self x r), ?_, ?_⟩
          · rw [hw, hd2]
          · rcases hx with ⟨hm, hn⟩ | hf
            · left
              exact ⟨List.mem_cons_of_mem _ hm, fun hnd => hn (List.nodup_cons.1 hnd).2⟩
            · right; rw [hf, hd4]
        · refine ⟨r, List.sublist_cons_self x r, hd2, Or.inl ?_⟩
          rw [hd1]
          exact ⟨List.mem_cons_self, fun hnd => (List.nodup_cons.1 hnd).1⟩

theorem WInv.genQid {s : St} (h : WInv tr ns cw s) : WInv tr ns cw (genQid 70000 s).2 := by
  obtain ⟨r', hsub, hw, _⟩ := genQid_spec 70000 s h.rndLen
  unfold WInv; rw [hw]
  exact WOk.shrinkRnd hsub h

/-! ### queries -/

theorem WInv.mapQs {s : St} {g : Query → Query} (hg : WOk.CoreEq g) (h : WInv tr ns cw s) :
    WInv tr ns cw { s with qs := s.qs.map g } := WOk.mapQs hg h

theorem WInv.modQuery {s : St} {k : Nat} {f : Query → Query} (hf : WOk.CoreEq f) (h : WInv tr ns cw s) :
    WInv tr ns cw (s.modQuery k f) := by
  unfold St.modQuery
  apply WInv.mapQs _ h
  intro q
  by_cases hq : q.key == k
  · simp only [hq, ↓reduceIte]; exact hf q
  · simp only [hq]; exact ⟨rfl, rfl, rfl, rfl, rfl, rfl⟩

theorem coreEq_nameOnly {g : Query → Query} (hg : NameOnly g) : WOk.CoreEq g := by
  intro q
  obtain ⟨nm, e⟩ := hg q
  rw [e]; exact ⟨rfl, rfl, rfl, rfl, rfl, rfl⟩

theorem coreEq_unlink : WOk.CoreEq (fun x => if x.key == k then unlinkQ x else x) := by
  intro q
  by_cases hq : q.key == k
  · simp only [hq, ↓reduceIte]; exact ⟨rfl, rfl, rfl, rfl, rfl, rfl⟩
  · simp only [hq]; exact ⟨rfl, rfl, rfl, rfl, rfl, rfl⟩

theorem wproj_removeFromConn (s : St) (k : Nat) :
    wproj (s.removeFromConn k) = { wproj s with qs := s.qs.map (fun x => if x.key == k then unlinkQ x else x) } ∨
    wproj (s.removeFromConn k) = wproj s := by
  unfold St.removeFromConn
  split
  · exact Or.inr rfl
  · left
    dsimp only
    split <;> rfl

theorem WInv.removeFromConn {s : St} {k : Nat} (h : WInv tr ns cw s) : WInv tr ns cw (s.removeFromConn k) := by
  unfold WInv
  rcases wproj_removeFromConn s k with e | e
  · rw [e]; exact WOk.mapQs coreEq_unlink h
  · rw [e]; exact h

theorem WInv.subQs {s : St} {qs' : List Query} {bq' : List (Nat × Nat)} (hq : qs'.Sublist s.qs)
    (hb : bq'.Sublist s.byQid) (h : WInv tr ns cw s) : WInv tr ns cw { s with qs := qs', byQid := bq' } :=
  WOk.sub hq hb h

theorem WInv.detach {s : St} {k : Nat} (h : WInv tr ns cw s) : WInv tr ns cw (s.detach k) := by
  unfold St.detach
  split
  · exact h
  · have h1 : WInv tr ns cw (s.removeFromConn k) := WInv.removeFromConn h
    exact WOk.sub (p := wproj (s.removeFromConn k)) (List.Sublist.refl _) List.filter_sublist h1

theorem WInv.freeQuery {s : St} {k : Nat} (h : WInv tr ns cw s) : WInv tr ns cw (s.freeQuery k) := by
  unfold St.freeQuery
  have h1 : WInv tr ns cw (s.detach k) := WInv.detach h
  exact WOk.sub (p := wproj (s.detach k)) List.filter_sublist (List.Sublist.refl _) h1

theorem WInv.recordTx {s : St} {fd : Nat} {tcp : Bool} {f : OutFrame} (h : WInv tr ns cw s) :
    WInv tr ns cw (s.recordTx fd tcp f) := by
  obtain ⟨t, g, ev, sl, hg, _, e⟩ := recordTx_shape s fd tcp f
  rw [e]
  exact WInv.congr (s := { s with qs := s.qs.map g }) rfl rfl (WInv.mapQs (coreEq_nameOnly hg) h)

theorem WInv.advanceOut {s : St} {fuel fd n : Nat} (h : WInv tr ns cw s) :
    WInv tr ns cw (Cares.Chan.advanceOut fuel fd s n) := by
  obtain ⟨cs, tx, qs, ev, sl, e, _, ⟨g, hg, hq⟩⟩ := advanceOut_shape fuel fd s n
  rw [e, hq]
  exact WInv.congr (s := { s with qs := s.qs.map g }) rfl rfl (WInv.mapQs (coreEq_nameOnly hg) h)

chan_simple_lemmas WInv : (WInv tr ns cw) =>
  emit slog ofault mfault oofSt setConn setSock modConn modSock modClient cacheExpire

end

/-- strip one layer of structure update that leaves the accounting projection alone -/
macro "w_congr" : tactic => `(tactic| (
  refine WInv.congr (s := ?s0) ?h0 ?h1 ?hI
  case h0 => (dsimp only; exact rfl)
  case h1 => exact rfl))

macro "w_spec" : tactic => `(tactic| first
  | with_reducible apply WInv.removeFromConn
  | with_reducible apply WInv.detach
  | with_reducible apply WInv.freeQuery
  | with_reducible apply WInv.recordTx
  | with_reducible apply WInv.advanceOut
  | with_reducible apply WInv.incFailures
  | with_reducible apply WInv.setGood
  | with_reducible apply WInv.metricsRecord
  | with_reducible apply WInv.setServer
  | with_reducible apply WInv.modServer
  | with_reducible apply WInv.draw1
  | with_reducible apply WInv.draw2
  | with_reducible apply WInv.pop8
  | with_reducible apply WInv.genQid
  | (with_reducible refine WInv.modQuery ?hf ?hI; case hf => (intro _; exact ⟨rfl, rfl, rfl, rfl, rfl, rfl⟩))
  | with_reducible (first
      | apply WInv.emit | apply WInv.slog | apply WInv.ofault | apply WInv.mfault | apply WInv.oof
      | apply WInv.setConn | apply WInv.setSock | apply WInv.modConn
      | apply WInv.modSock | apply WInv.modClient | apply WInv.cacheExpire))

end Cares.Chan
