import CaresLemmas.ChanPolicySettle
import CaresLemmas.ChanPolicyExec
/-!
# C06 — every attempt waits at least the base timeout and at most the configured maximum

`sqDeadline` is the deadline computation of `bodySendQuery` (`ares_calc_query_timeout` + `timeadd`, see
`bodySendQuery_eq`).  The jitter (`rounds > 0`) is not computed by the model: the deadline is `.pending lo hi` and
`St.settle` takes the observed value, logging an observation fault when it lies outside `[lo, hi]`.
-/
namespace Cares.Chan

/-- the cap `ares_metrics_server_timeout` applies -/
def timeoutCap (c : Cfg) : Nat := if c.maxtimeout != 0 then c.maxtimeout else 5000

theorem serverTimeout_le_cap (s : St) (v : Server) : s.serverTimeout v ≤ timeoutCap s.cfg := by
  unfold St.serverTimeout timeoutCap
  dsimp only
  repeat' split
  all_goals omega

/-- floor and cap of the base timeout: at least 250 ms unless the cap is lower -/
theorem serverTimeout_ge (s : St) (v : Server) : min 250 (timeoutCap s.cfg) ≤ s.serverTimeout v := by
  unfold St.serverTimeout timeoutCap
  dsimp only
  repeat' split
  all_goals omega

theorem draw2_now (s : St) : s.draw2.2.now = s.now := by
  unfold St.draw2; split <;> rfl

/-- **deadline_within_policy**: the deadline `ares_send_query` sets is at least `now + base` (base = the server's
    current timeout as `ares_metrics_server_timeout` yields it) and, when a maximum is configured, at most
    `now + maxtimeout`; for a jittered deadline this holds for both ends of the admitted interval -/
theorem deadline_within_policy (s : St) (srvNow : Server) (tryCount : Nat) :
    (sqDeadline s srvNow tryCount).2.now = s.now ∧
    match (sqDeadline s srvNow tryCount).1 with
    | .at d => s.now + s.serverTimeout srvNow ≤ d ∧ (s.cfg.maxtimeout ≠ 0 → d ≤ s.now + s.cfg.maxtimeout)
    | .pending lo hi =>
      s.now + s.serverTimeout srvNow ≤ lo ∧ lo ≤ hi ∧ (s.cfg.maxtimeout ≠ 0 → hi ≤ s.now + s.cfg.maxtimeout)
    | .none => False := by
  have hcap := serverTimeout_le_cap s srvNow
  unfold sqDeadline
  dsimp only
  split
  · -- jittered
    refine ⟨draw2_now s, ?_⟩
    dsimp only
    rw [draw2_now]
    refine ⟨by omega, by omega, ?_⟩
    intro hm
    unfold timeoutCap at hcap
    have hne : (s.cfg.maxtimeout != 0) = true := by simpa using hm
    rw [if_pos hne] at hcap
    split
    · omega
    · rename_i hcond
      simp only [hne, Bool.true_and, decide_eq_true_eq, Nat.not_lt] at hcond
      omega
  · refine ⟨rfl, ?_⟩
    dsimp only
    refine ⟨by omega, ?_⟩
    intro hm
    unfold timeoutCap at hcap
    have hne : (s.cfg.maxtimeout != 0) = true := by simpa using hm
    rw [if_pos hne] at hcap
    split
    · omega
    · rename_i hcond
      simp only [hne, Bool.true_and, decide_eq_true_eq, Nat.not_lt] at hcond
      omega

/-- the first pass (`try_count < servers`) is not jittered: the deadline is exact -/
theorem deadline_first_pass (s : St) (srvNow : Server) (tryCount : Nat) (h : tryCount / s.servers.length = 0) :
    ∃ d, (sqDeadline s srvNow tryCount).1 = .at d := by
  unfold sqDeadline
  dsimp only
  rw [h]
  exact ⟨_, rfl⟩

/-- `settle` admits an observed jittered deadline only inside the interval: otherwise an observation fault is
    logged -/
theorem settleStep_within (s : St) (k : Nat) (q : Query) (lo hi : Nat) (hq : s.query? k = some q)
    (hd : q.deadline = .pending lo hi) :
    (settleStep s k).obsFaults.length > s.obsFaults.length ∨
    ∃ v, lo ≤ v ∧ v ≤ hi ∧ (settleStep s k).dl? k = some (.at v) := by
  unfold settleStep
  rw [hq]
  dsimp only
  rw [hd]
  dsimp only
  split
  · rename_i rem _
    generalize hv : (Int.ofNat s.now + rem).toNat = v
    have hk : q.key = k := query?_key hq
    by_cases hin : (decide (lo ≤ v) && decide (v ≤ hi)) = true
    · right
      simp only [Bool.and_eq_true, decide_eq_true_eq] at hin
      refine ⟨v, hin.1, hin.2, ?_⟩
      rw [if_pos (by simpa using hin)]
      show (St.dl? _ k) = _
      unfold St.dl?
      show Option.map _ ((s.modQuery q.key fun q => { q with deadline := .at v }).query? k) = _
      rw [hk, query?_modQuery_self, hq]
      · rfl
      · intro _; rfl
    · left
      rw [if_neg hin]
      show (s.obsFaults ++ [_]).length > _
      simp
  · left
    show (s.obsFaults ++ [_]).length > _
    simp

end Cares.Chan
