import CaresLemmas.ChanPolicyFrameExec
import CaresLemmas.ChanPolicyLookup
/-!
# C07a — the by-timeout index (`channel->queries_by_timeout`) is sorted and covers every pending deadline

`BT s`: the index has no duplicates, is sorted by the deadline of the query each entry refers to, every entry refers to
a live query with a definite deadline, and every query that has a deadline is in the index or in `pendingOrder` (the
insertions of the current API call, replayed by `St.settle`).
-/
namespace Cares.Chan
set_option linter.unusedVariables false

/-- deadline (ms) the index sees for entry `k` — the key function of `insertByDeadline` -/
def St.dlOf (s : St) (k : Nat) : Nat := ((s.query? k).bind fun q => deadlineMs q.deadline).getD 0

/-- the deadline of query `k`, if it exists -/
def St.dl? (s : St) (k : Nat) : Option Deadline := (s.query? k).map (·.deadline)

theorem dlOf_eq (s : St) (k : Nat) : s.dlOf k = ((s.dl? k).bind deadlineMs).getD 0 := by
  unfold St.dlOf St.dl?; cases s.query? k <;> rfl

/-- entry `k` refers to a live query with a definite deadline -/
def St.hasAt (s : St) (k : Nat) : Prop := ∃ ms, s.dl? k = some (.at ms)

def BT (s : St) : Prop :=
  s.byTimeout.Nodup ∧
  s.byTimeout.Pairwise (fun a b => s.dlOf a ≤ s.dlOf b) ∧
  (∀ k ∈ s.byTimeout, s.hasAt k) ∧
  (∀ k d, s.dl? k = some d → d ≠ .none → k ∈ s.byTimeout ∨ k ∈ s.pendingOrder)

theorem BT.congr {s s' : St} (h0 : s'.cfg = s.cfg) (hq : s'.qs = s.qs) (hb : s'.byTimeout = s.byTimeout)
    (hp : s'.pendingOrder = s.pendingOrder) (h : BT s) : BT s' := by
  have hl : ∀ k, s'.dl? k = s.dl? k := fun k => by unfold St.dl? St.query?; rw [hq]
  have hd : ∀ k, s'.dlOf k = s.dlOf k := fun k => by rw [dlOf_eq, dlOf_eq, hl]
  unfold BT St.hasAt at *
  simp only [hb, hp, hl, hd]
  exact h

/-- the index shrank, the deadlines of what is left in it are unchanged, and coverage still holds -/
theorem BT.transfer {s s' : St} (h : BT s) (hsub : s'.byTimeout.Sublist s.byTimeout)
    (hq : ∀ k ∈ s'.byTimeout, s'.dl? k = s.dl? k)
    (hcov : ∀ k d, s'.dl? k = some d → d ≠ .none → k ∈ s'.byTimeout ∨ k ∈ s'.pendingOrder) : BT s' := by
  obtain ⟨hn, hs, hl, _⟩ := h
  refine ⟨hsub.nodup hn, ?_, ?_, hcov⟩
  · have := List.Pairwise.sublist hsub hs
    refine this.imp_of_mem ?_
    intro a b ha hb hab
    rw [dlOf_eq, dlOf_eq, hq a ha, hq b hb, ← dlOf_eq, ← dlOf_eq]; exact hab
  · intro k hk
    unfold St.hasAt
    rw [hq k hk]
    exact hl k (hsub.subset hk)

/-- rewriting the queries without touching key or deadline -/
theorem BT.mapQs {s : St} {g : Query → Query} (hg : ∀ q, (g q).key = q.key ∧ (g q).deadline = q.deadline)
    (h : BT s) : BT { s with qs := s.qs.map g } := by
  have hl : ∀ k, ({ s with qs := s.qs.map g } : St).dl? k = s.dl? k := by
    intro k
    unfold St.dl?
    rw [query?_map (fun q => (hg q).1)]
    cases s.query? k with
    | none => rfl
    | some q => simp [(hg q).2]
  refine BT.transfer h (List.Sublist.refl _) (fun k _ => hl k) ?_
  intro k d hd hne
  rw [hl] at hd
  exact h.2.2.2 k d hd hne

theorem BT.modQuery {s : St} {k : Nat} {f : Query → Query}
    (hf : ∀ q, (f q).key = q.key ∧ (f q).deadline = q.deadline) (h : BT s) : BT (s.modQuery k f) := by
  unfold St.modQuery
  apply BT.mapQs _ h
  intro q
  by_cases hq : q.key == k <;> simp [hq, hf]

theorem BT.nameOnly {s : St} {g : Query → Query} (hg : NameOnly g) (h : BT s) : BT { s with qs := s.qs.map g } := by
  apply BT.mapQs _ h
  intro q
  obtain ⟨nm, e⟩ := hg q
  rw [e]; exact ⟨rfl, rfl⟩

theorem dl?_removeFromConn_ne (s : St) {k k' : Nat} (hne : k' ≠ k) : (s.removeFromConn k).dl? k' = s.dl? k' := by
  unfold St.dl?; rw [query?_removeFromConn_ne s hne]

theorem dl?_removeFromConn_self (s : St) (k : Nat) (d : Deadline) (h : (s.removeFromConn k).dl? k = some d) :
    d = .none := by
  unfold St.dl? at h
  rw [query?_removeFromConn_self] at h
  cases hq : s.query? k with
  | none => rw [hq] at h; simp at h
  | some q => rw [hq] at h; simp [unlinkQ] at h; exact h.symm

theorem BT.removeFromConn {s : St} {k : Nat} (h : BT s) : BT (s.removeFromConn k) := by
  have hn := h.1
  rcases removeFromConn_byTimeout s k with hb | ⟨hnone, hb⟩
  · rcases removeFromConn_pendingOrder s k with hp | ⟨hnone, _⟩
    · refine BT.transfer h (by rw [hb]; exact List.erase_sublist) ?_ ?_
      · intro k' hk'
        rw [hb, hn.mem_erase_iff] at hk'
        exact dl?_removeFromConn_ne s hk'.1
      · intro k' d hd hne
        by_cases hkk : k' = k
        · subst hkk; exact absurd (dl?_removeFromConn_self s k' d hd) hne
        · rw [dl?_removeFromConn_ne s hkk] at hd
          rw [hb, hp, List.mem_erase_of_ne hkk, List.mem_erase_of_ne hkk]
          exact h.2.2.2 k' d hd hne
    · -- the query does not exist: nothing changed
      have : s.removeFromConn k = s := by unfold St.removeFromConn; rw [hnone]
      rw [this]; exact h
  · have : s.removeFromConn k = s := by unfold St.removeFromConn; rw [hnone]
    rw [this]; exact h

theorem BT.detach {s : St} {k : Nat} (h : BT s) : BT (s.detach k) := by
  unfold St.detach
  split
  · exact h
  · exact BT.congr rfl rfl rfl rfl (BT.removeFromConn (k := k) h)

/-- after `removeFromConn k` the key is in neither list -/
theorem not_mem_after_removeFromConn {s : St} {k : Nat} (h : BT s) :
    k ∉ (s.removeFromConn k).byTimeout := by
  rcases removeFromConn_byTimeout s k with hb | ⟨hnone, hb⟩
  · rw [hb, h.1.mem_erase_iff]; exact fun hh => hh.1 rfl
  · rw [hb]
    intro hk
    obtain ⟨ms, hms⟩ := h.2.2.1 k hk
    unfold St.dl? at hms; rw [hnone] at hms; simp at hms

theorem find?_congr' {α : Type} {p q : α → Bool} {l : List α} (h : ∀ x ∈ l, p x = q x) : l.find? p = l.find? q := by
  induction l with
  | nil => rfl
  | cons x r ih =>
    simp only [List.find?_cons, h x List.mem_cons_self]
    rw [ih (fun y hy => h y (List.mem_cons_of_mem _ hy))]

theorem BT.freeQuery {s : St} {k : Nat} (h : BT s) : BT (s.freeQuery k) := by
  have hd : BT (s.detach k) := BT.detach h
  have hnk : k ∉ (s.detach k).byTimeout := by
    unfold St.detach
    split
    · rename_i hnone
      intro hk
      obtain ⟨ms, hms⟩ := h.2.2.1 k hk
      unfold St.dl? at hms; rw [hnone] at hms; simp at hms
    · exact not_mem_after_removeFromConn h
  have hl : ∀ k', k' ≠ k → (s.freeQuery k).dl? k' = (s.detach k).dl? k' := by
    intro k' hne
    unfold St.freeQuery St.dl? St.query?
    dsimp only
    rw [List.find?_filter]
    congr 1
    apply find?_congr'
    intro q _
    by_cases hq : q.key == k'
    · have : q.key ≠ k := by rw [beq_iff_eq.1 hq]; exact hne
      simp [hq, this]
    · simp [hq]
  have hself : (s.freeQuery k).dl? k = none := by
    unfold St.freeQuery St.dl? St.query?
    dsimp only
    rw [List.find?_filter]
    have : List.find? (fun a => decide ((a.key != k) = true ∧ (a.key == k) = true)) (s.detach k).qs = none := by
      rw [List.find?_eq_none]
      intro q _
      by_cases hq : q.key = k <;> simp [hq]
    rw [this]; rfl
  refine BT.transfer hd (List.Sublist.refl _) ?_ ?_
  · intro k' hk'
    exact hl k' (fun e => hnk (e ▸ hk'))
  · intro k' d hdl hne
    by_cases hkk : k' = k
    · subst hkk; rw [hself] at hdl; cases hdl
    · rw [hl k' hkk] at hdl
      exact hd.2.2.2 k' d hdl hne

/-- a new query without a deadline is appended -/
theorem BT.addQuery {s : St} (q : Query) (hq : q.deadline = .none) (h : BT s) :
    BT { s with qs := s.qs ++ [q] } := by
  have hl : ∀ k, ({ s with qs := s.qs ++ [q] } : St).dl? k = s.dl? k ∨
      (s.dl? k = none ∧ ({ s with qs := s.qs ++ [q] } : St).dl? k = some .none) ∨
      (s.dl? k = none ∧ ({ s with qs := s.qs ++ [q] } : St).dl? k = none) := by
    intro k
    unfold St.dl? St.query?
    dsimp only
    rw [List.find?_append]
    cases hf : s.qs.find? (·.key == k) with
    | some x => left; rfl
    | none =>
      right
      by_cases hk : q.key == k
      · left; simp [hk, hq]
      · right; simp [hk]
  refine BT.transfer h (List.Sublist.refl _) ?_ ?_
  · intro k hk
    obtain ⟨ms, hms⟩ := h.2.2.1 k hk
    rcases hl k with e | ⟨e, _⟩ | ⟨e, _⟩
    · exact e
    · rw [e] at hms; cases hms
    · rw [e] at hms; cases hms
  · intro k d hd hne
    rcases hl k with e | ⟨_, e⟩ | ⟨_, e⟩
    · rw [e] at hd; exact h.2.2.2 k d hd hne
    · rw [e] at hd; cases hd; exact absurd rfl hne
    · rw [e] at hd; cases hd

theorem BT.addQuery' {s s' : St} {q : Query} (h0 : s'.cfg = s.cfg) (h1 : s'.qs = s.qs ++ [q])
    (h2 : s'.byTimeout = s.byTimeout) (h3 : s'.pendingOrder = s.pendingOrder) (hq : q.deadline = .none)
    (h : BT s) : BT s' :=
  BT.congr (s := { s with qs := s.qs ++ [q] }) h0 h1 h2 h3 (BT.addQuery q hq h)

theorem BT.recordTx {s : St} {fd : Nat} {tcp : Bool} {f : OutFrame} (h : BT s) : BT (s.recordTx fd tcp f) := by
  obtain ⟨t, g, ev, sl, hg, _, e⟩ := recordTx_shape s fd tcp f
  rw [e]
  exact BT.congr rfl rfl rfl rfl (BT.nameOnly hg h)

theorem BT.advanceOut {s : St} {fuel fd n : Nat} (h : BT s) : BT (advanceOut fuel fd s n) := by
  obtain ⟨cs, tx, qs, ev, sl, e, _, ⟨g, hg, hq⟩⟩ := advanceOut_shape fuel fd s n
  rw [e, hq]
  exact BT.congr rfl rfl rfl rfl (BT.nameOnly hg h)

/-- the state `sqCommit` produces, up to the connection bookkeeping -/
def commitCore (s : St) (key fd : Nat) (dl : Deadline) : St :=
  ({ s with byTimeout := s.byTimeout.erase key, pendingOrder := s.pendingOrder.erase key ++ [key] } : St).modQuery key
    (fun q => { q with ts := s.now, deadline := dl, conn := some fd, inConnList := true })

theorem sqCommit_core (s : St) (q : Query) (key fd : Nat) (dl : Deadline) :
    ∃ cs, sqCommit s q key fd dl = { commitCore s key fd dl with conns := cs } := by
  unfold sqCommit commitCore
  cases q.conn <;> exact ⟨_, rfl⟩

/-- the bookkeeping of `ares_send_query` after a successful write: the query leaves the index, gets its new deadline
    and is queued for (re-)insertion -/
theorem BT.commit {s : St} (q : Query) (key fd : Nat) (dl : Deadline) (h : BT s) : BT (sqCommit s q key fd dl) := by
  obtain ⟨cs, e⟩ := sqCommit_core s q key fd dl
  rw [e]
  refine BT.congr (s := commitCore s key fd dl) rfl rfl rfl rfl ?_
  have hl : ∀ k', k' ≠ key → (commitCore s key fd dl).dl? k' = s.dl? k' := by
    intro k' hne
    unfold St.dl? commitCore
    rw [query?_modQuery_ne (hne := hne)]
    · rfl
    · intro _; rfl
  refine BT.transfer h (List.erase_sublist : ((commitCore s key fd dl).byTimeout).Sublist s.byTimeout) ?_ ?_
  · intro k' hk'
    have : k' ∈ s.byTimeout.erase key := hk'
    rw [h.1.mem_erase_iff] at this
    exact hl k' this.1
  · intro k' d hd hne
    show k' ∈ s.byTimeout.erase key ∨ k' ∈ s.pendingOrder.erase key ++ [key]
    by_cases hkk : k' = key
    · right; subst hkk; simp
    · rw [hl k' hkk] at hd
      rw [List.mem_erase_of_ne hkk, List.mem_append, List.mem_erase_of_ne hkk]
      rcases h.2.2.2 k' d hd hne with hh | hh
      · exact Or.inl hh
      · exact Or.inr (Or.inl hh)

/-! ### relation to a base state: what stays in the index keeps its deadline -/

/-- the index of `s` is a sub-list of that of `s0`, and its entries have the deadlines they had in `s0` -/
def Stay (s0 s : St) : Prop := s.byTimeout.Sublist s0.byTimeout ∧ ∀ k ∈ s.byTimeout, s.dl? k = s0.dl? k

theorem Stay.refl (s : St) : Stay s s := ⟨List.Sublist.refl _, fun _ _ => rfl⟩

theorem Stay.step {s0 s s' : St} (h : Stay s0 s) (hsub : s'.byTimeout.Sublist s.byTimeout)
    (hq : ∀ k ∈ s'.byTimeout, s'.dl? k = s.dl? k) : Stay s0 s' :=
  ⟨hsub.trans h.1, fun k hk => (hq k hk).trans (h.2 k (hsub.subset hk))⟩

/-- `BT` plus the relation to the base state `s0` -/
def BTR (s0 s : St) : Prop := BT s ∧ Stay s0 s

namespace BTR
variable {s0 : St}

theorem congr {s s' : St} (h0 : s'.cfg = s.cfg) (hq : s'.qs = s.qs) (hb : s'.byTimeout = s.byTimeout)
    (hp : s'.pendingOrder = s.pendingOrder) (h : BTR s0 s) : BTR s0 s' := by
  refine ⟨BT.congr h0 hq hb hp h.1, Stay.step h.2 (by rw [hb]; exact List.Sublist.refl _) ?_⟩
  intro k _; unfold St.dl? St.query?; rw [hq]

theorem mapQs {s : St} {g : Query → Query} (hg : ∀ q, (g q).key = q.key ∧ (g q).deadline = q.deadline)
    (h : BTR s0 s) : BTR s0 { s with qs := s.qs.map g } := by
  refine ⟨BT.mapQs hg h.1, Stay.step h.2 (List.Sublist.refl _) ?_⟩
  intro k _
  unfold St.dl?
  rw [query?_map (fun q => (hg q).1)]
  cases s.query? k with
  | none => rfl
  | some q => simp [(hg q).2]

theorem modQuery {s : St} {k : Nat} {f : Query → Query}
    (hf : ∀ q, (f q).key = q.key ∧ (f q).deadline = q.deadline) (h : BTR s0 s) : BTR s0 (s.modQuery k f) := by
  unfold St.modQuery
  apply BTR.mapQs _ h
  intro q
  by_cases hq : q.key == k <;> simp [hq, hf]

theorem nameOnly {s : St} {g : Query → Query} (hg : NameOnly g) (h : BTR s0 s) :
    BTR s0 { s with qs := s.qs.map g } := by
  apply BTR.mapQs _ h
  intro q
  obtain ⟨nm, e⟩ := hg q
  rw [e]; exact ⟨rfl, rfl⟩

theorem removeFromConn {s : St} {k : Nat} (h : BTR s0 s) : BTR s0 (s.removeFromConn k) := by
  refine ⟨BT.removeFromConn h.1, ?_⟩
  rcases removeFromConn_byTimeout s k with hb | ⟨hnone, hb⟩
  · refine Stay.step h.2 (by rw [hb]; exact List.erase_sublist) ?_
    intro k' hk'
    rw [hb, h.1.1.mem_erase_iff] at hk'
    exact dl?_removeFromConn_ne s hk'.1
  · have : s.removeFromConn k = s := by unfold St.removeFromConn; rw [hnone]
    rw [this]; exact h.2

theorem detach {s : St} {k : Nat} (h : BTR s0 s) : BTR s0 (s.detach k) := by
  unfold St.detach
  split
  · exact h
  · exact BTR.congr rfl rfl rfl rfl (BTR.removeFromConn (k := k) h)

theorem freeQuery {s : St} {k : Nat} (h : BTR s0 s) : BTR s0 (s.freeQuery k) := by
  have hd : BTR s0 (s.detach k) := BTR.detach h
  refine ⟨BT.freeQuery h.1, Stay.step hd.2 (List.Sublist.refl _) ?_⟩
  have hnk : k ∉ (s.detach k).byTimeout := by
    unfold St.detach
    split
    · rename_i hnone
      intro hk
      obtain ⟨ms, hms⟩ := h.1.2.2.1 k hk
      unfold St.dl? at hms; rw [hnone] at hms; simp at hms
    · exact not_mem_after_removeFromConn h.1
  intro k' hk'
  have hne : k' ≠ k := fun e => hnk (e ▸ hk')
  unfold St.freeQuery St.dl? St.query?
  dsimp only
  rw [List.find?_filter]
  congr 1
  apply find?_congr'
  intro q _
  by_cases hq : q.key == k'
  · have : q.key ≠ k := by rw [beq_iff_eq.1 hq]; exact hne
    simp [hq, this]
  · simp [hq]

theorem addQuery' {s s' : St} {q : Query} (h0 : s'.cfg = s.cfg) (h1 : s'.qs = s.qs ++ [q])
    (h2 : s'.byTimeout = s.byTimeout) (h3 : s'.pendingOrder = s.pendingOrder) (hq : q.deadline = .none)
    (h : BTR s0 s) : BTR s0 s' := by
  refine ⟨BT.addQuery' h0 h1 h2 h3 hq h.1, Stay.step h.2 (by rw [h2]; exact List.Sublist.refl _) ?_⟩
  intro k hk
  rw [h2] at hk
  obtain ⟨ms, hms⟩ := h.1.2.2.1 k hk
  unfold St.dl? St.query? at *
  rw [h1, List.find?_append]
  cases hf : s.qs.find? (·.key == k) with
  | some x => rfl
  | none => rw [hf] at hms; cases hms

theorem recordTx {s : St} {fd : Nat} {tcp : Bool} {f : OutFrame} (h : BTR s0 s) : BTR s0 (s.recordTx fd tcp f) := by
  obtain ⟨t, g, ev, sl, hg, _, e⟩ := recordTx_shape s fd tcp f
  rw [e]
  exact BTR.congr rfl rfl rfl rfl (BTR.nameOnly hg h)

theorem advanceOut {s : St} {fuel fd n : Nat} (h : BTR s0 s) : BTR s0 (Cares.Chan.advanceOut fuel fd s n) := by
  obtain ⟨cs, tx, qs, ev, sl, e, _, ⟨g, hg, hq⟩⟩ := advanceOut_shape fuel fd s n
  rw [e, hq]
  exact BTR.congr rfl rfl rfl rfl (BTR.nameOnly hg h)

theorem commit {s : St} (q : Query) (key fd : Nat) (dl : Deadline) (h : BTR s0 s) :
    BTR s0 (sqCommit s q key fd dl) := by
  refine ⟨BT.commit q key fd dl h.1, ?_⟩
  obtain ⟨cs, e⟩ := sqCommit_core s q key fd dl
  rw [e]
  refine Stay.step h.2 (List.erase_sublist : ((commitCore s key fd dl).byTimeout).Sublist s.byTimeout) ?_
  intro k' hk'
  have : k' ∈ s.byTimeout.erase key := hk'
  rw [h.1.1.mem_erase_iff] at this
  show (commitCore s key fd dl).dl? k' = s.dl? k'
  unfold St.dl? commitCore
  rw [query?_modQuery_ne (hne := this.1)]
  · rfl
  · intro _; rfl

end BTR

section
variable {s0 : St}
chan_simple_lemmas BTR : (BTR s0) =>
  emit slog ofault mfault oofSt setConn setServer setSock modConn modServer modSock modClient cacheExpire
end

/-- strip one layer of structure update that leaves `cfg`, `qs`, `byTimeout`, `pendingOrder` alone -/
macro "btr_congr" : tactic => `(tactic| (
  refine BTR.congr (s := ?s0) ?h0 ?h1 ?h2 ?h3 ?hI
  case h0 => (dsimp only; exact rfl)
  case h1 => exact rfl
  case h2 => exact rfl
  case h3 => exact rfl))

macro "btr_spec" : tactic => `(tactic| first
  | with_reducible apply BTR.removeFromConn
  | with_reducible apply BTR.detach
  | with_reducible apply BTR.freeQuery
  | with_reducible apply BTR.recordTx
  | with_reducible apply BTR.advanceOut
  | with_reducible apply BTR.commit
  | (with_reducible refine BTR.modQuery ?hf ?hI; case hf => (intro _; exact ⟨rfl, rfl⟩))
  | (refine BTR.addQuery' (s := ?s0) (q := ?q) ?h0 ?h1 ?h2 ?h3 ?hq ?hI
     case h0 => (dsimp only; exact rfl)
     case h1 => exact rfl
     case h2 => exact rfl
     case h3 => exact rfl
     case hq => exact rfl)
  | with_reducible (first
      | apply BTR.emit | apply BTR.slog | apply BTR.ofault | apply BTR.mfault | apply BTR.oof
      | apply BTR.setConn | apply BTR.setServer | apply BTR.setSock | apply BTR.modConn | apply BTR.modServer
      | apply BTR.modSock | apply BTR.modClient | apply BTR.cacheExpire))

macro "btr_step " hgo:term : tactic => `(tactic| chan_step $hgo, btr_spec, btr_congr)

chan_simple_lemmas BT : BT =>
  emit slog ofault mfault oofSt setConn setServer setSock modConn modServer modSock modClient cacheExpire

/-- strip one layer of structure update that leaves `cfg`, `qs`, `byTimeout`, `pendingOrder` alone -/
macro "bt_congr" : tactic => `(tactic| (
  refine BT.congr (s := ?s0) ?h0 ?h1 ?h2 ?h3 ?hI
  case h0 => (dsimp only; exact rfl)
  case h1 => exact rfl
  case h2 => exact rfl
  case h3 => exact rfl))

macro "bt_spec" : tactic => `(tactic| first
  | with_reducible apply BT.removeFromConn
  | with_reducible apply BT.detach
  | with_reducible apply BT.freeQuery
  | with_reducible apply BT.recordTx
  | with_reducible apply BT.advanceOut
  | with_reducible apply BT.commit
  | (with_reducible refine BT.modQuery ?hf ?hI; case hf => (intro _; exact ⟨rfl, rfl⟩))
  | (refine BT.addQuery' (s := ?s0) (q := ?q) ?h0 ?h1 ?h2 ?h3 ?hq ?hI
     case h0 => (dsimp only; exact rfl)
     case h1 => exact rfl
     case h2 => exact rfl
     case h3 => exact rfl
     case hq => exact rfl)
  | with_reducible (first
      | apply BT.emit | apply BT.slog | apply BT.ofault | apply BT.mfault | apply BT.oof
      | apply BT.setConn | apply BT.setServer | apply BT.setSock | apply BT.modConn | apply BT.modServer
      | apply BT.modSock | apply BT.modClient | apply BT.cacheExpire))

macro "bt_step " hgo:term : tactic => `(tactic| chan_step $hgo, bt_spec, bt_congr)

end Cares.Chan
