import CaresModel.BufSpec
import CaresLemmas.Buf
/-! Helper lemmas for the `ares_buf` model, part 3: ares_buf_split on cursor and tag = the list specification. -/
namespace Cares
open Cares.Dsa Cares.Buf

/-- two buffers that differ only in offset and tag -/
structure SameData (b b' : Buf) : Prop where
  mem : b'.mem = b.mem
  const : b'.isConst = b.isConst
  dlen : b'.dataLen = b.dataLen

theorem SameData.refl (b : Buf) : SameData b b := ⟨rfl, rfl, rfl⟩
theorem SameData.trans {a b c : Buf} (h1 : SameData a b) (h2 : SameData b c) : SameData a c :=
  ⟨h2.mem.trans h1.mem, h2.const.trans h1.const, h2.dlen.trans h1.dlen⟩

theorem inv_of_sameData (b b' : Buf) (h : b.Inv) (s : SameData b b') (ho : b'.off ≤ b'.dataLen)
    (ht : ∀ t, b'.tag = some t → t ≤ b'.dataLen) : b'.Inv := by
  refine ⟨by rw [s.dlen, s.mem]; exact h.dlen, ho, ht, ?_⟩
  have := h.room
  rw [s.const, s.dlen, s.mem]; exact this

theorem remaining_of_sameData (b b' : Buf) (s : SameData b b') : b'.remaining = b.live.drop b'.off := by
  unfold Buf.remaining Buf.live; rw [s.mem, s.dlen]

theorem consume_ok (b : Buf) (n : Nat) (h : n ≤ b.len) : b.consume n = (.ok, { b with off := b.off + n }) := by
  unfold Buf.consume; rw [if_neg (by omega)]

/-- start of an iteration -/
theorem splitAdvance_spec (fl : SplitFlags) (b : Buf) (first : Bool) (h : b.Inv) (hlen : b.len ≠ 0) :
    SameData b (splitAdvance fl b first) ∧ (splitAdvance fl b first).Inv ∧
      (splitAdvance fl b first).tag = some (if first = true ∨ fl.keepDelims = true then b.off else b.off + 1) ∧
      (splitAdvance fl b first).off = (if first = true then b.off else b.off + 1) := by
  have hl : 1 ≤ b.len := by omega
  have ho := h.offLe
  have hlen' : b.off + 1 ≤ b.dataLen := by unfold Buf.len at hl; omega
  unfold splitAdvance
  cases first with
  | true =>
    simp only [↓reduceIte, true_or]
    refine ⟨⟨rfl, rfl, rfl⟩, ?_, rfl, rfl⟩
    exact inv_of_sameData b _ h ⟨rfl, rfl, rfl⟩ ho (fun t ht => by cases ht; exact ho)
  | false =>
    simp only [Bool.false_eq_true, ↓reduceIte, false_or]
    cases hk : fl.keepDelims with
    | true =>
      simp only [↓reduceIte]
      have : b.doTag.len = b.len := rfl
      rw [consume_ok b.doTag 1 (by omega)]
      refine ⟨⟨rfl, rfl, rfl⟩, ?_, rfl, rfl⟩
      exact inv_of_sameData b _ h ⟨rfl, rfl, rfl⟩ hlen' (fun t ht => by cases ht; exact ho)
    | false =>
      simp only [Bool.false_eq_true, ↓reduceIte]
      rw [consume_ok b 1 hl]
      refine ⟨⟨rfl, rfl, rfl⟩, ?_, rfl, rfl⟩
      exact inv_of_sameData b _ h ⟨rfl, rfl, rfl⟩ hlen' (fun t ht => by cases ht; exact hlen')

theorem remaining_length' (b : Buf) (h : b.Inv) : b.remaining.length = b.len := remaining_length b h

/-- end of the section -/
theorem splitScan_spec (delims : List Nat) (mr : Bool) (b1 : Buf) (h : b1.Inv) (hd : delims ≠ []) :
    SameData b1 (splitScan delims mr b1) ∧ (splitScan delims mr b1).tag = b1.tag ∧
      (splitScan delims mr b1).off = b1.off +
        (if mr = true then b1.remaining else b1.remaining.takeWhile (fun c => !delims.contains c)).length ∧
      (splitScan delims mr b1).off ≤ b1.dataLen := by
  have hrl := remaining_length b1 h
  have ho := h.offLe
  unfold splitScan
  cases mr with
  | true =>
    simp only [↓reduceIte]
    rw [consume_ok b1 b1.len (Nat.le_refl _)]
    refine ⟨⟨rfl, rfl, rfl⟩, rfl, by simp only; rw [hrl], ?_⟩
    simp only; unfold Buf.len; omega
  | false =>
    simp only [Bool.false_eq_true, ↓reduceIte]
    unfold Buf.consumeUntilCharset
    have hde : delims.isEmpty = false := by cases delims <;> simp_all
    cases hf : b1.fetch with
    | none =>
      simp only
      have hr0 : b1.remaining = [] := by
        unfold Buf.fetch at hf
        by_cases hh : b1.hasData = true
        · simp only [hh, Bool.not_true, Bool.false_eq_true, ↓reduceIte] at hf
          by_cases hl : b1.len = 0
          · apply List.eq_nil_of_length_eq_zero; rw [hrl]; exact hl
          · simp [hl] at hf
        · have hm : b1.mem = [] := by
            unfold Buf.hasData at hh
            cases hmm : b1.mem with
            | nil => rfl
            | cons _ _ => rw [hmm] at hh; simp at hh
          unfold Buf.remaining; rw [hm]; simp
      refine ⟨⟨rfl, rfl, rfl⟩, trivial, by rw [hr0]; simp, ho⟩
    | some r =>
      have hr : r = b1.remaining := by
        unfold Buf.fetch at hf
        split at hf
        · cases hf
        · split at hf
          · cases hf
          · cases hf; rfl
      subst hr
      simp only [hde, Bool.false_eq_true, ↓reduceIte, false_and]
      have hpl : (b1.remaining.takeWhile (fun c => !delims.contains c)).length ≤ b1.len := by
        rw [← hrl]; exact (List.takeWhile_sublist _).length_le
      unfold Buf.consumeCount
      by_cases hp : (b1.remaining.takeWhile (fun c => !delims.contains c)).length > 0
      · simp only [hp, ↓reduceIte]
        rw [consume_ok b1 _ hpl]
        refine ⟨⟨rfl, rfl, rfl⟩, rfl, rfl, ?_⟩
        simp only; unfold Buf.len at hpl; omega
      · simp only [hp, ↓reduceIte]
        refine ⟨⟨rfl, rfl, rfl⟩, trivial, by omega, ho⟩

/-- the bytes between two positions of the data, read through `mem` as the C code does -/
theorem slice_eq (b : Buf) (t o2 : Nat) (h2 : o2 ≤ b.dataLen) :
    (b.mem.drop t).take (o2 - t) = (b.live.drop t).take (o2 - t) := by
  unfold Buf.live
  apply List.ext_getElem?
  intro i
  simp only [List.getElem?_take, List.getElem?_drop]
  by_cases hi : i < o2 - t
  · simp only [hi, ↓reduceIte, show t + i < b.dataLen by omega]
  · simp only [hi, ↓reduceIte]

theorem takeWhile_eq_take (p : Nat → Bool) (l : List Nat) : l.takeWhile p = l.take (l.takeWhile p).length :=
  List.prefix_iff_eq_take.1 (List.takeWhile_prefix p)

/-- **split**: the loop of ares_buf_split driven on cursor and tag computes the list specification on the unread
    bytes, for every flag combination and section limit; it only moves offset and tag; and with enough fuel
    (`len + 1` iterations) it consumes the whole buffer -/
theorem splitLoop_spec (delims : List Nat) (fl : SplitFlags) (maxSections : Nat) (hd : delims ≠ []) (fuel : Nat)
    (b : Buf) (first : Bool) (acc : List (List Nat)) (h : b.Inv) :
    ∃ b', splitLoop delims fl maxSections fuel b first acc =
        some (b', specSplitLoop delims fl maxSections fuel b.remaining first acc) ∧
      SameData b b' ∧ b'.Inv ∧ (b.len + (if first = true then 1 else 0) ≤ fuel → b'.len = 0) := by
  induction fuel generalizing b first acc with
  | zero =>
    refine ⟨b, rfl, SameData.refl b, h, ?_⟩
    intro hf
    cases first <;> simp at hf <;> omega
  | succ fuel ih =>
    have hrl := remaining_length b h
    unfold splitLoop specSplitLoop
    by_cases h0 : b.len = 0
    · simp only [h0, ↓reduceIte, hrl]
      exact ⟨b, rfl, SameData.refl b, h, fun _ => h0⟩
    · simp only [h0, ↓reduceIte, hrl]
      obtain ⟨s1, i1, t1, o1⟩ := splitAdvance_spec fl b first h h0
      obtain ⟨s2, t2, o2, le2⟩ := splitScan_spec delims (decide (maxSections ≠ 0 ∧ acc.length ≥ maxSections - 1))
        (splitAdvance fl b first) i1 hd
      rw [t1] at t2
      rw [t2]
      simp only
      have s12 := SameData.trans s1 s2
      have hle2 : (splitScan delims (decide (maxSections ≠ 0 ∧ acc.length ≥ maxSections - 1)) (splitAdvance fl b first)).off
          ≤ (splitScan delims (decide (maxSections ≠ 0 ∧ acc.length ≥ maxSections - 1)) (splitAdvance fl b first)).dataLen := by
        rw [s2.dlen]; exact le2
      have ho := h.offLe
      have hlen' : b.off + 1 ≤ b.dataLen := by unfold Buf.len at h0; omega
      have i2 : (splitScan delims (decide (maxSections ≠ 0 ∧ acc.length ≥ maxSections - 1)) (splitAdvance fl b first)).Inv := by
        refine inv_of_sameData b _ h s12 hle2 ?_
        intro t ht
        rw [t2] at ht
        cases ht
        rw [s12.dlen]
        split <;> omega
      -- the scanned part, as a list
      have hr1 : (splitAdvance fl b first).remaining = if first = true then b.remaining else b.remaining.drop 1 := by
        rw [remaining_of_sameData b _ s1, o1, Buf.remaining_eq]
        cases first with
        | true => rfl
        | false => simp only [Bool.false_eq_true, ↓reduceIte, List.drop_drop]
      rw [hr1] at o2
      -- name the pieces
      generalize hb2 : splitScan delims (decide (maxSections ≠ 0 ∧ acc.length ≥ maxSections - 1)) (splitAdvance fl b first) = b2
        at s2 t2 o2 le2 s12 hle2 i2
      generalize hscan : (if first = true then b.remaining else b.remaining.drop 1) = scan at o2
      have hbody : (if decide (maxSections ≠ 0 ∧ acc.length ≥ maxSections - 1) = true then scan
          else scan.takeWhile (fun c => !delims.contains c)) =
          (if maxSections ≠ 0 ∧ acc.length ≥ maxSections - 1 then scan else scan.takeWhile (fun c => !delims.contains c)) := by
        by_cases hm : maxSections ≠ 0 ∧ acc.length ≥ maxSections - 1 <;> simp [hm]
      rw [hbody] at o2
      generalize hbd : (if maxSections ≠ 0 ∧ acc.length ≥ maxSections - 1 then scan
          else scan.takeWhile (fun c => !delims.contains c)) = body at o2
      have hbt : body = scan.take body.length := by
        rw [← hbd]
        split
        · simp
        · exact takeWhile_eq_take _ _
      -- the section the C code reads through the tag
      have hsec : (b2.mem.drop (if first = true ∨ fl.keepDelims = true then b.off else b.off + 1)).take
            (b2.off - (if first = true ∨ fl.keepDelims = true then b.off else b.off + 1)) =
          (if first = true then [] else if fl.keepDelims = true then b.remaining.take 1 else []) ++ body := by
        rw [slice_eq b2 _ _ hle2]
        have hlive : b2.live = b.live := by unfold Buf.live; rw [s12.mem, s12.dlen]
        rw [hlive, o2, o1]
        cases first with
        | true =>
          simp only [true_or, ↓reduceIte, List.nil_append]
          simp only [↓reduceIte] at hscan
          rw [← Buf.remaining_eq, hscan, Nat.add_sub_cancel_left]
          exact hbt.symm
        | false =>
          simp only [Bool.false_eq_true, false_or, ↓reduceIte] at hscan ⊢
          cases hk : fl.keepDelims with
          | true =>
            simp only [↓reduceIte]
            rw [← Buf.remaining_eq, show b.off + 1 + body.length - b.off = 1 + body.length by omega, List.take_add, hscan]
            rw [← hbt]
          | false =>
            simp only [Bool.false_eq_true, ↓reduceIte, List.nil_append]
            rw [show b.off + 1 + body.length - (b.off + 1) = body.length by omega]
            rw [← List.drop_drop, ← Buf.remaining_eq, hscan]
            exact hbt.symm
      rw [hsec]
      -- what is left for the next iteration
      have hrest : b2.remaining = scan.drop body.length := by
        rw [remaining_of_sameData b b2 s12, o2, o1, ← hscan]
        cases first with
        | true => simp only [↓reduceIte]; rw [Buf.remaining_eq, List.drop_drop]
        | false => simp only [Bool.false_eq_true, ↓reduceIte]; rw [Buf.remaining_eq, List.drop_drop, List.drop_drop]; congr 1; omega
      obtain ⟨b', e', s', i', l'⟩ := ih b2 false
        (keepSection fl acc ((if first = true then [] else if fl.keepDelims = true then b.remaining.take 1 else []) ++ body)) i2
      rw [hrest] at e'
      refine ⟨b', ?_, SameData.trans s12 s', i', ?_⟩
      · rw [e']
      · intro hf
        apply l'
        have : b2.len + 1 ≤ b.len + (if first = true then 1 else 0) := by
          unfold Buf.len
          rw [s12.dlen, o2, o1]
          cases first with
          | true => simp only [↓reduceIte]; omega
          | false => simp only [Bool.false_eq_true, ↓reduceIte]; omega
        simp only [Bool.false_eq_true, ↓reduceIte, Nat.add_zero]
        omega

end Cares
