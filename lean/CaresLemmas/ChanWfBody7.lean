import CaresLemmas.ChanWfBody6
import CaresLemmas.ChanWfHole
/-!
# C01 — body lemmas VII: `processAnswer`
-/
namespace Cares.Chan

/-- the part of `process_answer` after cookie validation (definitionally the code of `bodyProcessAnswer`) -/
def paTail (go : Call → St → St × Ret) (fd : Nat) (r : Reply) (c : Conn) (key : Nat) (q : Query)
    (vo : Cares.Proto.Cookie.ValidateOut) (s : St) : St × Ret :=
        if vo.verdict == .drop then (s, .ok) else
        let q := (s.query? key).getD q
        let s := { s with accepted := s.accepted ++ [(fd, key, r)] }
        let s := s.modConn (q.conn.getD fd) fun c => { c with queries := c.queries.erase key }
        let s := s.modQuery key fun q => { q with inConnList := false }
        let ednsIssue := r.rcode == 1 && q.edns &&
          (!r.hasOpt || (q.reqCookie.isSome && r.hasOpt))
        if ednsIssue then
          let s := s.removeFromConn key
          let s := s.modQuery key fun q => { q with edns := false, reqCookie := none, cookie := "-" }
          ({ s with requeueArr := s.requeueArr ++ [(q.qid, some c.srv)] }, .ok)
        else if r.tc && !c.tcp && !s.cfg.igntc then
          let s := s.removeFromConn key
          let s := s.modQuery key fun q => { q with usingTcp := true }
          ({ s with requeueArr := s.requeueArr ++ [(q.qid, none)] }, .ok)
        else if !s.cfg.nocheckresp && (r.rcode == 2 || r.rcode == 4 || r.rcode == 5) then
          let st : Status := if r.rcode == 2 then .servfail else if r.rcode == 4 then .notimp else .refused
          let s := s.incFailures c.srv q.usingTcp
          let (s, _) := go (.requeue key st true (some r) true) s
          (s, .ok)
        else
          let s := s.cacheInsert q r
          let s := s.setGood c.srv q.usingTcp
          let (s, _) := go (.endQuery (some c.srv) key .ok (some r)) s
          (s, .ok)

/-- cookie validation of `process_answer` -/
def paVo (s : St) (c : Conn) (q : Query) (r : Reply) : Cares.Proto.Cookie.ValidateOut :=
  Cares.Proto.Cookie.validate ((s.server? c.srv).getD default).cookie { cookieTry := q.cookieTry, usingTcp := q.usingTcp }
    (if q.edns then q.reqCookie else none) (if r.hasOpt then r.cookie.map hexToBytes else none) r.rcode s.tv

def paS2 (s : St) (c : Conn) (key : Nat) (vo : Cares.Proto.Cookie.ValidateOut) : St :=
  (s.modServer c.srv fun v => { v with cookie := vo.ck }).modQuery key fun q =>
    { q with cookieTry := vo.q.cookieTry, usingTcp := vo.q.usingTcp }

theorem sk_paS2 (s : St) (c : Conn) (key : Nat) (vo) : (paS2 s c key vo).sk = s.sk := by
  unfold paS2
  rw [sk_modQuery_same, sk_modServer_same] <;> intro <;> rfl

theorem bodyProcessAnswer_eq (go) (fd : Nat) (r : Reply) (s : St) :
    bodyProcessAnswer go fd r s =
      match s.conn? fd with
      | none => (s.mfault s!"uaf-conn({fd}) in process_answer", .other)
      | some c =>
        if r.empty then (s, .ok) else
        if r.garbage then (s, .badresp) else
        match s.byQid.find? (·.1 == r.id) with
        | none => (s, .ok)
        | some (_, key) =>
          match s.query? key with
          | none => (s.mfault s!"dangling-qid({r.id})", .other)
          | some q =>
            if q.conn != some fd then (s, .ok) else
            if !(q.qtype == r.qtype && q.qclass == r.qclass &&
              (if s.cfg.dns0x20 && !q.usingTcp then q.name == r.name else hexLower q.name == hexLower r.name))
            then (s, .ok) else
            paTail go fd r c key q (paVo s c q r)
              (if (paVo s c q r).requeue then go (.requeue key .ok false none true) (paS2 s c key (paVo s c q r))
               else (paS2 s c key (paVo s c q r), Status.ok)).1 := by
  unfold bodyProcessAnswer paTail paVo paS2
  rfl

theorem Mid.good {d c s s'} {ret : Ret} (hm : Mid d s s') (hp : Post s (s', ret) c) : GoodO d c s (s', ret) :=
  Or.inr ⟨hm.wf, hm.debt, hm.step.weaken', hp⟩

theorem paTail_drop (go) (fd : Nat) (r : Reply) (c : Conn) (key : Nat) (q : Query)
    (vo : Cares.Proto.Cookie.ValidateOut) (s : St) (h : vo.verdict = .drop) :
    paTail go fd r c key q vo s = (s, .ok) := by
  unfold paTail
  rw [if_pos (by rw [h]; rfl)]

theorem sk_hole_st (s : St) (fd key : Nat) (r : Reply) :
    ((({ s with accepted := s.accepted ++ [(fd, key, r)] } : St).modConn fd fun c =>
        { c with queries := c.queries.erase key }).modQuery key fun q => { q with inConnList := false }).sk =
      s.sk.hole fd key := by
  rw [sk_modQuery_same, sk_modConn _ _ _ (fun c => { c with queries := c.queries.erase key }) (fun _ => rfl)]
  · rfl
  · intro; rfl

theorem servers_cacheInsert (s : St) (q : Query) (r : Reply) : (s.cacheInsert q r).servers = s.servers := by
  unfold St.cacheInsert
  simp only
  repeat' split
  all_goals rfl

theorem good_paTail {go} (hgo : GoOk go) {d fd r c key q vo s0 s}
    (hm : Mid d s0 s)
    (hnd : ¬ (vo.verdict == .drop) = true → key ∈ s.sk.idx ∧ ∀ q2, s.query? key = some q2 → q2.conn = some fd) :
    GoodO d (.processAnswer fd r) s0 (paTail go fd r c key q vo s) := by
  unfold paTail
  split
  · exact hm.good trivial
  · rename_i hv
    obtain ⟨hki, hconn⟩ := hnd hv
    have hw := hm.wf
    obtain ⟨q2, hq2, hq2s⟩ := query?_of_idx hw hki
    have hgetD : ((s.query? key).getD q).conn.getD fd = fd := by rw [hq2]; simp [hconn q2 hq2]
    simp only [hgetD]
    have hsk6 := sk_hole_st s fd key r
    generalize ((({ s with accepted := s.accepted ++ [(fd, key, r)] } : St).modConn fd fun c =>
        { c with queries := c.queries.erase key }).modQuery key fun q => { q with inConnList := false }) = s6
      at hsk6 ⊢
    have hw6 : WfS s6.sk (some key) := by rw [hsk6]; exact wf_hole hw
    have hd6 : DebtOk none d s6.sk := by rw [hsk6]; exact debt_hole hm.debt
    have hs6 : StepS none none d s0.sk s6.sk := by rw [hsk6]; exact hm.step.trans step_hole
    have hk6 : s6.sk.Idx key := by unfold Sk.Idx; rw [hsk6]; exact hki
    have hq6 : s6.sk.q? key = some q2.sk := by rw [hsk6, hole_q?]; exact hq2s
    -- the two branches that put the query on the requeue list
    have viaRfc : ∀ (s8 : St) (ret : Ret), s8.sk = s6.sk.removeFromConn key →
        GoodO d (.processAnswer fd r) s0 (s8, ret) := by
      intro s8 ret h8
      refine Or.inr ⟨by unfold Wf; rw [h8]; exact wf_rfc hw6 (Or.inr rfl) hq6, by rw [h8]; exact debt_rfc key hd6, ?_, trivial⟩
      rw [h8]; exact hs6.trans (step_rfc hw6 hq6)
    have hnd6 : (s6.servers.map (·.id)).Nodup := server_ids_nodup hw6
    split
    · refine viaRfc _ _ ?_
      show (St.modQuery _ _ _).sk = _
      rw [sk_modQuery_same, sk_removeFromConn]; intro; rfl
    · split
      · refine viaRfc _ _ ?_
        show (St.modQuery _ _ _).sk = _
        rw [sk_modQuery_same, sk_removeFromConn]; intro; rfl
      · split
        · have h7 := sk_incFailures s6 c.srv ((s.query? key).getD q).usingTcp hnd6
          refine Good.tail (hgo.2 d _ _ ?_) (by rw [h7]; exact hs6) (Or.inl rfl) (Or.inl rfl) trivial
          exact ⟨by rw [h7]; exact hw6, by unfold Sk.Idx; rw [h7]; exact hk6, by rw [h7]; exact hd6⟩
        · have h7 : ((s6.cacheInsert ((s.query? key).getD q) r).setGood c.srv ((s.query? key).getD q).usingTcp).sk = s6.sk := by
            rw [sk_setGood, sk_cacheInsert]
            rw [servers_cacheInsert]; exact hnd6
          refine Good.tail (hgo.2 d _ _ ?_) (by rw [h7]; exact hs6) (Or.inl rfl) (Or.inl rfl) trivial
          exact ⟨by rw [h7]; exact hw6, by unfold Sk.Idx; rw [h7]; exact hk6, by rw [h7]; exact hd6⟩

theorem good_processAnswer {go} (hgo : GoOk go) {d fd r s} (hpre : Pre d s (.processAnswer fd r)) :
    GoodO d (.processAnswer fd r) s (bodyProcessAnswer go fd r s) := by
  obtain ⟨hw, hl, hd⟩ := hpre
  obtain ⟨c, hc⟩ := conn?_of_live hl
  rw [bodyProcessAnswer_eq]
  simp only [hc]
  split
  · exact Good.of_sk_eq hw hd rfl trivial
  · split
    · exact Good.of_sk_eq hw hd rfl trivial
    · split
      · exact Good.of_sk_eq hw hd rfl trivial
      · rename_i x key hfind
        have hki : key ∈ s.sk.idx := List.mem_map.mpr ⟨(x, key), List.mem_of_find?_eq_some hfind, rfl⟩
        obtain ⟨q, hq, hqs⟩ := query?_of_idx hw hki
        simp only [hq]
        split
        · exact Good.of_sk_eq hw hd rfl trivial
        · rename_i hqc
          have hqc' : q.conn = some fd := by simpa using hqc
          generalize (q.qtype == r.qtype && q.qclass == r.qclass &&
            (if s.cfg.dns0x20 && !q.usingTcp then q.name == r.name else hexLower q.name == hexLower r.name)) = sameQ
          cases sameQ
          · exact Good.of_sk_eq hw hd rfl trivial
          · simp only [Bool.not_true, Bool.false_eq_true, ↓reduceIte]
            have hsk2 := sk_paS2 s c key (paVo s c q r)
            have hm2 : Mid d s (paS2 s c key (paVo s c q r)) := Mid.of_sk_eq hw hd hsk2
            by_cases hr : (paVo s c q r).requeue = true
            · have hdrop : (paVo s c q r).verdict = .drop := by
                unfold paVo at hr ⊢; exact validate_requeue_drop _ _ _ _ _ _ hr
              rw [if_pos hr]
              rcases hm2.call hgo (.requeue key .ok false none true)
                ⟨WfS.weaken_hole hm2.wf, by unfold Sk.Idx; rw [hsk2]; exact hki, hm2.debt⟩ rfl rfl with hoof | hm3
              · rw [paTail_drop _ _ _ _ _ _ _ _ hdrop]; exact Or.inl hoof
              · exact good_paTail hgo hm3 (fun hv => absurd (by rw [hdrop]; rfl) hv)
            · rw [if_neg hr]
              refine good_paTail hgo hm2 (fun _ => ⟨by rw [hsk2]; exact hki, fun q2 hq2 => ?_⟩)
              have h1 := (query?_sk hq2).2.2
              rw [hsk2] at h1
              rw [← hqc']
              exact Sk.qKC_unique hw.q.nodup h1 (query?_sk hq).2.2

end Cares.Chan
