import CaresLemmas.ClientExecProv
import CaresLemmas.ClientExecReplay2
/-!
# Provenance of the replies handed to `clientOnCb`, continued: the remaining procedures and whole runs
-/
namespace Cares.Chan

theorem CbsFrom.snoc_cb {acc : List (Nat × Nat × Reply)} {L : CLog} (h : CbsFrom acc L) (id : Nat) (st : Status) (t : Nat)
    (rec : Option Reply) (qa qb : Nat) (hr : ∀ r, rec = some r → FromAcc acc r) :
    CbsFrom acc (L ++ [CItem.cb id st t rec qa qb]) := by
  intro id' st' t' r qa' qb' hm
  rcases List.mem_append.mp hm with hm | hm
  · exact h id' st' t' r qa' qb' hm
  · simp only [List.mem_singleton] at hm
    cases hm
    exact hr r rfl

theorem CbsFrom.snoc_other {acc : List (Nat × Nat × Reply)} {L : CLog} (h : CbsFrom acc L) (i : CItem)
    (hi : ∀ id st t r qa qb, i ≠ CItem.cb id st t (some r) qa qb) : CbsFrom acc (L ++ [i]) := by
  intro id' st' t' r qa' qb' hm
  rcases List.mem_append.mp hm with hm | hm
  · exact h id' st' t' r qa' qb' hm
  · simp only [List.mem_singleton] at hm
    exact absurd hm.symm (hi _ _ _ _ _ _)

theorem PVv.snoc_other {base L acc cache} (h : PVv base L acc cache) (i : CItem)
    (hi : ∀ id st t r qa qb, i ≠ CItem.cb id st t (some r) qa qb) : PVv base (L ++ [i]) acc cache :=
  ⟨h.1, h.2.1, h.2.2.snoc_other i hi⟩

section
variable {goC : GoC} (hgo : GoPV goC)
include hgo

theorem bodySendNolockC_PV (a : Option Nat) (b c : Bool) (sp : ReqSpec) (o : Owner) (re : List Nat) (s : St) (L : CLog)
    (base) (h : PV base L s) :
    PV base (L ++ (bodySendNolockC goC a b c sp o re s).2) (bodySendNolockC goC a b c sp o re s).1.1 := by
  have hrec : ∀ r : Reply, (none : Option Reply) = some r → FromAcc base r := fun _ h => nomatch h
  have h0 : PV base L (genQid 70000 s).2 := by simpa only [PV, chan_frame] using h
  unfold bodySendNolockC
  generalize genQid 70000 s = g at h0
  obtain ⟨qid, s1⟩ := g
  simp only []
  split
  · pv_peel hgo hrec
  · split
    · -- cache hit: the entry's record is an accepted response
      rename_i e he
      cases b with
      | true => simp at he
      | false =>
        simp only [Bool.false_eq_true, ↓reduceIte] at he ⊢
        simp only [PV, chan_frame]
        have h1 : PVv s1.accepted L s1.accepted s1.cacheExpire.cache := (PVv.expire h0).rebase fun _ hx => hx
        have h2 := hgo (.callback o re .ok 0 (some { e.reply with ttls := e.reply.ttls.map (· - (s1.cacheExpire.nowSec - e.insert)) }))
          s1.cacheExpire L s1.accepted h1 (by
            intro r hr
            simp only [Call.rec?, Option.some.injEq] at hr
            obtain ⟨e0, hm, hr0, _⟩ := cacheFetch_mem he
            obtain ⟨fd, key, hk⟩ := h0.2.1 e0 hm
            exact .inr ⟨fd, key, e.reply, _, hr0 ▸ hk, hr.symm⟩)
        exact h2.rebase fun x hx => h2.1 x (h0.1 x hx)
    · pv_peel hgo hrec

theorem bodyCallbackC_PV (o : Owner) (re : List Nat) (st : Status) (t : Nat) (rec : Option Reply) (s : St)
    (L : CLog) (base) (h : PV base L s) (hrec : ∀ r, rec = some r → FromAcc base r) :
    PV base (L ++ (bodyCallbackC goC o re st t rec s).2) (bodyCallbackC goC o re st t rec s).1.1 := by
  have hnone : ∀ r : Reply, (none : Option Reply) = some r → FromAcc base r := fun _ h => nomatch h
  unfold bodyCallbackC
  split
  · simpa only [PV, chan_frame, List.append_nil] using h
  · rename_i id
    split
    · simpa only [PV, chan_frame, List.append_nil] using h
    · rename_i c hc
      rw [List.append_cons]
      refine hgo _ _ _ _ ?_ (fun r hr => by simp only [Call.rec?, reduceCtorEq] at hr)
      simp only [PV, chan_frame]
      exact ⟨h.1, h.2.1, h.2.2.snoc_cb _ _ _ _ _ _ fun r hr => (hrec r hr).mono h.1⟩
  · exact hgo _ _ _ _ h (fun r hr => by simp only [Call.rec?, reduceCtorEq] at hr)

theorem bodyClientStartC_PV (k : String) (tok : Nat) (re : List Nat) (sp : ReqSpec) (f : Nat) (s : St)
    (L : CLog) (base) (h : PV base L s) :
    PV base (L ++ (bodyClientStartC goC k tok re sp f s).2) (bodyClientStartC goC k tok re sp f s).1.1 := by
  unfold bodyClientStartC
  rw [List.append_cons]
  refine hgo _ _ _ _ ?_ (fun r hr => by simp only [Call.rec?, reduceCtorEq] at hr)
  exact PVv.snoc_other h _ (fun _ _ _ _ _ _ e => by cases e)

theorem bodyRunActsC_PV (id : Nat) (acts : List ClientAct) (s : St) (L : CLog) (base) (h : PV base L s) :
    PV base (L ++ (bodyRunActsC goC id acts s).2) (bodyRunActsC goC id acts s).1.1 := by
  have hnone : ∀ (c : Call), c.rec? = none → ∀ r : Reply, c.rec? = some r → FromAcc base r :=
    fun c hc r hr => by rw [hc] at hr; cases hr
  have no : ∀ {L' acc cache} (i : CItem), PVv base L' acc cache → (∀ id st t r qa qb, i ≠ CItem.cb id st t (some r) qa qb) →
      PVv base (L' ++ [i]) acc cache := fun i h' hi => PVv.snoc_other h' i hi
  unfold bodyRunActsC
  split
  · exact no _ h (fun _ _ _ _ _ _ e => by cases e)
  · rename_i spec rest
    simp only [List.cons_append]
    rw [List.append_cons]
    simp only [← List.append_assoc]
    refine hgo _ _ _ _ (hgo _ _ _ _ (no _ h (fun _ _ _ _ _ _ e => by cases e)) (hnone _ rfl)) (hnone _ rfl)
  · rename_i spec slot rest
    simp only [List.cons_append]
    rw [List.append_cons]
    simp only [← List.append_assoc]
    refine hgo _ _ _ _ ?_ (hnone _ rfl)
    have h2 := hgo (.sendNolock none false false spec (.client id) []) s _ _
      (no (CItem.act id (.sendSlot spec slot)) h (fun _ _ _ _ _ _ e => by cases e)) (hnone _ rfl)
    split
    · simp only [PV, chan_frame]
      exact no _ h2 (fun _ _ _ _ _ _ e => by cases e)
    · simpa only [List.append_nil] using h2
  · rename_i qid rest
    rw [List.append_cons]
    refine hgo _ _ _ _ ?_ (hnone _ rfl)
    have := no (CItem.act id (.noRetry qid)) h (fun _ _ _ _ _ _ e => by cases e)
    split <;> simpa only [PV, chan_frame] using this
  · rename_i st timeouts dg rest
    split
    · simp only [PV, chan_frame]
      rw [show L ++ [CItem.lost id, CItem.ret id] = (L ++ [CItem.lost id]) ++ [CItem.ret id] by simp]
      exact no _ (no _ h (fun _ _ _ _ _ _ e => by cases e)) (fun _ _ _ _ _ _ e => by cases e)
    · rename_i c hc
      have h2 := hgo (.userCb c.tok c.react st timeouts dg) s _ _
        (no (CItem.act id (.finish st timeouts dg)) h (fun _ _ _ _ _ _ e => by cases e)) (hnone _ rfl)
      rw [show L ++ (CItem.act id (.finish st timeouts dg) :: (goC (.userCb c.tok c.react st timeouts dg) s).2 ++
            [CItem.rel id, CItem.ret id]) =
          ((L ++ [CItem.act id (.finish st timeouts dg)] ++ (goC (.userCb c.tok c.react st timeouts dg) s).2) ++
            [CItem.rel id]) ++ [CItem.ret id] by simp]
      exact no _ (no _ h2 (fun _ _ _ _ _ _ e => by cases e)) (fun _ _ _ _ _ _ e => by cases e)

theorem bodyProcessAnswerC_PV (fd : Nat) (r : Reply) (s : St) (L : CLog) (base) (h : PV base L s) :
    PV base (L ++ (bodyProcessAnswerC goC fd r s).2) (bodyProcessAnswerC goC fd r s).1.1 := by
  have hrec : ∀ r : Reply, (none : Option Reply) = some r → FromAcc base r := fun _ h => nomatch h
  have hp : ∀ c key q, PV base L (paPre s c key q r) := fun c key q => by
    simpa only [PV, paPre, chan_frame] using h
  unfold bodyProcessAnswerC
  repeat' (first
    | with_reducible assumption
    | (intro r hr; simp only [Call.rec?, reduceCtorEq] at hr; done)
    | with_reducible (apply hgo)
    | with_reducible (apply paDeliverC_PV hgo)
    | with_reducible (apply hp)
    | (simp only [chan_frame, PV, List.append_nil, ← List.append_assoc])
    | (csplit <;> pair_subst))

theorem bodyDestroyC_PV (s : St) (L : CLog) (base) (h : PV base L s) :
    PV base (L ++ (bodyDestroyC goC s).2) (bodyDestroyC goC s).1.1 := by
  unfold bodyDestroyC
  simp only [← List.append_assoc]
  exact closeAllC_PV hgo _ _ _ _ (hgo (.cancelLoop .destruction true) { s with destroying := true } L base h
    (fun _ h => nomatch h))

theorem execCBody_PV : GoPV (execCBody goC) := by
  intro c s L base h hrec
  cases c <;> simp only [execCBody]
  case sendNolock a b c d e f => exact bodySendNolockC_PV hgo a b c d e f s L base h
  case sendQuery a b => exact bodySendQueryC_PV hgo a b s L base h
  case processAnswer a b => exact bodyProcessAnswerC_PV hgo a b s L base h
  case callback a b c d e => exact bodyCallbackC_PV hgo a b c d e s L base h hrec
  case clientStart a b c d e => exact bodyClientStartC_PV hgo a b c d e s L base h
  case runActs a b => exact bodyRunActsC_PV hgo a b s L base h
  case destroy => exact bodyDestroyC_PV hgo s L base h
  case reactions l =>
    unfold bodyReactionsC
    repeat' (first
      | with_reducible assumption
      | (intro r hr; simp only [Call.rec?, reduceCtorEq] at hr; done)
      | with_reducible (apply hgo)
      | with_reducible (apply reactOneC_PV hgo)
      | (simp only [chan_frame, PV, List.append_nil, ← List.append_assoc])
      | (csplit <;> pair_subst))
  all_goals (unfold_bodyC; pv_peel hgo hrec)

end

theorem execC_PV : ∀ fuel, GoPV (execC fuel)
  | 0 => fun _ _ _ _ h _ => by simpa only [execC, List.append_nil, PV, chan_frame] using h
  | fuel + 1 => execCBody_PV (execC_PV fuel)

/-- **Provenance of the replies handed to `clientOnCb`, one procedure.**  If every cache entry's record is an accepted
    response and the call carries no response of its own (every top-level call), then afterwards every reply a
    completion callback of a compound request was invoked with is an accepted response or the aged copy of a cached
    accepted response; `accepted` only grows and the cache invariant is kept. -/
theorem exec_cb_provenance (fuel : Nat) (call : Call) (s : St) (hc : CacheProv s) (hr : call.rec? = none) :
    (∀ e ∈ s.accepted, e ∈ (exec fuel call s).1.accepted) ∧ CacheProv (exec fuel call s).1 ∧
    CbsFrom (exec fuel call s).1.accepted (execC fuel call s).2 := by
  have h := execC_PV fuel call s [] s.accepted ⟨fun _ h => h, hc, fun _ _ _ _ _ _ h => nomatch h⟩
    (fun r hr' => by rw [hr] at hr'; cases hr')
  rw [execC_fst, List.nil_append] at h
  exact h

end Cares.Chan
