import CaresLemmas.ChanWfExec
import CaresLemmas.ClientExecMain
/-!
# Causality of the client events of a channel run — definitions and the generic part

`Causal cid L` (ClientExecMain): at every completion delivered to the compound request `cid` in the log `L`, strictly
more sub-requests have been started for `cid` than completions delivered.  It is a property of the channel: a
sub-request completes at most once, after its start.  In terms of the C01 invariant it reads

    #starts(cid, L) = #completions(cid, L) + subs(cid) + k                                   (`LG`)

where `subs cid` is the number of *linked* queries owned by `cid` (`Sk.subs`: the sub-requests that can still
complete) and `k` counts the hand-overs in flight (`xtra`: `1` at the entry of `sendNolock … (.client cid)` — the
`.act` item has been logged, the query does not exist yet — and of `callback (.client cid)` — the query has been
unlinked, the `.cb` item is about to be logged — `0` everywhere else).  At a `callback (.client cid)` node the equation
gives `#completions < #starts`, which is causality.

The equation is maintained along `execC` by the same body-by-body induction as C01's `goOk_exec`; the precondition
`Pre` of every sub-call is re-derived as in the `good_*` lemmas (which do not export it), the invariant of the
intermediate states comes from `goOk_exec` itself.
-/
namespace Cares.Chan
open Cares.ClientWalk

/-- completions delivered to `cid` in `L` -/
def ncOf (cid : Nat) (L : CLog) : Nat := (evsOf cid L).length
/-- sub-requests started for `cid` in `L` -/
def nsOf (cid : Nat) (L : CLog) : Nat := (sentOf cid L).length

theorem ncOf_append (cid : Nat) (L L' : CLog) : ncOf cid (L ++ L') = ncOf cid L + ncOf cid L' := by
  simp only [ncOf, evsOf, List.flatMap_append, List.length_append]
theorem nsOf_append (cid : Nat) (L L' : CLog) : nsOf cid (L ++ L') = nsOf cid L + nsOf cid L' := by
  simp only [nsOf, sentOf, List.flatMap_append, List.length_append]

theorem causalFrom_append (cid : Nat) (a b : Nat) (L L' : CLog) :
    causalFrom cid a b (L ++ L') = (causalFrom cid a b L && causalFrom cid (a + ncOf cid L) (b + nsOf cid L) L') := by
  induction L generalizing a b with
  | nil => simp [causalFrom, ncOf, nsOf, evsOf, sentOf]
  | cons i l ih =>
    simp only [List.cons_append, causalFrom, ih, Bool.and_assoc]
    congr 2
    simp only [ncOf, nsOf, evsOf, sentOf, List.flatMap_cons, List.length_append, Nat.add_assoc]

/-- the log invariant: causal so far, and the counters agree with the linked sub-requests of `cid` plus `k` -/
structure LG (cid : Nat) (L : CLog) (k : Nat) (s : St) : Prop where
  causal : Causal cid L
  cnt : nsOf cid L = ncOf cid L + s.sk.subs cid + k

def ownerX (cid : Nat) : Owner → Nat
  | .client id => if id = cid then 1 else 0
  | _ => 0

/-- hand-overs in flight for `cid` at the entry of a procedure -/
def xtra (cid : Nat) : Call → Nat
  | .sendNolock _ _ _ _ o _ => ownerX cid o
  | .callback o _ _ _ _ => ownerX cid o
  | _ => 0

/-- result of an instrumented procedure: out of fuel, or the invariant holds for the extended log -/
def LGO (cid : Nat) (L : CLog) (r : (St × Ret) × CLog) : Prop :=
  r.1.1.outOfFuel = true ∨ LG cid (L ++ r.2) 0 r.1.1

/-- the hypothesis on the recursive calls: C01's guarantee plus the log invariant -/
def GoCz (cid : Nat) (goC : GoC) : Prop :=
  OofMono goC.fst ∧ ∀ d c s, Pre d s c →
    (goC c s).1.1.outOfFuel = true ∨
      (Good d c s (goC c s).1 ∧ ∀ L, LG cid L (xtra cid c) s → LG cid (L ++ (goC c s).2) 0 (goC c s).1.1)

section
variable {cid : Nat}

theorem GoCz.goOk {goC : GoC} (h : GoCz cid goC) : GoOk goC.fst :=
  ⟨h.1, fun d c s hp => (h.2 d c s hp).imp id (·.1)⟩

/-- run a sub-procedure: out of fuel, or its guarantee and the invariant for the extended log -/
theorem GoCz.call {goC : GoC} (h : GoCz cid goC) {d c s L} (hp : Pre d s c) (hL : LG cid L (xtra cid c) s) :
    (goC c s).1.1.outOfFuel = true ∨ (Good d c s (goC c s).1 ∧ LG cid (L ++ (goC c s).2) 0 (goC c s).1.1) :=
  (h.2 d c s hp).imp id (fun x => ⟨x.1, x.2 L hL⟩)

/-- a tail call -/
theorem GoCz.tail {goC : GoC} (h : GoCz cid goC) {d c s L} (hp : Pre d s c) (hL : LG cid L (xtra cid c) s) :
    LGO cid L (goC c s) :=
  (h.call hp hL).imp id (·.2)

theorem GoCz.oof {goC : GoC} (h : GoCz cid goC) {c s} (ho : s.outOfFuel = true) : (goC c s).1.1.outOfFuel = true :=
  h.1 c s ho

/-! ### transport of the invariant -/

theorem LG.congr {L k} {s s' : St} (h : LG cid L k s) (hq : s'.sk.qKO = s.sk.qKO) (hi : s'.sk.idx = s.sk.idx) :
    LG cid L k s' :=
  ⟨h.causal, by unfold Sk.subs; rw [hq, hi]; exact h.cnt⟩

theorem LG.sk_eq {L k} {s s' : St} (h : LG cid L k s) (he : s'.sk = s.sk) : LG cid L k s' :=
  h.congr (by rw [he]) (by rw [he])

theorem LG.subs_eq {L k} {s s' : St} (h : LG cid L k s) (he : s'.sk.subs cid = s.sk.subs cid) : LG cid L k s' :=
  ⟨h.causal, by rw [he]; exact h.cnt⟩

theorem LG.of_cnt {L k k'} {s s' : St} (h : LG cid L k s) (he : s'.sk.subs cid + k' = s.sk.subs cid + k) :
    LG cid L k' s' :=
  ⟨h.causal, by have := h.cnt; omega⟩

/-- items that are neither a completion nor a start for `cid` -/
def CItem.quiet (cid : Nat) (i : CItem) : Prop := ev1 cid i = [] ∧ sent1 cid i = []

theorem causal_snoc_quiet {L : CLog} {i : CItem} (hq : CItem.quiet cid i) :
    (Causal cid (L ++ [i]) ↔ Causal cid L) ∧ ncOf cid (L ++ [i]) = ncOf cid L ∧ nsOf cid (L ++ [i]) = nsOf cid L := by
  refine ⟨?_, ?_, ?_⟩
  · unfold Causal
    rw [causalFrom_append]
    simp [causalFrom, hq.1]
  · rw [ncOf_append]; simp [ncOf, evsOf, hq.1]
  · rw [nsOf_append]; simp [nsOf, sentOf, hq.2]

theorem LG.snoc_quiet {L k} {s : St} {i : CItem} (h : LG cid L k s) (hq : CItem.quiet cid i) : LG cid (L ++ [i]) k s := by
  obtain ⟨h1, h2, h3⟩ := causal_snoc_quiet (L := L) hq
  exact ⟨h1.mpr h.causal, by rw [h2, h3]; exact h.cnt⟩

theorem quiet_start (id k tok re sp f) : CItem.quiet cid (.start id k tok re sp f) := ⟨rfl, rfl⟩
theorem quiet_slot (id a b) : CItem.quiet cid (.slot id a b) := ⟨rfl, rfl⟩
theorem quiet_lost (id) : CItem.quiet cid (.lost id) := ⟨rfl, rfl⟩
theorem quiet_rel (id) : CItem.quiet cid (.rel id) := ⟨rfl, rfl⟩
theorem quiet_ret (id) : CItem.quiet cid (.ret id) := ⟨rfl, rfl⟩
theorem quiet_noRetry (id q) : CItem.quiet cid (.act id (.noRetry q)) := by
  refine ⟨rfl, ?_⟩; simp only [sent1, sentOfAct]; split <;> rfl
theorem quiet_finish (id st t dg) : CItem.quiet cid (.act id (.finish st t dg)) := by
  refine ⟨rfl, ?_⟩; simp only [sent1, sentOfAct]; split <;> rfl
theorem quiet_other_cb {id : Nat} (h : id ≠ cid) (st t rec qa qb) : CItem.quiet cid (.cb id st t rec qa qb) := by
  refine ⟨?_, rfl⟩; simp only [ev1, if_neg h]
theorem quiet_other_act {id : Nat} (h : id ≠ cid) (a) : CItem.quiet cid (.act id a) := by
  refine ⟨rfl, ?_⟩; simp only [sent1, if_neg h]

/-- a completion is delivered to `cid` while a hand-over is in flight -/
theorem LG.snoc_cb {L k} {s : St} (h : LG cid L (k + 1) s) (st t rec qa qb) :
    LG cid (L ++ [.cb cid st t rec qa qb]) k s := by
  refine ⟨?_, ?_⟩
  · unfold Causal
    rw [causalFrom_append]
    have hc : causalFrom cid 0 0 L = true := h.causal
    have := h.cnt
    simp only [hc, Bool.true_and, causalFrom, ev1, ↓reduceIte, List.isEmpty_cons, Bool.false_or, Bool.and_true,
      Nat.zero_add, decide_eq_true_eq]
    omega
  · rw [ncOf_append, nsOf_append]
    have := h.cnt
    simp only [ncOf, nsOf, evsOf, sentOf, List.flatMap_cons, List.flatMap_nil, ev1, sent1, ↓reduceIte,
      List.length_append, List.length_cons, List.length_nil] at this ⊢
    omega

/-- a sub-request is started for `cid` -/
theorem LG.snoc_send {L k} {s : St} (h : LG cid L k s) {a : ClientAct} (ha : (sentOfAct a).length = 1) :
    LG cid (L ++ [.act cid a]) (k + 1) s := by
  refine ⟨?_, ?_⟩
  · unfold Causal
    rw [causalFrom_append]
    have hc : causalFrom cid 0 0 L = true := h.causal
    simp [hc, causalFrom, ev1]
  · rw [ncOf_append, nsOf_append]
    have := h.cnt
    simp only [ncOf, nsOf, evsOf, sentOf, List.flatMap_cons, List.flatMap_nil, ev1, sent1, ↓reduceIte,
      List.length_append, List.length_nil, ha] at this ⊢
    omega

theorem LGO.of_oof {L} {r : (St × Ret) × CLog} (h : r.1.1.outOfFuel = true) : LGO cid L r := Or.inl h

/-- a procedure that makes no call and keeps the linked sub-requests -/
theorem LGO.ret {L} {s s' : St} {ret : Ret} (h : LG cid L 0 s) (he : s'.sk = s.sk) : LGO cid L ((s', ret), []) :=
  Or.inr (by rw [List.append_nil]; exact h.sk_eq he)

theorem LGO.done {L} {s' : St} {ret : Ret} (h : LG cid L 0 s') : LGO cid L ((s', ret), []) :=
  Or.inr (by rw [List.append_nil]; exact h)

/-- the completion callback of a sub-request of any compound request is logged -/
theorem LG.snoc_cb_any {L} {s : St} {id : Nat} (h : LG cid L (ownerX cid (.client id)) s) (st t rec qa qb) :
    LG cid (L ++ [.cb id st t rec qa qb]) 0 s := by
  by_cases hid : id = cid
  · subst hid
    simp only [ownerX, ↓reduceIte] at h
    exact h.snoc_cb st t rec qa qb
  · simp only [ownerX, if_neg hid] at h
    exact h.snoc_quiet (quiet_other_cb hid st t rec qa qb)

/-- a `.send` / `.sendSlot` action of any compound request is logged -/
theorem LG.snoc_send_any {L} {s : St} {id : Nat} (h : LG cid L 0 s) {a : ClientAct} (ha : (sentOfAct a).length = 1) :
    LG cid (L ++ [.act id a]) (ownerX cid (.client id)) s := by
  by_cases hid : id = cid
  · subst hid
    simp only [ownerX, ↓reduceIte]
    exact h.snoc_send ha
  · simp only [ownerX, if_neg hid]
    exact h.snoc_quiet (quiet_other_act hid a)

end

end Cares.Chan
