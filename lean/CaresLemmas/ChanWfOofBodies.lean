import CaresLemmas.ChanWfBody9
/-!
# C01 — the out-of-fuel flag is sticky: every body, run from an out-of-fuel state, ends out of fuel
-/
namespace Cares.Chan

/-- split every branch of the unfolded body, strip the recursive calls, and let `simp` see that no helper
    touches the flag -/
macro "oof_all" hm:ident h:ident : tactic =>
  `(tactic| (repeat' split) <;> ((repeat' apply $hm) <;> (first | exact $h | (simp [$h:ident, $hm:ident]; done))))

variable {go : Call → St → St × Ret}

theorem oof_bodyUserCb (hm : ∀ c s, s.outOfFuel = true → (go c s).1.outOfFuel = true) {tok react st t dg s}
    (h : s.outOfFuel = true) : (bodyUserCb go tok react st t dg s).1.outOfFuel = true := by
  unfold bodyUserCb; simp only; oof_all hm h

theorem oof_bodyCallback (hm : ∀ c s, s.outOfFuel = true → (go c s).1.outOfFuel = true) {o react st t rec s}
    (h : s.outOfFuel = true) : (bodyCallback go o react st t rec s).1.outOfFuel = true := by
  unfold bodyCallback; oof_all hm h

theorem oof_bodyEndQuery (hm : ∀ c s, s.outOfFuel = true → (go c s).1.outOfFuel = true) {srv key st rec s}
    (h : s.outOfFuel = true) : (bodyEndQuery go srv key st rec s).1.outOfFuel = true := by
  unfold bodyEndQuery; oof_all hm h

theorem oof_bodyCancelLoop (hm : ∀ c s, s.outOfFuel = true → (go c s).1.outOfFuel = true) {st fromAll s}
    (h : s.outOfFuel = true) : (bodyCancelLoop go st fromAll s).1.outOfFuel = true := by
  unfold bodyCancelLoop; oof_all hm h

theorem oof_bodyProbe (hm : ∀ c s, s.outOfFuel = true → (go c s).1.outOfFuel = true) {a b s}
    (h : s.outOfFuel = true) : (bodyProbe go a b s).1.outOfFuel = true := by
  unfold bodyProbe; simp only; oof_all hm h

theorem oof_bodyFlush (hm : ∀ c s, s.outOfFuel = true → (go c s).1.outOfFuel = true) {fd s}
    (h : s.outOfFuel = true) : (bodyFlush go fd s).1.outOfFuel = true := by
  unfold bodyFlush; simp only; oof_all hm h

theorem oof_bodyConnError (hm : ∀ c s, s.outOfFuel = true → (go c s).1.outOfFuel = true) {fd cr st s}
    (h : s.outOfFuel = true) : (bodyConnError go fd cr st s).1.outOfFuel = true := by
  unfold bodyConnError; oof_all hm h

theorem oof_bodyCloseConn (hm : ∀ c s, s.outOfFuel = true → (go c s).1.outOfFuel = true) {fd st s}
    (h : s.outOfFuel = true) : (bodyCloseConn go fd st s).1.outOfFuel = true := by
  unfold bodyCloseConn; oof_all hm h

theorem oof_bodyCloseLoop (hm : ∀ c s, s.outOfFuel = true → (go c s).1.outOfFuel = true) {fd st s}
    (h : s.outOfFuel = true) : (bodyCloseLoop go fd st s).1.outOfFuel = true := by
  unfold bodyCloseLoop; simp only; oof_all hm h

theorem oof_bodyProcessWrite (hm : ∀ c s, s.outOfFuel = true → (go c s).1.outOfFuel = true) {fd s}
    (h : s.outOfFuel = true) : (bodyProcessWrite go fd s).1.outOfFuel = true := by
  unfold bodyProcessWrite; simp only; oof_all hm h

theorem oof_bodyCleanupConns (hm : ∀ c s, s.outOfFuel = true → (go c s).1.outOfFuel = true) {todo s}
    (h : s.outOfFuel = true) : (bodyCleanupConns go todo s).1.outOfFuel = true := by
  unfold bodyCleanupConns; simp only; oof_all hm h

theorem oof_bodyProcessTimeouts (hm : ∀ c s, s.outOfFuel = true → (go c s).1.outOfFuel = true) {s}
    (h : s.outOfFuel = true) : (bodyProcessTimeouts go s).1.outOfFuel = true := by
  unfold bodyProcessTimeouts; oof_all hm h

theorem oof_bodyFlushRequeue (hm : ∀ c s, s.outOfFuel = true → (go c s).1.outOfFuel = true) {s}
    (h : s.outOfFuel = true) : (bodyFlushRequeue go s).1.outOfFuel = true := by
  unfold bodyFlushRequeue
  split
  · exact h
  · simp only
    cases hf : s.byQid.find? (fun (p : Nat × Nat) => p.1 == _) with
    | none => simp only [hf]; exact hm _ _ h
    | some p => simp only [hf]; exact hm _ _ (hm _ _ h)

theorem oof_bodyClientStart (hm : ∀ c s, s.outOfFuel = true → (go c s).1.outOfFuel = true) {k tok r sp f s}
    (h : s.outOfFuel = true) : (bodyClientStart go k tok r sp f s).1.outOfFuel = true := by
  unfold bodyClientStart; simp only; oof_all hm h

theorem oof_bodyCancel (hm : ∀ c s, s.outOfFuel = true → (go c s).1.outOfFuel = true) {s}
    (h : s.outOfFuel = true) : (bodyCancel go s).1.outOfFuel = true := by
  unfold bodyCancel; simp only; oof_all hm h

theorem oof_bodyReadAnswers (hm : ∀ c s, s.outOfFuel = true → (go c s).1.outOfFuel = true) {fd s}
    (h : s.outOfFuel = true) : (bodyReadAnswers go fd s).1.outOfFuel = true := by
  unfold bodyReadAnswers; simp only; oof_all hm h

theorem oof_bodyRequeue (hm : ∀ c s, s.outOfFuel = true → (go c s).1.outOfFuel = true) {key st inc rec deferred s}
    (h : s.outOfFuel = true) : (bodyRequeue go key st inc rec deferred s).1.outOfFuel = true := by
  cases hq : s.query? key with
  | none => unfold bodyRequeue; simp only [hq]; simpa using h
  | some q0 =>
    rw [bodyRequeue_eq go key st inc rec deferred s q0 hq]
    have h2 : (requeueSt s key st inc).outOfFuel = true := by unfold requeueSt; simpa using h
    simp only
    split
    · split
      · exact h2
      · exact hm _ _ h2
    · exact hm _ _ (by simpa using h2)

theorem oof_bodySendNolock (hm : ∀ c s, s.outOfFuel = true → (go c s).1.outOfFuel = true) {a b c sp o r s}
    (h : s.outOfFuel = true) : (bodySendNolock go a b c sp o r s).1.outOfFuel = true := by
  unfold bodySendNolock
  have h0 := oof_genQid 70000 s
  generalize genQid 70000 s = r0 at h0 ⊢
  obtain ⟨qid, s0⟩ := r0
  simp only at h0 ⊢
  rw [h] at h0
  have h1 : (if b = true then s0 else s0.cacheExpire).outOfFuel = true := by split <;> simpa using h0
  generalize (if b = true then s0 else s0.cacheExpire) = s1 at h1 ⊢
  split
  · exact hm _ _ h0
  · split
    · exact hm _ _ h1
    · split
      · exact hm _ _ h1
      · apply hm
        simp only
        split
        · split
          · simpa using h1
          · split
            · simpa using h1
            · exact h1
        · exact h1

theorem oof_bodyReactions (hm : ∀ c s, s.outOfFuel = true → (go c s).1.outOfFuel = true) {l s}
    (h : s.outOfFuel = true) : (bodyReactions go l s).1.outOfFuel = true := by
  unfold bodyReactions
  split
  · exact h
  · split
    · exact h
    · apply hm
      split
      · exact h
      · split
        · exact hm _ _ (by simpa using h)
        · split
          · simp only [oof_emit]
            exact hm _ _ (by simpa using h)
          · exact h

theorem oof_bodyRunActs (hm : ∀ c s, s.outOfFuel = true → (go c s).1.outOfFuel = true) {id acts s}
    (h : s.outOfFuel = true) : (bodyRunActs go id acts s).1.outOfFuel = true := by
  unfold bodyRunActs
  split
  · exact h
  · exact hm _ _ (hm _ _ h)
  · simp only
    apply hm
    split
    · simp only [oof_modClient]; exact hm _ _ h
    · exact hm _ _ h
  · apply hm
    split
    · simpa using h
    · exact h
  · split
    · simpa using h
    · exact hm _ _ h

theorem oof_bodyProcessRead (hm : ∀ c s, s.outOfFuel = true → (go c s).1.outOfFuel = true) {fd s}
    (h : s.outOfFuel = true) : (bodyProcessRead go fd s).1.outOfFuel = true := by
  unfold bodyProcessRead
  simp only
  oof_all hm h

theorem oof_paTail (hm : ∀ c s, s.outOfFuel = true → (go c s).1.outOfFuel = true) {fd r c key q vo s}
    (h : s.outOfFuel = true) : (paTail go fd r c key q vo s).1.outOfFuel = true := by
  unfold paTail
  simp only
  oof_all hm h

theorem oof_bodyProcessAnswer (hm : ∀ c s, s.outOfFuel = true → (go c s).1.outOfFuel = true) {fd r s}
    (h : s.outOfFuel = true) : (bodyProcessAnswer go fd r s).1.outOfFuel = true := by
  rw [bodyProcessAnswer_eq]
  repeat' split
  all_goals first
    | exact h
    | (simpa using h)
    | (apply oof_paTail hm
       first
         | (apply hm; unfold paS2; simpa using h)
         | (unfold paS2; simpa using h))

/-! ### `sendQuery` -/

theorem oof_sqPick (s : St) (reqSrv : Option Nat) : (sqPick s reqSrv).2.outOfFuel = s.outOfFuel := by
  unfold sqPick
  split
  · rfl
  · split
    · simp only
      split
      · rfl
      · exact oof_draw1 s
    · rfl

theorem oof_sqOpen (s : St) (q : Query) (srv : Server) : (sqOpen s q srv).2.outOfFuel = s.outOfFuel := by
  unfold sqOpen sqOpenT sqOpenA sqOpenC sqClose sqOpenD
  simp only
  repeat' split
  all_goals simp

theorem oof_sqConn (s : St) (q : Query) (srv : Server) : (sqConn s q srv).2.outOfFuel = s.outOfFuel := by
  unfold sqConn
  split
  · rfl
  · exact oof_sqOpen s q srv

theorem oof_sqPrep (s : St) (q : Query) (srv : Server) (key fd : Nat) :
    (sqPrep s q srv key fd).1.outOfFuel = s.outOfFuel := by
  unfold sqPrep
  simp only [oof_modConn, oof_modQuery, oof_modServer]
  have : ∀ (p : Prop) [Decidable p], (if p then s.pop8 else s).outOfFuel = s.outOfFuel := by
    intro p _; split
    · exact oof_pop8 s
    · rfl
  exact this _

theorem oof_sqWrite (hm : ∀ c s, s.outOfFuel = true → (go c s).1.outOfFuel = true) {s : St} {fd : Nat}
    (h : s.outOfFuel = true) : (sqWrite go s fd).2.outOfFuel = true := by
  unfold sqWrite
  simp only
  split
  · exact h
  · split
    · simpa using h
    · exact hm _ _ h

theorem oof_bodySendQuery (hm : ∀ c s, s.outOfFuel = true → (go c s).1.outOfFuel = true) {reqSrv key s}
    (h : s.outOfFuel = true) : (bodySendQuery go reqSrv key s).1.outOfFuel = true := by
  rw [bodySendQuery_eq]
  have hP : (sqPick s reqSrv).2.outOfFuel = true := by rw [oof_sqPick]; exact h
  split
  · simpa using h
  · split
    · exact hm _ _ hP
    · simp only
      have hC : ∀ (srv : Server) (q : Query) (x : List (Nat × Nat × Bool × List (Nat × Nat))),
          (sqConn { (sqPick s reqSrv).2 with picks := x } q srv).2.outOfFuel = true := by
        intro srv q x; rw [oof_sqConn]; exact hP
      split
      · exact hm _ _ (by rw [oof_incFailures]; exact hC _ _ _)
      · apply oof_sqFinish hm
        apply oof_sqWrite hm
        rw [oof_sqPrep]
        exact hC _ _ _

end Cares.Chan
