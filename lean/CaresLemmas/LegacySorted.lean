import CaresLemmas.LegacySort
/-! The sortlist insertion sort really sorts: index-wise description of the inner loop, then the outer
    invariant "the first n entries are in ascending order of `ind`". -/
namespace Cares.AddrInfo
open Cares.Legacy

/-- what the inner loop leaves behind (k' = returned hole, l' = returned array) -/
theorem shiftLoop_spec {α : Type} (ind : α → Nat) (v : Nat) (k : Nat) (l : List α) (hk : k < l.length) :
    let k' := (shiftLoop ind v k l).1
    let l' := (shiftLoop ind v k l).2
    (∀ i, i < k' → l'[i]? = l[i]?) ∧
    (∀ i, k' < i → i ≤ k → l'[i]? = l[i - 1]?) ∧
    (∀ i, k < i → l'[i]? = l[i]?) ∧
    (∀ i a, k' ≤ i → i < k → l[i]? = some a → v < ind a) ∧
    (k' = 0 ∨ ∃ a, l[k' - 1]? = some a ∧ ind a ≤ v) := by
  induction k generalizing l with
  | zero =>
    simp only [shiftLoop]
    refine ⟨?_, ?_, ?_, ?_, ?_⟩
    · intros; first | trivial | rfl
    · intro i h1 h2; omega
    · intros; first | trivial | rfl
    · intro i a h1 h2; omega
    · first | exact Or.inl trivial | exact Or.inl rfl | trivial
  | succ k ih =>
    unfold shiftLoop
    have hk0 : k < l.length := by omega
    cases h : l[k]? with
    | none =>
      exfalso
      have := List.getElem?_eq_none_iff.mp h
      omega
    | some a2 =>
      simp only
      by_cases hle : ind a2 ≤ v
      · simp only [hle, ↓reduceIte]
        refine ⟨?_, ?_, ?_, ?_, ?_⟩
        · intros; first | trivial | rfl
        · intro i h1 h2; omega
        · intros; first | trivial | rfl
        · intro i a h1 h2; omega
        · exact Or.inr ⟨a2, by simpa using h, hle⟩
      · simp only [hle, ↓reduceIte]
        have hlen : k < (l.set (k + 1) a2).length := by simp; omega
        obtain ⟨p1, p2, p3, p4, p5⟩ := ih (l.set (k + 1) a2) hlen
        have hk' := shiftLoop_le ind v k (l.set (k + 1) a2)
        refine ⟨?_, ?_, ?_, ?_, ?_⟩
        · intro i hi
          rw [p1 i hi, List.getElem?_set_ne (by omega)]
        · intro i h1 h2
          by_cases hi : i = k + 1
          · subst hi
            rw [p3 (k + 1) (by omega)]
            simp [List.getElem?_set, hk, h]
          · rw [p2 i h1 (by omega), List.getElem?_set_ne (by omega)]
        · intro i hi
          rw [p3 i (by omega), List.getElem?_set_ne (by omega)]
        · intro i a h1 h2 ha
          by_cases hi : i = k
          · subst hi
            rw [h] at ha
            simp only [Option.some.injEq] at ha
            subst ha
            omega
          · exact p4 i a h1 (by omega) (by rw [List.getElem?_set_ne (by omega)]; exact ha)
        · rcases p5 with p5 | ⟨a, ha, hle'⟩
          · exact Or.inl p5
          · refine Or.inr ⟨a, ?_, hle'⟩
            rw [List.getElem?_set_ne (by omega)] at ha
            exact ha

/-- the first `n` entries are in ascending order of `ind` -/
def SortedUpTo {α : Type} (ind : α → Nat) (l : List α) (n : Nat) : Prop :=
  ∀ i j a b, i < j → j < n → l[i]? = some a → l[j]? = some b → ind a ≤ ind b

theorem sortStep_length {α : Type} (ind : α → Nat) (l : List α) (i1 : Nat) : (sortStep ind l i1).length = l.length := by
  unfold sortStep
  cases h : l[i1]? with
  | none => rfl
  | some a1 => simp [shiftLoop_length]

theorem sortStep_sorted {α : Type} (ind : α → Nat) (l : List α) (i1 : Nat) (hi : i1 < l.length)
    (hs : SortedUpTo ind l i1) : SortedUpTo ind (sortStep ind l i1) (i1 + 1) := by
  unfold sortStep
  cases h : l[i1]? with
  | none =>
    exfalso
    have := List.getElem?_eq_none_iff.mp h
    omega
  | some a1 =>
    simp only
    obtain ⟨p1, p2, p3, p4, p5⟩ := shiftLoop_spec ind (ind a1) i1 l hi
    have hk' := shiftLoop_le ind (ind a1) i1 l
    have hlen := shiftLoop_length ind (ind a1) i1 l
    generalize (shiftLoop ind (ind a1) i1 l).1 = k' at *
    generalize (shiftLoop ind (ind a1) i1 l).2 = l' at *
    -- entries of the result
    have e1 : ∀ i, i < k' → (l'.set k' a1)[i]? = l[i]? := by
      intro i hi'; rw [List.getElem?_set_ne (by omega), p1 i hi']
    have e2 : (l'.set k' a1)[k']? = some a1 := by
      simp [List.getElem?_set, hlen]; omega
    have e3 : ∀ i, k' < i → i ≤ i1 → (l'.set k' a1)[i]? = l[i - 1]? := by
      intro i h1 h2; rw [List.getElem?_set_ne (by omega), p2 i h1 h2]
    -- everything before the hole is ≤ ind a1
    have hbefore : ∀ i a, i < k' → l[i]? = some a → ind a ≤ ind a1 := by
      intro i a hi' ha
      rcases p5 with p5 | ⟨c, hc, hle⟩
      · omega
      · by_cases hik : i = k' - 1
        · subst hik; rw [hc] at ha; simp only [Option.some.injEq] at ha; subst ha; exact hle
        · exact Nat.le_trans (hs i (k' - 1) a c (by omega) (by omega) ha hc) hle
    intro i j a b hij hj ha hb
    by_cases hjk : j < k'
    · rw [e1 j hjk] at hb
      rw [e1 i (by omega)] at ha
      exact hs i j a b hij (by omega) ha hb
    · by_cases hjk' : j = k'
      · subst hjk'
        rw [e2] at hb; simp only [Option.some.injEq] at hb; subst hb
        rw [e1 i hij] at ha
        exact hbefore i a hij ha
      · have hjgt : k' < j := by omega
        rw [e3 j hjgt (by omega)] at hb
        by_cases hik : i < k'
        · rw [e1 i hik] at ha
          exact hs i (j - 1) a b (by omega) (by omega) ha hb
        · by_cases hik' : i = k'
          · subst hik'
            rw [e2] at ha; simp only [Option.some.injEq] at ha; subst ha
            exact Nat.le_of_lt (p4 (j - 1) b (by omega) (by omega) hb)
          · rw [e3 i (by omega) (by omega)] at ha
            exact hs (i - 1) (j - 1) a b (by omega) (by omega) ha hb

theorem foldl_sortStep_sorted {α : Type} (ind : α → Nat) (n : Nat) (l : List α) (hn : n ≤ l.length) :
    SortedUpTo ind ((List.range n).foldl (sortStep ind) l) n ∧
      ((List.range n).foldl (sortStep ind) l).length = l.length := by
  induction n with
  | zero => exact ⟨fun i j a b _ hj => by omega, rfl⟩
  | succ n ih =>
    obtain ⟨hs, hl⟩ := ih (by omega)
    rw [List.range_succ, List.foldl_append]
    simp only [List.foldl_cons, List.foldl_nil]
    exact ⟨sortStep_sorted ind _ n (by omega) hs, by rw [sortStep_length, hl]⟩

end Cares.AddrInfo
