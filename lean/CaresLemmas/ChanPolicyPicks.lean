import CaresLemmas.ChanPolicyFrameExec
import CaresLemmas.ChanPolicySort
/-!
# C09 — the ghost pick log is append-only and every fresh pick follows the failover policy

`St.picks` gets one entry `(query key, chosen server id, requested?, [(server id, failures)] in priority order)` per
`ares_send_query` that found a server.  `PickOk` is the policy predicate of one entry; `Pol` (frame + "all entries
beyond a base log satisfy `PickOk`") is an invariant of `exec`.
-/
namespace Cares.Chan
set_option linter.unusedVariables false

/-- one entry of the ghost pick log -/
abbrev Pick := Nat × Nat × Bool × List (Nat × Nat)

/-- `(id, failures)` pairs in priority order -/
def prioLe (a b : Nat × Nat) : Prop := a.2 < b.2 ∨ (a.2 = b.2 ∧ a.1 ≤ b.1)

/-- The failover policy for one pick `(key, chosen, requested, prio)`: unless the server was requested explicitly
    (probe / EDNS downgrade to the same server), `prio` lists exactly the configured servers in `(failures, id)` order,
    `chosen` occurs in it with a failure count `f` that is minimal over all servers, and without rotation it is the
    first such in configuration order (with rotation it is merely one of the best). -/
def PickOk (rotate : Bool) (ids : List Nat) (e : Pick) : Prop :=
  e.2.2.1 = false →
    (e.2.2.2.map (·.1)).Perm ids ∧ e.2.2.2.Pairwise prioLe ∧
    ∃ f, (e.2.1, f) ∈ e.2.2.2 ∧ (∀ p ∈ e.2.2.2, f ≤ p.2) ∧
      (rotate = false → ∀ p ∈ e.2.2.2, p.2 = f → e.2.1 ≤ p.1)

/-- the log extends `p0` by entries that all satisfy the policy -/
def PicksFrom (rot : Bool) (ids : List Nat) (p0 : List Pick) (s : St) : Prop :=
  ∃ l, s.picks = p0 ++ l ∧ ∀ e ∈ l, PickOk rot ids e

/-- frame + policy-conforming extension of the pick log -/
def Pol (c0 : Cfg) (n0 : Nat) (ids0 : List Nat) (p0 : List Pick) (s : St) : Prop :=
  Frame c0 n0 ids0 s ∧ PicksFrom c0.rotate ids0 p0 s

section
variable {c0 : Cfg} {n0 : Nat} {ids0 : List Nat} {p0 : List Pick}

theorem Pol.congr {s s' : St} (h0 : s'.cfg = s.cfg) (h1 : s'.now = s.now) (h2 : s'.servers = s.servers)
    (h3 : s'.picks = s.picks) (h : Pol c0 n0 ids0 p0 s) : Pol c0 n0 ids0 p0 s' := by
  refine ⟨Frame.congr h0 h1 h2 h.1, ?_⟩
  unfold PicksFrom; rw [h3]; exact h.2

theorem Pol.of_frame {s s' : St} (hf : Frame c0 n0 ids0 s') (h3 : s'.picks = s.picks) (h : Pol c0 n0 ids0 p0 s) :
    Pol c0 n0 ids0 p0 s' := by
  refine ⟨hf, ?_⟩
  unfold PicksFrom; rw [h3]; exact h.2

theorem Pol.setServer {s : St} (v : Server) (h : Pol c0 n0 ids0 p0 s) : Pol c0 n0 ids0 p0 (s.setServer v) :=
  Pol.of_frame (s := s) (Frame.setServer v h.1) rfl h

theorem Pol.modServer {s : St} {id : Nat} {f : Server → Server} (hf : ∀ v, (f v).id = v.id)
    (h : Pol c0 n0 ids0 p0 s) : Pol c0 n0 ids0 p0 (s.modServer id f) :=
  Pol.of_frame (s := s) (Frame.modServer hf h.1) rfl h

theorem Pol.incFailures {s : St} {id : Nat} {tcp : Bool} (h : Pol c0 n0 ids0 p0 s) :
    Pol c0 n0 ids0 p0 (s.incFailures id tcp) := by
  refine Pol.of_frame (Frame.incFailures h.1) ?_ h
  obtain ⟨a, b, e⟩ := incFailures_shape s id tcp; rw [e]

theorem Pol.setGood {s : St} {id : Nat} {tcp : Bool} (h : Pol c0 n0 ids0 p0 s) :
    Pol c0 n0 ids0 p0 (s.setGood id tcp) := by
  refine Pol.of_frame (Frame.setGood h.1) ?_ h
  obtain ⟨a, b, e⟩ := setGood_shape s id tcp; rw [e]

theorem Pol.metricsRecord {s : St} {q : Query} {srv : Option Nat} {st : Status} {rec : Option Reply}
    (h : Pol c0 n0 ids0 p0 s) : Pol c0 n0 ids0 p0 (s.metricsRecord q srv st rec) := by
  refine Pol.of_frame (Frame.metricsRecord h.1) ?_ h
  obtain ⟨a, e⟩ := metricsRecord_shape s q srv st rec; rw [e]

/-- appending a policy-conforming entry -/
theorem Pol.pick {s : St} (e : Pick) (he : PickOk c0.rotate ids0 e) (h : Pol c0 n0 ids0 p0 s) :
    Pol c0 n0 ids0 p0 { s with picks := s.picks ++ [e] } := by
  refine ⟨h.1, ?_⟩
  obtain ⟨l, hl, hok⟩ := h.2
  refine ⟨l ++ [e], ?_, ?_⟩
  · show s.picks ++ [e] = p0 ++ (l ++ [e])
    rw [hl, List.append_assoc]
  · intro x hx
    rcases List.mem_append.1 hx with hx | hx
    · exact hok x hx
    · simp only [List.mem_singleton] at hx; subst hx; exact he

chan_simple_lemmas Pol : (Pol c0 n0 ids0 p0) =>
  emit slog ofault mfault oofSt setQuery setConn setSock modQuery modConn modSock modClient cacheExpire

end

/-- strip one layer of structure update that leaves `cfg`, `now`, `servers`, `picks` alone -/
macro "pol_congr" : tactic => `(tactic| (
  refine Pol.congr (s := ?s0) ?h0 ?h1 ?h2 ?h3 ?hI
  case h0 => (dsimp only; exact rfl)
  case h1 => exact rfl
  case h2 => exact rfl
  case h3 => exact rfl))

macro "pol_spec" : tactic => `(tactic| first
  | with_reducible apply Pol.incFailures
  | with_reducible apply Pol.setGood
  | with_reducible apply Pol.metricsRecord
  | with_reducible apply Pol.setServer
  | (with_reducible refine Pol.modServer ?hf ?hI; case hf => (intro _; rfl))
  | with_reducible (first
      | apply Pol.emit | apply Pol.slog | apply Pol.ofault | apply Pol.mfault | apply Pol.oof
      | apply Pol.setQuery | apply Pol.setConn | apply Pol.setSock | apply Pol.modQuery | apply Pol.modConn
      | apply Pol.modSock | apply Pol.modClient | apply Pol.cacheExpire))

macro "pol_step " hgo:term : tactic => `(tactic| chan_step $hgo, pol_spec, pol_congr)

/-! ### the choice made by `ares_send_query` -/

theorem map_prio_fst (l : List Server) : (l.map fun v => (v.id, v.failures)).map (·.1) = l.map (·.id) := by
  simp [List.map_map, Function.comp_def]

theorem pairwise_prio (l : List Server) (h : l.Pairwise srvLe) :
    (l.map fun v => (v.id, v.failures)).Pairwise prioLe := by
  rw [List.pairwise_map]
  exact h.imp (fun hab => by unfold srvLe at hab; unfold prioLe; exact hab)

/-- what `sqChoose` returns when no server was requested: a server of the priority list with the minimal failure
    count; the head of the list unless rotation is on -/
theorem sqChoose_spec (s : St) (srv : Server) (s1 : St) (h : sqChoose none s = (some srv, s1)) :
    srv ∈ s.sortedServers ∧ (∀ w ∈ s.sortedServers, srv.failures ≤ w.failures) ∧
    (s.cfg.rotate = false → s.sortedServers.head? = some srv) := by
  unfold sqChoose at h
  dsimp only at h
  split at h
  · rename_i hrot
    split at h
    · simp at h
    · rename_i hn
      simp only [Prod.mk.injEq] at h
      obtain ⟨hsrv, _⟩ := h
      -- index below countBest
      cases hl : s.sortedServers with
      | nil => rw [hl] at hsrv; simp at hsrv
      | cons x r =>
        rw [hl] at hsrv hn
        have hpos : 0 < countBest (x :: r) := countBest_pos _ (by simp)
        have hi : s.draw1.1 % countBest (x :: r) < countBest (x :: r) := Nat.mod_lt _ hpos
        have hf := countBest_prefix_failures x r _ hi srv hsrv
        have hs := sortedServers_sorted s
        rw [hl] at hs
        refine ⟨List.mem_of_getElem? hsrv, ?_, ?_⟩
        · intro w hw; rw [hf]; exact head_min_failures x r hs w hw
        · intro hr; rw [hrot] at hr; exact absurd hr (by simp)
  · rename_i hrot
    simp only [Prod.mk.injEq] at h
    obtain ⟨hsrv, _⟩ := h
    cases hl : s.sortedServers with
    | nil => rw [hl] at hsrv; simp at hsrv
    | cons x r =>
      rw [hl] at hsrv
      simp only [List.head?_cons, Option.some.injEq] at hsrv
      subst hsrv
      have hs := sortedServers_sorted s
      rw [hl] at hs
      exact ⟨List.mem_cons_self, fun w hw => head_min_failures x r hs w hw, fun _ => rfl⟩

/-- the entry `ares_send_query` logs satisfies the policy -/
theorem pick_entry_ok (s : St) (reqSrv : Option Nat) (key : Nat) (srv : Server) (s1 : St)
    (h : sqChoose reqSrv s = (some srv, s1)) :
    PickOk s.cfg.rotate (s.servers.map (·.id))
      (key, srv.id, reqSrv.isSome, s.sortedServers.map fun v => (v.id, v.failures)) := by
  intro hreq
  cases reqSrv with
  | some id => simp at hreq
  | none =>
    obtain ⟨hmem, hmin, hhead⟩ := sqChoose_spec s srv s1 h
    refine ⟨?_, pairwise_prio _ (sortedServers_sorted s), srv.failures, ?_, ?_, ?_⟩
    · show ((s.sortedServers.map fun v => (v.id, v.failures)).map (·.1)).Perm _
      rw [map_prio_fst]; exact (sortedServers_perm s).map _
    · exact List.mem_map.2 ⟨srv, hmem, rfl⟩
    · intro p hp
      obtain ⟨w, hw, rfl⟩ := List.mem_map.1 hp
      exact hmin w hw
    · intro hrot p hp hpf
      obtain ⟨w, hw, rfl⟩ := List.mem_map.1 hp
      have hh := hhead hrot
      cases hl : s.sortedServers with
      | nil => rw [hl] at hmem; simp at hmem
      | cons x r =>
        rw [hl] at hh hw
        simp only [List.head?_cons, Option.some.injEq] at hh
        subst hh
        have hs := sortedServers_sorted s
        rw [hl, List.pairwise_cons] at hs
        show x.id ≤ w.id
        rcases List.mem_cons.1 hw with rfl | hw
        · exact Nat.le_refl _
        · have := hs.1 w hw
          unfold srvLe at this
          have hpf' : w.failures = x.failures := hpf
          omega

end Cares.Chan
