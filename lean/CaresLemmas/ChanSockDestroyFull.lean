import CaresLemmas.ChanSockUnl
import CaresLemmas.ChanWfDestroy
/-!
# `ares_destroy` closes every socket (C10) — full statement

Combines the socket-protocol invariant (`SInv`), "no half-closed connection survives a completed call" (`exec_Unl`)
and the ownership invariant of C01 (`Wf`, `DebtOk`; `destroy_walk_no_queries` in `ChanWfDestroy.lean`): after the
cancel loop no connection lists a query and every (linked) connection is on its server's list.
-/
namespace Cares.Chan

/-- **`ares_destroy` leaves no connection and no open socket.**  Hypotheses on the (top-level) entry state: the socket
    invariant, the ownership invariant of C01, no list walk in progress, no half-closed connection; and the run does not
    run out of fuel. -/
theorem exec_destroy_closes_all_full (f : Nat) (s : St) (h : SInv none s) (hw : Wf s)
    (hd : DebtOk none (fun _ => 0) s.sk) (hlc : s.listCopy = []) (hu : ∀ c ∈ s.conns, c.unlinked = false)
    (hf : (exec (f + 3) .destroy s).1.outOfFuel = false) :
    (exec (f + 3) .destroy s).1.conns = [] ∧
      (∀ fd, fdState (exec (f + 3) .destroy s).1.sockLog fd ≠ .opened) := by
  -- the cancel loop did not run out of fuel either
  have hft : (exec (f + 2) (.cancelLoop .destruction true) { s with destroying := true }).1.outOfFuel = false := by
    cases hb : (exec (f + 2) (.cancelLoop .destruction true) { s with destroying := true }).1.outOfFuel with
    | false => rfl
    | true =>
      exfalso
      have hfold : ∀ (fds : List Nat) (t : St), t.outOfFuel = true →
          (fds.foldl (fun s fd => (exec (f + 2) (.closeConn fd .ok) s).1) t).outOfFuel = true := by
        intro fds
        induction fds with
        | nil => exact fun _ h => h
        | cons fd rest ih => exact fun t h => ih _ (exec_oof_sticky _ _ _ h)
      have : (exec (f + 3) .destroy s).1.outOfFuel = true := by
        show (execBody (exec (f + 2)) .destroy s).1.outOfFuel = true
        simp only [execBody, bodyDestroy]
        exact hfold _ _ hb
      rw [hf] at this; cases this
  obtain ⟨_, _, hq, hl⟩ := destroy_walk_no_queries (f + 2) hw hd hlc hft
  -- no half-closed connection after the cancel loop
  have hun : Unl [] (exec (f + 2) (.cancelLoop .destruction true) { s with destroying := true }).1 := by
    apply exec_Unl
    intro _ c hc hcu
    rw [hu c hc] at hcu; cases hcu
  have hl' : ∀ c ∈ (exec (f + 2) (.cancelLoop .destruction true) { s with destroying := true }).1.conns,
      c.fd ∈ ((exec (f + 2) (.cancelLoop .destruction true) { s with destroying := true }).1.sortedServers.map
        (·.conns)).flatten := by
    intro c hc
    apply hl c hc
    cases hcu : c.unlinked with
    | false => rfl
    | true => have := hun hft c hc hcu; cases this
  obtain ⟨h1, h2, _⟩ := exec_destroy_closes_all f s h hq hl'
  exact ⟨h1, h2⟩

end Cares.Chan
