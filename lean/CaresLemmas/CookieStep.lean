import CaresModel.Proto.Cookie
/-!
# Case lemmas for `ares_cookie_apply` / `ares_cookie_validate` (helpers for C17)

`applyWith_cases` : the four shapes of the result of `applyWith` (no OPT / TCP / quiet period / cookie attached);
`validate_*`      : the result of `validateWith` for each class of (request cookie, response cookie, rcode);
`CookieSt.Wf`     : client cookie has 8 bytes, server cookie at most 32, no server cookie outside SUPPORTED.
-/
namespace Cares.Proto.Cookie
open Cares.Generated.Proto

structure CookieSt.Wf (c : CookieSt) : Prop where
  client_len : c.client.length = COOKIE_CLIENT_LEN
  server_len : c.server.length ≤ COOKIE_SERVER_MAX
  nosup_server : c.state ≠ .supported → c.server = []

theorem wf_cleared : CookieSt.cleared.Wf := ⟨by simp [CookieSt.cleared, zeroClient], by simp [CookieSt.cleared], by simp [CookieSt.cleared]⟩

theorem wf_regress (isSet) (c : CookieSt) (now) (h : c.Wf) : (regress isSet c now).Wf := by
  unfold regress; split
  · exact wf_cleared
  · exact h

theorem wf_relearn (c : CookieSt) (h : c.Wf) : (relearn c).Wf := by
  unfold relearn; split
  · exact wf_cleared
  · exact h

theorem wf_generate_clear (c : CookieSt) (conn now) (fresh : Bytes) (hf : fresh.length = COOKIE_CLIENT_LEN) :
    (generate (clearServer c) conn now fresh).Wf :=
  ⟨by simp [generate, hf], by simp [generate, clearServer], by simp [generate, clearServer]⟩

theorem wf_genInitial (c : CookieSt) (conn now) (fresh : Bytes) (h : c.Wf) (hf : fresh.length = COOKIE_CLIENT_LEN) :
    (genInitial c conn now fresh).Wf := by
  unfold genInitial; split
  · rename_i hi
    have hs : c.server = [] := h.nosup_server (by rw [hi]; decide)
    exact ⟨by simp [generate, hf], by simp [generate, hs], by simp [generate, hs]⟩
  · exact h

theorem wf_genIp (c : CookieSt) (conn now) (fresh : Bytes) (h : c.Wf) (hf : fresh.length = COOKIE_CLIENT_LEN) :
    (genIp c conn now fresh).Wf := by
  unfold genIp; split
  · exact wf_generate_clear c conn now fresh hf
  · exact h

theorem wf_genRotate (c : CookieSt) (conn now) (fresh : Bytes) (h : c.Wf) (hf : fresh.length = COOKIE_CLIENT_LEN) :
    (genRotate c conn now fresh).Wf := by
  unfold genRotate; split
  · exact wf_generate_clear c conn now fresh hf
  · exact h

/-- the state after `ares_cookie_apply` on a UDP request with OPT when the quiet period is not in force -/
def applyCore (isSet : TimeVal → Bool) (c : CookieSt) (conn : Conn) (now : TimeVal) (fresh : Bytes) : CookieSt :=
  genRotate (genIp (genInitial (relearn (regress isSet c now)) conn now fresh) conn now fresh) conn now fresh

theorem wf_applyCore (isSet) (c : CookieSt) (conn now) (fresh : Bytes) (h : c.Wf) (hf : fresh.length = COOKIE_CLIENT_LEN) :
    (applyCore isSet c conn now fresh).Wf :=
  wf_genRotate _ _ _ _ (wf_genIp _ _ _ _ (wf_genInitial _ _ _ _ (wf_relearn _ (wf_regress _ _ _ h)) hf) hf) hf

/-- the three shapes of the result of `ares_cookie_apply` -/
theorem applyWith_cases (isSet) (c : CookieSt) (conn : Conn) (now : TimeVal) (fresh : Bytes) (req : ReqOpt) :
    let o := applyWith isSet c conn now fresh req
    (req = none ∧ o.ck = c ∧ o.req = none) ∨
    (∃ x, req = some x ∧ conn.tcp = true ∧ o.ck = c ∧ o.req = some none) ∨
    (∃ x, req = some x ∧ conn.tcp = false ∧ quiet (regress isSet c now) now = true ∧
        o.ck = regress isSet c now ∧ o.req = some none) ∨
    (∃ x, req = some x ∧ conn.tcp = false ∧ quiet (regress isSet c now) now = false ∧
        o.ck = applyCore isSet c conn now fresh ∧ o.req = some (some (o.ck.client ++ o.ck.server))) := by
  intro o
  cases req with
  | none => left; simp [o, applyWith]
  | some x =>
    right
    by_cases ht : conn.tcp = true
    · left; exact ⟨x, rfl, ht, by simp [o, applyWith, ht], by simp [o, applyWith, ht]⟩
    · right
      have ht' : conn.tcp = false := by simpa using ht
      by_cases hq : quiet (regress isSet c now) now = true
      · left; exact ⟨x, rfl, ht', hq, by simp [o, applyWith, ht', hq], by simp [o, applyWith, ht', hq]⟩
      · right
        have hq' : quiet (regress isSet c now) now = false := by simpa using hq
        exact ⟨x, rfl, ht', hq', by simp [o, applyWith, ht', hq', applyCore], by simp [o, applyWith, ht', hq']⟩
end Cares.Proto.Cookie

namespace Cares.Proto.Cookie
open Cares.Generated.Proto

/-- what a response with a server cookie teaches: the server supports cookies; its cookie is saved if the client
    cookie has not been rotated since the request was sent -/
def learn (c : CookieSt) (rq r : Bytes) : CookieSt :=
  let c' := { c with state := .supported, unsupportedTs := .zero }
  if c'.client == rq.take COOKIE_CLIENT_LEN then { c' with server := r.drop 8 } else c'

/-- … but only while a client cookie is in use (or always, on a tree that still learns in a cleared state) -/
def learnG (c : CookieSt) (rq r : Bytes) : CookieSt :=
  if learnsWhenCleared || c.state = .generated || c.state = .supported then learn c rq r else c

def bump (q : QState) : QState :=
  { cookieTry := q.cookieTry + 1, usingTcp := q.usingTcp || decide (q.cookieTry + 1 ≥ COOKIE_RESEND_MAX) }

def oobOf (rq : Bytes) (resp : Option Bytes) : Bool := decide (rq.length < 8) && resp.isSome

theorem validate_badlen (isSet c q reqCookie) (r : Bytes) (rcode now) (h : r.length < 8 ∨ 40 < r.length) :
    validateWith isSet c q reqCookie (some r) rcode now = ⟨c, q, .drop, false, false⟩ := by
  unfold validateWith
  have : (decide (r.length < 8) || decide (r.length > 40)) = true := by
    rcases h with h | h <;> simp [h]
  simp [this]

theorem validate_noreq (isSet c q) (resp : Option Bytes) (rcode now)
    (h : ∀ r, resp = some r → 8 ≤ r.length ∧ r.length ≤ 40) :
    validateWith isSet c q none resp rcode now = ⟨c, q, .accept, false, false⟩ := by
  unfold validateWith
  cases resp with
  | none => simp
  | some r =>
    have := h r rfl
    have h1 : ¬ r.length < 8 := by omega
    have h2 : ¬ r.length > 40 := by omega
    simp [h1, h2]

theorem validate_badclient (isSet c q) (rq r : Bytes) (rcode now) (h1 : 8 ≤ r.length) (h2 : r.length ≤ 40)
    (hp : rq.take 8 ≠ r.take 8) :
    validateWith isSet c q (some rq) (some r) rcode now = ⟨c, q, .drop, false, oobOf rq (some r)⟩ := by
  unfold validateWith
  have h1' : ¬ r.length < 8 := by omega
  have h2' : ¬ r.length > 40 := by omega
  simp [h1', h2', hp, oobOf]

theorem validate_server_badcookie (isSet c q) (rq r : Bytes) (now) (h1 : 8 < r.length) (h2 : r.length ≤ 40)
    (hp : rq.take 8 = r.take 8) :
    validateWith isSet c q (some rq) (some r) RCODE_BADCOOKIE now =
      ⟨learnG c rq r, bump q, .drop, true, oobOf rq (some r)⟩ := by
  unfold validateWith
  have h1' : ¬ r.length < 8 := by omega
  have h2' : ¬ r.length > 40 := by omega
  by_cases hg : (learnsWhenCleared || decide (c.state = .generated) || decide (c.state = .supported)) = true
  · simp [h1', h2', hp, oobOf, h1, learn, learnG, bump, hg]
  · simp [h1', h2', hp, oobOf, h1, learnG, bump, hg]

theorem validate_server_ok (isSet c q) (rq r : Bytes) (rcode now) (h1 : 8 < r.length) (h2 : r.length ≤ 40)
    (hp : rq.take 8 = r.take 8) (hr : rcode ≠ RCODE_BADCOOKIE) :
    validateWith isSet c q (some rq) (some r) rcode now =
      ⟨learnG c rq r, q, .accept, false, oobOf rq (some r)⟩ := by
  unfold validateWith
  have h1' : ¬ r.length < 8 := by omega
  have h2' : ¬ r.length > 40 := by omega
  by_cases hg : (learnsWhenCleared || decide (c.state = .generated) || decide (c.state = .supported)) = true
  · simp [h1', h2', hp, oobOf, h1, learn, learnG, hr, hg]
  · simp [h1', h2', hp, oobOf, h1, learnG, hr, hg]

end Cares.Proto.Cookie
namespace Cares.Proto.Cookie
open Cares.Generated.Proto

/-- a response that carries no server cookie for a request that carried a cookie -/
def NoServer (rq : Bytes) (resp : Option Bytes) : Prop :=
  resp = none ∨ ∃ r, resp = some r ∧ r.length = 8 ∧ rq.take 8 = r.take 8

theorem validate_noserver_badcookie_none (isSet c q) (rq : Bytes) (now) :
    validateWith isSet c q (some rq) none RCODE_BADCOOKIE now = ⟨c, q, .drop, false, false⟩ := by
  unfold validateWith; simp

theorem validate_noserver_badcookie_some (isSet c q) (rq r : Bytes) (now) (h : r.length = 8) (hp : rq.take 8 = r.take 8) :
    validateWith isSet c q (some rq) (some r) RCODE_BADCOOKIE now = ⟨c, bump q, .drop, true, oobOf rq (some r)⟩ := by
  unfold validateWith; simp [h, hp, bump, oobOf]

/-- the verdict on a response without server cookie, by state -/
def noServerOut (isSet : TimeVal → Bool) (c : CookieSt) (q : QState) (now : TimeVal) (oob : Bool) : ValidateOut :=
  if c.state = .supported then
    ⟨if !isSet c.unsupportedTs then { c with unsupportedTs := now } else c, q, .drop, false, oob⟩
  else if c.state = .generated then
    ⟨{ CookieSt.cleared with state := .unsupported, unsupportedTs := now }, q, .accept, false, oob⟩
  else ⟨c, q, .accept, false, oob⟩

theorem validate_noserver (isSet c q) (rq : Bytes) (resp : Option Bytes) (rcode now) (h : NoServer rq resp)
    (hr : rcode ≠ RCODE_BADCOOKIE) :
    validateWith isSet c q (some rq) resp rcode now = noServerOut isSet c q now (oobOf rq resp) := by
  unfold validateWith noServerOut
  rcases h with h | ⟨r, h, hl, hp⟩
  · subst h; simp [hr, oobOf]
  · subst h; simp [hl, hp, hr, oobOf]

/-- every (request cookie, response cookie) pair falls in exactly one of the classes -/
theorem resp_classes (rq : Bytes) (resp : Option Bytes) :
    (∃ r, resp = some r ∧ (r.length < 8 ∨ 40 < r.length)) ∨
    (∃ r, resp = some r ∧ 8 ≤ r.length ∧ r.length ≤ 40 ∧ rq.take 8 ≠ r.take 8) ∨
    (∃ r, resp = some r ∧ 8 < r.length ∧ r.length ≤ 40 ∧ rq.take 8 = r.take 8) ∨
    NoServer rq resp := by
  cases resp with
  | none => right; right; right; left; rfl
  | some r =>
    by_cases h1 : r.length < 8 ∨ 40 < r.length
    · left; exact ⟨r, rfl, h1⟩
    · by_cases hp : rq.take 8 = r.take 8
      · by_cases h8 : r.length = 8
        · right; right; right; right; exact ⟨r, rfl, h8, hp⟩
        · right; right; left; exact ⟨r, rfl, by omega, by omega, hp⟩
      · right; left; exact ⟨r, rfl, by omega, by omega, hp⟩
end Cares.Proto.Cookie

namespace Cares.Proto.Cookie
open Cares.Generated.Proto

theorem regress_eq_or (isSet) (c : CookieSt) (now) :
    regress isSet c now = c ∨ (regress isSet c now = CookieSt.cleared ∧ c.state = .supported ∧
      isSet c.unsupportedTs = true ∧ expired c.unsupportedTs now COOKIE_REGRESSION_TIMEOUT_MS = true) := by
  unfold regress
  split
  · rename_i h
    right
    simp only [Bool.and_eq_true, decide_eq_true_eq] at h
    exact ⟨rfl, h.1.1, h.1.2, h.2⟩
  · left; rfl

theorem quiet_regress (isSet) (c : CookieSt) (now) (h : quiet (regress isSet c now) now = true) :
    regress isSet c now = c := by
  rcases regress_eq_or isSet c now with h1 | ⟨h1, _⟩
  · exact h1
  · rw [h1] at h; simp [quiet, CookieSt.cleared] at h

theorem quiet_state (c : CookieSt) (now) (h : quiet c now = true) : c.state = .unsupported := by
  simp only [quiet, Bool.and_eq_true, decide_eq_true_eq] at h; exact h.1

theorem genIp_state (c : CookieSt) (conn now fresh) : (genIp c conn now fresh).state = c.state := by
  unfold genIp; split <;> simp [generate, clearServer]

theorem genIp_uts (c : CookieSt) (conn now fresh) : (genIp c conn now fresh).unsupportedTs = c.unsupportedTs := by
  unfold genIp; split <;> simp [generate, clearServer]

theorem genRotate_state (c : CookieSt) (conn now fresh) : (genRotate c conn now fresh).state = c.state := by
  unfold genRotate; split <;> simp [generate, clearServer]

theorem genRotate_uts (c : CookieSt) (conn now fresh) : (genRotate c conn now fresh).unsupportedTs = c.unsupportedTs := by
  unfold genRotate; split <;> simp [generate, clearServer]

theorem genInitial_sup (c : CookieSt) (conn now fresh) (h : (genInitial c conn now fresh).state = .supported) :
    genInitial c conn now fresh = c := by
  unfold genInitial at h ⊢
  split
  · rename_i hi; simp [hi, generate] at h
  · rfl

theorem relearn_sup (c : CookieSt) (h : (relearn c).state = .supported) : relearn c = c := by
  unfold relearn at h ⊢
  split
  · rename_i hu; simp [hu, CookieSt.cleared] at h
  · rfl

/-- `ares_cookie_apply` leaves the server in the SUPPORTED state only if it was there and no regression reset was due;
    the `unsupported_ts` time stamp is then untouched -/
theorem applyCore_sup (isSet) (c : CookieSt) (conn now) (fresh : Bytes)
    (h : (applyCore isSet c conn now fresh).state = .supported) :
    c.state = .supported ∧ (applyCore isSet c conn now fresh).unsupportedTs = c.unsupportedTs ∧
    regress isSet c now = c := by
  unfold applyCore at h ⊢
  rw [genRotate_state, genIp_state] at h
  have h3 := genInitial_sup _ _ _ _ h
  rw [h3] at h
  have h2 := relearn_sup _ h
  rw [h2] at h
  rw [genRotate_uts, genIp_uts, h3, h2]
  rcases regress_eq_or isSet c now with h1 | ⟨h1, _⟩
  · rw [h1] at h ⊢; exact ⟨h, rfl, rfl⟩
  · rw [h1] at h; simp [CookieSt.cleared] at h

theorem wf_learn (c : CookieSt) (rq r : Bytes) (h : c.Wf) (hr : r.length ≤ 40) : (learn c rq r).Wf := by
  unfold learn
  simp only []
  split
  · exact ⟨h.client_len, by simp [COOKIE_SERVER_MAX]; omega, by simp⟩
  · exact ⟨h.client_len, h.server_len, by simp⟩

theorem learn_state (c : CookieSt) (rq r : Bytes) : (learn c rq r).state = .supported := by
  unfold learn; simp only []; split <;> rfl

theorem learn_uts (c : CookieSt) (rq r : Bytes) : (learn c rq r).unsupportedTs = .zero := by
  unfold learn; simp only []; split <;> rfl

theorem learn_client (c : CookieSt) (rq r : Bytes) : (learn c rq r).client = c.client := by
  unfold learn; simp only []; split <;> rfl

theorem learnG_cases (c : CookieSt) (rq r : Bytes) :
    learnG c rq r = learn c rq r ∨ (learnG c rq r = c ∧ c.state ≠ .generated ∧ c.state ≠ .supported) := by
  unfold learnG
  split
  · left; rfl
  · rename_i h
    right
    simp only [Bool.or_eq_true, decide_eq_true_eq, not_or] at h
    exact ⟨rfl, h.1.2, h.2⟩

theorem learnG_inUse (c : CookieSt) (rq r : Bytes) (h : c.state = .generated ∨ c.state = .supported) :
    learnG c rq r = learn c rq r := by
  unfold learnG
  rcases h with h | h <;> simp [h]

theorem wf_learnG (c : CookieSt) (rq r : Bytes) (h : c.Wf) (hr : r.length ≤ 40) : (learnG c rq r).Wf := by
  rcases learnG_cases c rq r with h1 | ⟨h1, _⟩
  · rw [h1]; exact wf_learn c rq r h hr
  · rw [h1]; exact h

end Cares.Proto.Cookie

namespace Cares.Proto.Cookie
open Cares.Generated.Proto

theorem genIp_client (c : CookieSt) (conn now) (fresh : Bytes) :
    (genIp c conn now fresh).client = fresh ∨ genIp c conn now fresh = c := by
  unfold genIp; split
  · left; rfl
  · right; rfl

theorem genRotate_client (c : CookieSt) (conn now) (fresh : Bytes) :
    (genRotate c conn now fresh).client = fresh ∨ genRotate c conn now fresh = c := by
  unfold genRotate; split
  · left; rfl
  · right; rfl

/-- after `ares_cookie_apply` attached a cookie, the client cookie is either the freshly drawn one or the one that was
    already in use -/
theorem applyCore_client (isSet) (c : CookieSt) (conn now) (fresh : Bytes) :
    (applyCore isSet c conn now fresh).client = fresh ∨
    ((c.state = .generated ∨ c.state = .supported) ∧ (applyCore isSet c conn now fresh).client = c.client) := by
  unfold applyCore
  generalize hc2 : relearn (regress isSet c now) = c2
  have h5 := genRotate_client (genIp (genInitial c2 conn now fresh) conn now fresh) conn now fresh
  have h4 := genIp_client (genInitial c2 conn now fresh) conn now fresh
  rcases h5 with h5 | h5
  · left; exact h5
  · rw [h5]
    rcases h4 with h4 | h4
    · left; exact h4
    · rw [h4]
      by_cases hi : c2.state = .initial
      · left; simp [genInitial, hi, generate]
      · right
        have h3 : genInitial c2 conn now fresh = c2 := by simp [genInitial, hi]
        rw [h3]
        -- no reset happened
        have h1 : regress isSet c now = c := by
          rcases regress_eq_or isSet c now with h | ⟨h, _⟩
          · exact h
          · exfalso; apply hi; rw [← hc2, h]; simp [relearn, CookieSt.cleared]
        rw [h1] at hc2
        have hu : c.state ≠ .unsupported := by
          intro hu; apply hi; rw [← hc2]; simp [relearn, hu, CookieSt.cleared]
        have h2 : c2 = c := by rw [← hc2]; simp [relearn, hu]
        rw [h2] at hi ⊢
        refine ⟨?_, rfl⟩
        cases hs : c.state with
        | initial => exact absurd hs hi
        | generated => exact Or.inl rfl
        | supported => exact Or.inr rfl
        | unsupported => exact absurd hs hu

theorem relearn_not_unsupported (c : CookieSt) : (relearn c).state ≠ .unsupported := by
  unfold relearn; split
  · simp [CookieSt.cleared]
  · assumption

theorem applyCore_inUse (isSet) (c : CookieSt) (conn now) (fresh : Bytes) :
    (applyCore isSet c conn now fresh).state = .generated ∨ (applyCore isSet c conn now fresh).state = .supported := by
  unfold applyCore
  rw [genRotate_state, genIp_state]
  have hnu := relearn_not_unsupported (regress isSet c now)
  generalize relearn (regress isSet c now) = c2 at hnu
  unfold genInitial
  split
  · left; rfl
  · rename_i hi
    cases hs : c2.state with
    | initial => exact absurd hs hi
    | generated => exact Or.inl rfl
    | supported => exact Or.inr rfl
    | unsupported => exact absurd hs hnu

end Cares.Proto.Cookie
