import CaresLemmas.HTableExpand
/-! Helper lemmas for the `ares_htable` model, part 4: expand / insert / remove / get against the invariant. -/
namespace Cares.Dsa
open Cares.Generated

namespace Oracle

theorem next_ok (o : Oracle) (h : o.AllOk) : o.next = (true, { o with pos := o.pos + 1 }) := by
  unfold next; rw [h o.pos]; rfl

theorem allOk_step (o : Oracle) (h : o.AllOk) (p : Nat) : ({ o with pos := p } : Oracle).AllOk := h

theorem nextN_ok (o : Oracle) (h : o.AllOk) (n : Nat) : ∃ o', o.nextN n = (true, o') ∧ o'.AllOk := by
  induction n generalizing o with
  | zero => exact ⟨o, rfl, h⟩
  | succ n ih =>
    unfold nextN
    rw [next_ok o h]
    exact ih _ (allOk_step o h _)

theorem cond_next_ok (o : Oracle) (h : o.AllOk) (c : Prop) [Decidable c] :
    ∃ o', (if c then o.next else (true, o)) = (true, o') ∧ o'.AllOk := by
  by_cases hc : c
  · rw [if_pos hc, next_ok o h]; exact ⟨_, rfl, allOk_step o h _⟩
  · rw [if_neg hc]; exact ⟨o, rfl, h⟩

end Oracle

namespace HTable
variable {K V : Type}

/-- side conditions on the constants regenerated from ares_htable.c (discharged by `decide` in CaresProps/C19) -/
structure ConstsOk : Prop where
  min_pos : 0 < HTABLE_MIN_BUCKETS
  /-- doubling from the minimum reaches the maximum exactly -/
  max_pow : ∃ j, HTABLE_MAX_BUCKETS = HTABLE_MIN_BUCKETS * 2 ^ j
  /-- the growth threshold of the smallest table is at least one key -/
  load_ok : 100 ≤ HTABLE_MIN_BUCKETS * HTABLE_EXPAND_PERCENT

theorem size_pos (hc : ConstsOk) (ops : HOps K) (t : HTable K V) (h : Inv ops t) : 0 < t.size := by
  obtain ⟨k, hk⟩ := h.pow
  rw [hk]; exact Nat.mul_pos hc.min_pos (Nat.two_pow_pos k)

theorem min_le_size (ops : HOps K) (t : HTable K V) (h : Inv ops t) : HTABLE_MIN_BUCKETS ≤ t.size := by
  obtain ⟨k, hk⟩ := h.pow
  rw [hk]; exact Nat.le_mul_of_pos_right _ (Nat.two_pow_pos k)

theorem double_le_max (hc : ConstsOk) (ops : HOps K) (t : HTable K V) (h : Inv ops t)
    (hne : t.size ≠ HTABLE_MAX_BUCKETS) : t.size * 2 ≤ HTABLE_MAX_BUCKETS ∧ ∃ k, t.size * 2 = HTABLE_MIN_BUCKETS * 2 ^ k := by
  obtain ⟨k, hk⟩ := h.pow
  obtain ⟨j, hj⟩ := hc.max_pow
  have hlt : t.size < HTABLE_MAX_BUCKETS := Nat.lt_of_le_of_ne h.szmax hne
  rw [hk, hj] at hlt
  have h2 : 2 ^ k < 2 ^ j := Nat.lt_of_mul_lt_mul_left hlt
  have hkj : k < j := (Nat.pow_lt_pow_iff_right (by omega)).1 h2
  have h3 : 2 ^ (k + 1) ≤ 2 ^ j := Nat.pow_le_pow_right (by omega) hkj
  have h4 : t.size * 2 = HTABLE_MIN_BUCKETS * 2 ^ (k + 1) := by rw [hk, Nat.pow_succ, Nat.mul_assoc]
  refine ⟨?_, k + 1, h4⟩
  rw [h4, hj]; exact Nat.mul_le_mul_left _ h3

theorem xinv_init (ops : HOps K) (size : Nat) (p : Nat) :
    XInv ops size ({ nb := List.replicate size none, pre := p, coll := 0 } : XS K V) := by
  refine ⟨by simp, ?_, ?_⟩
  · intro j l hj
    simp only [List.getElem?_replicate] at hj
    split at hj <;> simp at hj
  · simp only; rw [sum_map_replicate_none bcoll rfl]

/-- ares_htable_expand on a table satisfying the invariant, all allocations succeeding: it never takes the
    `goto done` of the move loop (the pre-allocated llists suffice), keeps every node, and doubles the size
    (or does nothing at the maximum size) -/
theorem expand_spec (hc : ConstsOk) (ops : HOps K) (hl : Lawful ops) (t : HTable K V) (o : Oracle)
    (h : Inv ops t) (ho : o.AllOk) :
    ∃ t' o', expand ops t o = (true, t', o') ∧ o'.AllOk ∧ Inv ops t' ∧ (entries t').Perm (entries t) ∧
      t'.numKeys = t.numKeys ∧
      (if t.size = HTABLE_MAX_BUCKETS then t' = t else t'.size = t.size * 2) := by
  unfold expand
  by_cases hmax : t.size = HTABLE_MAX_BUCKETS
  · simp only [hmax, ↓reduceIte]
    exact ⟨t, o, rfl, ho, h, List.Perm.refl _, rfl, rfl⟩
  · simp only [hmax, ↓reduceIte]
    rw [Oracle.next_ok o ho]
    simp only
    obtain ⟨o2, e2, ho2⟩ := Oracle.cond_next_ok _ (Oracle.allOk_step o ho (o.pos + 1)) (t.numCollisions ≠ 0)
    rw [e2]
    simp only
    obtain ⟨o3, e3, ho3⟩ := Oracle.nextN_ok o2 ho2 t.numCollisions
    rw [e3]
    simp only
    have hs := size_pos hc ops t h
    obtain ⟨x, ex, ix, px⟩ := moveAll_spec ops (t.size * 2) t.buckets
      { nb := List.replicate (t.size * 2) none, pre := t.numCollisions, coll := 0 }
      (xinv_init ops _ _) (by omega) (by simp only; rw [h.ncoll]; exact Nat.le_refl _)
    rw [ex]
    simp only
    obtain ⟨hd1, hd2⟩ := double_le_max hc ops t h hmax
    have hperm : (entries ({ buckets := x.nb, size := t.size * 2, numKeys := t.numKeys, numCollisions := x.coll } : HTable K V)).Perm
        (entries t) := by
      unfold entries
      simp only
      have := px
      simp only [ents_replicate_none, List.append_nil] at this
      exact this
    refine ⟨_, o3, rfl, ho3, ?_, hperm, rfl, rfl⟩
    refine ⟨ix.len, hd2, hd1, ?_, ?_, ?_, ix.coll, ?_⟩
    · intro i l hi e he; exact (ix.placed i l hi).2 e he
    · exact pairwise_perm ops hl _ _ hperm.symm h.uniq
    · simp only; rw [h.nkeys]; exact hperm.length_eq.symm
    · left
      simp only
      rcases h.load with hld | hld
      · refine Nat.le_trans hld (Nat.div_le_div_right ?_)
        rw [Nat.mul_right_comm]; exact Nat.le_mul_of_pos_right _ (by omega)
      · exact absurd hld hmax


/-! ### insert / remove / get -/

theorem eq_congr (ops : HOps K) (hl : Lawful ops) (a b x : K) (h : ops.eq a b = true) : ops.eq a x = ops.eq b x := by
  cases h1 : ops.eq a x with
  | true => exact (hl.trans _ _ _ (hl.symm _ _ h) h1).symm
  | false =>
    cases h2 : ops.eq b x with
    | false => rfl
    | true => rw [hl.trans _ _ _ h h2] at h1; cases h1

theorem abs_congr (ops : HOps K) (hl : Lawful ops) (t : HTable K V) (q k : K) (h : ops.eq q k = true) :
    abs ops t q = abs ops t k := by
  unfold abs
  congr 1
  funext e
  exact eq_congr ops hl q k e.1 h

/-- ares_htable_get: the bucket-local search returns what the association map holds -/
theorem get_spec (ops : HOps K) (hl : Lawful ops) (t : HTable K V) (k : K) (h : Inv ops t)
    (hk : ops.isNull k = false) : get ops t k = abs ops t k := by
  unfold get abs entries
  rw [hk]
  exact find_bucket_eq_find_all ops hl t.buckets t.size h.placed h.uniq k

theorem getElem?_of_bucketAt_ne_nil (bs : List (Option (List (K × V)))) (i : Nat) (h : bucketAt bs i ≠ []) :
    bs[i]? = some (some (bucketAt bs i)) := by
  unfold bucketAt at h ⊢
  split at h
  · rename_i l hl; rw [hl]
  · exact absurd rfl h

/-- linking a new node (key not present) at the front of its bucket -/
theorem add_node (ops : HOps K) (hl : Lawful ops) (t1 : HTable K V) (h1 : Inv ops t1) (k : K) (v : V)
    (hlt : hidx ops t1.size k < t1.size) (hnone : abs ops t1 k = none)
    (hroom : t1.numKeys + 1 ≤ t1.size * HTABLE_EXPAND_PERCENT / 100 ∨ t1.size = HTABLE_MAX_BUCKETS) :
    Inv ops ({ buckets := t1.buckets.set (hidx ops t1.size k) (some ((k, v) :: bucketAt t1.buckets (hidx ops t1.size k))),
               size := t1.size, numKeys := t1.numKeys + 1,
               numCollisions := if ((k, v) :: bucketAt t1.buckets (hidx ops t1.size k)).length > 1
                                then t1.numCollisions + 1 else t1.numCollisions } : HTable K V) ∧
    (ents (t1.buckets.set (hidx ops t1.size k) (some ((k, v) :: bucketAt t1.buckets (hidx ops t1.size k))))).Perm
      ((k, v) :: entries t1) := by
  have hlen : hidx ops t1.size k < t1.buckets.length := by rw [h1.len]; exact hlt
  obtain ⟨rest, p1, p2⟩ := ents_set_perm t1.buckets _ hlen ((k, v) :: bucketAt t1.buckets (hidx ops t1.size k))
  have hperm : (ents (t1.buckets.set (hidx ops t1.size k) (some ((k, v) :: bucketAt t1.buckets (hidx ops t1.size k))))).Perm
      ((k, v) :: entries t1) := p2.trans (List.Perm.cons _ p1.symm)
  refine ⟨⟨by simp [h1.len], h1.pow, h1.szmax, ?_, ?_, ?_, ?_, ?_⟩, hperm⟩
  · intro j l hj e he
    simp only at hj
    by_cases hji : hidx ops t1.size k = j
    · rw [← hji] at hj ⊢
      rw [List.getElem?_set_self hlen] at hj
      cases hj
      rcases List.mem_cons.1 he with rfl | hm
      · rfl
      · have hne : bucketAt t1.buckets (hidx ops t1.size k) ≠ [] := List.ne_nil_of_mem hm
        exact h1.placed _ _ (getElem?_of_bucketAt_ne_nil _ _ hne) e hm
    · rw [List.getElem?_set_ne hji] at hj
      exact h1.placed j l hj e he
  · unfold entries; simp only
    refine pairwise_perm ops hl _ _ hperm.symm ?_
    exact keysDiffer_add ops _ (k, v) h1.uniq hnone
  · unfold entries; simp only
    rw [hperm.length_eq, List.length_cons, h1.nkeys]
  · simp only
    have hs := sum_map_set bcoll t1.buckets _ hlen (some ((k, v) :: bucketAt t1.buckets (hidx ops t1.size k)))
    rw [h1.ncoll]
    unfold bucketAt at *
    rw [List.getElem?_eq_getElem hlen] at *
    cases hh : t1.buckets[hidx ops t1.size k] with
    | none => rw [hh] at hs; simp [bcoll] at hs ⊢; omega
    | some b =>
      rw [hh] at hs
      simp only [bcoll, List.length_cons, Nat.add_sub_cancel] at hs ⊢
      by_cases hb : b.length + 1 > 1
      · rw [if_pos hb]; omega
      · rw [if_neg hb]; omega
  · simp only; exact hroom

/-- ares_htable_insert with all allocations succeeding -/
theorem insert_spec (hc : ConstsOk) (ops : HOps K) (hl : Lawful ops) (t : HTable K V) (k : K) (v : V) (o : Oracle)
    (h : Inv ops t) (ho : o.AllOk) :
    ∃ t' o', insert ops t k v o = (true, t', o') ∧ o'.AllOk ∧ Inv ops t' ∧
      (∀ q, abs ops t' q = if ops.eq q k then some (k, v) else abs ops t q) ∧
      t'.numKeys = (if (abs ops t k).isSome then t.numKeys else t.numKeys + 1) ∧
      t'.size = (if (abs ops t k).isNone ∧ t.numKeys + 1 > t.size * HTABLE_EXPAND_PERCENT / 100 ∧
                    t.size ≠ HTABLE_MAX_BUCKETS then t.size * 2 else t.size) := by
  have hs := size_pos hc ops t h
  have hlt := hidx_lt ops t.size k hs
  have hlen : hidx ops t.size k < t.buckets.length := by rw [h.len]; exact hlt
  have hfind : findIn ops k (bucketAt t.buckets (hidx ops t.size k)) = abs ops t k :=
    find_bucket_eq_find_all ops hl t.buckets t.size h.placed h.uniq k
  unfold insert
  simp only
  cases hf : findIn ops k (bucketAt t.buckets (hidx ops t.size k)) with
  | some old =>
    simp only
    obtain ⟨he, p1, p2, l2, l1, m2, m1⟩ := findIn_some_split ops k _ old hf
    obtain ⟨rest, q1, q2⟩ := ents_set_perm t.buckets _ hlen
      (replaceFirst ops k (k, v) (bucketAt t.buckets (hidx ops t.size k)))
    -- all nodes before / after, with the replaced node in front
    have r1 : (entries t).Perm (old :: (removeFirst ops k (bucketAt t.buckets (hidx ops t.size k)) ++ rest)) :=
      q1.trans (List.Perm.append_right rest p1)
    have r2 : (ents (t.buckets.set (hidx ops t.size k)
        (some (replaceFirst ops k (k, v) (bucketAt t.buckets (hidx ops t.size k)))))).Perm
        ((k, v) :: (removeFirst ops k (bucketAt t.buckets (hidx ops t.size k)) ++ rest)) :=
      q2.trans (List.Perm.append_right rest (p2 (k, v)))
    have u1 := pairwise_perm ops hl _ _ r1 h.uniq
    have u2 : KeysDiffer ops ((k, v) :: (removeFirst ops k (bucketAt t.buckets (hidx ops t.size k)) ++ rest)) :=
      keysDiffer_replace ops hl _ old (k, v) u1 he
    have u3 := pairwise_perm ops hl _ _ r2.symm u2
    have hne : bucketAt t.buckets (hidx ops t.size k) ≠ [] := by
      intro hnil; rw [hnil] at hf; simp [findIn] at hf
    have hget := getElem?_of_bucketAt_ne_nil _ _ hne
    refine ⟨_, o, rfl, ho, ⟨by simp [h.len], h.pow, h.szmax, ?_, u3, ?_, ?_, h.load⟩, ?_, ?_, ?_⟩
    · intro j l hj e hm
      simp only at hj
      by_cases hji : hidx ops t.size k = j
      · rw [← hji] at hj ⊢
        rw [List.getElem?_set_self hlen] at hj
        cases hj
        rcases m2 (k, v) e hm with rfl | hm'
        · rfl
        · exact h.placed _ _ hget e hm'
      · rw [List.getElem?_set_ne hji] at hj
        exact h.placed j l hj e hm
    · unfold entries; simp only
      rw [r2.length_eq, h.nkeys, r1.length_eq]; simp
    · simp only
      have hsum := sum_map_set bcoll t.buckets _ hlen
        (some (replaceFirst ops k (k, v) (bucketAt t.buckets (hidx ops t.size k))))
      obtain ⟨_, hbe⟩ := List.getElem?_eq_some_iff.1 hget
      rw [h.ncoll]
      rw [hbe] at hsum
      simp only [bcoll, l2 (k, v)] at hsum
      omega
    · intro q
      have a1 : abs ops t q = if ops.eq q old.1 then some old else
          (removeFirst ops k (bucketAt t.buckets (hidx ops t.size k)) ++ rest).find? (fun e => ops.eq q e.1) :=
        find?_cons_perm ops hl _ _ old r1 h.uniq q
      have a2 := find?_cons_perm ops hl _ _ (k, v) r2 u3 q
      rw [a1]
      unfold abs entries
      simp only
      rw [a2]
      have hqq : ops.eq q k = ops.eq q old.1 := by
        cases hq : ops.eq q k with
        | true => exact (hl.trans _ _ _ hq he).symm
        | false =>
          cases hq2 : ops.eq q old.1 with
          | false => rfl
          | true => rw [hl.trans _ _ _ hq2 (hl.symm _ _ he)] at hq; cases hq
      simp only [hqq]
      split <;> rfl
    · rw [← hfind, hf]; rfl
    · rw [← hfind, hf]; simp
  | none =>
    simp only
    have hnone : abs ops t k = none := by rw [← hfind, hf]
    -- stage 1: grow if the threshold is crossed
    have st1 : ∃ t1 o1, (if t.numKeys + 1 > t.size * HTABLE_EXPAND_PERCENT / 100 then expand ops t o else (true, t, o))
        = (true, t1, o1) ∧ o1.AllOk ∧ Inv ops t1 ∧ (entries t1).Perm (entries t) ∧ t1.numKeys = t.numKeys ∧
        (t1.numKeys + 1 ≤ t1.size * HTABLE_EXPAND_PERCENT / 100 ∨ t1.size = HTABLE_MAX_BUCKETS) ∧
        t1.size = (if t.numKeys + 1 > t.size * HTABLE_EXPAND_PERCENT / 100 ∧ t.size ≠ HTABLE_MAX_BUCKETS
                   then t.size * 2 else t.size) := by
      by_cases hg : t.numKeys + 1 > t.size * HTABLE_EXPAND_PERCENT / 100
      · rw [if_pos hg]
        obtain ⟨t1, o1, e1, ho1, i1, p1, n1, sz1⟩ := expand_spec hc ops hl t o h ho
        refine ⟨t1, o1, e1, ho1, i1, p1, n1, ?_, ?_⟩
        · by_cases hmax : t.size = HTABLE_MAX_BUCKETS
          · rw [if_pos hmax] at sz1; subst sz1; exact Or.inr hmax
          · rw [if_neg hmax] at sz1
            left
            rw [n1, sz1]
            have hld : t.numKeys ≤ t.size * HTABLE_EXPAND_PERCENT / 100 := by
              rcases h.load with hld | hld
              · exact hld
              · exact absurd hld hmax
            have hmin := min_le_size ops t h
            have h100 : 100 ≤ t.size * HTABLE_EXPAND_PERCENT :=
              Nat.le_trans hc.load_ok (Nat.mul_le_mul_right _ hmin)
            rw [Nat.mul_right_comm]
            omega
        · by_cases hmax : t.size = HTABLE_MAX_BUCKETS
          · rw [if_pos hmax] at sz1; subst sz1
            rw [if_neg (by intro hh; exact hh.2 hmax)]
          · rw [if_neg hmax] at sz1
            rw [if_pos ⟨hg, hmax⟩]; exact sz1
      · rw [if_neg hg]
        exact ⟨t, o, rfl, ho, h, List.Perm.refl _, rfl, Or.inl (by omega), by rw [if_neg (fun hh => hg hh.1)]⟩
    obtain ⟨t1, o1, e1, ho1, i1, p1, n1, room1, sz1⟩ := st1
    rw [e1]
    simp only
    have hs1 := size_pos hc ops t1 i1
    have hlt1 := hidx_lt ops t1.size k hs1
    have hlen1 : hidx ops t1.size k < t1.buckets.length := by rw [i1.len]; exact hlt1
    have hnone1 : abs ops t1 k = none := by
      unfold abs at hnone ⊢
      rw [find?_perm ops hl _ _ p1 i1.uniq k]; exact hnone
    obtain ⟨inv2, perm2⟩ := add_node ops hl t1 i1 k v hlt1 hnone1 room1
    -- what the table means afterwards
    have habs : ∀ (t' : HTable K V), t'.buckets = t1.buckets.set (hidx ops t1.size k)
          (some ((k, v) :: bucketAt t1.buckets (hidx ops t1.size k))) → KeysDiffer ops (entries t') →
        ∀ q, abs ops t' q = if ops.eq q k then some (k, v) else abs ops t q := by
      intro t' hb hu q
      unfold abs
      have hp' : (entries t').Perm ((k, v) :: entries t) := by
        unfold entries; rw [hb]; exact perm2.trans (List.Perm.cons _ p1)
      rw [find?_cons_perm ops hl _ _ (k, v) hp' hu q]
    by_cases hnull : slotNull t1.buckets (hidx ops t1.size k) = true
    · simp only [hnull, ↓reduceIte]
      rw [Oracle.next_ok o1 ho1]
      simp only
      rw [Oracle.next_ok _ (Oracle.allOk_step o1 ho1 _)]
      simp only
      have hb0 := bucketAt_of_slotNull t1.buckets _ hnull
      rw [hb0] at inv2 perm2 habs
      rw [bucketAt_set_self _ _ hlen1, List.set_set]
      simp only [List.length_cons, List.length_nil, Nat.zero_add, Nat.lt_irrefl, ↓reduceIte, gt_iff_lt] at inv2 ⊢
      refine ⟨_, _, rfl, Oracle.allOk_step _ (Oracle.allOk_step o1 ho1 _) _, inv2, habs _ rfl inv2.uniq, ?_, ?_⟩
      · simp only [n1, hnone, Option.isSome_none, Bool.false_eq_true, ↓reduceIte]
      · simp only [hnone, Option.isNone_none, true_and]; exact sz1
    · have hnull' : slotNull t1.buckets (hidx ops t1.size k) = false := by simpa using hnull
      simp only [hnull', Bool.false_eq_true, ↓reduceIte]
      rw [Oracle.next_ok o1 ho1]
      simp only
      refine ⟨_, _, rfl, Oracle.allOk_step o1 ho1 _, inv2, habs _ rfl inv2.uniq, ?_, ?_⟩
      · simp only [n1, hnone, Option.isSome_none, Bool.false_eq_true, ↓reduceIte]
      · simp only [hnone, Option.isNone_none, true_and]; exact sz1

/-- ares_htable_remove -/
theorem remove_spec (hc : ConstsOk) (ops : HOps K) (hl : Lawful ops) (t : HTable K V) (k : K) (h : Inv ops t)
    (hk : ops.isNull k = false) :
    Inv ops (remove ops t k).2 ∧ (remove ops t k).1 = (abs ops t k).isSome ∧
      (∀ q, abs ops (remove ops t k).2 q = if ops.eq q k then none else abs ops t q) ∧
      (remove ops t k).2.numKeys = (if (abs ops t k).isSome then t.numKeys - 1 else t.numKeys) ∧
      (remove ops t k).2.size = t.size := by
  have hs := size_pos hc ops t h
  have hlt := hidx_lt ops t.size k hs
  have hlen : hidx ops t.size k < t.buckets.length := by rw [h.len]; exact hlt
  have hfind : findIn ops k (bucketAt t.buckets (hidx ops t.size k)) = abs ops t k :=
    find_bucket_eq_find_all ops hl t.buckets t.size h.placed h.uniq k
  unfold remove
  simp only [hk, Bool.false_eq_true, ↓reduceIte]
  cases hf : findIn ops k (bucketAt t.buckets (hidx ops t.size k)) with
  | none =>
    have hnone : abs ops t k = none := by rw [← hfind, hf]
    simp only [hnone, Option.isSome_none, Bool.false_eq_true, ↓reduceIte]
    refine ⟨h, trivial, ?_, trivial, trivial⟩
    intro q
    by_cases hq : ops.eq q k = true
    · rw [if_pos hq, abs_congr ops hl t q k hq, hnone]
    · rw [if_neg hq]
  | some old =>
    have hsome : abs ops t k = some old := by rw [← hfind, hf]
    simp only [hsome, Option.isSome_some, ↓reduceIte]
    obtain ⟨he, p1, p2, l2, l1, m2, m1⟩ := findIn_some_split ops k _ old hf
    obtain ⟨rest, q1, q2⟩ := ents_set_perm t.buckets _ hlen
      (removeFirst ops k (bucketAt t.buckets (hidx ops t.size k)))
    have r1 : (entries t).Perm (old :: (removeFirst ops k (bucketAt t.buckets (hidx ops t.size k)) ++ rest)) :=
      q1.trans (List.Perm.append_right rest p1)
    have u1 := pairwise_perm ops hl _ _ r1 h.uniq
    have u2 : KeysDiffer ops (removeFirst ops k (bucketAt t.buckets (hidx ops t.size k)) ++ rest) :=
      (List.pairwise_cons.1 u1).2
    have u3 := pairwise_perm ops hl _ _ q2.symm u2
    have hne : bucketAt t.buckets (hidx ops t.size k) ≠ [] := by
      intro hnil; rw [hnil] at hf; simp [findIn] at hf
    have hget := getElem?_of_bucketAt_ne_nil _ _ hne
    have hcnt : t.numKeys = (removeFirst ops k (bucketAt t.buckets (hidx ops t.size k)) ++ rest).length + 1 := by
      rw [h.nkeys, r1.length_eq]; rfl
    refine ⟨⟨by simp [h.len], h.pow, h.szmax, ?_, u3, ?_, ?_, ?_⟩, trivial, ?_, trivial, trivial⟩
    · intro j l hj e hm
      simp only at hj
      by_cases hji : hidx ops t.size k = j
      · rw [← hji] at hj ⊢
        rw [List.getElem?_set_self hlen] at hj
        cases hj
        exact h.placed _ _ hget e (m1 e hm)
      · rw [List.getElem?_set_ne hji] at hj
        exact h.placed j l hj e hm
    · unfold entries; simp only
      rw [q2.length_eq, hcnt]; simp
    · simp only
      have hsum := sum_map_set bcoll t.buckets _ hlen
        (some (removeFirst ops k (bucketAt t.buckets (hidx ops t.size k))))
      obtain ⟨_, hbe⟩ := List.getElem?_eq_some_iff.1 hget
      rw [hbe] at hsum
      rw [h.ncoll]
      simp only [bcoll] at hsum
      by_cases hb : (bucketAt t.buckets (hidx ops t.size k)).length > 1
      · rw [if_pos hb]; omega
      · rw [if_neg hb]; omega
    · simp only
      rcases h.load with hld | hld
      · left; omega
      · right; exact hld
    · intro q
      have a1 : abs ops t q = if ops.eq q old.1 then some old else
          (removeFirst ops k (bucketAt t.buckets (hidx ops t.size k)) ++ rest).find? (fun e => ops.eq q e.1) :=
        find?_cons_perm ops hl _ _ old r1 h.uniq q
      unfold abs entries at a1 ⊢
      simp only
      rw [find?_perm ops hl _ _ q2 u3 q, a1]
      have hqq : ops.eq q k = ops.eq q old.1 := by
        cases hq : ops.eq q k with
        | true => exact (hl.trans _ _ _ hq he).symm
        | false =>
          cases hq2 : ops.eq q old.1 with
          | false => rfl
          | true => rw [hl.trans _ _ _ hq2 (hl.symm _ _ he)] at hq; cases hq
      rw [hqq]
      by_cases hq : ops.eq q old.1 = true
      · simp only [hq, ↓reduceIte]
        exact find?_rest_none ops hl _ old u1 q hq
      · simp only [hq, Bool.false_eq_true, ↓reduceIte]

end HTable
end Cares.Dsa
