import CaresLemmas.ChanPolicyShape
/-!
# Looking a query up after the state helpers ran
-/
namespace Cares.Chan

/-- the rewrite `removeFromConn` applies to the query -/
def unlinkQ (q : Query) : Query := { q with conn := none, inConnList := false, deadline := .none }

theorem query?_map {s : St} {g : Query → Query} (hg : ∀ q, (g q).key = q.key) (k : Nat) :
    ({ s with qs := s.qs.map g } : St).query? k = (s.query? k).map g :=
  find?_map_key hg k

theorem query?_modQuery (s : St) (k : Nat) (f : Query → Query) (hf : ∀ q, (f q).key = q.key) (k' : Nat) :
    (s.modQuery k f).query? k' = (s.query? k').map (fun q => if q.key == k then f q else q) := by
  unfold St.modQuery
  apply query?_map
  intro q
  by_cases h : q.key == k <;> simp [h, hf]

theorem query?_modQuery_self (s : St) (k : Nat) (f : Query → Query) (hf : ∀ q, (f q).key = q.key) :
    (s.modQuery k f).query? k = (s.query? k).map f := by
  rw [query?_modQuery s k f hf]
  cases h : s.query? k with
  | none => rfl
  | some q =>
    have := query?_key h
    simp [this]

theorem query?_modQuery_ne (s : St) (k : Nat) (f : Query → Query) (hf : ∀ q, (f q).key = q.key) {k' : Nat}
    (hne : k' ≠ k) : (s.modQuery k f).query? k' = s.query? k' := by
  rw [query?_modQuery s k f hf]
  cases h : s.query? k' with
  | none => rfl
  | some q =>
    have := query?_key h
    have h2 : q.key ≠ k := by rw [this]; exact hne
    simp [h2]

/-- `removeFromConn k` rewrites exactly the query `k` (if it exists) -/
theorem removeFromConn_qs (s : St) (k : Nat) :
    (s.removeFromConn k).qs = s.qs.map (fun x => if x.key == k then unlinkQ x else x) ∨
    (s.query? k = none ∧ (s.removeFromConn k).qs = s.qs) := by
  unfold St.removeFromConn
  split
  · rename_i h; exact Or.inr ⟨h, rfl⟩
  · left
    dsimp only
    split <;> rfl

theorem query?_removeFromConn (s : St) (k k' : Nat) :
    (s.removeFromConn k).query? k' = (s.query? k').map (fun q => if q.key == k then unlinkQ q else q) := by
  rcases removeFromConn_qs s k with h | ⟨hn, h⟩
  · unfold St.query?; rw [h]
    apply find?_map_key
    intro q; by_cases hq : q.key == k <;> simp [hq, unlinkQ]
  · unfold St.query?; rw [h]
    cases hq : s.qs.find? (·.key == k') with
    | none => rfl
    | some q =>
      have hk : q.key = k' := by have := List.find?_some hq; simpa using this
      by_cases hkk : q.key = k
      · have : k' = k := by rw [← hk]; exact hkk
        subst this
        unfold St.query? at hn; rw [hn] at hq; cases hq
      · simp [hkk]

theorem query?_removeFromConn_self (s : St) (k : Nat) :
    (s.removeFromConn k).query? k = (s.query? k).map unlinkQ := by
  rw [query?_removeFromConn]
  cases h : s.query? k with
  | none => rfl
  | some q => have := query?_key h; simp [this]

theorem query?_removeFromConn_ne (s : St) {k k' : Nat} (hne : k' ≠ k) :
    (s.removeFromConn k).query? k' = s.query? k' := by
  rw [query?_removeFromConn]
  cases h : s.query? k' with
  | none => rfl
  | some q =>
    have := query?_key h
    have h2 : q.key ≠ k := by rw [this]; exact hne
    simp [h2]

theorem removeFromConn_byTimeout (s : St) (k : Nat) :
    (s.removeFromConn k).byTimeout = s.byTimeout.erase k ∨
    (s.query? k = none ∧ (s.removeFromConn k).byTimeout = s.byTimeout) := by
  unfold St.removeFromConn
  split
  · rename_i h; exact Or.inr ⟨h, rfl⟩
  · left
    dsimp only
    split <;> rfl

theorem removeFromConn_pendingOrder (s : St) (k : Nat) :
    (s.removeFromConn k).pendingOrder = s.pendingOrder.erase k ∨
    (s.query? k = none ∧ (s.removeFromConn k).pendingOrder = s.pendingOrder) := by
  unfold St.removeFromConn
  split
  · rename_i h; exact Or.inr ⟨h, rfl⟩
  · left
    dsimp only
    split <;> rfl

end Cares.Chan
