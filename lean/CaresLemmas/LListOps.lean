import CaresLemmas.LListBasic
/-! Helper lemmas for the pointer-level `ares_llist` model, part 2: attach (head, tail, before) and detach on one
    well-formed list. -/
namespace Cares.Dsa.LHeap

/-- the node record a member at index `i` of the sequence `l` of list `L` must have -/
def lnk (l : List Nat) (L i : Nat) : LNode :=
  { prev := if i = 0 then none else l[i - 1]?, next := l[i + 1]?, parent := some L }

theorem Repr.link' {h : LHeap} {L : Nat} {l : List Nat} (r : Repr h L l) (i : Nat) (hi : i < l.length) :
    h.nodes l[i] = some (lnk l L i) := r.link i l[i] (List.getElem?_eq_getElem hi)

theorem idx_unique {l : List Nat} (hn : l.Nodup) (i j : Nat) (hi : i < l.length) (hj : j < l.length) (e : l[i] = l[j]) :
    i = j := (List.getElem_inj hn).mp e

theorem getLast?_eq_none_iff' (l : List Nat) : l.getLast? = none ↔ l = [] := List.getLast?_eq_none_iff

/-! ### attach at the head -/

theorem attachAt_head_eq (lp : Bool) (h : LHeap) (L : Nat) (l : List Nat) (a : Option Nat) (n : Nat) (nd0 : LNode)
    (r : Repr h L l) (hn : h.nodes n = some nd0) :
    attachAt lp h L .head a n =
      ((h.setNode n (some { prev := none, next := l.head?, parent := some L })).setPrev l.head? (some n)).setList L
        (some { head := some n, tail := if l.getLast? = none then some n else l.getLast?, cnt := l.length + 1 }) := by
  unfold attachAt
  rw [r.hdr, hn]
  simp

theorem attach_head_spec (lp : Bool) (h : LHeap) (L : Nat) (l : List Nat) (a : Option Nat) (n : Nat) (nd0 : LNode)
    (r : Repr h L l) (hn : h.nodes n = some nd0) (hnl : n ∉ l) :
    Repr (attachAt lp h L .head a n) L (n :: l) ∧
      (∀ L', L' ≠ L → (attachAt lp h L .head a n).lists L' = h.lists L') ∧
      (∀ y, y ≠ n → y ∉ l → (attachAt lp h L .head a n).nodes y = h.nodes y) := by
  rw [attachAt_head_eq lp h L l a n nd0 r hn]
  have hnodes : ∀ y, (((h.setNode n (some { prev := none, next := l.head?, parent := some L })).setPrev l.head? (some n)).setList L
        (some { head := some n, tail := if l.getLast? = none then some n else l.getLast?, cnt := l.length + 1 })).nodes y =
      if l.head? = some y then ((if y = n then some { prev := none, next := l.head?, parent := some L } else h.nodes y).map
        (fun nd => { nd with prev := some n })) else (if y = n then some { prev := none, next := l.head?, parent := some L } else h.nodes y) := by
    intro y
    rw [setList_nodes, setPrev_nodes]
    simp only [setNode_nodes]
  refine ⟨⟨?_, ?_, ?_⟩, ?_, ?_⟩
  · simp only [setList_lists, ↓reduceIte, List.head?_cons, List.length_cons]
    congr 2
    cases l with
    | nil => rfl
    | cons b t => simp [List.getLast?_cons_cons]
  · exact List.nodup_cons.2 ⟨hnl, r.nodup⟩
  · intro i x hx
    rw [hnodes]
    cases i with
    | zero =>
      simp only [List.getElem?_cons_zero, Option.some.injEq] at hx
      subst hx
      have : ¬ l.head? = some n := fun e => hnl (List.mem_of_mem_head? e)
      simp only [this, ↓reduceIte, List.getElem?_cons_succ, Nat.zero_add]
      rw [List.head?_eq_getElem?]
    | succ j =>
      simp only [List.getElem?_cons_succ] at hx
      have hj : j < l.length := by
        by_cases hh : j < l.length
        · exact hh
        · rw [List.getElem?_eq_none (by omega)] at hx; cases hx
      have hxe : x = l[j] := by rw [List.getElem?_eq_getElem hj] at hx; exact (Option.some.inj hx).symm
      subst hxe
      have hxn : l[j] ≠ n := fun e => hnl (e ▸ List.getElem_mem hj)
      have hold := r.link' j hj
      simp only [hxn, ↓reduceIte, hold]
      cases j with
      | zero =>
        have hh : l.head? = some l[0] := by rw [List.head?_eq_getElem?, List.getElem?_eq_getElem hj]
        simp only [hh, ↓reduceIte, Option.map_some, lnk, Nat.zero_add, Nat.add_one_ne_zero, Nat.add_sub_cancel,
          List.getElem?_cons_zero, List.getElem?_cons_succ, Nat.sub_self]
      | succ j' =>
        have h0 : 0 < l.length := by omega
        have hh : ¬ l.head? = some l[j' + 1] := by
          rw [List.head?_eq_getElem?, List.getElem?_eq_getElem h0]
          intro e
          have := idx_unique r.nodup 0 (j' + 1) h0 hj (Option.some.inj e)
          omega
        simp only [hh, ↓reduceIte, lnk, Nat.add_one_ne_zero, Nat.add_sub_cancel, List.getElem?_cons_succ]
  · intro L' hL; simp [hL]
  · intro y hy hyl
    rw [hnodes]
    have : ¬ l.head? = some y := fun e => hyl (List.mem_of_mem_head? e)
    simp [this, hy]

/-! ### attach at the tail -/

theorem attachAt_tail_eq (lp : Bool) (h : LHeap) (L : Nat) (l : List Nat) (a : Option Nat) (n : Nat) (nd0 : LNode)
    (r : Repr h L l) (hn : h.nodes n = some nd0) :
    attachAt lp h L .tail a n =
      ((h.setNode n (some { prev := l.getLast?, next := none, parent := some L })).setNext l.getLast? (some n)).setList L
        (some { head := if l.head? = none then some n else l.head?, tail := some n, cnt := l.length + 1 }) := by
  unfold attachAt
  rw [r.hdr, hn]
  simp

theorem attach_tail_spec (lp : Bool) (h : LHeap) (L : Nat) (l : List Nat) (a : Option Nat) (n : Nat) (nd0 : LNode)
    (r : Repr h L l) (hn : h.nodes n = some nd0) (hnl : n ∉ l) :
    Repr (attachAt lp h L .tail a n) L (l ++ [n]) ∧
      (∀ L', L' ≠ L → (attachAt lp h L .tail a n).lists L' = h.lists L') ∧
      (∀ y, y ≠ n → y ∉ l → (attachAt lp h L .tail a n).nodes y = h.nodes y) := by
  rw [attachAt_tail_eq lp h L l a n nd0 r hn]
  have hnodes : ∀ y, (((h.setNode n (some { prev := l.getLast?, next := none, parent := some L })).setNext l.getLast? (some n)).setList L
        (some { head := if l.head? = none then some n else l.head?, tail := some n, cnt := l.length + 1 })).nodes y =
      if l.getLast? = some y then ((if y = n then some { prev := l.getLast?, next := none, parent := some L } else h.nodes y).map
        (fun nd => { nd with next := some n })) else (if y = n then some { prev := l.getLast?, next := none, parent := some L } else h.nodes y) := by
    intro y
    rw [setList_nodes, setNext_nodes]
    simp only [setNode_nodes]
  refine ⟨⟨?_, ?_, ?_⟩, ?_, ?_⟩
  · simp only [setList_lists, ↓reduceIte, List.length_append, List.length_singleton]
    congr 2
    cases l with
    | nil => rfl
    | cons b t => simp
    · simp
  · rw [List.nodup_append]
    refine ⟨r.nodup, by simp, ?_⟩
    intro a ha b hb e
    rw [List.mem_singleton] at hb; subst hb; subst e; exact hnl ha
  · intro i x hx
    rw [hnodes]
    by_cases hi : i < l.length
    · rw [List.getElem?_append_left hi, List.getElem?_eq_getElem hi] at hx
      have hxe : x = l[i] := (Option.some.inj hx).symm
      subst hxe
      have hxn : l[i] ≠ n := fun e => hnl (e ▸ List.getElem_mem hi)
      have hold := r.link' i hi
      simp only [hxn, ↓reduceIte, hold]
      have hlast : l.getLast? = some l[l.length - 1] := by
        rw [List.getLast?_eq_getElem?, List.getElem?_eq_getElem (by omega)]
      by_cases hil : i = l.length - 1
      · have : l.getLast? = some l[i] := by rw [hlast]; congr 2; omega
        simp only [this, ↓reduceIte, Option.map_some, lnk]
        congr 2
        · split
          · rfl
          · rw [List.getElem?_append_left (by omega)]
        · rw [List.getElem?_append_right (by omega)]
          simp [show i + 1 - l.length = 0 by omega]
      · have : ¬ l.getLast? = some l[i] := by
          rw [hlast]; intro e
          have := idx_unique r.nodup (l.length - 1) i (by omega) hi (Option.some.inj e)
          omega
        simp only [this, ↓reduceIte, lnk]
        congr 2
        · split
          · rfl
          · rw [List.getElem?_append_left (by omega)]
        · rw [List.getElem?_append_left (by omega)]
    · have hil : i = l.length := by
        by_cases hh : i = l.length
        · exact hh
        · rw [List.getElem?_eq_none (by simp; omega)] at hx; cases hx
      subst hil
      rw [List.getElem?_append_right (Nat.le_refl _)] at hx
      simp only [Nat.sub_self, List.getElem?_cons_zero, Option.some.injEq] at hx
      subst hx
      have : ¬ l.getLast? = some n := fun e => hnl (List.mem_of_getLast? e)
      simp only [this, ↓reduceIte]
      congr 2
      · split
        · rename_i h0
          rw [List.getLast?_eq_none_iff]; exact List.eq_nil_of_length_eq_zero h0
        · rw [List.getLast?_eq_getElem?, List.getElem?_append_left (by omega)]
      · rw [List.getElem?_eq_none (by simp)]
  · intro L' hL; simp [hL]
  · intro y hy hyl
    rw [hnodes]
    have : ¬ l.getLast? = some y := fun e => hyl (List.mem_of_getLast? e)
    simp [this, hy]

end Cares.Dsa.LHeap
