import CaresLemmas.LListBasic
/-! Helper lemmas for the pointer-level `ares_llist` model, part 2: attach (head, tail, before) and detach on one
    well-formed list. -/
namespace Cares.Dsa.LHeap

/-- the node record a member at index `i` of the sequence `l` of list `L` must have -/
def lnk (l : List Nat) (L i : Nat) : LNode :=
  { prev := if i = 0 then none else l[i - 1]?, next := l[i + 1]?, parent := some L }

theorem Repr.link' {h : LHeap} {L : Nat} {l : List Nat} (r : Repr h L l) (i : Nat) (hi : i < l.length) :
    h.nodes l[i] = some (lnk l L i) := r.link i l[i] (List.getElem?_eq_getElem hi)

theorem idx_unique {l : List Nat} (hn : l.Nodup) (i j : Nat) (hi : i < l.length) (hj : j < l.length) (e : l[i] = l[j]) :
    i = j := (List.getElem_inj hn).mp e

theorem getLast?_eq_none_iff' (l : List Nat) : l.getLast? = none ↔ l = [] := List.getLast?_eq_none_iff

/-! ### attach at the head -/

theorem attachAt_head_eq (lp : Bool) (h : LHeap) (L : Nat) (l : List Nat) (a : Option Nat) (n : Nat) (nd0 : LNode)
    (r : Repr h L l) (hn : h.nodes n = some nd0) :
    attachAt lp h L .head a n =
      ((h.setNode n (some { prev := none, next := l.head?, parent := some L })).setPrev l.head? (some n)).setList L
        (some { head := some n, tail := if l.getLast? = none then some n else l.getLast?, cnt := l.length + 1 }) := by
  unfold attachAt
  rw [r.hdr, hn]
  simp

theorem attach_head_spec (lp : Bool) (h : LHeap) (L : Nat) (l : List Nat) (a : Option Nat) (n : Nat) (nd0 : LNode)
    (r : Repr h L l) (hn : h.nodes n = some nd0) (hnl : n ∉ l) :
    Repr (attachAt lp h L .head a n) L (n :: l) ∧
      (∀ L', L' ≠ L → (attachAt lp h L .head a n).lists L' = h.lists L') ∧
      (∀ y, y ≠ n → y ∉ l → (attachAt lp h L .head a n).nodes y = h.nodes y) := by
  rw [attachAt_head_eq lp h L l a n nd0 r hn]
  have hnodes : ∀ y, (((h.setNode n (some { prev := none, next := l.head?, parent := some L })).setPrev l.head? (some n)).setList L
        (some { head := some n, tail := if l.getLast? = none then some n else l.getLast?, cnt := l.length + 1 })).nodes y =
      if l.head? = some y then ((if y = n then some { prev := none, next := l.head?, parent := some L } else h.nodes y).map
        (fun nd => { nd with prev := some n })) else (if y = n then some { prev := none, next := l.head?, parent := some L } else h.nodes y) := by
    intro y
    rw [setList_nodes, setPrev_nodes]
    simp only [setNode_nodes]
  refine ⟨⟨?_, ?_, ?_⟩, ?_, ?_⟩
  · simp only [setList_lists, ↓reduceIte, List.head?_cons, List.length_cons]
    congr 2
    cases l with
    | nil => rfl
    | cons b t => simp [List.getLast?_cons_cons]
  · exact List.nodup_cons.2 ⟨hnl, r.nodup⟩
  · intro i x hx
    rw [hnodes]
    cases i with
    | zero =>
      simp only [List.getElem?_cons_zero, Option.some.injEq] at hx
      subst hx
      have : ¬ l.head? = some n := fun e => hnl (List.mem_of_mem_head? e)
      simp only [this, ↓reduceIte, List.getElem?_cons_succ, Nat.zero_add]
      rw [List.head?_eq_getElem?]
    | succ j =>
      simp only [List.getElem?_cons_succ] at hx
      have hj : j < l.length := by
        by_cases hh : j < l.length
        · exact hh
        · rw [List.getElem?_eq_none (by omega)] at hx; cases hx
      have hxe : x = l[j] := by rw [List.getElem?_eq_getElem hj] at hx; exact (Option.some.inj hx).symm
      subst hxe
      have hxn : l[j] ≠ n := fun e => hnl (e ▸ List.getElem_mem hj)
      have hold := r.link' j hj
      simp only [hxn, ↓reduceIte, hold]
      cases j with
      | zero =>
        have hh : l.head? = some l[0] := by rw [List.head?_eq_getElem?, List.getElem?_eq_getElem hj]
        simp only [hh, ↓reduceIte, Option.map_some, lnk, Nat.zero_add, Nat.add_one_ne_zero, Nat.add_sub_cancel,
          List.getElem?_cons_zero, List.getElem?_cons_succ, Nat.sub_self]
      | succ j' =>
        have h0 : 0 < l.length := by omega
        have hh : ¬ l.head? = some l[j' + 1] := by
          rw [List.head?_eq_getElem?, List.getElem?_eq_getElem h0]
          intro e
          have := idx_unique r.nodup 0 (j' + 1) h0 hj (Option.some.inj e)
          omega
        simp only [hh, ↓reduceIte, lnk, Nat.add_one_ne_zero, Nat.add_sub_cancel, List.getElem?_cons_succ]
  · intro L' hL; simp [hL]
  · intro y hy hyl
    rw [hnodes]
    have : ¬ l.head? = some y := fun e => hyl (List.mem_of_mem_head? e)
    simp [this, hy]

/-! ### attach at the tail -/

theorem attachAt_tail_eq (lp : Bool) (h : LHeap) (L : Nat) (l : List Nat) (a : Option Nat) (n : Nat) (nd0 : LNode)
    (r : Repr h L l) (hn : h.nodes n = some nd0) :
    attachAt lp h L .tail a n =
      ((h.setNode n (some { prev := l.getLast?, next := none, parent := some L })).setNext l.getLast? (some n)).setList L
        (some { head := if l.head? = none then some n else l.head?, tail := some n, cnt := l.length + 1 }) := by
  unfold attachAt
  rw [r.hdr, hn]
  simp

theorem attach_tail_spec (lp : Bool) (h : LHeap) (L : Nat) (l : List Nat) (a : Option Nat) (n : Nat) (nd0 : LNode)
    (r : Repr h L l) (hn : h.nodes n = some nd0) (hnl : n ∉ l) :
    Repr (attachAt lp h L .tail a n) L (l ++ [n]) ∧
      (∀ L', L' ≠ L → (attachAt lp h L .tail a n).lists L' = h.lists L') ∧
      (∀ y, y ≠ n → y ∉ l → (attachAt lp h L .tail a n).nodes y = h.nodes y) := by
  rw [attachAt_tail_eq lp h L l a n nd0 r hn]
  have hnodes : ∀ y, (((h.setNode n (some { prev := l.getLast?, next := none, parent := some L })).setNext l.getLast? (some n)).setList L
        (some { head := if l.head? = none then some n else l.head?, tail := some n, cnt := l.length + 1 })).nodes y =
      if l.getLast? = some y then ((if y = n then some { prev := l.getLast?, next := none, parent := some L } else h.nodes y).map
        (fun nd => { nd with next := some n })) else (if y = n then some { prev := l.getLast?, next := none, parent := some L } else h.nodes y) := by
    intro y
    rw [setList_nodes, setNext_nodes]
    simp only [setNode_nodes]
  refine ⟨⟨?_, ?_, ?_⟩, ?_, ?_⟩
  · simp only [setList_lists, ↓reduceIte, List.length_append, List.length_singleton]
    congr 2
    cases l with
    | nil => rfl
    | cons b t => simp
    · simp
  · rw [List.nodup_append]
    refine ⟨r.nodup, by simp, ?_⟩
    intro a ha b hb e
    rw [List.mem_singleton] at hb; subst hb; subst e; exact hnl ha
  · intro i x hx
    rw [hnodes]
    by_cases hi : i < l.length
    · rw [List.getElem?_append_left hi, List.getElem?_eq_getElem hi] at hx
      have hxe : x = l[i] := (Option.some.inj hx).symm
      subst hxe
      have hxn : l[i] ≠ n := fun e => hnl (e ▸ List.getElem_mem hi)
      have hold := r.link' i hi
      simp only [hxn, ↓reduceIte, hold]
      have hlast : l.getLast? = some l[l.length - 1] := by
        rw [List.getLast?_eq_getElem?, List.getElem?_eq_getElem (by omega)]
      by_cases hil : i = l.length - 1
      · have : l.getLast? = some l[i] := by rw [hlast]; congr 2; omega
        simp only [this, ↓reduceIte, Option.map_some, lnk]
        congr 2
        · split
          · rfl
          · rw [List.getElem?_append_left (by omega)]
        · rw [List.getElem?_append_right (by omega)]
          simp [show i + 1 - l.length = 0 by omega]
      · have : ¬ l.getLast? = some l[i] := by
          rw [hlast]; intro e
          have := idx_unique r.nodup (l.length - 1) i (by omega) hi (Option.some.inj e)
          omega
        simp only [this, ↓reduceIte, lnk]
        congr 2
        · split
          · rfl
          · rw [List.getElem?_append_left (by omega)]
        · rw [List.getElem?_append_left (by omega)]
    · have hil : i = l.length := by
        by_cases hh : i = l.length
        · exact hh
        · rw [List.getElem?_eq_none (by simp; omega)] at hx; cases hx
      subst hil
      rw [List.getElem?_append_right (Nat.le_refl _)] at hx
      simp only [Nat.sub_self, List.getElem?_cons_zero, Option.some.injEq] at hx
      subst hx
      have : ¬ l.getLast? = some n := fun e => hnl (List.mem_of_getLast? e)
      simp only [this, ↓reduceIte]
      congr 2
      · split
        · rename_i h0
          rw [List.getLast?_eq_none_iff]; exact List.eq_nil_of_length_eq_zero h0
        · rw [List.getLast?_eq_getElem?, List.getElem?_append_left (by omega)]
      · rw [List.getElem?_eq_none (by simp)]
  · intro L' hL; simp [hL]
  · intro y hy hyl
    rw [hnodes]
    have : ¬ l.getLast? = some y := fun e => hyl (List.mem_of_getLast? e)
    simp [this, hy]


/-! ### detach -/

theorem getElem?_eq_some_getElem_iff {l : List Nat} (hn : l.Nodup) (m k : Nat) (hm : m < l.length) :
    l[k]? = some l[m] ↔ k = m := by
  constructor
  · intro e
    have hk : k < l.length := by
      by_cases hh : k < l.length
      · exact hh
      · rw [List.getElem?_eq_none (by omega)] at e; cases e
    rw [List.getElem?_eq_getElem hk] at e
    exact idx_unique hn k m hk hm (Option.some.inj e)
  · intro e; subst e; exact List.getElem?_eq_getElem hm

theorem detach_eq (h : LHeap) (L : Nat) (l : List Nat) (j : Nat) (r : Repr h L l) (hj : j < l.length) :
    detach h l[j] =
      ((((h.setNext (lnk l L j).prev (lnk l L j).next).setPrev (lnk l L j).next (lnk l L j).prev).setNode l[j]
          (some { lnk l L j with parent := none })).setList L
        (some { head := if l.head? = some l[j] then (lnk l L j).next else l.head?,
                tail := if l.getLast? = some l[j] then (lnk l L j).prev else l.getLast?, cnt := l.length - 1 })) := by
  have hnode := r.link' j hj
  have hjp : ∀ (k : Nat), l[k]? = some l[j] ↔ k = j := fun k => getElem?_eq_some_getElem_iff r.nodup j k hj
  have hself : ((h.setNext (lnk l L j).prev (lnk l L j).next).setPrev (lnk l L j).next (lnk l L j).prev).nodes l[j] =
      some (lnk l L j) := by
    rw [setPrev_nodes, setNext_nodes]
    have h1 : ¬ (lnk l L j).next = some l[j] := by
      simp only [lnk]; intro e; have := (hjp (j + 1)).1 e; omega
    have h2 : ¬ (lnk l L j).prev = some l[j] := by
      simp only [lnk]; intro e
      split at e
      · cases e
      · have := (hjp (j - 1)).1 e; omega
    rw [if_neg h1, if_neg h2]; exact hnode
  unfold detach
  rw [hnode]
  simp only [lnk, Option.bind_some, r.hdr]
  simp only [lnk] at hself
  rw [hself]

theorem eraseIdx_head? (l : List Nat) (j : Nat) (hj : j < l.length) :
    (l.eraseIdx j).head? = if j = 0 then l[1]? else l[0]? := by
  rw [List.head?_eq_getElem?, List.getElem?_eraseIdx]
  by_cases h0 : j = 0
  · subst h0; simp
  · rw [if_pos (by omega), if_neg h0]

theorem eraseIdx_getLast? (l : List Nat) (j : Nat) (hj : j < l.length) :
    (l.eraseIdx j).getLast? = if j + 1 = l.length then (if j = 0 then none else l[j - 1]?) else l[l.length - 1]? := by
  rw [List.getLast?_eq_getElem?, List.getElem?_eraseIdx, List.length_eraseIdx, if_pos hj]
  by_cases hl : j + 1 = l.length
  · rw [if_pos hl]
    by_cases h0 : j = 0
    · rw [if_pos h0]
      have : l.length - 1 - 1 = 0 := by omega
      rw [this, if_neg (by omega)]
      exact List.getElem?_eq_none (by omega)
    · rw [if_neg h0, if_pos (by omega)]
      congr 1; omega
  · rw [if_neg hl, if_neg (by omega)]
    congr 1; omega

theorem detach_spec (h : LHeap) (L : Nat) (l : List Nat) (j : Nat) (r : Repr h L l) (hj : j < l.length) :
    Repr (detach h l[j]) L (l.eraseIdx j) ∧
      (∀ L', L' ≠ L → (detach h l[j]).lists L' = h.lists L') ∧
      (∀ y, y ∉ l → (detach h l[j]).nodes y = h.nodes y) ∧
      (detach h l[j]).nodes l[j] = some { lnk l L j with parent := none } := by
  rw [detach_eq h L l j r hj]
  have hjp : ∀ (m k : Nat) (hm : m < l.length), (l[k]? = some (l[m]'hm) ↔ k = m) :=
    fun m k hm => getElem?_eq_some_getElem_iff r.nodup m k hm
  -- every other node of the list after the operation, by its old index
  have hnodes : ∀ m (hm : m < l.length), m ≠ j →
      ((((h.setNext (lnk l L j).prev (lnk l L j).next).setPrev (lnk l L j).next (lnk l L j).prev).setNode l[j]
          (some { lnk l L j with parent := none })).setList L
        (some { head := if l.head? = some l[j] then (lnk l L j).next else l.head?,
                tail := if l.getLast? = some l[j] then (lnk l L j).prev else l.getLast?, cnt := l.length - 1 })).nodes l[m] =
      some { prev := if m = j + 1 then (lnk l L j).prev else (lnk l L m).prev,
             next := if m + 1 = j then (lnk l L j).next else (lnk l L m).next, parent := some L } := by
    intro m hm hmj
    have hne : l[m] ≠ l[j] := fun e => hmj (idx_unique r.nodup m j hm hj e)
    rw [setList_nodes, setNode_nodes, if_neg hne, setPrev_nodes, setNext_nodes, r.link' m hm]
    have c1 : (lnk l L j).next = some l[m] ↔ m = j + 1 := by
      simp only [lnk]; rw [hjp m (j + 1) hm]; omega
    have c2 : (lnk l L j).prev = some l[m] ↔ m + 1 = j := by
      simp only [lnk]
      split
      · rename_i h0; constructor
        · intro e; cases e
        · intro e; omega
      · rw [hjp m (j - 1) hm]; omega
    by_cases e1 : m = j + 1
    · have e2 : ¬ m + 1 = j := by omega
      rw [if_pos (c1.2 e1), if_neg (fun hh => e2 (c2.1 hh)), if_pos e1, if_neg e2]; rfl
    · rw [if_neg (fun hh => e1 (c1.1 hh)), if_neg e1]
      by_cases e2 : m + 1 = j
      · rw [if_pos (c2.2 e2), if_pos e2]; rfl
      · rw [if_neg (fun hh => e2 (c2.1 hh)), if_neg e2]; rfl
  have hlast : l.getLast? = l[l.length - 1]? := List.getLast?_eq_getElem?
  refine ⟨⟨?_, ?_, ?_⟩, ?_, ?_, ?_⟩
  · simp only [setList_lists, ↓reduceIte, List.length_eraseIdx, hj]
    rw [eraseIdx_head? l j hj, eraseIdx_getLast? l j hj]
    congr 2
    · rw [List.head?_eq_getElem?]
      by_cases h0 : j = 0
      · subst h0
        rw [if_pos (List.getElem?_eq_getElem hj), if_pos rfl]; rfl
      · have : ¬ l[0]? = some l[j] := by rw [hjp j 0 hj]; omega
        rw [if_neg this, if_neg h0]
    · rw [hlast]
      by_cases hl : j + 1 = l.length
      · have : l[l.length - 1]? = some l[j] := by rw [hjp j _ hj]; omega
        rw [if_pos this, if_pos hl]; rfl
      · have : ¬ l[l.length - 1]? = some l[j] := by rw [hjp j _ hj]; omega
        rw [if_neg this, if_neg hl]
  · exact r.nodup.sublist (List.eraseIdx_sublist _ _)
  · intro i x hx
    rw [List.getElem?_eraseIdx] at hx
    by_cases hij : i < j
    · rw [if_pos hij] at hx
      have hi : i < l.length := by omega
      rw [List.getElem?_eq_getElem hi] at hx
      have := (Option.some.inj hx); subst this
      rw [hnodes i hi (by omega), if_neg (by omega)]
      congr 2
      · simp only [lnk]
        by_cases h0 : i = 0
        · rw [if_pos h0, if_pos h0]
        · rw [if_neg h0, if_neg h0, List.getElem?_eraseIdx, if_pos (by omega)]
      · by_cases e2 : i + 1 = j
        · rw [if_pos e2]; simp only [lnk]
          rw [List.getElem?_eraseIdx, if_neg (by omega)]; congr 1; omega
        · rw [if_neg e2]; simp only [lnk]
          rw [List.getElem?_eraseIdx, if_pos (by omega)]
    · rw [if_neg hij] at hx
      have hi : i + 1 < l.length := by
        by_cases hh : i + 1 < l.length
        · exact hh
        · rw [List.getElem?_eq_none (by omega)] at hx; cases hx
      rw [List.getElem?_eq_getElem hi] at hx
      have := (Option.some.inj hx); subst this
      rw [hnodes (i + 1) hi (by omega)]
      congr 2
      · by_cases e1 : i + 1 = j + 1
        · rw [if_pos e1]; simp only [lnk]
          have hij' : i = j := by omega
          by_cases h0 : j = 0
          · rw [if_pos h0, if_pos (by omega)]
          · rw [if_neg h0, if_neg (by omega), List.getElem?_eraseIdx, if_pos (by omega)]
            congr 1; omega
        · rw [if_neg e1]; simp only [lnk]
          rw [if_neg (by omega), if_neg (by omega), List.getElem?_eraseIdx, if_neg (by omega)]
          congr 1; omega
      · rw [if_neg (by omega)]
        simp only [lnk]
        rw [List.getElem?_eraseIdx, if_neg (by omega)]
  · intro L' hL; simp [hL]
  · intro y hy
    have hne : y ≠ l[j] := fun e => hy (e ▸ List.getElem_mem hj)
    rw [setList_nodes, setNode_nodes, if_neg hne, setPrev_nodes, setNext_nodes]
    have c1 : ¬ (lnk l L j).next = some y := by
      simp only [lnk]; intro e; exact hy (List.mem_of_getElem? e)
    have c2 : ¬ (lnk l L j).prev = some y := by
      simp only [lnk]; intro e
      split at e
      · cases e
      · exact hy (List.mem_of_getElem? e)
    rw [if_neg c1, if_neg c2]
  · rw [setList_nodes, setNode_nodes, if_pos rfl]


/-! ### attach before a node that is not the head (repaired code: `linkPrev = true`) -/

theorem attachAt_before_eq (lp : Bool) (h : LHeap) (L : Nat) (l : List Nat) (j n : Nat) (nd0 : LNode)
    (r : Repr h L l) (hj : j < l.length) (hj0 : 0 < j) (hn : h.nodes n = some nd0) (hnl : n ∉ l) :
    attachAt lp h L .before (some l[j]) n =
      (let h' := (h.setNode n (some { prev := l[j - 1]?, next := some l[j], parent := some L })).setPrev (some l[j]) (some n)
       (if lp then h'.setNext l[j - 1]? (some n) else h')).setList L
        (some { head := l.head?, tail := l.getLast?, cnt := l.length + 1 }) := by
  have hhead : ¬ (some l[j] = l.head?) := by
    rw [List.head?_eq_getElem?]; intro e
    have := (getElem?_eq_some_getElem_iff r.nodup j 0 hj).1 e.symm
    omega
  have hh0 : l.head? ≠ none := by
    rw [List.head?_eq_getElem?, List.getElem?_eq_getElem (by omega)]; simp
  have hl0 : l.getLast? ≠ none := by
    rw [List.getLast?_eq_getElem?, List.getElem?_eq_getElem (by omega)]; simp
  have hne : l[j] ≠ n := fun e => hnl (e ▸ List.getElem_mem hj)
  unfold attachAt
  rw [r.hdr, hn]
  simp only [hhead, false_or, reduceCtorEq, and_false, ↓reduceIte, Option.bind_some, hne, r.link' j hj, lnk,
    show ¬ j = 0 by omega, hh0, hl0]

theorem insertIdx_nodup (l : List Nat) (j n : Nat) (hn : l.Nodup) (hnl : n ∉ l) (hj : j ≤ l.length) :
    (l.insertIdx j n).Nodup := by
  have hp : (l.insertIdx j n).Perm (n :: l) := List.perm_insertIdx n l hj
  exact hp.nodup_iff.2 (List.nodup_cons.2 ⟨hnl, hn⟩)

theorem attach_before_spec (h : LHeap) (L : Nat) (l : List Nat) (j n : Nat) (nd0 : LNode)
    (r : Repr h L l) (hj : j < l.length) (hj0 : 0 < j) (hn : h.nodes n = some nd0) (hnl : n ∉ l) :
    Repr (attachAt true h L .before (some l[j]) n) L (l.insertIdx j n) ∧
      (∀ L', L' ≠ L → (attachAt true h L .before (some l[j]) n).lists L' = h.lists L') ∧
      (∀ y, y ≠ n → y ∉ l → (attachAt true h L .before (some l[j]) n).nodes y = h.nodes y) := by
  rw [attachAt_before_eq true h L l j n nd0 r hj hj0 hn hnl]
  simp only [↓reduceIte]
  have hjp : ∀ (m k : Nat) (hm : m < l.length), (l[k]? = some (l[m]'hm) ↔ k = m) :=
    fun m k hm => getElem?_eq_some_getElem_iff r.nodup m k hm
  have hnodes : ∀ m (hm : m < l.length),
      ((((h.setNode n (some { prev := l[j - 1]?, next := some l[j], parent := some L })).setPrev (some l[j]) (some n)).setNext
          l[j - 1]? (some n)).setList L (some { head := l.head?, tail := l.getLast?, cnt := l.length + 1 })).nodes l[m] =
      some { prev := if m = j then some n else (lnk l L m).prev,
             next := if m + 1 = j then some n else (lnk l L m).next, parent := some L } := by
    intro m hm
    have hne : l[m] ≠ n := fun e => hnl (e ▸ List.getElem_mem hm)
    rw [setList_nodes, setNext_nodes, setPrev_nodes, setNode_nodes, if_neg hne, r.link' m hm]
    have c1 : (some l[j] = some l[m]) ↔ m = j := by
      constructor
      · intro e; exact idx_unique r.nodup m j hm hj (Option.some.inj e).symm
      · intro e; subst e; rfl
    have c2 : l[j - 1]? = some l[m] ↔ m + 1 = j := by rw [hjp m (j - 1) hm]; omega
    by_cases e1 : m = j
    · have e2 : ¬ m + 1 = j := by omega
      rw [if_neg (fun hh => e2 (c2.1 hh)), if_pos (c1.2 e1), if_pos e1, if_neg e2]; rfl
    · rw [if_neg (fun hh => e1 (c1.1 hh)), if_neg e1]
      by_cases e2 : m + 1 = j
      · rw [if_pos (c2.2 e2), if_pos e2]; rfl
      · rw [if_neg (fun hh => e2 (c2.1 hh)), if_neg e2]; rfl
  have hnode_n : ((((h.setNode n (some { prev := l[j - 1]?, next := some l[j], parent := some L })).setPrev (some l[j]) (some n)).setNext
          l[j - 1]? (some n)).setList L (some { head := l.head?, tail := l.getLast?, cnt := l.length + 1 })).nodes n =
      some { prev := l[j - 1]?, next := some l[j], parent := some L } := by
    rw [setList_nodes, setNext_nodes, setPrev_nodes, setNode_nodes, if_pos rfl]
    have c1 : ¬ l[j - 1]? = some n := fun e => hnl (List.mem_of_getElem? e)
    have c2 : ¬ (some l[j] = some n) := fun e => hnl ((Option.some.inj e) ▸ List.getElem_mem hj)
    rw [if_neg c1, if_neg c2]
  refine ⟨⟨?_, ?_, ?_⟩, ?_, ?_⟩
  · simp only [setList_lists, ↓reduceIte]
    congr 2
    · rw [List.head?_eq_getElem?, List.head?_eq_getElem?, List.getElem?_insertIdx, if_pos hj0]
    · have hlen : (l.insertIdx j n).length = l.length + 1 := by rw [List.length_insertIdx, if_pos (by omega)]
      rw [List.getLast?_eq_getElem?, List.getLast?_eq_getElem?, hlen, List.getElem?_insertIdx,
        if_neg (by omega), if_neg (by omega)]
      congr 1
    · rw [List.length_insertIdx, if_pos (by omega)]
  · exact insertIdx_nodup l j n r.nodup hnl (by omega)
  · intro i x hx
    rw [List.getElem?_insertIdx] at hx
    by_cases hij : i < j
    · rw [if_pos hij] at hx
      have hi : i < l.length := by omega
      rw [List.getElem?_eq_getElem hi] at hx
      have := (Option.some.inj hx); subst this
      rw [hnodes i hi, if_neg (by omega)]
      congr 2
      · simp only [lnk]
        by_cases h0 : i = 0
        · rw [if_pos h0, if_pos h0]
        · rw [if_neg h0, if_neg h0, List.getElem?_insertIdx, if_pos (by omega)]
      · by_cases e2 : i + 1 = j
        · rw [if_pos e2, List.getElem?_insertIdx, if_neg (by omega), if_pos e2, if_pos (by omega)]
        · rw [if_neg e2]; simp only [lnk]
          rw [List.getElem?_insertIdx, if_pos (by omega)]
    · rw [if_neg hij] at hx
      by_cases hie : i = j
      · rw [if_pos hie, if_pos (by omega)] at hx
        have := (Option.some.inj hx); subst this
        subst hie
        rw [hnode_n]
        congr 2
        · rw [if_neg (by omega), List.getElem?_insertIdx, if_pos (by omega)]
        · rw [List.getElem?_insertIdx, if_neg (by omega), if_neg (by omega)]
          simp only [Nat.add_sub_cancel]
          exact (List.getElem?_eq_getElem hj).symm
      · rw [if_neg hie] at hx
        have hi : i - 1 < l.length := by
          by_cases hh : i - 1 < l.length
          · exact hh
          · rw [List.getElem?_eq_none (by omega)] at hx; cases hx
        rw [List.getElem?_eq_getElem hi] at hx
        have := (Option.some.inj hx); subst this
        rw [hnodes (i - 1) hi]
        congr 2
        · have hi0 : ¬ i = 0 := by omega
          by_cases e1 : i - 1 = j
          · rw [if_pos e1, if_neg hi0, List.getElem?_insertIdx, if_neg (by omega), if_pos e1, if_pos (by omega)]
          · rw [if_neg e1, if_neg hi0]; simp only [lnk]
            rw [if_neg (by omega), List.getElem?_insertIdx, if_neg (by omega), if_neg e1]
        · rw [if_neg (by omega)]
          simp only [lnk]
          rw [List.getElem?_insertIdx, if_neg (by omega), if_neg (by omega)]
          congr 1; omega
  · intro L' hL; simp [hL]
  · intro y hy hyl
    rw [setList_nodes, setNext_nodes, setPrev_nodes, setNode_nodes, if_neg hy]
    have c1 : ¬ l[j - 1]? = some y := fun e => hyl (List.mem_of_getElem? e)
    have c2 : ¬ (some l[j] = some y) := fun e => hyl ((Option.some.inj e) ▸ List.getElem_mem hj)
    rw [if_neg c1, if_neg c2]

end Cares.Dsa.LHeap
