import CaresLemmas.ChanPolicyFrame
/-!
# `exec` keeps the frame (configuration, clock, server identities)
-/
namespace Cares.Chan
set_option linter.unusedVariables false

section
variable {c0 : Cfg} {n0 : Nat} {ids0 : List Nat}

chan_invariant frame : (Frame c0 n0 ids0) oofBy (fun _ h => h)
  leafBy (repeat' (first
                  | frame_step hgo
                  | with_reducible apply sqChoose_frame hgo
                  | with_reducible apply sqOpen_frame hgo
                  | with_reducible apply sqPrep_frame hgo
                  | with_reducible apply sqWrite_frame hgo
                  | with_reducible apply sqDeadline_frame hgo
                  | with_reducible apply sqCommit_frame hgo
                  | with_reducible apply sqAfter_frame hgo
                  | (with_reducible apply foldl_inv; intro _ _ _)))
  exceptBodies

end
end Cares.Chan
