/-!
# Keyed lookup in a list, and how list updates change it (helper for the TCP read alignment invariant, C20)

`kfind key view l fd`: the view of the first element of `l` whose key is `fd` — the shape of `St.conn?` / `St.sock?`.
-/
namespace Cares.Chan

/-- view of the first element with key `fd` -/
def kfind {α β : Type} (key : α → Nat) (view : α → β) (l : List α) (fd : Nat) : Option β :=
  (l.find? (fun x => key x == fd)).map view

section
variable {α β : Type} (key : α → Nat) (view : α → β)

theorem kfind_cons (a : α) (l : List α) (fd : Nat) :
    kfind key view (a :: l) fd = if key a = fd then some (view a) else kfind key view l fd := by
  unfold kfind
  by_cases h : key a = fd
  · simp [h]
  · simp [h]

/-- every element with key `fd` is replaced by `f` of it, where `f` keeps the key and acts as `g` on the view of the
    first such element's … of all of them -/
theorem kfind_map_upd (fd : Nat) (f : α → α) (g : β → β) (hk : ∀ a, key a = fd → key (f a) = fd)
    (hv : ∀ a, key a = fd → view (f a) = g (view a)) : ∀ l : List α,
    kfind key view (l.map fun x => if key x == fd then f x else x) =
      fun fd' => if fd' = fd then (kfind key view l fd').map g else kfind key view l fd'
  | [] => by funext fd'; simp [kfind]
  | a :: l => by
    funext fd'
    have ih := congrFun (kfind_map_upd fd f g hk hv l) fd'
    simp only [List.map_cons, kfind_cons]
    by_cases ha : key a = fd
    · have ha' : (key a == fd) = true := by simpa using ha
      simp only [ha', ↓reduceIte, hk a ha, hv a ha]
      by_cases hfd : fd' = fd
      · subst hfd; simp [ha]
      · have : ¬ fd = fd' := fun h => hfd h.symm
        have h2 : ¬ key a = fd' := by rw [ha]; exact this
        simp only [this, h2, ↓reduceIte, hfd] at ih ⊢
        rw [ih]
    · have ha' : (key a == fd) = false := by simpa using ha
      simp only [ha', Bool.false_eq_true, ↓reduceIte]
      by_cases hfd : fd' = fd
      · subst hfd
        simp only [ha, ↓reduceIte] at ih ⊢
        rw [ih]
      · simp only [hfd, ↓reduceIte] at ih ⊢
        rw [ih]

/-- … the same without assuming that `f` acts uniformly on views: the new view at `fd` is that of `f` of the first
    element with key `fd` -/
theorem kfind_map_at (fd : Nat) (f : α → α) (hk : ∀ a, key a = fd → key (f a) = fd) : ∀ l : List α,
    kfind key view (l.map fun x => if key x == fd then f x else x) =
      fun fd' => if fd' = fd then (l.find? (fun x => key x == fd)).map (fun a => view (f a))
        else kfind key view l fd'
  | [] => by funext fd'; simp [kfind]
  | a :: l => by
    funext fd'
    have ih := congrFun (kfind_map_at fd f hk l) fd'
    simp only [List.map_cons, kfind_cons, List.find?_cons]
    by_cases ha : key a = fd
    · have ha' : (key a == fd) = true := by simpa using ha
      simp only [ha', ↓reduceIte, hk a ha]
      by_cases hfd : fd' = fd
      · subst hfd; simp
      · have : ¬ fd = fd' := fun h => hfd h.symm
        have h2 : ¬ key a = fd' := by rw [ha]; exact this
        simp only [this, h2, ↓reduceIte, hfd] at ih ⊢
        rw [ih]
    · have ha' : (key a == fd) = false := by simpa using ha
      simp only [ha', Bool.false_eq_true, ↓reduceIte]
      by_cases hfd : fd' = fd
      · subst hfd
        simp only [ha, ↓reduceIte] at ih ⊢
        rw [ih]
      · simp only [hfd, ↓reduceIte] at ih ⊢
        rw [ih]

theorem kfind_filter_ne (fd : Nat) : ∀ l : List α,
    kfind key view (l.filter fun x => key x != fd) = fun fd' => if fd' = fd then none else kfind key view l fd'
  | [] => by funext fd'; simp [kfind]
  | a :: l => by
    funext fd'
    have ih := congrFun (kfind_filter_ne fd l) fd'
    by_cases ha : key a = fd
    · have ha' : (key a != fd) = false := by simp [ha]
      simp only [List.filter_cons, ha', Bool.false_eq_true, ↓reduceIte, kfind_cons]
      rw [ih]
      by_cases hfd : fd' = fd
      · simp [hfd]
      · have : ¬ key a = fd' := by rw [ha]; exact fun h => hfd h.symm
        simp [hfd, this]
    · have ha' : (key a != fd) = true := by simp [ha]
      simp only [List.filter_cons, ha', ↓reduceIte, kfind_cons]
      rw [ih]
      by_cases hfd : fd' = fd
      · subst hfd; simp [ha]
      · simp [hfd]

theorem kfind_append_one (a : α) : ∀ l : List α, kfind key view l (key a) = none →
    kfind key view (l ++ [a]) = fun fd' => if fd' = key a then some (view a) else kfind key view l fd'
  | [], _ => by
    funext fd'
    simp only [List.nil_append, kfind_cons]
    by_cases h : key a = fd'
    · simp [h]
    · have : ¬ fd' = key a := fun h' => h h'.symm
      simp [h, this, kfind]
  | b :: l, hn => by
    funext fd'
    rw [kfind_cons] at hn
    have hb : ¬ key b = key a := by
      intro h; simp [h] at hn
    simp only [hb, ↓reduceIte] at hn
    have ih := congrFun (kfind_append_one a l hn) fd'
    simp only [List.cons_append, kfind_cons]
    rw [ih]
    by_cases h : key b = fd'
    · have : ¬ fd' = key a := by rw [← h]; exact hb
      simp [h, this]
    · simp [h]

/-- lists with the same keys and views have the same lookup function -/
theorem kfind_congr {l l' : List α} (h : l'.map (fun a => (key a, view a)) = l.map (fun a => (key a, view a))) :
    kfind key view l' = kfind key view l := by
  funext fd
  induction l generalizing l' with
  | nil =>
    cases l' with
    | nil => rfl
    | cons _ _ => simp at h
  | cons a l ih =>
    cases l' with
    | nil => simp at h
    | cons a' l' =>
      simp only [List.map_cons, List.cons.injEq, Prod.mk.injEq] at h
      obtain ⟨⟨hk, hv⟩, ht⟩ := h
      simp only [kfind_cons, hk, hv, ih ht]

end

end Cares.Chan
