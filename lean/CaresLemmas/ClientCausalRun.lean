import CaresLemmas.ClientCausalExec
import CaresLemmas.ClientExecRun
import CaresLemmas.ChanWfDestroy
/-!
# Causality of channel runs

`RunI s t L`: a run `RunC s t L` (completed top-level calls and environment steps) all of whose states satisfy the
C01 invariant (`Wf ∧ DebtOk none 0`, i.e. `C01.Inv`) and whose top-level calls satisfy their C01 precondition
(`Pre 0`, i.e. `C01.CallOk` — what the driver establishes with `callOk_loop` / `callOk_accept`), or are
`ares_destroy` called between API calls.  An environment step must also keep the number of linked sub-requests of
every compound request (`Sk.subs`; true for everything the driver does between calls: `settle`, accepting a token,
time, replies, socket scripts — `RunI.env_sk`, `RunI.settle`, `RunI.accept`).

`RunI.causal`: the log of such a run is causal for every compound request created during the run.
-/
namespace Cares.Chan

variable {cid : Nat}

/-! ### `ares_destroy` (not covered by `Pre`) -/

theorem cz_closeAll {goC : GoC} (h : GoCz cid goC) {d} : ∀ (fds : List Nat) (s : St) (L : CLog), fds.Nodup → Wf s →
    DebtOk none d s.sk → s.sk.idx = [] → (∀ fd ∈ fds, s.sk.hasConn fd false) → LG cid L 0 s →
    (closeAllC goC fds s).1.outOfFuel = true ∨ LG cid (L ++ (closeAllC goC fds s).2) 0 (closeAllC goC fds s).1
  | [], s, L, _, _, _, _, _, hL => Or.inr (by simpa only [closeAllC, List.append_nil] using hL)
  | fd :: rest, s, L, hn, hw, hd, hi, hl, hL => by
    have hn' := List.nodup_cons.mp hn
    simp only [closeAllC, ← List.append_assoc]
    rcases h.call (d := d) (c := .closeConn fd .ok) (s := s) ⟨hw, hl fd List.mem_cons_self, hd⟩ hL with hoof | ⟨hg, hL1⟩
    · left
      have := closeAllC_fst goC rest (goC (.closeConn fd .ok) s).1.1
      rw [this]
      exact oof_foldl_close h.1 rest _ hoof
    · obtain ⟨hc1, hi1⟩ := hg.post hi
      generalize goC (.closeConn fd .ok) s = r1 at hg hc1 hi1 hL1 ⊢
      obtain ⟨⟨s1, ret1⟩, l1⟩ := r1
      simp only at hc1 hi1 hL1 ⊢
      have hl1 : ∀ fd' ∈ rest, s1.sk.hasConn fd' false := by
        intro fd' hfd'
        obtain ⟨q, hq⟩ := hl fd' (List.mem_cons_of_mem _ hfd')
        refine ⟨q, ?_⟩
        rw [hc1]
        refine List.mem_filter.mpr ⟨hq, ?_⟩
        simp only [bne_iff_ne, ne_eq]
        exact fun he => hn'.1 (he ▸ hfd')
      exact cz_closeAll h rest s1 (L ++ l1) hn'.2 hg.wf hg.debt hi1 hl1 hL1

/-- `ares_destroy`, called between API calls (no walk in progress), keeps the log invariant -/
theorem cz_destroy {goC : GoC} (h : GoCz cid goC) {d} {s : St} {L : CLog} (hw : Wf s) (hd : DebtOk none d s.sk)
    (hlc : s.listCopy = []) (hL : LG cid L 0 s) : LGO cid L (bodyDestroyC goC s) := by
  unfold bodyDestroyC
  simp only
  have hm1 : Mid d s { s with destroying := true } := Mid.of_sk_eq hw hd rfl
  rcases h.call (d := d) (c := .cancelLoop .destruction true) (s := { s with destroying := true })
    ⟨hm1.wf, hm1.debt⟩ (hL.sk_eq rfl) with hoof | ⟨hg, hL2⟩
  · left
    show (closeAllC goC _ _).1.outOfFuel = true
    rw [closeAllC_fst]
    exact oof_foldl_close h.1 _ _ hoof
  generalize goC (.cancelLoop .destruction true) { s with destroying := true } = r2 at hg hL2 ⊢
  obtain ⟨⟨s2, ret2⟩, l2⟩ := r2
  simp only at hg hL2 ⊢
  have hw2 : Wf s2 := hg.wf
  -- after the walk nothing is linked
  have hall2 : s2.all = [] := by
    have : cancelHead s2 true = none := hg.post
    unfold cancelHead at this
    simp only [↓reduceIte] at this
    cases hs : s2.all with
    | nil => rfl
    | cons x r => rw [hs] at this; cases this
  have hlc2 : s2.listCopy = [] := by
    have := hg.step.prog.lcRel
    change LcSub s2.listCopy s.listCopy at this
    rw [hlc] at this
    exact List.length_eq_zero_iff.mp this.length
  have hidx2 : s2.sk.idx = [] := by
    cases hi : s2.sk.idx with
    | nil => rfl
    | cons k r =>
      exfalso
      have hk : k ∈ s2.sk.idx := by rw [hi]; exact List.mem_cons_self
      rcases hw2.i.nl k hk with h' | ⟨l, hl, _⟩
      · change k ∈ s2.all at h'; rw [hall2] at h'; cases h'
      · change l ∈ s2.listCopy at hl; rw [hlc2] at hl; cases hl
  rcases cz_closeAll h s2.listedFds s2 (L ++ l2) (nodup_listedFds hw2) hw2 hg.debt hidx2
    (fun fd hfd => listedFds_linked hw2 hfd) hL2 with hoof | hL3
  · exact Or.inl hoof
  · refine Or.inr ?_
    rw [← List.append_assoc]
    exact hL3.congr rfl rfl

theorem execC_destroy_lg (fuel : Nat) {s : St} {L : CLog} (hw : Wf s) (hd : DebtOk none (fun _ => 0) s.sk)
    (hlc : s.listCopy = []) (hL : LG cid L 0 s) (hf : (exec fuel .destroy s).1.outOfFuel = false) :
    LG cid (L ++ (execC fuel .destroy s).2) 0 (exec fuel .destroy s).1 := by
  cases fuel with
  | zero => exact absurd hf (by show ¬ (true = false); simp)
  | succ n =>
    have he : execC (n + 1) .destroy s = bodyDestroyC (execC n) s := rfl
    have he' : exec (n + 1) .destroy s = (bodyDestroyC (execC n) s).1 := by rw [← he, execC_fst]
    rw [he, he']
    rw [he'] at hf
    rcases cz_destroy (goCz_execC n) hw hd hlc hL with hoof | hg
    · rw [hf] at hoof; cases hoof
    · exact hg

/-! ### runs -/

/-- a run under the C01 discipline: the first state satisfies the invariant (`C01.Inv`), every top-level call
    satisfies its precondition (`C01.CallOk`) or is `ares_destroy` between API calls, every environment step
    re-establishes the invariant and keeps the number of linked sub-requests of every compound request -/
inductive RunI : St → St → CLog → Prop
  | nil (s : St) : (Wf s ∧ DebtOk none (fun _ => 0) s.sk) → RunI s s []
  | env {s t t' : St} {L : CLog} : RunI s t L → t'.clients = t.clients → t'.nextClient = t.nextClient →
      t'.cfg = t.cfg → t'.accepted = t.accepted → t'.cache = t.cache →
      (Wf t' ∧ DebtOk none (fun _ => 0) t'.sk) → (∀ id, t'.sk.subs id = t.sk.subs id) → RunI s t' L
  | call {s t : St} {L : CLog} (fuel : Nat) (call : Call) : RunI s t L → call.topC → Pre (fun _ => 0) t call →
      (exec fuel call t).1.outOfFuel = false → RunI s (exec fuel call t).1 (L ++ (execC fuel call t).2)
  | destroy {s t : St} {L : CLog} (fuel : Nat) : RunI s t L → t.listCopy = [] →
      (exec fuel .destroy t).1.outOfFuel = false → RunI s (exec fuel .destroy t).1 (L ++ (execC fuel .destroy t).2)

theorem destroy_topC : Call.topC .destroy := ⟨fun _ _ h => (by cases h), rfl⟩

/-- the underlying run -/
theorem RunI.run {s t : St} {L : CLog} (hr : RunI s t L) : RunC s t L := by
  induction hr with
  | nil _ => exact RunC.nil _
  | env _ h1 h2 h3 h4 h5 _ _ ih => exact ih.env h1 h2 h3 h4 h5
  | call fuel call _ htop _ hf ih => exact ih.call fuel call htop hf
  | destroy fuel _ _ hf ih => exact ih.call fuel .destroy destroy_topC hf

/-- the invariant holds in the first state -/
theorem RunI.inv0 {s t : St} {L : CLog} (hr : RunI s t L) : Wf s ∧ DebtOk none (fun _ => 0) s.sk := by
  induction hr with
  | nil h => exact h
  | env _ _ _ _ _ _ _ _ ih => exact ih
  | call _ _ _ _ _ _ ih => exact ih
  | destroy _ _ _ _ ih => exact ih

/-- the invariant holds in the last state -/
theorem RunI.inv {s t : St} {L : CLog} (hr : RunI s t L) : Wf t ∧ DebtOk none (fun _ => 0) t.sk := by
  induction hr with
  | nil h => exact h
  | env _ _ _ _ _ _ h _ _ => exact h
  | call fuel call _ _ hp hf _ =>
    rcases (goOk_exec fuel).2 _ call _ hp with hoof | hg
    · rw [hf] at hoof; cases hoof
    · exact ⟨hg.wf, hg.debt⟩
  | destroy fuel _ hl hf ih =>
    cases fuel with
    | zero => exact absurd hf (by show ¬ (true = false); simp)
    | succ n =>
      have he : ∀ t, exec (n + 1) .destroy t = bodyDestroy (exec n) t := fun _ => rfl
      rw [he] at hf ⊢
      rcases good_destroy (goOk_exec n) ih.1 ih.2 hl with hoof | ⟨hm, _⟩
      · rw [hf] at hoof; cases hoof
      · exact ⟨hm.wf, hm.debt⟩

/-- a top-level call cannot be the hand-over of a sub-request of a compound request that has no such hand-over
    pending: with the invariant of the state, the precondition of `sendNolock … (.client id)` / `callback (.client id)`
    is contradictory -/
theorem xtra_top {t : St} {call : Call} (hi : DebtOk none (fun _ => 0) t.sk) (hp : Pre (fun _ => 0) t call) :
    xtra cid call = 0 := by
  have key : ∀ (o : Owner), t.sk.OwnerFree o → t.sk.DebtFor (fun _ => 0) o → ownerX cid o = 0 := by
    intro o hof hdf
    cases o with
    | probe => rfl
    | user _ => rfl
    | client id =>
      exfalso
      obtain ⟨c, hc, hid, hpend⟩ := hof
      have h1 := hi.cnt c hc hpend (fun hh => by cases hh)
      have h2 := (show DebtOk none (bump (fun _ => 0) id 1) t.sk from hdf).cnt c hc hpend (fun hh => by cases hh)
      rw [hid, bump_self] at h2
      rw [hid] at h1
      omega
  cases call <;> first
    | rfl
    | exact key _ hp.2.1 hp.2.2

/-- **the log invariant along a run**, for every compound request created during the run -/
theorem RunI.lg {s t : St} {L : CLog} (hr : RunI s t L) (hnew : s.nextClient ≤ cid) : LG cid L 0 t := by
  induction hr with
  | nil h =>
    refine ⟨rfl, ?_⟩
    have := subsP_eq_zero.mpr (noSub_fresh h.1 hnew)
    unfold Sk.subs
    rw [this]; rfl
  | env _ _ _ _ _ _ _ hs ih => exact ih.subs_eq (hs cid)
  | call fuel call hr' _ hp hf ih =>
    have hL := ih
    rw [← xtra_top (cid := cid) hr'.inv.2 hp] at hL
    exact execC_lg fuel hp hL hf
  | destroy fuel hr' hl hf ih => exact execC_destroy_lg fuel hr'.inv.1 hr'.inv.2 hl ih hf

/-- **Causality of channel runs.**  In a run from a state satisfying the C01 invariant whose top-level calls satisfy
    their C01 preconditions, every completion delivered to a compound request created during the run comes while
    strictly more sub-requests have been started for it than completions delivered. -/
theorem RunI.causal {s t : St} {L : CLog} (hr : RunI s t L) : ∀ cid, s.nextClient ≤ cid → Causal cid L :=
  fun _ hnew => (hr.lg hnew).causal

/-! ### the environment steps of the driver -/

/-- anything that keeps the skeleton (time, replies, socket scripts, …) -/
theorem RunI.env_sk {s t t' : St} {L : CLog} (hr : RunI s t L) (h1 : t'.clients = t.clients)
    (h3 : t'.cfg = t.cfg) (h4 : t'.accepted = t.accepted) (h5 : t'.cache = t.cache) (hsk : t'.sk = t.sk) :
    RunI s t' L :=
  hr.env h1 (by have := congrArg Sk.nextClient hsk; exact this) h3 h4 h5
    ⟨Wf.of_sk_eq hsk hr.inv.1, by rw [hsk]; exact hr.inv.2⟩ (fun id => by rw [hsk])

theorem subs_settle (s : St) (id : Nat) (hw : Wf s) : s.settle.sk.subs id = s.sk.subs id := by
  rw [settle_eq]
  obtain ⟨bt', e, _, _⟩ := settle_fold s s.pendingOrder s s.byTimeout rfl hw.t.btNodup (fun x hx => Or.inl hx)
    hw.t.poNodup (fun k hk => (hw.t.poOk k hk).2.2) (fun _ hk => hk)
  have hsk : ({ s.pendingOrder.foldl settleStep s with pendingOrder := [] } : St).sk =
      { s.sk with byTimeout := bt', pendingOrder := [] } := by
    have : ∀ (X : St), ({ X with pendingOrder := [] } : St).sk = { X.sk with pendingOrder := [] } := fun _ => rfl
    rw [this, e]
  rw [hsk]
  rfl

/-- the driver's `settle` at the end of an API call -/
theorem RunI.settle {s t : St} {L : CLog} (hr : RunI s t L) : RunI s t.settle L := by
  have h := settle_frame t
  simp only [envView, Prod.mk.injEq] at h
  exact hr.env h.1 h.2.1 h.2.2.1 h.2.2.2.1 h.2.2.2.2 ⟨wf_settle hr.inv.1, debt_settle hr.inv.1 hr.inv.2⟩
    (fun id => subs_settle t id hr.inv.1)

end Cares.Chan
