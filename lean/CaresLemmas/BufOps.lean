import CaresModel.BufSpec
import CaresLemmas.Buf
/-! Helper lemmas for the `ares_buf` model, part 2: one operation against the byte-queue reference. -/
namespace Cares
open Cares.Dsa Cares.Buf

namespace BufRel

theorem dataLen_eq {b : Buf} {q : QRef} {base : Nat} (r : BufRel b q base) : b.dataLen + base = q.stream.length := by
  have h1 := live_length b r.inv
  rw [r.live, List.length_drop] at h1
  have := r.baseLe
  omega

theorem pos_le {b : Buf} {q : QRef} {base : Nat} (r : BufRel b q base) : q.pos ≤ q.stream.length := by
  have := r.dataLen_eq; have := r.off; have := r.inv.offLe; omega

theorem len_eq {b : Buf} {q : QRef} {base : Nat} (r : BufRel b q base) : b.len = q.stream.length - q.pos := by
  unfold Buf.len; have := r.dataLen_eq; have := r.off; omega

theorem remaining_eq {b : Buf} {q : QRef} {base : Nat} (r : BufRel b q base) : b.remaining = q.stream.drop q.pos := by
  rw [Buf.remaining_eq, r.live, List.drop_drop, ← r.off, Nat.add_comm]

theorem hasData_eq {b : Buf} {q : QRef} {base : Nat} (r : BufRel b q base) : b.hasData = q.allocated := by
  unfold Buf.hasData; rw [r.alloc, r.dyn]; rfl

theorem hasData_of_len {b : Buf} {q : QRef} {base : Nat} (r : BufRel b q base) (h : b.len ≠ 0) : b.hasData = true := by
  unfold Buf.hasData; rw [r.dyn]
  have := r.inv.dlen
  unfold Buf.len at h
  cases hm : b.mem with
  | nil => rw [hm] at this; simp at this; omega
  | cons _ _ => rfl

end BufRel

theorem fetch_eq (b : Buf) (q : QRef) (base : Nat) (r : BufRel b q base) :
    b.fetch = if q.stream.length - q.pos = 0 then none else some (q.stream.drop q.pos) := by
  unfold Buf.fetch
  rw [← r.len_eq, ← r.remaining_eq]
  by_cases h0 : b.len = 0
  · simp [h0]
  · simp [h0, r.hasData_of_len h0]

/-- moving the representation's base forward by a compaction of `p` bytes -/
theorem rel_shift (b b' : Buf) (q : QRef) (base p : Nat) (r : BufRel b q base) (sh : Shift b b' p) (i' : b'.Inv)
    (hp : p ≤ b.off) (hm : b'.mem.isEmpty = b.mem.isEmpty) : BufRel b' q (base + p) := by
  have hd := r.dataLen_eq
  have ho := r.off
  have hoff := r.inv.offLe
  refine ⟨i', by rw [sh.const]; exact r.dyn, by omega, by omega, ?_, ?_, ?_, ?_, ?_⟩
  · intro t ht
    have := r.tagOk t ht
    have hbt : b.tag = some (t - base) := by rw [r.tag, ht]; rfl
    have := sh.ple _ hbt
    omega
  · rw [sh.live, r.live, List.drop_drop]
  · have := sh.off; omega
  · rw [sh.tag, r.tag]
    cases q.tag with
    | none => rfl
    | some t => simp only [Option.map_some, Nat.sub_sub]
  · rw [r.alloc, hm]

theorem reclaim_isEmpty (b : Buf) (h : b.Inv) : b.reclaim.mem.isEmpty = b.mem.isEmpty := by
  obtain ⟨p, _, _, ml, _, _⟩ := reclaim_spec b h
  cases h1 : b.reclaim.mem <;> cases h2 : b.mem <;> simp_all

/-- one operation on a buffer that represents a queue answers like the queue and represents the new queue -/
theorem bufStep_rel (hk : Buf.ConstsOk) (b : Buf) (q : QRef) (base : Nat) (op : BufOp) (r : BufRel b q base) :
    (bufStep b op).1 = (qrefStep q op).1 ∧ ∃ base', base ≤ base' ∧ BufRel (bufStep b op).2 (qrefStep q op).2 base' := by
  have hd := r.dataLen_eq
  have ho := r.off
  have hoff := r.inv.offLe
  have hlen := r.len_eq
  cases op with
  | app d =>
    by_cases hde : d = []
    · subst hde
      simp only [bufStep, qrefStep, Buf.append, List.isEmpty_nil, ↓reduceIte]
      exact ⟨trivial, base, Nat.le_refl _, r⟩
    · obtain ⟨p, i', hpo, hoff', htag', hple, hc', hres, hok⟩ :=
        append_spec hk b d Oracle.ok r.inv r.dyn hde
      obtain ⟨hst, _⟩ := hok (fun _ => rfl)
      have hdi : d.isEmpty = false := by cases d <;> simp_all
      simp only [bufStep, qrefStep, hdi, Bool.false_eq_true, ↓reduceIte]
      refine ⟨by rw [hst], base + p, Nat.le_add_right _ _, ?_⟩
      rcases hres with ⟨_, hlive⟩ | ⟨hbad, _⟩
      · have hpl : p ≤ (q.stream.drop base).length := by rw [List.length_drop]; omega
        refine ⟨i', hc', by simp only [List.length_append]; omega, by simp only; omega, ?_, ?_, ?_, ?_, ?_⟩
        · intro t ht
          have := r.tagOk t ht
          have hbt : b.tag = some (t - base) := by rw [r.tag, ht]; rfl
          have := hple _ hbt
          simp only; omega
        · rw [hlive, r.live]
          simp only
          rw [List.drop_drop, List.drop_append_of_le_length (by omega)]
        · simp only; omega
        · rw [htag', r.tag]
          simp only
          cases q.tag with
          | none => rfl
          | some t => simp only [Option.map_some, Nat.sub_sub]
        · simp only
          have hl := live_length _ i'
          rw [hlive, List.length_append] at hl
          have hdl : 0 < d.length := List.length_pos_iff.2 hde
          have := i'.dlen
          cases hm : (b.append d Oracle.ok).2.1.mem with
          | nil => rw [hm] at this; simp at this; omega
          | cons _ _ => rfl
      · rw [hst] at hbad; cases hbad
  | consume n =>
    simp only [bufStep, qrefStep, Buf.consume]
    rw [hlen]
    by_cases hn : q.stream.length - q.pos < n
    · simp only [hn, ↓reduceIte]; exact ⟨trivial, base, Nat.le_refl _, r⟩
    · simp only [hn, ↓reduceIte]
      refine ⟨trivial, base, Nat.le_refl _, ⟨?_, r.dyn, r.baseLe, ?_, ?_, r.live, ?_, r.tag, r.alloc⟩⟩
      · exact ⟨r.inv.dlen, by simp only; omega, r.inv.tagLe, r.inv.room⟩
      · simp only; have := r.basePos; omega
      · intro t ht; have := r.tagOk t ht; simp only; omega
      · simp only; omega
  | fetch n =>
    simp only [bufStep, qrefStep, Buf.fetchBytes]
    rw [fetch_eq b q base r]
    by_cases h0 : q.stream.length - q.pos = 0
    · simp only [h0, ↓reduceIte]
      have : n = 0 ∨ 0 < n := by omega
      simp only [this, ↓reduceIte]
      exact ⟨trivial, base, Nat.le_refl _, r⟩
    · simp only [h0, ↓reduceIte, List.length_drop]
      by_cases hn : n = 0 ∨ q.stream.length - q.pos < n
      · simp only [hn, ↓reduceIte]; exact ⟨trivial, base, Nat.le_refl _, r⟩
      · simp only [hn, ↓reduceIte]
        have hc : ¬ b.len < n := by rw [hlen]; omega
        refine ⟨trivial, base, Nat.le_refl _, ?_⟩
        simp only [Buf.consume, hc, ↓reduceIte]
        refine ⟨?_, r.dyn, r.baseLe, ?_, ?_, r.live, ?_, r.tag, r.alloc⟩
        · exact ⟨r.inv.dlen, by simp only; omega, r.inv.tagLe, r.inv.room⟩
        · simp only; have := r.basePos; omega
        · intro t ht; have := r.tagOk t ht; simp only; omega
        · simp only; omega
  | tag =>
    simp only [bufStep, qrefStep, Buf.doTag]
    refine ⟨trivial, base, Nat.le_refl _, ⟨?_, r.dyn, r.baseLe, r.basePos, ?_, r.live, r.off, ?_, r.alloc⟩⟩
    · exact ⟨r.inv.dlen, r.inv.offLe, fun t ht => by simp only at ht; cases ht; exact r.inv.offLe, r.inv.room⟩
    · intro t ht; simp only at ht; cases ht; exact ⟨r.basePos, Nat.le_refl _⟩
    · simp only [Option.map_some]; congr 1; omega
  | rollback =>
    simp only [bufStep, qrefStep, Buf.tagRollback]
    have htag := r.tag
    cases hq : q.tag with
    | none =>
      rw [hq] at htag; simp only [Option.map_none] at htag
      rw [htag]; exact ⟨rfl, base, Nat.le_refl _, r⟩
    | some t =>
      rw [hq] at htag; simp only [Option.map_some] at htag
      rw [htag]
      obtain ⟨t1, t2⟩ := r.tagOk t hq
      refine ⟨rfl, base, Nat.le_refl _, ⟨?_, r.dyn, r.baseLe, t1, ?_, r.live, ?_, rfl, r.alloc⟩⟩
      · exact ⟨r.inv.dlen, r.inv.tagLe _ htag, fun _ h => (by cases h), r.inv.room⟩
      · intro _ h; cases h
      · simp only; omega
  | clear =>
    simp only [bufStep, qrefStep, Buf.tagClear]
    have htag := r.tag
    cases hq : q.tag with
    | none =>
      rw [hq] at htag; simp only [Option.map_none] at htag
      rw [htag]; exact ⟨rfl, base, Nat.le_refl _, r⟩
    | some t =>
      rw [hq] at htag; simp only [Option.map_some] at htag
      rw [htag]
      refine ⟨rfl, base, Nat.le_refl _, ⟨?_, r.dyn, r.baseLe, r.basePos, ?_, r.live, r.off, rfl, r.alloc⟩⟩
      · exact ⟨r.inv.dlen, r.inv.offLe, fun _ h => (by cases h), r.inv.room⟩
      · intro _ h; cases h
  | reclaim =>
    simp only [bufStep, qrefStep]
    obtain ⟨p, sh, i', _, hpo, _⟩ := reclaim_spec b r.inv
    exact ⟨trivial, base + p, Nat.le_add_right _ _, rel_shift b _ q base p r sh i' hpo (reclaim_isEmpty b r.inv)⟩
  | len =>
    simp only [bufStep, qrefStep]
    exact ⟨by rw [hlen], base, Nat.le_refl _, r⟩
  | tagfetch cap =>
    simp only [bufStep, qrefStep]
    refine ⟨?_, base, Nat.le_refl _, r⟩
    congr 1
    unfold Buf.tagFetchBytes
    have htag := r.tag
    cases hq : q.tag with
    | none => rw [hq] at htag; simp only [Option.map_none] at htag; rw [htag]
    | some t =>
      rw [hq] at htag; simp only [Option.map_some] at htag
      rw [htag]
      obtain ⟨t1, t2⟩ := r.tagOk t hq
      simp only [r.hasData_eq]
      by_cases ha : q.allocated = true
      · simp only [ha, Bool.not_true, Bool.false_eq_true, ↓reduceIte]
        have htl : b.tagLength = q.pos - t := by
          unfold Buf.tagLength; rw [htag]; simp only
          rw [if_pos (by omega)]; omega
        rw [htl]
        by_cases hcap : cap < q.pos - t
        · simp only [hcap, ↓reduceIte]
        · simp only [hcap, ↓reduceIte]
          congr 1
          have : b.off - (t - base) = q.pos - t := by omega
          rw [this]
          have hl : (b.mem.drop (t - base)).take (q.pos - t) = (b.live.drop (t - base)).take (q.pos - t) := by
            unfold Buf.live
            apply List.ext_getElem?
            intro i
            simp only [List.getElem?_take, List.getElem?_drop]
            by_cases hi : i < q.pos - t
            · simp only [hi, ↓reduceIte, show t - base + i < b.dataLen by omega]
            · simp only [hi, ↓reduceIte]
          rw [hl, r.live, List.drop_drop]
          congr 2; omega
      · simp only [Bool.not_eq_true] at ha
        simp only [ha, Bool.not_false, ↓reduceIte]
  | peek =>
    simp only [bufStep, qrefStep]
    exact ⟨by rw [fetch_eq b q base r], base, Nat.le_refl _, r⟩

end Cares
