import CaresLemmas.ChanAlignSt
/-!
# TCP read alignment (C20) — the steps that change the inbound side

`ares_open_connection` (new virtual socket, new connection), `read_conn_packets` (one `recv`), `read_answers` (one frame
taken out of in_buf).
-/
namespace Cares.Chan

/-! ## `ares_open_connection` -/

theorem ocSock_views (s1 : St) (tcp : Bool) (srv : Server) :
    (ocSock s1 tcp srv).conns = s1.conns ∧ (ocSock s1 tcp srv).nextFd = s1.nextFd + 1 ∧
      (ocSock s1 tcp srv).socks.map vk = s1.socks.map vk ++ [(s1.nextFd, ⟨[], 0, 0⟩)] ∧
      (ocSock s1 tcp srv).outOfFuel = s1.outOfFuel := by
  unfold ocSock
  refine ⟨by simp only [chan_frame], by simp only [chan_frame], ?_, by simp only [chan_frame]⟩
  simp only []
  refine (vks_modSock_id _ _ _ ?_).trans ?_
  · intro _; rfl
  simp only [chan_frame, List.map_append, List.map_cons, List.map_nil]
  rfl

theorem ocConnect_views (s2 : St) (fd : Nat) (tcp : Bool) (srv : Server) (f : Option Nat) :
    (ocConnect s2 fd tcp srv f).conns = s2.conns ∧ (ocConnect s2 fd tcp srv f).nextFd = s2.nextFd ∧
      (ocConnect s2 fd tcp srv f).socks = s2.socks ∧ (ocConnect s2 fd tcp srv f).outOfFuel = s2.outOfFuel := by
  unfold ocConnect; cases f <;> simp only [chan_frame, and_self]

theorem ocClose_views (s : St) (fd : Nat) :
    (ocClose s fd).conns = s.conns ∧ (ocClose s fd).nextFd = s.nextFd ∧
      (ocClose s fd).socks.map vk = s.socks.map vk ∧ (ocClose s fd).outOfFuel = s.outOfFuel := by
  unfold ocClose
  refine ⟨by simp only [chan_frame], by simp only [chan_frame], ?_, by simp only [chan_frame]⟩
  simp only [chan_frame]
  exact vks_modSock_id _ _ _ (fun _ => rfl)

theorem ocFinish_views (s : St) (fd : Nat) (tcp : Bool) (srv : Server) :
    (ocFinish s fd tcp srv).conns.map rk = s.conns.map rk ++ [(fd, ⟨tcp, false, 0⟩)] ∧
      (ocFinish s fd tcp srv).nextFd = s.nextFd ∧ (ocFinish s fd tcp srv).socks = s.socks ∧
      (ocFinish s fd tcp srv).outOfFuel = s.outOfFuel := by
  unfold ocFinish
  refine ⟨?_, by simp only [chan_frame], by simp only [chan_frame], by simp only [chan_frame]⟩
  simp only []
  rw [rks_notify]
  simp only [chan_frame, List.map_append, List.map_cons, List.map_nil]
  rfl

/-- what `ares_open_connection` does to the views: nothing; a socket that is closed again; or a socket with a new
    connection on it -/
theorem openConn_views (s : St) (tcp : Bool) (srv : Server) :
    ((openConn s tcp srv).2.conns.map rk = s.conns.map rk ∧ (openConn s tcp srv).2.socks.map vk = s.socks.map vk ∧
        (openConn s tcp srv).2.nextFd = s.nextFd) ∨
    ((openConn s tcp srv).2.conns.map rk = s.conns.map rk ∧
        (openConn s tcp srv).2.socks.map vk = s.socks.map vk ++ [(s.nextFd, ⟨[], 0, 0⟩)] ∧
        (openConn s tcp srv).2.nextFd = s.nextFd + 1) ∨
    ((openConn s tcp srv).2.conns.map rk = s.conns.map rk ++ [(s.nextFd, ⟨tcp, false, 0⟩)] ∧
        (openConn s tcp srv).2.socks.map vk = s.socks.map vk ++ [(s.nextFd, ⟨[], 0, 0⟩)] ∧
        (openConn s tcp srv).2.nextFd = s.nextFd + 1) := by
  rw [openConn_eq]
  have hn : (s.fault "socket").2.nextFd = s.nextFd := St.faultsnd_nextFd s "socket"
  cases h1 : (s.fault "socket").1 with
  | some e => left; simp only [chan_frame, and_self]
  | none =>
    right
    simp only [hn]
    generalize ((ocSock (s.fault "socket").2 tcp srv).fault "connect").1 = f2
    have hs := ocSock_views (s.fault "socket").2 tcp srv
    simp only [chan_frame] at hs
    have h4 := ocConnect_views ((ocSock (s.fault "socket").2 tcp srv).fault "connect").2 s.nextFd tcp srv f2
    simp only [chan_frame] at h4
    by_cases hcf : ocFail f2 = true
    · left
      simp only [hcf, ↓reduceIte]
      have h3 := ocClose_views (ocConnect ((ocSock (s.fault "socket").2 tcp srv).fault "connect").2 s.nextFd tcp srv f2)
        s.nextFd
      refine ⟨by rw [h3.1, h4.1, hs.1], by rw [h3.2.2.1, h4.2.2.1, hs.2.2.1], by rw [h3.2.1, h4.2.1, hs.2.1]⟩
    · simp only [hcf, Bool.false_eq_true, ↓reduceIte]
      cases h3 : ((ocConnect ((ocSock (s.fault "socket").2 tcp srv).fault "connect").2 s.nextFd tcp srv f2).fault
          "getsockname").1 with
      | some e =>
        left
        simp only []
        have h5 := ocClose_views ((ocConnect ((ocSock (s.fault "socket").2 tcp srv).fault "connect").2 s.nextFd tcp srv
          f2).fault "getsockname").2 s.nextFd
        simp only [chan_frame] at h5
        refine ⟨by rw [h5.1, h4.1, hs.1], by rw [h5.2.2.1, h4.2.2.1, hs.2.2.1], by rw [h5.2.1, h4.2.1, hs.2.1]⟩
      | none =>
        right
        simp only []
        have h5 := ocFinish_views ((ocConnect ((ocSock (s.fault "socket").2 tcp srv).fault "connect").2 s.nextFd tcp srv
          f2).fault "getsockname").2 s.nextFd tcp srv
        simp only [chan_frame] at h5
        refine ⟨by rw [h5.1, h4.1, hs.1], by rw [h5.2.2.1, h4.2.2.1, hs.2.2.1], by rw [h5.2.1, h4.2.1, hs.2.1]⟩

section
variable {Q : Nat → SV → CV → Prop} {N0 : Nat}

theorem Al_openConn (hQ : QFresh Q N0) (s : St) (tcp : Bool) (srv : Server) (h : Al Q N0 s) :
    Al Q N0 (openConn s tcp srv).2 := by
  intro ho
  rw [openConn_outOfFuel] at ho
  have core := h ho
  have hsn : pfind (s.socks.map vk) s.nextFd = none := by
    cases hx : pfind (s.socks.map vk) s.nextFd with
    | none => rfl
    | some x => exact absurd (core.fresh _ x hx) (Nat.lt_irrefl _)
  have hcn : pfind (s.conns.map rk) s.nextFd = none := by
    cases hy : pfind (s.conns.map rk) s.nextFd with
    | none => rfl
    | some y =>
      obtain ⟨x, hx⟩ := core.hasSock _ y hy
      rw [hsn] at hx; cases hx
  have es : pfind (s.socks.map vk ++ [(s.nextFd, (⟨[], 0, 0⟩ : SV))]) =
      fun fd' => if fd' = s.nextFd then some ⟨[], 0, 0⟩ else pfind (s.socks.map vk) fd' :=
    kfind_append_one Prod.fst Prod.snd (s.nextFd, (⟨[], 0, 0⟩ : SV)) _ hsn
  have ec : pfind (s.conns.map rk ++ [(s.nextFd, (⟨tcp, false, 0⟩ : CV))]) =
      fun fd' => if fd' = s.nextFd then some ⟨tcp, false, 0⟩ else pfind (s.conns.map rk) fd' :=
    kfind_append_one Prod.fst Prod.snd (s.nextFd, (⟨tcp, false, 0⟩ : CV)) _ hcn
  rcases openConn_views s tcp srv with ⟨e1, e2, e3⟩ | ⟨e1, e2, e3⟩ | ⟨e1, e2, e3⟩
  · rw [e1, e2, e3]; exact core
  · rw [e1, e2, e3, es]; exact core.newSock
  · rw [e1, e2, e3, es, ec]; exact core.newConn hQ tcp

/-- one `recv` on a TCP connection: `n` bytes (at most what the peer has written) move from the socket to in_buf -/
theorem Al_readTcp {fd : Nat} (hq : QRead Q fd) (s : St) (n : Nat) (chunks : List Nat) (v : VSock)
    (hv : s.sock? fd = some v) (hn : n ≤ v.slen - v.spos) (h : Al Q N0 s) :
    Al Q N0 ((s.modSock fd fun v => { v with chunks := chunks, spos := v.spos + n }).modConn fd
      fun c => { c with inBytes := c.inBytes + n, connected := true }) := by
  intro ho
  have core := h ho
  show AlCore Q N0 (pfind ((St.modConn _ fd _).conns.map rk)) (pfind ((St.modConn _ fd _).socks.map vk)) s.nextFd
  rw [rks_modConn _ fd _ (fun y => { y with inBytes := y.inBytes + n }) (fun _ => rfl),
    pfind_upd fd (fun y : CV => { y with inBytes := y.inBytes + n })]
  simp only [chan_frame]
  rw [vks_modSock s fd _ (fun x => { x with spos := x.spos + n }) (fun _ => rfl),
    pfind_upd fd (fun x : SV => { x with spos := x.spos + n })]
  refine core.upd fd _ _ ?_ ?_ ?_
  · intro x hx
    rw [pfind_socks, hv] at hx
    simp only [Option.map_some, Option.some.injEq] at hx
    subst hx
    exact (core.stream fd _ (by rw [pfind_socks, hv]; rfl)).read hn
  · intro y x hy hx ht hu
    exact (core.al fd y x hy hx ht hu).read n
  · intro y x hy hx hu; exact hq _ _ _ _ (core.q fd y x hy hx hu)

/-- a datagram is appended to the in_buf of a UDP connection -/
theorem Al_readUdp {fd : Nat} (hq : QRead Q fd) (s : St) (c : Conn) (f : Conn → Conn) (g : Nat → Nat)
    (hc : s.conn? fd = some c) (ht : c.tcp = false)
    (hf : ∀ c, rk (f c) = (c.fd, ⟨(rflag c).tcp, (rflag c).unlinked, g (rflag c).inBytes⟩)) (h : Al Q N0 s) :
    Al Q N0 (s.modConn fd f) := by
  intro ho
  have core := h ho
  show AlCore Q N0 (pfind ((s.modConn fd f).conns.map rk)) (pfind (s.socks.map vk)) s.nextFd
  rw [rks_modConn s fd f (fun y => ⟨y.tcp, y.unlinked, g y.inBytes⟩) hf,
    pfind_upd fd (fun y : CV => ⟨y.tcp, y.unlinked, g y.inBytes⟩)]
  have := core.upd fd (fun y => ⟨y.tcp, y.unlinked, g y.inBytes⟩) id (fun x hx => core.stream fd x hx) ?_ ?_
  · simpa only [Option.map_id_fun, id_eq, ite_self] using this
  · intro y x hy _ ht' _
    rw [pfind_conns, hc] at hy
    simp only [Option.map_some, Option.some.injEq] at hy
    subst hy
    simp only [rflag] at ht'
    rw [ht] at ht'; cases ht'
  · intro y x hy hx hu; exact hq x y x.spos _ (core.q fd y x hy hx hu)

/-- `read_answers` takes the next frame out of in_buf -/
theorem Al_consume {fd : Nat} (hq : QRead Q fd) (s : St) (c : Conn) (v : VSock) (r : Reply)
    (hc : s.conn? fd = some c) (hv : s.sock? fd = some v)
    (hnext : c.tcp = true → nextTcpFrame v.stream v.spos c.inBytes = some r) (h : Al Q N0 s) :
    Al Q N0 (s.modConn fd fun c => { c with inMsgs := c.inMsgs.drop 1, inBytes := c.inBytes - (2 + r.len) }) := by
  intro ho
  have core := h ho
  show AlCore Q N0 (pfind ((St.modConn s fd _).conns.map rk)) (pfind (s.socks.map vk)) s.nextFd
  rw [rks_modConn s fd _ (fun y => { y with inBytes := y.inBytes - (2 + r.len) }) (fun _ => rfl),
    pfind_upd fd (fun y : CV => { y with inBytes := y.inBytes - (2 + r.len) })]
  have := core.upd fd (fun y => { y with inBytes := y.inBytes - (2 + r.len) }) id (fun x hx => core.stream fd x hx) ?_ ?_
  · simpa only [Option.map_id_fun, id_eq, ite_self] using this
  · intro y x hy hx ht' hu
    have hal := core.al fd y x hy hx ht' hu
    have hst := core.stream fd x hx
    rw [pfind_conns, hc] at hy
    rw [pfind_socks, hv] at hx
    simp only [Option.map_some, Option.some.injEq] at hy hx
    subst hy; subst hx
    exact hal.consume hst (hnext ht')
  · intro y x hy hx hu; exact hq x y x.spos _ (core.q fd y x hy hx hu)

end

end Cares.Chan
