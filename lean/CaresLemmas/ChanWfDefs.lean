import CaresLemmas.ChanWfFrame
import CaresLemmas.ChanWfOof
/-!
# C01 — the well-formedness invariant of the channel model, preconditions of the procedures, and the
two-state relation every procedure satisfies

Everything is stated over the skeleton `St.sk` (see `ChanWfSk`).
-/
namespace Cares.Chan

/-! ### projections of the skeleton the groups of the invariant read -/

def Sk.qK (a : Sk) : List Nat := a.qs.map (·.key)
def Sk.qKQ (a : Sk) : List (Nat × Nat) := a.qs.map fun e => (e.key, e.qid)
def Sk.qKC (a : Sk) : List (Nat × Option Nat) := a.qs.map fun e => (e.key, e.conn)
def Sk.qKO (a : Sk) : List (Nat × Owner) := a.qs.map fun e => (e.key, e.owner)
/-- keys linked into the qid table (`queries_by_qid`): these queries can still be reached by the library,
    hence can still get a completion callback -/
def Sk.idx (a : Sk) : List Nat := a.byQid.map (·.2)
def Sk.cFQ (a : Sk) : List (Nat × List Nat) := a.conns.map fun c => (c.fd, c.queries)
def Sk.cF4 (a : Sk) : List (Nat × Bool × Nat × Bool) := a.conns.map fun c => (c.fd, c.unlinked, c.srv, c.tcp)
def Sk.cFUQ (a : Sk) : List (Nat × Bool × List Nat) := a.conns.map fun c => (c.fd, c.unlinked, c.queries)

/-- queries: keys are distinct and below the allocation counter -/
structure WfQP (qK : List Nat) (nextKey : Nat) : Prop where
  nodup : qK.Nodup
  lt : ∀ k ∈ qK, k < nextKey

/-- the qid table refers to live queries; `all` and the lists being walked refer to linked queries -/
structure WfIP (qKQ byQid : List (Nat × Nat)) (all : List Nat) (lc : List (List Nat)) : Prop where
  qidLive : ∀ p ∈ byQid, (p.2, p.1) ∈ qKQ
  allNodup : all.Nodup
  allIdx : ∀ k ∈ all, k ∈ byQid.map (·.2)
  lcOk : ∀ l ∈ lc, l.Nodup ∧ ∀ k ∈ l, k ∈ byQid.map (·.2)
  /-- a key is in at most one of `all_queries` and the lists being walked -/
  disj : (all ++ lc.flatten).Nodup
  /-- every linked query is in `all_queries` or in a list being walked by `ares_cancel` / `ares_destroy` -/
  nl : ∀ k ∈ byQid.map (·.2), k ∈ all ∨ ∃ l ∈ lc, k ∈ l

/-- the by-timeout index (and the keys waiting to enter it) refer to linked queries that have a connection -/
structure WfTP (qKC : List (Nat × Option Nat)) (idx bt po : List Nat) : Prop where
  btNodup : bt.Nodup
  btOk : ∀ k ∈ bt, k ∈ idx ∧ ∃ fd, (k, some fd) ∈ qKC
  poNodup : po.Nodup
  poOk : ∀ k ∈ po, k ∈ idx ∧ (∃ fd, (k, some fd) ∈ qKC) ∧ k ∉ bt

/-- connections: descriptors distinct, below the counter, backed by a virtual socket; a connection's list
    holds linked queries that point back to it; a query's connection exists and lists it.
    `hole = some k`: query `k` has just left its connection's list and is about to be requeued or ended
    (the transient state inside `process_answer`). -/
structure WfCP (qKC : List (Nat × Option Nat)) (idx : List Nat) (cFQ : List (Nat × List Nat)) (nextFd : Nat)
    (socks : List Nat) (hole : Option Nat) : Prop where
  nodup : (cFQ.map (·.1)).Nodup
  lt : ∀ c ∈ cFQ, c.1 < nextFd
  sock : ∀ c ∈ cFQ, c.1 ∈ socks
  qNodup : ∀ c ∈ cFQ, c.2.Nodup
  cq : ∀ c ∈ cFQ, ∀ k ∈ c.2, k ∈ idx ∧ (k, some c.1) ∈ qKC
  qc : ∀ p ∈ qKC, ∀ fd, p.2 = some fd → ∃ c ∈ cFQ, c.1 = fd ∧ (p.1 ∈ c.2 ∨ hole = some p.1)

/-- servers: ids distinct; a server's connection list / TCP connection are live, linked connections of it -/
structure WfSP (servers : List SSk) (cF4 : List (Nat × Bool × Nat × Bool)) : Prop where
  nodup : (servers.map (·.id)).Nodup
  connsNodup : ∀ v ∈ servers, v.conns.Nodup
  conns : ∀ v ∈ servers, ∀ fd ∈ v.conns, ∃ t, (fd, false, v.id, t) ∈ cF4
  tcp : ∀ v ∈ servers, ∀ fd, v.tcpConn = some fd → (fd, false, v.id, true) ∈ cF4
  /-- a connection that has not been unlinked is on its server's list -/
  linked : ∀ fd srv t, (fd, false, srv, t) ∈ cF4 → ∃ v ∈ servers, v.id = srv ∧ fd ∈ v.conns

structure WfKP (cl : List KSk) (nextClient : Nat) : Prop where
  nodup : (cl.map (·.id)).Nodup
  lt : ∀ c ∈ cl, c.id < nextClient

/-- number of sub-requests of the compound request `id` that can still complete (linked queries it owns) -/
def subsP (qKO : List (Nat × Owner)) (idx : List Nat) (id : Nat) : Nat :=
  qKO.countP fun p => decide (p.1 ∈ idx) && decide (p.2 = Owner.client id)

/-- the compound request `id` has no sub-request that could still complete -/
def NoSubP (qKO : List (Nat × Owner)) (idx : List Nat) (id : Nat) : Prop :=
  ∀ p ∈ qKO, p.1 ∈ idx → p.2 ≠ .client id

/-- token accounting: callbacks made / still owed are duplicate-free and disjoint; every linked query owned by
    the application has its token pending and is the only holder of it; every linked sub-request of a
    compound request has a live compound request whose token is pending -/
structure WfTokP (qKO : List (Nat × Owner)) (idx : List Nat) (cl : List KSk) (pend done : List Nat)
    (rs : Nat) : Prop where
  pN : pend.Nodup
  dN : done.Nodup
  disj : ∀ t ∈ pend, t ∉ done
  pB : ∀ t ∈ pend, t < 10000 + rs
  dB : ∀ t ∈ done, t < 10000 + rs
  tQ : ∀ p ∈ qKO, p.1 ∈ idx → ∀ tok, p.2 = .user tok →
    tok ∈ pend ∧ (∀ p' ∈ qKO, p'.1 ∈ idx → p'.2 = .user tok → p'.1 = p.1) ∧ (∀ c ∈ cl, c.tok ≠ tok)
  tC : ∀ p ∈ qKO, p.1 ∈ idx → ∀ id, p.2 = .client id → ∃ c ∈ cl, c.id = id ∧ c.tok ∈ pend
  tK : ∀ c ∈ cl, c.tok ∈ pend ∨ c.tok ∈ done
  tKU : ∀ c ∈ cl, ∀ c' ∈ cl, c.tok = c'.tok → c.tok ∈ pend → c.id = c'.id

/-- the index / ownership / token invariant -/
structure WfS (a : Sk) (hole : Option Nat) : Prop where
  q : WfQP a.qK a.nextKey
  i : WfIP a.qKQ a.byQid a.all a.listCopy
  t : WfTP a.qKC a.idx a.byTimeout a.pendingOrder
  c : WfCP a.qKC a.idx a.cFQ a.nextFd a.socks hole
  s : WfSP a.servers a.cF4
  k : WfKP a.clients a.nextClient
  tok : WfTokP a.qKO a.idx a.clients a.pendingToks a.doneToks a.reactSeq

def Wf (s : St) : Prop := WfS s.sk none

def Sk.Idx (a : Sk) (k : Nat) : Prop := k ∈ a.idx
def Sk.NoSub (a : Sk) (id : Nat) : Prop := NoSubP a.qKO a.idx id
def Sk.subs (a : Sk) (id : Nat) : Nat := subsP a.qKO a.idx id
/-- the compound request `id` is live and its user callback is still owed -/
def Sk.Active (a : Sk) (id : Nat) : Prop := ∃ c ∈ a.clients, c.id = id ∧ c.tok ∈ a.pendingToks

/-! ### ghost debt

`d id` = number of sub-requests the frames *below* the current procedure on the C stack are still going to
start for the compound request `id` (the not-yet-executed `.send` actions of the `runActs` frames in
progress).  It is a ghost parameter of the precondition / postcondition pair: every body lemma holds for
every `d`.  `DebtOk x d a`: each active compound request (other than `x`) waits for exactly its linked
sub-requests plus that debt. -/

def bump (d : Nat → Nat) (id n : Nat) : Nat → Nat := fun i => if i = id then d i + n else d i

structure DebtOk (x : Option Nat) (d : Nat → Nat) (a : Sk) : Prop where
  fresh : ∀ id, a.nextClient ≤ id → d id = 0
  cnt : ∀ c ∈ a.clients, c.tok ∈ a.pendingToks → some c.id ≠ x → c.out = a.subs c.id + d c.id

/-- the caller holds a completion callback that has not been invoked and that no live object will invoke -/
def Sk.OwnerFree (a : Sk) : Owner → Prop
  | .probe _ => True
  | .user tok => tok ∈ a.pendingToks ∧ (∀ p ∈ a.qKO, p.1 ∈ a.idx → p.2 ≠ .user tok) ∧
      (∀ c ∈ a.clients, c.tok ≠ tok)
  | .client id => a.Active id

/-- `.send` / `.sendSlot` actions that `runActs` will execute (those before the first `.finish`) -/
def sends : List ClientAct → Nat
  | [] => 0
  | .send _ :: r => sends r + 1
  | .sendSlot _ _ :: r => sends r + 1
  | .noRetry _ :: r => sends r
  | .finish _ _ _ :: _ => 0

def hasFinish : List ClientAct → Bool
  | [] => false
  | .finish _ _ _ :: _ => true
  | _ :: r => hasFinish r

/-- owner-specific part of the debt invariant: the callback / request about to be handed over counts as one
    outstanding sub-request of its compound request -/
def Sk.DebtFor (a : Sk) (d : Nat → Nat) : Owner → Prop
  | .client id => DebtOk none (bump d id 1) a
  | _ => DebtOk none d a

def Sk.hasConn (a : Sk) (fd : Nat) (unl : Bool) : Prop := ∃ q, (fd, unl, q) ∈ a.cFUQ
def Sk.liveConn (a : Sk) (fd : Nat) : Prop := fd ∈ a.cFQ.map (·.1)

/-- precondition of each procedure (what its callers establish) -/
def Pre (d : Nat → Nat) (s : St) : Call → Prop
  | .sendNolock _ _ _ _ owner _ => Wf s ∧ s.sk.OwnerFree owner ∧ s.sk.DebtFor d owner
  | .sendQuery _ key => Wf s ∧ s.sk.Idx key ∧ DebtOk none d s.sk
  | .requeue key _ _ _ _ => WfS s.sk (some key) ∧ s.sk.Idx key ∧ DebtOk none d s.sk
  | .endQuery _ key _ _ => WfS s.sk (some key) ∧ s.sk.Idx key ∧ DebtOk none d s.sk
  | .callback owner _ _ _ _ => Wf s ∧ s.sk.OwnerFree owner ∧ s.sk.DebtFor d owner
  | .userCb tok _ _ _ _ => Wf s ∧
      (∃ x, DebtOk x d s.sk ∧ ∀ c ∈ s.sk.clients, some c.id = x → c.tok = tok) ∧ tok ∈ s.sk.pendingToks ∧
      (∀ p ∈ s.sk.qKO, p.1 ∈ s.sk.idx → p.2 ≠ .user tok) ∧
      (∀ c ∈ s.sk.clients, c.tok = tok → s.sk.NoSub c.id ∧ d c.id = 0)
  | .closeConn fd _ => Wf s ∧ s.sk.hasConn fd false ∧ DebtOk none d s.sk
  | .connError fd _ _ => Wf s ∧ s.sk.hasConn fd false ∧ DebtOk none d s.sk
  | .closeLoop fd _ => Wf s ∧ s.sk.hasConn fd true ∧ DebtOk none d s.sk
  | .flush fd => Wf s ∧ s.sk.liveConn fd ∧ DebtOk none d s.sk
  | .readAnswers fd => Wf s ∧ s.sk.liveConn fd ∧ DebtOk none d s.sk
  | .processAnswer fd _ => Wf s ∧ s.sk.liveConn fd ∧ DebtOk none d s.sk
  | .clientStart _ tok _ _ _ => Wf s ∧ s.sk.OwnerFree (.user tok) ∧ DebtOk none d s.sk
  | .runActs id acts => Wf s ∧
      (if hasFinish acts then
        s.sk.Active id ∧ sends acts = 0 ∧ s.sk.NoSub id ∧ d id = 0 ∧ DebtOk (some id) d s.sk
       else DebtOk none (bump d id (sends acts)) s.sk ∧ (0 < sends acts → s.sk.Active id))
  /- `ares_destroy` is never called by another procedure; it is treated separately (`ChanWfDestroy`) -/
  | .destroy => False
  | _ => Wf s ∧ DebtOk none d s.sk

def exFd : Call → Option Nat
  | .closeLoop fd _ => some fd
  | _ => none

def exId : Call → Option Nat
  | .sendNolock _ _ _ _ (.client id) _ => some id
  | .callback (.client id) _ _ _ _ => some id
  | .runActs id _ => some id
  | _ => none

/-- level by level, the lists of the first stack are included in those of the second -/
inductive LcSub : List (List Nat) → List (List Nat) → Prop
  | nil : LcSub [] []
  | cons {l' l : List Nat} {t' t : List (List Nat)} : (∀ k ∈ l', k ∈ l) → LcSub t' t → LcSub (l' :: t') (l :: t)

/-- progress of the requests between two states; `xt` is the token of a callback that is in flight (its query has
    been unlinked, the callback has not run yet) -/
structure ProgS (xt : Option Nat) (a a' : Sk) : Prop where
  /-- callbacks made stay made -/
  doneMono : ∀ t ∈ a.doneToks, t ∈ a'.doneToks
  /-- the lists being walked by `ares_cancel` / `ares_destroy` frames only lose keys -/
  lcRel : LcSub a'.listCopy a.listCopy
  allNew : ∀ k ∈ a'.all, k ∈ a.all ∨ a.nextKey ≤ k
  keysLt : (∀ p ∈ a.qKO, p.1 < a.nextKey) → ∀ p ∈ a'.qKO, p.1 < a'.nextKey
  /-- a query that is still linked is the same query (keys are not reused, owners do not change) -/
  ownKeep : (∀ p ∈ a.qKO, p.1 < a.nextKey) → ∀ p ∈ a.qKO, p.1 ∈ a'.idx → p ∈ a'.qKO
  /-- a request of the application that is no longer linked has had its callback -/
  done6 : (∀ p ∈ a.qKO, p.1 < a.nextKey) → ∀ p ∈ a.qKO, p.1 ∈ a.idx → p.1 ∉ a'.idx →
    ∀ tok, p.2 = .user tok → tok ∈ a'.doneToks ∨ some tok = xt

/-- what every procedure guarantees about the pair (state before, state after) -/
structure StepT (xf xi xt : Option Nat) (d : Nat → Nat) (a a' : Sk) : Prop where
  /-- no safety fault is recorded -/
  faults : a'.faults = a.faults
  kMono : a.nextClient ≤ a'.nextClient
  keyMono : a.nextKey ≤ a'.nextKey
  /-- only new queries get linked -/
  idxNew : ∀ x ∈ a'.idx, x ∈ a.idx ∨ a.nextKey ≤ x
  /-- a connection that is being closed by an outer frame stays in the store, and nothing is added to it -/
  unl : ∀ fd q, (fd, true, q) ∈ a.cFUQ → some fd ≠ xf → ∃ q', (fd, true, q') ∈ a'.cFUQ ∧ ∀ k ∈ q', k ∈ q
  /-- a compound request without sub-requests gets none (unless the procedure acts for it) -/
  orphan : ∀ id, id < a.nextClient → some id ≠ xi → a.NoSub id → a'.NoSub id
  /-- a compound request for which an outer frame will still start sub-requests is not completed -/
  debtAlive : ∀ id, a.Active id → 0 < d id → a'.Active id
  prog : ProgS xt a a'

/-- the relation with no callback in flight -/
abbrev StepS (xf xi : Option Nat) (d : Nat → Nat) (a a' : Sk) : Prop := StepT xf xi none d a a'

/-- the walk of `ares_cancel` (`fromAll = false`) / `ares_destroy` has nothing left to do -/
def cancelHead (s : St) (fromAll : Bool) : Option Nat :=
  if fromAll then s.all.head? else (s.listCopy.head?).bind (·.head?)

/-- call-specific postconditions -/
def Post (s : St) (r : St × Ret) : Call → Prop
  | .flush _ => r.1.sk = s.sk
  | .requeue key _ _ _ _ =>
      ∀ fd q, (fd, true, q) ∈ s.sk.cFUQ → ∀ q', (fd, q') ∈ r.1.sk.cFQ → key ∉ q'
  | .userCb tok _ _ _ _ => tok ∈ r.1.sk.doneToks
  | .callback (.user tok) _ _ _ _ => tok ∈ r.1.sk.doneToks
  | .cancelLoop _ fromAll => cancelHead r.1 fromAll = none
  /- with no query linked, closing a connection removes it and touches nothing else (`ares_destroy`) -/
  | .closeLoop fd _ => s.sk.idx = [] → r.1.sk.cFUQ = s.sk.cFUQ.filter (fun x => x.1 != fd) ∧ r.1.sk.idx = []
  | .closeConn fd _ => s.sk.idx = [] → r.1.sk.cFUQ = s.sk.cFUQ.filter (fun x => x.1 != fd) ∧ r.1.sk.idx = []
  /- `ares_cancel`: every request of the application that was in `all_queries` has had its callback -/
  | .cancel => ∀ k ∈ s.sk.all, ∀ tok, (k, Owner.user tok) ∈ s.sk.qKO → tok ∈ r.1.sk.doneToks
  | _ => True

structure Good (d : Nat → Nat) (c : Call) (s : St) (r : St × Ret) : Prop where
  wf : Wf r.1
  debt : DebtOk none d r.1.sk
  step : StepS (exFd c) (exId c) d s.sk r.1.sk
  post : Post s r c

/-- the guarantee modulo fuel: nothing is claimed about a run that ran out of fuel (the flag is sticky) -/
def GoodO (d : Nat → Nat) (c : Call) (s : St) (r : St × Ret) : Prop := r.1.outOfFuel = true ∨ Good d c s r

/-- the hypothesis on the recursive calls in every body lemma -/
def GoOk (go : Call → St → St × Ret) : Prop := OofMono go ∧ ∀ d c s, Pre d s c → GoodO d c s (go c s)

end Cares.Chan
