import CaresLemmas.ChanWfFrame
/-!
# C01 — the well-formedness invariant of the channel model, preconditions of the procedures, and the
two-state relation every procedure satisfies

Everything is stated over the skeleton `St.sk` (see `ChanWfSk`).
-/
namespace Cares.Chan

/-- the key is linked into the qid table (`queries_by_qid`): the query can still be reached by the library,
    hence can still get a completion callback -/
def Sk.Idx (a : Sk) (k : Nat) : Prop := ∃ p ∈ a.byQid, p.2 = k

/-- the compound request `id` has no sub-request that could still complete -/
def Sk.NoSub (a : Sk) (id : Nat) : Prop := ∀ e ∈ a.qs, a.Idx e.key → e.owner ≠ .client id

/-- the index / ownership / token invariant.  `hole = some k`: query `k` has just left its connection's list
    and is about to be requeued or ended (the transient state inside `process_answer`). -/
structure WfS (a : Sk) (hole : Option Nat) : Prop where
  /- queries -/
  qNodup : (a.qs.map (·.key)).Nodup
  qLt : ∀ e ∈ a.qs, e.key < a.nextKey
  /- the four indexes refer to live, linked queries -/
  byQid : ∀ p ∈ a.byQid, ∃ e ∈ a.qs, e.key = p.2 ∧ e.qid = p.1
  allNodup : a.all.Nodup
  all : ∀ k ∈ a.all, a.Idx k
  lc : ∀ l ∈ a.listCopy, l.Nodup ∧ ∀ k ∈ l, a.Idx k
  btNodup : a.byTimeout.Nodup
  bt : ∀ k ∈ a.byTimeout, a.Idx k ∧ ∃ e ∈ a.qs, e.key = k ∧ e.conn ≠ none
  poNodup : a.pendingOrder.Nodup
  po : ∀ k ∈ a.pendingOrder, a.Idx k ∧ (∃ e ∈ a.qs, e.key = k ∧ e.conn ≠ none) ∧ k ∉ a.byTimeout
  /- connections -/
  cNodup : (a.conns.map (·.fd)).Nodup
  cLt : ∀ c ∈ a.conns, c.fd < a.nextFd
  cSock : ∀ c ∈ a.conns, c.fd ∈ a.socks
  cqNodup : ∀ c ∈ a.conns, c.queries.Nodup
  cq : ∀ c ∈ a.conns, ∀ k ∈ c.queries, a.Idx k ∧ ∃ e ∈ a.qs, e.key = k ∧ e.conn = some c.fd
  qc : ∀ e ∈ a.qs, ∀ fd, e.conn = some fd → ∃ c ∈ a.conns, c.fd = fd ∧ (e.key ∈ c.queries ∨ hole = some e.key)
  /- servers -/
  sNodup : (a.servers.map (·.id)).Nodup
  sConnsNodup : ∀ v ∈ a.servers, v.conns.Nodup
  sConns : ∀ v ∈ a.servers, ∀ fd ∈ v.conns, ∃ c ∈ a.conns, c.fd = fd ∧ c.unlinked = false ∧ c.srv = v.id
  sTcp : ∀ v ∈ a.servers, ∀ fd, v.tcpConn = some fd →
    ∃ c ∈ a.conns, c.fd = fd ∧ c.unlinked = false ∧ c.srv = v.id ∧ c.tcp = true
  /- compound requests -/
  kNodup : (a.clients.map (·.id)).Nodup
  kLt : ∀ c ∈ a.clients, c.id < a.nextClient
  /- token accounting -/
  tPN : a.pendingToks.Nodup
  tDN : a.doneToks.Nodup
  tDisj : ∀ t ∈ a.pendingToks, t ∉ a.doneToks
  tPB : ∀ t ∈ a.pendingToks, t < 10000 + a.reactSeq
  tDB : ∀ t ∈ a.doneToks, t < 10000 + a.reactSeq
  tQ : ∀ e ∈ a.qs, a.Idx e.key → ∀ tok, e.owner = .user tok →
    tok ∈ a.pendingToks ∧ (∀ e' ∈ a.qs, a.Idx e'.key → e'.owner = .user tok → e'.key = e.key) ∧
    (∀ c ∈ a.clients, c.tok ≠ tok)
  tC : ∀ e ∈ a.qs, a.Idx e.key → ∀ id, e.owner = .client id →
    (∃ c ∈ a.clients, c.id = id ∧ c.tok ∈ a.pendingToks) ∧
    (∀ e' ∈ a.qs, a.Idx e'.key → e'.owner = .client id → e'.key = e.key)
  tK : ∀ c ∈ a.clients, c.tok ∈ a.pendingToks ∨ c.tok ∈ a.doneToks
  tKU : ∀ c ∈ a.clients, ∀ c' ∈ a.clients, c.tok = c'.tok → c.tok ∈ a.pendingToks → c.id = c'.id

def Wf (s : St) : Prop := WfS s.sk none

/-- the caller holds a completion callback that has not been invoked and that no live object will invoke -/
def Sk.OwnerFree (a : Sk) : Owner → Prop
  | .probe => True
  | .user tok => tok ∈ a.pendingToks ∧ (∀ e ∈ a.qs, a.Idx e.key → e.owner ≠ .user tok) ∧
      (∀ c ∈ a.clients, c.tok ≠ tok)
  | .client id => (∃ c ∈ a.clients, c.id = id ∧ c.tok ∈ a.pendingToks) ∧ a.NoSub id

/-- what the pure client logic may ask for: nothing, one sub-request, or completion -/
def ActsOk : List ClientAct → Prop
  | [] => True
  | [.send _] => True
  | .finish _ _ _ :: _ => True
  | _ => False

def Sk.hasConn (a : Sk) (fd : Nat) (unl : Bool) : Prop := ∃ c ∈ a.conns, c.fd = fd ∧ c.unlinked = unl

/-- precondition of each procedure (what its callers establish) -/
def Pre (s : St) : Call → Prop
  | .sendNolock _ _ _ _ owner _ => Wf s ∧ s.sk.OwnerFree owner
  | .sendQuery _ key => Wf s ∧ s.sk.Idx key
  | .requeue key _ _ _ _ => WfS s.sk (some key) ∧ s.sk.Idx key
  | .endQuery _ key _ _ => WfS s.sk (some key) ∧ s.sk.Idx key
  | .callback owner _ _ _ _ => Wf s ∧ s.sk.OwnerFree owner
  | .userCb tok _ _ _ _ => Wf s ∧ tok ∈ s.sk.pendingToks ∧
      (∀ e ∈ s.sk.qs, s.sk.Idx e.key → e.owner ≠ .user tok) ∧
      (∀ c ∈ s.sk.clients, c.tok = tok → s.sk.NoSub c.id)
  | .closeConn fd _ => Wf s ∧ s.sk.hasConn fd false
  | .connError fd _ _ => Wf s ∧ s.sk.hasConn fd false
  | .closeLoop fd _ => Wf s ∧ s.sk.hasConn fd true
  | .flush fd => Wf s ∧ ∃ c ∈ s.sk.conns, c.fd = fd
  | .readAnswers fd => Wf s ∧ ∃ c ∈ s.sk.conns, c.fd = fd
  | .processAnswer fd _ => Wf s ∧ ∃ c ∈ s.sk.conns, c.fd = fd
  | .clientStart _ tok _ _ => Wf s ∧ s.sk.OwnerFree (.user tok)
  | .runActs id acts => Wf s ∧ ActsOk acts ∧ (acts ≠ [] → s.sk.OwnerFree (.client id))
  | _ => Wf s

def exFd : Call → Option Nat
  | .closeLoop fd _ => some fd
  | _ => none

def exId : Call → Option Nat
  | .sendNolock _ _ _ _ (.client id) _ => some id
  | .callback (.client id) _ _ _ _ => some id
  | .runActs id _ => some id
  | _ => none

/-- what every procedure guarantees about the pair (state before, state after) -/
structure StepS (xf xi : Option Nat) (a a' : Sk) : Prop where
  /-- no safety fault is recorded -/
  faults : a'.faults = a.faults
  kMono : a.nextClient ≤ a'.nextClient
  /-- a connection that is being closed by an outer frame stays in the store, and nothing is added to it -/
  unl : ∀ c ∈ a.conns, c.unlinked = true → some c.fd ≠ xf →
    ∃ c' ∈ a'.conns, c'.fd = c.fd ∧ c'.unlinked = true ∧ ∀ k ∈ c'.queries, k ∈ c.queries
  /-- a compound request without sub-requests gets none (unless the procedure acts for it) -/
  orphan : ∀ id, id < a.nextClient → some id ≠ xi → a.NoSub id → a'.NoSub id

/-- call-specific postconditions -/
def Post (s : St) (r : St × Ret) : Call → Prop
  | .flush _ => r.1.sk = s.sk
  | .requeue key _ _ _ _ =>
      ∀ c ∈ s.sk.conns, c.unlinked = true → ∀ c' ∈ r.1.sk.conns, c'.fd = c.fd → key ∉ c'.queries
  | _ => True

structure Good (c : Call) (s : St) (r : St × Ret) : Prop where
  wf : Wf r.1
  step : StepS (exFd c) (exId c) s.sk r.1.sk
  post : Post s r c

/-- the hypothesis on the recursive calls in every body lemma -/
def GoOk (go : Call → St → St × Ret) : Prop := ∀ c s, Pre s c → Good c s (go c s)

end Cares.Chan
