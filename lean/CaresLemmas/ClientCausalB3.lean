import CaresLemmas.ClientCausalB2
/-!
# Causality — body lemmas III: `requeue`, `sendNolock`, `probe`, `flush`
-/
namespace Cares.Chan

variable {cid : Nat}

/-! ### `requeue` -/

theorem bodyRequeueC_eq (goC : GoC) (key : Nat) (st : Status) (inc : Bool) (rec : Option Reply) (deferred : Bool)
    (s : St) (q0 : Query) (hq : s.query? key = some q0) :
    bodyRequeueC goC key st inc rec deferred s =
      (let s2 := requeueSt s key st inc
       let q := (s2.query? key).getD default
       if q.tryCount < s.servers.length * s.cfg.tries && !q.noRetries then
         if deferred then (({ s2 with requeueArr := s2.requeueArr ++ [(q.qid, none)] }, .ok), [])
         else goC (.sendQuery none key) s2
       else
         let es := if q.errorStatus == .ok then .timeout else q.errorStatus
         let p := goC (.endQuery none key es rec) (s2.modQuery key fun q => { q with errorStatus := es })
         ((p.1.1, .timeout), p.2)) := by
  unfold bodyRequeueC requeueSt
  simp only [hq]

theorem cz_requeue {goC : GoC} (h : GoCz cid goC) {d key st inc rec deferred s L}
    (hpre : Pre d s (.requeue key st inc rec deferred))
    (hL : LG cid L (xtra cid (.requeue key st inc rec deferred)) s) :
    LGO cid L (bodyRequeueC goC key st inc rec deferred s) := by
  obtain ⟨hw, hk, hd⟩ := hpre
  obtain ⟨q0, hq, hqs⟩ := query?_of_idx hw hk
  rw [bodyRequeueC_eq goC key st inc rec deferred s q0 hq]
  have hsk2 := sk_requeueSt s key st inc
  generalize requeueSt s key st inc = s2 at hsk2
  have hw2 : Wf s2 := by unfold Wf; rw [hsk2]; exact wf_rfc hw (Or.inr rfl) hqs
  have hd2 : DebtOk none d s2.sk := by rw [hsk2]; exact debt_rfc key hd
  have hk2 : s2.sk.Idx key := by unfold Sk.Idx; rw [hsk2, rfc_idx]; exact hk
  have hL2 : LG cid L 0 s2 := hL.congr (by rw [hsk2, rfc_qKO]) (by rw [hsk2, rfc_idx])
  simp only
  split
  · split
    · exact LGO.done (hL2.congr rfl rfl)
    · exact h.tail (d := d) (c := .sendQuery none key) ⟨hw2, hk2, hd2⟩ hL2
  · have hsk3 : ∀ es : Status, (s2.modQuery key fun q => { q with errorStatus := es }).sk = s2.sk :=
      fun es => sk_modQuery_same _ _ _ (fun _ => rfl)
    generalize (if ((s2.query? key).getD default).errorStatus == .ok then Status.timeout
      else ((s2.query? key).getD default).errorStatus) = es
    have h3 := hsk3 es
    generalize (s2.modQuery key fun q => { q with errorStatus := es }) = s3 at h3
    exact h.tail (d := d) (c := .endQuery none key es rec) (s := s3)
      ⟨by rw [h3]; exact WfS.weaken_hole hw2, by unfold Sk.Idx; rw [h3]; exact hk2, by rw [h3]; exact hd2⟩
      (hL2.sk_eq h3)

/-! ### `sendNolock` -/

theorem cz_sendNolock {goC : GoC} (h : GoCz cid goC) {d reqSrv nocache noretry spec owner react s L}
    (hpre : Pre d s (.sendNolock reqSrv nocache noretry spec owner react))
    (hL : LG cid L (xtra cid (.sendNolock reqSrv nocache noretry spec owner react)) s) :
    LGO cid L (bodySendNolockC goC reqSrv nocache noretry spec owner react s) := by
  obtain ⟨hw, hof, hdf⟩ := hpre
  have hLo : LG cid L (ownerX cid owner) s := hL
  unfold bodySendNolockC
  have hsk0 := sk_genQid 70000 s
  generalize genQid 70000 s = r0 at hsk0
  obtain ⟨qid, s0⟩ := r0
  simp only at hsk0 ⊢
  have hw0 : Wf s0 := Wf.of_sk_eq hsk0 hw
  -- the early-failure paths hand the callback over in a state with the same skeleton
  have early : ∀ (s1 : St) (st : Status) (rec : Option Reply) (ret : Ret), s1.sk = s.sk →
      LGO cid L (((goC (.callback owner react st 0 rec) s1).1.1, ret), (goC (.callback owner react st 0 rec) s1).2) := by
    intro s1 st rec ret h1
    exact h.tail (d := d) (c := .callback owner react st 0 rec) (s := s1)
      ⟨Wf.of_sk_eq h1 hw, by rw [h1]; exact hof, by rw [h1]; exact hdf⟩ (hLo.sk_eq h1)
  split
  · exact early s0 _ _ _ hsk0
  · have hsk1 : (if nocache = true then s0 else s0.cacheExpire).sk = s.sk := by
      split
      · exact hsk0
      · rw [sk_cacheExpire]; exact hsk0
    generalize (if nocache = true then s0 else s0.cacheExpire) = s1 at hsk1
    split
    · exact early s1 _ _ _ hsk1
    · split
      · exact early s1 _ _ _ hsk1
      · -- the query is created
        have hsk2 : (if (s1.cfg.dns0x20 && !s1.cfg.usevc && decide (nameTextLen (normEscapes (stripDot spec.name)) > 0)) = true then
              if ((nameTextLen (normEscapes (stripDot spec.name)) + 7) / 8 == 1) = true then s1.draw1.2
              else if ((nameTextLen (normEscapes (stripDot spec.name)) + 7) / 8 == 2) = true then s1.draw2.2 else s1
            else s1).sk = s.sk := by
          split
          · split
            · rw [sk_draw1]; exact hsk1
            · split
              · rw [sk_draw2]; exact hsk1
              · exact hsk1
          · exact hsk1
        have hnk1 : s1.nextKey = s.sk.nextKey := by rw [← hsk1]; rfl
        rw [show s1.nextKey = s.sk.nextKey from hnk1]
        generalize (if (s1.cfg.dns0x20 && !s1.cfg.usevc && decide (nameTextLen (normEscapes (stripDot spec.name)) > 0)) = true then
              if ((nameTextLen (normEscapes (stripDot spec.name)) + 7) / 8 == 1) = true then s1.draw1.2
              else if ((nameTextLen (normEscapes (stripDot spec.name)) + 7) / 8 == 2) = true then s1.draw2.2 else s1
            else s1) = s2 at hsk2
        have hnk2 : s.sk.nextKey = s2.nextKey := by rw [← hsk2]; rfl
        have hsk3 := sk_addQuery_st s2 s.sk.nextKey qid
          { key := s.sk.nextKey, qid := qid, owner := owner, react := react,
            name := normEscapes (stripDot spec.name), qtype := spec.qtype, qclass := spec.qclass, rd := spec.rd,
            edns := spec.edns, usingTcp := s1.cfg.usevc, noRetries := noretry } hnk2 rfl rfl rfl
        rw [hsk2] at hsk3
        simp only at hsk3
        refine h.tail (d := d) (c := .sendQuery reqSrv s.sk.nextKey)
          ⟨by unfold Wf; rw [hsk3]; exact wf_addQuery hw hof, by rw [hsk3]; exact idx_addQuery,
           by rw [hsk3]; exact debt_addQuery hw hof hdf⟩ ?_
        refine (show LG cid L 0 _ from hLo.of_cnt ?_)
        rw [hsk3, subs_addQuery hw cid, ownerX_eq]
        omega

/-! ### `probe` -/

theorem cz_probe {goC : GoC} (h : GoCz cid goC) {d srvId key s L} (hpre : Pre d s (.probe srvId key))
    (hL : LG cid L (xtra cid (.probe srvId key)) s) : LGO cid L (bodyProbeC goC srvId key s) := by
  obtain ⟨hw, hd⟩ := hpre
  have hL0 : LG cid L 0 s := hL
  unfold bodyProbeC
  split
  · exact LGO.done hL0
  · simp only
    split
    · exact LGO.done hL0
    · split
      · exact LGO.done hL0
      · have hsk0 := sk_draw2 s
        generalize s.draw2 = r0 at hsk0
        obtain ⟨rnd, s0⟩ := r0
        simp only at hsk0 ⊢
        split
        · exact LGO.ret hL0 hsk0
        · split
          · exact LGO.ret hL0 hsk0
          · split
            · exact LGO.ret hL0 hsk0
            · rename_i pv _ _
              have hsk1 : (s0.modServer pv.id fun v => { v with probePending := true }).sk = s.sk := by
                rw [sk_modServer_same]; exact hsk0; intro; rfl
              generalize (s0.modServer pv.id fun v => { v with probePending := true }) = s1 at hsk1
              exact h.tail (d := d) ⟨Wf.of_sk_eq hsk1 hw, trivial, by rw [hsk1]; exact hd⟩ (hL0.sk_eq hsk1)

/-! ### `flush` -/

theorem cz_flush {goC : GoC} (h : GoCz cid goC) {d fd s L} (hpre : Pre d s (.flush fd))
    (hL : LG cid L (xtra cid (.flush fd)) s) : LGO cid L (bodyFlushC goC fd s) := by
  obtain ⟨hw, hl, hd⟩ := hpre
  have hL0 : LG cid L 0 s := hL
  unfold bodyFlushC
  split
  · exact LGO.done (hL0.congr rfl rfl)
  · split
    · exact LGO.ret hL0 (by simp)
    · split
      · -- UDP
        have hsk0 := sk_fault s "sendto"
        generalize s.fault "sendto" = r0 at hsk0
        obtain ⟨e, s0⟩ := r0
        simp only at hsk0 ⊢
        split
        · split
          · exact LGO.ret hL0 (by simp [hsk0])
          · exact LGO.ret hL0 (by simp [hsk0])
        · have hsk1 : ∀ (f : OutFrame) (rest : List OutFrame),
              (((s0.recordTx fd false f).notify fd true false).modConn fd fun c => { c with out := rest }).sk = s.sk := by
            intros; simp [hsk0]
          exact h.tail (d := d) (c := .flush fd)
            ⟨Wf.of_sk_eq (hsk1 _ _) hw, by unfold Sk.liveConn; rw [hsk1]; exact hl, by rw [hsk1]; exact hd⟩
            (hL0.sk_eq (hsk1 _ _))
      · split
        · exact LGO.ret hL0 (by simp)
        · have hsk0 := sk_fault s "sendto"
          generalize s.fault "sendto" = r0 at hsk0
          obtain ⟨e, s0⟩ := r0
          simp only at hsk0 ⊢
          split
          · split
            · exact LGO.ret hL0 (by simp [hsk0])
            · exact LGO.ret hL0 (by simp [hsk0])
          · generalize tcpAccept _ _ = r1
            obtain ⟨acc, v⟩ := r1
            simp only
            split
            · exact LGO.ret hL0 (by simp [hsk0, sk_setSock])
            · refine LGO.ret hL0 ?_
              simp only [sk_notify]
              split <;> split <;> simp [hsk0, sk_setSock]

end Cares.Chan
