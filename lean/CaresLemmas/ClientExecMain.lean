import CaresLemmas.ClientExecInv
/-!
# From a log that replays to the flat fold (pure)

Projections of a log for one compound request `cid`: the completions delivered to it (`evsOf`), the sub-requests
started for it (`sentOf`), the completions handed to its user callback (`finsOf`), its creation (`startsOf`).
`Causal cid L`: every completion delivered to `cid` comes while more sub-requests have been started for `cid` than
completions delivered to it (a completion is that of a sub-request started before and not yet completed).

`fold_of_replay`: if `L` replays from a state in which `cid` does not exist yet, `L` is causal for `cid`, and no frame
of `cid` is left in progress, then `sentOf` / `finsOf` are exactly `ClientWalk.clientRun` on `evsOf`.
-/
namespace Cares.Chan
open Cares.ClientWalk

deriving instance DecidableEq for Ev

def ev1 (cid : Nat) : CItem → List Ev
  | .cb id st t rec qa qb => if id = cid then [{ st := st, timeouts := t, reply := rec, qids := some (qa, qb) }] else []
  | _ => []

def sent1 (cid : Nat) : CItem → List (String × Nat)
  | .act id a => if id = cid then sentOfAct a else []
  | _ => []

def fin1 (cid : Nat) : CItem → List (Status × Nat × String)
  | .act id a => if id = cid then finOfAct a else []
  | _ => []

def start1 (cid : Nat) : CItem → List (String × Nat × List Nat × ReqSpec × Nat)
  | .start id k tok re sp f => if id = cid then [(k, tok, re, sp, f)] else []
  | _ => []

/-- completions delivered to `cid` (each with the query ids stored in its record at that moment), in order -/
def evsOf (cid : Nat) (L : CLog) : List Ev := L.flatMap (ev1 cid)
/-- `(name, qtype)` of the sub-requests started for `cid`, in order -/
def sentOf (cid : Nat) (L : CLog) : List (String × Nat) := L.flatMap (sent1 cid)
/-- `(status, timeouts, digest)` handed to `cid`'s user callback -/
def finsOf (cid : Nat) (L : CLog) : List (Status × Nat × String) := L.flatMap (fin1 cid)
def startsOf (cid : Nat) (L : CLog) : List (String × Nat × List Nat × ReqSpec × Nat) := L.flatMap (start1 cid)

/-- causality, as a check over the log with the two counters -/
def causalFrom (cid : Nat) : Nat → Nat → CLog → Bool
  | _, _, [] => true
  | nc, ns, i :: l =>
    ((ev1 cid i).isEmpty || decide (nc < ns)) &&
      causalFrom cid (nc + (ev1 cid i).length) (ns + (sent1 cid i).length) l

/-- every completion delivered to `cid` is preceded by more sub-request starts than completions -/
def Causal (cid : Nat) (L : CLog) : Prop := causalFrom cid 0 0 L = true

instance (cid : Nat) (L : CLog) : Decidable (Causal cid L) := by unfold Causal; infer_instance

theorem proj_other {cid : Nat} {i : CItem} (h : i.who ≠ cid) :
    ev1 cid i = [] ∧ sent1 cid i = [] ∧ fin1 cid i = [] ∧ start1 cid i = [] := by
  cases i <;> simp only [CItem.who] at h <;> simp [ev1, sent1, fin1, start1, h]

section
variable {cfg : Cfg} {c0 : Client} {a0 : List ClientAct} {E : List Ev} {S : List (String × Nat)}
  {Fi : List (Status × Nat × String)} {l : LSt}

theorem Core.fin_some_of_fins (h : Core cfg c0 a0 E S Fi l) (hne : Fi ≠ []) :
    (foldC cfg c0 E (applyActs a0 {})).2.fin ≠ none := by
  intro hf
  exact hne (h.of_fin_none hf).2

/-- **every event of the compound request (other than its creation) preserves the invariant** -/
theorem Core.step {cid : Nat} (h : Core cfg c0 a0 E S Fi l) (i : CItem) (hw : i.who = cid) (hs : i.isStart = false)
    (l' : LSt) (hl : lstep cfg l i = some l') (hc : (ev1 cid i).isEmpty = true ∨ E.length < S.length) :
    Core cfg c0 a0 (E ++ ev1 cid i) (S ++ sent1 cid i) (Fi ++ fin1 cid i) l' := by
  cases i with
  | start => cases hs
  | cb id st t rec qa qb =>
    have hid : id = cid := hw
    subst hid
    simp only [ev1, sent1, fin1, ↓reduceIte, List.append_nil, List.isEmpty_cons, Bool.false_eq_true, false_or] at hc ⊢
    simp only [lstep] at hl
    split at hl
    · cases hl
    · rename_i c hcur
      split at hl
      · rename_i hq
        cases hl
        obtain ⟨rfl, rfl⟩ := hq
        exact h.cb c hcur st t rec hc
      · cases hl
  | act id a =>
    have hid : id = cid := hw
    subst hid
    simp only [ev1, sent1, fin1, ↓reduceIte, List.append_nil]
    simp only [lstep] at hl
    split at hl
    · rename_i a' rest σ hst
      split at hl
      · rename_i ha
        cases hl
        subst ha
        exact h.act a' rest σ hst
      · cases hl
    · cases hl
  | slot id slot qid =>
    simp only [ev1, sent1, fin1, List.append_nil]
    simp only [lstep] at hl
    cases hl
    refine ⟨h.finsLe, h.walk, ?_, h.count, h.oneVis, h.finQuiet, ?_, h.mark⟩
    · intro hf
      obtain ⟨c, hc1, hc2⟩ := h.recOk hf
      exact ⟨_, by simp only [hc1, Option.map_some], hc2.setSlot slot qid⟩
    · intro hn
      apply h.recNone
      cases hcur : l.cur with
      | none => rfl
      | some c => simp only [hcur, Option.map_some, reduceCtorEq] at hn
  | lost id =>
    simp only [lstep] at hl
    split at hl
    · rename_i st t dg rest σ hst
      split at hl
      · rename_i hn
        have hcur : l.cur = none := by simpa using hn
        have := h.finQuiet (h.recNone hcur)
        rw [hst] at this
        have hq := this _ (List.mem_cons_self ..)
        simp [Quiet, hasFinish] at hq
      · cases hl
    · cases hl
  | rel id =>
    simp only [ev1, sent1, fin1, List.append_nil]
    simp only [lstep] at hl
    split at hl
    · rename_i σ hst
      cases hl
      have hne : Fi ≠ [] := h.mark (by rw [hst]; exact List.mem_cons_self ..)
      refine ⟨h.finsLe, ?_, ?_, h.count, ?_, ?_, fun _ => hne, fun _ => hne⟩
      · rw [h.walk, hst]; rfl
      · intro hf; exact absurd hf (h.fin_some_of_fins hne)
      · have := h.oneVis; rw [hst] at this; exact this
      · intro _ b hb
        have := h.finQuiet hne
        rw [hst] at this
        exact this b (List.mem_cons_of_mem _ hb)
    · cases hl
  | ret id =>
    simp only [ev1, sent1, fin1, List.append_nil]
    simp only [lstep] at hl
    split at hl
    · rename_i σ hst
      cases hl
      refine ⟨h.finsLe, ?_, h.recOk, h.count, ?_, ?_, h.recNone, ?_⟩
      · rw [h.walk, hst]
        show applyActs (pendOf σ ++ []) _ = _
        rw [List.append_nil]
      · have := h.oneVis
        rw [hst] at this
        simpa only [nvis, Quiet.nil, ↓reduceIte, Nat.zero_add] using this
      · intro hne b hb
        have := h.finQuiet hne
        rw [hst] at this
        exact this b (List.mem_cons_of_mem _ hb)
      · intro hm
        apply h.mark; rw [hst]; exact List.mem_cons_of_mem _ hm
    · cases hl

end

/-- the invariant right after `clientStart` -/
theorem Core.init (cfg : Cfg) (cid : Nat) (k : String) (tok : Nat) (re : List Nat) (sp : ReqSpec) (f : Nat) :
    Core cfg (clientStart cfg cid k tok re sp f).1 (clientStart cfg cid k tok re sp f).2 [] [] []
      ⟨some (clientStart cfg cid k tok re sp f).1, [some (clientStart cfg cid k tok re sp f).2]⟩ := by
  have hok := clientStart_ok cfg cid k tok re sp f
  refine ⟨Nat.zero_le _, ?_, fun _ => ⟨_, rfl, SameQ.refl _⟩, ?_, ?_, fun h => absurd rfl h, fun h => (by cases h), ?_⟩
  · show applyActs _ _ = applyActs ([] ++ _) _
    rfl
  · simp only [foldC, List.length_nil, Nat.add_zero, applyActs_sent_len, Nat.zero_add]
    have hc := hok.count
    cases hf : hasFinish (clientStart cfg cid k tok re sp f).2 with
    | true =>
      rw [hf] at hc; simp only [↓reduceIte] at hc
      have := applyActs_fin_some (clientStart cfg cid k tok re sp f).2 {} hf
      rw [if_neg (by intro e; rw [e] at this; cases this)]
      omega
    | false =>
      rw [hf] at hc; simp only [Bool.false_eq_true, ↓reduceIte] at hc
      rw [if_pos (by rw [applyActs_fin_keep _ _ hf])]
      exact hc
  · show (if Quiet _ then 0 else 1) + 0 ≤ 1
    split <;> omega
  · intro hm
    rcases List.mem_cons.mp hm with e | e
    · cases e
    · cases e

end Cares.Chan
