import CaresLemmas.ChanSockAnswer
/-!
# Provenance of the data handed to callbacks and to the cache (C05)

* no procedure other than `process_answer` writes `accepted`;
* the only response a procedure hands on (to `ares_requeue_query` / `end_query` / a callback) is the one it was given,
  `process_answer` hands on only the response it has just recorded as accepted, and `ares_send_nolock` hands on
  only (TTL-adjusted) cache entries;
* every cache entry's record is an accepted response.
-/
namespace Cares.Chan

/-! ## no other body appends to `accepted` -/
section
variable (go : Call → St → St × Ret) (hgo : ∀ c s, (go c s).1.accepted = s.accepted)
include hgo

theorem sqFlush_accepted (fd : Nat) (s : St) : (sqFlush go fd s).2.accepted = s.accepted := by
  unfold sqFlush; acc_simp hgo

theorem sqLink_accepted (pd : Bool) (key : Nat) (srv : Server) (fd : Nat) (s : St) :
    (sqLink go pd key srv fd s).1.accepted = s.accepted := by
  unfold sqLink; acc_simp hgo

theorem sqWriteQ_accepted (reqSrv : Option Nat) (key : Nat) (q : Query) (srv : Server) (fd : Nat) (s : St) :
    (sqWriteQ go reqSrv key q srv fd s).1.accepted = s.accepted := by
  have h2 := sqFlush_accepted go hgo fd (sqPrepare key q srv fd s).1
  rw [sqPrepare_accepted] at h2
  unfold sqWriteQ
  repeat (first
    | with_reducible rfl
    | (simp only [chan_frame, hgo, h2, sqLink_accepted go hgo])
    | (csplit <;> pair_subst))

theorem bodySendQuery_accepted (reqSrv : Option Nat) (key : Nat) (s : St) :
    (bodySendQuery go reqSrv key s).1.accepted = s.accepted := by
  rw [bodySendQuery_stages]
  split
  · rfl
  · simp only []
    split
    · simp only [hgo, chan_frame]
    · split <;> pair_subst
      · rw [hgo]; split at * <;> simp_all only [chan_frame]
      · rw [sqWriteQ_accepted go hgo]; split at * <;> simp_all only [chan_frame]

theorem foldl_closeConn_accepted (fds : List Nat) (s : St) :
    (fds.foldl (fun s fd => (go (.closeConn fd .ok) s).1) s).accepted = s.accepted := by
  induction fds generalizing s with
  | nil => rfl
  | cons fd rest ih => rw [List.foldl_cons, ih, hgo]

/-- **No procedure other than `process_answer` writes `accepted`** (given that its recursive calls do not) -/
theorem execBody_accepted_frame (c : Call) (s : St) (hc : ∀ fd r, c ≠ .processAnswer fd r) :
    (execBody go c s).1.accepted = s.accepted := by
  cases c <;> simp only [execBody]
  case processAnswer fd r => exact absurd rfl (hc fd r)
  case sendQuery r k => exact bodySendQuery_accepted go hgo r k s
  case destroy =>
    unfold bodyDestroy
    simp only []
    rw [foldl_closeConn_accepted go hgo, hgo]
  all_goals (unfold_body; acc_simp hgo)

end

/-! ## which responses are handed on -/

/-- the response a call carries -/
def Call.rec? : Call → Option Reply
  | .requeue _ _ _ rec _ => rec
  | .endQuery _ _ _ rec => rec
  | .callback _ _ _ _ rec => rec
  | .sendNolock .. => none | .sendQuery .. => none | .reactions .. => none | .closeConn .. => none
  | .closeLoop .. => none | .connError .. => none | .flush .. => none | .processWrite .. => none
  | .processRead .. => none | .readAnswers .. => none | .processAnswer .. => none | .flushRequeue => none
  | .processTimeouts => none | .cleanupConns .. => none | .cancel => none | .cancelLoop .. => none
  | .destroy => none | .probe .. => none | .clientStart .. => none | .runActs .. => none | .userCb .. => none

section
variable (go go' : Call → St → St × Ret)

/-- **`process_answer` hands on only the response it has just accepted**: once `(fd, key, r)` is accepted, the rest of
    `process_answer` does not depend on how recursive calls behave that carry any other response, or that carry `r`
    in a state where `(fd, key, r)` is not in `accepted` -/
theorem paDeliver_calls (fd : Nat) (r : Reply) (c : Conn) (key : Nat) (q : Query) (s : St)
    (h : ∀ cl s', (cl.rec? = none ∨ (cl.rec? = some r ∧ (fd, key, r) ∈ s'.accepted)) → go cl s' = go' cl s') :
    paDeliver go fd r c key q s = paDeliver go' fd r c key q s := by
  unfold paDeliver
  simp only []
  split
  · rfl
  · split
    · rfl
    · split
      · rw [h _ _ (.inr ⟨rfl, by simp only [chan_frame]; simp⟩)]
      · rw [h _ _ (.inr ⟨rfl, by simp only [chan_frame]; simp⟩)]

theorem bodyProcessAnswer_calls (fd : Nat) (r : Reply) (s : St)
    (h : ∀ cl s', (cl.rec? = none ∨
        (cl.rec? = some r ∧ ∃ key, acceptKey s fd r = some key ∧ (fd, key, r) ∈ s'.accepted)) →
      go cl s' = go' cl s') :
    bodyProcessAnswer go fd r s = bodyProcessAnswer go' fd r s := by
  cases hk : acceptKey s fd r with
  | some key =>
    obtain ⟨c, q, _, _, _, heq⟩ := bodyProcessAnswer_accept go hk
    obtain ⟨c', q', _, _, _, heq'⟩ := bodyProcessAnswer_accept go' hk
    rw [heq, heq']
    simp_all only [Option.some.injEq]
    apply paDeliver_calls
    intro cl s' hcl
    apply h
    rcases hcl with h1 | ⟨h1, h2⟩
    · exact .inl h1
    · exact .inr ⟨h1, key, rfl, h2⟩
  | none =>
    have h0 : ∀ cl s', (cl.rec? = none ∨ False) → go cl s' = go' cl s' :=
    fun cl s' hn => h cl s' (.inl (hn.resolve_right id))
    rw [bodyProcessAnswer_stages, bodyProcessAnswer_stages]
    simp only [h0, Call.rec?, true_or, eq_self]
    -- the accepting branch is unreachable
    unfold acceptKey at hk
    repeat' split
    all_goals first | rfl | skip
    all_goals simp_all

/-- **Every other procedure hands on only the response it was given** (`ares_send_nolock`, which hands on cache
    entries, is treated separately) -/
theorem execBody_calls (c : Call) (s : St)
    (hc : ∀ fd r, c ≠ .processAnswer fd r) (hs : ∀ a b d e f g, c ≠ .sendNolock a b d e f g)
    (h : ∀ cl s', (cl.rec? = none ∨ cl.rec? = c.rec?) → go cl s' = go' cl s') :
    execBody go c s = execBody go' c s := by
  cases c <;> simp only [execBody]
  case processAnswer fd r => exact absurd rfl (hc fd r)
  case sendNolock a b d e f g => exact absurd rfl (hs a b d e f g)
  case sendQuery r k =>
    rw [bodySendQuery_stages, bodySendQuery_stages]
    unfold sqWriteQ sqFlush sqLink
    simp only [h, Call.rec?, true_or, or_true, eq_self]
  all_goals
    unfold_body
    simp only [Call.rec?] at h
    first
      | rfl
      | (simp only [h, Call.rec?, true_or, or_true, eq_self])

/-- what `ares_qcache_fetch` returns is (a copy of) an entry of the cache, possibly already marked as superseded -/
theorem cacheFetch_mem {s : St} {name : String} {qtype qclass : Nat} {rd : Bool} {e : CacheEntry}
    (h : s.cacheExpire.cacheFetch name qtype qclass rd = some e) :
    ∃ e0 ∈ s.cache, e0.reply = e.reply ∧ e0.insert = e.insert := by
  have h1 := List.mem_of_find?_eq_some h
  simp only [St.cacheExpire, List.mem_map, List.mem_filter] at h1
  obtain ⟨e0, ⟨hm, _⟩, he⟩ := h1
  refine ⟨e0, hm, ?_⟩
  split at he <;> (subst he; exact ⟨rfl, rfl⟩)

/-- `ares_send_nolock` hands on only a cache entry's record with its TTLs reduced by the time spent in the cache -/
theorem bodySendNolock_calls (a : Option Nat) (b d : Bool) (spec : ReqSpec) (ow : Owner) (re : List Nat) (s : St)
    (h : ∀ cl s', (cl.rec? = none ∨
        ∃ e ∈ s.cache, ∃ dec, cl.rec? = some { e.reply with ttls := e.reply.ttls.map (· - dec) }) →
      go cl s' = go' cl s') :
    bodySendNolock go a b d spec ow re s = bodySendNolock go' a b d spec ow re s := by
  have h0 : ∀ cl s', (cl.rec? = none ∨ False) → go cl s' = go' cl s' :=
    fun cl s' hn => h cl s' (.inl (hn.resolve_right id))
  unfold bodySendNolock
  simp only [h0, Call.rec?, true_or, eq_self]
  split
  · rfl
  · split
    · rename_i e he
      have hmem : ∃ e0 ∈ s.cache, e0.reply = e.reply ∧ e0.insert = e.insert := by
        split at he
        · cases he
        · rename_i hnc
          obtain ⟨e0, hm, hr⟩ := cacheFetch_mem he
          rw [genQid_cache] at hm
          exact ⟨e0, hm, hr⟩
      obtain ⟨e0, hm, hr, _⟩ := hmem
      rw [h _ _ (.inr ⟨e0, hm, _, by rw [hr]; rfl⟩)]
    · rfl

end

/-! ## cache provenance -/

/-- every cache entry's record is an accepted response -/
def CacheProvF (cache : List CacheEntry) (acc : List (Nat × Nat × Reply)) : Prop :=
  ∀ e ∈ cache, ∃ fd key, (fd, key, e.reply) ∈ acc

abbrev CacheProv (s : St) : Prop := CacheProvF s.cache s.accepted

theorem CacheProvF_expire (s : St) (acc : List (Nat × Nat × Reply)) (h : CacheProvF s.cache acc) :
    CacheProvF s.cacheExpire.cache acc := by
  intro e he
  simp only [St.cacheExpire, List.mem_map, List.mem_filter] at he
  obtain ⟨e0, ⟨hm, _⟩, he⟩ := he
  obtain ⟨fd, key, hk⟩ := h e0 hm
  refine ⟨fd, key, ?_⟩
  split at he <;> (subst he; exact hk)

theorem cacheInsert_cache (s : St) (q : Query) (r : Reply) :
    (s.cacheInsert q r).cache = s.cache ∨
      ∃ ttl, (s.cacheInsert q r).cache =
        (s.cache.map fun e => if sameKey e (cacheKeyName q.name) q.qtype q.qclass q.rd then { e with inTable := false } else e) ++
          [{ name := cacheKeyName q.name, qtype := q.qtype, qclass := q.qclass, rd := q.rd, expire := s.nowSec + ttl,
             insert := s.nowSec, reply := r }] := by
  unfold St.cacheInsert
  simp only []
  repeat' split
  all_goals first | exact .inl rfl | exact .inr ⟨_, rfl⟩

theorem mem_cacheInsert {s : St} {q : Query} {r : Reply} {e : CacheEntry} (h : e ∈ (s.cacheInsert q r).cache) :
    e.reply = r ∨ ∃ e0 ∈ s.cache, e0.reply = e.reply := by
  rcases cacheInsert_cache s q r with h1 | ⟨ttl, h1⟩
  · rw [h1] at h; exact .inr ⟨e, h, rfl⟩
  · rw [h1] at h
    simp only [List.mem_append, List.mem_map, List.mem_singleton] at h
    rcases h with ⟨e0, hm, he⟩ | he
    · refine .inr ⟨e0, hm, ?_⟩
      split at he <;> (subst he; rfl)
    · subst he; exact .inl rfl

theorem CacheProvF_insert (s : St) (q : Query) (r : Reply) (acc : List (Nat × Nat × Reply))
    (h : CacheProvF s.cache acc) (hr : ∃ fd key, (fd, key, r) ∈ acc) : CacheProvF (s.cacheInsert q r).cache acc := by
  intro e he
  rcases mem_cacheInsert he with h1 | ⟨e0, hm, h1⟩
  · rw [h1]; exact hr
  · rw [← h1]; exact h e0 hm

theorem CacheProvF_append {cache : List CacheEntry} {acc : List (Nat × Nat × Reply)} (h : CacheProvF cache acc)
    (l : List (Nat × Nat × Reply)) : CacheProvF cache (acc ++ l) := by
  intro e he
  obtain ⟨fd, key, hk⟩ := h e he
  exact ⟨fd, key, List.mem_append_left _ hk⟩

section
variable (go : Call → St → St × Ret) (hgo : ∀ c s, CacheProv s → CacheProv (go c s).1)
include hgo

theorem paDeliver_CacheProv (fd : Nat) (r : Reply) (c : Conn) (key : Nat) (q : Query) (s : St) (h : CacheProv s) :
    CacheProv (paDeliver go fd r c key q s).1 := by
  have h1 : CacheProvF s.cache (s.accepted ++ [(fd, key, r)]) := CacheProvF_append h _
  unfold paDeliver
  simp only []
  split
  · simpa only [CacheProv, chan_frame] using h1
  · split
    · simpa only [CacheProv, chan_frame] using h1
    · split
      · chan_peel hgo [CacheProv]
      · apply hgo
        simp only [CacheProv, chan_frame]
        apply CacheProvF_insert
        · simpa only [chan_frame] using h1
        · exact ⟨fd, key, by simp⟩

theorem bodyProcessAnswer_CacheProv (fd : Nat) (r : Reply) (s : St) (h : CacheProv s) :
    CacheProv (bodyProcessAnswer go fd r s).1 := by
  cases hk : acceptKey s fd r with
  | some key =>
    obtain ⟨c, q, _, _, _, heq⟩ := bodyProcessAnswer_accept go hk
    rw [heq]
    exact paDeliver_CacheProv go hgo fd r c key q _ h
  | none =>
    rcases bodyProcessAnswer_reject go hk with h' | ⟨e, h'⟩ | ⟨c, key, q, _, _, _, h'⟩
    · rw [h']; exact h
    · rw [h']; exact h
    · rw [h']; split
      · exact hgo _ _ h
      · exact h

theorem sqFlush_CacheProv (fd : Nat) (s : St) (h : CacheProv s) : CacheProv (sqFlush go fd s).2 := by
  unfold sqFlush; chan_peel hgo [CacheProv]

theorem sqLink_CacheProv (pd : Bool) (key : Nat) (srv : Server) (fd : Nat) (s : St) (h : CacheProv s) :
    CacheProv (sqLink go pd key srv fd s).1 := by
  unfold sqLink; chan_peel hgo [CacheProv]

theorem sqWriteQ_CacheProv (reqSrv : Option Nat) (key : Nat) (q : Query) (srv : Server) (fd : Nat) (s : St)
    (h : CacheProv s) : CacheProv (sqWriteQ go reqSrv key q srv fd s).1 := by
  have h1 : CacheProv (sqPrepare key q srv fd s).1 := by simpa only [CacheProv, chan_frame] using h
  have h2 := sqFlush_CacheProv go hgo fd _ h1
  unfold sqWriteQ
  simp only []
  split
  · exact sqLink_CacheProv go hgo _ _ _ _ _ h2
  · exact hgo _ _ h2
  all_goals chan_peel hgo [CacheProv]

theorem bodySendQuery_CacheProv (reqSrv : Option Nat) (key : Nat) (s : St) (h : CacheProv s) :
    CacheProv (bodySendQuery go reqSrv key s).1 := by
  rw [bodySendQuery_stages]
  split
  · simpa only [CacheProv, chan_frame] using h
  · simp only []
    split
    · exact hgo _ _ (by simpa only [CacheProv, chan_frame] using h)
    · split <;> pair_subst
      · apply hgo; split at * <;> simp_all only [CacheProv, chan_frame]
      · apply sqWriteQ_CacheProv go hgo; split at * <;> simp_all only [CacheProv, chan_frame]

theorem foldl_closeConn_CacheProv (fds : List Nat) (s : St) (h : CacheProv s) :
    CacheProv (fds.foldl (fun s fd => (go (.closeConn fd .ok) s).1) s) := by
  induction fds generalizing s with
  | nil => exact h
  | cons fd rest ih => exact ih _ (hgo _ _ h)

theorem execBody_CacheProv (c : Call) (s : St) (h : CacheProv s) : CacheProv (execBody go c s).1 := by
  cases c <;> simp only [execBody]
  case processAnswer fd r => exact bodyProcessAnswer_CacheProv go hgo fd r s h
  case sendQuery r k => exact bodySendQuery_CacheProv go hgo r k s h
  case destroy =>
    unfold bodyDestroy
    simp only []
    exact foldl_closeConn_CacheProv go hgo _ _ (hgo _ _ h)
  case sendNolock a b d e f g =>
    unfold bodySendNolock
    chan_peel hgo [CacheProv] using CacheProvF_expire
  all_goals (unfold_body; chan_peel hgo [CacheProv])

end

/-- **Cache provenance (whole runs)**: if every cache entry's record is an accepted response, this remains so -/
theorem exec_CacheProv (fuel : Nat) (c : Call) (s : St) (h : CacheProv s) : CacheProv (exec fuel c s).1 :=
  exec_inv CacheProv (fun _ h => h) (fun go hgo c s h => execBody_CacheProv go hgo c s h) fuel c s h

end Cares.Chan
