import CaresLemmas.ChanPolicyPicks
/-!
# `exec` keeps `Pol`: the pick log only grows, by policy-conforming entries (C09 `chosen_is_best`)
-/
namespace Cares.Chan
set_option linter.unusedVariables false

section
variable {c0 : Cfg} {n0 : Nat} {ids0 : List Nat} {p0 : List Pick}

chan_invariant pol : (Pol c0 n0 ids0 p0) oofBy (fun _ h => h)
  leafBy (repeat' (first
                  | pol_step hgo
                  | with_reducible apply sqDeadline_pol hgo
                  | with_reducible apply sqCommit_pol hgo))
  exceptBodies blocksOnly

theorem sendQueryBlocks_pol {go : Call → St → St × Ret} (hgo : GoInv (Pol c0 n0 ids0 p0) go) (a1 : Option Nat)
    (a2 : Nat) (s : St) (h : Pol c0 n0 ids0 p0 s) : Pol c0 n0 ids0 p0 (sendQueryBlocks go a1 a2 s).1 := by
  unfold sendQueryBlocks
  split
  · exact Pol.mfault h
  · extract_lets sorted
    split
    rename_i srv? s1 hch
    have h1 : Pol c0 n0 ids0 p0 s1 := by
      have := sqChoose_pol hgo a1 s h; rw [hch] at this; exact this
    have hs1 : s1.servers = s.servers ∧ s1.cfg = s.cfg := by
      have : (sqChoose a1 s).2.servers = s.servers ∧ (sqChoose a1 s).2.cfg = s.cfg := by
        unfold sqChoose
        split
        · exact ⟨rfl, rfl⟩
        · dsimp only
          split
          · split
            · exact ⟨rfl, rfl⟩
            · obtain ⟨o, f, e⟩ := draw1_shape s; rw [e]; exact ⟨rfl, rfl⟩
          · exact ⟨rfl, rfl⟩
      rw [hch] at this; exact this
    split
    · exact hgo _ _ h1
    · rename_i srv
      have hok := pick_entry_ok s a1 a2 srv s1 hch
      have hc : s.cfg = c0 := h.1.1
      have hi : s.servers.map (·.id) = ids0 := h.1.2.2
      rw [hc, hi] at hok
      have h2 := Pol.pick _ hok h1
      chan_paths
      all_goals (repeat' (first
                  | pol_step hgo
                  | with_reducible apply sqOpen_pol hgo
                  | with_reducible apply sqPrep_pol hgo
                  | with_reducible apply sqWrite_pol hgo
                  | with_reducible apply sqAfter_pol hgo))

chan_invariant pol : (Pol c0 n0 ids0 p0) oofBy (fun _ h => h)
  leafBy (repeat' (first
                  | pol_step hgo
                  | (with_reducible apply foldl_inv; intro _ _ _)))
  exceptBodies afterBlocks sendQueryBlocks

end
end Cares.Chan
