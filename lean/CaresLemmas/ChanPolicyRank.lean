import CaresLemmas.ChanPolicySort
import CaresLemmas.ChanPolicyShape
/-!
# Effect of `server_increment_failures` / `server_set_good` on the priority order (C09)

With distinct configuration indices the priority list is strictly sorted, so "`a` comes before `b`" is the same as
`srvLt a b`, and the position of a server is the number of strictly better servers.
-/
namespace Cares.Chan

/-- `a` occurs before `b` in the priority list -/
def St.precedes (s : St) (a b : Server) : Prop :=
  ∃ i j : Nat, i < j ∧ s.sortedServers[i]? = some a ∧ s.sortedServers[j]? = some b

theorem inj_of_nodup_ids {l : List Server} (hn : (l.map (·.id)).Nodup) {a b : Server} (ha : a ∈ l) (hb : b ∈ l)
    (h : a.id = b.id) : a = b := by
  induction l with
  | nil => simp at ha
  | cons x r ih =>
    simp only [List.map_cons, List.nodup_cons, List.mem_map, not_exists, not_and] at hn
    rcases List.mem_cons.1 ha with rfl | ha' <;> rcases List.mem_cons.1 hb with rfl | hb'
    · rfl
    · exact absurd h.symm (hn.1 b hb')
    · exact absurd h (hn.1 a ha')
    · exact ih hn.2 ha' hb'

theorem mem_servers_id_inj {s : St} (hn : s.IdsNodup) {a b : Server} (ha : a ∈ s.servers) (hb : b ∈ s.servers)
    (h : a.id = b.id) : a = b := inj_of_nodup_ids hn ha hb h

/-- with distinct ids: position order = priority order -/
theorem precedes_iff {s : St} (hn : s.IdsNodup) {a b : Server} (ha : a ∈ s.servers) (hb : b ∈ s.servers) :
    s.precedes a b ↔ srvLt a b := by
  have hs := sortedServers_strict hn
  constructor
  · rintro ⟨i, j, hij, hi, hj⟩
    obtain ⟨hi', rfl⟩ := List.getElem?_eq_some_iff.1 hi
    obtain ⟨hj', rfl⟩ := List.getElem?_eq_some_iff.1 hj
    exact List.pairwise_iff_getElem.1 hs i j hi' hj' hij
  · intro hlt
    obtain ⟨i, hi⟩ := List.mem_iff_getElem?.1 (mem_sortedServers.2 ha)
    obtain ⟨j, hj⟩ := List.mem_iff_getElem?.1 (mem_sortedServers.2 hb)
    refine ⟨i, j, ?_, hi, hj⟩
    obtain ⟨hi', ei⟩ := List.getElem?_eq_some_iff.1 hi
    obtain ⟨hj', ej⟩ := List.getElem?_eq_some_iff.1 hj
    rcases Nat.lt_trichotomy i j with h | h | h
    · exact h
    · subst h; rw [ei] at ej; subst ej; exact absurd hlt (srvLt_irrefl _)
    · have := List.pairwise_iff_getElem.1 hs j i hj' hi' h
      rw [ei, ej] at this
      exact absurd hlt (srvLt_asymm this)

/-- position of a configured server = number of strictly better servers -/
theorem position_eq_better {s : St} (hn : s.IdsNodup) {v : Server} (hv : v ∈ s.servers) :
    s.sortedServers[(s.better v).length]? = some v := by
  obtain ⟨i, hi⟩ := List.mem_iff_getElem?.1 (mem_sortedServers.2 hv)
  rw [sortedServers_pos hn i v hi]; exact hi

/-! ### replacing one server -/

theorem server?_mem {s : St} {id : Nat} {v : Server} (h : s.server? id = some v) : v ∈ s.servers ∧ v.id = id := by
  refine ⟨List.mem_of_find?_eq_some h, ?_⟩
  have := List.find?_some h
  simpa using this

/-- the list after `setServer v'` when `v` is the server with that id -/
theorem setServer_servers (s : St) (v' : Server) :
    (s.setServer v').servers = s.servers.map (fun x => if x.id == v'.id then v' else x) := rfl

theorem setServer_idsNodup {s : St} (hn : s.IdsNodup) (v' : Server) : (s.setServer v').IdsNodup := by
  unfold St.IdsNodup; rw [setServer_ids]; exact hn

theorem mem_setServer {s : St} (hn : s.IdsNodup) {v v' : Server} (hv : v ∈ s.servers) (hid : v'.id = v.id)
    (w : Server) : w ∈ (s.setServer v').servers ↔ w = v' ∨ (w ∈ s.servers ∧ w.id ≠ v.id) := by
  rw [setServer_servers, List.mem_map]
  constructor
  · rintro ⟨x, hx, rfl⟩
    by_cases h : x.id == v'.id
    · simp [h]
    · simp only [h]
      right
      refine ⟨hx, ?_⟩
      rw [← hid]; simpa using h
  · rintro (rfl | ⟨hw, hne⟩)
    · exact ⟨v, hv, by simp [hid]⟩
    · refine ⟨w, hw, ?_⟩
      have : ¬ (w.id == v'.id) = true := by rw [hid]; simpa using hne
      simp [this]

/-- number of servers strictly better than the replaced one, before and after, when the replacement only got worse -/
theorem better_mono_of_worse {s : St} (hn : s.IdsNodup) {v v' : Server} (hv : v ∈ s.servers) (hid : v'.id = v.id)
    (hworse : ∀ w : Server, w.id ≠ v.id → srvLt w v → srvLt w v') :
    (s.better v).length ≤ ((s.setServer v').better v').length := by
  unfold St.better
  rw [setServer_servers, ← List.countP_eq_length_filter, ← List.countP_eq_length_filter, List.countP_map]
  apply List.countP_mono_left
  intro x hx hlt
  have hlt' : srvLt x v := by simpa using hlt
  have hne : x.id ≠ v.id := by
    intro he
    have := mem_servers_id_inj hn hx hv he
    subst this
    exact srvLt_irrefl _ hlt'
  have : ¬ (x.id == v'.id) = true := by rw [hid]; simpa using hne
  simp only [Function.comp, this]
  simpa using hworse x hne hlt'

theorem better_mono_of_better {s : St} (hn : s.IdsNodup) {v v' : Server} (hv : v ∈ s.servers) (hid : v'.id = v.id)
    (hbetter : ∀ w : Server, w.id ≠ v.id → srvLt w v' → srvLt w v) :
    ((s.setServer v').better v').length ≤ (s.better v).length := by
  unfold St.better
  rw [setServer_servers, ← List.countP_eq_length_filter, ← List.countP_eq_length_filter, List.countP_map]
  apply List.countP_mono_left
  intro x hx hlt
  by_cases hxe : x.id = v.id
  · have : (x.id == v'.id) = true := by rw [hid]; simpa using hxe
    simp only [Function.comp, this] at hlt
    exact absurd (by simpa using hlt) (srvLt_irrefl v')
  · have : ¬ (x.id == v'.id) = true := by rw [hid]; simpa using hxe
    simp only [Function.comp, this] at hlt
    simpa using hbetter x hxe (by simpa using hlt)

/-! ### `server_increment_failures` -/

/-- the record `server_increment_failures` writes (a failure also ends the server's probe episode: `probe_pending` is
    cleared — the pinned C code did not do that, finding F48-C09, repaired) -/
def failedServer (s : St) (v : Server) : Server :=
  { v with failures := v.failures + 1, nextRetry := s.now + s.cfg.retryDelay, probePending := false }

theorem incFailures_servers {s : St} {id : Nat} {v : Server} (hv : s.server? id = some v) (tcp : Bool) :
    (s.incFailures id tcp).servers = (s.setServer (failedServer s v)).servers := by
  unfold St.incFailures; rw [hv]; rfl

/-- `server_increment_failures` in closed form: every entry with that id becomes the failed record, the others stay -/
theorem incFailures_servers_map (s : St) (id : Nat) (tcp : Bool) :
    (s.incFailures id tcp).servers =
      s.servers.map fun x => if x.id == id then failedServer s ((s.server? id).getD x) else x := by
  unfold St.incFailures
  cases h : s.server? id with
  | none =>
    have hno : ∀ x ∈ s.servers, (x.id == id) = false := by
      intro x hx
      unfold St.server? at h
      rw [List.find?_eq_none] at h
      simpa using h x hx
    show s.servers = _
    conv => lhs; rw [← List.map_id s.servers]
    apply List.map_congr_left
    intro x hx
    simp [hno x hx]
  | some v =>
    have hid : v.id = id := find?_id_eq h
    show (s.servers.map fun x => if x.id == (failedServer s v).id then failedServer s v else x) = _
    have : (failedServer s v).id = id := hid
    rw [this]
    rfl

/-- C09 `failure_releases_probe_pending`: after `server_increment_failures` the server has `probe_pending` cleared,
    every other server is as it was, and the ids (and their order) are unchanged -/
theorem incFailures_probePending (s : St) (id : Nat) (tcp : Bool) :
    (∀ v ∈ (s.incFailures id tcp).servers, v.id = id → v.probePending = false) ∧
    (∀ w : Server, w.id ≠ id → (w ∈ (s.incFailures id tcp).servers ↔ w ∈ s.servers)) ∧
    (s.incFailures id tcp).servers.map (·.id) = s.servers.map (·.id) := by
  refine ⟨?_, ?_, incFailures_ids s id tcp⟩
  · intro v hv hid
    rw [incFailures_servers_map] at hv
    obtain ⟨x, _, rfl⟩ := List.mem_map.mp hv
    by_cases hx : x.id == id
    · simp only [hx, ↓reduceIte]; rfl
    · simp only [hx, Bool.false_eq_true, ↓reduceIte] at hid
      exact absurd (by simpa using hid) hx
  · intro w hw
    rw [incFailures_servers_map, List.mem_map]
    constructor
    · rintro ⟨x, hx, rfl⟩
      by_cases hxi : x.id == id
      · simp only [hxi, ↓reduceIte] at hw ⊢
        have h1 : (failedServer s ((s.server? id).getD x)).id = ((s.server? id).getD x).id := rfl
        exfalso; apply hw; rw [h1]
        cases h : s.server? id with
        | none => simpa using hxi
        | some v => exact find?_id_eq h
      · simpa only [hxi, Bool.false_eq_true, ↓reduceIte] using hx
    · intro hm
      refine ⟨w, hm, ?_⟩
      have : (w.id == id) = false := by simpa using hw
      simp [this]

theorem sortedServers_congr {s s' : St} (h : s'.servers = s.servers) : s'.sortedServers = s.sortedServers := by
  unfold St.sortedServers; rw [h]

/-- C09 `failure_demotes`: after a failure the server's failure count is one higher; it never moves forward in the
    priority list (its number of strictly better servers does not decrease); every other server that was at least as
    good *by failure count* (in particular every tie) now comes strictly before it; and the other servers are
    untouched.  So it moves strictly later unless it is alone or all the others are already strictly worse. -/
theorem failure_demotes {s : St} (hn : s.IdsNodup) {id : Nat} {v : Server} (hv : s.server? id = some v) (tcp : Bool) :
    let s' := s.incFailures id tcp
    let v' := failedServer s v
    s'.IdsNodup ∧ v' ∈ s'.servers ∧ v'.failures = v.failures + 1 ∧
    (∀ w, w ∈ s'.servers ↔ w = v' ∨ (w ∈ s.servers ∧ w.id ≠ id)) ∧
    (s.better v).length ≤ (s'.better v').length ∧
    (∀ w ∈ s.servers, w.id ≠ id → w.failures ≤ v.failures → s'.precedes w v') ∧
    (∀ w ∈ s.servers, w.id ≠ id → s.precedes w v → s'.precedes w v') := by
  intro s' v'
  obtain ⟨hvm, hvid⟩ := server?_mem hv
  have hsv : s'.servers = (s.setServer v').servers := incFailures_servers hv tcp
  have hn' : s'.IdsNodup := by
    unfold St.IdsNodup; rw [hsv]; exact setServer_idsNodup hn v'
  have hid : v'.id = v.id := rfl
  have hmem : ∀ w, w ∈ s'.servers ↔ w = v' ∨ (w ∈ s.servers ∧ w.id ≠ id) := by
    intro w; rw [hsv, mem_setServer hn hvm hid, hvid]
  have hv'm : v' ∈ s'.servers := (hmem v').2 (Or.inl rfl)
  have hbet : s'.better v' = (s.setServer v').better v' := by unfold St.better; rw [hsv]
  refine ⟨hn', hv'm, rfl, hmem, ?_, ?_, ?_⟩
  · rw [hbet]
    apply better_mono_of_worse hn hvm hid
    intro w _ hlt
    unfold srvLt at *
    show w.failures < v.failures + 1 ∨ (w.failures = v.failures + 1 ∧ w.id < v.id)
    omega
  · intro w hw hne hle
    have hw' : w ∈ s'.servers := (hmem w).2 (Or.inr ⟨hw, hne⟩)
    rw [precedes_iff hn' hw' hv'm]
    unfold srvLt
    show w.failures < v.failures + 1 ∨ (w.failures = v.failures + 1 ∧ w.id < v.id)
    omega
  · intro w hw hne hp
    have hw' : w ∈ s'.servers := (hmem w).2 (Or.inr ⟨hw, hne⟩)
    rw [precedes_iff hn hw hvm] at hp
    rw [precedes_iff hn' hw' hv'm]
    unfold srvLt at *
    show w.failures < v.failures + 1 ∨ (w.failures = v.failures + 1 ∧ w.id < v.id)
    omega

/-! ### `server_set_good` -/

def goodServer (v : Server) : Server := { v with failures := 0, nextRetry := 0 }

theorem setGood_servers {s : St} {id : Nat} {v : Server} (hv : s.server? id = some v) (tcp : Bool) :
    (s.setGood id tcp).servers = (s.setServer (goodServer v)).servers := by
  unfold St.setGood; rw [hv]; rfl

/-- C09 `success_restores`: after a success the server has failure count 0, which is minimal over all servers (it is
    again eligible as a best server); it never moves backward; it comes strictly before every other server that has a
    failure or a larger configuration index; exactly the failure-free servers with a smaller index stay ahead. -/
theorem success_restores {s : St} (hn : s.IdsNodup) {id : Nat} {v : Server} (hv : s.server? id = some v) (tcp : Bool) :
    let s' := s.setGood id tcp
    let v' := goodServer v
    s'.IdsNodup ∧ v' ∈ s'.servers ∧ v'.failures = 0 ∧ (∀ w ∈ s'.servers, v'.failures ≤ w.failures) ∧
    (∀ w, w ∈ s'.servers ↔ w = v' ∨ (w ∈ s.servers ∧ w.id ≠ id)) ∧
    (s'.better v').length ≤ (s.better v).length ∧
    (∀ w ∈ s.servers, w.id ≠ id → (0 < w.failures ∨ id < w.id) → s'.precedes v' w) ∧
    (∀ w ∈ s'.servers, s'.precedes w v' → w.failures = 0 ∧ w.id < id) := by
  intro s' v'
  obtain ⟨hvm, hvid⟩ := server?_mem hv
  have hsv : s'.servers = (s.setServer v').servers := setGood_servers hv tcp
  have hn' : s'.IdsNodup := by
    unfold St.IdsNodup; rw [hsv]; exact setServer_idsNodup hn v'
  have hid : v'.id = v.id := rfl
  have hmem : ∀ w, w ∈ s'.servers ↔ w = v' ∨ (w ∈ s.servers ∧ w.id ≠ id) := by
    intro w; rw [hsv, mem_setServer hn hvm hid, hvid]
  have hv'm : v' ∈ s'.servers := (hmem v').2 (Or.inl rfl)
  have hbet : s'.better v' = (s.setServer v').better v' := by unfold St.better; rw [hsv]
  refine ⟨hn', hv'm, rfl, fun w _ => Nat.zero_le _, hmem, ?_, ?_, ?_⟩
  · rw [hbet]
    apply better_mono_of_better hn hvm hid
    intro w _ hlt
    unfold srvLt at *
    have hlt' : w.failures < 0 ∨ (w.failures = 0 ∧ w.id < v.id) := hlt
    omega
  · intro w hw hne hcond
    have hw' : w ∈ s'.servers := (hmem w).2 (Or.inr ⟨hw, hne⟩)
    rw [precedes_iff hn' hv'm hw']
    unfold srvLt
    show 0 < w.failures ∨ (0 = w.failures ∧ v.id < w.id)
    omega
  · intro w hw hp
    rw [precedes_iff hn' hw hv'm] at hp
    unfold srvLt at hp
    have hp' : w.failures < 0 ∨ (w.failures = 0 ∧ w.id < v.id) := hp
    omega

end Cares.Chan
