import CaresLemmas.ClientExecReplay2
import CaresLemmas.ClientExecMain3
import CaresLemmas.ChanWfSettle
import CaresLemmas.ClientExecProv2
/-!
# Runs of the channel: the client events of a whole run replay, and (causal runs) are the flat fold

`RunC s t L`: a run of completed top-level calls (any procedure except `runActs`, which only `bodyCallback` /
`bodyClientStart` / `bodyRunActs` call, and carrying no response of its own) and environment steps (anything the
driver does between API calls that keeps the client store, the configuration, the query cache and the `accepted`
log: time, replies, socket scripts, accepting a token, `settle`, …) leads from `s` to `t`; `L` is the concatenation
of the client-event logs of the calls.
-/
namespace Cares.Chan
open Cares.ClientWalk

/-- a call the driver makes: not `runActs`, and no response handed in -/
def Call.topC (c : Call) : Prop := (∀ id acts, c ≠ .runActs id acts) ∧ c.rec? = none

inductive RunC : St → St → CLog → Prop
  | nil (s : St) : RunC s s []
  | env {s t t' : St} {L : CLog} : RunC s t L → t'.clients = t.clients → t'.nextClient = t.nextClient →
      t'.cfg = t.cfg → t'.accepted = t.accepted → t'.cache = t.cache → RunC s t' L
  | call {s t : St} {L : CLog} (fuel : Nat) (call : Call) : RunC s t L → call.topC →
      (exec fuel call t).1.outOfFuel = false → RunC s (exec fuel call t).1 (L ++ (execC fuel call t).2)

theorem preσ_top {c : Call} (h : c.topC) (σ) : preσ c σ = σ := by
  cases c <;> first | rfl | exact absurd rfl (h.1 _ _)

/-- **Exec-level refinement over runs (unconditional).**  The client events of a run replay on the pure machine,
    from the client store of the first state to that of the last, with no frame left in progress. -/
theorem RunC.replays {s t : St} {L : CLog} (hr : RunC s t L) :
    t.cfg = s.cfg ∧ replay s.cfg ⟨s.clients, s.nextClient, []⟩ L = some ⟨t.clients, t.nextClient, []⟩ := by
  induction hr with
  | nil => exact ⟨rfl, rfl⟩
  | env _ h1 h2 h3 _ _ ih => rw [h1, h2, h3]; exact ih
  | call fuel call _ htop hf ih =>
    obtain ⟨e1, e2⟩ := exec_replays fuel call _ [] hf
    rw [preσ_top htop, ih.1] at e2
    refine ⟨e1.trans ih.1, ?_⟩
    rw [replay_append, ih.2]
    exact e2

/-- the fields an environment step keeps -/
def envView (s : St) : List Client × Nat × Cfg × List (Nat × Nat × Reply) × List CacheEntry :=
  (s.clients, s.nextClient, s.cfg, s.accepted, s.cache)

theorem settleStep_frame (s : St) (k : Nat) : envView (settleStep s k) = envView s := by
  unfold settleStep
  repeat' split
  all_goals first
    | rfl
    | (simp only []; split <;> rfl)

theorem settle_frame (s : St) : envView s.settle = envView s := by
  rw [settle_eq]
  show envView (s.pendingOrder.foldl settleStep s) = _
  generalize s.pendingOrder = l
  induction l generalizing s with
  | nil => rfl
  | cons k r ih => exact (ih (settleStep s k)).trans (settleStep_frame s k)

/-- the driver's `settle` at the end of an API call is an environment step -/
theorem RunC.settle {s t : St} {L : CLog} (hr : RunC s t L) : RunC s t.settle L := by
  have h := settle_frame t
  simp only [envView, Prod.mk.injEq] at h
  exact hr.env h.1 h.2.1 h.2.2.1 h.2.2.2.1 h.2.2.2.2

/-- **Provenance over runs**: every reply a completion callback of a compound request was invoked with is an
    accepted response, or the aged copy of a cached accepted response (C05 `cache_provenance`). -/
theorem RunC.provenance {s t : St} {L : CLog} (hr : RunC s t L) (hc : CacheProv s) :
    (∀ e ∈ s.accepted, e ∈ t.accepted) ∧ CacheProv t ∧ CbsFrom t.accepted L := by
  induction hr with
  | nil => exact ⟨fun _ h => h, hc, fun _ _ _ _ _ _ h => nomatch h⟩
  | env _ _ _ _ h4 h5 ih => simp only [CacheProv, h4, h5]; exact ih
  | call fuel call _ htop _ ih =>
    obtain ⟨a, b, c⟩ := exec_cb_provenance fuel call _ ih.2.1 htop.2
    refine ⟨fun e he => a e (ih.1 e he), b, ?_⟩
    intro id st t r qa qb hm
    rcases List.mem_append.mp hm with hm | hm
    · exact (ih.2.2 id st t r qa qb hm).mono a
    · exact c id st t r qa qb hm

/-- **R1 (flat fold), for causal runs.**  `cid` is created during the run (`s.nextClient ≤ cid`; client ids in `s`
    are below `s.nextClient`, which `C01.Inv` guarantees).  If every completion delivered to `cid` comes while one of
    its sub-requests is outstanding (`Causal`), then the sub-requests started for `cid` are exactly
    `(clientRun …).sent` and the completion handed to its user callback is exactly `(clientRun …).fin`, for
    `clientRun` on the completions delivered to `cid`, in order. -/
theorem RunC.fold {s t : St} {L : CLog} (hr : RunC s t L) (cid : Nat) (hnew : s.nextClient ≤ cid)
    (hids : ∀ c ∈ s.clients, c.id < s.nextClient) (hc : Causal cid L)
    (k : String) (tok : Nat) (re : List Nat) (sp : ReqSpec) (f : Nat) (hs : CItem.start cid k tok re sp f ∈ L) :
    sentOf cid L = (clientRun s.cfg cid k tok re sp f (evsOf cid L)).sent ∧
    finsOf cid L = (clientRun s.cfg cid k tok re sp f (evsOf cid L)).fin.toList :=
  fold_of_replay s.cfg cid _ _ L hr.replays.2 ⟨hnew, hids, fun _ h => by cases h⟩ hc (fun _ h => by cases h)
    k tok re sp f hs

end Cares.Chan
