import CaresModel.Chan.Core
/-!
# C01 — skeleton of the channel state

The ownership / index invariant of the channel model only reads a small part of the state: for each
query its `(key, qid, owner, conn)`, for each connection `(fd, srv, tcp, unlinked, queries)`, for each
server `(id, conns, tcpConn)`, for each compound request `(id, tok, outstanding)`, the descriptor numbers of the
virtual sockets, the index lists, the allocation counters, the token accounting and the safety-fault
log.  `St.sk` projects the state onto that skeleton; every helper of `Chan.Core` that only touches other
fields satisfies `(f s).sk = s.sk` (tagged `@[simp]`), so all invariants (stated over the skeleton) are
transported through them by rewriting.
-/
namespace Cares.Chan

structure QSk where
  key : Nat
  qid : Nat
  owner : Owner
  conn : Option Nat
  deriving Repr, DecidableEq

structure CSk where
  fd : Nat
  srv : Nat
  tcp : Bool
  unlinked : Bool
  queries : List Nat
  deriving Repr, DecidableEq

structure SSk where
  id : Nat
  conns : List Nat
  tcpConn : Option Nat
  deriving Repr, DecidableEq

structure KSk where
  id : Nat
  tok : Nat
  /-- ghost measure: sub-requests the compound request is still waiting for (see `Client.outstanding`) -/
  out : Nat
  deriving Repr, DecidableEq

def Query.sk (q : Query) : QSk := ⟨q.key, q.qid, q.owner, q.conn⟩
def Conn.sk (c : Conn) : CSk := ⟨c.fd, c.srv, c.tcp, c.unlinked, c.queries⟩
def Server.sk (v : Server) : SSk := ⟨v.id, v.conns, v.tcpConn⟩
/-- how many completion callbacks of sub-requests the compound request still expects, as far as its own
    bookkeeping is concerned: `ares_getaddrinfo` counts them in `remaining`; `ares_query` / `ares_search`
    always wait for exactly one.  The *client contract* (`ChanWfContract`) says the pure client logic keeps
    this number right and completes only when it reaches zero. -/
def Client.outstanding (c : Client) : Nat := if c.kind == "gai" then c.remaining else 1

def Client.sk (c : Client) : KSk := ⟨c.id, c.tok, c.outstanding⟩

structure Sk where
  qs : List QSk
  conns : List CSk
  servers : List SSk
  clients : List KSk
  socks : List Nat
  all : List Nat
  byQid : List (Nat × Nat)
  byTimeout : List Nat
  pendingOrder : List Nat
  listCopy : List (List Nat)
  nextKey : Nat
  nextFd : Nat
  nextClient : Nat
  reactSeq : Nat
  pendingToks : List Nat
  doneToks : List Nat
  faults : List String

def St.sk (s : St) : Sk where
  qs := s.qs.map Query.sk
  conns := s.conns.map Conn.sk
  servers := s.servers.map Server.sk
  clients := s.clients.map Client.sk
  socks := s.socks.map (·.fd)
  all := s.all
  byQid := s.byQid
  byTimeout := s.byTimeout
  pendingOrder := s.pendingOrder
  listCopy := s.listCopy
  nextKey := s.nextKey
  nextFd := s.nextFd
  nextClient := s.nextClient
  reactSeq := s.reactSeq
  pendingToks := s.pendingToks
  doneToks := s.doneToks
  faults := s.modelFaults

/-! ### generic updates on the skeleton -/

def Sk.modQ (a : Sk) (k : Nat) (g : QSk → QSk) : Sk :=
  { a with qs := a.qs.map fun e => if e.key == k then g e else e }
def Sk.modC (a : Sk) (fd : Nat) (g : CSk → CSk) : Sk :=
  { a with conns := a.conns.map fun e => if e.fd == fd then g e else e }
def Sk.modS (a : Sk) (id : Nat) (g : SSk → SSk) : Sk :=
  { a with servers := a.servers.map fun e => if e.id == id then g e else e }

theorem map_if_id {α} (l : List α) (p : α → Bool) (g : α → α) (h : ∀ x ∈ l, p x = true → g x = x) :
    (l.map fun e => if p e then g e else e) = l := by
  induction l with
  | nil => rfl
  | cons x r ih =>
    simp only [List.map_cons]
    rw [ih (fun y hy => h y (List.mem_cons_of_mem _ hy))]
    by_cases hp : p x = true
    · simp [hp, h x (List.mem_cons_self) hp]
    · simp [hp]

theorem Sk.modQ_id (a : Sk) (k : Nat) (g : QSk → QSk) (h : ∀ e ∈ a.qs, e.key = k → g e = e) :
    a.modQ k g = a := by
  unfold Sk.modQ
  rw [map_if_id a.qs (fun e => e.key == k) g (fun x hx hp => h x hx (by simpa using hp))]
theorem Sk.modC_id (a : Sk) (fd : Nat) (g : CSk → CSk) (h : ∀ e ∈ a.conns, e.fd = fd → g e = e) :
    a.modC fd g = a := by
  unfold Sk.modC
  rw [map_if_id a.conns (fun e => e.fd == fd) g (fun x hx hp => h x hx (by simpa using hp))]
theorem Sk.modS_id (a : Sk) (id : Nat) (g : SSk → SSk) (h : ∀ e ∈ a.servers, e.id = id → g e = e) :
    a.modS id g = a := by
  unfold Sk.modS
  rw [map_if_id a.servers (fun e => e.id == id) g (fun x hx hp => h x hx (by simpa using hp))]

/-! ### skeleton of the generic state updates -/

theorem map_sk_if {α β} (l : List α) (sk : α → β) (p : α → Bool) (p' : β → Bool) (f : α → α) (g : β → β)
    (hp : ∀ x, p' (sk x) = p x) (hf : ∀ x, sk (f x) = g (sk x)) :
    (l.map fun x => if p x then f x else x).map sk = (l.map sk).map fun e => if p' e then g e else e := by
  simp only [List.map_map]
  apply List.map_congr_left
  intro x _
  simp only [Function.comp, hp]
  split <;> simp [hf]

theorem sk_modQuery (s : St) (k : Nat) (f : Query → Query) (g : QSk → QSk)
    (h : ∀ q, (f q).sk = g q.sk) : (s.modQuery k f).sk = s.sk.modQ k g := by
  unfold St.modQuery St.sk Sk.modQ
  simp only
  rw [map_sk_if s.qs Query.sk (fun x => x.key == k) (fun e => e.key == k) f g (fun _ => rfl) h]
theorem sk_modConn (s : St) (fd : Nat) (f : Conn → Conn) (g : CSk → CSk)
    (h : ∀ q, (f q).sk = g q.sk) : (s.modConn fd f).sk = s.sk.modC fd g := by
  unfold St.modConn St.sk Sk.modC
  simp only
  rw [map_sk_if s.conns Conn.sk (fun x => x.fd == fd) (fun e => e.fd == fd) f g (fun _ => rfl) h]
theorem sk_modServer (s : St) (id : Nat) (f : Server → Server) (g : SSk → SSk)
    (h : ∀ q, (f q).sk = g q.sk) : (s.modServer id f).sk = s.sk.modS id g := by
  unfold St.modServer St.sk Sk.modS
  simp only
  rw [map_sk_if s.servers Server.sk (fun x => x.id == id) (fun e => e.id == id) f g (fun _ => rfl) h]

/-- an update of a query that keeps `(key, qid, owner, conn)` is invisible in the skeleton -/
theorem sk_modQuery_same (s : St) (k : Nat) (f : Query → Query) (h : ∀ q, (f q).sk = q.sk) :
    (s.modQuery k f).sk = s.sk := by
  rw [sk_modQuery s k f id h, Sk.modQ_id]; intros; rfl
theorem sk_modConn_same (s : St) (fd : Nat) (f : Conn → Conn) (h : ∀ q, (f q).sk = q.sk) :
    (s.modConn fd f).sk = s.sk := by
  rw [sk_modConn s fd f id h, Sk.modC_id]; intros; rfl
theorem sk_modServer_same (s : St) (i : Nat) (f : Server → Server) (h : ∀ q, (f q).sk = q.sk) :
    (s.modServer i f).sk = s.sk := by
  rw [sk_modServer s i f id h, Sk.modS_id]; intros; rfl

theorem sk_modSock (s : St) (fd : Nat) (f : VSock → VSock) (h : ∀ v, (f v).fd = v.fd) :
    (s.modSock fd f).sk = s.sk := by
  unfold St.modSock St.sk
  simp only [List.map_map, Sk.mk.injEq, true_and, and_true]
  apply List.map_congr_left
  intro x _
  simp only [Function.comp]
  split <;> simp [h]

theorem sk_setSock (s : St) (v : VSock) : (s.setSock v).sk = s.sk := by
  unfold St.setSock St.sk
  simp only [List.map_map, Sk.mk.injEq, true_and, and_true]
  apply List.map_congr_left
  intro x _
  simp only [Function.comp]
  split
  · rename_i h; simpa using (beq_iff_eq.mp h).symm
  · rfl

theorem sk_modClient (s : St) (id : Nat) (f : Client → Client) (h : ∀ c, c.id = id → (f c).sk = c.sk) :
    (s.modClient id f).sk = s.sk := by
  unfold St.modClient St.sk
  simp only [List.map_map, Sk.mk.injEq, true_and, and_true]
  apply List.map_congr_left
  intro x _
  simp only [Function.comp]
  split
  · rename_i hx; exact h x (beq_iff_eq.mp hx)
  · rfl

end Cares.Chan
