import CaresLemmas.ChanPolicyWritesExec
/-!
# C06 — the accounting through `ares_send_query` (blocks of `bodySendQuery`) and `ares_send_nolock`
-/
namespace Cares.Chan
set_option linter.unusedVariables false

/-! ### the fuel flag is never cleared -/

def IsOof (s : St) : Prop := s.outOfFuel = true

theorem IsOof.congr {s s' : St} (h0 : s'.cfg = s.cfg) (h1 : s'.outOfFuel = s.outOfFuel) (h : IsOof s) : IsOof s' := by
  unfold IsOof at *; rw [h1]; exact h

theorem IsOof.oof {s : St} (h : IsOof s) : IsOof s.oof.1 := rfl

chan_simple_lemmas IsOof : IsOof =>
  emit slog ofault mfault setQuery setConn setServer setSock modQuery modConn modServer modSock modClient
  cacheExpire

macro "oof_congr" : tactic => `(tactic| (
  refine IsOof.congr (s := ?s0) ?h0 ?h1 ?hI
  case h0 => (dsimp only; exact rfl)
  case h1 => exact rfl))

macro "oof_spec" : tactic => `(tactic| with_reducible (first
  | apply IsOof.emit | apply IsOof.slog | apply IsOof.ofault | apply IsOof.mfault | apply IsOof.oof
  | apply IsOof.setQuery | apply IsOof.setConn | apply IsOof.setServer | apply IsOof.setSock | apply IsOof.modQuery
  | apply IsOof.modConn | apply IsOof.modServer | apply IsOof.modSock | apply IsOof.modClient | apply IsOof.cacheExpire))

macro "oof_step " hgo:term : tactic => `(tactic| chan_step $hgo, oof_spec, oof_congr)

chan_invariant oof : IsOof oofBy (fun _ _ => rfl)
  leafBy (repeat' (first
                  | oof_step hgo
                  | with_reducible apply sqChoose_oof hgo
                  | with_reducible apply sqOpen_oof hgo
                  | with_reducible apply sqPrep_oof hgo
                  | with_reducible apply sqWrite_oof hgo
                  | with_reducible apply sqDeadline_oof hgo
                  | with_reducible apply sqCommit_oof hgo
                  | with_reducible apply sqAfter_oof hgo
                  | (with_reducible apply foldl_inv; intro _ _ _)))
  exceptBodies

/-! ### connection kinds as the projection sees them -/

theorem kindOf_conn? (s : St) (fd : Nat) : kindOfL (cproj s).kinds fd = (s.conn? fd).map (·.tcp) := by
  unfold kindOfL cproj St.conn?
  dsimp only
  generalize s.conns = l
  induction l with
  | nil => rfl
  | cons c r ih =>
    simp only [List.map_cons, List.find?_cons]
    by_cases hc : c.fd == fd
    · simp [hc]
    · simp only [hc]; exact ih

theorem kinds_mem_of_conn? {s : St} {fd : Nat} {c : Conn} (h : s.conn? fd = some c) :
    (c.fd, c.tcp) ∈ (cproj s).kinds ∧ c.fd = fd := by
  have hm := List.mem_of_find?_eq_some h
  have hp := List.find?_some h
  exact ⟨List.mem_map.2 ⟨c, hm, rfl⟩, by simpa using hp⟩

section
variable {tr ns : Nat} {cw ex : Option Nat}

/-! ### `sqChoose` -/

theorem cproj_sqChoose (reqSrv : Option Nat) (s : St) :
    cproj (sqChoose reqSrv s).2 = cproj s ∧ (sqChoose reqSrv s).2.outOfFuel = s.outOfFuel ∧
    (sqChoose reqSrv s).2.servers = s.servers := by
  unfold sqChoose
  split
  · exact ⟨rfl, rfl, rfl⟩
  · dsimp only
    split
    · split
      · exact ⟨rfl, rfl, rfl⟩
      · unfold St.draw1
        split <;> exact ⟨rfl, rfl, rfl⟩
    · exact ⟨rfl, rfl, rfl⟩

/-- the server `sqChoose` returns is one of the configured ones -/
theorem sqChoose_mem (reqSrv : Option Nat) (s : St) (srv : Server) (s1 : St)
    (h : sqChoose reqSrv s = (some srv, s1)) : srv ∈ s.servers := by
  have hs : ∀ (i : Nat) (v : Server), s.sortedServers[i]? = some v → v ∈ s.servers := by
    intro i v hv
    have hm : v ∈ s.sortedServers := List.mem_of_getElem? hv
    unfold St.sortedServers at hm
    have hperm : ∀ (l acc : List Server), (l.foldl (fun acc v => insertServer v acc) acc).Perm (l ++ acc) := by
      intro l
      induction l with
      | nil => intro acc; exact List.Perm.refl _
      | cons x r ih =>
        intro acc
        simp only [List.foldl_cons, List.cons_append]
        refine (ih _).trans ?_
        have hins : ∀ (v : Server) (l : List Server), (insertServer v l).Perm (v :: l) := by
          intro v l
          induction l with
          | nil => exact List.Perm.refl _
          | cons y t iht =>
            unfold insertServer
            split
            · exact List.Perm.refl _
            · exact (List.Perm.cons y iht).trans (List.Perm.swap v y t)
        exact (List.Perm.append_left r (hins x acc)).trans List.perm_middle
    have := (hperm s.servers []).mem_iff.1 hm
    simpa using this
  unfold sqChoose at h
  split at h
  · simp only [Prod.mk.injEq] at h
    exact List.mem_of_find?_eq_some h.1
  · dsimp only at h
    split at h
    · split at h
      · simp at h
      · simp only [Prod.mk.injEq] at h
        exact hs _ _ h.1
    · simp only [Prod.mk.injEq] at h
      cases hl : s.sortedServers with
      | nil => rw [hl] at h; simp at h
      | cons x r =>
        rw [hl] at h
        simp only [List.head?_cons, Option.some.injEq] at h
        rw [← h.1]; exact hs 0 x (by rw [hl]; rfl)

/-! ### `sqOpen` -/

theorem COk.bumpFd {p : CP} (h : COk tr ns cw ex p) : COk tr ns cw ex { p with nextFd := p.nextFd + 1 } :=
  { h with
    kindLt := fun e he => by have := h.kindLt e he; show e.1 < p.nextFd + 1; omega
    tcpOk := fun o ho fd hfd =>
      ⟨by have := (h.tcpOk o ho fd hfd).1; show fd < p.nextFd + 1; omega, (h.tcpOk o ho fd hfd).2⟩
    attLt := fun q hq fd hc => by have := h.attLt q hq fd hc; show fd < p.nextFd + 1; omega }

theorem CInv.bumpFd {s s' : St} (h0 : s'.cfg = s.cfg) (h1 : cproj s' = { cproj s with nextFd := s.nextFd + 1 })
    (h2 : s'.outOfFuel = s.outOfFuel) (h : CInv tr ns cw ex s) : CInv tr ns cw ex s' := by
  refine CInv.lift h h2 ?_
  intro hok; rw [h1]; exact COk.bumpFd hok

/-- "the projection of this state is `p`, its fuel flag `o`" — used to follow a state through the plain helpers -/
def ProjIs (p : CP) (o : Bool) (s : St) : Prop := cproj s = p ∧ s.outOfFuel = o

theorem ProjIs.congr {p : CP} {o : Bool} {s s' : St} (h0 : s'.cfg = s.cfg) (h1 : cproj s' = cproj s)
    (h2 : s'.outOfFuel = s.outOfFuel) (h : ProjIs p o s) : ProjIs p o s' := by
  unfold ProjIs at *; rw [h1, h2]; exact h

theorem ProjIs.bump {p : CP} {o : Bool} {s s' : St} (h0 : s'.cfg = s.cfg)
    (h1 : cproj s' = { cproj s with nextFd := s.nextFd + 1 }) (h2 : s'.outOfFuel = s.outOfFuel)
    (h : ProjIs p o s) : ProjIs { p with nextFd := p.nextFd + 1 } o s' := by
  unfold ProjIs at *
  refine ⟨?_, by rw [h2]; exact h.2⟩
  rw [h1]
  have : s.nextFd = p.nextFd := by rw [← h.1]; rfl
  rw [this, h.1]

section
variable {p : CP} {o : Bool}
chan_simple_lemmas ProjIs : (ProjIs p o) => emit slog ofault mfault setSock modSock modClient cacheExpire
end

macro "projis_chain" : tactic => `(tactic| repeat' (first
  | assumption
  | exact ⟨rfl, rfl⟩
  | (with_reducible apply pair_fst; assumption)
  | (with_reducible apply pair_snd; assumption)
  | with_reducible (first
      | apply ProjIs.emit | apply ProjIs.slog | apply ProjIs.ofault | apply ProjIs.mfault
      | apply ProjIs.setSock | apply ProjIs.modSock | apply ProjIs.modClient | apply ProjIs.cacheExpire)
  | with_reducible chan_elim
  | peel_raw ProjIs.congr
  | peel_raw ProjIs.bump
  | unfold_state_let
  | split))

theorem cproj_addConn (s : St) (c : Conn) :
    cproj { s with conns := s.conns ++ [c] } = { cproj s with kinds := (cproj s).kinds ++ [(c.fd, c.tcp)] } := by
  simp [cproj]

theorem cproj_modServer (s : St) (id : Nat) (f : Server → Server) :
    cproj (s.modServer id f) =
      { cproj s with tcpConns := (s.servers.map fun x => if x.id == id then f x else x).map (·.tcpConn) } := by
  unfold cproj St.modServer; simp

/-- a new connection: the state `sA` is `s` with the descriptor counter bumped; `sB` adds the connection `c` with the
    old counter value as descriptor and sets the servers' `tcpConn` fields to old values, `none`, or (TCP only) `c` -/
theorem CInv.openConn {s sA sB : St} (h : CInv tr ns cw ex s)
    (hA : ProjIs { cproj s with nextFd := s.nextFd + 1 } s.outOfFuel sA)
    (c : Conn) (hc : c.fd = s.nextFd) (t' : List (Option Nat))
    (hB : cproj sB = { cproj sA with kinds := (cproj sA).kinds ++ [(c.fd, c.tcp)], tcpConns := t' })
    (ht : ∀ o ∈ t', o ∈ (cproj sA).tcpConns ∨ o = none ∨ (o = some c.fd ∧ c.tcp = true))
    (hBo : sB.outOfFuel = sA.outOfFuel) : CInv tr ns cw ex sB := by
  refine CInv.lift h (by rw [hBo, hA.2]) ?_
  intro hok
  have := COk.newConn c.tcp t' (p := cproj s) (by
    intro o ho
    rcases ht o ho with h1 | h1 | ⟨h1, h2⟩
    · left; rw [hA.1] at h1; exact h1
    · exact Or.inr (Or.inl h1)
    · right; right; rw [hc] at h1; exact ⟨h1, h2⟩) hok
  rw [hB, hA.1, hc]
  exact this

theorem fault_nextFd {s s' : St} {c : String} {e : Option Nat} (h : s.fault c = (e, s')) : s'.nextFd = s.nextFd := by
  have := congrArg (fun r => r.2.nextFd) h
  exact this.symm

theorem CInv.openConnA {s sA : St} (c : Conn) (h : CInv tr ns cw ex s)
    (hA : ProjIs { cproj s with nextFd := s.nextFd + 1 } s.outOfFuel sA)
    (hc' : c.fd = s.nextFd) :
    CInv tr ns cw ex { sA with conns := sA.conns ++ [c] } := by
  refine CInv.openConn h hA c hc' (cproj sA).tcpConns ?_ (fun o ho => Or.inl ho) rfl
  rw [cproj_addConn]

theorem CInv.openConnB {s sA : St} (c : Conn) (id : Nat) (f : Server → Server) (h : CInv tr ns cw ex s)
    (hA : ProjIs { cproj s with nextFd := s.nextFd + 1 } s.outOfFuel sA)
    (hc' : c.fd = s.nextFd)
    (hf : ∀ v, (f v).tcpConn = v.tcpConn ∨ (f v).tcpConn = none ∨ ((f v).tcpConn = some c.fd ∧ c.tcp = true)) :
    CInv tr ns cw ex (St.modServer { sA with conns := sA.conns ++ [c] } id f) := by
  refine CInv.openConn h hA c hc'
    ((sA.servers.map fun x => if x.id == id then f x else x).map (·.tcpConn)) ?_ ?_ rfl
  · rw [cproj_modServer, cproj_addConn]
  · intro o ho
    obtain ⟨x, hx, rfl⟩ := List.mem_map.1 ho
    obtain ⟨y, hy, rfl⟩ := List.mem_map.1 hx
    by_cases hyv : y.id == id
    · simp only [hyv, ↓reduceIte]
      rcases hf y with e | e | e
      · left; rw [e]; exact List.mem_map.2 ⟨y, hy, rfl⟩
      · right; left; exact e
      · right; right; exact e
    · simp only [hyv]; left; exact List.mem_map.2 ⟨y, hy, rfl⟩

theorem sqOpen_cg (s : St) (q : Query) (srv : Server) (existing : Option Nat) (h : CInv tr ns cw ex s) :
    CInv tr ns cw ex (sqOpen s q srv existing).2 := by
  unfold sqOpen
  chan_paths
  all_goals (repeat' (first
    | assumption
    | (with_reducible apply pair_fst; assumption)
    | (with_reducible apply pair_snd; assumption)
    | c_spec
    | with_reducible chan_elim
    | c_congr
    | (refine CInv.bumpFd (s := ?s0) ?h0 ?h1 ?h2 ?hI
       case h0 => first | (dsimp only; exact rfl) | dsimp only
       case h1 => exact rfl
       case h2 => exact rfl)
    | unfold_state_let
    | split))
  -- the two successful opens (TCP: the server's `tcpConn` is set; UDP)
  · refine CInv.openConnB (s := s) _ _ _ h ?hA ?hc ?hf
    case hc => exact fault_nextFd (by assumption)
    case hA => projis_chain
    case hf => (intro v; right; right; exact ⟨rfl, by assumption⟩)
  · refine CInv.openConnA (s := s) _ h ?hA ?hc
    case hc => exact fault_nextFd (by assumption)
    case hA => projis_chain

theorem cproj_notify (s : St) (fd : Nat) (r w : Bool) :
    cproj (s.notify fd r w) = cproj s ∧ (s.notify fd r w).outOfFuel = s.outOfFuel := by
  unfold St.notify
  split
  · exact ⟨rfl, rfl⟩
  · split
    · exact ⟨cproj_modConn _ _ _ (fun _ => ⟨rfl, rfl⟩), rfl⟩
    · exact ⟨cproj_modConn _ _ _ (fun _ => ⟨rfl, rfl⟩), rfl⟩

/-- the kinds after a successful open: the new connection has the old counter value as descriptor -/
theorem kinds_after_open {s sA : St} (c : Conn) (id : Nat) (f : Server → Server) (fd : Nat) (r w : Bool)
    (hA : ProjIs { cproj s with nextFd := s.nextFd + 1 } s.outOfFuel sA) (hc : c.fd = s.nextFd) :
    (cproj ((St.modServer { sA with conns := sA.conns ++ [c] } id f).notify fd r w)).kinds =
      (cproj s).kinds ++ [(s.nextFd, c.tcp)] := by
  rw [(cproj_notify _ _ _ _).1, cproj_modServer, cproj_addConn]
  show (cproj sA).kinds ++ [(c.fd, c.tcp)] = _
  rw [hA.1, hc]

/-- the connection `sqOpen` returns for a query that uses TCP is a TCP connection (if it exists at all) -/
theorem sqOpen_kind (s : St) (q : Query) (srv : Server) (hsrv : srv ∈ s.servers) (hok : COk tr ns cw ex (cproj s))
    (hu : q.usingTcp = true) :
    ∀ fd, (sqOpen s q srv (sqExisting s q srv)).1 = .ok fd →
      TcpIfAny (cproj (sqOpen s q srv (sqExisting s q srv)).2).kinds fd := by
  have hex : sqExisting s q srv = srv.tcpConn := by unfold sqExisting; rw [if_pos hu]
  rw [hex]
  cases htc : srv.tcpConn with
  | some fd0 =>
    intro fd hfd
    have : sqOpen s q srv (some fd0) = (.ok fd0, s) := by unfold sqOpen; rfl
    rw [this] at hfd ⊢
    simp only [Except.ok.injEq] at hfd
    subst hfd
    exact (hok.tcpOk (some fd0) (List.mem_map.2 ⟨srv, hsrv, htc⟩) fd0 rfl).2
  | none =>
    unfold sqOpen
    chan_paths
    all_goals (intro fd hfd)
    all_goals first
      | (cases ‹none = some _›; done)
      | (simp at hfd; done)
      | skip
    all_goals (
      have hfd' : fd = s.nextFd := by
        simp only [Except.ok.injEq] at hfd
        rw [← hfd]; exact fault_nextFd (by assumption)
      subst hfd'
      rw [kinds_after_open (s := s) _ _ _ _ _ _ (by projis_chain) (fault_nextFd (by assumption))]
      intro b hb
      have hlt : ∀ e ∈ (cproj s).kinds, e.1 < s.nextFd := hok.kindLt
      rw [COk.kindOfL_append_of_lt hlt, if_pos rfl] at hb
      rw [← Option.some.inj hb]
      exact hu)

/-! ### `sqPrep`: the cookie option is (re)computed, the frame is queued, the write is logged -/

/-- facts about the query being sent that the send phase carries from the choice of the connection to the commit:
    if it uses TCP the chosen connection is a TCP connection; if its cookie resends are used up it carries no cookie -/
def SendFacts (key fd : Nat) (p : CP) : Prop :=
  ∀ q ∈ p.qs, q.key = key → (q.usingTcp = true → TcpIfAny p.kinds fd) ∧ (3 ≤ q.cookieTry → q.reqCookie = none)

/-- the invariant of the send phase after the write has been logged -/
def SQ (tr ns key fd : Nat) (s : St) : Prop :=
  s.outOfFuel = true ∨ (COk tr ns none none (cproj s) ∧ SendFacts key fd (cproj s))

theorem apply_tcp_no_cookie (c : Cares.Proto.Cookie.CookieSt) (conn : Cares.Proto.Cookie.Conn)
    (now : Cares.Proto.Cookie.TimeVal) (fresh : List UInt8) (req : Cares.Proto.Cookie.ReqOpt) (h : conn.tcp = true) :
    (Cares.Proto.Cookie.apply c conn now fresh req).req.join = none := by
  unfold Cares.Proto.Cookie.apply Cares.Proto.Cookie.applyWith
  cases req with
  | none => rfl
  | some r => simp [h]

theorem map_cookie_tcpConn (l : List Server) (id : Nat) (ck : Cares.Proto.Cookie.CookieSt) :
    (l.map fun x => if x.id == id then { x with cookie := ck } else x).map (·.tcpConn) = l.map (·.tcpConn) := by
  rw [List.map_map]
  apply List.map_congr_left
  intro x _
  by_cases h : x.id == id <;> simp [Function.comp, h]

theorem cproj_sqPrep (s : St) (q : Query) (srv : Server) (key fd : Nat) :
    cproj (sqPrep s q srv key fd) =
      { cproj s with
        qs := s.qs.map (fun x => if x.key == key then
          { x with reqCookie := (sqApply s q srv fd).req.join, cookie := sqCookie (sqApply s q srv fd) } else x),
        wlog := s.writeLog ++ [key] } ∧
    (sqPrep s q srv key fd).outOfFuel = s.outOfFuel := by
  unfold sqPrep
  dsimp only
  have hpop : ∀ b : Bool, cproj (if b then s.pop8 else s) = cproj s ∧ (if b then s.pop8 else s).outOfFuel = s.outOfFuel ∧
      (if b then s.pop8 else s).qs = s.qs ∧ (if b then s.pop8 else s).writeLog = s.writeLog := by
    intro b
    cases b
    · exact ⟨rfl, rfl, rfl, rfl⟩
    · unfold St.pop8
      simp only [↓reduceIte]
      split <;> exact ⟨rfl, rfl, rfl, rfl⟩
  generalize hb : decide ((sqApply s q srv fd).draws > 0) = b
  have hif : (if (sqApply s q srv fd).draws > 0 then s.pop8 else s) = (if b then s.pop8 else s) := by
    subst hb; by_cases hd : (sqApply s q srv fd).draws > 0 <;> simp [hd]
  rw [hif]
  obtain ⟨h1, h2, h3, h4⟩ := hpop b
  generalize (if b then s.pop8 else s) = s1 at h1 h2 h3 h4
  refine ⟨?_, h2⟩
  unfold cproj St.modConn St.modQuery St.modServer at *
  simp only [CP.mk.injEq] at h1
  obtain ⟨e1, e2, e3, e4, e5, e6, e7, e8, e9, e10, e11⟩ := h1
  simp only [List.length_map, CP.mk.injEq, map_cookie_tcpConn]
  refine ⟨e1, e2, by rw [h3], e4, e5, e6, e7, by rw [h4], ?_, e10, e11⟩
  rw [← e9, List.map_map]
  apply List.map_congr_left
  intro c _
  by_cases hc : c.fd == fd <;> simp [Function.comp, hc]

theorem sqPrep_sq (s : St) (q : Query) (srv : Server) (key fd : Nat)
    (h : CInv tr ns (some key) none s)
    (hq : q ∈ s.qs ∧ q.key = key)
    (hfd' : s.outOfFuel = true ∨ (q.usingTcp = true → TcpIfAny (cproj s).kinds fd)) :
    SQ tr ns key fd (sqPrep s q srv key fd) := by
  obtain ⟨hc, ho⟩ := cproj_sqPrep s q srv key fd
  rcases h with h | hok
  · exact Or.inl (by rw [ho]; exact h)
  rcases hfd' with h | hfd0
  · exact Or.inl (by rw [ho]; exact h)
  · right
    have hfd : COk tr ns (some key) none (cproj s) → q.usingTcp = true → TcpIfAny (cproj s).kinds fd :=
      fun _ => hfd0
    obtain ⟨hqm, hqk⟩ := hq
    subst hqk
    -- the new cookie is absent once the resends are used up (the query then uses TCP, so does the connection)
    have hnone : 3 ≤ q.cookieTry → (sqApply s q srv fd).req.join = none := by
      intro h3
      have hu := hok.ck3tcp q hqm h3
      have htcp := hfd hok hu
      unfold sqApply
      apply apply_tcp_no_cookie
      show ((s.conn? fd).map (·.tcp)).getD q.usingTcp = true
      rw [← kindOf_conn?]
      cases hk : kindOfL (cproj s).kinds fd with
      | none => exact hu
      | some b => exact htcp b hk
    have hmod := COk.modKey q hqm
      (fun x => { x with reqCookie := (sqApply s q srv fd).req.join, cookie := sqCookie (sqApply s q srv fd) })
      (some q.key) none ⟨rfl, rfl⟩ (Or.inr rfl) (Or.inr rfl) (Or.inl rfl) (Or.inl rfl) hok
      (fun c hc => hc) (hok.ck3 q hqm) (hok.ck3tcp q hqm)
      (fun _ h3 => Or.inl (hnone h3))
      (fun _ hu fd' hc => hok.attTcp q hqm (by simp) hu fd' hc)
      (fun fd' hc => hok.attLt q hqm fd' hc)
    have hmem : ({ q with reqCookie := (sqApply s q srv fd).req.join, cookie := sqCookie (sqApply s q srv fd) } : Query) ∈
        (cproj s).qs.map (fun x => if x.key == q.key then
          { x with reqCookie := (sqApply s q srv fd).req.join, cookie := sqCookie (sqApply s q srv fd) } else x) :=
      List.mem_map.2 ⟨q, hqm, by simp⟩
    have hw := COk.write ({ q with reqCookie := (sqApply s q srv fd).req.join, cookie := sqCookie (sqApply s q srv fd) } : Query) hmem hmod
    rw [hc]
    refine ⟨hw, ?_⟩
    intro x hx hxk
    obtain ⟨x0, hx0, rfl⟩ := List.mem_map.1 hx
    by_cases hk : x0.key == q.key
    · have : x0 = q := hok.eq_of_key hx0 hqm (by simpa using hk)
      subst this
      simp only [hk, ↓reduceIte]
      exact ⟨fun hu => hfd hok hu, fun h3 => hnone h3⟩
    · simp only [hk] at hxk
      exact absurd hxk (by simpa using hk)

theorem SQ.toCInv {key fd : Nat} {s : St} (h : SQ tr ns key fd s) : CInv tr ns none none s := by
  rcases h with h | h
  · exact Or.inl h
  · exact Or.inr h.1

theorem SQ.ofFlush {key fd : Nat} {s r : St} (h : SQ tr ns key fd s) (hf : FlushRel s r) : SQ tr ns key fd r := by
  rcases h with h | ⟨hok, hfa⟩
  · exact Or.inl (hf.1 h)
  · rcases hf.2 with hr | ⟨g, hg, e⟩
    · exact Or.inl hr
    · right
      rw [e]
      refine ⟨COk.mapQs (coreEq_nameOnly hg) hok, ?_⟩
      intro x hx hxk
      obtain ⟨x0, hx0, rfl⟩ := List.mem_map.1 hx
      obtain ⟨nm, en⟩ := hg x0
      rw [en] at hxk ⊢
      exact hfa x0 hx0 hxk

theorem sqWrite_sq {go : Call → St → St × Ret} (hgo : GoC tr ns go) (key fd : Nat) (s : St)
    (h : SQ tr ns key fd s) : SQ tr ns key fd (sqWrite go s fd).2 := by
  unfold sqWrite
  dsimp only
  split
  · exact h
  · split
    · rcases h with h | h
      · exact Or.inl h
      · exact Or.inr h
    · exact SQ.ofFlush h (hgo.flush fd s s (FlushRel.refl s))

theorem cproj_sqCommit (s : St) (q : Query) (key fd : Nat) (dl : Deadline) :
    cproj (sqCommit s q key fd dl) =
      { cproj s with qs := s.qs.map (fun x => if x.key == key then
          { x with ts := s.now, deadline := dl, conn := some fd, inConnList := true } else x) } ∧
    (sqCommit s q key fd dl).outOfFuel = s.outOfFuel := by
  unfold sqCommit
  dsimp only
  cases q.conn with
  | none =>
    refine ⟨?_, rfl⟩
    dsimp only
    rw [cproj_modConn]
    · rfl
    · intro _; exact ⟨rfl, rfl⟩
  | some old =>
    refine ⟨?_, rfl⟩
    dsimp only
    rw [cproj_modConn]
    · unfold cproj St.modQuery St.modConn
      simp only [List.map_map, CP.mk.injEq, true_and, and_true]
      apply List.map_congr_left
      intro c _
      dsimp only [Function.comp]
      split <;> rfl
    · intro _; exact ⟨rfl, rfl⟩

/-- the commit: the query gets attached to `fd` -/
theorem sqCommit_c {key fd : Nat} (s : St) (q : Query) (dl : Deadline)
    (h : SQ tr ns key fd s) (hq : s.query? key = some q) (hconn : ∃ c, s.conn? fd = some c) :
    CInv tr ns none none (sqCommit s q key fd dl) := by
  obtain ⟨hc, ho⟩ := cproj_sqCommit s q key fd dl
  rcases h with h | ⟨hok, hfa⟩
  · exact Or.inl (by rw [ho]; exact h)
  · right
    have hqm : q ∈ s.qs := query?_mem hq
    have hqk : q.key = key := query?_key hq
    subst hqk
    obtain ⟨c, hcn⟩ := hconn
    obtain ⟨hkm, hkf⟩ := kinds_mem_of_conn? hcn
    have hfdlt : fd < s.nextFd := by
      have := hok.kindLt _ hkm
      rw [hkf] at this; exact this
    have hf := hfa q hqm rfl
    rw [hc]
    exact COk.modKey q hqm
      (fun x => { x with ts := s.now, deadline := dl, conn := some fd, inConnList := true })
      none none ⟨rfl, rfl⟩ (Or.inl rfl) (Or.inl rfl) (Or.inl rfl) (Or.inl rfl) hok
      (fun c hc => hc) (hok.ck3 q hqm) (hok.ck3tcp q hqm)
      (fun _ h3 => Or.inl (hf.2 h3))
      (fun _ hu fd' hc' => by
        have : fd' = fd := (Option.some.inj hc').symm
        subst this; exact hf.1 hu)
      (fun fd' hc' => by
        have : fd' = fd := (Option.some.inj hc').symm
        subst this; exact hfdlt)

theorem sqDeadline_cframe (s : St) (a : Server) (t : Nat) :
    (cproj (sqDeadline s a t).2 = cproj s ∨ cproj (sqDeadline s a t).2 = { cproj s with rnd2 := s.obs.rnd2.tail }) ∧
    (sqDeadline s a t).2.outOfFuel = s.outOfFuel ∧ (sqDeadline s a t).2.qs = s.qs ∧
    (sqDeadline s a t).2.conns = s.conns := by
  unfold sqDeadline
  dsimp only
  split
  · refine ⟨Or.inr (cproj_draw2 s).1, (cproj_draw2 s).2, ?_, ?_⟩
    · unfold St.draw2; split <;> rfl
    · unfold St.draw2; split <;> rfl
  · exact ⟨Or.inl rfl, rfl, rfl, rfl⟩

theorem sqDeadline_sq {key fd : Nat} (s : St) (a : Server) (t : Nat) (h : SQ tr ns key fd s) :
    SQ tr ns key fd (sqDeadline s a t).2 := by
  obtain ⟨hc, ho, _, _⟩ := sqDeadline_cframe s a t
  rcases h with h | ⟨hok, hfa⟩
  · exact Or.inl (by rw [ho]; exact h)
  · right
    rcases hc with e | e
    · rw [e]; exact ⟨hok, hfa⟩
    · rw [e]; exact ⟨COk.shrinkRnd (List.tail_sublist _) hok, hfa⟩

theorem commit_after_deadline {key fd : Nat} (s : St) (a : Server) (q : Query) (c : Conn)
    (h : SQ tr ns key fd s) (hq : s.query? key = some q) (hc : s.conn? fd = some c) :
    CInv tr ns none none
      (sqCommit (sqDeadline s a q.tryCount).2 q key fd (sqDeadline s a q.tryCount).1) := by
  obtain ⟨_, _, hqs, hcs⟩ := sqDeadline_cframe s a q.tryCount
  apply sqCommit_c _ _ _ (sqDeadline_sq s a q.tryCount h)
  · unfold St.query?; rw [hqs]; exact hq
  · exact ⟨c, by unfold St.conn?; rw [hcs]; exact hc⟩

theorem commit_after_deadline' {key fd : Nat} {s s1 : St} {a : Server} {q : Query} {c : Conn} {dl : Deadline}
    (h : SQ tr ns key fd s) (hq : s.query? key = some q) (hc : s.conn? fd = some c)
    (hdl : sqDeadline s a q.tryCount = (dl, s1)) :
    CInv tr ns none none (sqCommit s1 q key fd dl) := by
  have := commit_after_deadline (tr := tr) (ns := ns) s a q c h hq hc
  rw [hdl] at this; exact this

theorem sqAfter_c {go : Call → St → St × Ret} (hgo : GoC tr ns go) (q : Query) (srv : Server) (key fd : Nat)
    (pd : Bool) (wst : Status) (s : St) (h : SQ tr ns key fd s) :
    CInv tr ns none none (sqAfter go q srv key fd pd wst s).1 := by
  have hC : CInv tr ns none none s := h.toCInv
  unfold sqAfter
  chan_paths
  all_goals first
    | ((repeat' (c_step hgo)); done)
    | skip
  -- the two commits (with and without the probe)
  · apply pair_fst ‹go _ _ = _›
    apply hgo.inv
    show CInv _ _ _ _ _
    exact commit_after_deadline' h ‹_› ‹_› ‹_›
  · exact commit_after_deadline' h ‹_› ‹_› ‹_›

/-! ### the queries are not touched by the connection set-up -/

def QsIs (l : List Query) (s : St) : Prop := s.qs = l

theorem QsIs.congr {l : List Query} {s s' : St} (h0 : s'.cfg = s.cfg) (h1 : s'.qs = s.qs) (h : QsIs l s) :
    QsIs l s' := by
  unfold QsIs at *; rw [h1]; exact h

section
variable {l : List Query}
chan_simple_lemmas QsIs : (QsIs l) =>
  emit slog ofault mfault setConn setServer setSock modConn modServer modSock modClient cacheExpire
end

theorem sqOpen_qs (s : St) (q : Query) (srv : Server) (existing : Option Nat) :
    (sqOpen s q srv existing).2.qs = s.qs := by
  have h : QsIs s.qs s := rfl
  show QsIs s.qs (sqOpen s q srv existing).2
  unfold sqOpen
  chan_paths
  all_goals (repeat' (first
    | assumption
    | (with_reducible apply pair_fst; assumption)
    | (with_reducible apply pair_snd; assumption)
    | with_reducible (first
        | apply QsIs.emit | apply QsIs.slog | apply QsIs.ofault | apply QsIs.mfault | apply QsIs.setConn
        | apply QsIs.setServer | apply QsIs.setSock | apply QsIs.modConn | apply QsIs.modServer
        | apply QsIs.modSock | apply QsIs.modClient | apply QsIs.cacheExpire)
    | with_reducible chan_elim
    | peel_raw QsIs.congr
    | unfold_state_let
    | split))

theorem sendQueryBlocks_c {go : Call → St → St × Ret} (hgo : GoC tr ns go) (reqSrv : Option Nat) (key : Nat)
    (s : St) (h : CInv tr ns (some key) none s) :
    CInv tr ns none none (sendQueryBlocks go reqSrv key s).1 := by
  unfold sendQueryBlocks
  split
  · exact CInv.mfault h.dropW
  · rename_i q hq
    have hqm : q ∈ s.qs ∧ q.key = key := ⟨query?_mem hq, query?_key hq⟩
    extract_lets sorted
    split
    rename_i srv? s1 hch
    obtain ⟨hc1, ho1, hs1⟩ : cproj s1 = cproj s ∧ s1.outOfFuel = s.outOfFuel ∧ s1.servers = s.servers := by
      have := cproj_sqChoose reqSrv s; rw [hch] at this; exact this
    have h1 : CInv tr ns (some key) none s1 := CInv.lift h ho1 (fun hok => by rw [hc1]; exact hok)
    split
    · exact hgo.inv (.endQuery none key .noserver none) s1 h1.dropW
    · rename_i srv
      have hsrv : srv ∈ s1.servers := by rw [hs1]; exact sqChoose_mem reqSrv s srv s1 hch
      extract_lets s2 probeDowned existing
      have h2 : CInv tr ns (some key) none s2 := CInv.congr (s := s1) rfl rfl rfl h1
      split
      rename_i connRes s3 hop
      have h3 : CInv tr ns (some key) none s3 := by
        have := sqOpen_cg s2 q srv existing h2; rw [hop] at this; exact this
      have hq3 : q ∈ s3.qs ∧ q.key = key := by
        have e3 : s3.qs = s2.qs := by have := sqOpen_qs s2 q srv existing; rw [hop] at this; exact this
        have e1 : s1.qs = s.qs := congrArg CP.qs hc1
        refine ⟨?_, hqm.2⟩
        rw [e3]; show q ∈ s1.qs; rw [e1]; exact hqm.1
      split
      · rename_i st
        exact hgo.inv (.requeue key st true none false) _ (CInv.incFailures h3.dropW)
      · rename_i fd
        extract_lets cookie newCk s4 q'
        split
        rename_i wst s5 hw
        have hfd : s3.outOfFuel = true ∨ (q.usingTcp = true → TcpIfAny (cproj s3).kinds fd) := by
          rcases h2 with h2 | hok2
          · left
            have := sqOpen_oof (go := fun _ s => (s, Status.ok)) (fun _ _ h => h) s2 q srv existing h2
            rw [hop] at this; exact this
          · right
            intro hu
            have := sqOpen_kind s2 q srv hsrv hok2 hu fd (by
              show (sqOpen s2 q srv existing).1 = _; rw [hop])
            have e : sqOpen s2 q srv (sqExisting s2 q srv) = (Except.ok fd, s3) := hop
            rw [e] at this; exact this
        have hsq4 : SQ tr ns key fd s4 := sqPrep_sq s3 q srv key fd h3 hq3 hfd
        have hsq5 : SQ tr ns key fd s5 := by
          have := sqWrite_sq hgo key fd s4 hsq4; rw [hw] at this; exact this
        exact sqAfter_c hgo _ srv key fd _ wst s5 hsq5

end
end Cares.Chan
