import CaresLemmas.ChanPolicyWritesExec
/-!
# C06 — the accounting through `ares_send_query` (blocks of `bodySendQuery`) and `ares_send_nolock`
-/
namespace Cares.Chan
set_option linter.unusedVariables false

/-! ### the fuel flag is never cleared -/

def IsOof (s : St) : Prop := s.outOfFuel = true

theorem IsOof.congr {s s' : St} (h0 : s'.cfg = s.cfg) (h1 : s'.outOfFuel = s.outOfFuel) (h : IsOof s) : IsOof s' := by
  unfold IsOof at *; rw [h1]; exact h

theorem IsOof.oof {s : St} (h : IsOof s) : IsOof s.oof.1 := rfl

chan_simple_lemmas IsOof : IsOof =>
  emit slog ofault mfault setQuery setConn setServer setSock modQuery modConn modServer modSock modClient
  cacheExpire

macro "oof_congr" : tactic => `(tactic| (
  refine IsOof.congr (s := ?s0) ?h0 ?h1 ?hI
  case h0 => (dsimp only; exact rfl)
  case h1 => exact rfl))

macro "oof_spec" : tactic => `(tactic| with_reducible (first
  | apply IsOof.emit | apply IsOof.slog | apply IsOof.ofault | apply IsOof.mfault | apply IsOof.oof
  | apply IsOof.setQuery | apply IsOof.setConn | apply IsOof.setServer | apply IsOof.setSock | apply IsOof.modQuery
  | apply IsOof.modConn | apply IsOof.modServer | apply IsOof.modSock | apply IsOof.modClient | apply IsOof.cacheExpire))

macro "oof_step " hgo:term : tactic => `(tactic| chan_step $hgo, oof_spec, oof_congr)

chan_invariant oof : IsOof oofBy (fun _ _ => rfl)
  leafBy (repeat' (first
                  | oof_step hgo
                  | with_reducible apply sqChoose_oof hgo
                  | with_reducible apply sqOpen_oof hgo
                  | with_reducible apply sqPrep_oof hgo
                  | with_reducible apply sqWrite_oof hgo
                  | with_reducible apply sqDeadline_oof hgo
                  | with_reducible apply sqCommit_oof hgo
                  | with_reducible apply sqAfter_oof hgo
                  | (with_reducible apply foldl_inv; intro _ _ _)))
  exceptBodies

/-! ### connection kinds as the projection sees them -/

theorem kindOf_conn? (s : St) (fd : Nat) : kindOfL (cproj s).kinds fd = (s.conn? fd).map (·.tcp) := by
  unfold kindOfL cproj St.conn?
  dsimp only
  generalize s.conns = l
  induction l with
  | nil => rfl
  | cons c r ih =>
    simp only [List.map_cons, List.find?_cons]
    by_cases hc : c.fd == fd
    · simp [hc]
    · simp only [hc]; exact ih

theorem kinds_mem_of_conn? {s : St} {fd : Nat} {c : Conn} (h : s.conn? fd = some c) :
    (c.fd, c.tcp) ∈ (cproj s).kinds ∧ c.fd = fd := by
  have hm := List.mem_of_find?_eq_some h
  have hp := List.find?_some h
  exact ⟨List.mem_map.2 ⟨c, hm, rfl⟩, by simpa using hp⟩

section
variable {tr ns : Nat} {cw ex : Option Nat}

/-! ### `sqChoose` -/

theorem cproj_sqChoose (reqSrv : Option Nat) (s : St) :
    cproj (sqChoose reqSrv s).2 = cproj s ∧ (sqChoose reqSrv s).2.outOfFuel = s.outOfFuel ∧
    (sqChoose reqSrv s).2.servers = s.servers := by
  unfold sqChoose
  split
  · exact ⟨rfl, rfl, rfl⟩
  · dsimp only
    split
    · split
      · exact ⟨rfl, rfl, rfl⟩
      · unfold St.draw1
        split <;> exact ⟨rfl, rfl, rfl⟩
    · exact ⟨rfl, rfl, rfl⟩

/-- the server `sqChoose` returns is one of the configured ones -/
theorem sqChoose_mem (reqSrv : Option Nat) (s : St) (srv : Server) (s1 : St)
    (h : sqChoose reqSrv s = (some srv, s1)) : srv ∈ s.servers := by
  have hs : ∀ (i : Nat) (v : Server), s.sortedServers[i]? = some v → v ∈ s.servers := by
    intro i v hv
    have hm : v ∈ s.sortedServers := List.mem_of_getElem? hv
    unfold St.sortedServers at hm
    have hperm : ∀ (l acc : List Server), (l.foldl (fun acc v => insertServer v acc) acc).Perm (l ++ acc) := by
      intro l
      induction l with
      | nil => intro acc; exact List.Perm.refl _
      | cons x r ih =>
        intro acc
        simp only [List.foldl_cons, List.cons_append]
        refine (ih _).trans ?_
        have hins : ∀ (v : Server) (l : List Server), (insertServer v l).Perm (v :: l) := by
          intro v l
          induction l with
          | nil => exact List.Perm.refl _
          | cons y t iht =>
            unfold insertServer
            split
            · exact List.Perm.refl _
            · exact (List.Perm.cons y iht).trans (List.Perm.swap v y t)
        exact (List.Perm.append_left r (hins x acc)).trans List.perm_middle
    have := (hperm s.servers []).mem_iff.1 hm
    simpa using this
  unfold sqChoose at h
  split at h
  · simp only [Prod.mk.injEq] at h
    exact List.mem_of_find?_eq_some h.1
  · dsimp only at h
    split at h
    · split at h
      · simp at h
      · simp only [Prod.mk.injEq] at h
        exact hs _ _ h.1
    · simp only [Prod.mk.injEq] at h
      cases hl : s.sortedServers with
      | nil => rw [hl] at h; simp at h
      | cons x r =>
        rw [hl] at h
        simp only [List.head?_cons, Option.some.injEq] at h
        rw [← h.1]; exact hs 0 x (by rw [hl]; rfl)

end
end Cares.Chan
