import CaresLemmas.ChanSockBase
/-!
# Framing lemmas for the channel model (C20)

Inbound: `nextTcpFrame` (the model of `read_answers`' "tag, fetch length, consume, roll back when incomplete")
iterated over any split of the peer's byte stream into reads.
Outbound: `advanceOut` (the model of `ares_conn_flush`'s "consume what the socket accepted") iterated over any
acceptance pattern of partial writes.
-/
namespace Cares.Chan

/-! ## inbound -/

/-- a TCP stream as the virtual server builds it: the end offset of each message is the end offset of its
    predecessor (`base` for the first) plus the 2-byte length prefix plus the message length -/
def WfStream : Nat → List (Nat × Reply) → Prop
  | _, [] => True
  | base, (e, r) :: rest => e = base + 2 + r.len ∧ WfStream e rest

theorem WfStream.lt_of_mem : ∀ {base : Nat} {st : List (Nat × Reply)}, WfStream base st →
    ∀ x ∈ st, base < x.1
  | _, [], _, x, hx => by cases hx
  | base, (e, r) :: rest, h, x, hx => by
    cases hx with
    | head => have := h.1; simp only; omega
    | tail _ hx' => have := WfStream.lt_of_mem h.2 x hx'; have := h.1; omega

theorem WfStream.append_one {base : Nat} : ∀ {st : List (Nat × Reply)} {last : Nat} (r : Reply),
    WfStream base st → last = (st.getLast?.map (·.1)).getD base →
    WfStream base (st ++ [(last + 2 + r.len, r)])
  | [], last, r, _, hl => by
    simp only [List.getLast?_nil, Option.map_none, Option.getD_none] at hl
    subst hl; exact ⟨rfl, trivial⟩
  | [(e, r0)], last, r, h, hl => by
    simp only [List.getLast?_singleton, Option.map_some, Option.getD_some] at hl
    subst hl; exact ⟨h.1, rfl, trivial⟩
  | (e, r0) :: y :: rest, last, r, h, hl => by
    refine ⟨h.1, ?_⟩
    have : ((e, r0) :: y :: rest).getLast? = (y :: rest).getLast? := by simp [List.getLast?_cons_cons]
    rw [this] at hl
    have h2 := h.2
    refine WfStream.append_one (base := e) (st := y :: rest) r h2 ?_
    rw [hl]
    cases hgl : (y :: rest).getLast? with
    | none => simp at hgl
    | some z => simp

/-- messages already taken out of in_buf lie at or below the consumed offset `spos - buffered`; the others
    follow it without gap -/
structure Split (stream : List (Nat × Reply)) (consumed : Nat) (done todo : List (Nat × Reply)) : Prop where
  eq : stream = done ++ todo
  done_le : ∀ x ∈ done, x.1 ≤ consumed
  wf : WfStream consumed todo

theorem find_split {stream done todo : List (Nat × Reply)} {consumed : Nat}
    (h : Split stream consumed done todo) :
    stream.find? (fun (x : Nat × Reply) => x.1 > consumed) = todo.head? := by
  rw [h.eq, List.find?_append]
  have hd : done.find? (fun (x : Nat × Reply) => x.1 > consumed) = none := by
    rw [List.find?_eq_none]
    intro x hx
    have := h.done_le x hx
    simp only [gt_iff_lt, decide_eq_true_eq]; omega
  rw [hd]
  cases todo with
  | nil => rfl
  | cons x rest =>
    have : consumed < x.1 := WfStream.lt_of_mem h.wf x (List.mem_cons_self ..)
    simp [this]

/-- `nextTcpFrame` returns the first message not yet taken, provided its last byte has been read -/
theorem nextTcpFrame_spec {stream done todo : List (Nat × Reply)} {spos buffered : Nat}
    (h : Split stream (spos - buffered) done todo) :
    nextTcpFrame stream spos buffered =
      match todo with
      | [] => none
      | (e, r) :: _ => if e ≤ spos then some r else none := by
  unfold nextTcpFrame
  have := find_split h
  have e1 : (fun (x : Nat × Reply) => match x with | (e, _) => decide (e > spos - buffered)) =
      (fun (x : Nat × Reply) => decide (x.1 > spos - buffered)) := by
    funext x; rfl
  rw [e1, this]
  cases todo with
  | nil => rfl
  | cons x rest => rfl

/-- `read_answers`' loop: take complete frames until the next one is incomplete; returns the messages handed to
    `process_answer` in order and the bytes left in in_buf -/
def drain (stream : List (Nat × Reply)) (spos : Nat) : Nat → Nat → List Reply × Nat
  | 0, b => ([], b)
  | f + 1, b =>
    match nextTcpFrame stream spos b with
    | none => ([], b)
    | some r =>
      let res := drain stream spos f (b - (2 + r.len))
      (r :: res.1, res.2)

/-- the complete messages among `todo` when `spos` bytes have been read, and the offset consumed once they
    have been taken -/
def complete (spos : Nat) : Nat → List (Nat × Reply) → List Reply × Nat
  | c, [] => ([], c)
  | c, (e, r) :: rest => if e ≤ spos then ((complete spos e rest).1 |> (r :: ·), (complete spos e rest).2) else ([], c)

theorem drain_spec {stream : List (Nat × Reply)} {spos : Nat} :
    ∀ (todo done : List (Nat × Reply)) (fuel buffered : Nat),
      Split stream (spos - buffered) done todo → buffered ≤ spos → todo.length < fuel →
      drain stream spos fuel buffered =
        ((complete spos (spos - buffered) todo).1, spos - (complete spos (spos - buffered) todo).2)
  | [], done, fuel, b, h, hb, hf => by
    cases fuel with
    | zero => simp at hf
    | succ f =>
      simp only [drain, nextTcpFrame_spec h, complete]
      congr 1; omega
  | (e, r) :: rest, done, fuel, b, h, hb, hf => by
    cases fuel with
    | zero => simp at hf
    | succ f =>
      simp only [drain, nextTcpFrame_spec h, complete]
      by_cases hle : e ≤ spos
      · simp only [hle, ↓reduceIte]
        have he : e = spos - b + 2 + r.len := h.wf.1
        have hb' : b - (2 + r.len) ≤ spos := by omega
        have hc : spos - (b - (2 + r.len)) = e := by omega
        have h' : Split stream (spos - (b - (2 + r.len))) (done ++ [(e, r)]) rest := by
          refine ⟨by rw [h.eq]; simp, ?_, by rw [hc]; exact h.wf.2⟩
          intro x hx
          rw [List.mem_append] at hx
          cases hx with
          | inl hx => have := h.done_le x hx; omega
          | inr hx => simp only [List.mem_singleton] at hx; subst hx; simp only; omega
        have ih := drain_spec rest (done ++ [(e, r)]) f (b - (2 + r.len)) h' hb'
          (by simp only [List.length_cons] at hf; omega)
        rw [ih, hc]
      · simp only [hle, ↓reduceIte]
        congr 1; omega

/-- one wake-up per read chunk: the chunk is appended to in_buf, then `read_answers` runs -/
def feed (stream : List (Nat × Reply)) : List Nat → Nat → Nat → List Reply
  | [], _, _ => []
  | n :: ns, spos, b =>
    let res := drain stream (spos + n) (stream.length + 1) (b + n)
    res.1 ++ feed stream ns (spos + n) res.2

theorem complete_mono {spos spos' : Nat} (hss : spos ≤ spos') :
    ∀ (todo : List (Nat × Reply)) (c : Nat), WfStream c todo →
      (complete spos' c todo).1 =
        (complete spos c todo).1 ++
          (complete spos' (complete spos c todo).2 (todo.drop (complete spos c todo).1.length)).1
  | [], c, _ => by simp [complete]
  | (e, r) :: rest, c, h => by
    simp only [complete]
    by_cases hle : e ≤ spos
    · have hle' : e ≤ spos' := by omega
      simp only [hle, hle', ↓reduceIte, List.length_cons, List.drop_succ_cons, List.cons_append]
      rw [complete_mono hss rest e h.2]
    · simp only [hle, ↓reduceIte, List.length_nil, List.drop_zero, List.nil_append, complete]

theorem complete_split {spos : Nat} :
    ∀ (todo done : List (Nat × Reply)) (c : Nat) (stream : List (Nat × Reply)),
      Split stream c done todo →
      Split stream (complete spos c todo).2 (done ++ todo.take (complete spos c todo).1.length)
        (todo.drop (complete spos c todo).1.length)
  | [], done, c, stream, h => by simpa [complete] using h
  | (e, r) :: rest, done, c, stream, h => by
    simp only [complete]
    by_cases hle : e ≤ spos
    · simp only [hle, ↓reduceIte, List.length_cons, List.take_succ_cons, List.drop_succ_cons]
      have h' : Split stream e (done ++ [(e, r)]) rest := by
        refine ⟨by rw [h.eq]; simp, ?_, h.wf.2⟩
        intro x hx
        rw [List.mem_append] at hx
        cases hx with
        | inl hx => have := h.done_le x hx; have := h.wf.1; omega
        | inr hx => simp only [List.mem_singleton] at hx; subst hx; exact Nat.le_refl _
      have := complete_split (spos := spos) rest (done ++ [(e, r)]) e stream h'
      simpa [List.append_assoc] using this
    · simpa [hle, complete] using h

theorem complete_le {spos : Nat} :
    ∀ (todo : List (Nat × Reply)) (c : Nat), c ≤ spos → (complete spos c todo).2 ≤ spos
  | [], c, h => by simpa [complete] using h
  | (e, r) :: rest, c, h => by
    simp only [complete]
    by_cases hle : e ≤ spos
    · simp only [hle, ↓reduceIte]; exact complete_le rest e hle
    · simpa [hle] using h

theorem complete_ge {spos : Nat} :
    ∀ (todo : List (Nat × Reply)) (c : Nat), WfStream c todo → c ≤ (complete spos c todo).2
  | [], c, _ => by simp [complete]
  | (e, r) :: rest, c, h => by
    simp only [complete]
    by_cases hle : e ≤ spos
    · simp only [hle, ↓reduceIte]
      have := complete_ge (spos := spos) rest e h.2
      have := h.1; omega
    · simp [hle]

/-- nothing complete is left in in_buf (the state `read_answers` leaves behind) -/
def Drained (spos : Nat) (todo : List (Nat × Reply)) : Prop := ∀ x ∈ todo.head?, spos < x.1

theorem complete_drained {spos : Nat} :
    ∀ (todo : List (Nat × Reply)) (c : Nat),
      Drained spos (todo.drop (complete spos c todo).1.length)
  | [], c => by simp [Drained, complete]
  | (e, r) :: rest, c => by
    simp only [complete]
    by_cases hle : e ≤ spos
    · simp only [hle, ↓reduceIte, List.length_cons, List.drop_succ_cons]
      exact complete_drained rest e
    · simp only [hle, ↓reduceIte, List.length_nil, List.drop_zero, Drained, List.head?_cons,
        Option.mem_def, Option.some.injEq]
      intro x hx; subst hx; simp only; omega

theorem complete_of_drained {spos : Nat} {todo : List (Nat × Reply)} {c : Nat} (h : Drained spos todo) :
    complete spos c todo = ([], c) := by
  cases todo with
  | nil => rfl
  | cons x rest =>
    obtain ⟨e, r⟩ := x
    have : spos < e := h (e, r) (by simp)
    simp only [complete, show ¬ e ≤ spos by omega, ↓reduceIte]

/-- **Read-side segmentation invariance, general form.**  Whatever the read sizes, the messages handed to
    `process_answer` are the complete ones among those not yet taken. -/
theorem feed_spec {stream : List (Nat × Reply)} :
    ∀ (chunks : List Nat) (todo done : List (Nat × Reply)) (spos buffered : Nat),
      Split stream (spos - buffered) done todo → buffered ≤ spos → Drained spos todo →
      todo.length ≤ stream.length →
      feed stream chunks spos buffered = (complete (spos + chunks.sum) (spos - buffered) todo).1
  | [], todo, done, spos, b, h, hb, hd, _ => by
    simp only [feed, List.sum_nil, Nat.add_zero, complete_of_drained hd]
  | n :: ns, todo, done, spos, b, h, hb, hd, hl => by
    simp only [feed, List.sum_cons]
    have hc : spos + n - (b + n) = spos - b := by omega
    have h1 : Split stream (spos + n - (b + n)) done todo := by rw [hc]; exact h
    rw [drain_spec todo done (stream.length + 1) (b + n) h1 (by omega) (by omega), hc]
    simp only
    have hge := complete_ge (spos := spos + n) todo (spos - b) h.wf
    have hle := complete_le (spos := spos + n) todo (spos - b) (by omega)
    have hsp := complete_split (spos := spos + n) todo done (spos - b) stream h
    have hdr := complete_drained (spos := spos + n) todo (spos - b)
    have hc2 : spos + n - (spos + n - (complete (spos + n) (spos - b) todo).2) =
        (complete (spos + n) (spos - b) todo).2 := by omega
    have ih := feed_spec ns (todo.drop (complete (spos + n) (spos - b) todo).1.length)
      (done ++ todo.take (complete (spos + n) (spos - b) todo).1.length) (spos + n)
      (spos + n - (complete (spos + n) (spos - b) todo).2) (by rw [hc2]; exact hsp) (by omega) hdr
      (by simp only [List.length_drop]; omega)
    rw [ih, hc2, ← Nat.add_assoc]
    exact (complete_mono (by omega) todo (spos - b) h.wf).symm

theorem complete_eq_filter {spos : Nat} :
    ∀ (todo : List (Nat × Reply)) (c : Nat), WfStream c todo →
      (complete spos c todo).1 = (todo.filter (fun x => x.1 ≤ spos)).map (·.2)
  | [], c, _ => by simp [complete]
  | (e, r) :: rest, c, h => by
    simp only [complete]
    by_cases hle : e ≤ spos
    · simp only [hle, ↓reduceIte, List.filter_cons, decide_true, List.map_cons]
      rw [complete_eq_filter rest e h.2]
    · simp only [hle, ↓reduceIte, List.filter_cons, decide_false]
      have : rest.filter (fun x => decide (x.1 ≤ spos)) = [] := by
        rw [List.filter_eq_nil_iff]
        intro x hx
        have := WfStream.lt_of_mem h.2 x hx
        simp only [decide_eq_true_eq]; omega
      simp [this]

/-- messages of `stream` whose last byte lies within the first `pos` bytes -/
def arrived (stream : List (Nat × Reply)) (pos : Nat) : List Reply :=
  (stream.filter (fun x => x.1 ≤ pos)).map (·.2)

/-- **Read-side segmentation invariance.**  After the peer has written `stream`, reading it in chunks of any
    sizes `chunks` (one `read_answers` run per chunk) hands to `process_answer` exactly the messages whose last
    byte lies within the bytes read, in stream order. -/
theorem feed_arrived {stream : List (Nat × Reply)} (h : WfStream 0 stream) (chunks : List Nat) :
    feed stream chunks 0 0 = arrived stream chunks.sum := by
  have hs : Split stream (0 - 0) [] stream := ⟨rfl, by simp, h⟩
  have hd : Drained 0 stream := by
    intro x hx
    have hm : x ∈ stream := by
      cases stream with
      | nil => simp at hx
      | cons y r => simp only [List.head?_cons, Option.mem_def, Option.some.injEq] at hx; subst hx; simp
    exact WfStream.lt_of_mem h x hm
  rw [feed_spec chunks stream [] 0 0 hs (Nat.le_refl _) hd (Nat.le_refl _)]
  simp only [Nat.zero_add, Nat.sub_self]
  exact complete_eq_filter stream 0 h

/-- two segmentations of the same number of bytes deliver the same messages in the same order -/
theorem feed_segmentation_independent {stream : List (Nat × Reply)} (h : WfStream 0 stream)
    (chunks chunks' : List Nat) (hsum : chunks.sum = chunks'.sum) :
    feed stream chunks 0 0 = feed stream chunks' 0 0 := by
  rw [feed_arrived h, feed_arrived h, hsum]

/-- the bytes left in in_buf after draining are exactly the incomplete tail -/
theorem drain_rest {stream : List (Nat × Reply)} (h : WfStream 0 stream) (spos : Nat) :
    drain stream spos (stream.length + 1) spos =
      (arrived stream spos, spos - (complete spos 0 stream).2) := by
  have hs : Split stream (spos - spos) [] stream := ⟨rfl, by simp, by rw [Nat.sub_self]; exact h⟩
  rw [drain_spec stream [] (stream.length + 1) spos hs (Nat.le_refl _) (by omega)]
  simp only [Nat.sub_self]
  rw [complete_eq_filter stream 0 h]; rfl

/-! ## outbound -/

/-- abstract effect of the socket accepting `n` bytes on `(out_buf frames, offset into the first frame)`:
    `(frames completed, frames left, new offset)` — the list-level content of `advanceOut` -/
def advQ : List OutFrame → Nat → Nat → List OutFrame × List OutFrame × Nat
  | [], off, _ => ([], [], off)
  | f :: rest, off, n =>
    if n ≥ f.len - off then
      if n - (f.len - off) = 0 then ([f], rest, 0)
      else
        let res := advQ rest 0 (n - (f.len - off))
        (f :: res.1, res.2.1, res.2.2)
    else ([], f :: rest, off + n)

def framesLen (l : List OutFrame) : Nat := (l.map (·.len)).sum

/-- frames are non-empty and the write offset lies inside the first frame -/
def OutOk (out : List OutFrame) (off : Nat) : Prop :=
  (∀ f ∈ out, 0 < f.len) ∧ (∀ f ∈ out.head?, off < f.len) ∧ (out = [] → off = 0)

/-- completed frames followed by the frames left are the queue: every frame is reported at most once, in queue
    order, and none is lost -/
theorem advQ_append : ∀ (out : List OutFrame) (off n : Nat),
    (advQ out off n).1 ++ (advQ out off n).2.1 = out
  | [], off, n => rfl
  | f :: rest, off, n => by
    simp only [advQ]
    split
    · split
      · rfl
      · simp only [List.cons_append, advQ_append rest 0 _]
    · rfl

/-- byte accounting: completed bytes + bytes of the partially written first frame = offset + accepted bytes
    (as long as no more is accepted than is queued) -/
theorem advQ_bytes : ∀ (out : List OutFrame) (off n : Nat), OutOk out off → off + n ≤ framesLen out →
    framesLen (advQ out off n).1 + (advQ out off n).2.2 = off + n ∧
      OutOk (advQ out off n).2.1 (advQ out off n).2.2
  | [], off, n, h, hn => by
    have := h.2.2 rfl
    simp only [framesLen, List.map_nil, List.sum_nil] at hn
    simp only [advQ, framesLen, List.map_nil, List.sum_nil]
    exact ⟨by omega, by simp, by simp, fun _ => by omega⟩
  | f :: rest, off, n, h, hn => by
    have hoff : off < f.len := h.2.1 f (by simp)
    have hrest : ∀ g ∈ rest, 0 < g.len := fun g hg => h.1 g (List.mem_cons_of_mem _ hg)
    have hok0 : OutOk rest 0 := by
      refine ⟨hrest, ?_, fun _ => rfl⟩
      intro g hg
      cases rest with
      | nil => simp at hg
      | cons y r => simp only [List.head?_cons, Option.mem_def, Option.some.injEq] at hg; subst hg; exact hrest _ (by simp)
    simp only [framesLen, List.map_cons, List.sum_cons] at hn
    simp only [advQ]
    split
    · rename_i hge
      split
      · rename_i hz
        simp only [framesLen, List.map_cons, List.map_nil, List.sum_cons, List.sum_nil]
        exact ⟨by omega, hok0⟩
      · rename_i hnz
        have ih := advQ_bytes rest 0 (n - (f.len - off)) hok0 (by simp only [framesLen]; omega)
        simp only [framesLen, List.map_cons, List.sum_cons] at ih ⊢
        exact ⟨by omega, ih.2⟩
    · rename_i hlt
      simp only [framesLen, List.map_nil, List.sum_nil]
      refine ⟨by omega, h.1, ?_, by simp⟩
      intro g hg
      simp only [List.head?_cons, Option.mem_def, Option.some.injEq] at hg; subst hg; omega

/-- the frames completed are exactly those whose last byte lies within the accepted bytes: the longest prefix of
    the queue whose total length is `≤ off + n` -/
theorem advQ_done_iff : ∀ (out : List OutFrame) (off n : Nat), OutOk out off → off + n ≤ framesLen out →
    framesLen (advQ out off n).1 ≤ off + n ∧
      ∀ g ∈ (advQ out off n).2.1.head?, off + n < framesLen (advQ out off n).1 + g.len := by
  intro out off n h hn
  have hb := advQ_bytes out off n h hn
  refine ⟨by omega, ?_⟩
  intro g hg
  have := hb.2.2.1 g hg
  omega

/-- **Write-side segmentation invariance (list level).**  Accepting `a` bytes and then `b` bytes completes the
    same frames, in the same order, and leaves the same queue and offset as accepting `a + b` bytes at once. -/
theorem advQ_add : ∀ (out : List OutFrame) (off a b : Nat), OutOk out off → off + a + b ≤ framesLen out →
    advQ out off (a + b) =
      ((advQ out off a).1 ++ (advQ (advQ out off a).2.1 (advQ out off a).2.2 b).1,
       (advQ (advQ out off a).2.1 (advQ out off a).2.2 b).2)
  | [], off, a, b, h, hn => by simp [advQ]
  | f :: rest, off, a, b, h, hn => by
    have hoff : off < f.len := h.2.1 f (by simp)
    have hrest : ∀ g ∈ rest, 0 < g.len := fun g hg => h.1 g (List.mem_cons_of_mem _ hg)
    have hok0 : OutOk rest 0 := by
      refine ⟨hrest, ?_, fun _ => rfl⟩
      intro g hg
      cases rest with
      | nil => simp at hg
      | cons y r => simp only [List.head?_cons, Option.mem_def, Option.some.injEq] at hg; subst hg; exact hrest _ (by simp)
    simp only [framesLen, List.map_cons, List.sum_cons] at hn
    by_cases ha : a ≥ f.len - off
    · -- the first frame completes within the first `a` bytes
      have hab : a + b ≥ f.len - off := by omega
      by_cases haz : a - (f.len - off) = 0
      · by_cases hbz : b = 0
        · subst hbz
          have e1 : advQ (f :: rest) off a = ([f], rest, 0) := by simp only [advQ, ha, haz, ↓reduceIte]
          have e3 : advQ rest 0 0 = ([], rest, 0) := by
            cases rest with
            | nil => rfl
            | cons y r =>
              have : 0 < y.len := hrest y (by simp)
              simp only [advQ, Nat.sub_zero, ge_iff_le, Nat.le_zero_eq, show ¬ y.len = 0 by omega,
                ↓reduceIte, Nat.add_zero]
          simp only [Nat.add_zero, e1, e3, List.append_nil]
        · have e1 : advQ (f :: rest) off a = ([f], rest, 0) := by simp only [advQ, ha, haz, ↓reduceIte]
          have e2 : advQ (f :: rest) off (a + b) =
              (f :: (advQ rest 0 (a + b - (f.len - off))).1, (advQ rest 0 (a + b - (f.len - off))).2) := by
            simp only [advQ, hab, show ¬ a + b - (f.len - off) = 0 by omega, ↓reduceIte]
          rw [e1, e2]
          simp only [List.singleton_append]
          have : a + b - (f.len - off) = b := by omega
          rw [this]
      · have e1 : advQ (f :: rest) off a =
            (f :: (advQ rest 0 (a - (f.len - off))).1, (advQ rest 0 (a - (f.len - off))).2) := by
          simp only [advQ, ha, haz, ↓reduceIte]
        have e2 : advQ (f :: rest) off (a + b) =
            (f :: (advQ rest 0 (a + b - (f.len - off))).1, (advQ rest 0 (a + b - (f.len - off))).2) := by
          simp only [advQ, hab, show ¬ a + b - (f.len - off) = 0 by omega, ↓reduceIte]
        have ih := advQ_add rest 0 (a - (f.len - off)) b hok0 (by simp only [framesLen]; omega)
        have e : a + b - (f.len - off) = a - (f.len - off) + b := by omega
        rw [e1, e2, e, ih]
        simp only [List.cons_append]
    · have e1 : advQ (f :: rest) off a = ([], f :: rest, off + a) := by simp only [advQ, ha, ↓reduceIte]
      rw [e1]
      simp only [List.nil_append]
      -- both sides now look at the first frame with `off + a` already written
      by_cases hb : a + b ≥ f.len - off
      · have hb' : b ≥ f.len - (off + a) := by omega
        have e : a + b - (f.len - off) = b - (f.len - (off + a)) := by omega
        simp only [advQ, hb, hb', e, ↓reduceIte]
      · have hb' : ¬ b ≥ f.len - (off + a) := by omega
        simp only [advQ, hb, hb', ↓reduceIte, Nat.add_assoc]

/-- a whole acceptance pattern -/
def advSeq : List OutFrame → Nat → List Nat → List OutFrame × List OutFrame × Nat
  | out, off, [] => ([], out, off)
  | out, off, n :: ns =>
    let r1 := advQ out off n
    let r2 := advSeq r1.2.1 r1.2.2 ns
    (r1.1 ++ r2.1, r2.2)

theorem advQ_zero (out : List OutFrame) (off : Nat) (h : OutOk out off) : advQ out off 0 = ([], out, off) := by
  cases out with
  | nil => rfl
  | cons f rest =>
    have : off < f.len := h.2.1 f (by simp)
    simp only [advQ, ge_iff_le, Nat.le_zero_eq, show ¬ f.len - off = 0 by omega, ↓reduceIte, Nat.add_zero]

/-- **Write-side segmentation invariance.**  Whatever the acceptance pattern `ns`, the frames completed (= reported
    to the server as whole messages), their order, and the queue left behind depend only on the total number of
    bytes accepted. -/
theorem advSeq_eq_advQ : ∀ (ns : List Nat) (out : List OutFrame) (off : Nat), OutOk out off →
    off + ns.sum ≤ framesLen out → advSeq out off ns = advQ out off ns.sum
  | [], out, off, h, _ => by simp only [advSeq, List.sum_nil, advQ_zero out off h]
  | n :: ns, out, off, h, hn => by
    simp only [List.sum_cons] at hn
    have hb := advQ_bytes out off n h (by omega)
    have happ := advQ_append out off n
    have hlen : framesLen out = framesLen (advQ out off n).1 + framesLen (advQ out off n).2.1 := by
      conv => lhs; rw [← happ]
      simp only [framesLen, List.map_append, List.sum_append]
    have ih := advSeq_eq_advQ ns (advQ out off n).2.1 (advQ out off n).2.2 hb.2 (by omega)
    simp only [advSeq, List.sum_cons, ih]
    rw [advQ_add out off n ns.sum h (by omega)]

/-- once everything queued has been accepted every frame has been reported and the queue is empty -/
theorem advQ_all (out : List OutFrame) (off : Nat) (h : OutOk out off) :
    advQ out off (framesLen out - off) = (out, [], 0) := by
  have hle : off ≤ framesLen out := by
    cases out with
    | nil => have := h.2.2 rfl; omega
    | cons f rest =>
      have : off < f.len := h.2.1 f (by simp)
      simp only [framesLen, List.map_cons, List.sum_cons]; omega
  have hb := advQ_bytes out off (framesLen out - off) h (by omega)
  have happ := advQ_append out off (framesLen out - off)
  have hlen : framesLen out = framesLen (advQ out off (framesLen out - off)).1 +
      framesLen (advQ out off (framesLen out - off)).2.1 := by
    conv => lhs; rw [← happ]
    simp only [framesLen, List.map_append, List.sum_append]
  -- the frames left have total length ≤ their offset, hence there are none
  have hnil : (advQ out off (framesLen out - off)).2.1 = [] := by
    cases hq : (advQ out off (framesLen out - off)).2.1 with
    | nil => rfl
    | cons g r =>
      exfalso
      rw [hq] at hlen hb
      have := hb.2.2.1 g (by simp)
      have hgr : framesLen (g :: r) = g.len + framesLen r := rfl
      rw [hgr] at hlen
      omega
  have hz : (advQ out off (framesLen out - off)).2.2 = 0 := hb.2.2.2 hnil
  rw [hnil, List.append_nil] at happ
  exact Prod.ext happ (Prod.ext hnil hz)

/-! ## `advanceOut` refines `advQ` -/

theorem find?_map_self (fd : Nat) (f : Conn → Conn) : ∀ (l : List Conn) (c : Conn),
    l.find? (·.fd == fd) = some c → (f c).fd = c.fd →
    (l.map fun x => if x.fd == fd then f x else x).find? (·.fd == fd) = some (f c)
  | [], _, hc, _ => by simp at hc
  | x :: rest, c, hc, hf => by
    simp only [List.find?_cons] at hc
    simp only [List.map_cons, List.find?_cons]
    by_cases hx : (x.fd == fd) = true
    · simp only [hx] at hc
      cases hc
      have : ((f x).fd == fd) = true := by rw [hf]; exact hx
      simp only [hx, ↓reduceIte, this]
    · simp only [Bool.not_eq_true] at hx
      simp only [hx] at hc
      simp only [hx, Bool.false_eq_true, ↓reduceIte]
      exact find?_map_self fd f rest c hc hf

theorem conn?_modConn_self {s : St} {fd : Nat} {c : Conn} (f : Conn → Conn) (hc : s.conn? fd = some c)
    (hf : (f c).fd = c.fd) : (s.modConn fd f).conn? fd = some (f c) :=
  find?_map_self fd f s.conns c hc hf

theorem conn?_recordTx (s : St) (fd' fd : Nat) (tcp : Bool) (f : OutFrame) :
    (s.recordTx fd' tcp f).conn? fd = s.conn? fd := rfl

/-- what the virtual server records of a transmission: `(fd, tcp, query key, id, length without prefix)` -/
def Tx.view (t : Tx) : Nat × Bool × Nat × Nat × Nat := (t.fd, t.tcp, t.key, t.id, t.len)
def OutFrame.view (fd : Nat) (f : OutFrame) : Nat × Bool × Nat × Nat × Nat := (fd, true, f.key, f.qid, f.len - 2)

theorem txs_recordTx (s : St) (fd : Nat) (tcp : Bool) (f : OutFrame) :
    (s.recordTx fd tcp f).txs.map Tx.view = s.txs.map Tx.view ++ [(fd, tcp, f.key, f.qid, f.len - 2)] := by
  simp [St.recordTx, St.slog, St.modQuery, St.emit, Tx.view]

/-- **`advanceOut` is `advQ`**: on the connection's out queue and offset, and on the transmissions the virtual
    server records (one per completed frame, in queue order) -/
theorem advanceOut_spec : ∀ (fuel fd : Nat) (s : St) (n : Nat) (c : Conn),
    s.conn? fd = some c → c.out.length < fuel →
    (advanceOut fuel fd s n).conn? fd =
        some { c with out := (advQ c.out c.outOff n).2.1, outOff := (advQ c.out c.outOff n).2.2 } ∧
      (advanceOut fuel fd s n).txs.map Tx.view =
        s.txs.map Tx.view ++ (advQ c.out c.outOff n).1.map (OutFrame.view fd)
  | 0, _, _, _, _, _, hf => by simp at hf
  | fuel + 1, fd, s, n, c, hc, hf => by
    unfold advanceOut
    simp only [hc]
    cases hout : c.out with
    | nil =>
      simp only [advQ, List.map_nil, List.append_nil, hc, and_true]
      congr 1
      cases c; simp_all
    | cons f rest =>
      simp only [advQ]
      by_cases hge : n ≥ f.len - c.outOff
      · simp only [hge, ↓reduceIte]
        have hc1 : ((s.modConn fd fun c => { c with out := rest, outOff := 0 }).recordTx fd true f).conn? fd =
            some { c with out := rest, outOff := 0 } := by
          rw [conn?_recordTx]; exact conn?_modConn_self _ hc rfl
        by_cases hz : n - (f.len - c.outOff) = 0
        · simp only [hz, beq_self_eq_true, ↓reduceIte, hc1, List.map_cons, List.map_nil, true_and]
          rw [txs_recordTx]; rfl
        · have hz' : (n - (f.len - c.outOff) == 0) = false := by simpa using hz
          simp only [hz', Bool.false_eq_true, hz, ↓reduceIte]
          have hlen : rest.length < fuel := by rw [hout] at hf; simp only [List.length_cons] at hf; omega
          have ih := advanceOut_spec fuel fd _ (n - (f.len - c.outOff)) _ hc1 hlen
          simp only at ih
          refine ⟨ih.1, ?_⟩
          rw [ih.2, txs_recordTx]
          simp [OutFrame.view, St.modConn]
      · simp only [hge, ↓reduceIte, List.map_nil, List.append_nil]
        refine ⟨?_, rfl⟩
        rw [conn?_modConn_self _ hc rfl, hout]

/-- a whole acceptance pattern applied to connection `fd` (fuel as in `ares_conn_flush`'s model: queue length + 1) -/
def advanceSeq (fd : Nat) : St → List Nat → St
  | s, [] => s
  | s, n :: ns => advanceSeq fd (advanceOut (((s.conn? fd).map (·.out.length)).getD 0 + 1) fd s n) ns

theorem advanceSeq_spec (fd : Nat) : ∀ (ns : List Nat) (s : St) (c : Conn), s.conn? fd = some c →
    (advanceSeq fd s ns).conn? fd =
        some { c with out := (advSeq c.out c.outOff ns).2.1, outOff := (advSeq c.out c.outOff ns).2.2 } ∧
      (advanceSeq fd s ns).txs.map Tx.view =
        s.txs.map Tx.view ++ (advSeq c.out c.outOff ns).1.map (OutFrame.view fd)
  | [], s, c, hc => by simp [advanceSeq, advSeq, hc]
  | n :: ns, s, c, hc => by
    have h1 := advanceOut_spec (c.out.length + 1) fd s n c hc (by omega)
    have ih := advanceSeq_spec fd ns _ _ h1.1
    simp only [advanceSeq, hc, Option.map_some, Option.getD_some, advSeq]
    simp only at ih
    refine ⟨ih.1, ?_⟩
    rw [ih.2, h1.2]
    simp

/-- **Write-side segmentation invariance (model level).**  Whatever pattern `ns` of partial acceptances the socket
    shows (as long as it does not accept more than is queued), the whole messages the virtual server has received
    afterwards are exactly the queued frames whose last byte lies within the `ns.sum` accepted bytes — in queue order,
    each once — and the connection's queue is what accepting `ns.sum` bytes at once leaves. -/
theorem advanceSeq_invariant (fd : Nat) (ns : List Nat) (s : St) (c : Conn) (hc : s.conn? fd = some c)
    (hok : OutOk c.out c.outOff) (hle : c.outOff + ns.sum ≤ framesLen c.out) :
    (advanceSeq fd s ns).conn? fd =
        some { c with out := (advQ c.out c.outOff ns.sum).2.1, outOff := (advQ c.out c.outOff ns.sum).2.2 } ∧
      (advanceSeq fd s ns).txs.map Tx.view =
        s.txs.map Tx.view ++ (advQ c.out c.outOff ns.sum).1.map (OutFrame.view fd) := by
  have h := advanceSeq_spec fd ns s c hc
  rw [advSeq_eq_advQ ns c.out c.outOff hok hle] at h
  exact h

/-! ## ties to the procedures of the model -/

/-- `read_answers` on a TCP connection: the next message handed to `process_answer` is `nextTcpFrame` of the peer's
    stream, the bytes read and the bytes still buffered; it is taken out of in_buf (`2 + len` bytes) before the call,
    and the loop continues — i.e. `read_answers` computes `drain` -/
theorem bodyReadAnswers_tcp (go : Call → St → St × Ret) (fd : Nat) (s : St) (c : Conn) (v : VSock)
    (hc : s.conn? fd = some c) (hv : s.sock? fd = some v) (ht : c.tcp = true) :
    bodyReadAnswers go fd s =
      match nextTcpFrame v.stream v.spos c.inBytes with
      | none => go .flushRequeue s
      | some r =>
        let s := s.modConn fd fun c =>
          { c with inMsgs := c.inMsgs.drop 1, inBytes := c.inBytes - (2 + r.len) }
        let (s, st) := go (.processAnswer fd r) s
        match s.conn? fd with
        | none => go .flushRequeue s
        | some c' =>
          if c'.unlinked then go .flushRequeue s else
          if st != .ok then
            let (s, _) := go (.connError fd true st) s
            go .flushRequeue s
          else go (.readAnswers fd) s := by
  unfold bodyReadAnswers
  simp only [hc, hv, ht, Bool.not_true, Bool.false_eq_true, ↓reduceIte]
  rfl

/-- `read_answers` on a UDP connection: datagrams are handed over whole, in arrival order -/
theorem bodyReadAnswers_udp (go : Call → St → St × Ret) (fd : Nat) (s : St) (c : Conn) (v : VSock)
    (hc : s.conn? fd = some c) (hv : s.sock? fd = some v) (ht : c.tcp = false) :
    bodyReadAnswers go fd s =
      match c.inMsgs.head?.map (·.2) with
      | none => go .flushRequeue s
      | some r =>
        let s := s.modConn fd fun c =>
          { c with inMsgs := c.inMsgs.drop 1, inBytes := c.inBytes - (2 + r.len) }
        let (s, st) := go (.processAnswer fd r) s
        match s.conn? fd with
        | none => go .flushRequeue s
        | some c' =>
          if c'.unlinked then go .flushRequeue s else
          if st != .ok then
            let (s, _) := go (.connError fd true st) s
            go .flushRequeue s
          else go (.readAnswers fd) s := by
  unfold bodyReadAnswers
  simp only [hc, hv, ht, Bool.not_false, ↓reduceIte]
  rfl

/-- `read_conn_packets` on a TCP connection with data available: one `recv` of `n` bytes (`n` = the scripted chunk size,
    capped by what is available) moves the read position and in_buf by `n`, then `read_answers` runs -/
theorem bodyProcessRead_tcp_chunk (go : Call → St → St × Ret) (fd : Nat) (s : St) (c : Conn) (v : VSock)
    (hc : s.conn? fd = some c) (hv : s.sock? fd = some v) (hul : c.unlinked = false) (ht : c.tcp = true)
    (hf : (s.fault "recvfrom").1 = none) (hav : v.slen - v.spos ≠ 0)
    (n : Nat) (chunks : List Nat)
    (hn : (n, chunks) = match v.chunks with
      | [] => (v.slen - v.spos, [])
      | k :: r => (min k (v.slen - v.spos), r))
    (hnz : ∀ k r, v.chunks = k :: r → k ≠ 0) :
    bodyProcessRead go fd s = go (.readAnswers fd)
      ((((s.fault "recvfrom").2.slog fd "recv").modSock fd fun v => { v with chunks := chunks, spos := v.spos + n }).modConn fd
        fun c => { c with inBytes := c.inBytes + n, connected := true }) := by
  unfold bodyProcessRead
  simp only [hc, hv, hul, ht, Bool.false_eq_true, ↓reduceIte, Bool.not_true]
  split <;> pair_subst
  · rename_i e hfe; rw [hf] at hfe; cases hfe
  · have hav' : (v.slen - v.spos == 0) = false := by simpa using hav
    simp only [hav', Bool.false_eq_true, ↓reduceIte]
    cases hch : v.chunks with
    | nil =>
      rw [hch] at hn
      simp only [Prod.mk.injEq] at hn
      obtain ⟨rfl, rfl⟩ := hn
      rfl
    | cons k r =>
      have hk : (k == 0) = false := by simpa using hnz k r hch
      rw [hch] at hn
      simp only [Prod.mk.injEq] at hn
      obtain ⟨h1, h2⟩ := hn
      simp only [hk, Bool.false_eq_true, ↓reduceIte, h1, h2]

theorem conn?_notify (s : St) (fd : Nat) (r w : Bool) :
    (s.notify fd r w).conn? fd = (s.conn? fd).map fun c => { c with notR := r, notW := w } := by
  unfold St.notify
  cases hc : s.conn? fd with
  | none => simp [hc]
  | some c =>
    simp only [Option.map_some]
    split <;> exact conn?_modConn_self _ (by simpa [St.conn?, St.emit] using hc) rfl

theorem txs_notify (s : St) (fd : Nat) (r w : Bool) : (s.notify fd r w).txs = s.txs := St.notify_txs s fd r w

/-- **`ares_conn_flush` on a connected TCP connection whose socket accepts `n` bytes** reports to the server exactly
    the frames `advQ` completes and leaves `advQ`'s queue: partial writes never duplicate, drop or reorder frames -/
theorem bodyFlush_tcp_accept (go : Call → St → St × Ret) (fd : Nat) (s : St) (c : Conn) (n : Nat)
    (hc : s.conn? fd = some c) (hout : c.out ≠ []) (ht : c.tcp = true) (hcon : c.connected = true)
    (hf : (s.fault "sendto").1 = none)
    (hacc : (tcpAccept (((s.fault "sendto").2.sock? fd).getD default) (outBytes c)).1 = some n) :
    (bodyFlush go fd s).1.txs.map Tx.view = s.txs.map Tx.view ++ (advQ c.out c.outOff n).1.map (OutFrame.view fd) ∧
      ((bodyFlush go fd s).1.conn? fd).map (fun c => (c.out, c.outOff)) = some (advQ c.out c.outOff n).2 := by
  unfold bodyFlush
  simp only [hc]
  cases ho : c.out with
  | nil => exact absurd ho hout
  | cons f rest =>
    simp only [ht, hcon, Bool.not_true, Bool.false_eq_true, ↓reduceIte]
    split <;> pair_subst
    · rename_i e hfe; rw [hf] at hfe; cases hfe
    · split
      · rename_i hnone; rw [hacc] at hnone; cases hnone
      · rename_i n' hsome
        rw [hacc] at hsome; cases hsome
        -- the state handed to `advanceOut`
        generalize hs2 : (if (n != outBytes c) = true then _ else _ : St) = s2
        have hc2 : s2.conn? fd = some c := by
          subst hs2; split <;> simpa [St.conn?, St.emit, St.slog, St.setSock, St.fault] using hc
        have ht2 : s2.txs = s.txs := by
          subst hs2; split <;> simp only [chan_frame]
        have hsp := advanceOut_spec (c.out.length + 1) fd s2 n c hc2 (by omega)
        rw [ho] at hsp
        simp only [List.length_cons] at hsp ⊢
        constructor
        · simp only [chan_frame]
          split <;> simp only [chan_frame, hsp.2, ht2]
        · simp only [conn?_notify]
          split <;> simp only [conn?_notify, hsp.1, Option.map_some, Option.map_map] <;> rfl

/-- `read_answers`' deferred re-sends: every queued id that still belongs to a query is re-sent through
    `ares_send_query` (to the recorded server, if any) -/
theorem bodyFlushRequeue_resends (go : Call → St → St × Ret) (s : St) (qid : Nat) (srv : Option Nat)
    (rest : List (Nat × Option Nat)) (id key : Nat) (hr : s.requeueArr = (qid, srv) :: rest)
    (hf : s.byQid.find? (·.1 == qid) = some (id, key)) :
    bodyFlushRequeue go s =
      go .flushRequeue (go (.sendQuery srv key) { s with requeueArr := rest }).1 := by
  unfold bodyFlushRequeue
  simp only [hr]
  have : ({ s with requeueArr := rest } : St).byQid = s.byQid := rfl
  simp only [this, hf]

/-- a query switched to TCP is sent on the server's TCP connection (opened as TCP when there is none) -/
theorem fetchConn_tcp (s : St) (q : Query) (srv : Server) (h : q.usingTcp = true) :
    fetchConn s q srv = srv.tcpConn := by
  unfold fetchConn; simp only [h, ↓reduceIte]

end Cares.Chan
