import CaresLemmas.ChanPolicyFrameExec
/-!
# `nextKey` never decreases within a procedure run (query keys are never reused)
-/
namespace Cares.Chan
set_option linter.unusedVariables false

def NKge (n : Nat) (s : St) : Prop := n ≤ s.nextKey

section
variable {n : Nat}

theorem NKge.mono {s s' : St} (h0 : s'.cfg = s.cfg) (h1 : s.nextKey ≤ s'.nextKey) (h : NKge n s) : NKge n s' :=
  Nat.le_trans h h1

chan_simple_lemmas NKge : (NKge n) =>
  emit slog ofault mfault oofSt setQuery setConn setServer setSock modQuery modConn modServer modSock modClient
  cacheExpire
end

macro "nk_congr" : tactic => `(tactic| (
  refine NKge.mono (s := ?s0) ?h0 ?h1 ?hI
  case h0 => (dsimp only; exact rfl)
  case h1 => first | exact Nat.le_refl _ | exact Nat.le_succ _))

macro "nk_spec" : tactic => `(tactic| with_reducible (first
  | apply NKge.emit | apply NKge.slog | apply NKge.ofault | apply NKge.mfault | apply NKge.oof
  | apply NKge.setQuery | apply NKge.setConn | apply NKge.setServer | apply NKge.setSock | apply NKge.modQuery
  | apply NKge.modConn | apply NKge.modServer | apply NKge.modSock | apply NKge.modClient | apply NKge.cacheExpire))

macro "nk_step " hgo:term : tactic => `(tactic| chan_step $hgo, nk_spec, nk_congr)

section
variable {n : Nat}
chan_invariant nk : (NKge n) oofBy (fun _ h => h)
  leafBy (repeat' (first
                  | nk_step hgo
                  | with_reducible apply sqChoose_nk hgo
                  | with_reducible apply sqOpen_nk hgo
                  | with_reducible apply sqPrep_nk hgo
                  | with_reducible apply sqWrite_nk hgo
                  | with_reducible apply sqDeadline_nk hgo
                  | with_reducible apply sqCommit_nk hgo
                  | with_reducible apply sqAfter_nk hgo
                  | (with_reducible apply foldl_inv; intro _ _ _)))
  exceptBodies
end

/-- query keys are never reused: `nextKey` only grows -/
theorem exec_nextKey_mono (fuel : Nat) (c : Call) (s : St) : s.nextKey ≤ (exec fuel c s).1.nextKey :=
  exec_nk (n := s.nextKey) fuel c s (Nat.le_refl _)

end Cares.Chan
