import CaresLemmas.ClientExecReplay
/-!
# `exec_replays`: the log of every procedure replays on the pure machine (induction over `execC`)
-/
namespace Cares.Chan

/-- unfold whichever instrumented body `execCBody` dispatched to -/
macro "unfold_bodyC" : tactic => `(tactic| first
  | unfold bodySendNolockC | unfold bodyProbeC | unfold bodyFlushC
  | unfold bodyRequeueC | unfold bodyEndQueryC | unfold bodyUserCbC | unfold bodyReactionsC
  | unfold bodyConnErrorC | unfold bodyCloseConnC | unfold bodyCloseLoopC | unfold bodyProcessWriteC
  | unfold bodyProcessReadC | unfold bodyReadAnswersC | unfold bodyFlushRequeueC | unfold bodyProcessTimeoutsC
  | unfold bodyCleanupConnsC | unfold bodyCancelC | unfold bodyCancelLoopC)

theorem RPv_oof {cfg r0 L σ c cl nx} : RPv cfg r0 L σ true c cl nx := .inl rfl

section
variable {cfg : Cfg} {r0 : RSt} {goC : GoC} (hgo : GoRP cfg r0 goC)
include hgo

theorem bodyProcessAnswerC_RP (fd : Nat) (r : Reply) (s : St) (L : CLog) (σ) (h : RP cfg r0 L σ s) :
    RP cfg r0 (L ++ (bodyProcessAnswerC goC fd r s).2) σ (bodyProcessAnswerC goC fd r s).1.1 := by
  have hp : ∀ c key q, RP cfg r0 L σ (paPre s c key q r) := fun c key q => by
    simpa only [RP, paPre, chan_frame] using h
  unfold bodyProcessAnswerC
  repeat (first
    | with_reducible assumption
    | with_reducible (apply hgo)
    | with_reducible (apply paDeliverC_RP hgo)
    | with_reducible (apply hp)
    | (simp only [chan_frame, RP, preσ, List.append_nil, ← List.append_assoc])
    | (csplit <;> pair_subst))

theorem bodyCallbackC_RP (o : Owner) (re : List Nat) (st : Status) (t : Nat) (rec : Option Reply) (s : St)
    (L : CLog) (σ) (h : RP cfg r0 L σ s) :
    RP cfg r0 (L ++ (bodyCallbackC goC o re st t rec s).2) σ (bodyCallbackC goC o re st t rec s).1.1 := by
  unfold bodyCallbackC
  split
  · simpa only [RP, chan_frame, List.append_nil] using h
  · rename_i id
    split
    · simpa only [RP, chan_frame, List.append_nil] using h
    · rename_i c hc
      rw [List.append_cons]
      apply hgo
      rcases h with h | ⟨hcfg, hr⟩
      · exact .inl h
      · refine .inr ⟨hcfg, ?_⟩
        rw [replay_snoc, hr]
        have hc' : s.clients.find? (·.id == id) = some c := hc
        simp only [Option.bind_some, rstep, hc', hcfg, and_self, ↓reduceIte]
        rfl
  · exact hgo _ _ _ _ h

theorem bodyClientStartC_RP (k : String) (tok : Nat) (re : List Nat) (sp : ReqSpec) (f : Nat) (s : St)
    (L : CLog) (σ) (h : RP cfg r0 L σ s) :
    RP cfg r0 (L ++ (bodyClientStartC goC k tok re sp f s).2) σ (bodyClientStartC goC k tok re sp f s).1.1 := by
  unfold bodyClientStartC
  rw [List.append_cons]
  apply hgo
  rcases h with h | ⟨hcfg, hr⟩
  · exact .inl h
  · refine .inr ⟨hcfg, ?_⟩
    rw [replay_snoc, hr]
    simp only [Option.bind_some, rstep, hcfg, ↓reduceIte]
    rfl

theorem bodyRunActsC_RP (id : Nat) (acts : List ClientAct) (s : St) (L : CLog) (σ)
    (h : RP cfg r0 L ((id, some acts) :: σ) s) :
    RP cfg r0 (L ++ (bodyRunActsC goC id acts s).2) σ (bodyRunActsC goC id acts s).1.1 := by
  unfold bodyRunActsC
  split
  · -- []
    rcases h with h | ⟨hcfg, hr⟩
    · exact .inl h
    · refine .inr ⟨hcfg, ?_⟩
      rw [replay_snoc, hr]
      simp only [Option.bind_some, rstep, ↓reduceIte]
  · -- send
    rename_i spec rest
    simp only [List.cons_append]
    rw [List.append_cons]
    simp only [← List.append_assoc]
    apply hgo
    apply hgo
    rcases h with h | ⟨hcfg, hr⟩
    · exact .inl h
    · refine .inr ⟨hcfg, ?_⟩
      rw [replay_snoc, hr]
      simp only [Option.bind_some, rstep, and_self, ↓reduceIte, afterAct, preσ, List.cons_append, List.nil_append]
  · -- sendSlot
    rename_i spec slot rest
    simp only [List.cons_append]
    rw [List.append_cons]
    simp only [← List.append_assoc]
    apply hgo
    have h1 : RP cfg r0 (L ++ [CItem.act id (.sendSlot spec slot)]) ((id, some rest) :: σ) s := by
      rcases h with h | ⟨hcfg, hr⟩
      · exact .inl h
      · refine .inr ⟨hcfg, ?_⟩
        rw [replay_snoc, hr]
        simp only [Option.bind_some, rstep, and_self, ↓reduceIte, afterAct, List.cons_append, List.nil_append]
    have h2 := hgo (.sendNolock none false false spec (.client id) []) s _ _ h1
    split
    · rcases h2 with h2 | ⟨hcfg, hr⟩
      · exact .inl (by simpa only [chan_frame] using h2)
      · refine .inr ⟨by simpa only [chan_frame] using hcfg, ?_⟩
        rw [replay_snoc, hr]
        simp only [Option.bind_some, rstep, preσ]
        rfl
    · simpa only [List.append_nil, preσ] using h2
  · -- noRetry
    rename_i qid rest
    rw [List.append_cons]
    apply hgo
    rcases h with h | ⟨hcfg, hr⟩
    · exact .inl (by split <;> simpa only [chan_frame] using h)
    · refine .inr ⟨by split <;> simpa only [chan_frame] using hcfg, ?_⟩
      rw [replay_snoc, hr]
      simp only [Option.bind_some, rstep, and_self, ↓reduceIte, afterAct, preσ, List.cons_append, List.nil_append]
      split <;> simp only [chan_frame]
  · -- finish
    rename_i st timeouts dg rest
    split
    · rename_i hc
      rcases h with h | ⟨hcfg, hr⟩
      · exact .inl (by simpa only [chan_frame] using h)
      · refine .inr ⟨by simpa only [chan_frame] using hcfg, ?_⟩
        have hc' : s.clients.find? (·.id == id) = none := hc
        rw [show L ++ [CItem.lost id, CItem.ret id] = (L ++ [CItem.lost id]) ++ [CItem.ret id] by simp,
          replay_snoc, replay_snoc, hr]
        simp only [Option.bind_some, rstep, hc', Option.isNone_none, and_self, ↓reduceIte, chan_frame]
    · rename_i c hc
      have h1 : RP cfg r0 (L ++ [CItem.act id (.finish st timeouts dg)]) ((id, none) :: (id, some []) :: σ) s := by
        rcases h with h | ⟨hcfg, hr⟩
        · exact .inl h
        · refine .inr ⟨hcfg, ?_⟩
          rw [replay_snoc, hr]
          simp only [Option.bind_some, rstep, and_self, ↓reduceIte, afterAct, List.cons_append, List.nil_append]
      have h2 := hgo (.userCb c.tok c.react st timeouts dg) s _ _ h1
      rcases h2 with h2 | ⟨hcfg, hr⟩
      · exact .inl h2
      · refine .inr ⟨hcfg, ?_⟩
        rw [show L ++ (CItem.act id (.finish st timeouts dg) :: (goC (.userCb c.tok c.react st timeouts dg) s).2 ++
              [CItem.rel id, CItem.ret id]) =
            ((L ++ [CItem.act id (.finish st timeouts dg)] ++ (goC (.userCb c.tok c.react st timeouts dg) s).2) ++
              [CItem.rel id]) ++ [CItem.ret id] by simp,
          replay_snoc, replay_snoc, hr]
        simp only [Option.bind_some, rstep, ↓reduceIte]

theorem bodyDestroyC_RP (s : St) (L : CLog) (σ) (h : RP cfg r0 L σ s) :
    RP cfg r0 (L ++ (bodyDestroyC goC s).2) σ (bodyDestroyC goC s).1.1 := by
  unfold bodyDestroyC
  simp only [← List.append_assoc]
  have h1 := closeAllC_RP hgo
    ((goC (.cancelLoop .destruction true) { s with destroying := true }).1.1.sortedServers.map (·.conns)).flatten
    _ _ σ (hgo (.cancelLoop .destruction true) { s with destroying := true } L σ h)
  exact h1

theorem execCBody_RP : GoRP cfg r0 (execCBody goC) := by
  intro c s L σ h
  cases c <;> simp only [execCBody]
  case sendQuery a b => exact bodySendQueryC_RP hgo a b s L σ h
  case processAnswer a b => exact bodyProcessAnswerC_RP hgo a b s L σ h
  case callback a b c d e => exact bodyCallbackC_RP hgo a b c d e s L σ h
  case clientStart a b c d e => exact bodyClientStartC_RP hgo a b c d e s L σ h
  case runActs a b => exact bodyRunActsC_RP hgo a b s L σ h
  case destroy => exact bodyDestroyC_RP hgo s L σ h
  case reactions l =>
    simp only [preσ] at h
    unfold bodyReactionsC
    repeat (first
      | with_reducible assumption
      | with_reducible (apply hgo)
      | with_reducible (apply reactOneC_RP hgo)
      | (simp only [chan_frame, RP, preσ, List.append_nil, ← List.append_assoc])
      | (csplit <;> pair_subst))
  all_goals (simp only [preσ] at h; unfold_bodyC; rp_peel hgo)

end

theorem execC_RP (cfg : Cfg) (r0 : RSt) : ∀ fuel, GoRP cfg r0 (execC fuel)
  | 0 => fun _ _ _ _ _ => .inl rfl
  | fuel + 1 => execCBody_RP (execC_RP cfg r0 fuel)

/-- **Exec-level refinement (unconditional).**  Unless fuel runs out, the client events logged while `call` runs
    replay on the pure machine from the client store of `s` to that of the resulting state; the frame stack is
    restored (`runActs id acts` starts with its frame `(id, acts)` on top). -/
theorem exec_replays (fuel : Nat) (call : Call) (s : St) (σ : List (Nat × Option (List ClientAct)))
    (hf : (exec fuel call s).1.outOfFuel = false) :
    (exec fuel call s).1.cfg = s.cfg ∧
    replay s.cfg ⟨s.clients, s.nextClient, preσ call σ⟩ (execC fuel call s).2 =
      some ⟨(exec fuel call s).1.clients, (exec fuel call s).1.nextClient, σ⟩ := by
  have h := execC_RP s.cfg ⟨s.clients, s.nextClient, preσ call σ⟩ fuel call s [] σ (.inr ⟨rfl, rfl⟩)
  rw [execC_fst] at h
  rcases h with h | ⟨h1, h2⟩
  · rw [hf] at h; cases h
  · exact ⟨h1, by simpa using h2⟩

end Cares.Chan
