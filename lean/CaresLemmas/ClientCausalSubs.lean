import CaresLemmas.ClientCausalDefs
/-!
# Causality — how the skeleton operations change the number of linked sub-requests of a compound request
-/
namespace Cares.Chan

section
variable {a : Sk} {hole : Option Nat} {k : Nat} {e : QSk}

/-- unlinking a linked query lowers the count of its owner by one -/
theorem subs_detach (h : WfS a hole) (hq : a.q? k = some e) (hk : k ∈ a.idx) (id : Nat) :
    a.subs id = (a.detach k).subs id + (if e.owner = .client id then 1 else 0) := by
  have hidx : ∀ x, x ∈ (a.detach k).idx ↔ x ∈ a.idx ∧ x ≠ k := fun x => mem_idx_detach h hq
  have hko := (Sk.q?_mem_proj hq).2.1
  have hn : (a.qKO.map (·.1)).Nodup := by
    have : a.qKO.map (·.1) = a.qK := by unfold Sk.qKO Sk.qK; rw [List.map_map]; rfl
    rw [this]; exact h.q.nodup
  unfold Sk.subs; rw [detach_qKO hq]; exact subsP_unlink hn hko hk hidx id

/-- releasing a linked query (cancel / destroy walk) lowers the count of its owner by one -/
theorem subs_freeQuery_linked (h : WfS a hole) (hq : a.q? k = some e) (hk : k ∈ a.idx) (id : Nat) :
    a.subs id = (a.freeQuery k).subs id + (if e.owner = .client id then 1 else 0) := by
  rw [Sk.freeQuery_eq, subs_dropQ (not_idx_detach h hq)]
  exact subs_detach h hq hk id

/-- releasing a query that is not linked changes no count -/
theorem subs_freeQuery_unlinked (h : WfS a none) (hk : k ∉ a.idx) (id : Nat) :
    (a.freeQuery k).subs id = a.subs id := by
  rw [Sk.freeQuery_eq]
  cases hq : a.q? k with
  | none => rw [detach_none hq]; exact subs_dropQ hk id
  | some e =>
    have hs := detach_same hq
    have hi : (a.detach k).idx = a.idx := by
      unfold Sk.idx; rw [hs.2.2.2.2.2.2.2.2.2.2.2.2.2.2.2.2]
      congr 1
      apply List.filter_eq_self.mpr
      intro p hp
      simp only [Bool.not_eq_true', Bool.and_eq_false_iff, beq_eq_false_iff_ne]
      exact Or.inr (fun he => hk (List.mem_map.mpr ⟨p, hp, he⟩))
    rw [subs_dropQ (not_idx_detach h hq)]
    unfold Sk.subs
    rw [detach_qKO hq, hi]

end

theorem ownerX_eq (cid : Nat) (o : Owner) : ownerX cid o = if o = .client cid then 1 else 0 := by
  cases o with
  | probe => simp [ownerX]
  | user t => simp [ownerX]
  | client id =>
    simp only [ownerX, Owner.client.injEq]

end Cares.Chan
