import CaresLemmas.ChanPolicyLookup
/-!
# C09 — the completion of a probe query is invisible to every other request (frame form of non-interference)

`end_query` of a query owned by `probe pid` (`server_probe_cb` with the probed server as its argument): the callback
only resets `probe_pending` of server `pid`, so the whole run of `exec fuel (.endQuery …)` is `metricsRecord`,
`detach`, that reset, `freeQuery` — computed here in closed form.
-/
namespace Cares.Chan

theorem filter_map_unlink (l : List Query) (k : Nat) :
    (l.map (fun x => if x.key == k then unlinkQ x else x)).filter (·.key != k) = l.filter (·.key != k) := by
  induction l with
  | nil => rfl
  | cons x r ih =>
    simp only [List.map_cons, List.filter_cons]
    by_cases h : x.key == k
    · have h1 : ((unlinkQ x).key != k) = false := by
        show (x.key != k) = false
        simp [bne, h]
      have h2 : (x.key != k) = false := by simp [bne, h]
      simp only [h, ↓reduceIte, h1, h2, Bool.false_eq_true, ih]
    · simp only [h, Bool.false_eq_true, ↓reduceIte, ih]

theorem detach_qs (s : St) (k : Nat) : (s.detach k).qs = (s.removeFromConn k).qs := by
  unfold St.detach
  split
  · rename_i h
    unfold St.removeFromConn
    rw [h]
  · rfl

/-- releasing a query removes exactly the entries with its key from the store; every other entry is left as it is -/
theorem freeQuery_qs (s : St) (k : Nat) : (s.freeQuery k).qs = s.qs.filter (·.key != k) := by
  show (s.detach k).qs.filter (·.key != k) = _
  rw [detach_qs]
  rcases removeFromConn_qs s k with h | ⟨_, h⟩
  · rw [h, filter_map_unlink]
  · rw [h]

/-- the fields a probe's completion must not touch -/
structure SameOutcome (s r : St) : Prop where
  pendingToks : r.pendingToks = s.pendingToks
  doneToks : r.doneToks = s.doneToks
  cache : r.cache = s.cache
  clients : r.clients = s.clients
  ev : r.ev = s.ev
  nextKey : r.nextKey = s.nextKey
  requeueArr : r.requeueArr = s.requeueArr
  picks : r.picks = s.picks
  writeLog : r.writeLog = s.writeLog
  txs : r.txs = s.txs
  accepted : r.accepted = s.accepted
  obs : r.obs = s.obs
  reactions : r.reactions = s.reactions
  modelFaults : r.modelFaults = s.modelFaults
  obsFaults : r.obsFaults = s.obsFaults
  socks : r.socks = s.socks
  destroyed : r.destroyed = s.destroyed

theorem SameOutcome.refl (s : St) : SameOutcome s s := by constructor <;> rfl

theorem SameOutcome.trans {a b c : St} (h1 : SameOutcome a b) (h2 : SameOutcome b c) : SameOutcome a c := by
  constructor
  · exact h2.pendingToks.trans h1.pendingToks
  · exact h2.doneToks.trans h1.doneToks
  · exact h2.cache.trans h1.cache
  · exact h2.clients.trans h1.clients
  · exact h2.ev.trans h1.ev
  · exact h2.nextKey.trans h1.nextKey
  · exact h2.requeueArr.trans h1.requeueArr
  · exact h2.picks.trans h1.picks
  · exact h2.writeLog.trans h1.writeLog
  · exact h2.txs.trans h1.txs
  · exact h2.accepted.trans h1.accepted
  · exact h2.obs.trans h1.obs
  · exact h2.reactions.trans h1.reactions
  · exact h2.modelFaults.trans h1.modelFaults
  · exact h2.obsFaults.trans h1.obsFaults
  · exact h2.socks.trans h1.socks
  · exact h2.destroyed.trans h1.destroyed

theorem SameOutcome.freeQuery (s : St) (k : Nat) : SameOutcome s (s.freeQuery k) := by
  obtain ⟨a, b, c, d, e1, e2, e3, e⟩ := freeQuery_shape s k
  rw [e]; constructor <;> rfl

theorem SameOutcome.detach (s : St) (k : Nat) : SameOutcome s (s.detach k) := by
  obtain ⟨a, b, c, d, e1, e2, e3, e⟩ := detach_shape s k
  rw [e]; constructor <;> rfl

theorem SameOutcome.metricsRecord (s : St) (q : Query) (srv : Option Nat) (st : Status) (rec : Option Reply) :
    SameOutcome s (s.metricsRecord q srv st rec) := by
  obtain ⟨a, e⟩ := metricsRecord_shape s q srv st rec
  rw [e]; constructor <;> rfl

theorem metricsRecord_qs (s : St) (q : Query) (srv : Option Nat) (st : Status) (rec : Option Reply) :
    (s.metricsRecord q srv st rec).qs = s.qs := by
  obtain ⟨a, e⟩ := metricsRecord_shape s q srv st rec
  rw [e]

/-- `server_probe_cb(arg = server pid)`: the probe episode of that server is over -/
def releaseProbe (pid : Nat) (s : St) : St := s.modServer pid fun v => { v with probePending := false }

theorem SameOutcome.releaseProbe (pid : Nat) (s : St) : SameOutcome s (releaseProbe pid s) := by
  constructor <;> rfl

/-- the state `end_query` leaves when the owner's callback is `server_probe_cb` for server `pid` -/
def endProbeSt (pid : Nat) (srv : Option Nat) (key : Nat) (st : Status) (rec : Option Reply) (q : Query) (s : St) : St :=
  let s1 := match srv with
    | some id => s.modServer id fun v => { v with probePending := false }
    | none => s
  ((releaseProbe pid ((s1.metricsRecord q srv st rec).detach key)).freeQuery key)

theorem endProbeSt_frame (pid : Nat) (srv : Option Nat) (key : Nat) (st : Status) (rec : Option Reply) (q : Query)
    (s : St) :
    (endProbeSt pid srv key st rec q s).qs = s.qs.filter (·.key != key) ∧
      SameOutcome s (endProbeSt pid srv key st rec q s) := by
  unfold endProbeSt
  extract_lets s1
  have h1 : s1.qs = s.qs ∧ SameOutcome s s1 := by
    cases srv with
    | none => exact ⟨rfl, SameOutcome.refl s⟩
    | some id => exact ⟨rfl, by constructor <;> rfl⟩
  refine ⟨?_, ?_⟩
  · rw [freeQuery_qs]
    -- `detach` rewrites only entries with this key, which the final filter drops
    have hd : (releaseProbe pid ((s1.metricsRecord q srv st rec).detach key)).qs.filter (·.key != key) =
        s.qs.filter (·.key != key) := by
      show ((s1.metricsRecord q srv st rec).detach key).qs.filter (·.key != key) = _
      rw [detach_qs]
      rcases removeFromConn_qs (s1.metricsRecord q srv st rec) key with h | ⟨_, h⟩
      · rw [h, filter_map_unlink, metricsRecord_qs, h1.1]
      · rw [h, metricsRecord_qs, h1.1]
    exact hd
  · exact (((h1.2.trans (SameOutcome.metricsRecord _ _ _ _ _)).trans (SameOutcome.detach _ _)).trans
      (SameOutcome.releaseProbe _ _)).trans (SameOutcome.freeQuery _ _)

/-- `server_probe_cb`: the callback of a probe resets `probe_pending` of the probed server and does nothing else
    (any fuel ≥ 1, any status) -/
theorem exec_callback_probe (fuel : Nat) (pid : Nat) (react : List Nat) (st : Status) (timeouts : Nat)
    (rec : Option Reply) (s : St) :
    exec (fuel + 1) (.callback (.probe pid) react st timeouts rec) s = (releaseProbe pid s, .ok) := rfl

/-- closed form of a probe's `end_query` (fuel ≥ 2) -/
theorem exec_endQuery_probe (fuel : Nat) (srv : Option Nat) (key : Nat) (st : Status) (rec : Option Reply) (s : St)
    (q : Query) (pid : Nat) (hq : s.query? key = some q) (ho : q.owner = .probe pid) :
    exec (fuel + 2) (.endQuery srv key st rec) s = (endProbeSt pid srv key st rec q s, .ok) := by
  show bodyEndQuery (exec (fuel + 1)) srv key st rec s = _
  unfold bodyEndQuery
  rw [hq]
  dsimp only
  rw [ho, exec_callback_probe]
  rfl

theorem oof_freeQuery (s : St) (k : Nat) : (s.freeQuery k).outOfFuel = s.outOfFuel := by
  obtain ⟨a, b, c, d, e1, e2, e3, e⟩ := freeQuery_shape s k
  rw [e]

/-- with less fuel the run is marked out of fuel -/
theorem exec_endQuery_oof (fuel : Nat) (hf : fuel < 2) (srv : Option Nat) (key : Nat) (st : Status) (rec : Option Reply)
    (s : St) (q : Query) (hq : s.query? key = some q) :
    (exec fuel (.endQuery srv key st rec) s).1.outOfFuel = true := by
  match fuel, hf with
  | 0, _ => rfl
  | 1, _ =>
    show (bodyEndQuery (exec 0) srv key st rec s).1.outOfFuel = true
    unfold bodyEndQuery
    rw [hq]
    dsimp only
    rw [oof_freeQuery]
    rfl

/-- `end_query` without a server pointer (what `ares_requeue_query` passes when it gives up) changes no server itself;
    the probe's callback resets `probe_pending` of the probed server `pid` and nothing else -/
theorem endProbeSt_none_servers (pid : Nat) (key : Nat) (st : Status) (rec : Option Reply) (q : Query) (s : St) :
    (endProbeSt pid none key st rec q s).servers = (releaseProbe pid s).servers := by
  unfold endProbeSt
  dsimp only
  have h1 : (s.metricsRecord q none st rec) = s := by
    unfold St.metricsRecord
    split
    · rename_i h; cases h
    · rfl
  rw [h1]
  obtain ⟨a, b, c, d, e1, e2, e3, e⟩ := detach_shape s key
  obtain ⟨a', b', c', d', e1', e2', e3', e'⟩ := freeQuery_shape (releaseProbe pid (s.detach key)) key
  rw [e', e]
  rfl

/-- a query with `no_retries` (a probe) that reaches `ares_requeue_query` is ended — without a server pointer — from a
    state that differs from the caller's only in the query's links and counters (same servers, same owner) -/
theorem requeue_noRetries_ends_frame (go : Call → St → St × Ret) (key : Nat) (st : Status) (inc : Bool)
    (rec : Option Reply) (deferred : Bool) (s : St) (q : Query) (hq : s.query? key = some q)
    (hnr : q.noRetries = true) :
    ∃ s' es q', s'.query? key = some q' ∧ q'.owner = q.owner ∧ s'.servers = s.servers ∧
      bodyRequeue go key st inc rec deferred s = ((go (.endQuery none key es rec) s').1, .timeout) := by
  unfold bodyRequeue
  rw [hq]
  dsimp only
  have hq2 : ((s.removeFromConn key).modQuery key fun q =>
      { q with errorStatus := if st != .ok then st else q.errorStatus,
               tryCount := if inc then q.tryCount + 1 else q.tryCount }).query? key =
      some { unlinkQ q with errorStatus := if st != .ok then st else q.errorStatus,
                            tryCount := if inc then q.tryCount + 1 else q.tryCount } := by
    rw [query?_modQuery_self, query?_removeFromConn_self, hq]
    · rfl
    · intro _; rfl
  rw [hq2]
  simp only [Option.getD_some]
  have : (unlinkQ q).noRetries = true := hnr
  simp only [this, Bool.not_true, Bool.and_false, Bool.false_eq_true, ↓reduceIte]
  refine ⟨_, _, ?_, ?_, ?_, ?_, rfl⟩
  rotate_left
  · rw [query?_modQuery_self, hq2]
    · rfl
    · intro _; rfl
  · rfl
  · obtain ⟨a, b, c, d, e⟩ := removeFromConn_shape s key
    rw [e]; rfl

/-- whole run of `ares_requeue_query` on a probe (`no_retries`, owner `probe pid`), any fuel, any state: when it
    completes the servers are as before except that `probe_pending` of the probed server `pid` has been reset (by the
    probe's callback) — the run sets no flag and touches no other server -/
theorem exec_requeue_probe_frame (fuel : Nat) (key : Nat) (st : Status) (inc : Bool) (rec : Option Reply)
    (deferred : Bool) (s : St) (q : Query) (pid : Nat) (hq : s.query? key = some q) (ho : q.owner = .probe pid)
    (hnr : q.noRetries = true)
    (hf : (exec fuel (.requeue key st inc rec deferred) s).1.outOfFuel = false) :
    (exec fuel (.requeue key st inc rec deferred) s).1.servers = (releaseProbe pid s).servers := by
  cases fuel with
  | zero => have : true = false := hf; cases this
  | succ m =>
    obtain ⟨s', es, q', hq', ho', hs', e⟩ :=
      requeue_noRetries_ends_frame (exec m) key st inc rec deferred s q hq hnr
    have er : (exec (m + 1) (.requeue key st inc rec deferred) s).1 =
        (exec m (.endQuery none key es rec) s').1 := by
      show (bodyRequeue (exec m) key st inc rec deferred s).1 = _
      rw [e]
    rw [er] at hf ⊢
    by_cases h2 : m < 2
    · have := exec_endQuery_oof m h2 none key es rec s' q' hq'
      rw [this] at hf; cases hf
    · obtain ⟨n, rfl⟩ : ∃ n, m = n + 2 := ⟨m - 2, by omega⟩
      rw [exec_endQuery_probe n none key es rec s' q' pid hq' (ho'.trans ho)]
      show (endProbeSt pid none key es rec q' s').servers = _
      rw [endProbeSt_none_servers]
      show s'.servers.map _ = s.servers.map _
      rw [hs']

/-- after `server_probe_cb` every server with the probed id has `probe_pending = false`; the others are untouched -/
theorem releaseProbe_spec (pid : Nat) (s : St) :
    (∀ v ∈ (releaseProbe pid s).servers, v.id = pid → v.probePending = false) ∧
    (∀ w : Server, w.id ≠ pid → (w ∈ (releaseProbe pid s).servers ↔ w ∈ s.servers)) ∧
    (∀ v ∈ (releaseProbe pid s).servers, v.probePending = true → ∃ w ∈ s.servers, w.id = v.id ∧ w.probePending = true) ∧
    (releaseProbe pid s).servers.map (·.id) = s.servers.map (·.id) := by
  show (∀ v ∈ s.servers.map _, _) ∧ (∀ w : Server, _ → (w ∈ s.servers.map _ ↔ _)) ∧ (∀ v ∈ s.servers.map _, _) ∧
    (s.servers.map _).map _ = _
  refine ⟨?_, ?_, ?_, ?_⟩
  · intro v hv hid
    obtain ⟨x, hx, rfl⟩ := List.mem_map.1 hv
    by_cases h : x.id == pid
    · simp only [h, ↓reduceIte]
    · simp only [h, Bool.false_eq_true, ↓reduceIte] at hid
      exact absurd (by simpa using hid) h
  · intro w hw
    constructor
    · intro h
      obtain ⟨x, hx, rfl⟩ := List.mem_map.1 h
      by_cases h' : x.id == pid
      · simp only [h', ↓reduceIte] at hw
        exact absurd (by simpa using h') hw
      · simp only [h', Bool.false_eq_true, ↓reduceIte]; exact hx
    · intro h
      refine List.mem_map.2 ⟨w, h, ?_⟩
      have : (w.id == pid) = false := by simpa using hw
      simp only [this, Bool.false_eq_true, ↓reduceIte]
  · intro v hv hp
    obtain ⟨x, hx, rfl⟩ := List.mem_map.1 hv
    by_cases h : x.id == pid
    · simp only [h, ↓reduceIte] at hp; cases hp
    · simp only [h, Bool.false_eq_true, ↓reduceIte] at hp ⊢
      exact ⟨x, hx, rfl, hp⟩
  · rw [List.map_map]
    apply List.map_congr_left
    intro x _
    show (if x.id == pid then _ else x).id = x.id
    split <;> rfl

/-- `server_increment_failures` does not touch the query store -/
theorem query?_incFailures (s : St) (id : Nat) (tcp : Bool) (k : Nat) :
    (s.incFailures id tcp).query? k = s.query? k := by
  obtain ⟨a, b, e⟩ := incFailures_shape s id tcp
  rw [e]; rfl

end Cares.Chan
