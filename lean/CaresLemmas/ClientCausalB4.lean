import CaresLemmas.ClientCausalB3
/-!
# Causality — body lemmas IV: `connError`, `closeConn`, `closeLoop`, `processWrite`, `cleanupConns`
-/
namespace Cares.Chan

variable {cid : Nat}

/-- two logs in sequence -/
theorem LGO.seq {L l1 l2 : CLog} {r : St × Ret} (h : LGO cid (L ++ l1) (r, l2)) : LGO cid L (r, l1 ++ l2) := by
  rcases h with hoof | hg
  · exact Or.inl hoof
  · refine Or.inr ?_
    rw [List.append_assoc] at hg
    exact hg

theorem cz_connError {goC : GoC} (h : GoCz cid goC) {d fd critical st s L} (hpre : Pre d s (.connError fd critical st))
    (hL : LG cid L (xtra cid (.connError fd critical st)) s) : LGO cid L (bodyConnErrorC goC fd critical st s) := by
  obtain ⟨hw, hh, hd⟩ := hpre
  have hL0 : LG cid L 0 s := hL
  obtain ⟨c, hc⟩ := conn?_of_live (live_of_hasConn hh)
  unfold bodyConnErrorC
  simp only [hc]
  have hsk1 : (if critical = true then s.incFailures c.srv c.tcp else s).sk = s.sk := by
    split
    · exact sk_incFailures s _ _ (server_ids_nodup hw)
    · rfl
  generalize (if critical = true then s.incFailures c.srv c.tcp else s) = s1 at hsk1
  exact h.tail (d := d) (c := .closeConn fd st)
    ⟨Wf.of_sk_eq hsk1 hw, by rw [hsk1]; exact hh, by rw [hsk1]; exact hd⟩ (hL0.sk_eq hsk1)

theorem cz_closeConn {goC : GoC} (h : GoCz cid goC) {d fd st s L} (hpre : Pre d s (.closeConn fd st))
    (hL : LG cid L (xtra cid (.closeConn fd st)) s) : LGO cid L (bodyCloseConnC goC fd st s) := by
  obtain ⟨hw, hh, hd⟩ := hpre
  have hL0 : LG cid L 0 s := hL
  obtain ⟨c, hc⟩ := conn?_of_live (live_of_hasConn hh)
  obtain ⟨hcfd, hcm⟩ := conn?_sk hc
  unfold bodyCloseConnC
  simp only [hc]
  have hsk2 : ((s.modServer c.srv fun v =>
        { v with conns := v.conns.erase fd, tcpConn := if c.tcp then none else v.tcpConn }).modConn fd fun c =>
        { c with unlinked := true, out := [], outOff := 0, inBytes := 0, inMsgs := [] }).sk =
      s.sk.markUnlinked c.sk.fd c.sk.srv c.sk.tcp := by
    rw [sk_modConn _ _ _ (fun c => { c with unlinked := true }) (fun _ => rfl),
      sk_modServer _ _ _ (fun v => { v with conns := v.conns.erase fd, tcpConn := if c.tcp then none else v.tcpConn })
        (fun _ => rfl)]
    show _ = Sk.markUnlinked _ c.fd _ _
    rw [hcfd]; rfl
  generalize ((s.modServer c.srv fun v =>
        { v with conns := v.conns.erase fd, tcpConn := if c.tcp then none else v.tcpConn }).modConn fd fun c =>
        { c with unlinked := true, out := [], outOff := 0, inBytes := 0, inMsgs := [] }) = s2 at hsk2
  have hfd : c.sk.fd = fd := hcfd
  exact h.tail (d := d) (c := .closeLoop fd st) (s := s2) ⟨by unfold Wf; rw [hsk2]; exact wf_mark hw hcm,
    by rw [hsk2, ← hfd]; exact hasConn_mark hcm, by rw [hsk2]; exact debt_mark hd⟩
    (hL0.congr (by rw [hsk2]; rfl) (by rw [hsk2]; rfl))

theorem cz_closeLoop {goC : GoC} (h : GoCz cid goC) {d fd st s L} (hpre : Pre d s (.closeLoop fd st))
    (hL : LG cid L (xtra cid (.closeLoop fd st)) s) : LGO cid L (bodyCloseLoopC goC fd st s) := by
  obtain ⟨hw, hh, hd⟩ := hpre
  have hL0 : LG cid L 0 s := hL
  obtain ⟨c, hc⟩ := conn?_of_live (live_of_hasConn hh)
  obtain ⟨hcfd, hcm⟩ := conn?_sk hc
  have hcu : c.unlinked = true := unlinked_of_hasConn hw hh hc
  unfold bodyCloseLoopC
  simp only [hc]
  split
  · -- requeue the first query of the list
    rename_i k rest hcq
    have hkq : k ∈ c.sk.queries := by show k ∈ c.queries; rw [hcq]; exact List.mem_cons_self
    have hki : k ∈ s.sk.idx := (hw.c.cq (c.sk.fd, c.sk.queries) (mem_cFQ.mpr ⟨c.sk, hcm, rfl⟩) k hkq).1
    have hg1 := h.call (d := d) (c := .requeue k st true none false) (s := s) ⟨WfS.weaken_hole hw, hki, hd⟩ hL0
    generalize goC (.requeue k st true none false) s = r1 at hg1
    obtain ⟨⟨s1, ret1⟩, l1⟩ := r1
    rcases hg1 with hoof | ⟨hg1, hL1⟩
    · exact Or.inl (h.oof (by simpa using hoof))
    simp only at hL1 ⊢
    -- the connection is still there, still unlinked, and no longer lists `k`
    have hmu : (fd, true, c.queries) ∈ s.sk.cFUQ :=
      mem_cFUQ.mpr ⟨c.sk, hcm, by rw [← hcfd, ← hcu]; rfl⟩
    obtain ⟨q1, hq1, _⟩ := hg1.step.unl fd c.queries hmu (fun hx => by cases hx)
    have hnot := hg1.post fd c.queries hmu
    have hsk2 : (s1.modConn fd fun c => { c with queries := c.queries.erase k }).sk = s1.sk := by
      rw [sk_modConn _ _ _ (fun c => { c with queries := c.queries.erase k }) (fun _ => rfl)]
      apply Sk.modC_id
      intro e he hefd
      have : k ∉ e.queries := hnot e.queries (mem_cFQ.mpr ⟨e, he, by rw [hefd]⟩)
      rw [List.erase_of_not_mem this]
    generalize (s1.modConn fd fun c => { c with queries := c.queries.erase k }) = s2 at hsk2
    exact LGO.seq (h.tail (d := d) (c := .closeLoop fd st) (s := s2)
      ⟨Wf.of_sk_eq hsk2 hg1.wf, by rw [hsk2]; exact ⟨q1, hq1⟩, by rw [hsk2]; exact hg1.debt⟩ (hL1.sk_eq hsk2))
  · -- the list is empty: close the socket, release the connection
    have hskX : ((((s.notify fd false false).modSock fd fun v => { v with isOpen := false }).emit
        s!"close({fd})").slog fd "close").sk = s.sk := by
      simp only [sk_slog, sk_emit]
      rw [sk_modSock]
      · exact sk_notify _ _ _ _
      · intro; rfl
    generalize ((((s.notify fd false false).modSock fd fun v => { v with isOpen := false }).emit
        s!"close({fd})").slog fd "close") = sX at hskX
    have hsk := sk_removeConn_st sX fd
    rw [hskX] at hsk
    exact LGO.done (hL0.congr (by rw [hsk]; rfl) (by rw [hsk]; rfl))

theorem cz_processWrite {goC : GoC} (h : GoCz cid goC) {d fd s L} (hpre : Pre d s (.processWrite fd))
    (hL : LG cid L (xtra cid (.processWrite fd)) s) : LGO cid L (bodyProcessWriteC goC fd s) := by
  obtain ⟨hw, hd⟩ := hpre
  have hL0 : LG cid L 0 s := hL
  unfold bodyProcessWriteC
  split
  · exact LGO.done hL0
  · rename_i c hc
    split
    · exact LGO.done hL0
    · rename_i hcu
      have hcu' : c.unlinked = false := by simpa using hcu
      have hsk1 : (s.modConn fd fun c => { c with connected := true }).sk = s.sk := by
        rw [sk_modConn_same]; intro; rfl
      generalize (s.modConn fd fun c => { c with connected := true }) = s1 at hsk1
      rcases h.call (d := d) (c := .flush fd) (s := s1)
        ⟨Wf.of_sk_eq hsk1 hw, by unfold Sk.liveConn; rw [hsk1]; exact live_of_conn? hc, by rw [hsk1]; exact hd⟩
        (hL0.sk_eq hsk1) with hoof | ⟨hg1, hL1⟩
      · simp only
        split
        · exact Or.inl (h.oof hoof)
        · exact Or.inl hoof
      have hsk2 : (goC (.flush fd) s1).1.1.sk = s.sk := hg1.post.trans hsk1
      simp only
      split
      · refine LGO.seq (h.tail (d := d) ?_ hL1)
        refine ⟨hg1.wf, ?_, hg1.debt⟩
        rw [hsk2]; have := hasConn_of_conn? hc; rwa [hcu'] at this
      · exact Or.inr hL1

theorem cz_cleanupConns {goC : GoC} (h : GoCz cid goC) {d todo s L} (hpre : Pre d s (.cleanupConns todo))
    (hL : LG cid L (xtra cid (.cleanupConns todo)) s) : LGO cid L (bodyCleanupConnsC goC todo s) := by
  obtain ⟨hw, hd⟩ := hpre
  have hL0 : LG cid L 0 s := hL
  unfold bodyCleanupConnsC
  split
  · exact LGO.done hL0
  · rename_i fd rest
    split
    · exact h.tail (d := d) (c := .cleanupConns rest) ⟨hw, hd⟩ hL0
    · rename_i c hc
      simp only
      split
      · rename_i hdo
        have hcu : c.unlinked = false := by
          simp only [Bool.and_eq_true, Bool.not_eq_true'] at hdo
          exact hdo.1.2
        rcases h.call (d := d) (c := .closeConn fd .ok) (s := s)
          ⟨hw, by have := hasConn_of_conn? hc; rwa [hcu] at this, hd⟩ hL0 with hoof | ⟨hg1, hL1⟩
        · exact Or.inl (h.oof hoof)
        exact LGO.seq (h.tail (d := d) (c := .cleanupConns rest) ⟨hg1.wf, hg1.debt⟩ hL1)
      · refine LGO.seq (l1 := []) ?_
        rw [List.append_nil]
        exact h.tail (d := d) (c := .cleanupConns rest) ⟨hw, hd⟩ hL0

end Cares.Chan
