import CaresModel.Dns.Parse
/-!
# Bounds discipline of the reader and of the DNS decoders (helper lemmas for C02)

`SafeAt bs m off`: running the reader step `m` at cursor `off` does not fault, and if it succeeds
the cursor did not move backwards and is still inside `[0, data_len]`.
-/
namespace Cares.Dns
open Cares.Generated

/-- no modelled memory fault; on success the cursor is monotone and stays within the buffer -/
def SafeAt {α : Type} (bs : Bytes) (m : P α) (off : Nat) : Prop :=
  match m off with
  | .ok _ off' => off ≤ off' ∧ off' ≤ bs.size
  | .err _ => True
  | .fault _ => False

theorem SafeAt.of_ok {α : Type} {bs : Bytes} {m : P α} {off off' : Nat} {a : α}
    (h : m off = .ok a off') (h1 : off ≤ off') (h2 : off' ≤ bs.size) : SafeAt bs m off := by
  simp [SafeAt, h, h1, h2]

theorem SafeAt.of_err {α : Type} {bs : Bytes} {m : P α} {off : Nat} {e : Status}
    (h : m off = .err e) : SafeAt bs m off := by
  simp [SafeAt, h]

theorem SafeAt.ok {α : Type} {bs : Bytes} {m : P α} {off off' : Nat} {a : α}
    (hs : SafeAt bs m off) (h : m off = .ok a off') : off ≤ off' ∧ off' ≤ bs.size := by
  simpa [SafeAt, h] using hs

theorem SafeAt.not_fault {α : Type} {bs : Bytes} {m : P α} {off : Nat} {k : FaultKind}
    (hs : SafeAt bs m off) : m off ≠ .fault k := by
  intro h
  simp [SafeAt, h] at hs

theorem SafeAt.pure {α : Type} {bs : Bytes} {off : Nat} (a : α) (h : off ≤ bs.size) :
    SafeAt bs (Pure.pure a : P α) off := by
  simp [SafeAt, h]

theorem SafeAt.fail {α : Type} {bs : Bytes} {off : Nat} (e : Status) : SafeAt bs (P.fail e : P α) off := by
  simp [SafeAt]

/-- sequencing: the continuation only has to be safe at the cursors the first step can produce -/
theorem SafeAt.bind {α β : Type} {bs : Bytes} {m : P α} {f : α → P β} {off : Nat}
    (hm : SafeAt bs m off) (hf : ∀ a off', m off = .ok a off' → SafeAt bs (f a) off') :
    SafeAt bs (m >>= f) off := by
  cases h : m off with
  | ok a off' =>
    have h1 := hm.ok h
    have h2 := hf a off' h
    unfold SafeAt
    rw [P.bind_ok h]
    cases hh : f a off' with
    | ok b off'' =>
      have h3 := h2.ok hh
      simp only
      omega
    | err e => trivial
    | fault k => exact (h2.not_fault hh).elim
  | err e => unfold SafeAt; rw [P.bind_err h]; trivial
  | fault k => exact (hm.not_fault h).elim

theorem SafeAt.ite {α : Type} {bs : Bytes} {c : Prop} [Decidable c] {m1 m2 : P α} {off : Nat}
    (h1 : c → SafeAt bs m1 off) (h2 : ¬ c → SafeAt bs m2 off) :
    SafeAt bs (if c then m1 else m2) off := by
  split
  · exact h1 ‹_›
  · exact h2 ‹_›

/-! ## primitives -/
section prim
variable {bs : Bytes} {off : Nat}

theorem safe_bufLen (h : off ≤ bs.size) : SafeAt bs (bufLen bs) off := by
  simp [SafeAt, bufLen_eq h, h]

theorem bufLen_ok {n off' : Nat} (h : off ≤ bs.size) (hb : bufLen bs off = .ok n off') :
    n = bs.size - off ∧ off' = off := by
  rw [bufLen_eq h] at hb
  injection hb with h1 h2
  exact ⟨h1.symm, h2.symm⟩

theorem safe_consume (len : Nat) (h : off ≤ bs.size) : SafeAt bs (consume bs len) off := by
  unfold SafeAt
  rw [consume_eq h]
  by_cases hc : off + len ≤ bs.size <;> simp [hc]

theorem safe_fetchByte (h : off ≤ bs.size) : SafeAt bs (fetchByte bs) off := by
  unfold SafeAt
  rw [fetchByte_eq h]
  by_cases hc : off < bs.size <;> simp [hc]; omega

theorem safe_fetchBe16 (h : off ≤ bs.size) : SafeAt bs (fetchBe16 bs) off := by
  unfold SafeAt
  rw [fetchBe16_eq h]
  by_cases hc : off + 2 ≤ bs.size <;> simp [hc]

theorem safe_fetchBe32 (h : off ≤ bs.size) : SafeAt bs (fetchBe32 bs) off := by
  unfold SafeAt
  rw [fetchBe32_eq h]
  by_cases hc : off + 4 ≤ bs.size <;> simp [hc]

theorem safe_fetchBytes (len : Nat) (h : off ≤ bs.size) : SafeAt bs (fetchBytes bs len) off := by
  unfold SafeAt
  rw [fetchBytes_eq h]
  by_cases hc : len ≠ 0 ∧ off + len ≤ bs.size
  · rw [if_pos hc]; simp only; omega
  · rw [if_neg hc]; trivial

theorem safe_subChecked {a b : Nat} (hab : b ≤ a) (h : off ≤ bs.size) : SafeAt bs (subChecked a b) off := by
  simp [SafeAt, subChecked, hab, h]

theorem safe_rawSlice {len : Nat} (hl : off + len ≤ bs.size) : SafeAt bs (rawSlice bs len) off := by
  simp [SafeAt, rawSlice_eq hl]; omega

end prim

/-! ## name decompression -/

/-- outcome of the decompression loop started (as a whole) at `pos0`: no fault; on success the
    cursor ends strictly after `pos0` and inside the buffer -/
def NameOk (bs : Bytes) (pos0 : Nat) (r : Res BStr) : Prop :=
  match r with
  | .ok _ off' => pos0 < off' ∧ off' ≤ bs.size
  | .err _ => True
  | .fault _ => False

theorem safe_fetchLabel {bs : Bytes} {off : Nat} (isHost : Bool) (len : Nat) (h : off ≤ bs.size) :
    SafeAt bs (fetchLabel bs isHost len) off := by
  unfold SafeAt
  rw [fetchLabel_eq h]
  by_cases hc : len ≠ 0 ∧ off + len ≤ bs.size
  · rw [if_pos hc]
    by_cases hh : isHost = true ∧ (!List.all (slice bs off len) fun c => isHostnameCh c.toNat) = true
    · rw [if_pos hh]; trivial
    · rw [if_neg hh]; simp only; omega
  · rw [if_neg hc]; trivial

theorem nameLoop_safe (bs : Bytes) (isHost : Bool) (pos0 : Nat) (pos ls save : Nat) (acc : BStr) (iters : Nat)
    (jumps : List (Nat × Nat × Nat))
    (hpos : pos ≤ bs.size) (hs1 : save ≠ 0 → pos0 < save ∧ save ≤ bs.size) (hs0 : save = 0 → pos0 ≤ pos) :
    NameOk bs pos0 (nameLoop bs isHost pos ls save acc iters jumps).out := by
  fun_induction nameLoop bs isHost pos ls save acc iters jumps
  all_goals (try trivial)
  case case2 =>
    rename_i h
    exact ((safe_fetchByte hpos).not_fault h).elim
  case case4 =>
    rename_i h1 _ _ h2
    have e1 := fetchByte_ok h1
    exact ((safe_fetchByte (by omega)).not_fault h2).elim
  case case7 =>
    rename_i pos ls save acc iters jumps ls' c pos1 h1 hc c2 pos2 h2 offset hge save' hsz ih
    have e1 := fetchByte_ok h1
    have e2 := fetchByte_ok h2
    have hsv : (save = 0 ∧ save' = pos2) ∨ (save ≠ 0 ∧ save' = save) := by
      by_cases hz : save = 0
      · left; exact ⟨hz, by simp [save', hz]⟩
      · right; exact ⟨hz, by simp [save', hz]⟩
    apply ih (by omega)
    · intro _
      rcases hsv with ⟨_, hv⟩ | ⟨hz, hv⟩
      · omega
      · rw [hv]; exact hs1 hz
    · intro h0
      rcases hsv with ⟨_, hv⟩ | ⟨hz, hv⟩ <;> omega
  case case9 =>
    rename_i h1 _ _
    have e1 := fetchByte_ok h1
    simp only [NameOk]
    split
    · exact hs1 ‹_›
    · have := hs0 (by omega); omega
  case case11 =>
    rename_i h1 _ _ _ _ h3
    have e1 := fetchByte_ok h1
    exact ((safe_fetchLabel isHost _ (by omega)).not_fault h3).elim
  case case12 =>
    rename_i h1 _ _ _ _ _ _ h3 ih
    have e1 := fetchByte_ok h1
    have e3 := fetchLabel_ok h3
    apply ih (by omega) hs1
    intro h0
    have := hs0 h0
    omega

/-! ## composite reader steps -/

theorem SafeAt.bind' {α β : Type} {bs : Bytes} {m : P α} {f : α → P β} {off : Nat}
    (hm : SafeAt bs m off)
    (hf : ∀ a off', m off = .ok a off' → off ≤ off' → off' ≤ bs.size → SafeAt bs (f a) off') :
    SafeAt bs (m >>= f) off :=
  SafeAt.bind hm fun a off' h => hf a off' h (hm.ok h).1 (hm.ok h).2

theorem subChecked_ok {a b v off off' : Nat} (h : subChecked a b off = .ok v off') :
    off' = off ∧ v = a - b ∧ b ≤ a := by
  unfold subChecked at h
  split at h
  · injection h with h1 h2; omega
  · simp at h

theorem safe_parseName {bs : Bytes} {off : Nat} (isHost : Bool) (h : off ≤ bs.size) :
    SafeAt bs (parseName bs isHost) off := by
  have := nameLoop_safe bs isHost off off off 0 [] 0 [] h (by simp) (by simp)
  unfold SafeAt parseName parseNameRun
  unfold NameOk at this
  cases hr : (nameLoop bs isHost off off 0 [] 0 []).out with
  | ok a off' => rw [hr] at this; simp only at this ⊢; omega
  | err e => cases e <;> simp
  | fault k => rw [hr] at this; exact this.elim

theorem safe_rrRemainingLen {bs : Bytes} {off : Nat} (origLen rdlength : Nat) (h : off ≤ bs.size)
    (ho : bs.size - off ≤ origLen) : SafeAt bs (rrRemainingLen bs origLen rdlength) off := by
  unfold rrRemainingLen
  apply SafeAt.bind' (safe_bufLen h)
  intro bl off' hb _ _
  obtain ⟨rfl, rfl⟩ := bufLen_ok h hb
  apply SafeAt.bind' (safe_subChecked ho h)
  intro used off' hu _ hle
  exact SafeAt.ite (fun _ => SafeAt.pure _ hle) (fun _ => SafeAt.pure _ hle)

theorem rrRemainingLen_ok {bs : Bytes} {off off' v : Nat} {origLen rdlength : Nat} (h : off ≤ bs.size)
    (hr : rrRemainingLen bs origLen rdlength off = .ok v off') : off' = off := by
  unfold rrRemainingLen at hr
  rw [P.bind_ok (bufLen_eq h)] at hr
  cases hs : subChecked origLen (bs.size - off) off with
  | ok u o2 =>
    rw [P.bind_ok hs] at hr
    have := (subChecked_ok hs).1
    split at hr <;> (simp only [P.pure_apply] at hr; injection hr with _ h2; omega)
  | err e => rw [P.bind_err hs] at hr; simp at hr
  | fault k => rw [P.bind_fault hs] at hr; simp at hr

theorem safe_fetchStrDup {bs : Bytes} {off : Nat} (len : Nat) (h : off ≤ bs.size) :
    SafeAt bs (fetchStrDup bs len) off := by
  unfold fetchStrDup
  apply SafeAt.bind' (safe_bufLen h)
  intro bl off' hb _ _
  obtain ⟨rfl, rfl⟩ := bufLen_ok h hb
  apply SafeAt.ite (fun _ => SafeAt.fail _)
  intro hc
  apply SafeAt.bind' (safe_rawSlice (by omega))
  intro d off' hd _ hle
  rw [rawSlice_eq (by omega)] at hd
  injection hd with _ hd2
  subst hd2
  apply SafeAt.ite (fun _ => SafeAt.fail _)
  intro _
  apply SafeAt.bind' (safe_consume len h)
  intro _ off' _ _ hle'
  exact SafeAt.pure _ hle'

theorem safe_parseDnsBinstr {bs : Bytes} {off : Nat} (rem : Nat) (v : Bool) (h : off ≤ bs.size) :
    SafeAt bs (parseDnsBinstr bs rem v) off := by
  unfold parseDnsBinstr
  apply SafeAt.ite (fun _ => SafeAt.fail _)
  intro _
  apply SafeAt.bind' (safe_fetchByte h)
  intro len off1 _ _ hle1
  apply SafeAt.ite (fun _ => SafeAt.fail _)
  intro _
  apply SafeAt.ite
  · intro _
    apply SafeAt.bind' (safe_bufLen hle1)
    intro bl off2 hb _ _
    obtain ⟨rfl, rfl⟩ := bufLen_ok hle1 hb
    apply SafeAt.ite
    · intro hc
      apply SafeAt.bind' (safe_rawSlice (by omega))
      intro d off3 hd _ hle3
      rw [rawSlice_eq (by omega)] at hd
      injection hd with _ hd2
      subst hd2
      exact SafeAt.ite (fun _ => SafeAt.fail _) (fun _ => safe_fetchBytes _ hle1)
    · intro _
      exact safe_fetchBytes _ hle1
  · intro _
    exact SafeAt.pure _ hle1

theorem safe_multistringStep {bs : Bytes} {off : Nat} (v : Bool) (h : off ≤ bs.size) :
    SafeAt bs (multistringStep bs v) off := by
  unfold multistringStep
  apply SafeAt.bind' (safe_fetchByte h)
  intro len off1 _ _ hle1
  apply SafeAt.bind' (safe_bufLen hle1)
  intro bl off2 hb _ _
  obtain ⟨rfl, rfl⟩ := bufLen_ok hle1 hb
  apply SafeAt.ite
  · intro hc
    apply SafeAt.bind' (safe_rawSlice (by omega))
    intro d off3 hd _ hle3
    rw [rawSlice_eq (by omega)] at hd
    injection hd with _ hd2
    subst hd2
    exact SafeAt.ite (fun _ => SafeAt.fail _) (fun _ => safe_fetchBytes _ hle1)
  · intro _
    exact SafeAt.ite (fun _ => safe_fetchBytes _ hle1) (fun _ => SafeAt.pure _ hle1)

def ResSafe {α : Type} (bs : Bytes) (off : Nat) (r : Res α) : Prop :=
  match r with
  | .ok _ off' => off ≤ off' ∧ off' ≤ bs.size
  | .err _ => True
  | .fault _ => False

theorem safeAt_iff {α : Type} {bs : Bytes} {m : P α} {off : Nat} : SafeAt bs m off ↔ ResSafe bs off (m off) :=
  Iff.rfl

theorem ResSafe.mono {α : Type} {bs : Bytes} {off off1 : Nat} {r : Res α} (h : ResSafe bs off1 r) (hle : off ≤ off1) :
    ResSafe bs off r := by
  unfold ResSafe at *
  split <;> simp_all
  omega

theorem bufLen_sub_eq {bs : Bytes} {origLen pos : Nat} (h : pos ≤ bs.size) (ho : bs.size - pos ≤ origLen) :
    (bufLen bs >>= subChecked origLen) pos = .ok (origLen - (bs.size - pos)) pos := by
  rw [P.bind_ok (bufLen_eq h)]
  simp [subChecked, ho]

theorem safe_multistringLoop (bs : Bytes) (origLen rem : Nat) (v : Bool) (acc : List BStr) (ran : Bool)
    (pos : Nat) (h : pos ≤ bs.size) (ho : bs.size - pos ≤ origLen) :
    ResSafe bs pos (multistringLoop bs origLen rem v acc ran pos) := by
  fun_induction multistringLoop bs origLen rem v acc ran pos
  all_goals (try trivial)
  case case2 => rename_i hx; rw [bufLen_sub_eq h ho] at hx; simp at hx
  case case4 => rename_i hx; exact ((safe_multistringStep v h).not_fault hx).elim
  case case5 =>
    rename_i hx ih
    have := multistringStep_ok hx
    exact (ih (by omega) (by omega)).mono (by omega)
  case case6 => simp [ResSafe, h]

theorem SafeAt.bind_bufLen {β : Type} {bs : Bytes} {off : Nat} {f : Nat → P β} (h : off ≤ bs.size)
    (hf : SafeAt bs (f (bs.size - off)) off) : SafeAt bs (bufLen bs >>= f) off := by
  unfold SafeAt
  rw [P.bind_ok (bufLen_eq h)]
  exact hf

theorem safe_parseMultistring {bs : Bytes} {off : Nat} (rem : Nat) (v : Bool) (h : off ≤ bs.size) :
    SafeAt bs (parseMultistring bs rem v) off := by
  unfold parseMultistring
  apply SafeAt.bind_bufLen h
  apply SafeAt.ite (fun _ => SafeAt.fail _)
  intro _
  exact safeAt_iff.2 (safe_multistringLoop bs _ rem v [] false off h (by omega))

theorem safe_optStep {bs : Bytes} {off : Nat} (h : off ≤ bs.size) : SafeAt bs (optStep bs) off := by
  unfold optStep
  apply SafeAt.bind' (safe_fetchBe16 h)
  intro o off1 _ _ hle1
  apply SafeAt.bind' (safe_fetchBe16 hle1)
  intro len off2 _ _ hle2
  apply SafeAt.ite
  · intro _
    apply SafeAt.bind' (safe_fetchBytes _ hle2)
    intro _ off3 _ _ hle3
    exact SafeAt.pure _ hle3
  · intro _
    exact SafeAt.pure _ hle2

theorem safe_optLoop (bs : Bytes) (origLen rdlength : Nat) (acc : List (Nat × BStr))
    (pos : Nat) (h : pos ≤ bs.size) (ho : bs.size - pos ≤ origLen) :
    ResSafe bs pos (optLoop bs origLen rdlength acc pos) := by
  fun_induction optLoop bs origLen rdlength acc pos
  all_goals (try trivial)
  case case2 => rename_i hx; exact ((safe_rrRemainingLen origLen rdlength h ho).not_fault hx).elim
  case case4 => rename_i hx; exact ((safe_optStep h).not_fault hx).elim
  case case5 =>
    rename_i hx ih
    have := optStep_ok hx
    exact (ih (by omega) (by omega)).mono (by omega)
  case case6 => simp [ResSafe, h]

theorem safe_parseField {bs : Bytes} {off : Nat} (origLen rdlength : Nat) (kind : FieldKind)
    (h : off ≤ bs.size) (ho : bs.size - off ≤ origLen) :
    SafeAt bs (parseField bs origLen rdlength kind) off := by
  cases kind with
  | be16 =>
    apply SafeAt.bind' (safe_fetchBe16 h); intro _ _ _ _ hle; exact SafeAt.pure _ hle
  | be32 =>
    apply SafeAt.bind' (safe_fetchBe32 h); intro _ _ _ _ hle; exact SafeAt.pure _ hle
  | u8 =>
    apply SafeAt.bind' (safe_fetchByte h); intro _ _ _ _ hle; exact SafeAt.pure _ hle
  | name isHost =>
    apply SafeAt.bind' (safe_parseName isHost h); intro _ _ _ _ hle; exact SafeAt.pure _ hle
  | str blank =>
    apply SafeAt.bind' (safe_rrRemainingLen origLen rdlength h ho)
    intro rem off1 hr _ hle1
    apply SafeAt.bind' (safe_parseDnsBinstr rem true hle1)
    intro s off2 _ _ hle2
    exact SafeAt.ite (fun _ => SafeAt.fail _) (fun _ => SafeAt.pure _ hle2)
  | addr4 =>
    apply SafeAt.bind' (safe_fetchBytes 4 h); intro _ _ _ _ hle; exact SafeAt.pure _ hle
  | addr6 =>
    apply SafeAt.bind' (safe_fetchBytes 16 h); intro _ _ _ _ hle; exact SafeAt.pure _ hle
  | abin v =>
    apply SafeAt.bind' (safe_parseMultistring rdlength v h); intro _ _ _ _ hle; exact SafeAt.pure _ hle
  | binRest =>
    apply SafeAt.bind' (safe_rrRemainingLen origLen rdlength h ho)
    intro len off1 hr _ hle1
    apply SafeAt.ite (fun _ => SafeAt.fail _)
    intro _
    apply SafeAt.bind' (safe_fetchBytes len hle1); intro _ _ _ _ hle; exact SafeAt.pure _ hle
  | strRest =>
    apply SafeAt.bind' (safe_rrRemainingLen origLen rdlength h ho)
    intro len off1 hr _ hle1
    apply SafeAt.ite (fun _ => SafeAt.fail _)
    intro _
    apply SafeAt.bind' (safe_fetchStrDup len hle1); intro _ _ _ _ hle; exact SafeAt.pure _ hle
  | opts =>
    apply SafeAt.bind' (safeAt_iff.2 (safe_optLoop bs origLen rdlength [] off h ho))
    intro _ _ _ _ hle; exact SafeAt.pure _ hle

theorem safe_parseFields {bs : Bytes} (origLen rdlength : Nat) (script : Script) :
    ∀ {off : Nat}, off ≤ bs.size → bs.size - off ≤ origLen →
      SafeAt bs (parseFields bs origLen rdlength script) off := by
  induction script with
  | nil => intro off h _; exact SafeAt.pure _ h
  | cons kv rest ih =>
    intro off h ho
    obtain ⟨kind, key⟩ := kv
    unfold parseFields
    apply SafeAt.bind' (safe_parseField origLen rdlength kind h ho)
    intro v off1 _ h01 hle1
    apply SafeAt.bind' (ih hle1 (by omega))
    intro vs off2 _ _ hle2
    exact SafeAt.pure _ hle2

theorem safe_parseRROpt {bs : Bytes} {off : Nat} (rdlength rawClass rawTtl : Nat) (h : off ≤ bs.size) :
    SafeAt bs (parseRROpt bs rdlength rawClass rawTtl) off := by
  unfold parseRROpt
  apply SafeAt.bind_bufLen h
  apply SafeAt.bind' (safeAt_iff.2 (safe_optLoop bs _ rdlength [] off h (by omega)))
  intro _ _ _ _ hle
  exact SafeAt.pure _ hle

theorem safe_parseRRRaw {bs : Bytes} {off : Nat} (rdlength rawType : Nat) (h : off ≤ bs.size) :
    SafeAt bs (parseRRRaw bs rdlength rawType) off := by
  unfold parseRRRaw
  apply SafeAt.ite (fun _ => SafeAt.pure _ h)
  intro _
  apply SafeAt.bind' (safe_fetchBytes _ h)
  intro _ _ _ _ hle
  exact SafeAt.pure _ hle

theorem safe_parseRRData {bs : Bytes} {off : Nat} (rdlength type rawType rawClass rawTtl : Nat)
    (h : off ≤ bs.size) : SafeAt bs (parseRRData bs rdlength type rawType rawClass rawTtl) off := by
  unfold parseRRData
  apply SafeAt.ite (fun _ => SafeAt.fail _)
  intro _
  apply SafeAt.ite (fun _ => safe_parseRROpt _ _ _ h)
  intro _
  apply SafeAt.ite
  · intro _
    apply SafeAt.bind' (safe_parseRRRaw _ _ h)
    intro _ _ _ _ hle
    exact SafeAt.pure _ hle
  · intro _
    cases scriptOf parseScript type with
    | none => exact SafeAt.fail _
    | some script =>
      simp only
      apply SafeAt.bind_bufLen h
      apply SafeAt.bind' (safe_parseFields _ rdlength script h (by omega))
      intro _ _ _ _ hle
      exact SafeAt.pure _ hle

theorem safe_consumeIgnore {bs : Bytes} {off : Nat} (n : Nat) (h : off ≤ bs.size) :
    SafeAt bs (consumeIgnore bs n) off := by
  unfold SafeAt consumeIgnore
  rw [consume_eq h]
  by_cases hc : off + n ≤ bs.size
  · rw [if_pos hc]; simp only; omega
  · rw [if_neg hc]; simp only; omega

theorem safe_parseRR {bs : Bytes} {off : Nat} (flags : Nat) (sect : Sect) (h : off ≤ bs.size) :
    SafeAt bs (parseRR bs flags sect) off := by
  unfold parseRR
  apply SafeAt.bind' (safe_parseName false h); intro name o1 _ _ h1
  apply SafeAt.bind' (safe_fetchBe16 h1); intro rawType o2 _ _ h2
  apply SafeAt.bind' (safe_fetchBe16 h2); intro qclass o3 _ _ h3
  apply SafeAt.bind' (safe_fetchBe32 h3); intro ttl o4 _ _ h4
  apply SafeAt.bind' (safe_fetchBe16 h4); intro rdlength o5 _ _ h5
  simp only
  apply SafeAt.bind_bufLen h5
  apply SafeAt.ite (fun _ => SafeAt.fail _); intro _
  apply SafeAt.ite (fun _ => SafeAt.fail _); intro _
  apply SafeAt.bind_bufLen h5
  apply SafeAt.bind' (safe_parseRRData _ _ _ _ _ h5)
  intro fr o6 _ h56 h6
  obtain ⟨fields, hi⟩ := fr
  simp only
  apply SafeAt.bind_bufLen h6
  apply SafeAt.bind' (safe_subChecked (by omega) h6)
  intro processed o7 hp _ h7
  apply SafeAt.ite (fun _ => SafeAt.fail _); intro _
  apply SafeAt.ite
  · intro _
    apply SafeAt.bind' (safe_consumeIgnore _ h7); intro _ o8 _ _ h8
    exact SafeAt.pure _ h8
  · intro _
    exact SafeAt.pure _ h7

theorem safe_parseRRs {bs : Bytes} (flags : Nat) (sect : Sect) (n : Nat) :
    ∀ {off : Nat}, off ≤ bs.size → SafeAt bs (parseRRs bs flags sect n) off := by
  induction n with
  | zero => intro off h; exact SafeAt.pure _ h
  | succ n ih =>
    intro off h
    unfold parseRRs
    apply SafeAt.bind' (safe_parseRR flags sect h)
    intro r o1 _ _ h1
    obtain ⟨rr, hi⟩ := r
    simp only
    apply SafeAt.bind' (ih h1)
    intro r2 o2 _ _ h2
    obtain ⟨rest, hi'⟩ := r2
    exact SafeAt.pure _ h2

theorem safe_parseQd {bs : Bytes} {off : Nat} (h : off ≤ bs.size) : SafeAt bs (parseQd bs) off := by
  unfold parseQd
  apply SafeAt.bind' (safe_parseName false h); intro name o1 _ _ h1
  apply SafeAt.bind' (safe_fetchBe16 h1); intro qtype o2 _ _ h2
  apply SafeAt.bind' (safe_fetchBe16 h2); intro qclass o3 _ _ h3
  exact SafeAt.ite (fun _ => SafeAt.fail _) (fun _ => SafeAt.pure _ h3)

theorem safe_parseHeader {bs : Bytes} {off : Nat} (h : off ≤ bs.size) : SafeAt bs (parseHeader bs) off := by
  unfold parseHeader
  apply SafeAt.bind' (safe_fetchBe16 h); intro _ o1 _ _ h1
  apply SafeAt.bind' (safe_fetchBe16 h1); intro _ o2 _ _ h2
  apply SafeAt.bind' (safe_fetchBe16 h2); intro _ o3 _ _ h3
  apply SafeAt.bind' (safe_fetchBe16 h3); intro _ o4 _ _ h4
  apply SafeAt.bind' (safe_fetchBe16 h4); intro _ o5 _ _ h5
  apply SafeAt.bind' (safe_fetchBe16 h5); intro _ o6 _ _ h6
  exact SafeAt.ite (fun _ => SafeAt.fail _) (fun _ => SafeAt.pure _ h6)

theorem safe_parseMsg {bs : Bytes} {off : Nat} (flags : Nat) (h : off ≤ bs.size) :
    SafeAt bs (parseMsg bs flags) off := by
  unfold parseMsg
  apply SafeAt.bind' (safe_parseHeader h); intro hd o1 _ _ h1
  apply SafeAt.ite (fun _ => SafeAt.fail _); intro _
  apply SafeAt.ite (fun _ => SafeAt.fail _); intro _
  apply SafeAt.bind' (safe_parseQd h1); intro q o2 _ _ h2
  apply SafeAt.bind' (safe_parseRRs flags .answer _ h2); intro r1 o3 _ _ h3
  obtain ⟨an, hi1⟩ := r1
  simp only
  apply SafeAt.bind' (safe_parseRRs flags .authority _ h3); intro r2 o4 _ _ h4
  obtain ⟨ns, hi2⟩ := r2
  simp only
  apply SafeAt.bind' (safe_parseRRs flags .additional _ h4); intro r3 o5 _ _ h5
  obtain ⟨ar, hi3⟩ := r3
  exact SafeAt.pure _ h5

/-- **no modelled memory fault** for the message parser, any bytes, any flags -/
theorem parse_no_fault (bs : Bytes) (flags : Nat) (k : FaultKind) : parse bs flags ≠ .fault k := by
  unfold parse
  split
  · simp
  · split
    · simp
    · have hs := safe_parseMsg (bs := bs) (off := 0) flags (Nat.zero_le _)
      cases hr : parseMsg bs flags 0 with
      | ok r o => simp
      | err e => simp
      | fault k' => exact (hs.not_fault hr).elim

theorem expandName_no_fault (abuf : Bytes) (off : Nat) (k : FaultKind) : expandName abuf off ≠ .fault k := by
  unfold expandName
  split
  · simp
  · split
    · simp
    · rename_i h1 h2
      have hoff : off ≤ abuf.size := by omega
      have hs : SafeAt abuf (do
          let startLen ← bufLen abuf
          let n ← parseName abuf false
          let bl ← bufLen abuf
          let enclen ← subChecked startLen bl
          pure (n, enclen) : P (BStr × Nat)) off := by
        apply SafeAt.bind_bufLen hoff
        apply SafeAt.bind' (safe_parseName false hoff); intro n o1 _ h01 h1
        apply SafeAt.bind_bufLen h1
        apply SafeAt.bind' (safe_subChecked (by omega) h1); intro _ o2 _ _ h2
        exact SafeAt.pure _ h2
      split
      · simp
      · simp
      · rename_i k' hr
        exact (hs.not_fault hr).elim

theorem expandString_no_fault (abuf : Bytes) (off : Nat) (k : FaultKind) :
    expandString abuf off ≠ .fault k := by
  unfold expandString
  split
  · simp
  · split
    · simp
    · rename_i h1 h2
      have hoff : off ≤ abuf.size := by omega
      have hs : SafeAt abuf (do
          let startLen ← bufLen abuf
          let s ← parseDnsBinstr abuf startLen false
          let bl ← bufLen abuf
          let enclen ← subChecked startLen bl
          pure (s, enclen) : P (BStr × Nat)) off := by
        apply SafeAt.bind_bufLen hoff
        apply SafeAt.bind' (safe_parseDnsBinstr _ false hoff); intro n o1 _ h01 h1
        apply SafeAt.bind_bufLen h1
        apply SafeAt.bind' (safe_subChecked (by omega) h1); intro _ o2 _ _ h2
        exact SafeAt.pure _ h2
      split <;> try simp
      rename_i k' hr
      exact (hs.not_fault hr).elim

end Cares.Dns
