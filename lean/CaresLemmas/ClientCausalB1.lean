import CaresLemmas.ClientCausalSubs
/-!
# Causality — body lemmas I: `userCb`, `callback`, `endQuery`, `cancelLoop`

Shape of every lemma: `GoCz cid goC → Pre d s call → LG cid L (xtra cid call) s → LGO cid L (bodyXxxC goC … s)`.
The preconditions of the sub-calls are derived as in `good_xxx` (ChanWfBody1).
-/
namespace Cares.Chan

variable {cid : Nat}

theorem cz_userCb {goC : GoC} (h : GoCz cid goC) {d tok react st timeouts dg s L}
    (hpre : Pre d s (.userCb tok react st timeouts dg)) (hL : LG cid L (xtra cid (.userCb tok react st timeouts dg)) s) :
    LGO cid L (bodyUserCbC goC tok react st timeouts dg s) := by
  obtain ⟨hw, ⟨x, hd, hx⟩, hp, hq, hc⟩ := hpre
  have hsk := sk_userCallback' s tok st timeouts dg
  have hw1 : Wf (s.userCallback tok st timeouts dg) := by
    unfold Wf; rw [hsk]; exact wf_userCb hw hp hq (fun c hcm he => (hc c hcm he).1)
  have hd1 : DebtOk none d (s.userCallback tok st timeouts dg).sk := by rw [hsk]; exact debt_userCb' hw hd hx
  have hL1 : LG cid L 0 (s.userCallback tok st timeouts dg) := hL.congr (by rw [hsk]; rfl) (by rw [hsk]; rfl)
  unfold bodyUserCbC
  simp only
  split
  · exact LGO.done hL1
  · exact h.tail (show Pre d _ (.reactions react) from ⟨hw1, hd1⟩) hL1

/-- the precondition of the `runActs` call made by the completion callback of a sub-request (as in `good_callback`) -/
theorem callback_client_pre {d id react st timeouts rec} {s : St}
    (hpre : Pre d s (.callback (.client id) react st timeouts rec)) :
    ∃ c0, s.client? id = some c0 ∧
      Pre d (s.modClient id fun _ => (clientOnCb s.cfg c0 st timeouts rec).1)
        (.runActs id (clientOnCb s.cfg c0 st timeouts rec).2) ∧
      (s.modClient id fun _ => (clientOnCb s.cfg c0 st timeouts rec).1).sk =
        s.sk.setOut id (clientOnCb s.cfg c0 st timeouts rec).1.outstanding := by
  obtain ⟨hw, hof, hdf⟩ := hpre
  obtain ⟨c0, hc0, hid0, hm0, hp0, hu0⟩ := client?_of_active hw hof
  refine ⟨c0, hc0, ?_⟩
  have hd1 : DebtOk none (bump d id 1) s.sk := hdf
  have hcnt := hd1.cnt c0.sk hm0 hp0 (fun hh => by cases hh)
  have hcid : c0.sk.id = id := hid0
  rw [hcid, bump_self] at hcnt
  have hout : c0.outstanding = s.sk.subs id + d id + 1 := by
    have : c0.sk.out = c0.outstanding := rfl
    omega
  have hk := clientOnCb_ok s.cfg c0 st timeouts rec (by omega)
  generalize clientOnCb s.cfg c0 st timeouts rec = r at hk
  obtain ⟨c', acts⟩ := r
  obtain ⟨k1, k2, k3⟩ := hk
  simp only at k1 k2 k3 ⊢
  have hsk := sk_modClient_set (c' := c') hu0 k1 k2 hid0
  have hw1 : Wf (s.modClient id fun _ => c') := by unfold Wf; rw [hsk]; exact wf_setOut hw
  have hlt : id < s.sk.nextClient := by have := hw.k.lt c0.sk hm0; omega
  have hfresh : ∀ n i, s.sk.nextClient ≤ i → bump d id n i = 0 := by
    intro n i hi
    rw [bump_ne _ _ (by omega)]
    have := hd1.fresh i hi
    rw [bump_ne _ _ (by omega)] at this; exact this
  have hfresh0 : ∀ i, s.sk.nextClient ≤ i → d i = 0 := by
    intro i hi; have := hfresh 0 i hi; rwa [bump_zero] at this
  refine ⟨⟨hw1, ?_⟩, hsk⟩
  rw [hsk]
  split
  · rename_i hf
    rw [if_pos hf] at k3
    have hs0 : s.sk.subs id = 0 ∧ d id = 0 := by omega
    refine ⟨active_setOut.mpr hof, k3.1, subsP_eq_zero.mp hs0.1, hs0.2, ?_⟩
    refine debt_setOut hd1 hfresh0 (fun i hi => (bump_ne _ _ hi).symm) (fun hx => absurd rfl hx)
  · rename_i hf
    rw [if_neg hf] at k3
    refine ⟨?_, fun _ => active_setOut.mpr hof⟩
    refine debt_setOut hd1 (hfresh _) (fun i hi => by rw [bump_ne _ _ hi, bump_ne _ _ hi]) ?_
    intro _ c hc hci hp
    rw [bump_self]
    show c'.outstanding = _
    have : (Sk.subs s.sk id) = s.sk.subs id := rfl
    omega

theorem cz_callback {goC : GoC} (h : GoCz cid goC) {d owner react st timeouts rec s L}
    (hpre : Pre d s (.callback owner react st timeouts rec))
    (hL : LG cid L (xtra cid (.callback owner react st timeouts rec)) s) :
    LGO cid L (bodyCallbackC goC owner react st timeouts rec s) := by
  unfold bodyCallbackC
  cases owner with
  | probe pid =>
    exact LGO.done ((show LG cid L 0 s from hL).sk_eq (by rw [sk_modServer_same]; intro; rfl))
  | user tok =>
    obtain ⟨hw, ⟨h1, h2, h3⟩, hdf⟩ := hpre
    exact h.tail (show Pre d s (.userCb tok react st timeouts (digest rec)) from
      ⟨hw, ⟨none, hdf, fun _ _ he => by cases he⟩, h1, h2, fun c hc he => absurd he (h3 c hc)⟩) hL
  | client id =>
    obtain ⟨c0, hc0, hpre1, hsk⟩ := callback_client_pre hpre
    simp only [hc0]
    have hL1 : LG cid (L ++ [.cb id st timeouts rec c0.qidA c0.qidAAAA]) 0
        (s.modClient id fun _ => (clientOnCb s.cfg c0 st timeouts rec).1) :=
      (LG.snoc_cb_any hL st timeouts rec c0.qidA c0.qidAAAA).congr (by rw [hsk]; rfl) (by rw [hsk]; rfl)
    rcases h.tail hpre1 hL1 with hoof | hg
    · exact Or.inl hoof
    · refine Or.inr ?_
      rw [List.append_assoc] at hg
      exact hg

theorem cz_endQuery {goC : GoC} (h : GoCz cid goC) {d srv key st rec s L}
    (hpre : Pre d s (.endQuery srv key st rec)) (hL : LG cid L (xtra cid (.endQuery srv key st rec)) s) :
    LGO cid L (bodyEndQueryC goC srv key st rec s) := by
  obtain ⟨hw, hk, hd⟩ := hpre
  obtain ⟨q, hq, hqs⟩ := query?_of_idx hw hk
  unfold bodyEndQueryC
  simp only [hq]
  show LGO cid L (((goC (.callback q.owner q.react st q.timeouts rec) (endQueryPre s srv key st rec q)).1.1.freeQuery key, .ok),
    (goC (.callback q.owner q.react st q.timeouts rec) (endQueryPre s srv key st rec q)).2)
  have hsk3 := sk_endQueryPre s srv key st rec q
  generalize endQueryPre s srv key st rec q = s3 at hsk3
  have hw3 : Wf s3 := by unfold Wf; rw [hsk3]; exact wf_detach hw (Or.inr rfl) hqs
  obtain ⟨hof, hdf⟩ := owner_detach hw hqs hk hd
  have hL3 : LG cid L (xtra cid (.callback q.owner q.react st q.timeouts rec)) s3 := by
    refine hL.of_cnt ?_
    rw [hsk3]
    have := subs_detach hw hqs hk cid
    show _ + ownerX cid q.owner = _ + 0
    rw [ownerX_eq]
    have e : q.sk.owner = q.owner := rfl
    rw [e] at this
    omega
  rcases h.call (d := d) (c := .callback q.owner q.react st q.timeouts rec) (s := s3)
    ⟨hw3, by rw [hsk3]; exact hof, by rw [hsk3]; exact hdf⟩ hL3 with hoof | ⟨hg, hL4⟩
  · exact Or.inl (by simpa using hoof)
  right
  have hnk : key ∉ (goC (.callback q.owner q.react st q.timeouts rec) s3).1.1.sk.idx := by
    intro hin
    rcases hg.step.idxNew key hin with h' | h'
    · rw [hsk3] at h'; exact not_idx_detach hw hqs h'
    · rw [hsk3] at h'
      have : (s.sk.detach key).nextKey = s.sk.nextKey := (detach_same hqs).2.2.2.2.2.2.2.1
      have := key_lt_of_idx hw hk
      omega
  refine hL4.subs_eq ?_
  show (St.freeQuery _ key).sk.subs cid = _
  rw [sk_freeQuery]
  exact subs_freeQuery_unlinked hg.wf hnk cid

theorem cz_cancelLoop {goC : GoC} (h : GoCz cid goC) {d st fromAll s L}
    (hpre : Pre d s (.cancelLoop st fromAll)) (hL : LG cid L (xtra cid (.cancelLoop st fromAll)) s) :
    LGO cid L (bodyCancelLoopC goC st fromAll s) := by
  obtain ⟨hw, hd⟩ := hpre
  unfold bodyCancelLoopC
  cases hh : cancelHead s fromAll with
  | none =>
    unfold cancelHead at hh
    simp only [hh]
    exact LGO.done hL
  | some key =>
    have hk := cancelHead_idx hw hh
    obtain ⟨q, hq, hqs⟩ := query?_of_idx hw hk
    unfold cancelHead at hh
    simp only [hh, hq]
    have hsk1 := sk_freeQuery s key
    generalize s.freeQuery key = s1 at hsk1
    have hw1 : Wf s1 := by unfold Wf; rw [hsk1]; exact wf_freeQuery hw
    obtain ⟨hof, hdf⟩ := owner_freeQuery hw hqs hk hd
    have hL1 : LG cid L (xtra cid (.callback q.owner q.react st 0 none)) s1 := by
      refine hL.of_cnt ?_
      rw [hsk1]
      have := subs_freeQuery_linked hw hqs hk cid
      show _ + ownerX cid q.owner = _ + 0
      rw [ownerX_eq]
      have e : q.sk.owner = q.owner := rfl
      rw [e] at this
      omega
    rcases h.call (d := d) (c := .callback q.owner q.react st 0 none) (s := s1)
      ⟨hw1, by rw [hsk1]; exact hof, by rw [hsk1]; exact hdf⟩ hL1 with hoof | ⟨hg, hL2⟩
    · exact Or.inl (h.oof hoof)
    rcases h.tail (d := d) (c := .cancelLoop st fromAll) ⟨hg.wf, hg.debt⟩ hL2 with hoof2 | hL3
    · exact Or.inl hoof2
    · refine Or.inr ?_
      rw [List.append_assoc] at hL3
      exact hL3

end Cares.Chan
