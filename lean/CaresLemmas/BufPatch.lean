import CaresLemmas.Buf
/-! Helper lemmas for the `ares_buf` model, part 4: the set_length / append / set_length back-patching idiom. -/
namespace Cares.Buf
open Cares.Generated Cares.Dsa

/-- in-place overwrite of `patch.length` bytes at position `p` -/
def overwrite (l : List Nat) (p : Nat) (patch : List Nat) : List Nat :=
  l.take p ++ patch ++ l.drop (p + patch.length)

theorem patch_bytes (m : List Nat) (n off p : Nat) (patch : List Nat) (hn : n ≤ m.length)
    (h : off + p + patch.length ≤ n) :
    ((m.take (p + off) ++ patch ++ m.drop (p + off + patch.length)).take n).drop off =
      overwrite ((m.take n).drop off) p patch := by
  unfold overwrite
  apply List.ext_getElem?
  intro i
  rw [List.getElem?_drop, List.getElem?_take]
  have hA : (m.take (p + off)).length = p + off := by rw [List.length_take]; omega
  have hR : ((m.take n).drop off).length = n - off := by rw [List.length_drop, List.length_take]; omega
  have hT : (((m.take n).drop off).take p).length = p := by rw [List.length_take, hR]; omega
  by_cases h1 : off + i < n
  · rw [if_pos h1]
    by_cases h2 : i < p
    · rw [List.append_assoc, List.getElem?_append_left (by omega), List.getElem?_take, if_pos (by omega)]
      rw [List.append_assoc, List.getElem?_append_left (by omega), List.getElem?_take, if_pos h2,
        List.getElem?_drop, List.getElem?_take, if_pos h1]
    · by_cases h3 : i < p + patch.length
      · rw [List.getElem?_append_left (by rw [List.length_append]; omega),
          List.getElem?_append_right (by omega), hA]
        rw [List.getElem?_append_left (by rw [List.length_append]; omega),
          List.getElem?_append_right (by omega), hT]
        congr 1; omega
      · rw [List.getElem?_append_right (by rw [List.length_append]; omega), List.length_append, hA,
          List.getElem?_drop]
        rw [List.getElem?_append_right (by rw [List.length_append]; omega), List.length_append, hT,
          List.getElem?_drop, List.getElem?_drop, List.getElem?_take, if_pos (by omega)]
        congr 1; omega
  · rw [if_neg h1]
    symm
    rw [List.getElem?_eq_none]
    simp only [List.length_append, hT, List.length_drop, hR]
    omega

theorem backpatch (b : Buf) (h : b.Inv) (hc : b.isConst = false) (p : Nat) (patch : List Nat) (o : Oracle)
    (hp : p + patch.length ≤ b.len) (hne : patch ≠ []) :
    ∃ b1 b2 b3, b.setLength p = (.ok, b1) ∧ b1.append patch o = (.ok, b2, o) ∧ b2.setLength b.len = (.ok, b3) ∧
      b3.remaining = overwrite b.remaining p patch ∧ b3.off = b.off ∧ b3.tag = b.tag ∧ b3.dataLen = b.dataLen ∧
      b3.mem.length = b.mem.length ∧ b3.isConst = false := by
  have hpl : 0 < patch.length := List.length_pos_iff.2 hne
  have ho := h.offLe
  have hd := h.dlen
  have hlen : b.len = b.dataLen - b.off := rfl
  have hroom : b.dataLen < b.mem.length := by
    have hr := h.room
    rw [hc] at hr
    simp only [Bool.false_eq_true, ↓reduceIte] at hr
    rcases hr with hr | hr
    · rw [hr] at hd; simp at hd; omega
    · exact hr
  -- step 1: shorten
  have e1 : b.setLength p = (.ok, { b with dataLen := p + b.off }) := by
    unfold setLength
    rw [if_neg (by simp [hc]), allocLen_dyn b hc, if_neg (by omega)]
  -- step 2: append in place (fast path of ensure_space: no compaction, no allocation)
  have hc1 : ({ b with dataLen := p + b.off } : Buf).isConst = false := hc
  have e2 : ({ b with dataLen := p + b.off } : Buf).append patch o =
      (.ok, { b with mem := b.mem.take (p + b.off) ++ patch ++ b.mem.drop (p + b.off + patch.length),
                     dataLen := p + b.off + patch.length }, o) := by
    rw [append_eq _ patch o hne]
    rcases ensureSpace_cases { b with dataLen := p + b.off } patch.length o hc1 with ⟨_, e⟩ | ⟨hn, _⟩ | ⟨hn, _⟩ | ⟨hn, _⟩
    · rw [e]
    · exact absurd (show b.mem.length - (p + b.off) ≥ patch.length + 1 by omega) hn
    · exact absurd (show b.mem.length - (p + b.off) ≥ patch.length + 1 by omega) hn
    · exact absurd (show b.mem.length - (p + b.off) ≥ patch.length + 1 by omega) hn
  have hml : (b.mem.take (p + b.off) ++ patch ++ b.mem.drop (p + b.off + patch.length)).length = b.mem.length := by
    simp only [List.length_append, List.length_take, List.length_drop]; omega
  -- step 3: restore the length
  have e3 : ({ b with mem := b.mem.take (p + b.off) ++ patch ++ b.mem.drop (p + b.off + patch.length),
                      dataLen := p + b.off + patch.length } : Buf).setLength b.len =
      (.ok, { b with mem := b.mem.take (p + b.off) ++ patch ++ b.mem.drop (p + b.off + patch.length),
                     dataLen := b.len + b.off }) := by
    unfold setLength allocLen
    simp only [hc, Bool.false_eq_true, ↓reduceIte]
    rw [hml, if_neg (by omega)]
  refine ⟨_, _, _, e1, e2, e3, ?_, rfl, rfl, by simp only; omega, hml, hc⟩
  unfold remaining
  simp only
  rw [show b.len + b.off = b.dataLen by omega]
  exact patch_bytes b.mem b.dataLen b.off p patch hd (by omega)

end Cares.Buf
