import CaresLemmas.ChanAlignRun
/-!
# The replies handed to `process_answer` (C20) — an instrumented executor

`process_answer` is called from one place only, the loop of `read_answers` (`bodyReadAnswers`), which is reached from
`read_conn_packets` (`bodyProcessRead`) only.  `execH` is `exec` with these two procedures re-stated so that they
return, next to their result, the list of `(descriptor, reply)` handed to `process_answer`, in order; every other
procedure is run by `execBody` as it is and contributes no entry.  `execH_fst : (execH fuel call s).1 = exec fuel call s`
is the kernel-checked statement that the instrumented executor computes the same thing as the model.
-/
namespace Cares.Chan

/-- replies handed to `process_answer`, each with the descriptor of the connection it was read from -/
abbrev HLog := List (Nat × Reply)

/-- `bodyReadAnswers` with a log: `(fd, r)` is recorded where `process_answer` is called with `r` -/
def bodyReadAnswersH (goH : Call → St → (St × Ret) × HLog) (fd : Nat) (s : St) : (St × Ret) × HLog :=
  match s.conn? fd, s.sock? fd with
  | some c, some v =>
    let next : Option Reply :=
      if !c.tcp then (c.inMsgs.head?).map (·.2)
      else nextTcpFrame v.stream v.spos c.inBytes
    match next with
    | none => goH .flushRequeue s
    | some r =>
      let s := s.modConn fd fun c =>
        { c with inMsgs := c.inMsgs.drop 1, inBytes := c.inBytes - (2 + r.len) }
      let p := goH (.processAnswer fd r) s
      match p.1.1.conn? fd with
      | none =>
        let q := goH .flushRequeue p.1.1
        (q.1, (fd, r) :: p.2 ++ q.2)
      | some c' =>
        if c'.unlinked then
          let q := goH .flushRequeue p.1.1
          (q.1, (fd, r) :: p.2 ++ q.2)
        else if p.1.2 != .ok then
          let e := goH (.connError fd true p.1.2) p.1.1
          let q := goH .flushRequeue e.1.1
          (q.1, (fd, r) :: p.2 ++ e.2 ++ q.2)
        else
          let q := goH (.readAnswers fd) p.1.1
          (q.1, (fd, r) :: p.2 ++ q.2)
  | _, _ => ((s.mfault s!"uaf-conn({fd}) in read_answers", .other), [])

/-- `bodyProcessRead` with the log of the calls it makes -/
def bodyProcessReadH (goH : Call → St → (St × Ret) × HLog) (fd : Nat) (s : St) : (St × Ret) × HLog :=
  match s.conn? fd, s.sock? fd with
  | some c, some v =>
    if c.unlinked then ((s, .ok), []) else
    if !c.tcp then
      let (e, s) := s.fault "recvfrom"
      let s := s.slog fd "recv"
      match e with
      | some errno =>
        let s := s.emit s!"recv!({fd})"
        if isWouldBlock errno then goH (.readAnswers fd) s
        else
          let p := goH (.connError fd true .connrefused) s
          ((p.1.1, .connrefused), p.2)
      | none =>
        match v.rx with
        | [] => goH (.readAnswers fd) s
        | r :: rest =>
          let s := s.modSock fd fun v => { v with rx := rest }
          if r.wrongsrc then goH (.readAnswers fd) s
          else
            let s := s.modConn fd fun c =>
              { c with inMsgs := c.inMsgs ++ [(c.inBytes + 2 + r.len, r)], inBytes := c.inBytes + 2 + r.len,
                       connected := true }
            goH (.processRead fd) s
    else
      let (e, s) := s.fault "recvfrom"
      let s := s.slog fd "recv"
      match e with
      | some errno =>
        let s := s.emit s!"recv!({fd})"
        if isWouldBlock errno then goH (.readAnswers fd) s
        else
          let p := goH (.connError fd true .connrefused) s
          ((p.1.1, .connrefused), p.2)
      | none =>
        let avail := v.slen - v.spos
        if avail == 0 then
          if v.reset || v.eof then
            let p := goH (.connError fd true .connrefused) s
            ((p.1.1, .connrefused), p.2)
          else goH (.readAnswers fd) s
        else
          let (n, chunks, again) : Nat × List Nat × Bool :=
            match v.chunks with
            | [] => (avail, [], false)
            | c :: r => if c == 0 then (0, r, true) else (min c avail, r, false)
          if again then
            goH (.readAnswers fd) (s.modSock fd fun v => { v with chunks := chunks })
          else
            let s := s.modSock fd fun v => { v with chunks := chunks, spos := v.spos + n }
            let s := s.modConn fd fun c => { c with inBytes := c.inBytes + n, connected := true }
            goH (.readAnswers fd) s
  | _, _ => ((s, .ok), [])

/-- one procedure with its log; procedures other than the two read procedures make no call of `process_answer`
    (`execBody_reads`) and are run by the model's `execBody` -/
def execHBody (goH : Call → St → (St × Ret) × HLog) (call : Call) (s : St) : (St × Ret) × HLog :=
  match call with
  | .readAnswers fd => bodyReadAnswersH goH fd s
  | .processRead fd => bodyProcessReadH goH fd s
  | .sendNolock a b c d e f => (execBody (fun c s => (goH c s).1) (.sendNolock a b c d e f) s, [])
  | .sendQuery a b => (execBody (fun c s => (goH c s).1) (.sendQuery a b) s, [])
  | .requeue a b c d e => (execBody (fun c s => (goH c s).1) (.requeue a b c d e) s, [])
  | .endQuery a b c d => (execBody (fun c s => (goH c s).1) (.endQuery a b c d) s, [])
  | .callback a b c d e => (execBody (fun c s => (goH c s).1) (.callback a b c d e) s, [])
  | .reactions a => (execBody (fun c s => (goH c s).1) (.reactions a) s, [])
  | .closeConn a b => (execBody (fun c s => (goH c s).1) (.closeConn a b) s, [])
  | .closeLoop a b => (execBody (fun c s => (goH c s).1) (.closeLoop a b) s, [])
  | .connError a b c => (execBody (fun c s => (goH c s).1) (.connError a b c) s, [])
  | .flush a => (execBody (fun c s => (goH c s).1) (.flush a) s, [])
  | .processWrite a => (execBody (fun c s => (goH c s).1) (.processWrite a) s, [])
  | .processAnswer a b => (execBody (fun c s => (goH c s).1) (.processAnswer a b) s, [])
  | .flushRequeue => (execBody (fun c s => (goH c s).1) .flushRequeue s, [])
  | .processTimeouts => (execBody (fun c s => (goH c s).1) .processTimeouts s, [])
  | .cleanupConns a => (execBody (fun c s => (goH c s).1) (.cleanupConns a) s, [])
  | .cancel => (execBody (fun c s => (goH c s).1) .cancel s, [])
  | .cancelLoop a b => (execBody (fun c s => (goH c s).1) (.cancelLoop a b) s, [])
  | .destroy => (execBody (fun c s => (goH c s).1) .destroy s, [])
  | .probe a b => (execBody (fun c s => (goH c s).1) (.probe a b) s, [])
  | .clientStart a b c d e => (execBody (fun c s => (goH c s).1) (.clientStart a b c d e) s, [])
  | .runActs a b => (execBody (fun c s => (goH c s).1) (.runActs a b) s, [])
  | .userCb a b c d e => (execBody (fun c s => (goH c s).1) (.userCb a b c d e) s, [])

/-- **the instrumented executor** -/
def execH : Nat → Call → St → (St × Ret) × HLog
  | 0, _, s => (s.oof, [])
  | fuel + 1, call, s => execHBody (execH fuel) call s

theorem bodyReadAnswersH_fst (goH : Call → St → (St × Ret) × HLog) (fd : Nat) (s : St) :
    (bodyReadAnswersH goH fd s).1 = bodyReadAnswers (fun c s => (goH c s).1) fd s := by
  unfold bodyReadAnswersH bodyReadAnswers
  cases hc : s.conn? fd with
  | none => cases hv : s.sock? fd <;> rfl
  | some c =>
    cases hv : s.sock? fd with
    | none => rfl
    | some v =>
      simp only []
      repeat (first | rfl | (split <;> try simp only [*]))

theorem bodyProcessReadH_fst (goH : Call → St → (St × Ret) × HLog) (fd : Nat) (s : St) :
    (bodyProcessReadH goH fd s).1 = bodyProcessRead (fun c s => (goH c s).1) fd s := by
  unfold bodyProcessReadH bodyProcessRead
  cases hc : s.conn? fd with
  | none => cases hv : s.sock? fd <;> rfl
  | some c =>
    cases hv : s.sock? fd with
    | none => rfl
    | some v =>
      simp only []
      repeat (first | rfl | (split <;> try simp only [*, ↓reduceIte, Bool.false_eq_true]))

theorem execHBody_fst (goH : Call → St → (St × Ret) × HLog) (call : Call) (s : St) :
    (execHBody goH call s).1 = execBody (fun c s => (goH c s).1) call s := by
  cases call
  case readAnswers fd => exact bodyReadAnswersH_fst goH fd s
  case processRead fd => exact bodyProcessReadH_fst goH fd s
  all_goals rfl

/-- **the instrumented executor computes `exec`** -/
theorem execH_fst : ∀ (fuel : Nat) (call : Call) (s : St), (execH fuel call s).1 = exec fuel call s
  | 0, _, _ => rfl
  | fuel + 1, call, s => by
    have e : (fun c s => (execH fuel c s).1) = exec fuel := funext fun c => funext fun s => execH_fst fuel c s
    show (execHBody (execH fuel) call s).1 = execBody (exec fuel) call s
    rw [execHBody_fst, e]

/-- procedures other than the two read procedures log nothing themselves -/
theorem execH_log_nil (fuel : Nat) (call : Call) (s : St) (h : ∀ fd, ¬ call.readsFd fd) : (execH fuel call s).2 = [] := by
  cases fuel with
  | zero => rfl
  | succ n =>
    cases call
    case readAnswers fd => exact absurd rfl (h fd)
    case processRead fd => exact absurd rfl (h fd)
    all_goals rfl

end Cares.Chan
