import CaresLemmas.ChanWfBody3
import CaresLemmas.ChanWfConn
/-!
# C01 — body lemmas IV: `connError`, `closeConn`, `closeLoop`, `processWrite`, `cleanupConns`
-/
namespace Cares.Chan

theorem conn?_sk {s : St} {fd : Nat} {c : Conn} (h : s.conn? fd = some c) : c.fd = fd ∧ c.sk ∈ s.sk.conns :=
  ⟨by simpa using List.find?_some h, List.mem_map.mpr ⟨c, List.mem_of_find?_eq_some h, rfl⟩⟩

theorem conn?_of_live {s : St} {fd : Nat} (h : s.sk.liveConn fd) : ∃ c, s.conn? fd = some c := by
  obtain ⟨x, hx, hfd⟩ := List.mem_map.mp h
  obtain ⟨c0, hc0, rfl⟩ := mem_cFQ.mp hx
  obtain ⟨c1, hc1, rfl⟩ := List.mem_map.mp hc0
  cases hf : s.conn? fd with
  | some c => exact ⟨c, rfl⟩
  | none =>
    have := List.find?_eq_none.mp hf c1 hc1
    simp only [beq_iff_eq] at this
    exact absurd hfd this

theorem live_of_hasConn {a : Sk} {fd : Nat} {u : Bool} (h : a.hasConn fd u) : a.liveConn fd := by
  obtain ⟨q, hq⟩ := h
  obtain ⟨c, hc, he⟩ := mem_cFUQ.mp hq
  simp only [Prod.mk.injEq] at he
  exact List.mem_map.mpr ⟨(c.fd, c.queries), mem_cFQ.mpr ⟨c, hc, rfl⟩, he.1.symm⟩

theorem live_of_conn? {s : St} {fd : Nat} {c : Conn} (h : s.conn? fd = some c) : s.sk.liveConn fd := by
  obtain ⟨h1, h2⟩ := conn?_sk h
  exact List.mem_map.mpr ⟨(c.sk.fd, c.sk.queries), mem_cFQ.mpr ⟨c.sk, h2, rfl⟩, h1⟩

theorem hasConn_of_conn? {s : St} {fd : Nat} {c : Conn} (h : s.conn? fd = some c) :
    s.sk.hasConn fd c.unlinked := by
  obtain ⟨h1, h2⟩ := conn?_sk h
  exact ⟨c.queries, mem_cFUQ.mpr ⟨c.sk, h2, by rw [← h1]; rfl⟩⟩

theorem unlinked_of_hasConn {s : St} {hole} {fd : Nat} {u : Bool} {c : Conn} (hw : WfS s.sk hole)
    (hh : s.sk.hasConn fd u) (h : s.conn? fd = some c) : c.unlinked = u := by
  obtain ⟨q, hq⟩ := hh
  obtain ⟨c1, hc1, he⟩ := mem_cFUQ.mp hq
  simp only [Prod.mk.injEq] at he
  obtain ⟨h1, h2⟩ := conn?_sk h
  have := hw.conn_unique hc1 h2 (by rw [← he.1]; exact h1.symm)
  rw [this] at he
  exact he.2.1.symm

theorem server_ids_nodup {s : St} {hole} (hw : WfS s.sk hole) : (s.servers.map (·.id)).Nodup := by
  have := hw.s.nodup
  have e : s.sk.servers.map (·.id) = s.servers.map (·.id) := by unfold St.sk; simp only [List.map_map]; rfl
  rwa [e] at this

/-- closing a connection that was linked at the start is, seen from the start, an ordinary step -/
theorem StepS.drop_xf {xi d} {a a2 b : Sk} {fd : Nat} (h1 : StepS none xi d a a2) (h2 : StepS (some fd) xi d a2 b)
    (hl : ∀ q, (fd, true, q) ∉ a.cFUQ) : StepS none xi d a b := by
  have h := (h1.weaken (xf' := some fd) (Or.inl rfl) (Or.inr rfl) (fun _ => Nat.le_refl _)).trans h2
  exact ⟨h.faults, h.kMono, h.keyMono, h.idxNew,
    fun fd' q hm _ => h.unl fd' q hm (fun he => hl q (by rw [← Option.some.inj he]; exact hm)),
    h.orphan, h.debtAlive, h.prog⟩

theorem not_unlinked_of_hasConn {a : Sk} {hole} {fd : Nat} (hw : WfS a hole) (hh : a.hasConn fd false) :
    ∀ q, (fd, true, q) ∉ a.cFUQ := by
  intro q hm
  obtain ⟨q', hq'⟩ := hh
  obtain ⟨c1, hc1, he1⟩ := mem_cFUQ.mp hm
  obtain ⟨c2, hc2, he2⟩ := mem_cFUQ.mp hq'
  simp only [Prod.mk.injEq] at he1 he2
  have := hw.conn_unique hc1 hc2 (by rw [← he1.1, ← he2.1])
  rw [this] at he1
  rw [← he1.2.1] at he2
  exact absurd he2.2.1 (by simp)

/-! ### `connError` -/

theorem good_connError {go} (hgo : GoOk go) {d fd critical st s} (hpre : Pre d s (.connError fd critical st)) :
    GoodO d (.connError fd critical st) s (bodyConnError go fd critical st s) := by
  obtain ⟨hw, hh, hd⟩ := hpre
  obtain ⟨c, hc⟩ := conn?_of_live (live_of_hasConn hh)
  unfold bodyConnError
  simp only [hc]
  have hsk1 : (if critical = true then s.incFailures c.srv c.tcp else s).sk = s.sk := by
    split
    · exact sk_incFailures s _ _ (server_ids_nodup hw)
    · rfl
  generalize (if critical = true then s.incFailures c.srv c.tcp else s) = s1 at hsk1
  refine Good.tail' (hgo.2 d _ _ ?_) (by rw [hsk1]; exact StepS.refl _ _ _ _) (Or.inl rfl) (Or.inl rfl)
    (fun _ => trivial)
  exact ⟨Wf.of_sk_eq hsk1 hw, by rw [hsk1]; exact hh, by rw [hsk1]; exact hd⟩

/-! ### `closeConn` -/

theorem good_closeConn {go} (hgo : GoOk go) {d fd st s} (hpre : Pre d s (.closeConn fd st)) :
    GoodO d (.closeConn fd st) s (bodyCloseConn go fd st s) := by
  obtain ⟨hw, hh, hd⟩ := hpre
  obtain ⟨c, hc⟩ := conn?_of_live (live_of_hasConn hh)
  obtain ⟨hcfd, hcm⟩ := conn?_sk hc
  unfold bodyCloseConn
  simp only [hc]
  have hsk2 : ((s.modServer c.srv fun v =>
        { v with conns := v.conns.erase fd, tcpConn := if c.tcp then none else v.tcpConn }).modConn fd fun c =>
        { c with unlinked := true, out := [], outOff := 0, inBytes := 0, inMsgs := [] }).sk =
      s.sk.markUnlinked c.sk.fd c.sk.srv c.sk.tcp := by
    rw [sk_modConn _ _ _ (fun c => { c with unlinked := true }) (fun _ => rfl),
      sk_modServer _ _ _ (fun v => { v with conns := v.conns.erase fd, tcpConn := if c.tcp then none else v.tcpConn })
        (fun _ => rfl)]
    show _ = Sk.markUnlinked _ c.fd _ _
    rw [hcfd]; rfl
  generalize ((s.modServer c.srv fun v =>
        { v with conns := v.conns.erase fd, tcpConn := if c.tcp then none else v.tcpConn }).modConn fd fun c =>
        { c with unlinked := true, out := [], outOff := 0, inBytes := 0, inMsgs := [] }) = s2 at hsk2
  have hfd : c.sk.fd = fd := hcfd
  rcases hgo.2 d (.closeLoop fd st) s2 ⟨by unfold Wf; rw [hsk2]; exact wf_mark hw hcm,
    by rw [hsk2, ← hfd]; exact hasConn_mark hcm, by rw [hsk2]; exact debt_mark hd⟩ with hoof | hg
  · exact Or.inl hoof
  refine Or.inr ⟨hg.wf, hg.debt, ?_, ?_⟩
  · exact StepS.drop_xf (a2 := s2.sk) (by rw [hsk2]; exact step_mark) hg.step (not_unlinked_of_hasConn hw hh)
  · intro hidx
    have h2 := hg.post (by rw [hsk2]; exact hidx)
    rw [hsk2, ← hfd, mark_cFUQ_filter] at h2
    rw [← hfd]; exact h2

/-! ### `closeLoop` -/

theorem sk_removeConn_st (s : St) (fd : Nat) :
    ({ s with conns := s.conns.filter (·.fd != fd) } : St).sk = s.sk.removeConn fd := by
  unfold St.sk Sk.removeConn
  simp only [Sk.mk.injEq, true_and, and_true, List.filter_map]
  rfl

theorem good_closeLoop {go} (hgo : GoOk go) {d fd st s} (hpre : Pre d s (.closeLoop fd st)) :
    GoodO d (.closeLoop fd st) s (bodyCloseLoop go fd st s) := by
  obtain ⟨hw, hh, hd⟩ := hpre
  obtain ⟨c, hc⟩ := conn?_of_live (live_of_hasConn hh)
  obtain ⟨hcfd, hcm⟩ := conn?_sk hc
  have hcu : c.unlinked = true := unlinked_of_hasConn hw hh hc
  unfold bodyCloseLoop
  simp only [hc]
  split
  · -- requeue the first query of the list
    rename_i k rest hcq
    have hkq : k ∈ c.sk.queries := by show k ∈ c.queries; rw [hcq]; exact List.mem_cons_self
    have hki : k ∈ s.sk.idx := (hw.c.cq (c.sk.fd, c.sk.queries) (mem_cFQ.mpr ⟨c.sk, hcm, rfl⟩) k hkq).1
    have hg1 := hgo.2 d (.requeue k st true none false) s ⟨WfS.weaken_hole hw, hki, hd⟩
    generalize go (.requeue k st true none false) s = r1 at hg1
    obtain ⟨s1, ret1⟩ := r1
    rcases hg1 with hoof | hg1
    · exact Or.inl (hgo.1 _ _ (by simpa using hoof))
    -- the connection is still there, still unlinked, and no longer lists `k`
    have hmu : (fd, true, c.queries) ∈ s.sk.cFUQ :=
      mem_cFUQ.mpr ⟨c.sk, hcm, by rw [← hcfd, ← hcu]; rfl⟩
    obtain ⟨q1, hq1, _⟩ := hg1.step.unl fd c.queries hmu (fun hx => by cases hx)
    have hnot := hg1.post fd c.queries hmu
    have hsk2 : (s1.modConn fd fun c => { c with queries := c.queries.erase k }).sk = s1.sk := by
      rw [sk_modConn _ _ _ (fun c => { c with queries := c.queries.erase k }) (fun _ => rfl)]
      apply Sk.modC_id
      intro e he hefd
      have : k ∉ e.queries := hnot e.queries (mem_cFQ.mpr ⟨e, he, by rw [hefd]⟩)
      rw [List.erase_of_not_mem this]
    simp only
    generalize (s1.modConn fd fun c => { c with queries := c.queries.erase k }) = s2 at hsk2
    rcases hgo.2 d (.closeLoop fd st) s2
      ⟨Wf.of_sk_eq hsk2 hg1.wf, by rw [hsk2]; exact ⟨q1, hq1⟩, by rw [hsk2]; exact hg1.debt⟩ with hoof2 | hg2
    · exact Or.inl hoof2
    refine Or.inr ⟨hg2.wf, hg2.debt, ?_, ?_⟩
    · have h1 : StepS (some fd) none d s.sk s2.sk := by rw [hsk2]; exact hg1.step.weaken'
      exact h1.trans hg2.step
    · intro hidx
      rw [hidx] at hki; cases hki
  · -- the list is empty: close the socket, release the connection
    rename_i hcq
    have hskX : ((((s.notify fd false false).modSock fd fun v => { v with isOpen := false }).emit
        s!"close({fd})").slog fd "close").sk = s.sk := by
      simp only [sk_slog, sk_emit]
      rw [sk_modSock]
      · exact sk_notify _ _ _ _
      · intro; rfl
    generalize ((((s.notify fd false false).modSock fd fun v => { v with isOpen := false }).emit
        s!"close({fd})").slog fd "close") = sX at hskX
    have hsk := sk_removeConn_st sX fd
    rw [hskX, ← hcfd] at hsk
    have hfd' : c.fd = c.sk.fd := rfl
    rw [hcfd] at hsk
    refine Or.inr ⟨?_, ?_, ?_, ?_⟩
    rotate_left 3
    · intro hidx
      show Sk.cFUQ (St.sk _) = _ ∧ Sk.idx (St.sk _) = _
      rw [hsk, ← hcfd, hfd']
      exact ⟨removeConn_cFUQ, hidx⟩
    · show Wf _
      unfold Wf; rw [hsk, ← hcfd, hfd']; exact wf_removeConn hw hcm hcu hcq
    · show DebtOk none d _
      rw [hsk, ← hcfd, hfd']; exact debt_removeConn hd
    · show StepS (some fd) none d s.sk _
      rw [hsk, ← hcfd, hfd']; exact step_removeConn

/-! ### `processWrite` -/

theorem good_processWrite {go} (hgo : GoOk go) {d fd s} (hpre : Pre d s (.processWrite fd)) :
    GoodO d (.processWrite fd) s (bodyProcessWrite go fd s) := by
  obtain ⟨hw, hd⟩ := hpre
  unfold bodyProcessWrite
  split
  · exact Good.of_sk_eq hw hd rfl trivial
  · rename_i c hc
    split
    · exact Good.of_sk_eq hw hd rfl trivial
    · rename_i hcu
      have hcu' : c.unlinked = false := by simpa using hcu
      have hsk1 : (s.modConn fd fun c => { c with connected := true }).sk = s.sk := by
        rw [sk_modConn_same]; intro; rfl
      generalize (s.modConn fd fun c => { c with connected := true }) = s1 at hsk1
      rcases hgo.2 d (.flush fd) s1
        ⟨Wf.of_sk_eq hsk1 hw, by unfold Sk.liveConn; rw [hsk1]; exact live_of_conn? hc, by rw [hsk1]; exact hd⟩
        with hoof | hg1
      · simp only
        split
        · exact Or.inl (hgo.1 _ _ hoof)
        · exact Or.inl hoof
      have hsk2 : (go (.flush fd) s1).1.sk = s.sk := hg1.post.trans hsk1
      simp only
      split
      · refine Good.tail' (hgo.2 d _ _ ?_) (by rw [hsk2]; exact StepS.refl _ _ _ _) (Or.inl rfl) (Or.inl rfl)
          (fun _ => trivial)
        refine ⟨hg1.wf, ?_, hg1.debt⟩
        rw [hsk2]; have := hasConn_of_conn? hc; rwa [hcu'] at this
      · exact Good.of_sk_eq hw hd hsk2 trivial

/-! ### `cleanupConns` -/

theorem good_cleanupConns {go} (hgo : GoOk go) {d todo s} (hpre : Pre d s (.cleanupConns todo)) :
    GoodO d (.cleanupConns todo) s (bodyCleanupConns go todo s) := by
  obtain ⟨hw, hd⟩ := hpre
  unfold bodyCleanupConns
  split
  · exact Good.of_sk_eq hw hd rfl trivial
  · rename_i fd rest
    split
    · exact Good.tail' (hgo.2 d _ _ ⟨hw, hd⟩) (StepS.refl _ _ _ _) (Or.inl rfl) (Or.inl rfl) (fun _ => trivial)
    · rename_i c hc
      simp only
      split
      · rename_i hdo
        have hcu : c.unlinked = false := by
          simp only [Bool.and_eq_true, Bool.not_eq_true'] at hdo
          exact hdo.1.2
        rcases hgo.2 d (.closeConn fd .ok) s ⟨hw, by have := hasConn_of_conn? hc; rwa [hcu] at this, hd⟩
          with hoof | hg1
        · exact Or.inl (hgo.1 _ _ hoof)
        rcases hgo.2 d (.cleanupConns rest) _ ⟨hg1.wf, hg1.debt⟩ with hoof2 | hg2
        · exact Or.inl hoof2
        exact Or.inr ⟨hg2.wf, hg2.debt, hg1.step.trans hg2.step, trivial⟩
      · exact Good.tail' (hgo.2 d _ _ ⟨hw, hd⟩) (StepS.refl _ _ _ _) (Or.inl rfl) (Or.inl rfl) (fun _ => trivial)

end Cares.Chan
