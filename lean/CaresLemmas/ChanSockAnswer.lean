import CaresLemmas.ChanSockBase
/-!
# `process_answer`'s acceptance path (C05)
-/
namespace Cares.Chan
open Cares.Proto

/-- same_questions(): type, class, and the name — compared exactly when 0x20 is on and the query went over UDP,
    case-insensitively otherwise -/
def sameQuestion (cfg : Cfg) (q : Query) (r : Reply) : Bool :=
  q.qtype == r.qtype && q.qclass == r.qclass &&
    (if cfg.dns0x20 && !q.usingTcp then q.name == r.name else hexLower q.name == hexLower r.name)

/-- the call of `ares_cookie_validate` made by `process_answer` for query `q` and response `r` arriving on `c` -/
def cookieCheck (s : St) (c : Conn) (q : Query) (r : Reply) : Cookie.ValidateOut :=
  Cookie.validate ((s.server? c.srv).getD default).cookie { cookieTry := q.cookieTry, usingTcp := q.usingTcp }
    (if q.edns then q.reqCookie else none) (if r.hasOpt then r.cookie.map hexToBytes else none) r.rcode s.tv

/-- the decision of `process_answer`: the key of the query that response `r`, arriving on `fd`, answers -/
def acceptKey (s : St) (fd : Nat) (r : Reply) : Option Nat :=
  match s.conn? fd with
  | none => none
  | some c =>
    if r.empty then none else
    if r.garbage then none else
    match s.byQid.find? (·.1 == r.id) with
    | none => none
    | some (_, key) =>
      match s.query? key with
      | none => none
      | some q =>
        if !sameQuestion s.cfg q r then none else
        if (cookieCheck s c q r).verdict == .drop then none else some key

/-- everything `process_answer` has checked, in the state in which it examined the response, before it records
    `(fd, key, r)` as accepted -/
structure Authentic (s : St) (fd key : Nat) (r : Reply) : Prop where
  notEmpty : r.empty = false
  notGarbage : r.garbage = false
  /-- it arrived on a live connection of this channel -/
  conn : ∃ c, s.conn? fd = some c
  /-- the qid table maps the response's id to `key` … -/
  qid : (r.id, key) ∈ s.byQid ∧ (s.byQid.find? (·.1 == r.id)).map (·.2) = some key
  /-- … which is a live query -/
  live : ∃ q, s.query? key = some q
  qtype : ∀ q, s.query? key = some q → q.qtype = r.qtype
  qclass : ∀ q, s.query? key = some q → q.qclass = r.qclass
  /-- the name matches exactly when 0x20 is on and the query went over UDP -/
  nameExact : ∀ q, s.query? key = some q → s.cfg.dns0x20 = true → q.usingTcp = false → q.name = r.name
  /-- … and up to ASCII case otherwise -/
  nameCi : ∀ q, s.query? key = some q → hexLower q.name = hexLower r.name
  /-- the DNS-cookie checks accept it -/
  cookie : ∀ c q, s.conn? fd = some c → s.query? key = some q → (cookieCheck s c q r).verdict = .accept

theorem acceptKey_authentic {s : St} {fd key : Nat} {r : Reply} (h : acceptKey s fd r = some key) :
    Authentic s fd key r := by
  unfold acceptKey at h
  split at h
  · cases h
  · rename_i c hc
    split at h
    · cases h
    · rename_i hempty
      split at h
      · cases h
      · rename_i hgarb
        split at h
        · cases h
        · rename_i id key' hfind
          split at h
          · cases h
          · rename_i q hq
            split at h
            · cases h
            · rename_i hsame
              split at h
              · cases h
              · rename_i hdrop
                cases h
                have hmem := List.find?_some hfind
                have hin := List.mem_of_find?_eq_some hfind
                simp only [beq_iff_eq] at hmem
                subst hmem
                have hs : sameQuestion s.cfg q r = true := by
                  cases h' : sameQuestion s.cfg q r with
                  | true => rfl
                  | false => simp [h'] at hsame
                simp only [sameQuestion, Bool.and_eq_true, beq_iff_eq] at hs
                obtain ⟨⟨hqt, hqc⟩, hname⟩ := hs
                refine ⟨by simpa using hempty, by simpa using hgarb, ⟨c, hc⟩, ⟨hin, by rw [hfind]; rfl⟩, ⟨q, hq⟩,
                  ?_, ?_, ?_, ?_, ?_⟩
                · intro q' hq'; rw [hq] at hq'; cases hq'; exact hqt
                · intro q' hq'; rw [hq] at hq'; cases hq'; exact hqc
                · intro q' hq' h0 hu; rw [hq] at hq'; cases hq'
                  simpa [h0, hu] using hname
                · intro q' hq'; rw [hq] at hq'; cases hq'
                  split at hname
                  · simp only [beq_iff_eq] at hname; rw [hname]
                  · simpa using hname
                · intro c' q' hc' hq'
                  rw [hc] at hc'; rw [hq] at hq'; cases hc'; cases hq'
                  cases hv : (cookieCheck s c q r).verdict with
                  | accept => rfl
                  | drop => rw [hv] at hdrop; simp at hdrop

/-- conversely: a response that satisfies all the checks is accepted (the checks are exactly these) -/
theorem acceptKey_of_authentic {s : St} {fd key : Nat} {r : Reply} (h : Authentic s fd key r) :
    acceptKey s fd r = some key := by
  obtain ⟨c, hc⟩ := h.conn
  obtain ⟨q, hq⟩ := h.live
  unfold acceptKey
  simp only [hc, h.notEmpty, h.notGarbage, Bool.false_eq_true, ↓reduceIte]
  have hf := h.qid.2
  cases hfind : s.byQid.find? (·.1 == r.id) with
  | none => rw [hfind] at hf; cases hf
  | some p =>
    obtain ⟨id, k⟩ := p
    rw [hfind] at hf
    simp only [Option.map_some, Option.some.injEq] at hf
    subst hf
    simp only [hq]
    have hs : sameQuestion s.cfg q r = true := by
      simp only [sameQuestion, Bool.and_eq_true, beq_iff_eq]
      refine ⟨⟨h.qtype q hq, h.qclass q hq⟩, ?_⟩
      split
      · rename_i hc0
        simp only [Bool.and_eq_true, Bool.not_eq_true'] at hc0
        simpa using h.nameExact q hq hc0.1 hc0.2
      · simpa using h.nameCi q hq
    simp only [hs, Bool.not_true, Bool.false_eq_true, ↓reduceIte, h.cookie c q hc hq]
    rfl

section
variable (go : Call → St → St × Ret)

/-- frame form: `h` says the recursive calls leave `accepted` alone -/
syntax "acc_simp " ident : tactic
macro_rules
  | `(tactic| acc_simp $h) =>
    `(tactic| repeat (first
        | rfl
        | (simp only [chan_frame, $h:ident])
        | (split <;> pair_subst)))

/-- **`process_answer` appends to `accepted` exactly the response it was given, exactly when `acceptKey` says so**
    (stated for recursive calls that leave `accepted` alone, i.e. for what `process_answer` itself does) -/
theorem bodyProcessAnswer_accepted (hgo : ∀ c s, (go c s).1.accepted = s.accepted) (fd : Nat) (r : Reply) (s : St) :
    (bodyProcessAnswer go fd r s).1.accepted =
      s.accepted ++ ((acceptKey s fd r).map fun k => (fd, k, r)).toList := by
  unfold bodyProcessAnswer acceptKey
  cases hc : s.conn? fd with
  | none => simp [St.mfault_accepted]
  | some c =>
    simp only
    by_cases hempty : r.empty = true
    · simp [hempty]
    · simp only [hempty, Bool.false_eq_true, ↓reduceIte]
      by_cases hgarb : r.garbage = true
      · simp [hgarb]
      · simp only [hgarb, Bool.false_eq_true, ↓reduceIte]
        cases hfind : s.byQid.find? (·.1 == r.id) with
        | none => simp
        | some p =>
          obtain ⟨id, key⟩ := p
          simp only
          cases hq : s.query? key with
          | none => simp [St.mfault_accepted]
          | some q =>
            simp only
            have hsame : (q.qtype == r.qtype && q.qclass == r.qclass &&
                if (s.cfg.dns0x20 && !q.usingTcp) = true then q.name == r.name
                else hexLower q.name == hexLower r.name) = sameQuestion s.cfg q r := rfl
            rw [hsame]
            by_cases hs : sameQuestion s.cfg q r = true
            · simp only [hs, Bool.not_true, Bool.false_eq_true, ↓reduceIte]
              have hv : Cookie.validate ((s.server? c.srv).getD default).cookie
                  { cookieTry := q.cookieTry, usingTcp := q.usingTcp } (if q.edns = true then q.reqCookie else none)
                  (if r.hasOpt = true then Option.map hexToBytes r.cookie else none) r.rcode s.tv =
                  cookieCheck s c q r := rfl
              rw [hv]
              by_cases hd : ((cookieCheck s c q r).verdict == Cookie.Verdict.drop) = true
              · simp only [hd, ↓reduceIte, Option.map_none, Option.toList_none, List.append_nil]
                acc_simp hgo
              · simp only [hd, Bool.false_eq_true, ↓reduceIte, Option.map_some, Option.toList_some]
                acc_simp hgo
            · simp [hs]

end
end Cares.Chan
