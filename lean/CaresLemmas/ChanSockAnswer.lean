import CaresLemmas.ChanSockBase
/-!
# `process_answer`'s acceptance path (C05, and the TC / empty-datagram clauses of C20)

`bodyProcessAnswer` is decomposed (definitionally) into the checks, `ares_cookie_validate`'s side effects, and the
tail `paDeliver` that runs once a response has been accepted.  `acceptKey` is the pure decision; `Authentic` spells out
what it has checked.
-/
namespace Cares.Chan
open Cares.Proto

/-- same_questions(): type, class, and the name — compared exactly when 0x20 is on and the query went over UDP,
    case-insensitively otherwise -/
def sameQuestion (cfg : Cfg) (q : Query) (r : Reply) : Bool :=
  q.qtype == r.qtype && q.qclass == r.qclass &&
    (if cfg.dns0x20 && !q.usingTcp then q.name == r.name else hexLower q.name == hexLower r.name)

/-- the call of `ares_cookie_validate` made by `process_answer` for query `q` and response `r` arriving on `c` -/
def cookieCheck (s : St) (c : Conn) (q : Query) (r : Reply) : Cookie.ValidateOut :=
  Cookie.validate ((s.server? c.srv).getD default).cookie { cookieTry := q.cookieTry, usingTcp := q.usingTcp }
    (if q.edns then q.reqCookie else none) (if r.hasOpt then r.cookie.map hexToBytes else none) r.rcode s.tv

/-- `ares_cookie_validate` asks for a re-send (BADCOOKIE) only together with "drop this response" -/
theorem validateWith_requeue_drop (isSet : Cookie.TimeVal → Bool) (c : Cookie.CookieSt) (q : Cookie.QState)
    (rq rs : Option Cookie.Bytes) (rc : Nat) (now : Cookie.TimeVal)
    (h : (Cookie.validateWith isSet c q rq rs rc now).requeue = true) :
    (Cookie.validateWith isSet c q rq rs rc now).verdict = .drop := by
  unfold Cookie.validateWith at h ⊢
  simp only [] at h ⊢
  revert h
  repeat' split
  all_goals simp

theorem cookieCheck_requeue_drop (s : St) (c : Conn) (q : Query) (r : Reply)
    (h : (cookieCheck s c q r).requeue = true) : (cookieCheck s c q r).verdict = .drop :=
  validateWith_requeue_drop _ _ _ _ _ _ _ h

/-- the state after `ares_cookie_validate` has updated the server's cookie state and the query's cookie fields -/
def paPre (s : St) (c : Conn) (key : Nat) (q : Query) (r : Reply) : St :=
  (s.modServer c.srv fun v => { v with cookie := (cookieCheck s c q r).ck }).modQuery key fun q' =>
    { q' with cookieTry := (cookieCheck s c q r).q.cookieTry, usingTcp := (cookieCheck s c q r).q.usingTcp }

/-- `process_answer` once the response has passed every check: record it, unlink the query from its connection,
    then EDNS downgrade / TC→TCP / server-failure requeue / cache + `end_query` -/
def paDeliver (go : Call → St → St × Ret) (fd : Nat) (r : Reply) (c : Conn) (key : Nat) (q0 : Query) (s : St) : St × Ret :=
  let q := (s.query? key).getD q0
  let s := { s with accepted := s.accepted ++ [(fd, key, r)] }
  let s := s.modConn (q.conn.getD fd) fun c => { c with queries := c.queries.erase key }
  let s := s.modQuery key fun q => { q with inConnList := false }
  let ednsIssue := r.rcode == 1 && q.edns &&
    (!r.hasOpt || (q.reqCookie.isSome && r.hasOpt))
  if ednsIssue then
    let s := s.removeFromConn key
    let s := s.modQuery key fun q => { q with edns := false, reqCookie := none, cookie := "-" }
    ({ s with requeueArr := s.requeueArr ++ [(q.qid, some c.srv)] }, .ok)
  else if r.tc && !c.tcp && !s.cfg.igntc then
    let s := s.removeFromConn key
    let s := s.modQuery key fun q => { q with usingTcp := true }
    ({ s with requeueArr := s.requeueArr ++ [(q.qid, none)] }, .ok)
  else if !s.cfg.nocheckresp && (r.rcode == 2 || r.rcode == 4 || r.rcode == 5) then
    let st : Status := if r.rcode == 2 then .servfail else if r.rcode == 4 then .notimp else .refused
    let s := s.incFailures c.srv q.usingTcp
    let (s, _) := go (.requeue key st true (some r) true) s
    (s, .ok)
  else
    let s := s.cacheInsert q r
    let s := s.setGood c.srv q.usingTcp
    let (s, _) := go (.endQuery (some c.srv) key .ok (some r)) s
    (s, .ok)

/-- `process_answer` decomposed (definitional) -/
theorem bodyProcessAnswer_stages (go : Call → St → St × Ret) (fd : Nat) (r : Reply) (s : St) :
    bodyProcessAnswer go fd r s =
      match s.conn? fd with
      | none => (s.mfault s!"uaf-conn({fd}) in process_answer", .other)
      | some c =>
        if r.empty then (s, .ok) else
        if r.garbage then (s, .badresp) else
        match s.byQid.find? (·.1 == r.id) with
        | none => (s, .ok)
        | some (_, key) =>
          match s.query? key with
          | none => (s.mfault s!"dangling-qid({r.id})", .other)
          | some q =>
            if q.conn != some fd then (s, .ok) else
            if !sameQuestion s.cfg q r then (s, .ok) else
            let (s', _) := if (cookieCheck s c q r).requeue then go (.requeue key .ok false none true) (paPre s c key q r)
                           else (paPre s c key q r, Status.ok)
            if (cookieCheck s c q r).verdict == .drop then (s', .ok) else paDeliver go fd r c key q s' := by
  rfl

/-- the decision of `process_answer`: the key of the query that response `r`, arriving on `fd`, answers -/
def acceptKey (s : St) (fd : Nat) (r : Reply) : Option Nat :=
  match s.conn? fd with
  | none => none
  | some c =>
    if r.empty then none else
    if r.garbage then none else
    match s.byQid.find? (·.1 == r.id) with
    | none => none
    | some (_, key) =>
      match s.query? key with
      | none => none
      | some q =>
        if q.conn != some fd then none else
        if !sameQuestion s.cfg q r then none else
        if (cookieCheck s c q r).verdict == .drop then none else some key

/-- everything `process_answer` has checked, in the state in which it examined the response, before it records
    `(fd, key, r)` as accepted -/
structure Authentic (s : St) (fd key : Nat) (r : Reply) : Prop where
  notEmpty : r.empty = false
  notGarbage : r.garbage = false
  /-- it arrived on a live connection of this channel -/
  conn : ∃ c, s.conn? fd = some c
  /-- the qid table maps the response's id to `key` … -/
  qid : (r.id, key) ∈ s.byQid ∧ (s.byQid.find? (·.1 == r.id)).map (·.2) = some key
  /-- … which is a live query -/
  live : ∃ q, s.query? key = some q
  /-- … currently assigned to the connection the response arrived on -/
  assigned : ∀ q, s.query? key = some q → q.conn = some fd
  qtype : ∀ q, s.query? key = some q → q.qtype = r.qtype
  qclass : ∀ q, s.query? key = some q → q.qclass = r.qclass
  /-- the name matches exactly when 0x20 is on and the query went over UDP -/
  nameExact : ∀ q, s.query? key = some q → s.cfg.dns0x20 = true → q.usingTcp = false → q.name = r.name
  /-- … and up to ASCII case otherwise -/
  nameCi : ∀ q, s.query? key = some q → hexLower q.name = hexLower r.name
  /-- the DNS-cookie checks accept it -/
  cookie : ∀ c q, s.conn? fd = some c → s.query? key = some q → (cookieCheck s c q r).verdict = .accept

/-- unfolding of `acceptKey = some key` into the witnesses and the individual checks -/
theorem acceptKey_some {s : St} {fd key : Nat} {r : Reply} (h : acceptKey s fd r = some key) :
    ∃ c id q, s.conn? fd = some c ∧ r.empty = false ∧ r.garbage = false ∧
      s.byQid.find? (·.1 == r.id) = some (id, key) ∧ s.query? key = some q ∧ q.conn = some fd ∧
      sameQuestion s.cfg q r = true ∧ (cookieCheck s c q r).verdict = .accept := by
  unfold acceptKey at h
  split at h
  · cases h
  · rename_i c hc
    split at h
    · cases h
    · rename_i hempty
      split at h
      · cases h
      · rename_i hgarb
        split at h
        · cases h
        · rename_i id key' hfind
          split at h
          · cases h
          · rename_i q hq
            split at h
            · cases h
            · rename_i hconn
              split at h
              · cases h
              · rename_i hsame
                split at h
                · cases h
                · rename_i hdrop
                  cases h
                  refine ⟨c, id, q, hc, by simpa using hempty, by simpa using hgarb, hfind, hq, by simpa using hconn,
                    ?_, ?_⟩
                  · cases h' : sameQuestion s.cfg q r with
                    | true => rfl
                    | false => simp [h'] at hsame
                  · cases hv : (cookieCheck s c q r).verdict with
                    | accept => rfl
                    | drop => rw [hv] at hdrop; simp at hdrop

theorem acceptKey_authentic {s : St} {fd key : Nat} {r : Reply} (h : acceptKey s fd r = some key) :
    Authentic s fd key r := by
  obtain ⟨c, id, q, hc, hempty, hgarb, hfind, hq, hconn, hs, hv⟩ := acceptKey_some h
  have hmem := List.find?_some hfind
  have hin := List.mem_of_find?_eq_some hfind
  simp only [beq_iff_eq] at hmem
  subst hmem
  simp only [sameQuestion, Bool.and_eq_true, beq_iff_eq] at hs
  obtain ⟨⟨hqt, hqc⟩, hname⟩ := hs
  refine ⟨hempty, hgarb, ⟨c, hc⟩, ⟨hin, by rw [hfind]; rfl⟩, ⟨q, hq⟩, ?_, ?_, ?_, ?_, ?_, ?_⟩
  · intro q' hq'; rw [hq] at hq'; cases hq'; exact hconn
  · intro q' hq'; rw [hq] at hq'; cases hq'; exact hqt
  · intro q' hq'; rw [hq] at hq'; cases hq'; exact hqc
  · intro q' hq' h0 hu; rw [hq] at hq'; cases hq'
    simpa [h0, hu] using hname
  · intro q' hq'; rw [hq] at hq'; cases hq'
    split at hname
    · simp only [beq_iff_eq] at hname; rw [hname]
    · simpa using hname
  · intro c' q' hc' hq'
    rw [hc] at hc'; rw [hq] at hq'; cases hc'; cases hq'
    exact hv

/-- conversely: a response that satisfies all the checks is accepted (the checks are exactly these) -/
theorem acceptKey_of_authentic {s : St} {fd key : Nat} {r : Reply} (h : Authentic s fd key r) :
    acceptKey s fd r = some key := by
  obtain ⟨c, hc⟩ := h.conn
  obtain ⟨q, hq⟩ := h.live
  unfold acceptKey
  simp only [hc, h.notEmpty, h.notGarbage, Bool.false_eq_true, ↓reduceIte]
  have hf := h.qid.2
  cases hfind : s.byQid.find? (·.1 == r.id) with
  | none => rw [hfind] at hf; cases hf
  | some p =>
    obtain ⟨id, k⟩ := p
    rw [hfind] at hf
    simp only [Option.map_some, Option.some.injEq] at hf
    subst hf
    simp only [hq]
    have hs : sameQuestion s.cfg q r = true := by
      simp only [sameQuestion, Bool.and_eq_true, beq_iff_eq]
      refine ⟨⟨h.qtype q hq, h.qclass q hq⟩, ?_⟩
      split
      · rename_i hc0
        simp only [Bool.and_eq_true, Bool.not_eq_true'] at hc0
        simpa using h.nameExact q hq hc0.1 hc0.2
      · simpa using h.nameCi q hq
    have hcn : (q.conn != some fd) = false := by simp [h.assigned q hq]
    simp only [hcn, hs, Bool.not_true, Bool.false_eq_true, ↓reduceIte, h.cookie c q hc hq]
    rfl

/-- **accepted**: `process_answer` is its tail, run in the state `ares_cookie_validate` leaves -/
theorem bodyProcessAnswer_accept (go : Call → St → St × Ret) {s : St} {fd key : Nat} {r : Reply}
    (h : acceptKey s fd r = some key) :
    ∃ c q, s.conn? fd = some c ∧ s.query? key = some q ∧ q.conn = some fd ∧
      bodyProcessAnswer go fd r s = paDeliver go fd r c key q (paPre s c key q r) := by
  obtain ⟨c, id, q, hc, hempty, hgarb, hfind, hq, hconn, hs, hv⟩ := acceptKey_some h
  refine ⟨c, q, hc, hq, hconn, ?_⟩
  have hrq : (cookieCheck s c q r).requeue = false := by
    cases h' : (cookieCheck s c q r).requeue with
    | false => rfl
    | true => rw [cookieCheck_requeue_drop s c q r h'] at hv; cases hv
  rw [bodyProcessAnswer_stages]
  simp only [hc, hempty, hgarb, hfind, hq, hconn, hs, hrq, hv, bne_self_eq_false, Bool.false_eq_true, ↓reduceIte,
    Bool.not_true]
  rfl

/-- **not accepted**: apart from faults, nothing happens except what `ares_cookie_validate` does (server cookie state,
    the query's cookie counters, a BADCOOKIE re-send) -/
theorem bodyProcessAnswer_reject (go : Call → St → St × Ret) {s : St} {fd : Nat} {r : Reply}
    (h : acceptKey s fd r = none) :
    (bodyProcessAnswer go fd r s).1 = s ∨ (∃ e, (bodyProcessAnswer go fd r s).1 = s.mfault e) ∨
      ∃ c key q, s.conn? fd = some c ∧ s.query? key = some q ∧ (cookieCheck s c q r).verdict = .drop ∧
        (bodyProcessAnswer go fd r s).1 =
          if (cookieCheck s c q r).requeue then (go (.requeue key .ok false none true) (paPre s c key q r)).1
          else paPre s c key q r := by
  rw [bodyProcessAnswer_stages]
  unfold acceptKey at h
  split
  · exact .inr (.inl ⟨_, rfl⟩)
  · rename_i c hc
    simp only [hc] at h
    split
    · exact .inl rfl
    · split
      · exact .inl rfl
      · rename_i hempty hgarb
        simp only [hempty, hgarb, Bool.false_eq_true, ↓reduceIte] at h
        split
        · exact .inl rfl
        · rename_i id key hfind
          simp only [hfind] at h
          split
          · exact .inr (.inl ⟨_, rfl⟩)
          · rename_i q hq
            simp only [hq] at h
            split
            · exact .inl rfl
            · split
              · exact .inl rfl
              · rename_i hconn hsame
                simp only [hconn, hsame, Bool.false_eq_true, ↓reduceIte] at h
                have hd : ((cookieCheck s c q r).verdict == Cookie.Verdict.drop) = true := by
                  cases hv : ((cookieCheck s c q r).verdict == Cookie.Verdict.drop) with
                  | true => rfl
                  | false => simp [hv] at h
                refine .inr (.inr ⟨c, key, q, hc, hq, by simpa using hd, ?_⟩)
                simp only [hd, ↓reduceIte]
                split <;> rfl


section
variable (go : Call → St → St × Ret)

/-- frame form: `h` says the recursive calls leave `accepted` alone -/
syntax "acc_simp " ident : tactic
macro_rules
  | `(tactic| acc_simp $h) =>
    `(tactic| repeat (first
        | with_reducible rfl
        | (simp only [chan_frame, $h:ident])
        | (csplit <;> pair_subst)))

theorem paPre_accepted (s : St) (c : Conn) (key : Nat) (q : Query) (r : Reply) :
    (paPre s c key q r).accepted = s.accepted := rfl
theorem paPre_cfg (s : St) (c : Conn) (key : Nat) (q : Query) (r : Reply) :
    (paPre s c key q r).cfg = s.cfg := rfl
theorem paPre_cache (s : St) (c : Conn) (key : Nat) (q : Query) (r : Reply) :
    (paPre s c key q r).cache = s.cache := rfl

theorem paDeliver_accepted (hgo : ∀ c s, (go c s).1.accepted = s.accepted) (fd : Nat) (r : Reply) (c : Conn)
    (key : Nat) (q : Query) (s : St) :
    (paDeliver go fd r c key q s).1.accepted = s.accepted ++ [(fd, key, r)] := by
  unfold paDeliver
  acc_simp hgo

/-- **`process_answer` appends to `accepted` exactly the response it was given, exactly when `acceptKey` says so**
    (stated for recursive calls that leave `accepted` alone, i.e. for what `process_answer` itself does) -/
theorem bodyProcessAnswer_accepted (hgo : ∀ c s, (go c s).1.accepted = s.accepted) (fd : Nat) (r : Reply) (s : St) :
    (bodyProcessAnswer go fd r s).1.accepted =
      s.accepted ++ ((acceptKey s fd r).map fun k => (fd, k, r)).toList := by
  cases hk : acceptKey s fd r with
  | some key =>
    obtain ⟨c, q, _, _, _, heq⟩ := bodyProcessAnswer_accept go hk
    rw [heq, paDeliver_accepted go hgo, paPre_accepted]; rfl
  | none =>
    simp only [Option.map_none, Option.toList_none, List.append_nil]
    rcases bodyProcessAnswer_reject go hk with h | ⟨e, h⟩ | ⟨c, key, q, _, _, _, h⟩
    · rw [h]
    · rw [h]; rfl
    · rw [h]; split
      · rw [hgo, paPre_accepted]
      · rw [paPre_accepted]

end
/-! ## the `accepted` log over whole runs -/

/-- `accepted` extends `base`, the configuration is `cfg0`, and every entry beyond `base` was authentic in some
    state with configuration `cfg0` (namely the one in which `process_answer` examined it) -/
def AccOKF (cfg0 : Cfg) (base : List (Nat × Nat × Reply)) (cfg : Cfg) (acc : List (Nat × Nat × Reply)) : Prop :=
  cfg = cfg0 ∧ base <+: acc ∧
    ∀ e ∈ acc.drop base.length, ∃ s0 : St, s0.cfg = cfg0 ∧ Authentic s0 e.1 e.2.1 e.2.2

abbrev AccOK (cfg0 : Cfg) (base : List (Nat × Nat × Reply)) (s : St) : Prop := AccOKF cfg0 base s.cfg s.accepted

theorem AccOKF_append {cfg0 cfg : Cfg} {base acc : List (Nat × Nat × Reply)} (h : AccOKF cfg0 base cfg acc)
    (e : Nat × Nat × Reply) (s0 : St) (hc : s0.cfg = cfg0) (ha : Authentic s0 e.1 e.2.1 e.2.2) :
    AccOKF cfg0 base cfg (acc ++ [e]) := by
  obtain ⟨h1, h2, h3⟩ := h
  refine ⟨h1, h2.trans (List.prefix_append _ _), ?_⟩
  intro x hx
  have hlen : base.length ≤ acc.length := h2.length_le
  rw [List.drop_append_of_le_length hlen, List.mem_append] at hx
  cases hx with
  | inl hx => exact h3 x hx
  | inr hx => simp only [List.mem_singleton] at hx; subst hx; exact ⟨s0, hc, ha⟩

section
variable (cfg0 : Cfg) (base : List (Nat × Nat × Reply)) (go : Call → St → St × Ret)
  (hgo : ∀ c s, AccOK cfg0 base s → AccOK cfg0 base (go c s).1)
include hgo

theorem paDeliver_AccOK (fd : Nat) (r : Reply) (c : Conn) (key : Nat) (q : Query) (s : St)
    (h : AccOKF cfg0 base s.cfg (s.accepted ++ [(fd, key, r)])) : AccOK cfg0 base (paDeliver go fd r c key q s).1 := by
  unfold paDeliver
  chan_peel hgo [AccOK]

theorem bodyProcessAnswer_AccOK (fd : Nat) (r : Reply) (s : St) (h : AccOK cfg0 base s) :
    AccOK cfg0 base (bodyProcessAnswer go fd r s).1 := by
  cases hk : acceptKey s fd r with
  | some key =>
    obtain ⟨c, q, _, _, _, heq⟩ := bodyProcessAnswer_accept go hk
    rw [heq]
    apply paDeliver_AccOK cfg0 base go hgo
    rw [paPre_accepted, paPre_cfg]
    exact AccOKF_append h (fd, key, r) s h.1 (acceptKey_authentic hk)
  | none =>
    rcases bodyProcessAnswer_reject go hk with h' | ⟨e, h'⟩ | ⟨c, key, q, _, _, _, h'⟩
    · rw [h']; exact h
    · rw [h']; exact h
    · rw [h']; split
      · exact hgo _ _ h
      · exact h

end

/-- unfold whichever body `execBody` dispatched to -/
macro "unfold_body" : tactic => `(tactic| first
  | unfold bodySendNolock | unfold bodyProbe | unfold bodyFlush
  | unfold bodyRequeue | unfold bodyEndQuery | unfold bodyCallback | unfold bodyUserCb | unfold bodyReactions
  | unfold bodyConnError | unfold bodyCloseConn | unfold bodyCloseLoop | unfold bodyProcessWrite
  | unfold bodyProcessRead | unfold bodyReadAnswers | unfold bodyFlushRequeue | unfold bodyProcessTimeouts
  | unfold bodyCleanupConns | unfold bodyClientStart | unfold bodyRunActs | unfold bodyCancel
  | unfold bodyCancelLoop | unfold bodyDestroy)

section
variable (cfg0 : Cfg) (base : List (Nat × Nat × Reply)) (go : Call → St → St × Ret)
  (hgo : ∀ c s, AccOK cfg0 base s → AccOK cfg0 base (go c s).1)
include hgo

theorem foldl_closeConn_AccOK (fds : List Nat) (s : St) (h : AccOK cfg0 base s) :
    AccOK cfg0 base (fds.foldl (fun s fd => (go (.closeConn fd .ok) s).1) s) := by
  induction fds generalizing s with
  | nil => exact h
  | cons fd rest ih => exact ih _ (hgo _ _ h)

theorem sqFlush_AccOK (fd : Nat) (s : St) (h : AccOK cfg0 base s) : AccOK cfg0 base (sqFlush go fd s).2 := by
  unfold sqFlush; chan_peel hgo [AccOK]

theorem sqLink_AccOK (pd : Bool) (key : Nat) (srv : Server) (fd : Nat) (s : St) (h : AccOK cfg0 base s) :
    AccOK cfg0 base (sqLink go pd key srv fd s).1 := by
  unfold sqLink; chan_peel hgo [AccOK]

theorem sqWriteQ_AccOK (reqSrv : Option Nat) (key : Nat) (q : Query) (srv : Server) (fd : Nat) (s : St)
    (h : AccOK cfg0 base s) : AccOK cfg0 base (sqWriteQ go reqSrv key q srv fd s).1 := by
  have h1 : AccOK cfg0 base (sqPrepare key q srv fd s).1 := by simpa only [AccOK, chan_frame] using h
  have h2 := sqFlush_AccOK cfg0 base go hgo fd _ h1
  unfold sqWriteQ
  simp only []
  split
  · exact sqLink_AccOK cfg0 base go hgo _ _ _ _ _ h2
  · exact hgo _ _ h2
  all_goals chan_peel hgo [AccOK]

theorem bodySendQuery_AccOK (reqSrv : Option Nat) (key : Nat) (s : St) (h : AccOK cfg0 base s) :
    AccOK cfg0 base (bodySendQuery go reqSrv key s).1 := by
  rw [bodySendQuery_stages]
  split
  · simpa only [AccOK, chan_frame] using h
  · simp only []
    split
    · exact hgo _ _ (by simpa only [AccOK, chan_frame] using h)
    · split <;> pair_subst
      · apply hgo; split at * <;> simp_all only [AccOK, chan_frame]
      · apply sqWriteQ_AccOK cfg0 base go hgo; split at * <;> simp_all only [AccOK, chan_frame]

theorem execBody_AccOK (c : Call) (s : St) (h : AccOK cfg0 base s) : AccOK cfg0 base (execBody go c s).1 := by
  cases c <;> simp only [execBody]
  case processAnswer fd r => exact bodyProcessAnswer_AccOK cfg0 base go hgo fd r s h
  case sendQuery r k => exact bodySendQuery_AccOK cfg0 base go hgo r k s h
  case destroy =>
    unfold bodyDestroy
    simp only []
    exact foldl_closeConn_AccOK cfg0 base go hgo _ _ (hgo _ _ h)
  all_goals (unfold_body; chan_peel hgo [AccOK])

end

/-- **Append-only, authentic `accepted` log (whole runs).**  Running any procedure with any fuel extends `accepted`,
    and every new entry `(fd, key, r)` was `Authentic` in a state with the same configuration — the state in which
    `process_answer` examined it (`bodyProcessAnswer_accepted`, `acceptKey_authentic`). -/
theorem exec_AccOK (fuel : Nat) (c : Call) (s : St) : AccOK s.cfg s.accepted (exec fuel c s).1 := by
  refine exec_inv (AccOK s.cfg s.accepted) ?_ ?_ fuel c s ⟨rfl, List.prefix_refl _, by simp⟩
  · intro s' h; exact h
  · intro go hgo c s' h; exact execBody_AccOK s.cfg s.accepted go hgo c s' h

/-! ## direct lemmas about `process_answer` / `read_conn_packets` (C05, C20) -/

/-- a zero-length datagram is consumed without any effect -/
theorem bodyProcessAnswer_empty (go : Call → St → St × Ret) (fd : Nat) (r : Reply) (s : St) (c : Conn)
    (hc : s.conn? fd = some c) (he : r.empty = true) : bodyProcessAnswer go fd r s = (s, .ok) := by
  unfold bodyProcessAnswer; simp only [hc, he, ↓reduceIte]

/-- garbage is not accepted either (it fails the connection: `ARES_EBADRESP`) and the state is untouched -/
theorem bodyProcessAnswer_garbage (go : Call → St → St × Ret) (fd : Nat) (r : Reply) (s : St) (c : Conn)
    (hc : s.conn? fd = some c) (he : r.empty = false) (hg : r.garbage = true) :
    bodyProcessAnswer go fd r s = (s, .badresp) := by
  unfold bodyProcessAnswer; simp only [hc, he, hg, Bool.false_eq_true, ↓reduceIte]

/-- a response whose id belongs to no query changes nothing -/
theorem bodyProcessAnswer_unknown_id (go : Call → St → St × Ret) (fd : Nat) (r : Reply) (s : St) (c : Conn)
    (hc : s.conn? fd = some c) (hid : s.byQid.find? (·.1 == r.id) = none) :
    (bodyProcessAnswer go fd r s).1 = s := by
  rw [bodyProcessAnswer_stages]; simp only [hc, hid]
  repeat (first | rfl | split)

/-- a response arriving on a connection other than the one its query is assigned to changes nothing
    (the check added by the repair of F9) -/
theorem bodyProcessAnswer_other_conn (go : Call → St → St × Ret) (fd : Nat) (r : Reply) (s : St) (c : Conn)
    (id key : Nat) (q : Query) (hc : s.conn? fd = some c) (hid : s.byQid.find? (·.1 == r.id) = some (id, key))
    (hq : s.query? key = some q) (hconn : q.conn ≠ some fd) :
    (bodyProcessAnswer go fd r s).1 = s := by
  rw [bodyProcessAnswer_stages]; simp only [hc, hid, hq]
  have : (q.conn != some fd) = true := by simpa using hconn
  simp only [this, ↓reduceIte]
  repeat (first | rfl | split)

/-- a response with a different question (type, class, name under the case rule) changes nothing -/
theorem bodyProcessAnswer_wrong_question (go : Call → St → St × Ret) (fd : Nat) (r : Reply) (s : St) (c : Conn)
    (id key : Nat) (q : Query) (hc : s.conn? fd = some c) (hid : s.byQid.find? (·.1 == r.id) = some (id, key))
    (hq : s.query? key = some q) (hs : sameQuestion s.cfg q r = false) :
    (bodyProcessAnswer go fd r s).1 = s := by
  rw [bodyProcessAnswer_stages]; simp only [hc, hid, hq, hs, Bool.not_false, ↓reduceIte]
  repeat (first | rfl | split)

theorem find?_map_qkey (k : Nat) (f : Query → Query) (hf : ∀ q, (f q).key = q.key) : ∀ (l : List Query),
    (l.map fun x => if x.key == k then f x else x).find? (·.key == k) = (l.find? (·.key == k)).map f
  | [] => rfl
  | x :: rest => by
    simp only [List.map_cons, List.find?_cons]
    by_cases hx : (x.key == k) = true
    · have : ((f x).key == k) = true := by rw [hf]; exact hx
      simp only [hx, ↓reduceIte, this, Option.map_some]
    · simp only [Bool.not_eq_true] at hx
      simp only [hx, Bool.false_eq_true, ↓reduceIte]
      exact find?_map_qkey k f hf rest

theorem query?_modQuery_same (s : St) (k : Nat) (f : Query → Query) (hf : ∀ q, (f q).key = q.key) :
    (s.modQuery k f).query? k = (s.query? k).map f := find?_map_qkey k f hf s.qs

theorem mem_qs_modQuery {s : St} {k : Nat} {f : Query → Query} {q' : Query} (h : q' ∈ (s.modQuery k f).qs) :
    ∃ q ∈ s.qs, q' = if q.key == k then f q else q := by
  simp only [St.modQuery, List.mem_map] at h
  obtain ⟨q, hq, rfl⟩ := h
  exact ⟨q, hq, rfl⟩

/-- **A truncated UDP answer is retried over TCP unless truncation is ignored.**  If `process_answer` accepts a
    response with TC set that arrived on a UDP connection, `ARES_FLAG_IGNTC` is off, and the response is not a
    FORMERR (which takes the EDNS-downgrade path first): nothing is delivered (no callback runs, no recursive call
    is made at all) — the query is switched to TCP and its id queued for re-sending (`read_answers` re-sends the
    queued ids through `ares_send_query` when its loop ends: `bodyFlushRequeue`). -/
theorem bodyProcessAnswer_tc (go : Call → St → St × Ret) (fd : Nat) (r : Reply) (s : St) (c : Conn) (key : Nat)
    (hc : s.conn? fd = some c) (hk : acceptKey s fd r = some key) (htc : r.tc = true) (hudp : c.tcp = false)
    (hign : s.cfg.igntc = false) (hrc : r.rcode ≠ 1) :
    ∃ s' q, bodyProcessAnswer go fd r s = (s', .ok) ∧ s.query? key = some q ∧
      s'.requeueArr = s.requeueArr ++ [(q.qid, none)] ∧
      s'.accepted = s.accepted ++ [(fd, key, r)] ∧
      (∀ q' ∈ s'.qs, q'.key = key → q'.usingTcp = true) ∧
      s'.doneToks = s.doneToks ∧ s'.cache = s.cache := by
  obtain ⟨c', q, hc', hq, _, heq⟩ := bodyProcessAnswer_accept go hk
  rw [hc] at hc'; cases hc'
  have hrc' : (r.rcode == 1) = false := by simpa using hrc
  rw [heq]
  unfold paDeliver
  simp only [hrc', Bool.false_and, Bool.false_eq_true, ↓reduceIte, htc, hudp, chan_frame, paPre_cfg, hign,
    Bool.not_false, Bool.and_self]
  refine ⟨_, q, rfl, hq, ?_, by simp only [chan_frame, paPre_accepted], ?_, by simp only [chan_frame]; rfl,
    by simp only [chan_frame, paPre_cache]⟩
  · simp only [chan_frame]
    have : (paPre s c key q r).query? key = (s.query? key).map _ := query?_modQuery_same _ _ _ (fun _ => rfl)
    rw [this, hq]
    rfl
  · intro q' hq' hkey
    obtain ⟨x, _, rfl⟩ := mem_qs_modQuery hq'
    by_cases hx : (x.key == key) = true
    · simp only [hx, ↓reduceIte]
    · simp only [hx, Bool.false_eq_true, ↓reduceIte] at hkey
      simp only [hkey, beq_self_eq_true, not_true_eq_false] at hx

/-- … and with `ARES_FLAG_IGNTC` the truncated answer is used as it is: a NOERROR response goes to `end_query` -/
theorem bodyProcessAnswer_igntc (go : Call → St → St × Ret) (fd : Nat) (r : Reply) (s : St) (c : Conn) (key : Nat)
    (hc : s.conn? fd = some c) (hk : acceptKey s fd r = some key) (hign : s.cfg.igntc = true) (hrc : r.rcode = 0) :
    ∃ s', bodyProcessAnswer go fd r s = ((go (.endQuery (some c.srv) key .ok (some r)) s').1, .ok) ∧
      s'.accepted = s.accepted ++ [(fd, key, r)] := by
  obtain ⟨c', q, hc', hq, _, heq⟩ := bodyProcessAnswer_accept go hk
  rw [hc] at hc'; cases hc'
  rw [heq]
  unfold paDeliver
  simp only [hrc, hign, Bool.not_true, Bool.and_false, Bool.false_and, chan_frame, paPre_cfg, Nat.reduceBEq,
    Bool.or_self, Bool.false_eq_true, ↓reduceIte]
  exact ⟨_, rfl, by simp only [chan_frame, paPre_accepted]⟩

/-- **A datagram from the wrong source address never reaches `process_answer`**: `read_conn_packets` takes it off
    the socket and goes on to `read_answers` with the connection's in_buf — and everything else — as it was. -/
theorem bodyProcessRead_wrong_source (go : Call → St → St × Ret) (fd : Nat) (s : St) (c : Conn) (v : VSock)
    (r : Reply) (rest : List Reply) (hc : s.conn? fd = some c) (hv : s.sock? fd = some v)
    (hul : c.unlinked = false) (hudp : c.tcp = false) (hf : (s.fault "recvfrom").1 = none)
    (hrx : v.rx = r :: rest) (hw : r.wrongsrc = true) :
    ∃ s', bodyProcessRead go fd s = go (.readAnswers fd) s' ∧
      s'.conns = s.conns ∧ s'.accepted = s.accepted ∧ s'.qs = s.qs ∧ s'.cache = s.cache ∧
      s'.servers = s.servers ∧ s'.requeueArr = s.requeueArr ∧
      s'.socks = s.socks.map (fun x => if x.fd == fd then { x with rx := rest } else x) := by
  unfold bodyProcessRead
  simp only [hc, hv, hul, hudp, Bool.false_eq_true, ↓reduceIte, Bool.not_false]
  split <;> pair_subst
  · rename_i e hfe
    rw [hf] at hfe
    cases hfe
  simp only [hrx, hw, ↓reduceIte]
  refine ⟨_, rfl, by simp only [chan_frame], by simp only [chan_frame], by simp only [chan_frame],
    by simp only [chan_frame], by simp only [chan_frame], by simp only [chan_frame], ?_⟩
  simp only [St.modSock, St.slog, St.fault]

end Cares.Chan
