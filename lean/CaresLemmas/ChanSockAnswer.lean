import CaresLemmas.ChanSockBase
/-!
# `process_answer`'s acceptance path (C05)
-/
namespace Cares.Chan
open Cares.Proto

/-- same_questions(): type, class, and the name — compared exactly when 0x20 is on and the query went over UDP,
    case-insensitively otherwise -/
def sameQuestion (cfg : Cfg) (q : Query) (r : Reply) : Bool :=
  q.qtype == r.qtype && q.qclass == r.qclass &&
    (if cfg.dns0x20 && !q.usingTcp then q.name == r.name else hexLower q.name == hexLower r.name)

/-- the call of `ares_cookie_validate` made by `process_answer` for query `q` and response `r` arriving on `c` -/
def cookieCheck (s : St) (c : Conn) (q : Query) (r : Reply) : Cookie.ValidateOut :=
  Cookie.validate ((s.server? c.srv).getD default).cookie { cookieTry := q.cookieTry, usingTcp := q.usingTcp }
    (if q.edns then q.reqCookie else none) (if r.hasOpt then r.cookie.map hexToBytes else none) r.rcode s.tv

/-- `ares_cookie_validate` asks for a re-send (BADCOOKIE) only together with "drop this response" -/
theorem validateWith_requeue_drop (isSet : Cookie.TimeVal → Bool) (c : Cookie.CookieSt) (q : Cookie.QState)
    (rq rs : Option Cookie.Bytes) (rc : Nat) (now : Cookie.TimeVal)
    (h : (Cookie.validateWith isSet c q rq rs rc now).requeue = true) :
    (Cookie.validateWith isSet c q rq rs rc now).verdict = .drop := by
  unfold Cookie.validateWith at h ⊢
  simp only [] at h ⊢
  revert h
  repeat' split
  all_goals simp

theorem cookieCheck_requeue_drop (s : St) (c : Conn) (q : Query) (r : Reply)
    (h : (cookieCheck s c q r).requeue = true) : (cookieCheck s c q r).verdict = .drop :=
  validateWith_requeue_drop _ _ _ _ _ _ _ h

/-- the decision of `process_answer`: the key of the query that response `r`, arriving on `fd`, answers -/
def acceptKey (s : St) (fd : Nat) (r : Reply) : Option Nat :=
  match s.conn? fd with
  | none => none
  | some c =>
    if r.empty then none else
    if r.garbage then none else
    match s.byQid.find? (·.1 == r.id) with
    | none => none
    | some (_, key) =>
      match s.query? key with
      | none => none
      | some q =>
        if !sameQuestion s.cfg q r then none else
        if (cookieCheck s c q r).verdict == .drop then none else some key

/-- everything `process_answer` has checked, in the state in which it examined the response, before it records
    `(fd, key, r)` as accepted -/
structure Authentic (s : St) (fd key : Nat) (r : Reply) : Prop where
  notEmpty : r.empty = false
  notGarbage : r.garbage = false
  /-- it arrived on a live connection of this channel -/
  conn : ∃ c, s.conn? fd = some c
  /-- the qid table maps the response's id to `key` … -/
  qid : (r.id, key) ∈ s.byQid ∧ (s.byQid.find? (·.1 == r.id)).map (·.2) = some key
  /-- … which is a live query -/
  live : ∃ q, s.query? key = some q
  qtype : ∀ q, s.query? key = some q → q.qtype = r.qtype
  qclass : ∀ q, s.query? key = some q → q.qclass = r.qclass
  /-- the name matches exactly when 0x20 is on and the query went over UDP -/
  nameExact : ∀ q, s.query? key = some q → s.cfg.dns0x20 = true → q.usingTcp = false → q.name = r.name
  /-- … and up to ASCII case otherwise -/
  nameCi : ∀ q, s.query? key = some q → hexLower q.name = hexLower r.name
  /-- the DNS-cookie checks accept it -/
  cookie : ∀ c q, s.conn? fd = some c → s.query? key = some q → (cookieCheck s c q r).verdict = .accept

theorem acceptKey_authentic {s : St} {fd key : Nat} {r : Reply} (h : acceptKey s fd r = some key) :
    Authentic s fd key r := by
  unfold acceptKey at h
  split at h
  · cases h
  · rename_i c hc
    split at h
    · cases h
    · rename_i hempty
      split at h
      · cases h
      · rename_i hgarb
        split at h
        · cases h
        · rename_i id key' hfind
          split at h
          · cases h
          · rename_i q hq
            split at h
            · cases h
            · rename_i hsame
              split at h
              · cases h
              · rename_i hdrop
                cases h
                have hmem := List.find?_some hfind
                have hin := List.mem_of_find?_eq_some hfind
                simp only [beq_iff_eq] at hmem
                subst hmem
                have hs : sameQuestion s.cfg q r = true := by
                  cases h' : sameQuestion s.cfg q r with
                  | true => rfl
                  | false => simp [h'] at hsame
                simp only [sameQuestion, Bool.and_eq_true, beq_iff_eq] at hs
                obtain ⟨⟨hqt, hqc⟩, hname⟩ := hs
                refine ⟨by simpa using hempty, by simpa using hgarb, ⟨c, hc⟩, ⟨hin, by rw [hfind]; rfl⟩, ⟨q, hq⟩,
                  ?_, ?_, ?_, ?_, ?_⟩
                · intro q' hq'; rw [hq] at hq'; cases hq'; exact hqt
                · intro q' hq'; rw [hq] at hq'; cases hq'; exact hqc
                · intro q' hq' h0 hu; rw [hq] at hq'; cases hq'
                  simpa [h0, hu] using hname
                · intro q' hq'; rw [hq] at hq'; cases hq'
                  split at hname
                  · simp only [beq_iff_eq] at hname; rw [hname]
                  · simpa using hname
                · intro c' q' hc' hq'
                  rw [hc] at hc'; rw [hq] at hq'; cases hc'; cases hq'
                  cases hv : (cookieCheck s c q r).verdict with
                  | accept => rfl
                  | drop => rw [hv] at hdrop; simp at hdrop

/-- conversely: a response that satisfies all the checks is accepted (the checks are exactly these) -/
theorem acceptKey_of_authentic {s : St} {fd key : Nat} {r : Reply} (h : Authentic s fd key r) :
    acceptKey s fd r = some key := by
  obtain ⟨c, hc⟩ := h.conn
  obtain ⟨q, hq⟩ := h.live
  unfold acceptKey
  simp only [hc, h.notEmpty, h.notGarbage, Bool.false_eq_true, ↓reduceIte]
  have hf := h.qid.2
  cases hfind : s.byQid.find? (·.1 == r.id) with
  | none => rw [hfind] at hf; cases hf
  | some p =>
    obtain ⟨id, k⟩ := p
    rw [hfind] at hf
    simp only [Option.map_some, Option.some.injEq] at hf
    subst hf
    simp only [hq]
    have hs : sameQuestion s.cfg q r = true := by
      simp only [sameQuestion, Bool.and_eq_true, beq_iff_eq]
      refine ⟨⟨h.qtype q hq, h.qclass q hq⟩, ?_⟩
      split
      · rename_i hc0
        simp only [Bool.and_eq_true, Bool.not_eq_true'] at hc0
        simpa using h.nameExact q hq hc0.1 hc0.2
      · simpa using h.nameCi q hq
    simp only [hs, Bool.not_true, Bool.false_eq_true, ↓reduceIte, h.cookie c q hc hq]
    rfl

section
variable (go : Call → St → St × Ret)

/-- frame form: `h` says the recursive calls leave `accepted` alone -/
syntax "acc_simp " ident : tactic
macro_rules
  | `(tactic| acc_simp $h) =>
    `(tactic| repeat (first
        | with_reducible rfl
        | (simp only [chan_frame, $h:ident])
        | (csplit <;> pair_subst)))

/-- **`process_answer` appends to `accepted` exactly the response it was given, exactly when `acceptKey` says so**
    (stated for recursive calls that leave `accepted` alone, i.e. for what `process_answer` itself does) -/
theorem bodyProcessAnswer_accepted (hgo : ∀ c s, (go c s).1.accepted = s.accepted) (fd : Nat) (r : Reply) (s : St) :
    (bodyProcessAnswer go fd r s).1.accepted =
      s.accepted ++ ((acceptKey s fd r).map fun k => (fd, k, r)).toList := by
  unfold bodyProcessAnswer acceptKey
  cases hc : s.conn? fd with
  | none => simp [St.mfault_accepted]
  | some c =>
    simp only
    by_cases hempty : r.empty = true
    · simp [hempty]
    · simp only [hempty, Bool.false_eq_true, ↓reduceIte]
      by_cases hgarb : r.garbage = true
      · simp [hgarb]
      · simp only [hgarb, Bool.false_eq_true, ↓reduceIte]
        cases hfind : s.byQid.find? (·.1 == r.id) with
        | none => simp
        | some p =>
          obtain ⟨id, key⟩ := p
          simp only
          cases hq : s.query? key with
          | none => simp [St.mfault_accepted]
          | some q =>
            simp only
            have hsame : (q.qtype == r.qtype && q.qclass == r.qclass &&
                if (s.cfg.dns0x20 && !q.usingTcp) = true then q.name == r.name
                else hexLower q.name == hexLower r.name) = sameQuestion s.cfg q r := rfl
            rw [hsame]
            by_cases hs : sameQuestion s.cfg q r = true
            · simp only [hs, Bool.not_true, Bool.false_eq_true, ↓reduceIte]
              have hv : Cookie.validate ((s.server? c.srv).getD default).cookie
                  { cookieTry := q.cookieTry, usingTcp := q.usingTcp } (if q.edns = true then q.reqCookie else none)
                  (if r.hasOpt = true then Option.map hexToBytes r.cookie else none) r.rcode s.tv =
                  cookieCheck s c q r := rfl
              rw [hv]
              by_cases hd : ((cookieCheck s c q r).verdict == Cookie.Verdict.drop) = true
              · simp only [hd, ↓reduceIte, Option.map_none, Option.toList_none, List.append_nil]
                acc_simp hgo
              · simp only [hd, Bool.false_eq_true, ↓reduceIte, Option.map_some, Option.toList_some]
                acc_simp hgo
            · simp [hs]

end
/-! ## the `accepted` log over whole runs -/

/-- `accepted` extends `base`, the configuration is `cfg0`, and every entry beyond `base` was authentic in some
    state with configuration `cfg0` (namely the one in which `process_answer` examined it) -/
def AccOKF (cfg0 : Cfg) (base : List (Nat × Nat × Reply)) (cfg : Cfg) (acc : List (Nat × Nat × Reply)) : Prop :=
  cfg = cfg0 ∧ base <+: acc ∧
    ∀ e ∈ acc.drop base.length, ∃ s0 : St, s0.cfg = cfg0 ∧ Authentic s0 e.1 e.2.1 e.2.2

abbrev AccOK (cfg0 : Cfg) (base : List (Nat × Nat × Reply)) (s : St) : Prop := AccOKF cfg0 base s.cfg s.accepted

theorem AccOKF_append {cfg0 cfg : Cfg} {base acc : List (Nat × Nat × Reply)} (h : AccOKF cfg0 base cfg acc)
    (e : Nat × Nat × Reply) (s0 : St) (hc : s0.cfg = cfg0) (ha : Authentic s0 e.1 e.2.1 e.2.2) :
    AccOKF cfg0 base cfg (acc ++ [e]) := by
  obtain ⟨h1, h2, h3⟩ := h
  refine ⟨h1, h2.trans (List.prefix_append _ _), ?_⟩
  intro x hx
  have hlen : base.length ≤ acc.length := h2.length_le
  rw [List.drop_append_of_le_length hlen, List.mem_append] at hx
  cases hx with
  | inl hx => exact h3 x hx
  | inr hx => simp only [List.mem_singleton] at hx; subst hx; exact ⟨s0, hc, ha⟩

section
variable (cfg0 : Cfg) (base : List (Nat × Nat × Reply)) (go : Call → St → St × Ret)
  (hgo : ∀ c s, AccOK cfg0 base s → AccOK cfg0 base (go c s).1)
include hgo

theorem bodyProcessAnswer_AccOK (fd : Nat) (r : Reply) (s : St) (h : AccOK cfg0 base s) :
    AccOK cfg0 base (bodyProcessAnswer go fd r s).1 := by
  have hkey : ∀ key, acceptKey s fd r = some key → AccOKF cfg0 base s.cfg (s.accepted ++ [(fd, key, r)]) :=
    fun key hk => AccOKF_append h (fd, key, r) s h.1 (acceptKey_authentic hk)
  unfold acceptKey at hkey
  unfold bodyProcessAnswer
  cases hc : s.conn? fd with
  | none => simpa [AccOK, St.mfault_accepted, St.mfault_cfg] using h
  | some c =>
    simp only [hc] at hkey ⊢
    by_cases hempty : r.empty = true
    · simpa [hempty] using h
    · simp only [hempty, Bool.false_eq_true, ↓reduceIte] at hkey ⊢
      by_cases hgarb : r.garbage = true
      · simpa [hgarb] using h
      · simp only [hgarb, Bool.false_eq_true, ↓reduceIte] at hkey ⊢
        cases hfind : s.byQid.find? (·.1 == r.id) with
        | none => simpa using h
        | some p =>
          obtain ⟨id, key⟩ := p
          simp only [hfind] at hkey ⊢
          cases hq : s.query? key with
          | none => simpa [AccOK, St.mfault_accepted, St.mfault_cfg] using h
          | some q =>
            simp only [hq] at hkey ⊢
            have hsame : (q.qtype == r.qtype && q.qclass == r.qclass &&
                if (s.cfg.dns0x20 && !q.usingTcp) = true then q.name == r.name
                else hexLower q.name == hexLower r.name) = sameQuestion s.cfg q r := rfl
            rw [hsame]
            by_cases hs : sameQuestion s.cfg q r = true
            · simp only [hs, Bool.not_true, Bool.false_eq_true, ↓reduceIte] at hkey ⊢
              have hv : Cookie.validate ((s.server? c.srv).getD default).cookie
                  { cookieTry := q.cookieTry, usingTcp := q.usingTcp } (if q.edns = true then q.reqCookie else none)
                  (if r.hasOpt = true then Option.map hexToBytes r.cookie else none) r.rcode s.tv =
                  cookieCheck s c q r := rfl
              rw [hv]
              by_cases hd : ((cookieCheck s c q r).verdict == Cookie.Verdict.drop) = true
              · simp only [hd, ↓reduceIte]
                chan_peel hgo [AccOK]
              · simp only [hd, Bool.false_eq_true, ↓reduceIte] at hkey ⊢
                have hk := hkey key rfl
                -- the entry is appended in a state whose `cfg` is still `s.cfg` and whose `accepted` is what the
                -- (possible) requeue call left; on this path no requeue call is made before the append when the
                -- verdict is `accept`, but the model text allows one, so we go through `hgo`
                by_cases hrq : (cookieCheck s c q r).requeue = true
                · -- `validate` never asks for a requeue together with `accept`
                  exfalso
                  have := cookieCheck_requeue_drop s c q r hrq
                  rw [this] at hd; simp at hd
                · simp only [hrq, Bool.false_eq_true, ↓reduceIte]
                  chan_peel hgo [AccOK]
            · simpa [hs] using h

end

/-- unfold whichever body `execBody` dispatched to -/
macro "unfold_body" : tactic => `(tactic| first
  | unfold bodySendNolock | unfold bodyProbe | unfold bodyFlush
  | unfold bodyRequeue | unfold bodyEndQuery | unfold bodyCallback | unfold bodyUserCb | unfold bodyReactions
  | unfold bodyConnError | unfold bodyCloseConn | unfold bodyCloseLoop | unfold bodyProcessWrite
  | unfold bodyProcessRead | unfold bodyReadAnswers | unfold bodyFlushRequeue | unfold bodyProcessTimeouts
  | unfold bodyCleanupConns | unfold bodyClientStart | unfold bodyRunActs | unfold bodyCancel
  | unfold bodyCancelLoop | unfold bodyDestroy)

section
variable (cfg0 : Cfg) (base : List (Nat × Nat × Reply)) (go : Call → St → St × Ret)
  (hgo : ∀ c s, AccOK cfg0 base s → AccOK cfg0 base (go c s).1)
include hgo

theorem foldl_closeConn_AccOK (fds : List Nat) (s : St) (h : AccOK cfg0 base s) :
    AccOK cfg0 base (fds.foldl (fun s fd => (go (.closeConn fd .ok) s).1) s) := by
  induction fds generalizing s with
  | nil => exact h
  | cons fd rest ih => exact ih _ (hgo _ _ h)

theorem sqFlush_AccOK (fd : Nat) (s : St) (h : AccOK cfg0 base s) : AccOK cfg0 base (sqFlush go fd s).2 := by
  unfold sqFlush; chan_peel hgo [AccOK]

theorem sqLink_AccOK (pd : Bool) (key : Nat) (srv : Server) (fd : Nat) (s : St) (h : AccOK cfg0 base s) :
    AccOK cfg0 base (sqLink go pd key srv fd s).1 := by
  unfold sqLink; chan_peel hgo [AccOK]

theorem sqWrite_AccOK (reqSrv : Option Nat) (key : Nat) (q : Query) (srv : Server) (fd : Nat) (s : St)
    (h : AccOK cfg0 base s) : AccOK cfg0 base (sqWrite go reqSrv key q srv fd s).1 := by
  have h1 : AccOK cfg0 base (sqPrep key q srv fd s).1 := by simpa only [AccOK, chan_frame] using h
  have h2 := sqFlush_AccOK cfg0 base go hgo fd _ h1
  unfold sqWrite
  simp only []
  split
  · exact sqLink_AccOK cfg0 base go hgo _ _ _ _ _ h2
  · exact hgo _ _ h2
  all_goals chan_peel hgo [AccOK]

theorem bodySendQuery_AccOK (reqSrv : Option Nat) (key : Nat) (s : St) (h : AccOK cfg0 base s) :
    AccOK cfg0 base (bodySendQuery go reqSrv key s).1 := by
  rw [bodySendQuery_eq]
  split
  · simpa only [AccOK, chan_frame] using h
  · simp only []
    split
    · exact hgo _ _ (by simpa only [AccOK, chan_frame] using h)
    · split <;> pair_subst
      · apply hgo; split at * <;> simp_all only [AccOK, chan_frame]
      · apply sqWrite_AccOK cfg0 base go hgo; split at * <;> simp_all only [AccOK, chan_frame]

theorem execBody_AccOK (c : Call) (s : St) (h : AccOK cfg0 base s) : AccOK cfg0 base (execBody go c s).1 := by
  cases c <;> simp only [execBody]
  case processAnswer fd r => exact bodyProcessAnswer_AccOK cfg0 base go hgo fd r s h
  case sendQuery r k => exact bodySendQuery_AccOK cfg0 base go hgo r k s h
  case destroy =>
    unfold bodyDestroy
    simp only []
    exact foldl_closeConn_AccOK cfg0 base go hgo _ _ (hgo _ _ h)
  all_goals (unfold_body; chan_peel hgo [AccOK])

end

/-- **Append-only, authentic `accepted` log (whole runs).**  Running any procedure with any fuel extends `accepted`,
    and every new entry `(fd, key, r)` was `Authentic` in a state with the same configuration — the state in which
    `process_answer` examined it (`bodyProcessAnswer_accepted`, `acceptKey_authentic`). -/
theorem exec_AccOK (fuel : Nat) (c : Call) (s : St) : AccOK s.cfg s.accepted (exec fuel c s).1 := by
  refine exec_inv (AccOK s.cfg s.accepted) ?_ ?_ fuel c s ⟨rfl, List.prefix_refl _, by simp⟩
  · intro s' h; exact h
  · intro go hgo c s' h; exact execBody_AccOK s.cfg s.accepted go hgo c s' h

/-! ## direct lemmas about `process_answer` / `read_conn_packets` (C05, C20) -/

/-- a zero-length datagram is consumed without any effect -/
theorem bodyProcessAnswer_empty (go : Call → St → St × Ret) (fd : Nat) (r : Reply) (s : St) (c : Conn)
    (hc : s.conn? fd = some c) (he : r.empty = true) : bodyProcessAnswer go fd r s = (s, .ok) := by
  unfold bodyProcessAnswer; simp only [hc, he, ↓reduceIte]

/-- garbage is not accepted either (it fails the connection: `ARES_EBADRESP`) and the state is untouched -/
theorem bodyProcessAnswer_garbage (go : Call → St → St × Ret) (fd : Nat) (r : Reply) (s : St) (c : Conn)
    (hc : s.conn? fd = some c) (he : r.empty = false) (hg : r.garbage = true) :
    bodyProcessAnswer go fd r s = (s, .badresp) := by
  unfold bodyProcessAnswer; simp only [hc, he, hg, Bool.false_eq_true, ↓reduceIte]

/-- a response that is not accepted changes nothing except what `ares_cookie_validate` itself does (cookie state of
    the server, BADCOOKIE re-send): in particular when no query has its id, or the question differs, the state is
    untouched -/
theorem bodyProcessAnswer_unknown_id (go : Call → St → St × Ret) (fd : Nat) (r : Reply) (s : St) (c : Conn)
    (hc : s.conn? fd = some c) (hid : s.byQid.find? (·.1 == r.id) = none) :
    (bodyProcessAnswer go fd r s).1 = s := by
  unfold bodyProcessAnswer; simp only [hc, hid]
  repeat (first | rfl | split)

theorem bodyProcessAnswer_wrong_question (go : Call → St → St × Ret) (fd : Nat) (r : Reply) (s : St) (c : Conn)
    (id key : Nat) (q : Query) (hc : s.conn? fd = some c) (hid : s.byQid.find? (·.1 == r.id) = some (id, key))
    (hq : s.query? key = some q) (hs : sameQuestion s.cfg q r = false) :
    (bodyProcessAnswer go fd r s).1 = s := by
  unfold bodyProcessAnswer; simp only [hc, hid, hq]
  have hsame : (q.qtype == r.qtype && q.qclass == r.qclass &&
      if (s.cfg.dns0x20 && !q.usingTcp) = true then q.name == r.name
      else hexLower q.name == hexLower r.name) = sameQuestion s.cfg q r := rfl
  rw [hsame, hs]
  simp only [Bool.not_false, ↓reduceIte]
  repeat (first | rfl | split)

theorem find?_map_key (k : Nat) (f : Query → Query) (hf : ∀ q, (f q).key = q.key) : ∀ (l : List Query),
    (l.map fun x => if x.key == k then f x else x).find? (·.key == k) = (l.find? (·.key == k)).map f
  | [] => rfl
  | x :: rest => by
    simp only [List.map_cons, List.find?_cons]
    by_cases hx : (x.key == k) = true
    · have : ((f x).key == k) = true := by rw [hf]; exact hx
      simp only [hx, ↓reduceIte, this, Option.map_some]
    · simp only [Bool.not_eq_true] at hx
      simp only [hx, Bool.false_eq_true, ↓reduceIte]
      exact find?_map_key k f hf rest

theorem query?_modQuery_self (s : St) (k : Nat) (f : Query → Query) (hf : ∀ q, (f q).key = q.key) :
    (s.modQuery k f).query? k = (s.query? k).map f := find?_map_key k f hf s.qs

theorem mem_qs_modQuery {s : St} {k : Nat} {f : Query → Query} {q' : Query} (h : q' ∈ (s.modQuery k f).qs) :
    ∃ q ∈ s.qs, q' = if q.key == k then f q else q := by
  simp only [St.modQuery, List.mem_map] at h
  obtain ⟨q, hq, rfl⟩ := h
  exact ⟨q, hq, rfl⟩

/-- **A truncated UDP answer is retried over TCP unless truncation is ignored.**  If `process_answer` accepts a
    response with TC set that arrived on a UDP connection, `ARES_FLAG_IGNTC` is off, and the response is not a
    FORMERR (which takes the EDNS-downgrade path first): nothing is delivered (no callback runs, no recursive call
    is made at all) — the query is switched to TCP and its id queued for re-sending (`read_answers` re-sends the
    queued ids through `ares_send_query` when its loop ends: `bodyFlushRequeue`). -/
theorem bodyProcessAnswer_tc (go : Call → St → St × Ret) (fd : Nat) (r : Reply) (s : St) (c : Conn) (key : Nat)
    (hc : s.conn? fd = some c) (hk : acceptKey s fd r = some key) (htc : r.tc = true) (hudp : c.tcp = false)
    (hign : s.cfg.igntc = false) (hrc : r.rcode ≠ 1) :
    ∃ s' q, bodyProcessAnswer go fd r s = (s', .ok) ∧ s.query? key = some q ∧
      s'.requeueArr = s.requeueArr ++ [(q.qid, none)] ∧
      s'.accepted = s.accepted ++ [(fd, key, r)] ∧
      (∀ q' ∈ s'.qs, q'.key = key → q'.usingTcp = true) ∧
      s'.doneToks = s.doneToks ∧ s'.cache = s.cache := by
  have hauth := acceptKey_authentic hk
  unfold acceptKey at hk
  unfold bodyProcessAnswer
  simp only [hc, hauth.notEmpty, hauth.notGarbage, Bool.false_eq_true, ↓reduceIte] at hk ⊢
  cases hfind : s.byQid.find? (·.1 == r.id) with
  | none => simp [hfind] at hk
  | some p =>
    obtain ⟨id, key'⟩ := p
    simp only [hfind] at hk ⊢
    cases hq : s.query? key' with
    | none => simp [hq] at hk
    | some q =>
      simp only [hq] at hk ⊢
      have hsame : (q.qtype == r.qtype && q.qclass == r.qclass &&
          if (s.cfg.dns0x20 && !q.usingTcp) = true then q.name == r.name
          else hexLower q.name == hexLower r.name) = sameQuestion s.cfg q r := rfl
      rw [hsame]
      have hv : Cookie.validate ((s.server? c.srv).getD default).cookie
          { cookieTry := q.cookieTry, usingTcp := q.usingTcp } (if q.edns = true then q.reqCookie else none)
          (if r.hasOpt = true then Option.map hexToBytes r.cookie else none) r.rcode s.tv =
          cookieCheck s c q r := rfl
      rw [hv]
      by_cases hs : sameQuestion s.cfg q r = true
      · simp only [hs, Bool.not_true, Bool.false_eq_true, ↓reduceIte] at hk ⊢
        by_cases hd : ((cookieCheck s c q r).verdict == Cookie.Verdict.drop) = true
        · simp [hd] at hk
        · simp only [hd, Bool.false_eq_true, ↓reduceIte, Option.some.injEq] at hk ⊢
          subst hk
          have hrq : (cookieCheck s c q r).requeue = false := by
            cases h : (cookieCheck s c q r).requeue with
            | false => rfl
            | true => rw [cookieCheck_requeue_drop s c q r h] at hd; simp at hd
          have hrc' : (r.rcode == 1) = false := by simpa using hrc
          simp only [hrq, Bool.false_eq_true, ↓reduceIte, hrc', Bool.false_and, htc, hudp, hign, Bool.not_false,
            Bool.and_self, chan_frame]
          refine ⟨_, q, rfl, hq, ?_, by simp only [chan_frame], ?_, by simp only [chan_frame],
            by simp only [chan_frame]⟩
          · simp only [chan_frame]
            have : ((s.modServer c.srv fun v => { v with cookie := (cookieCheck s c q r).ck }).modQuery key' fun q_1 =>
                { q_1 with cookieTry := (cookieCheck s c q r).q.cookieTry,
                           usingTcp := (cookieCheck s c q r).q.usingTcp }).query? key' =
                (s.query? key').map _ := query?_modQuery_self _ _ _ (fun _ => rfl)
            rw [this, hq]
            rfl
          · intro q' hq' hkey
            obtain ⟨x, _, rfl⟩ := mem_qs_modQuery hq'
            by_cases hx : (x.key == key') = true
            · simp only [hx, ↓reduceIte]
            · simp only [hx, Bool.false_eq_true, ↓reduceIte] at hkey
              simp only [hkey, beq_self_eq_true, not_true_eq_false] at hx
      · simp [hs] at hk

/-- … and with `ARES_FLAG_IGNTC` the truncated answer is used as it is: a NOERROR response goes to `end_query` -/
theorem bodyProcessAnswer_igntc (go : Call → St → St × Ret) (fd : Nat) (r : Reply) (s : St) (c : Conn) (key : Nat)
    (hc : s.conn? fd = some c) (hk : acceptKey s fd r = some key) (hign : s.cfg.igntc = true) (hrc : r.rcode = 0) :
    ∃ s', bodyProcessAnswer go fd r s = ((go (.endQuery (some c.srv) key .ok (some r)) s').1, .ok) ∧
      s'.accepted = s.accepted ++ [(fd, key, r)] := by
  have hauth := acceptKey_authentic hk
  unfold acceptKey at hk
  unfold bodyProcessAnswer
  simp only [hc, hauth.notEmpty, hauth.notGarbage, Bool.false_eq_true, ↓reduceIte] at hk ⊢
  cases hfind : s.byQid.find? (·.1 == r.id) with
  | none => simp [hfind] at hk
  | some p =>
    obtain ⟨id, key'⟩ := p
    simp only [hfind] at hk ⊢
    cases hq : s.query? key' with
    | none => simp [hq] at hk
    | some q =>
      simp only [hq] at hk ⊢
      have hsame : (q.qtype == r.qtype && q.qclass == r.qclass &&
          if (s.cfg.dns0x20 && !q.usingTcp) = true then q.name == r.name
          else hexLower q.name == hexLower r.name) = sameQuestion s.cfg q r := rfl
      rw [hsame]
      have hv : Cookie.validate ((s.server? c.srv).getD default).cookie
          { cookieTry := q.cookieTry, usingTcp := q.usingTcp } (if q.edns = true then q.reqCookie else none)
          (if r.hasOpt = true then Option.map hexToBytes r.cookie else none) r.rcode s.tv =
          cookieCheck s c q r := rfl
      rw [hv]
      by_cases hs : sameQuestion s.cfg q r = true
      · simp only [hs, Bool.not_true, Bool.false_eq_true, ↓reduceIte] at hk ⊢
        by_cases hd : ((cookieCheck s c q r).verdict == Cookie.Verdict.drop) = true
        · simp [hd] at hk
        · simp only [hd, Bool.false_eq_true, ↓reduceIte, Option.some.injEq] at hk ⊢
          subst hk
          have hrq : (cookieCheck s c q r).requeue = false := by
            cases h : (cookieCheck s c q r).requeue with
            | false => rfl
            | true => rw [cookieCheck_requeue_drop s c q r h] at hd; simp at hd
          simp only [hrq, Bool.false_eq_true, ↓reduceIte, hrc, hign, Bool.not_true, Bool.and_false,
            Bool.false_and, chan_frame, Nat.reduceBEq, Bool.or_self, Bool.and_false]
          exact ⟨_, rfl, by simp only [chan_frame]⟩
      · simp [hs] at hk

/-- **A datagram from the wrong source address never reaches `process_answer`**: `read_conn_packets` takes it off
    the socket and goes on to `read_answers` with the connection's in_buf — and everything else — as it was. -/
theorem bodyProcessRead_wrong_source (go : Call → St → St × Ret) (fd : Nat) (s : St) (c : Conn) (v : VSock)
    (r : Reply) (rest : List Reply) (hc : s.conn? fd = some c) (hv : s.sock? fd = some v)
    (hul : c.unlinked = false) (hudp : c.tcp = false) (hf : (s.fault "recvfrom").1 = none)
    (hrx : v.rx = r :: rest) (hw : r.wrongsrc = true) :
    ∃ s', bodyProcessRead go fd s = go (.readAnswers fd) s' ∧
      s'.conns = s.conns ∧ s'.accepted = s.accepted ∧ s'.qs = s.qs ∧ s'.cache = s.cache ∧
      s'.servers = s.servers ∧ s'.requeueArr = s.requeueArr ∧
      s'.socks = s.socks.map (fun x => if x.fd == fd then { x with rx := rest } else x) := by
  unfold bodyProcessRead
  simp only [hc, hv, hul, hudp, Bool.false_eq_true, ↓reduceIte, Bool.not_false]
  split <;> pair_subst
  · rename_i e hfe
    rw [hf] at hfe
    cases hfe
  simp only [hrx, hw, ↓reduceIte]
  refine ⟨_, rfl, by simp only [chan_frame], by simp only [chan_frame], by simp only [chan_frame],
    by simp only [chan_frame], by simp only [chan_frame], by simp only [chan_frame], ?_⟩
  simp only [St.modSock, St.slog, St.fault]

end Cares.Chan
