import CaresLemmas.ChanWfSendQ2
/-!
# C01 — body lemmas IX: `sendQuery`
-/
namespace Cares.Chan

theorem cFQ_of_hasConn {a : Sk} {fd : Nat} {u : Bool} (h : a.hasConn fd u) : ∃ l, (fd, l) ∈ a.cFQ := by
  obtain ⟨q, hq⟩ := h
  exact ⟨q, cFQ_of_cFUQ hq⟩

theorem oof_sqAttachSt (s : St) (q : Query) (srv : Server) (key fd : Nat) :
    (sqAttachSt s q srv key fd).outOfFuel = s.outOfFuel := by
  unfold sqAttachSt
  simp only
  generalize hdl : (if q.tryCount / s.servers.length > 0 then _ else _ : Deadline × St) = r
  have hr : r.2.outOfFuel = s.outOfFuel := by
    rw [← hdl]
    split
    · exact oof_draw2 s
    · rfl
  obtain ⟨dl, s'⟩ := r
  simp only at hr ⊢
  rw [← hr]
  cases q.conn <;> rfl

/-- once out of fuel, always out of fuel -/
theorem oof_sqFinish {go} (hmono : OofMono go) {wst q srv key fd pd} {s : St} (h : s.outOfFuel = true) :
    (sqFinish go wst s q srv key fd pd).1.outOfFuel = true := by
  have other : ∀ wst' : Status,
      (go (.requeue key wst' true none false) (s.incFailures srv.id q.usingTcp)).1.outOfFuel = true :=
    fun _ => hmono _ _ (by simpa using h)
  have cerr : ∀ wst' : Status,
      (match (((go (.connError fd true wst') s).1.byQid.find? (fun (id, k) => id == q.qid && k == key)).bind
          (fun _ => (go (.connError fd true wst') s).1.query? key)) with
        | none => ((go (.connError fd true wst') s).1, Status.cancelled)
        | some _ =>
          let (s, r) := go (.requeue key wst' true none false) (go (.connError fd true wst') s).1
          (s, if r == Status.timeout then Status.connrefused else r)).1.outOfFuel = true := by
    intro wst'
    have h1 := hmono (.connError fd true wst') s h
    split
    · exact h1
    · exact hmono _ _ h1
  unfold sqFinish
  split
  · split
    · split
      · exact hmono _ _ (by rw [oof_sqAttachSt]; exact h)
      · show (sqAttachSt _ _ _ _ _).outOfFuel = true
        rw [oof_sqAttachSt]; exact h
    · simpa using h
    · simpa using h
  · exact hmono _ _ h
  · exact cerr _
  · exact cerr _
  · exact other _

/-- every way `ares_send_query` ends after the write -/
theorem good_sqFinish {go} (hgo : GoOk go) {d reqSrv key fd wst q srv pd} {s0 s : St}
    (hm : Mid d s0 s) (hki : key ∈ s.sk.idx) (hh : s.sk.hasConn fd false) :
    GoodO d (.sendQuery reqSrv key) s0 (sqFinish go wst s q srv key fd pd) := by
  have hw := hm.wf
  -- requeue after a failed write that was not a connection error
  have other : ∀ wst' : Status, GoodO d (.sendQuery reqSrv key) s0
      (go (.requeue key wst' true none false) (s.incFailures srv.id q.usingTcp)) := by
    intro wst'
    have h1 := sk_incFailures s srv.id q.usingTcp (server_ids_nodup hw)
    refine (hm.sk_eq h1).tail (hgo.2 d _ _ ?_) (Or.inl rfl) (Or.inl rfl) trivial
    exact ⟨by rw [h1]; exact WfS.weaken_hole hw, by unfold Sk.Idx; rw [h1]; exact hki, by rw [h1]; exact hm.debt⟩
  -- a connection error: the connection is closed, then the query (if it survived) is requeued
  have cerr : ∀ wst' : Status, GoodO d (.sendQuery reqSrv key) s0
      (match (((go (.connError fd true wst') s).1.byQid.find? (fun (id, k) => id == q.qid && k == key)).bind
          (fun _ => (go (.connError fd true wst') s).1.query? key)) with
        | none => ((go (.connError fd true wst') s).1, .cancelled)
        | some _ =>
          let (s, r) := go (.requeue key wst' true none false) (go (.connError fd true wst') s).1
          (s, if r == .timeout then .connrefused else r)) := by
    intro wst'
    have hm1 := hm.call hgo (.connError fd true wst') ⟨hw, hh, hm.debt⟩ rfl rfl
    generalize go (.connError fd true wst') s = r1 at hm1 ⊢
    obtain ⟨s1, ret1⟩ := r1
    simp only at hm1 ⊢
    rcases hm1 with hoof | hm1
    · left
      split
      · exact hoof
      · exact hgo.1 _ _ hoof
    split
    · exact hm1.good trivial
    · rename_i x hx
      have hki1 : key ∈ s1.sk.idx := by
        cases hf : s1.byQid.find? (fun (p : Nat × Nat) => p.1 == q.qid && p.2 == key) with
        | none => rw [hf] at hx; cases hx
        | some p =>
          have h1 := List.find?_some hf
          simp only [Bool.and_eq_true, beq_iff_eq] at h1
          exact List.mem_map.mpr ⟨p, List.mem_of_find?_eq_some hf, h1.2⟩
      exact Good.tail (hgo.2 d (.requeue key wst' true none false) s1
        ⟨WfS.weaken_hole hm1.wf, hki1, hm1.debt⟩) hm1.step.weaken' (Or.inl rfl) (Or.inl rfl) trivial
  unfold sqFinish
  cases wst
  case ok =>
    obtain ⟨q2, hq2, hq2s⟩ := query?_of_idx hw hki
    obtain ⟨c, hc⟩ := conn?_of_live (live_of_hasConn hh)
    simp only [hq2, hc]
    have hsk := sk_sqAttachSt s q2 srv key fd
    generalize sqAttachSt s q2 srv key fd = s2 at hsk ⊢
    have hm2 : Mid d s0 s2 := hm.trans
      ⟨by unfold Wf; rw [hsk]; exact wf_attach hw hq2s hki (cFQ_of_hasConn hh),
       by rw [hsk]; exact debt_attach (e := q2.sk) hm.debt,
       by rw [hsk]; exact step_attach (e := q2.sk) (not_unlinked_of_hasConn hw hh)⟩
    split
    · exact Good.tail (hgo.2 d (.probe srv.id key) s2 ⟨hm2.wf, hm2.debt⟩) hm2.step.weaken' (Or.inl rfl) (Or.inl rfl)
        trivial
    · exact hm2.good trivial
  case nomem =>
    exact hm.tail (hgo.2 d _ _ ⟨WfS.weaken_hole hw, hki, hm.debt⟩) (Or.inl rfl) (Or.inl rfl) trivial
  case connrefused => exact cerr .connrefused
  case badfamily => exact cerr .badfamily
  all_goals exact other _

theorem sqPick_servers (s : St) (reqSrv : Option Nat) : (sqPick s reqSrv).2.servers = s.servers := by
  unfold sqPick
  split
  · rfl
  · split
    · simp only
      split
      · rfl
      · unfold St.draw1; split <;> rfl
    · rfl

theorem sqConn_ok {d} {s : St} (q : Query) (srv : Server) (hw : Wf s) (hd : DebtOk none d s.sk)
    (hsrv : srv ∈ s.servers) :
    Mid d s (sqConn s q srv).2 ∧ (∀ fd, (sqConn s q srv).1 = .ok fd → (sqConn s q srv).2.sk.hasConn fd false) ∧
      (sqConn s q srv).2.byQid = s.byQid := by
  unfold sqConn
  split
  · rename_i fd hex
    refine ⟨Mid.refl hw hd, fun fd' h => ?_, rfl⟩
    have : fd' = fd := by injection h with h; exact h.symm
    rw [this]; exact sqExisting_hasConn hw hsrv hex
  · exact ⟨(sqOpen_ok q srv hw hd hsrv).1, (sqOpen_ok q srv hw hd hsrv).2, byQid_sqOpen s q srv⟩

theorem good_sendQuery {go} (hgo : GoOk go) {d reqSrv key s} (hpre : Pre d s (.sendQuery reqSrv key)) :
    GoodO d (.sendQuery reqSrv key) s (bodySendQuery go reqSrv key s) := by
  obtain ⟨hw, hki, hd⟩ := hpre
  obtain ⟨q, hq, hqs⟩ := query?_of_idx hw hki
  rw [bodySendQuery_eq]
  simp only [hq]
  have hskP := sqPick_sk s reqSrv
  have hsvP := sqPick_servers s reqSrv
  have hmemP := @sqPick_mem s reqSrv
  generalize sqPick s reqSrv = P at hskP hsvP hmemP ⊢
  obtain ⟨srv?, sP⟩ := P
  simp only at hskP hsvP hmemP ⊢
  have hmP : Mid d s sP := Mid.of_sk_eq hw hd hskP
  split
  · exact hmP.tail (hgo.2 d _ _ ⟨WfS.weaken_hole hmP.wf, by unfold Sk.Idx; rw [hskP]; exact hki, hmP.debt⟩) (Or.inl rfl)
      (Or.inl rfl) trivial
  · rename_i srv
    have hsrvm : srv ∈ s.servers := hmemP rfl
    generalize hs1 : ({ sP with picks := sP.picks ++
        [(key, srv.id, reqSrv.isSome, s.sortedServers.map fun v => (v.id, v.failures))] } : St) = s1
    have hsk1 : s1.sk = s.sk := by rw [← hs1]; exact hskP
    have hsv1 : srv ∈ s1.servers := by rw [← hs1]; show srv ∈ sP.servers; rw [hsvP]; exact hsrvm
    have hm1 : Mid d s s1 := Mid.of_sk_eq hw hd hsk1
    obtain ⟨hmC, hhC, hbC⟩ := sqConn_ok (d := d) q srv hm1.wf hm1.debt hsv1
    have hmC' : Mid d s (sqConn s1 q srv).2 := hm1.trans hmC
    have hkiC : key ∈ (sqConn s1 q srv).2.sk.idx := by
      show key ∈ (sqConn s1 q srv).2.byQid.map (·.2)
      rw [hbC]
      have : s1.byQid = s.byQid := by
        have := congrArg Sk.byQid hsk1
        exact this
      rw [this]; exact hki
    generalize sqConn s1 q srv = C at hmC' hhC hkiC ⊢
    obtain ⟨res, sC⟩ := C
    simp only at hmC' hhC hkiC ⊢
    cases res with
    | error st =>
      simp only
      have h1 := sk_incFailures sC srv.id q.usingTcp (server_ids_nodup hmC'.wf)
      refine (hmC'.sk_eq h1).tail (hgo.2 d _ _ ?_) (Or.inl rfl) (Or.inl rfl) trivial
      exact ⟨by rw [h1]; exact WfS.weaken_hole hmC'.wf, by unfold Sk.Idx; rw [h1]; exact hkiC,
        by rw [h1]; exact hmC'.debt⟩
    | ok fd =>
      simp only
      have hh := hhC fd rfl
      have hskp := sk_sqPrep sC q srv key fd
      generalize sqPrep sC q srv key fd = p at hskp ⊢
      obtain ⟨sp, qp⟩ := p
      simp only at hskp ⊢
      have hmp : Mid d s sp := hmC'.sk_eq hskp
      have hskw := sqWrite_sk hgo (d := d) (s := sp) (fd := fd) hmp.wf hmp.debt
        (by rw [hskp]; exact live_of_hasConn hh)
      generalize sqWrite go sp fd = w at hskw ⊢
      obtain ⟨wst, sw⟩ := w
      simp only at hskw ⊢
      rcases hskw with hoof | hskw
      · exact Or.inl (oof_sqFinish hgo.1 hoof)
      exact good_sqFinish hgo (hmp.sk_eq hskw) (by rw [hskw, hskp]; exact hkiC) (by rw [hskw, hskp]; exact hh)

end Cares.Chan
