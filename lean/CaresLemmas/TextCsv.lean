import CaresLemmas.TextOptions
import CaresLemmas.TextSplit
/-! Helper lemmas for C16 `csv_fixpoint` / `dup_equiv`: rendering a server list as CSV, splitting and
    parsing it again, and feeding it back through `ares_servers_update`. -/
namespace Cares.Text

/-- the `ares_sconfig_t` a server of the channel corresponds to -/
def sconfigOf (s : Server) : SConfig := { addr := s.addr, udp := s.udp, tcp := s.tcp, iface := s.iface, scope := s.scope }

def cleanEntry (t : Bytes) : Bool := !t.isEmpty && t.all (fun c => !isDelim [32, 44] c)

/-- rendering a server and parsing the text back gives the server again -/
def entryOk (ifs : Ifaces) (s : Server) : Bool :=
  match serverAddrStr s with
  | none => false
  | some t => cleanEntry t && (match parseServerEntry t with
      | .ok sc => sconfigAppend ifs none sc.addr sc.udp sc.tcp sc.iface == some [sconfigOf s]
      | .error _ => false)

def joinCsv : List Bytes → Bytes
  | [] => []
  | [t] => t
  | t :: r => t ++ [44] ++ joinCsv r

theorem rawSplit_clean (isD : Nat → Bool) (t : Bytes) (h : t.all (fun c => !isD c) = true) : rawSplit isD t = [t] := by
  induction t with
  | nil => rfl
  | cons c cs ih =>
    simp only [List.all_cons, Bool.and_eq_true, Bool.not_eq_eq_eq_not, Bool.not_true] at h
    rw [rawSplit_cons_notD isD c cs h.1, ih h.2]
    rfl

theorem rawSplit_join (isD : Nat → Bool) (hd : isD 44 = true) (ts : List Bytes) (hne : ts ≠ [])
    (h : ∀ t ∈ ts, t.all (fun c => !isD c) = true) : rawSplit isD (joinCsv ts) = ts := by
  induction ts with
  | nil => exact absurd rfl hne
  | cons t r ih =>
    cases r with
    | nil => simpa [joinCsv] using rawSplit_clean isD t (h t (by simp))
    | cons t2 r2 =>
      have : joinCsv (t :: t2 :: r2) = t ++ 44 :: joinCsv (t2 :: r2) := by simp [joinCsv]
      rw [this, rawSplit_append isD t _ 44 hd, rawSplit_clean isD t (h t (by simp)),
          ih (by simp) (fun x hx => h x (List.mem_cons_of_mem _ hx))]
      rfl

theorem bufSplit_join (ts : List Bytes) (hne : ts ≠ []) (h : ∀ t ∈ ts, cleanEntry t = true) :
    bufSplit [32, 44] SplitFlags.none 0 (joinCsv ts) = ts := by
  rw [bufSplit_spec [32, 44] SplitFlags.none rfl]
  have hall : ∀ t ∈ ts, t.all (fun c => !isDelim [32, 44] c) = true := by
    intro t ht
    have := h t ht
    simp only [cleanEntry, Bool.and_eq_true] at this
    exact this.2
  have hnonempty : ∀ t ∈ ts, t.isEmpty = false := by
    intro t ht
    have := h t ht
    simp only [cleanEntry, Bool.and_eq_true, Bool.not_eq_eq_eq_not, Bool.not_true] at this
    exact this.1
  have hj : joinCsv ts ≠ [] := by
    cases ts with
    | nil => exact absurd rfl hne
    | cons t r =>
      have := hnonempty t (by simp)
      cases r with
      | nil => simpa [joinCsv] using this
      | cons _ _ => cases t <;> simp_all [joinCsv]
  simp only [hj, ↓reduceIte]
  rw [rawSplit_join (isDelim [32, 44]) (by decide) ts hne hall]
  have htrim : ∀ t : Bytes, trimSec SplitFlags.none t = t := by
    intro t; simp [trimSec, SplitFlags.none]
  have : ts.map (trimSec SplitFlags.none) = ts := by
    rw [List.map_congr_left (fun t _ => htrim t)]; simp
  rw [this]
  rw [List.filter_eq_self]
  intro t ht
  simp [keepPlain, hnonempty t ht]

/-- the rendered entries of a server list, when every server renders -/
def renderAll : List Server → Option (List Bytes)
  | [] => some []
  | s :: r => match serverAddrStr s, renderAll r with
    | some t, some ts => some (t :: ts)
    | _, _ => none

theorem serversCsv_fold (l : List Server) (ts : List Bytes) (h : renderAll l = some ts)
    (hne : ∀ t ∈ ts, t.isEmpty = false) (acc : Bytes) :
    l.foldl csvStep (some acc) = some (if acc.isEmpty then joinCsv ts else if ts.isEmpty then acc else acc ++ [44] ++ joinCsv ts) := by
  induction l generalizing ts acc with
  | nil =>
    simp only [renderAll, Option.some.injEq] at h
    subst h
    cases acc <;> simp [joinCsv]
  | cons s r ih =>
    simp only [renderAll] at h
    cases hs : serverAddrStr s with
    | none => simp [hs] at h
    | some t =>
      cases hr : renderAll r with
      | none => simp [hs, hr] at h
      | some tr =>
        simp only [hs, hr, Option.some.injEq] at h
        subst h
        simp only [List.foldl_cons, csvStep, hs]
        have ht := hne t (by simp)
        rw [ih tr hr (fun x hx => hne x (List.mem_cons_of_mem _ hx))]
        cases hacc : acc with
        | nil =>
          simp only [List.isEmpty_nil, ↓reduceIte, ht, Bool.false_eq_true]
          cases tr with
          | nil => simp [joinCsv]
          | cons t2 r2 => simp [joinCsv]
        | cons a0 ar =>
          simp only [List.isEmpty_cons, Bool.false_eq_true, ↓reduceIte, List.append_eq_nil_iff, reduceCtorEq, and_false,
            false_and, List.isEmpty_iff]
          cases tr with
          | nil => simp [joinCsv]
          | cons t2 r2 => simp [joinCsv]

theorem serversCsv_eq (l : List Server) (ts : List Bytes) (h : renderAll l = some ts) (hne : ∀ t ∈ ts, t.isEmpty = false) :
    serversCsv l = some (joinCsv ts) := by
  unfold serversCsv
  rw [serversCsv_fold l ts h hne []]
  simp

theorem sconfigAppend_acc (ifs : Ifaces) (acc : Option (List SConfig)) (a : Addr) (u t : Nat) (i : Bytes) (x : SConfig)
    (h : sconfigAppend ifs none a u t i = some [x]) : sconfigAppend ifs acc a u t i = some (acc.getD [] ++ [x]) := by
  unfold sconfigAppend at h ⊢
  split
  · rename_i hb; simp [hb] at h
  · rename_i hb
    simp only [hb, Bool.false_eq_true, ↓reduceIte, Option.getD_none, List.nil_append] at h
    simp only
    split
    · rename_i hl
      simp only [hl, ↓reduceIte] at h
      split
      · rename_i he; simp [he] at h
      · rename_i he
        simp only [he, Bool.false_eq_true, ↓reduceIte] at h
        split
        · rename_i nm sc hr
          rw [hr] at h
          simp only [Option.some.injEq, List.cons.injEq, and_true] at h
          rw [h]
        · rename_i hr
          rw [hr] at h; simp at h
    · rename_i hl
      simp only [hl, Bool.false_eq_true, ↓reduceIte, Option.some.injEq, List.cons.injEq, and_true] at h
      rw [h]

theorem entryOk_spec (ifs : Ifaces) (s : Server) (h : entryOk ifs s = true) :
    ∃ t sc, serverAddrStr s = some t ∧ cleanEntry t = true ∧ parseServerEntry t = .ok sc ∧
      sconfigAppend ifs none sc.addr sc.udp sc.tcp sc.iface = some [sconfigOf s] := by
  unfold entryOk at h
  split at h
  · simp at h
  · rename_i t ht
    simp only [Bool.and_eq_true] at h
    obtain ⟨h1, h2⟩ := h
    split at h2
    · rename_i sc hsc
      exact ⟨t, sc, ht, h1, hsc, by simpa using h2⟩
    · simp at h2

theorem renderAll_of_ok (ifs : Ifaces) (l : List Server) (h : ∀ s ∈ l, entryOk ifs s = true) :
    ∃ ts, renderAll l = some ts ∧ (∀ t ∈ ts, cleanEntry t = true) ∧
      ∀ (acc : Option (List SConfig)), ts.foldl (appendEntry ifs false) (.success, acc) =
        (.success, if l.isEmpty then acc else some (acc.getD [] ++ l.map sconfigOf)) := by
  induction l with
  | nil => exact ⟨[], rfl, by simp, by intro acc; rfl⟩
  | cons s r ih =>
    obtain ⟨ts, hts, hclean, hfold⟩ := ih (fun x hx => h x (List.mem_cons_of_mem _ hx))
    obtain ⟨t, sc, ht, hc, hp, ha⟩ := entryOk_spec ifs s (h s (by simp))
    refine ⟨t :: ts, by simp [renderAll, ht, hts], ?_, ?_⟩
    · intro x hx
      rcases List.mem_cons.mp hx with hx | hx
      · subst hx; exact hc
      · exact hclean x hx
    · intro acc
      simp only [List.foldl_cons]
      have : appendEntry ifs false (.success, acc) t = (.success, some (acc.getD [] ++ [sconfigOf s])) := by
        unfold appendEntry
        simp only [bne_self_eq_false, Bool.false_eq_true, ↓reduceIte, hp]
        rw [sconfigAppend_acc ifs acc _ _ _ _ _ ha]
      rw [this, hfold]
      cases r with
      | nil => simp
      | cons _ _ => simp

/-- parsing the rendered list gives the servers back, as `ares_sconfig_t`s -/
theorem csv_parse (ifs : Ifaces) (l : List Server) (hne : l ≠ []) (h : ∀ s ∈ l, entryOk ifs s = true) :
    ∃ csv, serversCsv l = some csv ∧ csv.isEmpty = false ∧
      appendFromStr ifs none csv false = (.success, some (l.map sconfigOf)) := by
  obtain ⟨ts, hts, hclean, hfold⟩ := renderAll_of_ok ifs l h
  have hnonempty : ∀ t ∈ ts, t.isEmpty = false := by
    intro t ht
    have := hclean t ht
    simp only [cleanEntry, Bool.and_eq_true, Bool.not_eq_eq_eq_not, Bool.not_true] at this
    exact this.1
  have htsne : ts ≠ [] := by
    cases l with
    | nil => exact absurd rfl hne
    | cons s r =>
      simp only [renderAll] at hts
      cases h1 : serverAddrStr s <;> cases h2 : renderAll r <;> simp [h1, h2] at hts
      rw [← hts]; simp
  have hj : (joinCsv ts).isEmpty = false := by
    cases ts with
    | nil => exact absurd rfl htsne
    | cons t r =>
      have := hnonempty t (by simp)
      cases r with
      | nil => simpa [joinCsv] using this
      | cons _ _ => cases t <;> simp_all [joinCsv]
  refine ⟨joinCsv ts, serversCsv_eq l ts hts hnonempty, hj, ?_⟩
  unfold appendFromStr
  simp only [hj, Bool.false_eq_true, ↓reduceIte]
  rw [bufSplit_join ts htsne hclean, hfold none]
  cases l with
  | nil => exact absurd rfl hne
  | cons _ _ => simp

/-- what `ares_servers_update` guarantees about a channel's server list: effective (non-zero) ports,
    no two servers with the same address and ports, at most one server with `ARES_FLAG_PRIMARY` -/
structure ServersInv (p : Bool) (l : List Server) : Prop where
  ports : ∀ s ∈ l, s.udp ≠ 0 ∧ s.tcp ≠ 0
  distinct : l.Pairwise (fun a b => ¬ (b.addr = a.addr ∧ b.tcp = a.tcp ∧ b.udp = a.udp))
  primary : p = true → l.length ≤ 1

theorem effPort_self (d p : Nat) (h : p ≠ 0) : effPort d p = p := by
  unfold effPort; simp [h]

theorem effPort_ne_zero (d p : Nat) : effPort d p ≠ 0 := by
  unfold effPort
  by_cases h : p = 0 <;> by_cases h2 : d = 0 <;> simp_all

theorem find_self (l : List Server) (hd : l.Pairwise (fun a b => ¬ (b.addr = a.addr ∧ b.tcp = a.tcp ∧ b.udp = a.udp)))
    (s : Server) (hs : s ∈ l) :
    l.find? (fun o => o.addr == s.addr && o.tcp == s.tcp && o.udp == s.udp) = some s := by
  induction l with
  | nil => simp at hs
  | cons x r ih =>
    rw [List.pairwise_cons] at hd
    rcases List.mem_cons.mp hs with h | h
    · subst h; simp
    · have hne : ¬ (s.addr = x.addr ∧ s.tcp = x.tcp ∧ s.udp = x.udp) := hd.1 s h
      have : (x.addr == s.addr && x.tcp == s.tcp && x.udp == s.udp) = false := by
        cases hb : (x.addr == s.addr && x.tcp == s.tcp && x.udp == s.udp) with
        | false => rfl
        | true =>
          simp only [Bool.and_eq_true, beq_iff_eq] at hb
          exact absurd ⟨hb.1.1.symm, hb.1.2.symm, hb.2.symm⟩ hne
      rw [List.find?_cons, this]
      exact ih hd.2 h

theorem distinct_sconfig (u t : Nat) (l : List Server) (hp : ∀ s ∈ l, s.udp ≠ 0 ∧ s.tcp ≠ 0)
    (hd : l.Pairwise (fun a b => ¬ (b.addr = a.addr ∧ b.tcp = a.tcp ∧ b.udp = a.udp))) :
    DistinctKeys u t (l.map sconfigOf) := by
  unfold DistinctKeys
  rw [List.pairwise_map]
  refine List.Pairwise.imp_of_mem ?_ hd
  intro a b ha hb hab
  unfold sameServer sconfigOf
  simp only
  rw [effPort_self t b.tcp (hp b hb).2, effPort_self t a.tcp (hp a ha).2, effPort_self u b.udp (hp b hb).1,
      effPort_self u a.udp (hp a ha).1]
  cases hx : (b.addr == a.addr && b.tcp == a.tcp && b.udp == a.udp) with
  | false => rfl
  | true =>
    simp only [Bool.and_eq_true, beq_iff_eq] at hx
    exact absurd ⟨hx.1.1, hx.1.2, hx.2⟩ hab

/-- feeding a channel's own server list back through `ares_servers_update` changes nothing -/
theorem serversUpdate_self (u t : Nat) (p : Bool) (l : List Server) (h : ServersInv p l) :
    serversUpdate u t p l (l.map sconfigOf) = l := by
  unfold serversUpdate
  rw [dedup_id u t _ [] (distinct_sconfig u t l h.ports h.distinct) (by simp)]
  have hmap : (l.map sconfigOf).map (updateOne u t l) = l := by
    rw [List.map_map]
    conv => rhs; rw [← List.map_id l]
    apply List.map_congr_left
    intro s hs
    simp only [Function.comp, sconfigOf, id, updateOne]
    rw [effPort_self t s.tcp (h.ports s hs).2, effPort_self u s.udp (h.ports s hs).1, find_self l h.distinct s hs]
    simp only
    by_cases hi : s.iface.isEmpty = true <;> simp [hi]
  simp only
  rw [hmap]
  cases hp : p with
  | false => simp
  | true =>
    simp only [↓reduceIte]
    have := h.primary hp
    exact List.take_of_length_le this

theorem updateOne_key (u t : Nat) (old : List Server) (s : SConfig) :
    (updateOne u t old s).addr = s.addr ∧ (updateOne u t old s).tcp = effPort t s.tcp ∧
    (updateOne u t old s).udp = effPort u s.udp := by
  unfold updateOne
  simp only
  split
  · rename_i o ho
    have := List.find?_some ho
    simp only [Bool.and_eq_true, beq_iff_eq] at this
    split <;> simp [this.1.1, this.1.2, this.2]
  · simp

/-- every list `ares_servers_update` produces satisfies the invariant -/
theorem serversUpdate_inv (u t : Nat) (p : Bool) (old : List Server) (l : List SConfig) :
    ServersInv p (serversUpdate u t p old l) := by
  have hbase : ServersInv false ((dedupSConfig u t l []).map (updateOne u t old)) := by
    refine ⟨?_, ?_, by simp⟩
    · intro s hs
      simp only [List.mem_map] at hs
      obtain ⟨k, _, rfl⟩ := hs
      obtain ⟨_, h2, h3⟩ := updateOne_key u t old k
      rw [h2, h3]
      exact ⟨effPort_ne_zero _ _, effPort_ne_zero _ _⟩
    · rw [List.pairwise_map]
      refine List.Pairwise.imp ?_ (dedup_spec u t l []).1
      intro a b hab
      obtain ⟨a1, a2, a3⟩ := updateOne_key u t old a
      obtain ⟨b1, b2, b3⟩ := updateOne_key u t old b
      rw [a1, a2, a3, b1, b2, b3]
      intro hk
      unfold sameServer at hab
      simp [hk.1, hk.2.1, hk.2.2] at hab
  unfold serversUpdate
  simp only
  cases p with
  | false => simpa using hbase
  | true =>
    simp only [↓reduceIte]
    refine ⟨?_, ?_, ?_⟩
    · intro s hs; exact hbase.ports s (List.mem_of_mem_take hs)
    · exact List.Pairwise.sublist (List.take_sublist _ _) hbase.distinct
    · intro _; simp [List.length_take]; omega

/-- `ares_get_servers_csv` rendered and fed back to `ares_set_servers_ports_csv` reproduces the server
    list (and therefore the same text), provided every entry survives the text round trip -/
theorem csv_roundtrip (c : Chan) (ifs : Ifaces)
    (hinv : ServersInv (hasFlag c.flags flagPrimary) c.servers)
    (hok : ∀ s ∈ c.servers, entryOk ifs s = true) :
    ∃ csv, getServersCsv c = some csv ∧
      setServersCsv c ifs csv = (.success, { c with optmask := { c.optmask with servers := true } }) := by
  cases hs : c.servers with
  | nil =>
    refine ⟨[], by simp [getServersCsv, serversCsv, hs], ?_⟩
    simp only [setServersCsv, List.isEmpty_nil, ↓reduceIte, Chan.updateServers, hs]
    congr 1
    apply Chan.ext <;> simp [serversUpdate, dedupSConfig, hs]
  | cons x r =>
    obtain ⟨csv, h1, h2, h3⟩ := csv_parse ifs c.servers (by rw [hs]; simp) hok
    refine ⟨csv, h1, ?_⟩
    unfold setServersCsv
    simp only [h2, Bool.false_eq_true, ↓reduceIte, h3, bne_self_eq_false, Option.getD_some, Chan.updateServers]
    rw [serversUpdate_self _ _ _ _ hinv]
    congr 1
    apply Chan.ext <;> simp [hs]

theorem hasFlag_orFlag_primary (f : Nat) : hasFlag (orFlag f flagUsevc) flagPrimary = hasFlag f flagPrimary ∧
    hasFlag (orFlag f flagEdns) flagPrimary = hasFlag f flagPrimary := by
  unfold orFlag hasFlag flagUsevc flagPrimary flagEdns
  constructor
  · split
    · rfl
    · rename_i h
      have : f / 1 % 2 = 0 := by
        simp only [beq_iff_eq] at h; omega
      have e : (f + 1) / 2 % 2 = f / 2 % 2 := by omega
      rw [e]
  · split
    · rfl
    · rename_i h
      have : f / 256 % 2 = 0 := by
        simp only [beq_iff_eq] at h; omega
      have e : (f + 256) / 2 % 2 = f / 2 % 2 := by omega
      rw [e]

theorem flags_aux (f : Nat) (b1 b2 : Bool) :
    hasFlag (if b1 = true then orFlag (if b2 = true then orFlag f flagUsevc else f) flagEdns
             else if b2 = true then orFlag f flagUsevc else f) flagPrimary = hasFlag f flagPrimary := by
  cases b1 <;> cases b2 <;>
    simp only [Bool.false_eq_true, ↓reduceIte, (hasFlag_orFlag_primary _).1, (hasFlag_orFlag_primary _).2]

/-- `ARES_FLAG_PRIMARY` of a channel is decided by `ares_init_by_options` alone -/
theorem finish_primary (a : Chan) (e : SysEnv) :
    hasFlag (finish a e).flags flagPrimary = hasFlag a.flags flagPrimary := by
  unfold finish
  rcases initBySysconfig_cases a e with h | ⟨s, h⟩ <;> rw [h]
  · simp only [applyDefaults, defaultFlags]
    split
    · exact (hasFlag_orFlag_primary _).2
    · rfl
  · simp only [applyDefaults, defaultFlags, sysconfigApply, sysconfigApplyG]
    exact flags_aux _ _ _

/-- a freshly initialised channel whose servers the application supplied: `ares_dup` gives the same
    channel, through the CSV step -/
theorem dup_init (e : SysEnv) (o : Options) (m : Mask) (ch : Chan) (hwf : o.WF)
    (h : initOptions e (some o) m = .ok ch)
    (hok : ch.optmask.servers = true → ∀ s ∈ ch.servers, entryOk e.ifs s = true) :
    dup ch e = .ok ch := by
  obtain ⟨o', m', hs, hi⟩ := save_init_fixpoint' e o m ch hwf h
  have hm' : m' = ch.optmask := by
    unfold saveOptions at hs
    split at hs
    · simp at hs
    · simp only [Except.ok.injEq, Prod.mk.injEq] at hs; exact hs.2.symm
  unfold dup
  rw [hs]
  simp only [hi]
  cases hb : m'.servers with
  | false => simp
  | true =>
    simp only [↓reduceIte]
    have hbs : ch.optmask.servers = true := by rw [← hm']; exact hb
    -- the server list is what ares_servers_update built from the options
    rw [initOptions_some] at h
    split at h
    · simp at h
    · simp only [Except.ok.injEq] at h
      have hinv : ServersInv (hasFlag ch.flags flagPrimary) ch.servers := by
        obtain ⟨g0, _, _, _, _, _, _, _, _, _, _, _, _, _, _, _, _, g17⟩ := init_facts e o m hwf
        have hnm : (normMask o m).servers = true := by rw [← g0, h]; exact hbs
        obtain ⟨e1, _⟩ := g17 hnm
        rw [← h, e1, finish_primary]
        rw [(applyOptions_fields {} o m).2.2.2.2.2.2.2.2.2.2.2.2.2.2.2.2.2.2.2.2.2]
        simp only [hnm, ↓reduceIte]
        exact serversUpdate_inv _ _ _ _ _
      obtain ⟨csv, hc1, hc2⟩ := csv_roundtrip ch e.ifs hinv (hok hbs)
      rw [hc1]
      simp only [hc2, bne_self_eq_false, Bool.false_eq_true, ↓reduceIte]
      congr 1
      apply Chan.ext <;> simp
      apply Mask.ext <;> simp [hbs]

end Cares.Text
