import CaresLemmas.WriteField
import CaresLemmas.WriteTables
/-!
# Record level: `ares_dns_parse_rr` after `ares_dns_write_rr`

The RDATA decoders (scripted types through the generic field lemma, OPT and RAW_RR by hand), then the
fixed part of the RR (owner name, TYPE, CLASS, TTL, RDLENGTH) and the reconciliation of RDLENGTH with
what the decoder consumed.
-/
namespace Cares.Dns.Write
open Cares.Dns Cares.Dns.NameW Cares.Dns.Build

theorem fetchBe16_at (msg pre post : BStr) (n : Nat) (hn : n < 65536) (h : msg = pre ++ be16 n ++ post) :
    fetchBe16 msg.toArray pre.length = .ok n (pre.length + 2) := by
  subst h; exact fetchBe16_written pre post n hn

theorem fetchBe32_at (msg pre post : BStr) (n : Nat) (hn : n < 4294967296) (h : msg = pre ++ be32 n ++ post) :
    fetchBe32 msg.toArray pre.length = .ok n (pre.length + 4) := by
  subst h; exact fetchBe32_written pre post n hn

/-- every parse script is compatible with the write script of the same type
    (`decide` over the tables regenerated from the clang AST on every run) -/
theorem scripts_compatible : scriptsCompatible Generated.parseScript Generated.writeScript = true := by decide

theorem scriptOf_pair (ptbl wtbl : List (Nat × Script))
    (h : (ptbl.length == wtbl.length &&
      (ptbl.zip wtbl).all fun pw => pw.1.1 == pw.2.1 && compatible pw.1.2 pw.2.2) = true)
    (t : Nat) (ws : Script) (hw : scriptOf wtbl t = some ws) :
    ∃ ps, scriptOf ptbl t = some ps ∧ compatible ps ws = true := by
  induction ptbl generalizing wtbl with
  | nil =>
    cases wtbl with
    | nil => simp [scriptOf] at hw
    | cons a r => simp at h
  | cons pe pr ih =>
    cases wtbl with
    | nil => simp at h
    | cons we wr =>
      simp only [List.length_cons, Nat.add_right_cancel_iff, List.zip_cons_cons, List.all_cons,
        Bool.and_eq_true, beq_iff_eq] at h
      obtain ⟨hl, ⟨hk, hc⟩, hrest⟩ := h
      unfold scriptOf at hw ⊢
      simp only [List.find?_cons] at hw ⊢
      by_cases ht : we.1 = t
      · have : (we.1 == t) = true := by simpa using ht
        simp only [this, Option.map_some, Option.some.injEq] at hw
        have : (pe.1 == t) = true := by rw [hk]; simpa using ht
        simp only [this, Option.map_some]
        exact ⟨pe.2, rfl, by rw [← hw]; exact hc⟩
      · have h1 : (we.1 == t) = false := by simpa using ht
        have h2 : (pe.1 == t) = false := by rw [hk]; simpa using ht
        simp only [h1, h2] at hw ⊢
        exact ih wr (by simp [hl, hrest]) hw

/-- the write script of a scripted type and its compatible parse script -/
theorem script_pair (t : Nat) (ws : Script) (h : scriptOf Generated.writeScript t = some ws) :
    ∃ ps, scriptOf Generated.parseScript t = some ps ∧ compatible ps ws = true :=
  scriptOf_pair _ _ scripts_compatible t ws h

/-! ## RDATA decoders -/

/-- RDATA of a scripted type -/
theorem parseRRData_scripted (rr : RR) (ws ps : Script) (hws : scriptOf Generated.writeScript rr.type = some ws)
    (hps : scriptOf Generated.parseScript rr.type = some ps) (hc : compatible ps ws = true)
    (h1 : rr.type ≠ RecType.any) (h2 : rr.type ≠ RecType.opt) (h3 : rr.type ≠ RecType.rawRR)
    (out post : BStr) (names : List NameOff) (p : Piece) (rawT rawC rawTtl : Nat)
    (hw : writeFields out.length names (allowNameComp rr.type) rr ws = .ok p) (hinv : NInv names out)
    (hok : fieldsOk rr ps = true) :
    parseRRData (out ++ p.bytes ++ post).toArray p.bytes.length rr.type rawT rawC rawTtl out.length =
        .ok (canonFields rr ws, 0) (out.length + p.bytes.length) ∧
      NInv p.names (out ++ p.bytes) ∧ p.trunc = false := by
  have hbl : bufLen (out ++ p.bytes ++ post).toArray out.length =
      .ok ((out ++ p.bytes ++ post).length - out.length) out.length := by
    rw [bufLen_eq (by simp), List.size_toArray]
  have hgoal : ∀ (hpf : parseFields (out ++ p.bytes ++ post).toArray ((out ++ p.bytes ++ post).length - out.length)
      p.bytes.length ps out.length = .ok (canonFields rr ws) (out.length + p.bytes.length)),
      parseRRData (out ++ p.bytes ++ post).toArray p.bytes.length rr.type rawT rawC rawTtl out.length =
        .ok (canonFields rr ws, 0) (out.length + p.bytes.length) := by
    intro hpf
    unfold parseRRData
    rw [if_neg h1, if_neg h2, if_neg h3]
    simp only [hps]
    rw [P.bind_ok hbl, P.bind_ok hpf]
    rfl
  simp only [compatible, Bool.or_eq_true] at hc
  rcases hc with hc | hc
  · obtain ⟨f1, f2, f3⟩ := parseFields_writeFields ps ws hc out post out.length _ p.bytes.length names
      (allowNameComp rr.type) rr p hw hinv hok (Nat.le_refl _) rfl (by omega)
    exact ⟨hgoal f1, f2, f3⟩
  · -- TXT
    match ps, ws, hc with
    | [(.abin false, pk)], [(.abin wf, wk)], hc =>
      have : pk = wk := by simpa using hc
      subst this
      obtain ⟨f1, f2, f3⟩ := parseFields_writeFields_abin pk wf out post _ p.bytes.length names
        (allowNameComp rr.type) rr p hw hinv rfl rfl
      exact ⟨hgoal f1, f2, f3⟩

theorem writeOpts_notrunc (l : List (Nat × BStr)) (h : ∀ q ∈ l, q.1 < 65536 ∧ q.2.length < 65536) :
    (writeOpts l).2 = false := by
  induction l with
  | nil => rfl
  | cons a r ih =>
    obtain ⟨id, v⟩ := a
    have hv := (h (id, v) List.mem_cons_self).2
    dsimp only at hv
    simp only [writeOpts, u16t, Bool.or_eq_false_iff, decide_eq_false_iff_not]
    exact ⟨by omega, ih (fun q hq => h q (List.mem_cons_of_mem _ hq))⟩

/-- RDATA of an OPT RR -/
theorem parseRRData_opt (rr : RR) (hopt : rr.type = RecType.opt) (out post : BStr)
    (hok : fieldOk rr .opts Key.optOptions = true) (rawT rawC rawTtl : Nat) :
    parseRRData (out ++ (writeOpts (getOpts rr Key.optOptions)).1 ++ post).toArray
        (writeOpts (getOpts rr Key.optOptions)).1.length rr.type rawT rawC rawTtl out.length =
      .ok ([(Key.optUdpSize, .u16 rawC), (Key.optVersion, .u8 ((rawTtl >>> 16) &&& 0xFF)),
            (Key.optFlags, .u16 (rawTtl &&& 0xFFFF)), (Key.optOptions, .opt (getOpts rr Key.optOptions))],
           (rawTtl >>> 20) &&& 0x0FF0)
        (out.length + (writeOpts (getOpts rr Key.optOptions)).1.length) ∧
    (writeOpts (getOpts rr Key.optOptions)).2 = false := by
  simp only [fieldOk, Bool.and_eq_true, List.all_eq_true, decide_eq_true_eq] at hok
  have hval : ∀ q ∈ getOpts rr Key.optOptions, q.1 < 65536 ∧ q.2.length < 65536 :=
    fun q hq => by have := hok.1 q hq; simpa using this
  refine ⟨?_, writeOpts_notrunc _ hval⟩
  have hbl : bufLen (out ++ (writeOpts (getOpts rr Key.optOptions)).1 ++ post).toArray out.length =
      .ok ((out ++ (writeOpts (getOpts rr Key.optOptions)).1 ++ post).length - out.length) out.length := by
    rw [bufLen_eq (by simp), List.size_toArray]
  have hloop := optLoop_written (getOpts rr Key.optOptions) out post out.length
    ((out ++ (writeOpts (getOpts rr Key.optOptions)).1 ++ post).length - out.length)
    (writeOpts (getOpts rr Key.optOptions)).1.length [] hval (Nat.le_refl _) rfl (by omega)
  rw [setOpts_nodup _ [] (by simpa using hok.2)] at hloop
  unfold parseRRData
  have hany : rr.type ≠ RecType.any := by rw [hopt]; decide
  rw [if_neg hany, if_pos hopt]
  unfold parseRROpt
  rw [P.bind_ok hbl, P.bind_ok hloop]
  rfl

/-- RDATA of a RAW_RR -/
theorem parseRRData_raw (rr : RR) (hraw : rr.type = RecType.rawRR) (out d post : BStr) (rawT rawC rawTtl : Nat) :
    parseRRData (out ++ d ++ post).toArray d.length rr.type rawT rawC rawTtl out.length =
      .ok ([(Key.rawRRType, .u16 rawT), (Key.rawRRData, .bin (some d))], 0) (out.length + d.length) := by
  unfold parseRRData
  have hany : rr.type ≠ RecType.any := by rw [hraw]; decide
  have hopt : rr.type ≠ RecType.opt := by rw [hraw]; decide
  rw [if_neg hany, if_neg hopt, if_pos hraw]
  unfold parseRRRaw
  by_cases h0 : d.length = 0
  · have : d = [] := List.eq_nil_of_length_eq_zero h0
    subst this
    rfl
  · rw [if_neg h0]
    have hin : (do let b ← fetchBytes (out ++ d ++ post).toArray d.length
                   pure [(Key.rawRRType, Val.u16 rawT), (Key.rawRRData, Val.bin (some b))] : P _) out.length =
        .ok [(Key.rawRRType, Val.u16 rawT), (Key.rawRRData, Val.bin (some d))] (out.length + d.length) := by
      rw [P.bind_ok (fetchBytes_written out d post h0)]
      rfl
    rw [P.bind_ok hin]
    rfl

end Cares.Dns.Write
